// C07 correspondence harness: builds stacks of eStargz layers from generated tars (additions, whiteouts, opaque
// directories, replaced entries, ".wh."-prefixed names, landmarks), opens them with both metadata stores, obtains
// the layer root node exactly as (*layer).RootNode does and drives the go-fuse node API of fs/layer/node.go
// (Readdir / Lookup / Getattr / Getxattr / Listxattr, state directory) without mounting.
//
// One case = one node of one layer + a history of calls on it. The Coq term carries the node's metadata view
// (children as metadata.Reader reports them), the history and the observed outputs (Model/Node.v).
// Model-free oracles: the clauses of C07 evaluated on the observations (node level), and for every stack the
// overlayfs merge of the served trees against the OCI application of the tars (stack level).
package main

import (
	"archive/tar"
	"bytes"
	"context"
	"crypto/sha256"
	"encoding/json"
	"fmt"
	"io"
	"os"
	"path"
	"path/filepath"
	"sort"
	"strings"
	"syscall"
	"time"

	"github.com/containerd/containerd/v2/pkg/reference"
	"github.com/containerd/stargz-snapshotter/cache"
	dbmeta "github.com/containerd/stargz-snapshotter/cmd/containerd-stargz-grpc/db"
	"github.com/containerd/stargz-snapshotter/estargz"
	"github.com/containerd/stargz-snapshotter/fs/layer"
	"github.com/containerd/stargz-snapshotter/fs/reader"
	"github.com/containerd/stargz-snapshotter/fs/remote"
	"github.com/containerd/stargz-snapshotter/fs/source"
	"github.com/containerd/stargz-snapshotter/metadata"
	memorymeta "github.com/containerd/stargz-snapshotter/metadata/memory"
	fusefs "github.com/hanwen/go-fuse/v2/fs"
	"github.com/hanwen/go-fuse/v2/fuse"
	digest "github.com/opencontainers/go-digest"
	ocispec "github.com/opencontainers/image-spec/specs-go/v1"
	"github.com/sirupsen/logrus"
	bolt "go.etcd.io/bbolt"
	"verif/harness/hx"
)

const (
	whPrefix  = ".wh."
	opqMarker = ".wh..wh..opq"
	stateDir  = ".stargz-snapshotter"
	sIFMT     = 0o170000
	sIFCHR    = 0o020000
	sIFDIR    = 0o040000
)

// ---------------------------------------------------------------------------------------------
// case description (JSON, replayable)

type TarEnt struct {
	P    string            `json:"p"`           // path, no leading/trailing slash
	K    string            `json:"k"`           // f d l c b p
	M    int               `json:"m"`           // tar mode (permission + setuid/setgid/sticky bits)
	UID  int               `json:"u,omitempty"` //
	GID  int               `json:"g,omitempty"` //
	Maj  int               `json:"maj,omitempty"`
	Min  int               `json:"min,omitempty"`
	Size int               `json:"sz,omitempty"`
	Link string            `json:"l,omitempty"`
	X    map[string]string `json:"x,omitempty"`
}

type Op struct {
	Op   string `json:"op"` // readdir lookup forget getattr getxattr listxattr state
	Name string `json:"n,omitempty"`
	Reg  bool   `json:"reg,omitempty"`
	Dlen int    `json:"dlen,omitempty"`
}

type Case struct {
	Layers    [][]TarEnt `json:"layers"`
	LI        int        `json:"li"`     // which layer the node belongs to
	Path      string     `json:"path"`   // path of the node inside that layer ("" = root)
	Store     string     `json:"store"`  // memory | db
	Opaque    int        `json:"opaque"` // 0 all, 1 trusted, 2 user
	Base      uint32     `json:"base"`
	BSize     int64      `json:"bsize"`
	Fetched   int64      `json:"fetched"`
	Stack     bool       `json:"stack"`                // also evaluate the stack oracle
	Attach    bool       `json:"attach,omitempty"`     // the layer root is attached as a persistent child of a foreign go-fuse tree (store/fs.go) instead of being the root of its own NodeFS
	StackOnly bool       `json:"stack_only,omitempty"` // the case is the stack itself (Coq: SC term for Model/Overlay.v), no node history
	Fake      *FakeTree  `json:"fake,omitempty"`       // store == "fake": an arbitrary metadata tree served by an in-memory metadata.Reader
	Ops       []Op       `json:"ops"`
}

// FakeTree is a metadata view given directly (no tar, no TOC): it reaches children maps and ids that the real stores
// cannot produce from a small blob (ids near 2^32, which make inodeOfID fail and the node code answer EIO).
type FakeKid struct {
	N  string `json:"n"`
	ID uint32 `json:"id"`
}
type FakeNode struct {
	ID   uint32            `json:"id"`
	Size int64             `json:"size,omitempty"`
	Mode uint32            `json:"mode"` // os.FileMode bits
	UID  int               `json:"uid,omitempty"`
	GID  int               `json:"gid,omitempty"`
	Maj  int               `json:"maj,omitempty"`
	Min  int               `json:"min,omitempty"`
	NL   int               `json:"nl,omitempty"`
	Link string            `json:"link,omitempty"`
	X    map[string]string `json:"x,omitempty"`
	Kids []FakeKid         `json:"kids,omitempty"`
}
type FakeTree struct {
	Root  uint32     `json:"root"`
	Nodes []FakeNode `json:"nodes"`
}

const maxServableID = ^uint32(0) - 3

func (t *FakeTree) hasHugeID() bool {
	for _, n := range t.Nodes {
		if n.ID > maxServableID {
			return true
		}
	}
	return false
}

type fakeReader struct {
	t     *FakeTree
	nodes map[uint32]*FakeNode
}

func newFakeReader(t *FakeTree) *fakeReader {
	f := &fakeReader{t: t, nodes: map[uint32]*FakeNode{}}
	for i := range t.Nodes {
		f.nodes[t.Nodes[i].ID] = &t.Nodes[i]
	}
	return f
}
func (f *fakeReader) attr(n *FakeNode) metadata.Attr {
	a := metadata.Attr{Size: n.Size, LinkName: n.Link, Mode: os.FileMode(n.Mode), UID: n.UID, GID: n.GID, DevMajor: n.Maj, DevMinor: n.Min,
		NumLink: n.NL, ModTime: time.Unix(1700000000, 0), Xattrs: map[string][]byte{}}
	for k, v := range n.X {
		a.Xattrs[k] = []byte(v)
	}
	return a
}
func (f *fakeReader) RootID() uint32           { return f.t.Root }
func (f *fakeReader) TOCDigest() digest.Digest { return digest.FromString("fake-toc") }
func (f *fakeReader) GetOffset(id uint32) (int64, error) {
	return 0, fmt.Errorf("fake: no offsets")
}
func (f *fakeReader) GetAttr(id uint32) (metadata.Attr, error) {
	n, ok := f.nodes[id]
	if !ok {
		return metadata.Attr{}, fmt.Errorf("fake: no node %d", id)
	}
	return f.attr(n), nil
}
func (f *fakeReader) GetChild(pid uint32, base string) (uint32, metadata.Attr, error) {
	p, ok := f.nodes[pid]
	if !ok {
		return 0, metadata.Attr{}, fmt.Errorf("fake: no node %d", pid)
	}
	for _, k := range p.Kids {
		if k.N == base {
			c, ok := f.nodes[k.ID]
			if !ok {
				return 0, metadata.Attr{}, fmt.Errorf("fake: dangling child")
			}
			return k.ID, f.attr(c), nil
		}
	}
	return 0, metadata.Attr{}, fmt.Errorf("fake: no child %q", base)
}
func (f *fakeReader) ForeachChild(id uint32, fn func(name string, id uint32, mode os.FileMode) bool) error {
	p, ok := f.nodes[id]
	if !ok {
		return fmt.Errorf("fake: no node %d", id)
	}
	for _, k := range p.Kids {
		c, ok := f.nodes[k.ID]
		if !ok {
			return fmt.Errorf("fake: dangling child")
		}
		if !fn(k.N, k.ID, os.FileMode(c.Mode)) {
			break
		}
	}
	return nil
}
func (f *fakeReader) OpenFile(id uint32) (metadata.File, error) {
	return nil, fmt.Errorf("fake: no contents")
}
func (f *fakeReader) OpenFileWithPreReader(id uint32, preRead func(id uint32, chunkOffset, chunkSize int64, chunkDigest string, r io.Reader) error) (metadata.File, error) {
	return nil, fmt.Errorf("fake: no contents")
}
func (f *fakeReader) Clone(sr *io.SectionReader) (metadata.Reader, error) { return f, nil }
func (f *fakeReader) Close() error                                        { return nil }

// ---------------------------------------------------------------------------------------------
// building layers

type builtLayer struct {
	blob []byte
	toc  digest.Digest
	dg   digest.Digest
}

var blobCache = map[string]*builtLayer{}

func buildLayer(ents []TarEnt) (*builtLayer, error) {
	key, _ := json.Marshal(ents)
	if b, ok := blobCache[string(key)]; ok {
		return b, nil
	}
	var tb bytes.Buffer
	tw := tar.NewWriter(&tb)
	mt := time.Unix(1700000000, 0)
	for _, e := range ents {
		h := &tar.Header{Name: e.P, Mode: int64(e.M), Uid: e.UID, Gid: e.GID, ModTime: mt, Format: tar.FormatPAX}
		var content []byte
		switch e.K {
		case "d":
			h.Typeflag = tar.TypeDir
			h.Name = e.P + "/"
		case "l":
			h.Typeflag = tar.TypeSymlink
			h.Linkname = e.Link
		case "c":
			h.Typeflag = tar.TypeChar
			h.Devmajor, h.Devminor = int64(e.Maj), int64(e.Min)
		case "b":
			h.Typeflag = tar.TypeBlock
			h.Devmajor, h.Devminor = int64(e.Maj), int64(e.Min)
		case "p":
			h.Typeflag = tar.TypeFifo
		default:
			h.Typeflag = tar.TypeReg
			content = bytes.Repeat([]byte{'x'}, e.Size)
			h.Size = int64(len(content))
		}
		if len(e.X) > 0 {
			h.PAXRecords = map[string]string{}
			for k, v := range e.X {
				h.PAXRecords["SCHILY.xattr."+k] = v
			}
		}
		if err := tw.WriteHeader(h); err != nil {
			return nil, err
		}
		if len(content) > 0 {
			if _, err := tw.Write(content); err != nil {
				return nil, err
			}
		}
	}
	if err := tw.Close(); err != nil {
		return nil, err
	}
	var out bytes.Buffer
	w := estargz.NewWriter(&out)
	if err := w.AppendTar(&tb); err != nil {
		return nil, err
	}
	toc, err := w.Close()
	if err != nil {
		return nil, err
	}
	b := &builtLayer{blob: out.Bytes(), toc: toc, dg: digest.FromBytes(out.Bytes())}
	blobCache[string(key)] = b
	return b, nil
}

var boltDB *bolt.DB
var tmpDir string

func openStore(store string, b *builtLayer) (metadata.Reader, error) {
	sr := io.NewSectionReader(bytes.NewReader(b.blob), 0, int64(len(b.blob)))
	if store == "db" {
		if boltDB == nil {
			base := ""
			if st, err := os.Stat("/dev/shm"); err == nil && st.IsDir() {
				base = "/dev/shm"
			}
			d, err := os.MkdirTemp(base, "c07node")
			if err != nil {
				return nil, err
			}
			tmpDir = d
			boltDB, err = bolt.Open(filepath.Join(d, "meta.db"), 0600, &bolt.Options{NoSync: true, NoFreelistSync: true})
			if err != nil {
				return nil, err
			}
		}
		return dbmeta.NewReader(boltDB, sr)
	}
	return memorymeta.NewReader(sr)
}

type fakeBlob struct{ size, fetched int64 }

func (b *fakeBlob) Check() error       { return nil }
func (b *fakeBlob) Size() int64        { return b.size }
func (b *fakeBlob) FetchedSize() int64 { return b.fetched }
func (b *fakeBlob) ReadAt(p []byte, offset int64, opts ...remote.Option) (int, error) {
	return 0, nil
}
func (b *fakeBlob) Cache(offset int64, size int64, opts ...remote.Option) error { return nil }
func (b *fakeBlob) Refresh(ctx context.Context, host source.RegistryHosts, refspec reference.Spec, desc ocispec.Descriptor) error {
	return nil
}
func (b *fakeBlob) Close() error { return nil }

type openLayer struct {
	blob  *fakeBlob // the layer's blob: the harness controls what FetchedSize reports
	mr    metadata.Reader
	root  fusefs.InodeEmbedder
	dg    digest.Digest
	close func()
}

func openFake(c Case) (*openLayer, error) {
	return openRootOn(newFakeReader(c.Fake), digest.FromString("fake-layer"), digest.FromString("fake-toc"), c.Opaque, c.Base, c.BSize, c.Fetched)
}

func openRoot(b *builtLayer, store string, opaque int, base uint32, bsize, fetched int64) (*openLayer, error) {
	mr, err := openStore(store, b)
	if err != nil {
		return nil, fmt.Errorf("store: %w", err)
	}
	return openRootOn(mr, b.dg, b.toc, opaque, base, bsize, fetched)
}

func openRootOn(mr metadata.Reader, dg, toc digest.Digest, opaque int, base uint32, bsize, fetched int64) (*openLayer, error) {
	b := &builtLayer{dg: dg, toc: toc}
	var err error
	vr, err := reader.NewReader(mr, cache.NewMemoryCache(), b.dg)
	if err != nil {
		mr.Close()
		return nil, err
	}
	rr, err := vr.VerifyTOC(b.toc)
	if err != nil {
		vr.Close()
		return nil, err
	}
	// the db store answers GetAttr(root) without waiting for its asynchronous initialisation (link count of the root may
	// still be partial: DESIGN F13, a C05 matter); wait for it so that the root attributes newNode captures are final
	_ = mr.ForeachChild(mr.RootID(), func(string, uint32, os.FileMode) bool { return false })
	fb := &fakeBlob{bsize, fetched}
	root, err := layer.VerifNewRootNodeC07(b.dg, rr, fb, base, layer.OverlayOpaqueType(opaque))
	if err != nil {
		rr.Close()
		return nil, err
	}
	if attachMode {
		// what store/fs.go layernode.Lookup does for the additional-layer store: the layer's root node becomes a persistent
		// child inode ("diff") of a node of ANOTHER go-fuse tree; it is the root of the layer but not of the tree
		parent := &fusefs.Inode{}
		fusefs.NewNodeFS(parent, &fusefs.Options{})
		var ao fuse.AttrOut
		if errno := root.(fusefs.NodeGetattrer).Getattr(context.Background(), nil, &ao); errno != 0 {
			ao.Attr.Mode, ao.Attr.Ino = sIFDIR|0o755, 0 // (a root id beyond the inode space: the store would refuse; attach anyway)
		}
		cn := parent.NewPersistentInode(context.Background(), root, fusefs.StableAttr{Mode: ao.Attr.Mode & sIFMT, Ino: ao.Attr.Ino})
		parent.AddChild("diff", cn, true)
	} else {
		fusefs.NewNodeFS(root, &fusefs.Options{}) // initialises the root inode (as the server does on mount)
	}
	return &openLayer{blob: fb, mr: mr, root: root, dg: b.dg, close: func() { rr.Close() }}, nil
}

// ---------------------------------------------------------------------------------------------
// observations

type FAttr struct {
	Ino, Size, Blocks        uint64
	Mode, UID, GID, Rdev, NL uint32
}

func fromFuse(a *fuse.Attr) FAttr {
	return FAttr{a.Ino, a.Size, a.Blocks, a.Mode, a.Uid, a.Gid, a.Rdev, a.Nlink}
}
func (a FAttr) list() []int64 {
	return []int64{int64(a.Ino), int64(a.Size), int64(a.Blocks), int64(a.Mode), int64(a.UID), int64(a.GID), int64(a.Rdev), int64(a.NL)}
}

type Obs struct {
	Z []int64  `json:"z"`
	S []string `json:"s"`
}

type dirent struct {
	Name string
	Mode uint32
	Ino  uint64
}

func doReaddir(n fusefs.InodeEmbedder) ([]dirent, syscall.Errno) {
	rd, ok := n.(fusefs.NodeReaddirer)
	if !ok {
		return nil, syscall.ENOTDIR
	}
	ds, errno := rd.Readdir(context.Background())
	if errno != 0 {
		return nil, errno
	}
	var out []dirent
	for ds.HasNext() {
		e, errno := ds.Next()
		if errno != 0 {
			return nil, errno
		}
		out = append(out, dirent{e.Name, e.Mode, e.Ino})
	}
	return out, 0
}

type lookupRes struct {
	errno   syscall.Errno
	kind    string
	inode   *fusefs.Inode
	attr    FAttr // EntryOut.Attr as filled by the node
	gerrno  syscall.Errno
	gattr   FAttr  // Getattr of the returned node object
	servedM uint32 // mode as the go-fuse bridge reports it: (Attr.Mode & 07777) | StableAttr.Mode
}

func doLookup(n fusefs.InodeEmbedder, name string) lookupRes {
	lk, ok := n.(fusefs.NodeLookuper)
	if !ok {
		return lookupRes{errno: syscall.ENOTDIR}
	}
	var eo fuse.EntryOut
	ino, errno := lk.Lookup(context.Background(), name, &eo)
	if errno != 0 {
		return lookupRes{errno: errno}
	}
	r := lookupRes{kind: layer.VerifNodeKindC07(ino.Operations()), inode: ino, attr: fromFuse(&eo.Attr)}
	r.servedM = (eo.Attr.Mode & 0o7777) | ino.StableAttr().Mode
	if ga, ok := ino.Operations().(fusefs.NodeGetattrer); ok {
		var ao fuse.AttrOut
		r.gerrno = ga.Getattr(context.Background(), nil, &ao)
		r.gattr = fromFuse(&ao.Attr)
	} else {
		r.gerrno = syscall.ENOSYS
	}
	return r
}

func kindTag(k string) int64 {
	switch k {
	case "node":
		return 1
	case "whiteout":
		return 2
	case "state":
		return 3
	}
	return 9
}

func (r lookupRes) obs() Obs {
	if r.errno != 0 {
		return Obs{Z: []int64{int64(r.errno)}}
	}
	z := []int64{0, kindTag(r.kind)}
	z = append(z, r.attr.list()...)
	if r.gerrno != 0 {
		z = append(z, int64(r.gerrno))
	} else {
		z = append(z, 0)
		z = append(z, r.gattr.list()...)
	}
	return Obs{Z: z}
}

func listingObs(ents []dirent, errno syscall.Errno) Obs {
	if errno != 0 {
		return Obs{Z: []int64{int64(errno)}}
	}
	c := append([]dirent{}, ents...)
	sort.SliceStable(c, func(i, j int) bool {
		if c[i].Name != c[j].Name {
			return c[i].Name < c[j].Name
		}
		if c[i].Mode != c[j].Mode {
			return c[i].Mode < c[j].Mode
		}
		return c[i].Ino < c[j].Ino
	})
	o := Obs{Z: []int64{0}, S: []string{}}
	for _, e := range c {
		o.Z = append(o.Z, int64(e.Mode), int64(e.Ino))
		o.S = append(o.S, e.Name)
	}
	return o
}

func doGetxattr(n fusefs.InodeEmbedder, name string, dlen int) (uint32, syscall.Errno, string) {
	gx, ok := n.(fusefs.NodeGetxattrer)
	if !ok {
		return 0, syscall.ENOSYS, ""
	}
	buf := make([]byte, dlen)
	sz, errno := gx.Getxattr(context.Background(), name, buf)
	if errno != 0 {
		return sz, errno, ""
	}
	return sz, 0, string(buf[:sz])
}

func doListxattr(n fusefs.InodeEmbedder, dlen int) (uint32, syscall.Errno, []string) {
	lx, ok := n.(fusefs.NodeListxattrer)
	if !ok {
		return 0, syscall.ENOSYS, nil
	}
	buf := make([]byte, dlen)
	sz, errno := lx.Listxattr(context.Background(), buf)
	if errno != 0 {
		return sz, errno, nil
	}
	names := []string{}
	for _, s := range strings.Split(string(buf[:sz]), "\x00") {
		if s != "" {
			names = append(names, s)
		}
	}
	return sz, 0, names
}

// ---------------------------------------------------------------------------------------------
// metadata view of a node (the model's input)

type MChild struct {
	Name string
	ID   uint32
	Mode os.FileMode
	Attr metadata.Attr
}

func metaChildren(mr metadata.Reader, id uint32) ([]MChild, error) {
	var out []MChild
	var ferr error
	err := mr.ForeachChild(id, func(name string, cid uint32, mode os.FileMode) bool {
		a, err := mr.GetAttr(cid)
		if err != nil {
			ferr = err
			return false
		}
		out = append(out, MChild{name, cid, mode, a})
		return true
	})
	if err != nil {
		return nil, err
	}
	if ferr != nil {
		return nil, ferr
	}
	sort.Slice(out, func(i, j int) bool { return out[i].Name < out[j].Name })
	return out, nil
}

func coqStr(s string) string { return "\"" + strings.ReplaceAll(s, "\"", "\"\"") + "\"" }

func coqZ(n int64) string {
	if n < 0 {
		return fmt.Sprintf("(%d)", n)
	}
	return fmt.Sprintf("%d", n)
}

func coqAttr(a metadata.Attr, mode os.FileMode) string {
	keys := make([]string, 0, len(a.Xattrs))
	for k := range a.Xattrs {
		keys = append(keys, k)
	}
	sort.Strings(keys)
	xs := make([]string, len(keys))
	for i, k := range keys {
		xs[i] = fmt.Sprintf("(%s, %s)", coqStr(k), coqStr(string(a.Xattrs[k])))
	}
	return fmt.Sprintf("(mkAttr %s %d %s %s %s %s %s %d %s)", coqZ(a.Size), uint32(mode), coqZ(int64(a.UID)), coqZ(int64(a.GID)),
		coqZ(int64(a.DevMajor)), coqZ(int64(a.DevMinor)), coqZ(int64(a.NumLink)), len(a.LinkName), hx.CoqList(xs))
}

func coqObs(o Obs) string {
	z := make([]string, len(o.Z))
	for i, v := range o.Z {
		z[i] = fmt.Sprintf("%d", uint64(v)) // observations are unsigned (uint64 sizes and inode numbers wrap in int64)
	}
	s := make([]string, len(o.S))
	for i, v := range o.S {
		s[i] = coqStr(v)
	}
	return fmt.Sprintf("(%s, %s)", hx.CoqList(z), hx.CoqList(s))
}

func printable(s string) bool {
	for i := 0; i < len(s); i++ {
		if s[i] < 0x20 || s[i] > 0x7e {
			return false
		}
	}
	return true
}

// ---------------------------------------------------------------------------------------------
// executing one node case

type nodeRun struct {
	coq      string
	obs      []Obs
	problems []problem
	stats    []string
	skipped  string
}

type problem struct {
	sig  string // non-empty: candidate known finding
	what string
}

func navigate(ol *openLayer, p string) (fusefs.InodeEmbedder, uint32, metadata.Attr, error) {
	cur := ol.root
	id := ol.mr.RootID()
	attr, err := ol.mr.GetAttr(id)
	if err != nil {
		return nil, 0, attr, err
	}
	if p == "" {
		return cur, id, attr, nil
	}
	for _, comp := range strings.Split(p, "/") {
		r := doLookup(cur, comp)
		if r.errno != 0 {
			return nil, 0, attr, fmt.Errorf("lookup %q: errno %d", comp, r.errno)
		}
		if r.kind != "node" {
			return nil, 0, attr, fmt.Errorf("lookup %q: kind %s", comp, r.kind)
		}
		cid, a, err := ol.mr.GetChild(id, comp)
		if err != nil {
			return nil, 0, attr, err
		}
		cur, id, attr = r.inode.Operations(), cid, a
	}
	return cur, id, attr, nil
}

func opaqueNames(opaque int) []string {
	switch opaque {
	case 1:
		return []string{"trusted.overlay.opaque"}
	case 2:
		return []string{"user.overlay.opaque"}
	}
	return []string{"trusted.overlay.opaque", "user.overlay.opaque"}
}

func hiddenName(isRoot bool, name string) bool {
	return strings.HasPrefix(name, whPrefix) || (isRoot && (name == estargz.PrefetchLandmark || name == estargz.NoPrefetchLandmark))
}

func runNode(c Case) (res nodeRun) {
	var ol *openLayer
	var err error
	if c.Fake != nil {
		ol, err = openFake(c)
	} else {
		var b *builtLayer
		b, err = buildLayer(c.Layers[c.LI])
		if err != nil {
			res.skipped = "build: " + err.Error()
			return
		}
		ol, err = openRoot(b, c.Store, c.Opaque, c.Base, c.BSize, c.Fetched)
	}
	if err != nil {
		res.skipped = "open: " + err.Error()
		return
	}
	defer ol.close()
	n, id, selfAttr, err := navigate(ol, c.Path)
	if err != nil {
		res.skipped = "navigate: " + err.Error()
		return
	}
	isRoot := c.Path == ""
	kids, err := metaChildren(ol.mr, id)
	if err != nil {
		res.skipped = "children: " + err.Error()
		return
	}
	for _, k := range kids {
		if !printable(k.Name) {
			res.skipped = "unprintable name"
			return
		}
	}
	bad := func(format string, a ...any) {
		res.problems = append(res.problems, problem{"", fmt.Sprintf(format, a...)})
	}
	kidByName := map[string]MChild{}
	for _, k := range kids {
		kidByName[k.Name] = k
	}
	inode := n.EmbeddedInode()

	// ---- the history ----
	firstListing := ""
	firstLookup := map[string]string{}
	lookupNode := map[string]*fusefs.Inode{}
	registered := map[string]*fusefs.Inode{}
	// the state file as a long-lived object: its inode is kept across ops; the environment it reports (FetchedSize of the
	// blob, errors reported by failing ops) changes between the calls
	var statInode *fusefs.Inode
	reported := false
	fetchedAt := make([]int64, len(c.Ops))
	reportedAt := make([]bool, len(c.Ops))
	statLookup := func() (*fusefs.Inode, string, lookupRes) {
		r := doLookup(n, stateDir)
		if r.errno != 0 || r.kind != "state" {
			bad("Lookup(%q) on the root failed (errno %d kind %q)", stateDir, int(r.errno), r.kind)
			return nil, "", r
		}
		name := ol.dg.String() + ".json"
		f := doLookup(r.inode.Operations(), name)
		if f.errno != 0 || f.kind != "statfile" {
			bad("stat file %q cannot be looked up (errno %d kind %q)", name, int(f.errno), f.kind)
			return nil, name, f
		}
		return f.inode, name, f
	}
	for oi, o := range c.Ops {
		fetchedAt[oi], reportedAt[oi] = ol.blob.fetched, reported
		var ob Obs
		switch o.Op {
		case "setfetched":
			ol.blob.fetched = int64(o.Dlen)
			ob = Obs{}
		case "statlookup":
			ino, name, f := statLookup()
			if ino == nil {
				ob = Obs{Z: []int64{int64(syscall.EIO)}}
				break
			}
			statInode = ino
			ob = Obs{Z: []int64{0, int64(f.attr.Mode), int64(f.attr.Ino)}, S: []string{name}}
		case "statgetattr":
			if statInode == nil {
				statInode, _, _ = statLookup()
			}
			if statInode == nil {
				ob = Obs{Z: []int64{int64(syscall.EIO)}}
				break
			}
			var ao fuse.AttrOut
			if errno := statInode.Operations().(fusefs.NodeGetattrer).Getattr(context.Background(), nil, &ao); errno != 0 {
				bad("Getattr of the stat file failed: %d", int(errno))
				ob = Obs{Z: []int64{int64(errno)}}
				break
			}
			ob = Obs{Z: []int64{0, int64(ao.Attr.Mode), int64(ao.Attr.Ino)}}
		case "statread":
			if statInode == nil {
				statInode, _, _ = statLookup()
			}
			if statInode == nil {
				ob = Obs{Z: []int64{int64(syscall.EIO)}}
				break
			}
			buf := make([]byte, 8192)
			rr, errno := statInode.Operations().(fusefs.NodeReader).Read(context.Background(), nil, buf, 0)
			if errno != 0 {
				bad("stat file read failed: %d", int(errno))
				ob = Obs{Z: []int64{int64(errno)}}
				break
			}
			data, _ := rr.Bytes(nil)
			var js struct {
				Error       string   `json:"error"`
				Digest      *string  `json:"digest"`
				Size        *int64   `json:"size"`
				FetchedSize *int64   `json:"fetchedSize"`
				Percent     *float64 `json:"fetchedPercent"`
			}
			if err := json.Unmarshal(data, &js); err != nil || js.Digest == nil || js.Size == nil || js.FetchedSize == nil {
				bad("stat file is not valid JSON with digest, size and fetchedSize: %q", string(data))
				ob = Obs{Z: []int64{-5}}
				break
			}
			// model-free: the file reports the blob as it is NOW, and an error iff one was reported
			if *js.Digest != ol.dg.String() || *js.Size != c.BSize {
				bad("stat file reports digest %q size %d; want %q %d", *js.Digest, *js.Size, ol.dg.String(), c.BSize)
			}
			if *js.FetchedSize != ol.blob.fetched {
				bad("stat file reports fetchedSize %d while the blob's FetchedSize is %d at the time of the Read", *js.FetchedSize, ol.blob.fetched)
			}
			if c.Fake != nil && c.Fake.hasHugeID() {
				// with ids beyond the inode space a Lookup miss reports the failure of the readdir it runs for memoisation
				// while answering ENOENT: the error state is not derivable from the answers; take it as observed
				reportedAt[oi] = js.Error != ""
			} else if (js.Error != "") != reported {
				bad("stat file error field %q while errors reported so far = %v", js.Error, reported)
			}
			he := int64(0)
			if js.Error != "" {
				he = 1
			}
			ob = Obs{Z: []int64{*js.Size, *js.FetchedSize, he}, S: []string{*js.Digest}}
			res.stats = append(res.stats, fmt.Sprintf("statread.err=%v", js.Error != ""))
		case "openfail":
			_, _, errno := n.(fusefs.NodeOpener).Open(context.Background(), 0)
			ob = Obs{Z: []int64{int64(errno)}}
		case "readdir":
			was := layer.VerifEntsCachedC07(n)
			ents, errno := doReaddir(n)
			ob = listingObs(ents, errno)
			if errno == 0 {
				if !sort.SliceIsSorted(ents, func(i, j int) bool { return ents[i].Name < ents[j].Name }) {
					bad("listing is not sorted by name")
				}
				k := coqObs(ob)
				if firstListing == "" {
					firstListing = k
				} else if firstListing != k {
					bad("listing changed between two Readdir calls of one node (memoised=%v)", was)
				}
			}
			res.stats = append(res.stats, fmt.Sprintf("readdir.memo=%v", was))
		case "lookup":
			was := layer.VerifEntsCachedC07(n)
			_, wasReg := registered[o.Name]
			r := doLookup(n, o.Name)
			ob = r.obs()
			k := coqObs(ob)
			if prev, ok := firstLookup[o.Name]; ok {
				if prev != k && o.Name != "" && o.Name != "." && o.Name != ".." {
					sig := ""
					res.problems = append(res.problems, problem{sig, fmt.Sprintf("Lookup(%q) answered differently in one history (memoised=%v, child in go-fuse tree=%v): %s then %s", o.Name, was, wasReg, prev, k)})
				}
			} else {
				firstLookup[o.Name] = k
			}
			if r.errno == 0 {
				if wasReg && registered[o.Name] != r.inode {
					bad("Lookup(%q) did not return the inode already in the go-fuse tree", o.Name)
				}
				lookupNode[o.Name] = r.inode
				if o.Reg && o.Name != "" && registered[o.Name] != r.inode {
					// what rawBridge.Lookup does with the result (addNewChild) — for every kind of child, the state
					// directory included (its inode is the only child of the root that is neither a node nor a whiteout)
					inode.AddChild(o.Name, r.inode, true)
					registered[o.Name] = r.inode
					res.stats = append(res.stats, "register."+r.kind)
				}
				res.stats = append(res.stats, "lookup."+r.kind)
			} else {
				res.stats = append(res.stats, fmt.Sprintf("lookup.errno%d", int(r.errno)))
				if r.errno == syscall.ENOENT && !was && layer.VerifEntsCachedC07(n) {
					res.stats = append(res.stats, "lookup.miss.memoises")
				}
			}
			res.stats = append(res.stats, fmt.Sprintf("lookup.memo=%v", was))
			if wasReg {
				res.stats = append(res.stats, "lookup.registered")
			}
		case "forget":
			if _, ok := registered[o.Name]; ok {
				inode.RmChild(o.Name)
				delete(registered, o.Name)
				res.stats = append(res.stats, "forget.hit")
			}
			ob = Obs{}
		case "getattr":
			var ao fuse.AttrOut
			errno := n.(fusefs.NodeGetattrer).Getattr(context.Background(), nil, &ao)
			if errno != 0 {
				ob = Obs{Z: []int64{int64(errno)}}
			} else {
				ob = Obs{Z: append([]int64{0}, fromFuse(&ao.Attr).list()...)}
			}
		case "readlink":
			b, errno := n.(fusefs.NodeReadlinker).Readlink(context.Background())
			if errno != 0 {
				bad("Readlink failed: %d", int(errno))
			}
			if string(b) != selfAttr.LinkName {
				bad("Readlink returned %q, the entry's link name is %q", string(b), selfAttr.LinkName)
			}
			ob = Obs{Z: []int64{int64(len(b))}}
		case "fgetattr":
			fh, _, errno := n.(fusefs.NodeOpener).Open(context.Background(), 0)
			if errno != 0 {
				bad("Open of a regular file failed: %d", int(errno))
				ob = Obs{Z: []int64{int64(errno)}}
				break
			}
			var ao fuse.AttrOut
			errno = fh.(fusefs.FileGetattrer).Getattr(context.Background(), &ao)
			if errno != 0 {
				ob = Obs{Z: []int64{int64(errno)}}
			} else {
				ob = Obs{Z: append([]int64{0}, fromFuse(&ao.Attr).list()...)}
			}
			if rl, ok := fh.(fusefs.FileReleaser); ok {
				rl.Release(context.Background())
			}
		case "getxattr":
			sz, errno, v := doGetxattr(n, o.Name, o.Dlen)
			ob = Obs{Z: []int64{int64(sz), int64(errno)}, S: []string{v}}
			res.stats = append(res.stats, fmt.Sprintf("getxattr.errno%d", int(errno)))
		case "listxattr":
			sz, errno, names := doListxattr(n, o.Dlen)
			sort.Strings(names)
			if names == nil {
				names = []string{}
			}
			ob = Obs{Z: []int64{int64(sz), int64(errno)}, S: names}
		case "state":
			ob = stateProbe(n, ol, c, bad)
		}
		if len(ob.Z) == 1 && ob.Z[0] == int64(syscall.EIO) {
			reported = true // every EIO answer of node.go goes with a report to the state file
		}
		if ob.S == nil {
			ob.S = []string{}
		}
		if ob.Z == nil {
			ob.Z = []int64{}
		}
		res.obs = append(res.obs, ob)
	}

	// ---- model-free oracle on the final state of this node (clauses of C07) ----
	// (a fake tree with ids beyond the 32-bit inode space legitimately answers EIO: such a case is compared with the model
	// only; the clauses below are stated for layers whose ids fit)
	func() {
		if c.Fake != nil && c.Fake.hasHugeID() {
			res.stats = append(res.stats, "fake.huge-id")
			return
		}
		ents, errno := doReaddir(n)
		if errno != 0 {
			bad("Readdir failed with errno %d", int(errno))
		}
		listed := map[string][]dirent{}
		for _, e := range ents {
			listed[e.Name] = append(listed[e.Name], e)
		}
		// the state directory stays reachable from the root, whatever the history left in the go-fuse tree
		if isRoot {
			if r := doLookup(n, stateDir); r.errno != 0 || r.kind != "state" {
				bad("Lookup(%q) on the root after the history: errno %d kind %q (want the state directory)", stateDir, int(r.errno), r.kind)
			}
		}
		// hidden names never listed
		for _, e := range ents {
			if hiddenName(isRoot, e.Name) {
				bad("hidden name %q is listed (mode %o) in %q", e.Name, e.Mode, c.Path)
			}
			if isRoot && e.Name == estargz.TOCTarName && c.Fake == nil { // (a fake tree may simply have an entry of that name)
				bad("TOC entry is listed in the root")
			}
			if isRoot && e.Name == stateDir {
				if _, real := kidByName[stateDir]; !real {
					bad("state directory is listed")
				}
			}
		}
		// probes: every child name, every whiteout target, listed names, a few absent ones
		probes := map[string]bool{"zz-absent": true, estargz.PrefetchLandmark: true, estargz.NoPrefetchLandmark: true, opqMarker: true, estargz.TOCTarName: true}
		for _, k := range kids {
			probes[k.Name] = true
			if strings.HasPrefix(k.Name, whPrefix) {
				probes[k.Name[len(whPrefix):]] = true
			}
		}
		for nm := range listed {
			probes[nm] = true
		}
		inoOfID := map[uint32]uint64{}
		idOfIno := map[uint64]uint32{}
		noteIno := func(id uint32, ino uint64, where string) {
			if p, ok := inoOfID[id]; ok && p != ino {
				bad("metadata id %d is served with two inode numbers %d and %d (%s)", id, p, ino, where)
			}
			if p, ok := idOfIno[ino]; ok && p != id {
				bad("inode number %d is served for two metadata ids %d and %d (%s)", ino, p, id, where)
			}
			inoOfID[id], idOfIno[ino] = ino, id
			if ino>>32 != uint64(c.Base) || ino&0xffffffff < 3 {
				bad("inode number %d outside the range of this layer or reserved (%s)", ino, where)
			}
		}
		names := make([]string, 0, len(probes))
		for nm := range probes {
			names = append(names, nm)
		}
		sort.Strings(names)
		for _, nm := range names {
			r := doLookup(n, nm)
			_, isListed := listed[nm]
			if nm == "" || nm == "." || nm == ".." || (isRoot && nm == stateDir) {
				continue // not names a kernel ever asks for / the deliberately hidden state directory
			}
			if hiddenName(isRoot, nm) && r.errno == 0 {
				bad("hidden name %q resolves in Lookup", nm)
			}
			if isListed != (r.errno == 0) {
				sig := ""
				res.problems = append(res.problems, problem{sig, fmt.Sprintf("listing and Lookup disagree on %q in %q: listed=%v lookup errno=%d", nm, c.Path, isListed, int(r.errno))})
				continue
			}
			if r.errno != 0 {
				continue
			}
			if r.gerrno != 0 {
				bad("Getattr of the looked-up %q failed: %d", nm, int(r.gerrno))
				continue
			}
			if len(listed[nm]) != 1 {
				bad("name %q listed %d times", nm, len(listed[nm]))
				continue
			}
			de := listed[nm][0]
			if de.Ino != r.attr.Ino || de.Ino != r.gattr.Ino || de.Ino != r.inode.StableAttr().Ino {
				bad("inode numbers of %q differ: dirent %d, entry %d, getattr %d, stable %d", nm, de.Ino, r.attr.Ino, r.gattr.Ino, r.inode.StableAttr().Ino)
			}
			if de.Mode&sIFMT != r.servedM&sIFMT || de.Mode&sIFMT != r.gattr.Mode&sIFMT {
				bad("file type of %q differs: dirent %o, entry %o, getattr %o", nm, de.Mode, r.servedM, r.gattr.Mode)
			}
			if mid, ok := layer.VerifNodeIDC07(r.inode.Operations()); ok {
				noteIno(mid, de.Ino, nm)
			}
			_, real := kidByName[nm]
			wh, hasWh := kidByName[whPrefix+nm]
			switch {
			case real:
				if r.kind != "node" {
					bad("real entry %q is served as %s", nm, r.kind)
				}
				if mid, _ := layer.VerifNodeIDC07(r.inode.Operations()); mid != kidByName[nm].ID {
					bad("real entry %q is served from metadata id %d, want %d", nm, mid, kidByName[nm].ID)
				}
			case hasWh:
				// whiteout shape: 0/0 character device, root owned, empty, one link — in the entry reply, in Getattr and in the listing
				if r.kind != "whiteout" {
					bad("whiteout target %q is served as %s", nm, r.kind)
				}
				for which, a := range map[string]FAttr{"entry": r.attr, "getattr": r.gattr} {
					m := a.Mode
					if which == "entry" {
						m = r.servedM
					}
					if m != sIFCHR || a.Rdev != 0 || a.UID != 0 || a.GID != 0 || a.Size != 0 || a.NL != 1 {
						bad("whiteout %q (%s) is not a plain 0/0 character device: mode %o rdev %d uid %d gid %d size %d nlink %d", nm, which, m, a.Rdev, a.UID, a.GID, a.Size, a.NL)
					}
				}
				if de.Mode != sIFCHR {
					bad("whiteout %q listed with mode %o", nm, de.Mode)
				}
				if mid, _ := layer.VerifNodeIDC07(r.inode.Operations()); mid != wh.ID {
					bad("whiteout %q is served from metadata id %d, want %d", nm, mid, wh.ID)
				}
			default:
				bad("name %q is served but the layer has neither it nor a whiteout for it", nm)
			}
		}
		// every real, non-hidden child is served, and every whiteout without a real sibling
		for _, k := range kids {
			if k.Name == "." || k.Name == ".." || k.Name == "" {
				continue
			}
			if !strings.HasPrefix(k.Name, whPrefix) && !hiddenName(isRoot, k.Name) {
				if _, ok := listed[k.Name]; !ok {
					bad("entry %q is not listed", k.Name)
				}
			}
			if strings.HasPrefix(k.Name, whPrefix) && k.Name != opqMarker {
				t := k.Name[len(whPrefix):]
				if t == "" || t == "." || t == ".." || hiddenName(isRoot, t) || (isRoot && t == stateDir) {
					continue
				}
				if _, ok := listed[t]; !ok {
					bad("whiteout %q does not appear as %q", k.Name, t)
				}
			}
		}
		// opaque xattr: for the configured names "y" iff the marker child exists; other overlay names absent
		_, hasMarker := kidByName[opqMarker]
		mine := map[string]bool{}
		for _, a := range opaqueNames(c.Opaque) {
			mine[a] = true
		}
		_, _, lnames := doListxattr(n, 4096)
		for _, a := range []string{"trusted.overlay.opaque", "user.overlay.opaque"} {
			if _, own := selfAttr.Xattrs[a]; own {
				continue
			}
			_, errno, v := doGetxattr(n, a, 16)
			want := hasMarker && mine[a]
			if want != (errno == 0 && v == "y") || (!want && errno != syscall.ENODATA) {
				bad("opaque xattr %q: marker=%v mode=%d got errno=%d value=%q", a, hasMarker, c.Opaque, int(errno), v)
			}
			cnt := 0
			for _, l := range lnames {
				if l == a {
					cnt++
				}
			}
			if (want && cnt != 1) || (!want && cnt != 0) {
				bad("Listxattr lists %q %d times: marker=%v mode=%d", a, cnt, hasMarker, c.Opaque)
			}
		}
		for k := range selfAttr.Xattrs {
			found := false
			for _, l := range lnames {
				found = found || l == k
			}
			if !found {
				bad("Listxattr omits the entry's own xattr %q", k)
			}
		}

	}()

	// ---- Coq term ----
	mode := []string{"OpqAll", "OpqTrusted", "OpqUser"}[c.Opaque]
	ch := make([]string, len(kids))
	for i, k := range kids {
		ch[i] = fmt.Sprintf("(%s, mkEnt %d %s)", coqStr(k.Name), k.ID, coqAttr(k.Attr, k.Mode))
		if k.Attr.Mode != k.Mode {
			bad("ForeachChild and GetAttr disagree on the mode of %q", k.Name)
		}
	}
	ops := make([]string, len(c.Ops))
	for i, o := range c.Ops {
		switch o.Op {
		case "readdir":
			ops[i] = "OReaddir"
		case "lookup":
			ops[i] = fmt.Sprintf("OLookup %s %s", coqStr(o.Name), hx.CoqBool(o.Reg && o.Name != ""))
		case "forget":
			ops[i] = fmt.Sprintf("OForget %s", coqStr(o.Name))
		case "readlink":
			ops[i] = "OReadlink"
		case "fgetattr":
			ops[i] = "OFGetattr"
		case "getattr":
			ops[i] = "OGetattr"
		case "getxattr":
			ops[i] = fmt.Sprintf("OGetxattr %s %d", coqStr(o.Name), o.Dlen)
		case "listxattr":
			ops[i] = fmt.Sprintf("OListxattr %d", o.Dlen)
		case "state":
			ops[i] = fmt.Sprintf("OState %s %d %d", coqStr(ol.dg.String()), c.BSize, fetchedAt[i])
		case "setfetched":
			ops[i] = fmt.Sprintf("OSetFetched %d", o.Dlen)
		case "statlookup":
			ops[i] = fmt.Sprintf("OStatLookup %s", coqStr(ol.dg.String()))
		case "statgetattr":
			ops[i] = "OStatGetattr"
		case "statread":
			ops[i] = fmt.Sprintf("OStatRead %s %d %d %s", coqStr(ol.dg.String()), c.BSize, fetchedAt[i], hx.CoqBool(reportedAt[i]))
		case "openfail":
			ops[i] = "OOpenFail"
		}
	}
	outs := make([]string, len(res.obs))
	for i, o := range res.obs {
		outs[i] = coqObs(o)
	}
	res.coq = fmt.Sprintf("(mkCfg %s %d %s, mkEnt %d %s, %s, %s, %s)", hx.CoqBool(isRoot), c.Base, mode, id, coqAttr(selfAttr, selfAttr.Mode),
		hx.CoqList(ch), hx.CoqList(ops), hx.CoqList(outs))
	for _, k := range kids {
		switch {
		case k.Name == opqMarker:
			res.stats = append(res.stats, "child.opaque-marker")
		case strings.HasPrefix(k.Name, whPrefix+whPrefix):
			res.stats = append(res.stats, "child.nested-wh")
		case strings.HasPrefix(k.Name, whPrefix):
			if _, ok := kidByName[k.Name[len(whPrefix):]]; ok {
				res.stats = append(res.stats, "child.whiteout.shadowed")
			} else {
				res.stats = append(res.stats, "child.whiteout")
			}
		case k.Name == estargz.PrefetchLandmark || k.Name == estargz.NoPrefetchLandmark:
			if isRoot {
				res.stats = append(res.stats, "child.landmark.root")
			} else {
				res.stats = append(res.stats, "child.landmark.subdir")
			}
		default:
			res.stats = append(res.stats, "child.normal")
		}
	}
	return
}

// stateProbe walks the hidden state directory of the root and returns the observation compared with the model;
// everything that is not part of that observation is checked here (JSON validity, sizes, negative lookups).
func stateProbe(n fusefs.InodeEmbedder, ol *openLayer, c Case, bad func(string, ...any)) Obs {
	r := doLookup(n, stateDir)
	if r.errno != 0 {
		bad("Lookup(%q) on the root failed with errno %d: the state directory is unreachable", stateDir, int(r.errno))
		return Obs{Z: []int64{int64(r.errno)}}
	}
	if r.kind != "state" {
		bad("Lookup(%q) on the root returned a %s", stateDir, r.kind)
		return Obs{Z: []int64{-1}}
	}
	st := r.inode.Operations()
	if r.gerrno != 0 || r.gattr != r.attr {
		bad("state directory: Getattr differs from the entry attributes")
	}
	ents, errno := doReaddir(st)
	if errno != 0 || len(ents) != 1 {
		bad("state directory lists %d entries (errno %d)", len(ents), int(errno))
		return Obs{Z: []int64{-2}}
	}
	if miss := doLookup(st, "nosuchfile"); miss.errno != syscall.ENOENT {
		bad("state directory resolves an arbitrary name")
	}
	f := doLookup(st, ents[0].Name)
	if f.errno != 0 || f.kind != "statfile" {
		bad("stat file %q cannot be looked up (errno %d kind %s)", ents[0].Name, int(f.errno), f.kind)
		return Obs{Z: []int64{-3}}
	}
	if f.attr.Ino != ents[0].Ino || f.attr.Mode != ents[0].Mode || f.gattr != f.attr {
		bad("stat file: listing, entry and Getattr disagree")
	}
	if f.attr.UID != 0 || f.attr.GID != 0 || f.attr.NL != 1 {
		bad("stat file is not owned by root with one link")
	}
	buf := make([]byte, 8192)
	rr, errno := f.inode.Operations().(fusefs.NodeReader).Read(context.Background(), nil, buf, 0)
	if errno != 0 {
		bad("stat file read failed: %d", int(errno))
		return Obs{Z: []int64{-4}}
	}
	data, _ := rr.Bytes(nil)
	if uint64(len(data)) != f.attr.Size {
		bad("stat file size %d but %d bytes read", f.attr.Size, len(data))
	}
	var js map[string]any
	if err := json.Unmarshal(data, &js); err != nil {
		bad("stat file is not valid JSON: %v", err)
		return Obs{Z: []int64{-5}}
	}
	dg, _ := js["digest"].(string)
	size, ok1 := js["size"].(float64)
	fetched, ok2 := js["fetchedSize"].(float64)
	if !ok1 || !ok2 {
		bad("stat file lacks size / fetchedSize")
	}
	if dg != ol.dg.String() || int64(size) != c.BSize || int64(fetched) != ol.blob.fetched {
		bad("stat file reports digest %q size %v fetched %v; want %q %d %d", dg, size, fetched, ol.dg.String(), c.BSize, ol.blob.fetched)
	}
	z := r.attr.list()
	z = append(z, int64(f.attr.Mode), int64(f.attr.Ino), int64(size), int64(fetched))
	return Obs{Z: z, S: []string{ents[0].Name, dg}}
}

// ---------------------------------------------------------------------------------------------
// stack oracle: overlayfs merge of the served trees == OCI application of the tars

type tnode struct {
	Mode   uint32 // full st_mode
	Kind   string // d f l c b p s(ocket) w(hiteout, served trees only)
	Perm   uint32 // mode without the type bits
	UID    uint32
	GID    uint32
	Size   uint64
	Rdev   uint32
	X      map[string]string
	Opaque bool
	Ch     map[string]*tnode
}

func kindOfSys(m uint32) string {
	switch m & sIFMT {
	case sIFDIR:
		return "d"
	case 0o120000:
		return "l"
	case sIFCHR:
		return "c"
	case 0o060000:
		return "b"
	case 0o010000:
		return "p"
	case 0o140000:
		return "s"
	}
	return "f"
}

// crawl builds the tree a kernel would see through the node API.
func crawl(n fusefs.InodeEmbedder, c Case, isRoot bool, r *hx.Rng, where string, inos map[uint64]uint32, bad func(string, string, ...any)) map[string]*tnode {
	out := map[string]*tnode{}
	if r.Bool() {
		doLookup(n, "zz-absent") // memoises the listing through the miss path first
	}
	ents, errno := doReaddir(n)
	if errno != 0 {
		bad("", "Readdir(%q) failed: %d", where, int(errno))
		return out
	}
	for _, e := range ents {
		if e.Name == "." || e.Name == ".." {
			continue
		}
		if e.Name == "" || strings.Contains(e.Name, "/") {
			bad("", "unusable name %q listed in %q", e.Name, where)
			continue
		}
		l := doLookup(n, e.Name)
		if l.errno != 0 {
			bad("", "listed name %q in %q cannot be looked up (errno %d)", e.Name, where, int(l.errno))
			continue
		}
		if l.kind == "state" {
			continue // reserved name (deliberately shadowed)
		}
		if id, ok := layer.VerifNodeIDC07(l.inode.Operations()); ok {
			if p, seen := inos[l.attr.Ino]; seen && p != id {
				bad("", "inode %d serves metadata ids %d and %d", l.attr.Ino, p, id)
			}
			inos[l.attr.Ino] = id
		}
		a := l.gattr
		t := &tnode{Mode: a.Mode, Kind: kindOfSys(a.Mode), Perm: a.Mode &^ sIFMT, UID: a.UID, GID: a.GID, Size: a.Size, Rdev: a.Rdev, X: map[string]string{}}
		if t.Kind == "c" && a.Rdev == 0 {
			t.Kind = "w" // what overlayfs takes for a whiteout
		}
		ops := l.inode.Operations()
		if t.Kind != "w" {
			_, _, xs := doListxattr(ops, 4096)
			for _, x := range xs {
				_, errno, v := doGetxattr(ops, x, 4096)
				if errno == 0 {
					t.X[x] = v
				}
			}
		}
		if t.Kind == "d" {
			t.Size = 0
			// overlayfs reads one of the two names depending on its userxattr option; the configured ones must agree
			vals := map[string]bool{}
			for _, a := range opaqueNames(c.Opaque) {
				vals[t.X[a]] = true
				delete(t.X, a)
			}
			if len(vals) != 1 {
				bad("", "opaque xattrs of %q disagree", where+"/"+e.Name)
			}
			t.Opaque = vals["y"]
			t.Ch = crawl(ops, c, false, r, where+"/"+e.Name, inos, bad)
		}
		out[e.Name] = t
	}
	return out
}

// overlay merge of directories given top-most first (kernel semantics: the first layer that has the name decides;
// directories merge downwards until a non-directory or an opaque directory is met; 0/0 char devices hide).
func overlayMerge(dirs []map[string]*tnode) map[string]*tnode {
	out := map[string]*tnode{}
	names := map[string]bool{}
	for _, d := range dirs {
		for k := range d {
			names[k] = true
		}
	}
	for name := range names {
		var top *tnode
		var sub []map[string]*tnode
		for _, d := range dirs {
			e, ok := d[name]
			if !ok {
				continue
			}
			if top == nil {
				if e.Kind == "w" {
					break
				}
				top = e
				if e.Kind != "d" {
					break
				}
				sub = append(sub, e.Ch)
				if e.Opaque {
					break
				}
				continue
			}
			if e.Kind != "d" {
				break
			}
			sub = append(sub, e.Ch)
			if e.Opaque {
				break
			}
		}
		if top == nil {
			continue
		}
		cp := *top
		cp.Opaque = false
		if top.Kind == "d" {
			cp.Ch = overlayMerge(sub)
		}
		out[name] = &cp
	}
	return out
}

func tarKindPerm(e TarEnt) (string, uint32) {
	p := uint32(e.M) & 0o7777
	return e.K, p
}

// applyOCI applies one layer tar to a root filesystem with image-spec semantics: whiteouts and opaque markers act
// on the lower state only, then the layer's own entries are added / replace what is there.
func applyOCI(root map[string]*tnode, ents []TarEnt) {
	dirOf := func(p string) map[string]*tnode {
		cur := root
		if p == "" || p == "." {
			return cur
		}
		for _, comp := range strings.Split(p, "/") {
			e, ok := cur[comp]
			if !ok || e.Kind != "d" {
				return nil
			}
			cur = e.Ch
		}
		return cur
	}
	// lower state first: opaque, then explicit whiteouts
	for _, e := range ents {
		d, b := path.Split(e.P)
		d = strings.TrimSuffix(d, "/")
		if b == opqMarker {
			if m := dirOf(d); m != nil {
				for k := range m {
					delete(m, k)
				}
			}
		}
	}
	for _, e := range ents {
		d, b := path.Split(e.P)
		d = strings.TrimSuffix(d, "/")
		if strings.HasPrefix(b, whPrefix) && b != opqMarker {
			t := b[len(whPrefix):]
			if t == "" || t == "." || t == ".." {
				continue
			}
			if m := dirOf(d); m != nil {
				delete(m, t)
			}
		}
	}
	for _, e := range ents {
		d, b := path.Split(e.P)
		d = strings.TrimSuffix(d, "/")
		if strings.HasPrefix(b, whPrefix) {
			continue
		}
		if d == "" && (b == estargz.PrefetchLandmark || b == estargz.NoPrefetchLandmark || b == estargz.TOCTarName) {
			continue // eStargz bookkeeping entries, not part of the image
		}
		m := dirOf(d)
		if m == nil {
			continue // parents are always explicit and earlier in the generated tars
		}
		k, perm := tarKindPerm(e)
		n := &tnode{Mode: map[string]uint32{"f": 0o100000, "d": sIFDIR, "l": 0o120000, "c": sIFCHR, "b": 0o060000, "p": 0o010000}[k] | perm,
			Kind: k, Perm: perm, UID: uint32(e.UID), GID: uint32(e.GID), X: map[string]string{}}
		for xk, xv := range e.X {
			n.X[xk] = xv
		}
		switch k {
		case "f":
			n.Size = uint64(e.Size)
		case "l":
			n.Size = uint64(len(e.Link))
		case "c", "b":
			n.Rdev = uint32(mkdev(uint32(e.Maj), uint32(e.Min)))
		case "d":
			n.Ch = map[string]*tnode{}
			if old, ok := m[b]; ok && old.Kind == "d" {
				n.Ch = old.Ch
			}
		}
		m[b] = n
	}
}

func mkdev(major, minor uint32) uint64 {
	dev := (uint64(major) & 0x00000fff) << 8
	dev |= (uint64(major) & 0xfffff000) << 32
	dev |= (uint64(minor) & 0x000000ff) << 0
	dev |= (uint64(minor) & 0xffffff00) << 12
	return dev
}

func diffTrees(a, b map[string]*tnode, where string, out *[]string) {
	names := map[string]bool{}
	for k := range a {
		names[k] = true
	}
	for k := range b {
		names[k] = true
	}
	ks := make([]string, 0, len(names))
	for k := range names {
		ks = append(ks, k)
	}
	sort.Strings(ks)
	for _, k := range ks {
		x, y := a[k], b[k]
		p := where + "/" + k
		switch {
		case x == nil:
			*out = append(*out, fmt.Sprintf("%s: missing from the overlay of served layers (image has %s)", p, y.Kind))
		case y == nil:
			*out = append(*out, fmt.Sprintf("%s: served (%s) but not in the image", p, x.Kind))
		case x.Kind != y.Kind || x.Perm != y.Perm || x.UID != y.UID || x.GID != y.GID || x.Size != y.Size || x.Rdev != y.Rdev || fmt.Sprint(x.X) != fmt.Sprint(y.X):
			*out = append(*out, fmt.Sprintf("%s: served %s perm %o uid %d gid %d size %d rdev %d xattrs %v; image %s perm %o uid %d gid %d size %d rdev %d xattrs %v",
				p, x.Kind, x.Perm, x.UID, x.GID, x.Size, x.Rdev, x.X, y.Kind, y.Perm, y.UID, y.GID, y.Size, y.Rdev, y.X))
		default:
			if x.Kind == "d" {
				diffTrees(x.Ch, y.Ch, p, out)
			}
		}
	}
}

// stackExcluded names the reason why a stack is outside the quantifier of the stack clause ("" = inside).
func stackExcluded(layers [][]TarEnt) string {
	for _, l := range layers {
		kind := map[string]string{}
		for _, e := range l {
			kind[e.P] = e.K
		}
		for _, e := range l {
			d, b := path.Split(e.P)
			if strings.HasPrefix(b, whPrefix) && b != opqMarker {
				if kind[d+b[len(whPrefix):]] == "d" {
					return "whiteout-and-directory-of-same-name" // the class the property excludes
				}
			}
			if (e.K == "c") && e.Maj == 0 && e.Min == 0 && !strings.HasPrefix(b, whPrefix) {
				return "real-0/0-char-device" // overlayfs itself reads it as a whiteout
			}
			for k := range e.X {
				if k == "trusted.overlay.opaque" || k == "user.overlay.opaque" {
					return "entry-carries-overlay-xattr"
				}
			}
			if e.P == stateDir {
				return "reserved-state-dir-name"
			}
			if e.P == opqMarker {
				return "opaque-marker-in-the-layer-root" // overlayfs never consults the opaque xattr of a lower root
			}
			if dd := strings.TrimSuffix(d, "/"); dd != "" && kind[dd] != "d" {
				return "implicit-parent"
			}
		}
	}
	return ""
}

// coqLTree prints the metadata tree below id as a Model/Overlay.v ltree.
func coqLTree(mr metadata.Reader, id uint32, depth int) (string, bool) {
	a, err := mr.GetAttr(id)
	if err != nil || depth > 8 {
		return "", false
	}
	kids, err := metaChildren(mr, id)
	if err != nil {
		return "", false
	}
	ks := make([]string, 0, len(kids))
	for _, k := range kids {
		if !printable(k.Name) {
			return "", false
		}
		sub, ok := coqLTree(mr, k.ID, depth+1)
		if !ok {
			return "", false
		}
		ks = append(ks, fmt.Sprintf("(%s, %s)", coqStr(k.Name), sub))
	}
	return fmt.Sprintf("LT (mkEnt %d %s) %s", id, coqAttr(a, a.Mode), hx.CoqList(ks)), true
}

func encTNode(t *tnode) string {
	if t == nil {
		return "[]"
	}
	size := t.Size
	if t.Kind == "d" {
		size = 0
	}
	return fmt.Sprintf("[1; %d; %d; %d; %d; %d]", t.Mode, t.UID, t.GID, size, t.Rdev)
}

func walkPath(root map[string]*tnode, p []string) *tnode {
	cur := root
	var t *tnode
	for i, comp := range p {
		var ok bool
		t, ok = cur[comp]
		if !ok {
			return nil
		}
		if i < len(p)-1 {
			if t.Kind != "d" {
				return nil
			}
			cur = t.Ch
		}
	}
	return t
}

func runStack(c Case, seed uint64) (problems []problem, stat string, coq string) {
	if why := stackExcluded(c.Layers); why != "" {
		return nil, "stack.excluded." + why, ""
	}
	var ltrees []string
	ltreesOK := true
	r := hx.NewRng(seed)
	bad := func(sig, format string, a ...any) {
		problems = append(problems, problem{sig, fmt.Sprintf(format, a...)})
	}
	var served []map[string]*tnode // top-most first
	image := map[string]*tnode{}
	for i, l := range c.Layers {
		b, err := buildLayer(l)
		if err != nil {
			return nil, "stack.skipped.build", ""
		}
		ol, err := openRoot(b, c.Store, c.Opaque, c.Base+uint32(i), c.BSize, c.Fetched)
		if err != nil {
			return nil, "stack.skipped.open", ""
		}
		if lt, ok := coqLTree(ol.mr, ol.mr.RootID(), 0); ok {
			ltrees = append(ltrees, fmt.Sprintf("(mkCfg true %d %s, %s)", c.Base+uint32(i), []string{"OpqAll", "OpqTrusted", "OpqUser"}[c.Opaque], lt))
		} else {
			ltreesOK = false
		}
		inos := map[uint64]uint32{}
		var t map[string]*tnode
		if _, errno := doReaddir(ol.root); c.Store == "db" && len(l) == 0 && errno == syscall.EIO {
			// C05's known finding F51 seen through the node API: the db store fails its initialisation on the TOC of an
			// empty tar ({"entries":null}), so the root of an EMPTY layer cannot be listed (EIO) where the memory store
			// serves an empty directory. Exactly this situation (db store, layer without any entry, EIO on the root) is
			// reported under a narrow signature; any other Readdir failure stays a violation (crawl reports it).
			bad("C07-db-empty-layer-root-eio", "layer %d has no entries and is opened with the db store: Readdir of its root fails with EIO (db initialisation fails on an empty TOC)", i)
			t = map[string]*tnode{}
			stackEmptyDB++
		} else {
			t = crawl(ol.root, c, true, r, fmt.Sprintf("layer%d:", i), inos, bad)
		}
		ol.close()
		served = append([]map[string]*tnode{t}, served...)
		applyOCI(image, l)
	}
	merged := overlayMerge(served)
	var diffs []string
	diffTrees(merged, image, "", &diffs)
	for i, d := range diffs {
		if i < 4 {
			bad("", "stack of %d layers: %s", len(c.Layers), d)
		}
	}
	if ltreesOK {
		// probes: every path of every layer (whiteout targets included), resolved in the Go overlay merge of the served trees
		// and in the Go OCI application of the tars; Coq evaluates overlay_stack / oci_stack of Model/Overlay.v on the same paths
		seen := map[string]bool{}
		var probes []string
		for _, l := range c.Layers {
			for _, e := range l {
				comps := strings.Split(e.P, "/")
				last := comps[len(comps)-1]
				if strings.HasPrefix(last, whPrefix) && last != opqMarker {
					comps[len(comps)-1] = last[len(whPrefix):]
				}
				okp := true
				for _, cc := range comps {
					okp = okp && cc != "" && cc != "." && cc != ".." && !strings.HasPrefix(cc, whPrefix)
				}
				if comps[0] == estargz.PrefetchLandmark || comps[0] == estargz.NoPrefetchLandmark || comps[0] == stateDir {
					okp = false
				}
				key := strings.Join(comps, "/")
				if !okp || seen[key] {
					continue
				}
				seen[key] = true
				cs := make([]string, len(comps))
				for i, cc := range comps {
					cs[i] = coqStr(cc)
				}
				probes = append(probes, fmt.Sprintf("(%s, %s, %s)", hx.CoqList(cs), encTNode(walkPath(merged, comps)), encTNode(walkPath(image, comps))))
			}
		}
		coq = fmt.Sprintf("SC %s %s", hx.CoqList(ltrees), hx.CoqList(probes))
	}
	return problems, "stack.checked", coq
}

// ---------------------------------------------------------------------------------------------
// generation

var dirPool = []string{"", "a", "b", "a/c"}

func genEntry(r *hx.Rng, p string, kind string) TarEnt {
	e := TarEnt{P: p, K: kind, M: []int{0o644, 0o755, 0o600, 0o4755, 0o1777, 0o2750}[r.Intn(6)]}
	if r.Chance(1, 3) {
		e.UID, e.GID = r.Intn(3)*1000, r.Intn(3)*1000
	}
	switch kind {
	case "f":
		e.Size = r.Pick(3, 2, 1) * r.Range(1, 5000)
		if r.Chance(1, 2) {
			e.Size = r.Intn(3)
		}
	case "l":
		e.Link = []string{"f", "../g", "/a/c"}[r.Intn(3)]
	case "c", "b":
		e.Maj, e.Min = r.Range(1, 300), r.Intn(70000)
		if r.Chance(1, 12) {
			e.Maj, e.Min = 0, 0
		}
	}
	if r.Chance(1, 6) {
		e.X = map[string]string{"user.k" + fmt.Sprint(r.Intn(2)): "v" + fmt.Sprint(r.Intn(3))}
		if r.Chance(1, 40) {
			e.X["trusted.overlay.opaque"] = "y"
		}
	}
	return e
}

func genLayer(r *hx.Rng, li int) []TarEnt {
	var out []TarEnt
	have := map[string]string{}
	add := func(e TarEnt) {
		if _, ok := have[e.P]; ok {
			return
		}
		have[e.P] = e.K
		out = append(out, e)
	}
	present := map[string]bool{"": true}
	for _, d := range dirPool[1:] {
		parent := path.Dir(d)
		if parent == "." {
			parent = ""
		}
		if present[parent] && r.Chance(3, 5) {
			present[d] = true
			e := genEntry(r, d, "d")
			e.M = []int{0o755, 0o700, 0o1777}[r.Intn(3)]
			add(e)
		}
	}
	join := func(d, b string) string {
		if d == "" {
			return b
		}
		return d + "/" + b
	}
	for _, d := range dirPool {
		if !present[d] {
			continue
		}
		n := r.Range(0, 5)
		for i := 0; i < n; i++ {
			switch r.Pick(40, 22, 8, 8, 6, 6) {
			case 0: // ordinary entry (may collide in name and type with other layers)
				nm := []string{"f", "g", "h", "a", "b", "c", "e"}[r.Intn(7)]
				k := []string{"f", "f", "f", "l", "c", "b", "p", "d"}[r.Intn(8)]
				if _, isDir := present[join(d, nm)]; isDir {
					continue
				}
				if _, wh := have[join(d, whPrefix+nm)]; wh && k == "d" && !r.Chance(1, 6) {
					k = "f"
				}
				add(genEntry(r, join(d, nm), k))
			case 1: // whiteout of something that may exist below / beside
				nm := []string{"f", "g", "h", "a", "b", "c", "e", "zz"}[r.Intn(8)]
				if (have[join(d, nm)] == "d" || present[join(d, nm)]) && !r.Chance(1, 6) {
					continue // whiteout + directory of the same name: the class the stack clause excludes; keep it rare
				}
				e := TarEnt{P: join(d, whPrefix+nm), K: "f", M: 0o644}
				if r.Chance(1, 8) {
					e = genEntry(r, e.P, []string{"f", "c", "l"}[r.Intn(3)]) // a marker that is not a plain empty file
				}
				add(e)
			case 2:
				if d == "" && !r.Chance(1, 6) {
					continue // an opaque marker in the layer root cannot be expressed by an overlayfs lower directory
				}
				add(TarEnt{P: join(d, opqMarker), K: "f", M: 0o644})
			case 3: // landmarks, at the root and below
				add(TarEnt{P: join(d, []string{estargz.PrefetchLandmark, estargz.NoPrefetchLandmark}[r.Intn(2)]), K: "f", M: 0o644, Size: 1})
			case 4: // names beginning with .wh. that are not plain whiteouts
				nm := []string{whPrefix + whPrefix + "f", whPrefix, whPrefix + whPrefix + ".opqx", whPrefix + estargz.PrefetchLandmark, whPrefix + ".", whPrefix + "..", whPrefix + stateDir, whPrefix + whPrefix + ".opq.x"}[r.Intn(8)]
				add(TarEnt{P: join(d, nm), K: "f", M: 0o644})
			case 5: // reserved names as real entries
				nm := []string{stateDir, estargz.TOCTarName, "trusted.overlay.opaque"}[r.Intn(3)]
				if d == "" && (nm == estargz.TOCTarName || (nm == stateDir && !r.Chance(1, 4))) {
					continue
				}
				add(genEntry(r, join(d, nm), "f"))
			}
		}
	}
	return out
}

// genFake draws an arbitrary metadata tree: a root with up to 8 children (any reserved / marker / ordinary name, any file
// type and attribute magnitude, ids up to 2^32-1) and one ordinary sub-directory "d" with a few children of its own.
func genFake(r *hx.Rng) *FakeTree {
	next := uint32(2)
	id := func(huge bool) uint32 {
		if huge {
			return []uint32{maxServableID, maxServableID + 1, maxServableID + 2, ^uint32(0), maxServableID - 1}[r.Intn(5)]
		}
		next++
		return next
	}
	mkNode := func(i uint32) FakeNode {
		n := FakeNode{ID: i, NL: r.Pick(1, 6, 2, 1)}
		if n.NL == 3 {
			n.NL = []int{-1, 1 << 32, 70000}[r.Intn(3)]
		}
		perm := uint32([]int{0o644, 0o755, 0o600, 0o777, 0}[r.Intn(5)])
		switch r.Pick(6, 3, 2, 2, 1, 1, 1, 1) {
		case 0:
			n.Mode = perm
			n.Size = []int64{0, 1, 4096, 4097, 1 << 40, -1, 1<<63 - 1, -(1 << 62)}[r.Intn(8)]
		case 1:
			n.Mode = perm | uint32(os.ModeDir)
		case 2:
			n.Mode = perm | uint32(os.ModeSymlink)
			n.Link = []string{"", "x", "../some/where"}[r.Intn(3)]
			n.Size = int64(r.Intn(3))
		case 3:
			n.Mode = perm | uint32(os.ModeDevice|os.ModeCharDevice)
			n.Maj, n.Min = []int{0, 1, 4095, 4096, 1 << 20, -1}[r.Intn(6)], []int{0, 3, 255, 256, 1 << 20, -1}[r.Intn(6)]
		case 4:
			n.Mode = perm | uint32(os.ModeDevice)
			n.Maj, n.Min = r.Intn(5000), r.Intn(300000)
		case 5:
			n.Mode = perm | uint32(os.ModeNamedPipe)
		case 6:
			n.Mode = perm | uint32(os.ModeSocket)
		case 7:
			n.Mode = perm | uint32(os.ModeIrregular)
		}
		if r.Chance(1, 4) {
			n.Mode |= uint32([]os.FileMode{os.ModeSetuid, os.ModeSetgid, os.ModeSticky, os.ModeSetuid | os.ModeSticky}[r.Intn(4)])
		}
		if r.Chance(1, 3) {
			n.UID, n.GID = []int{1000, -1, 1 << 32, 65534}[r.Intn(4)], []int{1000, -2, 1<<32 + 5, 0}[r.Intn(4)]
		}
		if r.Chance(1, 5) {
			n.X = map[string]string{[]string{"user.k0", "trusted.overlay.opaque", "user.overlay.opaque", "security.x"}[r.Intn(4)]: []string{"y", "", "v"}[r.Intn(3)]}
		}
		return n
	}
	t := &FakeTree{Root: 1}
	if r.Chance(1, 12) {
		t.Root = id(true)
	}
	root := mkNode(t.Root)
	root.Mode = 0o755 | uint32(os.ModeDir)
	pool := []string{"f", "g", "h", "e", whPrefix + "f", whPrefix + "g", whPrefix + "zz", whPrefix + "d", opqMarker, whPrefix + whPrefix + "f", whPrefix,
		whPrefix + ".", estargz.PrefetchLandmark, estargz.NoPrefetchLandmark, whPrefix + estargz.NoPrefetchLandmark, stateDir, whPrefix + stateDir, ".", "..",
		estargz.TOCTarName, "with space", "quo\"te"}
	used := map[string]bool{}
	var nodes []FakeNode
	addKids := func(parent *FakeNode, n int, hugeOdds int) {
		for i := 0; i < n; i++ {
			nm := pool[r.Intn(len(pool))]
			if used[fmt.Sprint(parent.ID, "/", nm)] {
				continue
			}
			used[fmt.Sprint(parent.ID, "/", nm)] = true
			k := mkNode(id(hugeOdds > 0 && r.Chance(1, hugeOdds)))
			dup := false
			for _, x := range nodes {
				dup = dup || x.ID == k.ID
			}
			if dup || k.ID == t.Root {
				continue
			}
			parent.Kids = append(parent.Kids, FakeKid{nm, k.ID})
			nodes = append(nodes, k)
		}
	}
	hugeOdds := []int{0, 3, 5, 8}[r.Intn(4)]
	addKids(&root, r.Range(1, 8), hugeOdds)
	if r.Chance(2, 3) && !used[fmt.Sprint(root.ID, "/d")] {
		d := mkNode(id(false))
		d.Mode = 0o700 | uint32(os.ModeDir)
		addKids(&d, r.Range(0, 4), hugeOdds)
		root.Kids = append(root.Kids, FakeKid{"d", d.ID})
		nodes = append(nodes, d)
	}
	t.Nodes = append([]FakeNode{root}, nodes...)
	return t
}

func layerDirs(l []TarEnt) []string {
	ds := []string{""}
	for _, e := range l {
		if e.K == "d" {
			ds = append(ds, e.P)
		}
	}
	return ds
}

func genOps(r *hx.Rng, c Case, isDir bool) []Op {
	var names []string
	regular := false
	if c.Fake != nil {
		for _, n := range c.Fake.Nodes {
			for _, k := range n.Kids {
				names = append(names, k.N)
				if strings.HasPrefix(k.N, whPrefix) {
					names = append(names, k.N[len(whPrefix):])
				}
			}
		}
	} else {
		l := c.Layers[c.LI]
		prefix := c.Path
		if prefix != "" {
			prefix += "/"
		}
		for _, e := range l {
			if e.P == c.Path && e.K == "f" {
				regular = true
			}
			if strings.HasPrefix(e.P, prefix) && !strings.Contains(e.P[len(prefix):], "/") {
				b := e.P[len(prefix):]
				names = append(names, b)
				if strings.HasPrefix(b, whPrefix) {
					names = append(names, b[len(whPrefix):])
				}
			}
		}
	}
	nreal := len(names)
	var looked []string
	names = append(names, "zz", "f", ".", "..", stateDir, estargz.PrefetchLandmark, estargz.NoPrefetchLandmark, whPrefix+"f", "")
	xnames := []string{"trusted.overlay.opaque", "user.overlay.opaque", "user.k0", "user.k1", "security.none"}
	n := r.Range(3, 14)
	var ops []Op
	for i := 0; i < n; i++ {
		if !isDir {
			switch r.Pick(2, 3, 2, 2, 2) {
			case 3:
				ops = append(ops, Op{Op: "readlink"})
			case 4:
				if regular {
					ops = append(ops, Op{Op: "fgetattr"})
				} else {
					ops = append(ops, Op{Op: "readlink"})
				}
			case 0:
				ops = append(ops, Op{Op: "getattr"})
			case 1:
				ops = append(ops, Op{Op: "getxattr", Name: xnames[r.Intn(len(xnames))], Dlen: []int{0, 1, 64}[r.Intn(3)]})
			case 2:
				ops = append(ops, Op{Op: "listxattr", Dlen: []int{0, 30, 4096}[r.Intn(3)]})
			}
			continue
		}
		switch r.Pick(20, 45, 8, 5, 10, 6, 6, 2) {
		case 7:
			ops = append(ops, Op{Op: "readlink"})
		case 0:
			ops = append(ops, Op{Op: "readdir"})
		case 1:
			nm := names[r.Intn(len(names))]
			if nreal > 0 && r.Chance(3, 5) {
				nm = names[r.Intn(nreal)]
			}
			if len(looked) > 0 && r.Chance(1, 4) {
				nm = looked[r.Intn(len(looked))]
			}
			looked = append(looked, nm)
			ops = append(ops, Op{Op: "lookup", Name: nm, Reg: r.Chance(3, 5)})
		case 2:
			nm := names[r.Intn(len(names))]
			if len(looked) > 0 && r.Chance(3, 4) {
				nm = looked[r.Intn(len(looked))]
			}
			ops = append(ops, Op{Op: "forget", Name: nm})
		case 3:
			ops = append(ops, Op{Op: "getattr"})
		case 4:
			ops = append(ops, Op{Op: "getxattr", Name: xnames[r.Intn(len(xnames))], Dlen: []int{0, 1, 64}[r.Intn(3)]})
		case 5:
			ops = append(ops, Op{Op: "listxattr", Dlen: []int{0, 30, 4096}[r.Intn(3)]})
		case 6:
			if c.Path == "" {
				ops = append(ops, Op{Op: "state"})
			} else {
				ops = append(ops, Op{Op: "readdir"})
			}
		}
	}
	if isDir && c.Path == "" && r.Chance(3, 5) {
		// the state file read again and again while the layer keeps fetching (and failing): stat, grow, read in every order
		grow := func() Op { return Op{Op: "setfetched", Dlen: r.Intn(1 << 20)} }
		rdf := Op{Op: "statread"}
		var seq []Op
		switch r.Intn(4) {
		case 0:
			seq = []Op{{Op: "statlookup"}, grow(), rdf}
		case 1:
			seq = []Op{{Op: "statlookup"}, {Op: "statgetattr"}, grow(), rdf, grow(), rdf}
		case 2:
			seq = []Op{rdf, grow(), rdf}
		case 3:
			seq = []Op{{Op: "statlookup"}, rdf, grow(), {Op: "statgetattr"}, grow(), rdf, {Op: "state"}}
		}
		if c.Fake != nil && r.Chance(1, 2) {
			// an error reported between the stat and the read
			at := 1 + r.Intn(len(seq)-1)
			seq = append(seq[:at:at], append([]Op{{Op: "openfail"}}, seq[at:]...)...)
		}
		// spread the sequence over the history, keeping its order
		pos := 0
		for _, so := range seq {
			pos += r.Intn(len(ops) - pos + 1)
			ops = append(ops[:pos:pos], append([]Op{so}, ops[pos:]...)...)
			pos++
		}
	}
	if isDir && c.Path == "" && r.Chance(1, 2) {
		// the kernel re-looks the state directory up while its inode is still alive (liveness probes do)
		at := r.Intn(len(ops) + 1)
		seq := []Op{{Op: "lookup", Name: stateDir, Reg: true}, {Op: "lookup", Name: stateDir, Reg: r.Bool()}}
		if r.Chance(1, 3) {
			seq = append(seq, Op{Op: "state"})
		}
		ops = append(ops[:at:at], append(seq, ops[at:]...)...)
	}
	return ops
}

// ---------------------------------------------------------------------------------------------

var ncases int

// attachMode: how openRootOn brings the layer root to life for the case being run (Case.Attach)
var attachMode bool
var stackEmptyDB int

func main() {
	ctx := hx.Start()
	logrus.SetOutput(io.Discard) // node.go logs every error it reports through the state file
	defer func() {
		if boltDB != nil {
			boltDB.Close()
		}
		if tmpDir != "" {
			os.RemoveAll(tmpDir)
		}
	}()
	emit := func(c Case) {
		attachMode = c.Attach
		if c.Attach {
			ctx.Count("root.attached-as-child")
		} else {
			ctx.Count("root.own-nodefs")
		}
		stackSeed := func() uint64 {
			h := sha256.Sum256([]byte(fmt.Sprint(c.Layers, c.Store, c.Opaque)))
			return uint64(h[0]) | uint64(h[1])<<8 | ctx.Seed<<16
		}
		if c.StackOnly {
			sp, st, sc := runStack(c, stackSeed())
			ctx.Count(st)
			if sc == "" {
				return
			}
			id := ctx.Case(sc, c, sc, true)
			ncases++
			ctx.Count("stack.coq-case")
			for _, p := range sp {
				if p.sig != "" {
					ctx.Finding(id, p.sig, p.what, nil)
				} else {
					ctx.Violation(id, p.what, nil)
				}
			}
			return
		}
		res := runNode(c)
		if res.skipped != "" {
			ctx.Count("skipped." + strings.SplitN(res.skipped, ":", 2)[0])
			fmt.Fprintf(os.Stderr, "skipped node %q of layer %d (%s): %s\n", c.Path, c.LI, c.Store, res.skipped)
			return
		}
		var sp []problem
		if c.Stack { // (older replays: the stack oracle rides on a node case)
			var st string
			sp, st, _ = runStack(c, stackSeed())
			ctx.Count(st)
		}
		for _, s := range res.stats {
			ctx.Count(s)
		}
		for _, o := range c.Ops {
			ctx.Count("op." + o.Op)
		}
		ctx.Count("store." + c.Store)
		if c.Fake != nil {
			for _, ob := range res.obs {
				if len(ob.Z) == 1 && ob.Z[0] == int64(syscall.EIO) {
					ctx.Count("fake.answer.eio")
				}
			}
		}
		ctx.Count(fmt.Sprintf("opaque.%d", c.Opaque))
		if c.Path == "" {
			ctx.Count("node.root")
		} else {
			ctx.Count("node.sub")
		}
		kinds := map[string]bool{}
		for _, s := range res.stats {
			kinds[s] = true
		}
		nontrivial := len(kinds) >= 4
		id := ctx.Case("NC "+res.coq, c, res.coq, nontrivial)
		ncases++
		seen := map[string]bool{}
		for _, p := range append(res.problems, sp...) {
			if seen[p.what] {
				continue
			}
			seen[p.what] = true
			if p.sig != "" {
				ctx.Finding(id, p.sig, p.what, nil)
			} else {
				ctx.Violation(id, p.what, nil)
			}
		}
	}
	if ctx.Replay != "" {
		var c Case
		ctx.LoadReplay(&c)
		emit(c)
		ctx.CountN("stack.db-empty-layer", stackEmptyDB)
		ctx.Finish()
		return
	}
	for _, c := range corpus() {
		emit(c)
	}
	r := hx.NewRng(ctx.Seed)
	for guard := 0; ncases < ctx.N && guard < 100*ctx.N+1000; guard++ {
		g := r.Fork()
		if g.Chance(1, 3) {
			// arbitrary metadata trees through the in-memory fake store (two node cases: the root and the directory "d")
			for k := 0; k < 4; k++ {
				ft := genFake(g)
				for _, pth := range []string{"", "d"} {
					c := Case{Store: "fake", Fake: ft, Attach: k%2 == 1, Path: pth, Opaque: g.Intn(3), Base: uint32(g.Pick(3, 3, 1) * g.Range(1, 70000)),
						BSize: int64(g.Range(1, 1<<20)), Fetched: int64(g.Intn(1 << 16))}
					c.Ops = genOps(g, c, true)
					emit(c)
				}
			}
			continue
		}
		nl := g.Pick(2, 3, 3, 2) + 1
		var layers [][]TarEnt
		for i := 0; i < nl; i++ {
			layers = append(layers, genLayer(g, i))
		}
		base := Case{Layers: layers, Store: []string{"memory", "db"}[g.Intn(2)], Opaque: g.Intn(3), Base: uint32(g.Pick(3, 3, 1) * g.Range(1, 70000)),
			BSize: int64(g.Range(1, 1<<20)), Fetched: int64(g.Intn(1 << 16))}
		base.Attach = g.Bool()
		sc := base
		sc.StackOnly = true
		emit(sc)
		for li, l := range layers {
			for _, d := range layerDirs(l) {
				c := base
				c.LI, c.Path = li, d
				c.Store = []string{"memory", "db"}[g.Intn(2)]
				c.Opaque = g.Intn(3)
				c.Ops = genOps(g, c, true)
				emit(c)
			}
			// one leaf node per layer
			var leaves []string
			for _, e := range l {
				b := path.Base(e.P)
				if e.K != "d" && !strings.HasPrefix(b, whPrefix) && !(path.Dir(e.P) == "." && (b == stateDir || b == estargz.PrefetchLandmark || b == estargz.NoPrefetchLandmark)) {
					leaves = append(leaves, e.P)
				}
			}
			if len(leaves) > 0 {
				c := base
				c.LI, c.Path = li, leaves[g.Intn(len(leaves))]
				c.Ops = genOps(g, c, false)
				emit(c)
			}
		}
	}
	ctx.CountN("stack.db-empty-layer", stackEmptyDB)
	ctx.Finish()
}

func corpus() []Case {
	cs := corpusCases()
	// every fixed case both ways: the layer root as the root of its own NodeFS, and attached as a child of a foreign tree
	n := len(cs)
	for i := 0; i < n; i++ {
		c := cs[i]
		c.Attach = true
		cs = append(cs, c)
	}
	return cs
}

func corpusCases() []Case {
	f := func(p string) TarEnt { return TarEnt{P: p, K: "f", M: 0o644} }
	d := func(p string) TarEnt { return TarEnt{P: p, K: "d", M: 0o755} }
	lower := []TarEnt{d("a"), f("a/f"), f("a/g"), d("a/c"), f("a/c/h"), f("f"), d("b"), f("b/e")}
	upper := []TarEnt{d("a"), f("a/.wh.f"), d("a/c"), f("a/c/" + opqMarker), f("a/c/e"), f(".wh.b"), f(".wh.f"), f("f"), f(estargz.NoPrefetchLandmark), d("b2"), f("b2/" + estargz.PrefetchLandmark)}
	odd := []TarEnt{d("a"), f("a/" + whPrefix + whPrefix + "f"), f("a/" + whPrefix), f(whPrefix + estargz.PrefetchLandmark), f(estargz.PrefetchLandmark), f("a/.wh.g"), f("a/g")}
	lk := func(n string, reg bool) Op { return Op{Op: "lookup", Name: n, Reg: reg} }
	rd := Op{Op: "readdir"}
	return []Case{
		// lookup before and after the listing is memoised; whiteout looked up twice while in the go-fuse tree
		{Layers: [][]TarEnt{lower, upper}, LI: 1, Path: "a", Store: "memory", Opaque: 1, Base: 7, BSize: 1000, Fetched: 10, Stack: true,
			Ops: []Op{lk("f", true), lk("zz", false), rd, lk("f", false), lk("zz", false), {Op: "forget", Name: "f"}, lk("f", false), lk(".wh.f", false), lk("c", true), lk("c", false)}},
		{Layers: [][]TarEnt{lower, upper}, LI: 1, Path: "", Store: "db", Opaque: 2, Base: 0, BSize: 4096, Fetched: 4096,
			Ops: []Op{rd, {Op: "state"}, lk(estargz.NoPrefetchLandmark, false), lk("b", true), lk("f", true), lk("b", false), lk("f", false), lk(stateDir, false), {Op: "getxattr", Name: "user.overlay.opaque", Dlen: 8}}},
		{Layers: [][]TarEnt{lower, upper}, LI: 1, Path: "a/c", Store: "memory", Opaque: 0, Base: 65536, BSize: 5, Fetched: 0,
			Ops: []Op{{Op: "getxattr", Name: "trusted.overlay.opaque", Dlen: 0}, {Op: "getxattr", Name: "trusted.overlay.opaque", Dlen: 1}, {Op: "getxattr", Name: "user.overlay.opaque", Dlen: 9}, {Op: "listxattr", Dlen: 0}, {Op: "listxattr", Dlen: 100}, rd, lk(opqMarker, false), lk("e", false)}},
		// the state directory looked up again while its inode is kept as a go-fuse child of the root (memory and db, before and
		// after the listing is memoised), then walked; a real child, a whiteout and a miss in between
		{Layers: [][]TarEnt{lower, upper}, LI: 1, Path: "", Store: "memory", Opaque: 1, Base: 11, BSize: 77, Fetched: 7,
			Ops: []Op{lk(stateDir, true), lk(stateDir, true), {Op: "state"}, rd, lk(stateDir, false), lk("b", true), lk("b", true), lk("a", true), lk("a", false), {Op: "forget", Name: stateDir}, lk(stateDir, true), lk(stateDir, false), {Op: "state"}}},
		{Layers: [][]TarEnt{lower}, LI: 0, Path: "", Store: "db", Opaque: 0, Base: 12, BSize: 5, Fetched: 5,
			Ops: []Op{rd, lk(stateDir, true), lk("zz", false), lk(stateDir, false), {Op: "state"}, lk(stateDir, true)}},
		// the state file over time: Lookup;grow;Read — Getattr;grow;Read — Read;grow;Read — and an error reported in between
		{Layers: [][]TarEnt{lower, upper}, LI: 1, Path: "", Store: "memory", Opaque: 1, Base: 21, BSize: 1000, Fetched: 10,
			Ops: []Op{{Op: "statlookup"}, {Op: "setfetched", Dlen: 500}, {Op: "statread"}, {Op: "statgetattr"}, {Op: "setfetched", Dlen: 700}, {Op: "statread"}, {Op: "setfetched", Dlen: 1000}, {Op: "statread"}, {Op: "state"}}},
		{Layers: [][]TarEnt{lower}, LI: 0, Path: "", Store: "db", Opaque: 2, Base: 22, BSize: 4096, Fetched: 0,
			Ops: []Op{{Op: "statread"}, {Op: "setfetched", Dlen: 4096}, {Op: "statread"}, rd, {Op: "statgetattr"}, {Op: "setfetched", Dlen: 17}, lk("a", true), {Op: "statread"}}},
		{Store: "fake", Path: "", Opaque: 1, Base: 23, BSize: 50, Fetched: 5, Fake: &FakeTree{Root: 1, Nodes: []FakeNode{
			{ID: 1, Mode: 0o755 | uint32(os.ModeDir), NL: 2, Kids: []FakeKid{{"f", 2}}}, {ID: 2, Mode: 0o644, NL: 1}}},
			Ops: []Op{{Op: "statlookup"}, {Op: "statread"}, {Op: "openfail"}, {Op: "statread"}, {Op: "statgetattr"}, {Op: "setfetched", Dlen: 50}, {Op: "statread"}}},
		// every opaque mode on a directory with the marker and on one without (xattr of the configured names only)
		{Layers: [][]TarEnt{lower, upper}, LI: 1, Path: "a/c", Store: "db", Opaque: 1, Base: 13, BSize: 5, Fetched: 0,
			Ops: []Op{{Op: "getxattr", Name: "trusted.overlay.opaque", Dlen: 8}, {Op: "getxattr", Name: "user.overlay.opaque", Dlen: 8}, {Op: "listxattr", Dlen: 100}}},
		{Layers: [][]TarEnt{lower, upper}, LI: 1, Path: "a/c", Store: "memory", Opaque: 2, Base: 14, BSize: 5, Fetched: 0,
			Ops: []Op{{Op: "getxattr", Name: "trusted.overlay.opaque", Dlen: 8}, {Op: "getxattr", Name: "user.overlay.opaque", Dlen: 8}, {Op: "listxattr", Dlen: 100}}},
		{Layers: [][]TarEnt{lower, upper}, LI: 1, Path: "a", Store: "memory", Opaque: 2, Base: 15, BSize: 5, Fetched: 0,
			Ops: []Op{{Op: "getxattr", Name: "user.overlay.opaque", Dlen: 8}, {Op: "listxattr", Dlen: 100}, {Op: "getattr"}}},
		// a whiteout beside a real entry of the same name (real entry wins, listed once), both stores, listing first and lookup first
		{Layers: [][]TarEnt{odd}, LI: 0, Path: "a", Store: "memory", Opaque: 0, Base: 16, BSize: 9, Fetched: 1,
			Ops: []Op{lk("g", true), rd, lk("g", false), rd}},
		{Layers: [][]TarEnt{{d("x"), f("x/.wh.k"), f("x/k"), f("x/.wh.j"), f("x/.wh.m"), f("x/m"), f("x/j2"), f("x/.wh.p1"), f("x/p1"), f("x/.wh.p2"), f("x/p2"), f("x/.wh.p3"), f("x/p3"), f("x/.wh.p4"), f("x/p4"), f("x/.wh.p5"), f("x/p5"), f("x/.wh.p6"), f("x/p6")}}, LI: 0, Path: "x", Store: "db", Opaque: 0, Base: 17, BSize: 9, Fetched: 1, Stack: true,
			Ops: []Op{rd, lk("k", true), lk("j", true), lk("m", false), lk("k", false), lk("j", false), rd}},
		// leaf nodes: Getattr, Open + file.Getattr, Readlink, xattrs
		{Layers: [][]TarEnt{{d("a"), {P: "a/f", K: "f", M: 0o4755, UID: 1000, GID: 2000, Size: 5000, X: map[string]string{"user.k0": "v0"}}, {P: "a/l", K: "l", M: 0o777, Link: "../target"}}}, LI: 0, Path: "a/f", Store: "memory", Opaque: 1, Base: 18, BSize: 9, Fetched: 1,
			Ops: []Op{{Op: "getattr"}, {Op: "fgetattr"}, {Op: "readlink"}, {Op: "getxattr", Name: "user.k0", Dlen: 1}, {Op: "getxattr", Name: "user.k0", Dlen: 64}, {Op: "listxattr", Dlen: 64}}},
		{Layers: [][]TarEnt{{d("a"), {P: "a/f", K: "f", M: 0o644, Size: 1}, {P: "a/l", K: "l", M: 0o777, Link: "../target"}}}, LI: 0, Path: "a/f", Store: "db", Opaque: 1, Base: 19, BSize: 9, Fetched: 1,
			Ops: []Op{{Op: "fgetattr"}, {Op: "getattr"}}},
		{Layers: [][]TarEnt{{d("a"), {P: "a/l", K: "l", M: 0o777, Link: "../target"}}}, LI: 0, Path: "a/l", Store: "db", Opaque: 1, Base: 19, BSize: 9, Fetched: 1,
			Ops: []Op{{Op: "readlink"}, {Op: "getattr"}}},
		{Layers: [][]TarEnt{lower, upper}, Store: "db", Opaque: 1, Base: 20, BSize: 1, Fetched: 0, StackOnly: true},
		{Layers: [][]TarEnt{lower, upper, lower}, Store: "memory", Opaque: 2, Base: 4000000000, BSize: 1, Fetched: 0, StackOnly: true},
		// names beginning with .wh. that are not plain whiteouts
		{Layers: [][]TarEnt{odd}, LI: 0, Path: "a", Store: "db", Opaque: 1, Base: 3, BSize: 9, Fetched: 1, Stack: true,
			Ops: []Op{rd, lk(whPrefix+"f", false), lk("", false), lk("g", true), lk("g", false)}},
		{Layers: [][]TarEnt{odd}, LI: 0, Path: "", Store: "memory", Opaque: 0, Base: 3, BSize: 9, Fetched: 1,
			Ops: []Op{lk(estargz.PrefetchLandmark, false), rd, lk(estargz.PrefetchLandmark, false)}},
		// ids beyond the inode space (fake store): the listing is EIO, a lookup of the big-id entry is EIO, the others still resolve;
		// the miss path cannot memoise; a big-id whiteout shadowed by a real entry does not disturb anything
		{Store: "fake", Path: "", Opaque: 1, Base: 9, BSize: 1, Fetched: 0, Fake: &FakeTree{Root: 1, Nodes: []FakeNode{
			{ID: 1, Mode: 0o755 | uint32(os.ModeDir), NL: 2, Kids: []FakeKid{{"f", 2}, {"big", maxServableID + 1}, {whPrefix + "g", ^uint32(0)}, {"ok", maxServableID}}},
			{ID: 2, Mode: 0o644, NL: 1}, {ID: maxServableID + 1, Mode: 0o644, NL: 1}, {ID: ^uint32(0), Mode: 0o644}, {ID: maxServableID, Mode: 0o600, Size: -1, UID: -1}}},
			Ops: []Op{lk("zz", false), rd, lk("f", true), lk("big", true), lk("g", false), lk("ok", true), lk("ok", false), rd, {Op: "getattr"}, {Op: "readlink"}}},
		{Store: "fake", Path: "", Opaque: 0, Base: 1, BSize: 1, Fetched: 0, Fake: &FakeTree{Root: ^uint32(0), Nodes: []FakeNode{
			{ID: ^uint32(0), Mode: 0o755 | uint32(os.ModeDir), NL: 2, Kids: []FakeKid{{"f", 2}, {whPrefix + "f", maxServableID + 2}, {"l", 3}}},
			{ID: 2, Mode: 0o644, NL: 0}, {ID: maxServableID + 2, Mode: 0o644}, {ID: 3, Mode: 0o777 | uint32(os.ModeSymlink), Link: "f", Size: 77}}},
			Ops: []Op{{Op: "getattr"}, rd, lk("f", true), lk("f", false), lk("l", false), {Op: "state"}}},
	}
}
