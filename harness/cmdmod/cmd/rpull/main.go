// C20 correspondence harness (command level): drives the real `ctr-remote rpull` wiring — commands.pull(): choice of the
// label handler flavour from --use-containerd-labels, the prefetch size it passes, WithImageHandlerWrapper / WithPullUnpack —
// through containerd's real client.Pull, unpacker and metadata snapshotter layer (label validation included), against an
// in-memory registry (remotes.Resolver) and a recording backend snapshotter that behaves like a remote snapshotter
// (commits the target on Prepare and answers AlreadyExists). The labels that REACH THE SNAPSHOTTER for every layer are
// the observation; they are handed to the real readers and compared with Model/Labels.v exactly as in cmd/labels.
package main

import (
	"bytes"
	"context"
	"crypto/sha256"
	"encoding/hex"
	"encoding/json"
	"fmt"
	"io"
	"os"
	"path/filepath"
	"runtime"
	"sync"
	"time"

	introspectionapi "github.com/containerd/containerd/api/services/introspection/v1"
	containerd "github.com/containerd/containerd/v2/client"
	"github.com/containerd/containerd/v2/core/diff"
	"github.com/containerd/containerd/v2/core/images"
	"github.com/containerd/containerd/v2/core/metadata"
	"github.com/containerd/containerd/v2/core/mount"
	"github.com/containerd/containerd/v2/core/remotes"
	"github.com/containerd/containerd/v2/core/snapshots"
	"github.com/containerd/containerd/v2/pkg/namespaces"
	"github.com/containerd/containerd/v2/pkg/reference"
	"github.com/containerd/containerd/v2/plugins/content/local"
	"github.com/containerd/errdefs"
	"github.com/containerd/stargz-snapshotter/cmd/ctr-remote/commands"
	digest "github.com/opencontainers/go-digest"
	"github.com/opencontainers/image-spec/specs-go"
	ocispec "github.com/opencontainers/image-spec/specs-go/v1"
	bolt "go.etcd.io/bbolt"
	"verif/harness/c20"
	"verif/harness/hx"
)

const (
	snapshotterName = "stargz"
	snapshotRefKey  = "containerd.io/snapshot.ref"
	rpullPrefetch   = int64(10 * 1024 * 1024) // what `ctr-remote rpull` documents and passes
)

// ---- recording backend snapshotter (remote-snapshotter behaviour) ----

type recSnapshotter struct {
	mu       sync.Mutex
	infos    map[string]snapshots.Info
	prepares []map[string]string
	n        int
}

func (s *recSnapshotter) reset() {
	s.mu.Lock()
	s.prepares = nil
	s.mu.Unlock()
}

func (s *recSnapshotter) Stat(ctx context.Context, key string) (snapshots.Info, error) {
	s.mu.Lock()
	defer s.mu.Unlock()
	if i, ok := s.infos[key]; ok {
		return i, nil
	}
	return snapshots.Info{}, fmt.Errorf("%s: %w", key, errdefs.ErrNotFound)
}
func (s *recSnapshotter) Update(ctx context.Context, info snapshots.Info, fieldpaths ...string) (snapshots.Info, error) {
	return info, nil
}
func (s *recSnapshotter) Usage(ctx context.Context, key string) (snapshots.Usage, error) {
	return snapshots.Usage{}, nil
}
func (s *recSnapshotter) Mounts(ctx context.Context, key string) ([]mount.Mount, error) {
	return nil, fmt.Errorf("no mounts in the harness: %w", errdefs.ErrNotImplemented)
}
func (s *recSnapshotter) Prepare(ctx context.Context, key, parent string, opts ...snapshots.Opt) ([]mount.Mount, error) {
	var base snapshots.Info
	for _, o := range opts {
		if err := o(&base); err != nil {
			return nil, err
		}
	}
	s.mu.Lock()
	defer s.mu.Unlock()
	lbl := map[string]string{}
	for k, v := range base.Labels {
		lbl[k] = v
	}
	s.prepares = append(s.prepares, lbl)
	if _, ok := lbl[snapshotRefKey]; !ok {
		return nil, fmt.Errorf("harness snapshotter only serves remote layers: %w", errdefs.ErrInvalidArgument)
	}
	// a remote snapshotter: the layer is "mounted" at once, committed under a backend name, and the client is told so
	s.n++
	name := fmt.Sprintf("committed-%d", s.n)
	now := time.Now()
	s.infos[name] = snapshots.Info{Kind: snapshots.KindCommitted, Name: name, Parent: parent, Labels: lbl, Created: now, Updated: now}
	return nil, fmt.Errorf("target snapshot: %w", errdefs.ErrAlreadyExists)
}
func (s *recSnapshotter) View(ctx context.Context, key, parent string, opts ...snapshots.Opt) ([]mount.Mount, error) {
	return nil, errdefs.ErrNotImplemented
}
func (s *recSnapshotter) Commit(ctx context.Context, name, key string, opts ...snapshots.Opt) error {
	return errdefs.ErrNotImplemented
}
func (s *recSnapshotter) Remove(ctx context.Context, key string) error { return nil }
func (s *recSnapshotter) Walk(ctx context.Context, fn snapshots.WalkFunc, filters ...string) error {
	s.mu.Lock()
	var all []snapshots.Info
	for _, i := range s.infos {
		all = append(all, i)
	}
	s.mu.Unlock()
	for _, i := range all {
		if err := fn(ctx, i); err != nil {
			return err
		}
	}
	return nil
}
func (s *recSnapshotter) Close() error { return nil }

// ---- the other in-process services ----

type noDiff struct{}

func (noDiff) Compare(ctx context.Context, lower, upper []mount.Mount, opts ...diff.Opt) (ocispec.Descriptor, error) {
	return ocispec.Descriptor{}, errdefs.ErrNotImplemented
}
func (noDiff) Apply(ctx context.Context, desc ocispec.Descriptor, m []mount.Mount, opts ...diff.ApplyOpt) (ocispec.Descriptor, error) {
	return ocispec.Descriptor{}, fmt.Errorf("a layer was applied locally: the snapshotter labels did not make it a remote layer: %w", errdefs.ErrNotImplemented)
}

type introspect struct{}

func (introspect) Plugins(ctx context.Context, filters ...string) (*introspectionapi.PluginsResponse, error) {
	return &introspectionapi.PluginsResponse{Plugins: []*introspectionapi.Plugin{{Type: "io.containerd.snapshotter.v1", ID: snapshotterName}}}, nil
}
func (introspect) Server(ctx context.Context) (*introspectionapi.ServerResponse, error) {
	return &introspectionapi.ServerResponse{}, nil
}
func (introspect) PluginInfo(ctx context.Context, t, id string, opts any) (*introspectionapi.PluginInfoResponse, error) {
	return nil, errdefs.ErrNotImplemented
}

// ---- in-memory registry ----

type registry struct {
	blobs map[digest.Digest][]byte
	root  ocispec.Descriptor
	asked []digest.Digest
	mu    sync.Mutex
}

func (r *registry) Resolve(ctx context.Context, ref string) (string, ocispec.Descriptor, error) {
	return ref, r.root, nil
}
func (r *registry) Fetcher(ctx context.Context, ref string) (remotes.Fetcher, error) { return r, nil }
func (r *registry) Pusher(ctx context.Context, ref string) (remotes.Pusher, error) {
	return nil, errdefs.ErrNotImplemented
}
func (r *registry) Fetch(ctx context.Context, desc ocispec.Descriptor) (io.ReadCloser, error) {
	r.mu.Lock()
	r.asked = append(r.asked, desc.Digest)
	r.mu.Unlock()
	if b, ok := r.blobs[desc.Digest]; ok {
		return io.NopCloser(bytes.NewReader(b)), nil
	}
	return nil, fmt.Errorf("blob %s: %w", desc.Digest, errdefs.ErrNotFound)
}

// ---- harness ----

type env struct {
	ctx    context.Context
	client *containerd.Client
	sn     *recSnapshotter
	seq    int
}

func newEnv(dir string) (*env, error) {
	cs, err := local.NewStore(filepath.Join(dir, "content"))
	if err != nil {
		return nil, err
	}
	db, err := bolt.Open(filepath.Join(dir, "meta.db"), 0o600, &bolt.Options{NoSync: true, NoFreelistSync: true})
	if err != nil {
		return nil, err
	}
	sn := &recSnapshotter{infos: map[string]snapshots.Info{}}
	mdb := metadata.NewDB(db, cs, map[string]snapshots.Snapshotter{snapshotterName: sn})
	ctx := namespaces.WithNamespace(context.Background(), "c20")
	if err := mdb.Init(ctx); err != nil {
		return nil, err
	}
	client, err := containerd.New("", containerd.WithServices(
		containerd.WithContentStore(mdb.ContentStore()),
		containerd.WithImageStore(metadata.NewImageStore(mdb)),
		containerd.WithSnapshotters(map[string]snapshots.Snapshotter{snapshotterName: mdb.Snapshotter(snapshotterName)}),
		containerd.WithLeasesService(metadata.NewLeaseManager(mdb)),
		containerd.WithDiffService(noDiff{}),
		containerd.WithIntrospectionService(introspect{}),
	))
	if err != nil {
		return nil, err
	}
	return &env{ctx: ctx, client: client, sn: sn}, nil
}

func sha(b []byte) digest.Digest {
	s := sha256.Sum256(b)
	return digest.Digest("sha256:" + hex.EncodeToString(s[:]))
}

// exec: build config + manifest blobs for the case's layers, pull through the real command wiring, observe the labels
// that reached the snapshotter.
func (e *env) exec(c c20.Case) (c20.Case, c20.Obs, []string) {
	e.seq++
	layers := c.Children[1:]
	cfg := map[string]any{"architecture": runtime.GOARCH, "os": "linux"}
	var diffIDs []string
	for i := range layers {
		diffIDs = append(diffIDs, sha([]byte(fmt.Sprintf("diff-%d-%d", e.seq, i))).String())
	}
	cfg["rootfs"] = map[string]any{"type": "layers", "diff_ids": diffIDs}
	cfgBlob, _ := json.Marshal(cfg)
	cfgMT := ocispec.MediaTypeImageConfig
	if c.MT == images.MediaTypeDockerSchema2Manifest {
		cfgMT = images.MediaTypeDockerSchema2Config
	}
	man := ocispec.Manifest{Versioned: specs.Versioned{SchemaVersion: 2}, MediaType: c.MT,
		Config: ocispec.Descriptor{MediaType: cfgMT, Digest: sha(cfgBlob), Size: int64(len(cfgBlob))}}
	for i, l := range layers {
		d := ocispec.Descriptor{MediaType: l.MT, Digest: digest.Digest(l.Digest), Size: int64(1000 + i), Annotations: l.Ann}
		if l.URLs != nil {
			d.URLs = append([]string{}, l.URLs...)
		}
		man.Layers = append(man.Layers, d)
	}
	manBlob, _ := json.Marshal(man)
	reg := &registry{blobs: map[digest.Digest][]byte{sha(cfgBlob): cfgBlob, sha(manBlob): manBlob},
		root: ocispec.Descriptor{MediaType: c.MT, Digest: sha(manBlob), Size: int64(len(manBlob))}}
	// the case as the model must see it
	c.Children = append([]c20.Child{{MT: c20.ConfigMediaType, Digest: sha(cfgBlob).String()}}, layers...)
	c.MDigest = sha(manBlob).String()
	c.Prefetch = rpullPrefetch

	e.sn.reset()
	err := commands.VerifPull(e.ctx, e.client, c.Ref, reg, snapshotterName, c.Flavour == "extra")
	var problems []string
	if err != nil {
		o, _ := c20.ObsFromAnns(c, nil, true)
		return c, o, []string{"rpull failed on a well-formed image: " + err.Error()}
	}
	prep := e.sn.prepares
	if len(prep) != len(layers) {
		problems = append(problems, fmt.Sprintf("%d layers but %d snapshots prepared", len(layers), len(prep)))
		o, _ := c20.ObsFromAnns(c, nil, true)
		return c, o, problems
	}
	for _, d := range reg.asked {
		if d != sha(cfgBlob) && d != sha(manBlob) {
			problems = append(problems, "a layer blob was downloaded although the snapshotter reported it as remote")
		}
	}
	anns := make([]map[string]string, len(c.Children))
	for i, p := range prep {
		if p[snapshotRefKey] == "" {
			problems = append(problems, "snapshot prepared without the containerd.io/snapshot.ref label")
		}
		delete(p, snapshotRefKey)
		anns[i+1] = p
	}
	o, pr := c20.ObsFromAnns(c, anns, false)
	return c, o, append(problems, pr...)
}

// pullable: the handler-level cases that are images `rpull` can pull (config first, layer-typed children only,
// parsable digests); the config child is not observable at the snapshotter, so it is not recorded.
func pullable(c c20.Case) (c20.Case, bool) {
	if len(c.Children) < 2 {
		return c, false
	}
	if c.MT != ocispec.MediaTypeImageManifest && c.MT != images.MediaTypeDockerSchema2Manifest {
		c.MT = ocispec.MediaTypeImageManifest
	}
	for _, ch := range c.Children[1:] {
		if !images.IsLayerType(ch.MT) {
			return c, false
		}
		if _, err := digest.Parse(ch.Digest); err != nil {
			return c, false
		}
	}
	var rec []int
	for i := 1; i < len(c.Children); i++ {
		if c.Record == nil || contains(c.Record, i) {
			rec = append(rec, i)
		}
	}
	c.Record = rec
	var ps []c20.Probe
	for _, p := range c.Probes {
		if contains(rec, p.Layer) {
			ps = append(ps, p)
		}
	}
	c.Probes = ps
	c.Prefetch = rpullPrefetch
	return c, true
}

func contains(xs []int, x int) bool {
	for _, y := range xs {
		if x == y {
			return true
		}
	}
	return false
}

func main() {
	base := ""
	if st, err := os.Stat("/dev/shm"); err == nil && st.IsDir() {
		base = "/dev/shm" // the content store fsyncs every blob: keep it off the disk
	}
	dir, err := os.MkdirTemp(base, "c20-rpull-")
	if err != nil {
		panic(err)
	}
	defer os.RemoveAll(dir)
	e, err := newEnv(dir)
	if err != nil {
		panic(err)
	}
	var fixed []c20.Case
	for _, c := range append(c20.Corpus(), c20.BoundaryCorpus()...) {
		if pc, ok := pullable(c); ok {
			pc.Prefetch = c.Prefetch
			// keep the fixed part small: the plain corpus, and the boundary cases right at the limit
			if len(pc.Children) > 16 {
				continue
			}
			if pc.Prefetch >= 4000 && (pc.Prefetch < 4060 || pc.Prefetch > 4062) {
				continue // boundary sweep (it stores the swept length in Prefetch): only the lengths around the urls-key limits
			}
			pc.Prefetch = rpullPrefetch
			fixed = append(fixed, pc)
		}
	}
	good := c20.GoodRefs()
	gen := func(r *hx.Rng) c20.Case {
		for {
			c := c20.Gen(r)
			if _, err := reference.Parse(c.Ref); err != nil {
				c.Ref = good[r.Intn(len(good))]
			}
			if pc, ok := pullable(c); ok {
				return pc
			}
		}
	}
	c20.Main(e.exec, fixed, gen)
}
