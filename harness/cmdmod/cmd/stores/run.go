package main

// Driving one metadata.Reader (memory or db) through the whole observable interface and
// canonicalising what it shows into a View.

import (
	"bytes"
	"crypto/sha256"
	"fmt"
	"io"
	"math/big"
	"os"
	"sort"
	"strings"
	"sync"
	"time"

	"github.com/containerd/stargz-snapshotter/metadata"
)

type Probe struct {
	Ok   bool   `json:"ok"`
	Off  int64  `json:"off,omitempty"`
	Size int64  `json:"size,omitempty"`
	Dg   string `json:"dg,omitempty"`
}

type Node struct {
	Path     []string    `json:"path"`
	Size     int64       `json:"size"`
	HasMTime bool        `json:"hasmtime"`
	MTime    string      `json:"mtime"` // exact nanoseconds since the Unix epoch (decimal; no int64 overflow for years 1..9999)
	Link     string      `json:"link"`
	Mode     uint32      `json:"mode"`
	UID      int         `json:"uid"`
	GID      int         `json:"gid"`
	Major    int         `json:"major"`
	Minor    int         `json:"minor"`
	Xattrs   [][2]string `json:"xattrs"`
	NLink    int         `json:"nlink"` // normalised: 0 is reported as 1 (as the FUSE layer does)
	Off      int64       `json:"off"`
	Ino      int         `json:"ino"` // index (in this list) of the first path with the same node id
	Reg      bool        `json:"reg"` // OpenFile succeeds
	Probes   []Probe     `json:"probes,omitempty"`
	Data     string      `json:"data,omitempty"` // sha256 of the bytes read through ReadAt (reg only)
	id       uint32
}

type PreCall struct {
	Path   string `json:"path"`
	ChOff  int64  `json:"choff"`
	ChSize int64  `json:"chsize"`
	Dg     string `json:"dg"`
	Sum    string `json:"sum"`
}

type View struct {
	Err       bool      `json:"err"`
	ErrText   string    `json:"errtext,omitempty"`
	Digest    string    `json:"digest,omitempty"`
	Nodes     []Node    `json:"nodes,omitempty"`
	Pre       []PreCall `json:"pre,omitempty"`
	Problems  []string  `json:"problems,omitempty"`  // internal inconsistencies of this one reader
	PreErrors int       `json:"preerrors,omitempty"` // chunk reads through OpenFileWithPreReader that failed (byte path, C02)
}

type interner struct {
	mu sync.Mutex // layers of one case are observed concurrently
	m  map[string]int
}

func newInterner(pre ...string) *interner {
	in := &interner{m: map[string]int{}}
	for _, s := range pre {
		in.id(s)
	}
	return in
}
func (in *interner) id(s string) int {
	in.mu.Lock()
	defer in.mu.Unlock()
	if v, ok := in.m[s]; ok {
		return v
	}
	v := len(in.m)
	in.m[s] = v
	return v
}

func canonAttr(a metadata.Attr, n *Node) {
	n.Size = a.Size
	n.HasMTime = !a.ModTime.IsZero()
	n.MTime = "0"
	if n.HasMTime {
		n.MTime = timeKey(a.ModTime)
	}
	n.Link = a.LinkName
	n.Mode = uint32(a.Mode)
	n.UID, n.GID, n.Major, n.Minor = a.UID, a.GID, a.DevMajor, a.DevMinor
	n.Xattrs = nil
	for k, v := range a.Xattrs {
		n.Xattrs = append(n.Xattrs, [2]string{k, string(v)})
	}
	sort.Slice(n.Xattrs, func(i, j int) bool { return n.Xattrs[i][0] < n.Xattrs[j][0] })
	n.NLink = a.NumLink
	if n.NLink == 0 {
		n.NLink = 1
	}
}

func sameAttr(a, b *Node) bool {
	if a.Size != b.Size || a.HasMTime != b.HasMTime || a.MTime != b.MTime || a.Link != b.Link || a.Mode != b.Mode ||
		a.UID != b.UID || a.GID != b.GID || a.Major != b.Major || a.Minor != b.Minor || a.NLink != b.NLink || len(a.Xattrs) != len(b.Xattrs) {
		return false
	}
	for i := range a.Xattrs {
		if a.Xattrs[i] != b.Xattrs[i] {
			return false
		}
	}
	return true
}

// observe walks the tree of r in canonical order (children sorted by interned component id, pre-order).
func observe(r metadata.Reader, comp *interner, probes []int64, readData bool, preRead bool) *View {
	v := &View{Digest: r.TOCDigest().String()}
	problem := func(f string, a ...any) {
		if len(v.Problems) < 8 {
			v.Problems = append(v.Problems, fmt.Sprintf(f, a...))
		}
	}
	firstOf := map[uint32]int{}
	onStack := map[uint32]bool{}
	var rec func(id uint32, path []string, depth int)
	rec = func(id uint32, path []string, depth int) {
		attr, err := r.GetAttr(id)
		if err != nil {
			problem("GetAttr(%d) of reachable node %v failed", id, path)
			return
		}
		n := Node{Path: append([]string{}, path...), id: id}
		canonAttr(attr, &n)
		off, err := r.GetOffset(id)
		if err != nil {
			off = -1
		}
		n.Off = off
		idx := len(v.Nodes)
		if f, ok := firstOf[id]; ok {
			n.Ino = f
		} else {
			firstOf[id] = idx
			n.Ino = idx
		}
		f, err := r.OpenFile(id)
		if err == nil {
			n.Reg = true
			for _, p := range probes {
				o, s, d, ok := f.ChunkEntryForOffset(p)
				if ok {
					n.Probes = append(n.Probes, Probe{true, o, s, d})
				} else {
					n.Probes = append(n.Probes, Probe{})
				}
			}
			if readData && attr.Size >= 0 && attr.Size < 1<<22 {
				buf := make([]byte, attr.Size)
				got, rerr := f.ReadAt(buf, 0)
				if attr.Size > 0 && (rerr != nil && rerr != io.EOF || int64(got) != attr.Size) {
					n.Data = fmt.Sprintf("error(n=%d)", got)
				} else {
					n.Data = fmt.Sprintf("%x", sha256.Sum256(buf[:got]))
				}
				// a read from the middle must return the same bytes
				if attr.Size > 3 && !strings.HasPrefix(n.Data, "error") {
					mid := attr.Size / 3
					b2 := make([]byte, attr.Size-mid-1)
					g2, e2 := f.ReadAt(b2, mid)
					if (e2 != nil && e2 != io.EOF) || g2 != len(b2) || !bytes.Equal(b2, buf[mid:mid+int64(len(b2))]) {
						problem("ReadAt(%d..) of %v disagrees with ReadAt(0..)", mid, path)
					}
				}
			}
		}
		v.Nodes = append(v.Nodes, n)
		type child struct {
			name string
			id   uint32
			mode os.FileMode
		}
		var cs []child
		if err := r.ForeachChild(id, func(name string, cid uint32, mode os.FileMode) bool {
			cs = append(cs, child{name, cid, mode})
			return true
		}); err != nil {
			problem("ForeachChild(%v) failed", path)
		}
		if len(cs) > 0 && !attr.Mode.IsDir() {
			problem("non-directory %v has children", path)
		}
		sort.Slice(cs, func(i, j int) bool { return comp.id(cs[i].name) < comp.id(cs[j].name) })
		onStack[id] = true
		for _, c := range cs {
			gid, gattr, err := r.GetChild(id, c.name)
			if err != nil {
				problem("GetChild(%v,%q) fails for a name listed by ForeachChild", path, c.name)
				continue
			}
			if gid != c.id {
				problem("GetChild(%v,%q) id %d != ForeachChild id %d", path, c.name, gid, c.id)
			}
			if gattr.Mode != c.mode {
				problem("ForeachChild mode of %v/%q differs from GetChild attr", path, c.name)
			}
			var a, b Node
			canonAttr(gattr, &a)
			if cattr, err := r.GetAttr(c.id); err == nil {
				canonAttr(cattr, &b)
				if !sameAttr(&a, &b) {
					problem("GetChild attr of %v/%q differs from GetAttr", path, c.name)
				}
			}
			if onStack[c.id] || depth > 40 {
				problem("cycle: %v/%q points to an ancestor", path, c.name)
				continue
			}
			rec(c.id, append(append([]string{}, path...), c.name), depth+1)
		}
		onStack[id] = false
		if _, _, err := r.GetChild(id, "\x00no-such-name"); err == nil {
			problem("GetChild of a missing name succeeds under %v", path)
		}
	}
	// the db store answers GetAttr(root) without waiting for its background initialisation (recorded separately
	// as the "early root attr" observation); any other call waits, so make one first.
	_ = r.ForeachChild(r.RootID(), func(string, uint32, os.FileMode) bool { return false })
	rec(r.RootID(), nil, 0)
	if _, err := r.GetAttr(0xfffffff0); err == nil {
		problem("GetAttr of an unknown id succeeds")
	}
	if preRead {
		pathOf := map[uint32]string{}
		for _, n := range v.Nodes {
			if _, ok := pathOf[n.id]; !ok {
				pathOf[n.id] = strings.Join(n.Path, "/")
			}
		}
		for _, n := range v.Nodes {
			if !n.Reg || n.Size == 0 || n.Ino != indexOf(v.Nodes, n.id) {
				continue
			}
			f, err := r.OpenFileWithPreReader(n.id, func(nid uint32, chOff, chSize int64, dg string, rd io.Reader) error {
				b, err := io.ReadAll(rd)
				if err != nil {
					return err
				}
				if chSize == 0 && len(b) == 0 {
					// memory hands empty files of the stream at blob offset 0 to the callback, db has no chunk for
					// them: nothing is cached either way
					return nil
				}
				v.Pre = append(v.Pre, PreCall{pathOf[nid], chOff, chSize, dg, fmt.Sprintf("%x/%d", sha256.Sum256(b), len(b))})
				return nil
			})
			if err != nil {
				problem("OpenFileWithPreReader(%v) fails although OpenFile succeeds", n.Path)
				continue
			}
			// read the way fs/reader does: chunk by chunk, each chunk with one ReadAt of exactly its size
			buf := make([]byte, 0, n.Size)
			sum := ""
			for off := int64(0); off < n.Size; {
				co, cs, _, ok := f.ChunkEntryForOffset(off)
				if !ok || cs <= 0 || co > off {
					sum = fmt.Sprintf("error(no chunk at %d)", off)
					break
				}
				p := make([]byte, co+cs-off)
				got, rerr := f.ReadAt(p, off)
				if (rerr != nil && rerr != io.EOF) || got != len(p) {
					sum = fmt.Sprintf("error(read %d at %d: n=%d)", len(p), off, got)
					if os.Getenv("STORES_DEBUG") != "" {
						fmt.Println("preread error:", n.Path, rerr)
					}
					break
				}
				buf = append(buf, p...)
				off = co + cs
			}
			if sum == "" {
				sum = fmt.Sprintf("%x", sha256.Sum256(buf))
			}
			if strings.HasPrefix(sum, "error") {
				v.PreErrors++
				problem("ReadAt through OpenFileWithPreReader fails for %v: %s", n.Path, sum)
			} else if n.Data != "" && sum != n.Data {
				problem("ReadAt through OpenFileWithPreReader differs from OpenFile for %v", n.Path)
			}
			v.Pre = append(v.Pre, PreCall{Path: "<read " + strings.Join(n.Path, "/") + ">", Sum: sum})
		}
	}
	return v
}

func indexOf(ns []Node, id uint32) int {
	for i := range ns {
		if ns[i].id == id {
			return i
		}
	}
	return -1
}

// diffViews lists the differences between what the two stores show (the model-free oracle of C05).
type Diff struct {
	Kind string `json:"kind"` // accept | digest | paths | attr | nlink | xattrs | offset | ino | reg | chunk | data | pre
	Path string `json:"path,omitempty"`
	Mem  string `json:"mem,omitempty"`
	Db   string `json:"db,omitempty"`
}

func diffViews(m, d *View) []Diff {
	var out []Diff
	if m.Err != d.Err {
		return []Diff{{Kind: "accept", Mem: fmt.Sprint(!m.Err) + " " + m.ErrText, Db: fmt.Sprint(!d.Err) + " " + d.ErrText}}
	}
	if m.Err {
		return nil
	}
	if m.Digest != d.Digest {
		out = append(out, Diff{Kind: "digest", Mem: m.Digest, Db: d.Digest})
	}
	mp := map[string]*Node{}
	for i := range m.Nodes {
		mp[strings.Join(m.Nodes[i].Path, "/")] = &m.Nodes[i]
	}
	seen := map[string]bool{}
	for i := range d.Nodes {
		dn := &d.Nodes[i]
		p := strings.Join(dn.Path, "/")
		seen[p] = true
		mn, ok := mp[p]
		if !ok {
			out = append(out, Diff{Kind: "paths", Path: p, Mem: "absent", Db: "present"})
			continue
		}
		a, b := *mn, *dn
		if a.NLink != b.NLink {
			out = append(out, Diff{Kind: "nlink", Path: p, Mem: fmt.Sprint(a.NLink), Db: fmt.Sprint(b.NLink)})
		}
		if fmt.Sprint(a.Xattrs) != fmt.Sprint(b.Xattrs) {
			out = append(out, Diff{Kind: "xattrs", Path: p, Mem: fmt.Sprintf("%q", a.Xattrs), Db: fmt.Sprintf("%q", b.Xattrs)})
		}
		a.NLink, b.NLink, a.Xattrs, b.Xattrs = 0, 0, nil, nil
		if !sameAttr(&a, &b) {
			out = append(out, Diff{Kind: "attr", Path: p, Mem: fmt.Sprintf("%+v", attrOnly(a)), Db: fmt.Sprintf("%+v", attrOnly(b))})
		}
		if a.Off != b.Off {
			out = append(out, Diff{Kind: "offset", Path: p, Mem: fmt.Sprint(a.Off), Db: fmt.Sprint(b.Off)})
		}
		if strings.Join(m.Nodes[a.Ino].Path, "/") != strings.Join(d.Nodes[b.Ino].Path, "/") {
			out = append(out, Diff{Kind: "ino", Path: p, Mem: strings.Join(m.Nodes[a.Ino].Path, "/"), Db: strings.Join(d.Nodes[b.Ino].Path, "/")})
		}
		if a.Reg != b.Reg {
			out = append(out, Diff{Kind: "reg", Path: p, Mem: fmt.Sprint(a.Reg), Db: fmt.Sprint(b.Reg)})
		}
		if fmt.Sprint(a.Probes) != fmt.Sprint(b.Probes) {
			out = append(out, Diff{Kind: "chunk", Path: p, Mem: fmt.Sprint(a.Probes), Db: fmt.Sprint(b.Probes)})
		}
		if a.Data != b.Data {
			out = append(out, Diff{Kind: "data", Path: p, Mem: a.Data, Db: b.Data})
		}
	}
	for p := range mp {
		if !seen[p] {
			out = append(out, Diff{Kind: "paths", Path: p, Mem: "present", Db: "absent"})
		}
	}
	// Which other chunks of a stream are handed to the pre-read callback is a caching matter and may differ between
	// the stores; what must agree are the bytes returned by the reads (and every callback must carry the true bytes
	// of the chunk it names: checked against the source files in exec).
	if a, b := preReads(m.Pre), preReads(d.Pre); fmt.Sprint(a) != fmt.Sprint(b) {
		out = append(out, Diff{Kind: "pre", Mem: fmt.Sprint(a), Db: fmt.Sprint(b)})
	}
	sort.SliceStable(out, func(i, j int) bool { return out[i].Path < out[j].Path })
	return out
}

func attrOnly(n Node) Node {
	n.Path, n.Probes, n.Data, n.Off, n.Ino, n.Reg = nil, nil, "", 0, 0, false
	return n
}

func preReads(ps []PreCall) []PreCall {
	var out []PreCall
	for _, p := range ps {
		if strings.HasPrefix(p.Path, "<read ") {
			out = append(out, p)
		}
	}
	return out
}

// timeKey is the instant of t as exact nanoseconds since the Unix epoch.
func timeKey(t time.Time) string {
	v := new(big.Int).Mul(big.NewInt(t.Unix()), big.NewInt(1000000000))
	v.Add(v, big.NewInt(int64(t.Nanosecond())))
	return v.String()
}
