package main

// Construction of the eStargz blob of one case: a tar stream built from the file specs is converted by the
// real builder (estargz.Writer) under the case's options; its TOC is then decoded, mutated by the case's ops
// (spec-conforming shapes the writer never emits) and re-wrapped (TOC gzip member + footer) behind the
// unchanged data members, so every surviving reg/chunk entry still points at real compressed data.

import (
	"archive/tar"
	"bytes"
	"compress/gzip"
	"encoding/binary"
	"encoding/json"
	"fmt"
	"io"
	"path"
	"sort"
	"strings"
	"time"

	"github.com/containerd/stargz-snapshotter/estargz"
	"github.com/containerd/stargz-snapshotter/estargz/externaltoc"
	"github.com/containerd/stargz-snapshotter/estargz/zstdchunked"
	"github.com/klauspost/compress/zstd"
	"verif/harness/hx"
)

// FileSpec is one entry of the source tar.
type FileSpec struct {
	Name   string            `json:"name"`
	Kind   string            `json:"kind"` // dir reg symlink hardlink char block fifo
	Size   int               `json:"size,omitempty"`
	Seed   uint64            `json:"seed,omitempty"` // content = hx.NewRng(Seed).Bytes(Size)
	Mode   int64             `json:"mode,omitempty"`
	UID    int               `json:"uid,omitempty"`
	GID    int               `json:"gid,omitempty"`
	MTime  int64             `json:"mtime,omitempty"` // unix seconds; 0 = zero time
	Link   string            `json:"link,omitempty"`
	Xattrs map[string]string `json:"xattrs,omitempty"`
	Major  int64             `json:"major,omitempty"`
	Minor  int64             `json:"minor,omitempty"`
}

func content(f FileSpec) []byte {
	b := hx.NewRng(f.Seed).Bytes(f.Size)
	// low-entropy tail so that compression levels matter
	for i := len(b) / 2; i < len(b); i++ {
		b[i] = byte('a' + i%3)
	}
	return b
}

func buildTar(files []FileSpec) ([]byte, error) {
	var buf bytes.Buffer
	tw := tar.NewWriter(&buf)
	for _, f := range files {
		h := &tar.Header{Name: f.Name, Mode: f.Mode, Uid: f.UID, Gid: f.GID, Format: tar.FormatPAX}
		if f.MTime != 0 {
			h.ModTime = time.Unix(f.MTime, 0).UTC()
		}
		if len(f.Xattrs) > 0 {
			h.PAXRecords = map[string]string{}
			for k, v := range f.Xattrs {
				h.PAXRecords["SCHILY.xattr."+k] = v
			}
		}
		var data []byte
		switch f.Kind {
		case "dir":
			h.Typeflag = tar.TypeDir
		case "reg":
			h.Typeflag = tar.TypeReg
			data = content(f)
			h.Size = int64(len(data))
		case "symlink":
			h.Typeflag = tar.TypeSymlink
			h.Linkname = f.Link
		case "hardlink":
			h.Typeflag = tar.TypeLink
			h.Linkname = f.Link
		case "char":
			h.Typeflag = tar.TypeChar
			h.Devmajor, h.Devminor = f.Major, f.Minor
		case "block":
			h.Typeflag = tar.TypeBlock
			h.Devmajor, h.Devminor = f.Major, f.Minor
		case "fifo":
			h.Typeflag = tar.TypeFifo
		default:
			return nil, fmt.Errorf("kind %q", f.Kind)
		}
		if err := tw.WriteHeader(h); err != nil {
			return nil, err
		}
		if len(data) > 0 {
			if _, err := tw.Write(data); err != nil {
				return nil, err
			}
		}
	}
	if err := tw.Close(); err != nil {
		return nil, err
	}
	return buf.Bytes(), nil
}

// buildBlob runs the real writer and returns the blob, the offset of its TOC member and the decoded entries.
func buildBlob(c *Case) (blob []byte, tocOff int64, ents []*estargz.TOCEntry, err error) {
	tb, err := buildTar(c.Files)
	if err != nil {
		return nil, 0, nil, err
	}
	var out bytes.Buffer
	var w *estargz.Writer
	var ext *externaltoc.GzipCompressor
	switch c.Comp {
	case "zstd":
		w = estargz.NewWriterWithCompressor(&out, &zstdchunked.Compressor{CompressionLevel: zstd.EncoderLevel(1 + (c.Level&3+4)%4)})
	case "exttoc":
		lv := c.Level
		if lv < -2 || lv > 9 {
			lv = 6
		}
		ext = externaltoc.NewGzipCompressorWithLevel(lv)
		w = estargz.NewWriterWithCompressor(&out, ext)
	default:
		w = estargz.NewWriterLevel(&out, c.Level)
	}
	w.ChunkSize = c.ChunkSize
	w.MinChunkSize = c.MinChunkSize
	if err := w.AppendTar(bytes.NewReader(tb)); err != nil {
		return nil, 0, nil, err
	}
	if _, err := w.Close(); err != nil {
		return nil, 0, nil, err
	}
	blob = out.Bytes()
	switch c.Comp {
	case "zstd":
		d := &zstdchunked.Decompressor{}
		_, off, size, err := d.ParseFooter(blob[len(blob)-zstdchunked.FooterSize:])
		if err != nil {
			return nil, 0, nil, err
		}
		toc, _, err := d.ParseTOC(io.NewSectionReader(bytes.NewReader(blob), off, size))
		if err != nil {
			return nil, 0, nil, err
		}
		return blob, off - 8, toc.Entries, nil // off - 8: start of the skippable frame holding the TOC
	case "exttoc":
		var tb bytes.Buffer
		if _, err := ext.WriteTOCTo(&tb); err != nil {
			return nil, 0, nil, err
		}
		c.extTOC0 = tb.Bytes()
		ents, err := decodeTOCMember(c.extTOC0)
		return blob, int64(len(blob)), ents, err
	}
	tocOff, _, err = estargz.OpenFooter(io.NewSectionReader(bytes.NewReader(blob), 0, int64(len(blob))))
	if err != nil {
		return nil, 0, nil, err
	}
	ents, err = decodeTOCMember(blob[tocOff:])
	return blob, tocOff, ents, err
}

// decodeTOCMember decodes a gzip member holding a tar with the TOC JSON.
func decodeTOCMember(b []byte) ([]*estargz.TOCEntry, error) {
	var tocOff int64
	blob := b
	zr, err := gzip.NewReader(bytes.NewReader(blob[tocOff:]))
	if err != nil {
		return nil, err
	}
	zr.Multistream(false)
	tr := tar.NewReader(zr)
	if _, err := tr.Next(); err != nil {
		return nil, err
	}
	var toc estargz.JTOC
	if err := json.NewDecoder(tr).Decode(&toc); err != nil {
		return nil, err
	}
	return toc.Entries, nil
}

// wrapTOC re-attaches a TOC (JSON bytes) behind the data members.
// tocMember is the gzip member (tar with stargz.index.json) of a TOC.
func tocMember(tocJSON []byte) []byte {
	var buf bytes.Buffer
	gz, _ := gzip.NewWriterLevel(&buf, gzip.BestSpeed)
	tw := tar.NewWriter(gz)
	if err := tw.WriteHeader(&tar.Header{Typeflag: tar.TypeReg, Name: estargz.TOCTarName, Size: int64(len(tocJSON))}); err != nil {
		panic(err)
	}
	tw.Write(tocJSON)
	tw.Close()
	gz.Close()
	return buf.Bytes()
}

// zstdTOC is the zstd:chunked manifest (skippable frame with the compressed TOC) and footer for a TOC placed at off.
func zstdTOC(off int64, tocJSON []byte) []byte {
	var cb bytes.Buffer
	enc, err := zstd.NewWriter(&cb)
	if err != nil {
		panic(err)
	}
	enc.Write(tocJSON)
	enc.Close()
	skip := func(b []byte) []byte {
		size := make([]byte, 4)
		binary.LittleEndian.PutUint32(size, uint32(len(b)))
		return append(append([]byte{0x50, 0x2a, 0x4d, 0x18}, size...), b...)
	}
	footer := make([]byte, zstdchunked.FooterSize)
	binary.LittleEndian.PutUint64(footer, uint64(off)+8)
	binary.LittleEndian.PutUint64(footer[8:], uint64(cb.Len()))
	binary.LittleEndian.PutUint64(footer[16:], uint64(len(tocJSON)))
	binary.LittleEndian.PutUint64(footer[24:], 1)
	copy(footer[32:40], []byte{0x47, 0x6e, 0x55, 0x6c, 0x49, 0x6e, 0x55, 0x78})
	return append(skip(cb.Bytes()), skip(footer)...)
}

func wrapTOC(data []byte, tocOff int64, tocJSON []byte) []byte {
	var buf bytes.Buffer
	buf.Write(data[:tocOff])
	gz, _ := gzip.NewWriterLevel(&buf, gzip.BestSpeed)
	tw := tar.NewWriter(gz)
	if err := tw.WriteHeader(&tar.Header{Typeflag: tar.TypeReg, Name: estargz.TOCTarName, Size: int64(len(tocJSON))}); err != nil {
		panic(err)
	}
	tw.Write(tocJSON)
	tw.Close()
	gz.Close()
	header := make([]byte, 4)
	header[0], header[1] = 'S', 'G'
	subfield := fmt.Sprintf("%016xSTARGZ", tocOff)
	binary.LittleEndian.PutUint16(header[2:4], uint16(len(subfield)))
	buf.Write(estargz.CreateGzipFooter(append(header, []byte(subfield)...)))
	return buf.Bytes()
}

func tocJSON(ents []*estargz.TOCEntry, trail int, trailByte string) []byte {
	if ents == nil {
		ents = []*estargz.TOCEntry{} // "entries":[] ; the builder's "entries":null for an empty tar is a separate case
	}
	b, err := json.Marshal(&estargz.JTOC{Version: 1, Entries: ents})
	if err != nil {
		panic(err)
	}
	if trail > 0 {
		if trailByte == "" {
			trailByte = " "
		}
		b = append(b, []byte(strings.Repeat(trailByte, trail))...)
	}
	return b
}

// ---- TOC mutations (the ops of a case) ----

type Mut struct {
	Op string `json:"op"`
	I  int    `json:"i,omitempty"` // index among the non-chunk entries (modulo their number)
	J  int    `json:"j,omitempty"`
	S  string `json:"s,omitempty"`
	T  string `json:"t,omitempty"`
	N  int64  `json:"n,omitempty"`
}

// group = a non-chunk entry with the chunk entries that follow it
func groups(ents []*estargz.TOCEntry) [][]*estargz.TOCEntry {
	var gs [][]*estargz.TOCEntry
	for _, e := range ents {
		if e.Type == "chunk" && len(gs) > 0 {
			gs[len(gs)-1] = append(gs[len(gs)-1], e)
		} else {
			gs = append(gs, []*estargz.TOCEntry{e})
		}
	}
	return gs
}

func flatten(gs [][]*estargz.TOCEntry) []*estargz.TOCEntry {
	var out []*estargz.TOCEntry
	for _, g := range gs {
		out = append(out, g...)
	}
	return out
}

func cloneEnt(e *estargz.TOCEntry) *estargz.TOCEntry {
	c := *e
	if e.Xattrs != nil {
		c.Xattrs = map[string][]byte{}
		for k, v := range e.Xattrs {
			c.Xattrs[k] = v
		}
	}
	return &c
}

func applyMuts(ents []*estargz.TOCEntry, muts []Mut) []*estargz.TOCEntry {
	for _, m := range muts {
		gs := groups(ents)
		n := len(gs)
		if n == 0 && m.Op != "root" && m.Op != "add" {
			continue
		}
		idx := func(i int) int {
			if n == 0 {
				return 0
			}
			return ((i % n) + n) % n
		}
		switch m.Op {
		case "dropdir": // remove a directory entry: it becomes an implicit parent (or disappears when empty)
			i := idx(m.I)
			if gs[i][0].Type == "dir" {
				gs = append(gs[:i], gs[i+1:]...)
			}
		case "dup": // repeat a directory entry at another position with other attributes
			i := idx(m.I)
			if gs[i][0].Type != "dir" {
				break
			}
			d := cloneEnt(gs[i][0])
			switch m.N % 5 {
			case 0:
				d.UID, d.GID = 0, 0
				d.Xattrs = nil
				d.ModTime3339 = ""
			case 1:
				d.UID += 7
				d.Mode = 0o700
			case 2:
				d.Xattrs = map[string][]byte{"user.dup": []byte("v")}
			case 3:
				d.Xattrs = map[string][]byte{"user.a": []byte("1"), "user.b": []byte("2"), "user.c": []byte("3")}
			case 4:
				// identical repeat
			}
			j := ((m.J % (n + 1)) + n + 1) % (n + 1)
			gs = append(gs[:j], append([][]*estargz.TOCEntry{{d}}, gs[j:]...)...)
		case "move": // move an entry (with its chunks) to another position
			i := idx(m.I)
			g := gs[i]
			if g[0].Type == "reg" && g[0].Size > 0 {
				break // the order of data entries must stay the order of the blob, or the TOC no longer describes it
			}
			gs = append(gs[:i], gs[i+1:]...)
			j := ((m.J % n) + n) % n
			gs = append(gs[:j], append([][]*estargz.TOCEntry{g}, gs[j:]...)...)
		case "name": // respell the name of an entry (same cleaned path)
			i := idx(m.I)
			e := gs[i][0]
			e.Name = respell(e.Name, int(m.N))
			for _, ch := range gs[i][1:] {
				ch.Name = e.Name
			}
		case "linkname": // respell a hardlink target
			i := idx(m.I)
			if gs[i][0].Type == "hardlink" {
				gs[i][0].LinkName = respell(gs[i][0].LinkName, int(m.N))
			}
		case "hardlink": // add a hardlink S -> (name of entry I, which may itself be a hardlink), at position J
			i := idx(m.I)
			t := gs[i][0]
			if t.Type == "dir" || !okNewName(flatten(gs), m.S) {
				break
			}
			h := &estargz.TOCEntry{Name: m.S, Type: "hardlink", LinkName: t.Name}
			j := ((m.J % (n + 1)) + n + 1) % (n + 1)
			gs = append(gs[:j], append([][]*estargz.TOCEntry{{h}}, gs[j:]...)...)
		case "badlink": // hardlink to a name that does not exist
			if !okNewName(flatten(gs), m.S) {
				break
			}
			h := &estargz.TOCEntry{Name: m.S, Type: "hardlink", LinkName: m.T}
			j := ((m.J % (n + 1)) + n + 1) % (n + 1)
			gs = append(gs[:j], append([][]*estargz.TOCEntry{{h}}, gs[j:]...)...)
		case "nodigest":
			gs[idx(m.I)][0].Digest = ""
		case "nochunkdigest":
			for _, e := range gs[idx(m.I)] {
				e.ChunkDigest = ""
			}
		case "xattr":
			e := gs[idx(m.I)][0]
			if e.Xattrs == nil {
				e.Xattrs = map[string][]byte{}
			}
			e.Xattrs[m.S] = []byte(m.T)
		case "mtime":
			gs[idx(m.I)][0].ModTime3339 = m.S
		case "root": // explicit root entry
			r := &estargz.TOCEntry{Name: m.S, Type: "dir", Mode: 0o711 + m.N%2*0o44, UID: int(m.N % 3), ModTime3339: "2021-03-04T05:06:07Z"}
			if m.N%4 == 1 {
				r.Xattrs = map[string][]byte{"user.root": []byte("r")}
			}
			j := ((m.J % (n + 1)) + n + 1) % (n + 1)
			gs = append(gs[:j], append([][]*estargz.TOCEntry{{r}}, gs[j:]...)...)
		case "add": // entry without data: symlink/fifo/dir/empty reg under a possibly implicit parent
			if !okNewName(flatten(gs), m.S) || (m.T != "dir" && hasBelow(flatten(gs), m.S)) {
				break
			}
			e := &estargz.TOCEntry{Name: m.S, Type: m.T, Mode: 0o640, UID: int(m.N % 5)}
			if m.T == "symlink" {
				e.LinkName = "../t"
			}
			j := ((m.J % (n + 1)) + n + 1) % (n + 1)
			gs = append(gs[:j], append([][]*estargz.TOCEntry{{e}}, gs[j:]...)...)
		case "lastsize": // give the last chunk of a file an explicit chunkSize / remove explicit sizes where implied
			g := gs[idx(m.I)]
			last := g[len(g)-1]
			if g[0].Type == "reg" && g[0].Size > 0 {
				if last.ChunkSize == 0 {
					last.ChunkSize = g[0].Size - last.ChunkOffset
				} else if len(g) == 1 {
					last.ChunkSize = 0
				}
			}
		case "gap": // chunk table that does not tile (malformed)
			g := gs[idx(m.I)]
			if len(g) > 1 {
				g[len(g)-1].ChunkOffset += m.N
			}
		case "swapchunks": // chunk entries out of order (malformed)
			g := gs[idx(m.I)]
			if len(g) > 2 {
				g[1], g[len(g)-1] = g[len(g)-1], g[1]
			}
		case "chunkfirst": // chunk entry as the first entry (malformed)
			for i, g := range gs {
				if len(g) > 1 {
					ch := g[len(g)-1]
					gs[i] = g[:len(g)-1]
					gs = append([][]*estargz.TOCEntry{{ch}}, gs...)
					break
				}
			}
		}
		ents = flatten(gs)
	}
	return ents
}

// okNewName: name (cleaned) is not taken and none of its ancestors is a non-directory entry
func okNewName(ents []*estargz.TOCEntry, name string) bool {
	n := strings.TrimPrefix(path.Clean("/"+name), "/")
	if n == "" {
		return false
	}
	typ := map[string]string{}
	for _, e := range ents {
		if e.Type != "chunk" {
			typ[strings.TrimPrefix(path.Clean("/"+e.Name), "/")] = e.Type
		}
	}
	if _, taken := typ[n]; taken {
		return false
	}
	for p := n; ; {
		i := strings.LastIndex(p, "/")
		if i < 0 {
			break
		}
		p = p[:i]
		if t, ok := typ[p]; ok && t != "dir" {
			return false
		}
	}
	return true
}

// hasBelow: some entry lives below name (so name can only be a directory)
func hasBelow(ents []*estargz.TOCEntry, name string) bool {
	n := strings.TrimPrefix(path.Clean("/"+name), "/")
	for _, e := range ents {
		if strings.HasPrefix(strings.TrimPrefix(path.Clean("/"+e.Name), "/"), n+"/") {
			return true
		}
	}
	return false
}

func respell(name string, k int) string {
	name = strings.TrimPrefix(name, "/")
	switch ((k % 8) + 8) % 8 {
	case 0:
		return "./" + name
	case 1:
		return "/" + name
	case 2:
		return "../" + name
	case 3:
		return "zz/../" + name
	case 4:
		return strings.ReplaceAll(name, "/", "//")
	case 5:
		return strings.ReplaceAll(name, "/", "/./")
	case 6:
		if !strings.HasSuffix(name, "/") {
			return name + "/"
		}
		return name
	default:
		return "./../" + name + "/."
	}
}

func sortedKeys(m map[string][]byte) []string {
	ks := make([]string, 0, len(m))
	for k := range m {
		ks = append(ks, k)
	}
	sort.Strings(ks)
	return ks
}
