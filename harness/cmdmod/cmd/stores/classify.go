package main

// Features of the final TOC (input distribution + the narrow conditions of the known finding classes) and
// the classification of oracle failures into known findings (narrow signature) and violations.

import (
	"fmt"
	"sort"
	"strings"

	"github.com/containerd/stargz-snapshotter/estargz"
	"verif/harness/hx"
)

type tocInfo struct {
	nonChunk        int
	implicitParent  bool // some ancestor directory has no entry of its own
	dupDir          bool // a directory name occurs in two entries
	dirAfterChild   bool // a directory entry occurs after an entry below it
	forwardHardlink bool // a hardlink occurs before the entry it names
	hardlinkChain   bool
	missingLink     bool
	rootEntry       bool
	respelled       bool // a name that is not already clean
	emptyXattr      bool // an entry with an empty-valued xattr and at least two xattrs
	noDigest        bool
	regNoChunkDg    bool // non-empty reg whose first chunk has no chunkDigest but has a file digest
	innerOffset     bool
	multiChunk      bool
	offsetNoData    bool // offset on an entry that has no data
	chunkFirst      bool
	badChunks       bool
	hardlinkToDir   bool
}

func analyse(ents []*estargz.TOCEntry) tocInfo {
	var ti tocInfo
	pos := map[string][]int{} // cleaned name -> positions of non-chunk entries
	typ := map[string]string{}
	for i, e := range ents {
		if e.Type == "chunk" {
			if i == 0 {
				ti.chunkFirst = true
			}
			ti.multiChunk = true
			if e.InnerOffset != 0 {
				ti.innerOffset = true
			}
			continue
		}
		ti.nonChunk++
		n := cleanName(e.Name)
		pos[n] = append(pos[n], i)
		typ[n] = e.Type
		if n != e.Name {
			ti.respelled = true
		}
		if n == "" {
			ti.rootEntry = true
		}
		if e.InnerOffset != 0 {
			ti.innerOffset = true
		}
		empties := 0
		for _, v := range e.Xattrs {
			if len(v) == 0 {
				empties++
			}
		}
		if empties > 0 && len(e.Xattrs) > 1 {
			ti.emptyXattr = true
		}
		if e.Type == "reg" && e.Size > 0 {
			if e.Digest == "" {
				ti.noDigest = true
			}
			if e.ChunkDigest == "" && e.Digest != "" {
				ti.regNoChunkDg = true
			}
		} else if e.Offset != 0 {
			ti.offsetNoData = true
		}
	}
	for n, ps := range pos {
		if typ[n] == "dir" && len(ps) > 1 {
			ti.dupDir = true
		}
		for p := parentOf(n); n != ""; p = parentOf(p) {
			pp, ok := pos[p]
			if !ok && p != "" {
				ti.implicitParent = true
			}
			if ok && typ[p] == "dir" {
				for _, x := range pp {
					if x > ps[0] {
						ti.dirAfterChild = true
					}
				}
			}
			if p == "" {
				break
			}
		}
	}
	for i, e := range ents {
		if e.Type != "hardlink" {
			continue
		}
		t := cleanName(e.LinkName)
		ps, ok := pos[t]
		if !ok {
			ti.missingLink = true
			continue
		}
		if typ[t] == "hardlink" {
			ti.hardlinkChain = true
		}
		if typ[t] == "dir" {
			ti.hardlinkToDir = true
		}
		if ps[len(ps)-1] > i {
			ti.forwardHardlink = true
		}
	}
	return ti
}

func features(c *Case, res *Result) []string {
	ti := analyse(res.ents)
	var f []string
	add := func(b bool, s string) {
		if b {
			f = append(f, s)
		}
	}
	add(true, "cases")
	add(ti.nonChunk == 0, "toc.empty")
	add(ti.implicitParent, "toc.implicit-parent")
	add(ti.dupDir, "toc.repeated-dir")
	add(ti.dirAfterChild, "toc.dir-after-child")
	add(ti.forwardHardlink, "toc.forward-hardlink")
	add(ti.hardlinkChain, "toc.hardlink-to-hardlink")
	add(ti.missingLink, "toc.missing-link")
	add(ti.rootEntry, "toc.root-entry")
	add(ti.respelled, "toc.respelled-name")
	add(ti.emptyXattr, "toc.empty-xattr")
	add(ti.noDigest, "toc.no-file-digest")
	add(ti.regNoChunkDg, "toc.no-chunk-digest")
	add(ti.innerOffset, "toc.inner-offset")
	add(ti.multiChunk, "toc.multi-chunk")
	add(ti.chunkFirst, "toc.chunk-first")
	add(c.Trail > 0, "toc.trailing-bytes")
	add(c.Trail > 512, "toc.trailing-bytes.long")
	add(len(c.Ops) == 0, "toc.builder-output")
	add(res.mem.Err, "result.reject.memory")
	add(res.db.Err, "result.reject.db")
	add(!res.mem.Err && !res.db.Err, "result.accept.both")
	add(len(c.Sched) > 1, "layers.shared-db")
	add(c.BadNeighbour, "layers.bad-neighbour")
	add(len(res.mem.Pre) > 0, "op.prereader.callbacks")
	add(c.Coalesce != "", "sched.coalesce."+c.Coalesce)
	add(c.Comp == "", "format.gzip")
	add(c.Comp != "", "format."+c.Comp)
	for site, n := range res.injected {
		add(n > 0, "sched.batch-failure-injected."+site)
		add(site == "nodes" && n > 1, "sched.batch-failure-injected.nodes-streams")
	}
	return f
}

// lateDirParents: for every directory name whose first own entry comes after an entry below it (so the db store had
// already created it implicitly), the cleaned name of its parent. The db store counts the link from such a
// directory to its parent twice (setChild adds one to the parent on every call).
func lateDirParents(ents []*estargz.TOCEntry) map[string]int {
	out := map[string]int{}
	seen := map[string]bool{}     // names that exist (explicitly or implicitly) so far
	explicit := map[string]bool{} // directory names that had an entry of their own
	for _, e := range ents {
		if e.Type == "chunk" {
			continue
		}
		n := cleanName(e.Name)
		if n == "" {
			continue
		}
		if e.Type == "dir" && !explicit[n] {
			if seen[n] {
				out[parentOf(n)]++
			}
			explicit[n] = true
		}
		for p := n; p != ""; p = parentOf(p) {
			seen[p] = true
		}
	}
	return out
}

const (
	sigForward    = "forward-hardlink-db-rejects"
	sigNull       = "entries-null-db-rejects"
	sigChunkFirst = "chunk-first-db-rejects"
	sigLateDir    = "dir-entry-after-child-nlink"
	sigNoChunkDg  = "no-chunk-digest-fallback"
	sigEarlyRoot  = "db-root-attr-before-init"
	sigZstdDigest = "zstd-toc-digest-trailing-bytes"
)

func classify(ctx *hx.Ctx, id int, c *Case, res *Result, feats []string) {
	ti := analyse(res.ents)
	badChunkOps := false
	for _, m := range c.Ops {
		if m.Op == "gap" || m.Op == "swapchunks" || m.Op == "chunkfirst" {
			badChunkOps = true
		}
	}
	for _, p := range res.problems {
		if badChunkOps && strings.Contains(p, "OpenFileWithPreReader") {
			continue // a chunk table that does not tile is not a valid blob: bytes are not compared
		}
		ctx.Violation(id, p, nil)
	}
	if res.neighbourNull {
		ctx.Finding(id, sigNull, "builder output for an empty tar (\"entries\":null) opened as a neighbour layer: memory accepts, db rejects", nil)
	}
	if res.leaked > 0 {
		ctx.Count("db.bucket-of-rejected-layer-left")
	}
	badChunks := false
	for _, m := range c.Ops {
		if m.Op == "gap" || m.Op == "swapchunks" || m.Op == "chunkfirst" {
			badChunks = true
		}
	}
	if res.early != nil && !res.db.Err && len(res.db.Nodes) > 0 && !sameAttr(res.early, &res.db.Nodes[0]) {
		ctx.Count("result.early-root-attr-differs")
		ctx.Finding(id, sigEarlyRoot, "db GetAttr(root) right after NewReader differs from the attributes after initialisation", nil)
	}
	late := lateDirParents(res.ents)
	var unexplained []Diff
	for _, d := range res.diffs {
		switch d.Kind {
		case "accept":
			memOK, dbOK := !res.mem.Err, !res.db.Err
			switch {
			case memOK && !dbOK && c.NullEntries && len(res.ents) == 0:
				ctx.Finding(id, sigNull, "TOC with \"entries\":null (writer output for an empty tar): memory accepts, db rejects", d)
			case memOK && !dbOK && ti.chunkFirst: // db fails at entry 0, whatever follows
				ctx.Finding(id, sigChunkFirst, "TOC starting with a chunk entry: memory accepts, db rejects", d)
			case memOK && !dbOK && ti.forwardHardlink && !ti.chunkFirst && !ti.missingLink:
				ctx.Finding(id, sigForward, "hardlink entry placed before its target: memory accepts, db rejects", d)
			default:
				unexplained = append(unexplained, d)
			}
		case "nlink":
			var m, b int
			fmt.Sscan(d.Mem, &m)
			fmt.Sscan(d.Db, &b)
			if late[d.Path] > 0 && b-m == late[d.Path] {
				ctx.Finding(id, sigLateDir, "directory entry after an entry below it: db counts its link to the parent twice", d)
			} else {
				unexplained = append(unexplained, d)
			}
		case "chunk":
			if badChunks {
				ctx.Count("result.malformed-chunk-table-differs")
				continue
			}
			if ti.regNoChunkDg && digestOnlyDiff(res, d.Path) {
				ctx.Finding(id, sigNoChunkDg, "reg entry with digest but no chunkDigest: memory reports the file digest as chunk digest, db reports none", Diff{Kind: "chunk", Path: d.Path})
			} else {
				unexplained = append(unexplained, d)
			}
		case "data", "pre":
			if badChunks {
				continue
			}
			unexplained = append(unexplained, d)
		default:
			unexplained = append(unexplained, d)
		}
	}
	if c.Comp == "zstd" && c.Trail > 0 && len(unexplained) > 0 {
		only := true
		for _, d := range unexplained {
			if d.Kind != "digest" && d.Kind != "tocdigest-memory" {
				only = false
			}
		}
		if only {
			ctx.Finding(id, sigZstdDigest, "zstd:chunked TOC followed by trailing bytes: memory store's TOC digest covers only what the JSON decoder read", unexplained)
			unexplained = nil
		}
	}
	if len(unexplained) > 0 {
		kinds := map[string]bool{}
		for _, d := range unexplained {
			kinds[d.Kind] = true
		}
		var ks []string
		for k := range kinds {
			ks = append(ks, k)
		}
		sort.Strings(ks)
		if len(unexplained) > 6 {
			unexplained = unexplained[:6]
		}
		ctx.Violation(id, fmt.Sprintf("memory and db stores differ (%s)", strings.Join(ks, ",")), unexplained)
	}
}

// digestOnlyDiff: the probes of path agree on (ok, offset, size) and differ only where db reports no digest
func digestOnlyDiff(res *Result, p string) bool {
	var a, b *Node
	for i := range res.mem.Nodes {
		if strings.Join(res.mem.Nodes[i].Path, "/") == p {
			a = &res.mem.Nodes[i]
		}
	}
	for i := range res.db.Nodes {
		if strings.Join(res.db.Nodes[i].Path, "/") == p {
			b = &res.db.Nodes[i]
		}
	}
	if a == nil || b == nil || len(a.Probes) != len(b.Probes) {
		return false
	}
	for i := range a.Probes {
		x, y := a.Probes[i], b.Probes[i]
		if x.Ok != y.Ok || x.Off != y.Off || x.Size != y.Size {
			return false
		}
		if x.Dg != y.Dg && !(y.Dg == "" && x.Dg != "") {
			return false
		}
	}
	return true
}
