// C05 correspondence harness: the memory and the db (bbolt) metadata stores are opened on the same eStargz blob
// (real builder output whose TOC is then mutated into spec-conforming shapes the builder never emits), driven through
// the whole metadata.Reader interface, and compared (a) with each other and with the source files (model-free oracle) and
// (b) each against its Gallina model (coq/Model/TreeStores.v) through the Coq terms printed here.
package main

import (
	"bytes"
	"crypto/sha256"
	"encoding/json"
	"fmt"
	"io"
	"os"
	"path"
	"path/filepath"
	"runtime"
	"sort"
	"strings"
	"sync"
	"time"

	"github.com/containerd/stargz-snapshotter/cmd/containerd-stargz-grpc/db"
	"github.com/containerd/stargz-snapshotter/estargz"
	"github.com/containerd/stargz-snapshotter/estargz/externaltoc"
	"github.com/containerd/stargz-snapshotter/estargz/zstdchunked"
	"github.com/containerd/stargz-snapshotter/metadata"
	"github.com/containerd/stargz-snapshotter/metadata/memory"
	bolt "go.etcd.io/bbolt"
	"verif/harness/hx"
)

type Case struct {
	Files        []FileSpec `json:"files"`
	ChunkSize    int        `json:"chunksize"`
	MinChunkSize int        `json:"minchunksize"`
	Level        int        `json:"level"`
	Ops          []Mut      `json:"ops"`
	Trail        int        `json:"trail,omitempty"`     // bytes of trailing data after the TOC JSON value
	TrailByte    string     `json:"trailbyte,omitempty"` // " " "\n" "\t"
	Probes       []int64    `json:"probes,omitempty"`    // extra ChunkEntryForOffset probes
	Sched        []string   `json:"sched,omitempty"`     // layer history in the shared bolt DB: open:x close:x (x in m a b c)
	BadNeighbour bool       `json:"badneighbour,omitempty"`
	NullEntries  bool       `json:"nullentries,omitempty"` // keep the builder's "entries":null of an empty tar
	// Coalesce: the bolt DB runs with MaxBatchSize 2 and a long MaxBatchDelay, and whenever a layer is parked inside one of
	// its db.Batch call sites (NewReader: root node, metadata, streams; Close) a FAILING Batch call of a neighbour is queued
	// behind it ("doubleclose": second Close of an already closed layer; "raw": a transaction function that returns an error),
	// so bolt rolls the batch back and re-runs the healthy function.
	Coalesce string `json:"coalesce,omitempty"`
	// Comp: "" = gzip eStargz, "zstd" = zstd:chunked, "exttoc" = gzip eStargz with the TOC outside the blob
	Comp    string `json:"comp,omitempty"`
	extTOC0 []byte
}

// layer = a blob and the options both stores need to open it
type layer struct {
	blob []byte
	opts []metadata.Option
}

// mkLayer attaches a TOC (JSON bytes) to the data members of the case's blob, in the case's format.
func mkLayer(c *Case, data []byte, tocOff int64, tocJ []byte) layer {
	switch c.Comp {
	case "zstd":
		b := append(append([]byte{}, data[:tocOff]...), zstdTOC(tocOff, tocJ)...)
		return layer{b, []metadata.Option{metadata.WithDecompressors(&zstdchunked.Decompressor{})}}
	case "exttoc":
		member := tocMember(tocJ)
		d := externaltoc.NewGzipDecompressor(func() ([]byte, error) { return member, nil })
		return layer{data, []metadata.Option{metadata.WithDecompressors(d)}}
	}
	return layer{wrapTOC(data, tocOff, tocJ), nil}
}

// origLayer is the builder's own output.
func origLayer(c *Case, data []byte) layer {
	switch c.Comp {
	case "zstd":
		return layer{data, []metadata.Option{metadata.WithDecompressors(&zstdchunked.Decompressor{})}}
	case "exttoc":
		member := c.extTOC0
		d := externaltoc.NewGzipDecompressor(func() ([]byte, error) { return member, nil })
		return layer{data, []metadata.Option{metadata.WithDecompressors(d)}}
	}
	return layer{data, nil}
}

type Result struct {
	ents          []*estargz.TOCEntry
	tocBytes      []byte
	blobSize      int64
	mem, db       *View
	early         *Node // db GetAttr(root) immediately after NewReader
	diffs         []Diff
	leaked        int
	injected      map[string]int // failing Batch calls queued behind a parked call, per call site
	neighbourNull bool
	problems      []string // failures of the layer-independence / lifecycle clauses and internal inconsistencies
}

func sectionOf(b []byte) *io.SectionReader {
	return io.NewSectionReader(bytes.NewReader(b), 0, int64(len(b)))
}

func cleanName(name string) string { return strings.TrimPrefix(path.Clean("/"+name), "/") }

// probe offsets: every chunk boundary of the TOC +-1, file sizes +-1, 0, and the case's extras
func probeOffsets(ents []*estargz.TOCEntry, extra []int64) []int64 {
	set := map[int64]bool{0: true, 1: true}
	add := func(x int64) {
		for _, d := range []int64{-1, 0, 1} {
			if x+d >= 0 {
				set[x+d] = true
			}
		}
	}
	for _, e := range ents {
		if e.Type == "reg" {
			add(e.Size)
		}
		if e.Type == "reg" || e.Type == "chunk" {
			add(e.ChunkOffset)
			if e.ChunkSize > 0 {
				add(e.ChunkOffset + e.ChunkSize)
			}
		}
	}
	for _, x := range extra {
		if x >= 0 {
			set[x] = true
		}
	}
	out := make([]int64, 0, len(set))
	for x := range set {
		out = append(out, x)
	}
	sort.Slice(out, func(i, j int) bool { return out[i] < out[j] })
	if len(out) > 28 {
		// keep the small ones and a spread of the rest
		keep := out[:14]
		step := (len(out) - 14) / 14
		if step < 1 {
			step = 1
		}
		for i := 14; i < len(out) && len(keep) < 28; i += step {
			keep = append(keep, out[i])
		}
		out = keep
	}
	return out
}

var workDir string
var dbSeq int

func exec(c *Case) *Result {
	res := &Result{}
	blob0, tocOff, ents0, err := buildBlob(c)
	if err != nil {
		panic(fmt.Sprintf("builder failed on generated tar: %v", err))
	}
	orig := make([]*estargz.TOCEntry, len(ents0))
	for i, e := range ents0 {
		orig[i] = cloneEnt(e)
	}
	ents := applyMuts(ents0, c.Ops)
	res.ents = ents
	res.tocBytes = tocJSON(ents, c.Trail, c.TrailByte)
	if c.NullEntries && len(ents) == 0 {
		res.tocBytes = []byte(`{"version":1,"entries":null}`)
	}
	mainL := mkLayer(c, blob0, tocOff, res.tocBytes)
	blob := mainL.blob
	res.blobSize = int64(len(blob))
	probes := probeOffsets(ents, c.Probes)
	comp := componentInterner(ents)

	// memory store
	mr, err := memory.NewReader(sectionOf(blob), mainL.opts...)
	if err != nil {
		res.mem = &View{Err: true, ErrText: errClass(err)}
	} else {
		res.mem = observe(mr, comp, probes, true, true)
		if cl, err := mr.Clone(sectionOf(blob)); err != nil {
			res.problems = append(res.problems, "memory Clone failed")
		} else {
			cv := observe(cl, comp, probes, true, false)
			if d := diffViews(stripPre(res.mem), cv); len(d) > 0 {
				res.problems = append(res.problems, fmt.Sprintf("memory: Clone shows another filesystem: %+v", d[0]))
			}
		}
		mr.Close()
	}

	// db store: the main layer lives in one bolt file together with neighbours
	dbSeq++
	dbPath := filepath.Join(workDir, fmt.Sprintf("meta-%d.db", dbSeq))
	bdb, err := bolt.Open(dbPath, 0600, &bolt.Options{NoSync: true, NoFreelistSync: true})
	if err != nil {
		panic(err)
	}
	defer func() {
		bdb.Close()
		os.Remove(dbPath)
	}()
	bdb.MaxBatchDelay = 3 * time.Millisecond
	if d := os.Getenv("STORES_BATCHDELAY_MS"); d != "" {
		var ms int
		fmt.Sscan(d, &ms)
		bdb.MaxBatchDelay = time.Duration(ms) * time.Millisecond
	}
	blobs := map[string]layer{"m": mainL, "a": origLayer(c, blob0), "b": mkLayer(c, blob0, tocOff, res.tocBytes)}
	if c.BadNeighbour {
		bad := append([]*estargz.TOCEntry{}, orig...)
		bad = append(bad, &estargz.TOCEntry{Name: "zzbad", Type: "hardlink", LinkName: "no/such/target"})
		blobs["c"] = mkLayer(c, blob0, tocOff, tocJSON(bad, 0, ""))
	} else {
		blobs["c"] = mkLayer(c, blob0, tocOff, tocJSON(nil, 0, "")) // empty layer
	}
	readers := map[string]metadata.Reader{}
	first := map[string]*View{}
	var mu sync.Mutex
	// guard runs an action that may call db.Batch; in coalesce mode failing Batch calls are injected while it is parked
	guard := func(action func()) { action() }
	if c.Coalesce != "" {
		res.injected = map[string]int{}
		var closedX metadata.Reader
		auxL := mkLayer(c, blob0, tocOff, tocJSON(nil, 0, ""))
		if x, err := db.NewReader(bdb, sectionOf(auxL.blob), auxL.opts...); err == nil {
			if _, err := x.GetOffset(x.RootID()); err == nil && x.Close() == nil {
				closedX = x
			}
		}
		if closedX == nil {
			res.problems = append(res.problems, "coalesce: could not open and close the auxiliary layer")
		}
		bdb.MaxBatchDelay = 500 * time.Millisecond
		bdb.MaxBatchSize = 2
		inject := func() {
			if c.Coalesce == "doubleclose" && closedX != nil {
				if closedX.Close() == nil {
					res.problems = append(res.problems, "second Close of a closed layer reports success")
				}
				return
			}
			bdb.Batch(func(*bolt.Tx) error { return fmt.Errorf("injected failure") })
		}
		guard = func(action func()) {
			done := make(chan struct{})
			go func() { defer close(done); action() }()
			if !injectWhileParked(done, inject, res.injected) {
				res.problems = append(res.problems, "coalesce: a db call did not return within 20s")
				<-done
			}
		}
	}
	openAll := func(names []string) {
		var wg sync.WaitGroup
		for _, nm := range names {
			wg.Add(1)
			go func(nm string) {
				defer wg.Done()
				r, err := db.NewReader(bdb, sectionOf(blobs[nm].blob), blobs[nm].opts...)
				var early *Node
				if err == nil && nm == "m" {
					if a, e2 := r.GetAttr(r.RootID()); e2 == nil {
						early = &Node{}
						canonAttr(a, early)
					}
				}
				var v *View
				if err == nil {
					// the db store parses the TOC in the background: a rejected TOC shows as a reader whose
					// every call (except GetAttr(root)) fails
					if _, werr := r.GetOffset(r.RootID()); werr != nil {
						err = werr
					}
				}
				if err != nil {
					v = &View{Err: true, ErrText: errClass(err)}
				} else {
					v = observe(r, comp, probes, true, nm == "m")
				}
				mu.Lock()
				defer mu.Unlock()
				if err == nil && !v.Err {
					readers[nm] = r
				}
				first[nm] = v
				if nm == "m" {
					res.early = early
				}
			}(nm)
		}
		wg.Wait()
	}
	recheck := func(after string) {
		for nm, r := range readers {
			v := observe(r, comp, probes, false, false)
			if d := diffViews(stripData(first[nm]), v); len(d) > 0 || len(v.Problems) > 0 {
				res.problems = append(res.problems, fmt.Sprintf("layer %s changed after %s: %+v %v", nm, after, d, v.Problems))
			}
		}
	}
	sched := c.Sched
	if len(sched) == 0 {
		sched = []string{"open:m"}
	}
	i := 0
	for i < len(sched) {
		// consecutive opens run concurrently
		var opens []string
		for i < len(sched) && strings.HasPrefix(sched[i], "open:") {
			nm := sched[i][5:]
			if _, ok := first[nm]; !ok && blobs[nm].blob != nil && !contains(opens, nm) {
				opens = append(opens, nm)
			}
			i++
		}
		if len(opens) > 0 {
			guard(func() { openAll(opens) })
			recheck("open " + strings.Join(opens, ","))
		}
		if i < len(sched) && strings.HasPrefix(sched[i], "close:") {
			nm := sched[i][6:]
			if r, ok := readers[nm]; ok {
				guard(func() {
					if err := r.Close(); err != nil {
						res.problems = append(res.problems, "Close of layer "+nm+" failed")
					}
				})
				delete(readers, nm)
				if _, err := r.GetAttr(r.RootID()); err == nil && nm != "m" {
					res.problems = append(res.problems, "closed layer "+nm+" still answers GetAttr(root)")
				}
				recheck("close " + nm)
			}
			i++
		} else if i < len(sched) && !strings.HasPrefix(sched[i], "open:") {
			i++
		}
	}
	if first["m"] == nil {
		guard(func() { openAll([]string{"m"}) })
	}
	res.db = first["m"]
	// db Clone shows the same filesystem
	if r, ok := readers["m"]; ok {
		if cl, err := r.Clone(sectionOf(blob)); err != nil {
			res.problems = append(res.problems, "db Clone failed")
		} else {
			cv := observe(cl, comp, probes, true, false)
			if d := diffViews(stripPre(res.db), cv); len(d) > 0 {
				res.problems = append(res.problems, fmt.Sprintf("db: Clone shows another filesystem: %+v", d[0]))
			}
		}
	}
	// the unmutated neighbour must agree with the memory store as well (builder output, oracle only)
	if va, ok := first["a"]; ok {
		if ma, err := memory.NewReader(sectionOf(blobs["a"].blob), blobs["a"].opts...); err == nil {
			mv := observe(ma, comp, probes, true, false)
			if d := diffViews(mv, stripPre(va)); len(d) > 0 {
				res.problems = append(res.problems, fmt.Sprintf("builder output (neighbour a): stores differ: %+v", d[0]))
			}
		} else if !va.Err {
			res.problems = append(res.problems, "builder output (neighbour a): memory rejects, db accepts")
		}
		if len(res.problems) > 0 && len(c.Files) == 0 && va.Err && strings.HasPrefix(res.problems[len(res.problems)-1], "builder output (neighbour a): stores differ: {Kind:accept") {
			// the writer's own output for an empty tar has "entries":null
			res.problems = res.problems[:len(res.problems)-1]
			res.neighbourNull = true
		}
	}
	for nm, r := range readers {
		guard(func() {
			if err := r.Close(); err != nil {
				res.problems = append(res.problems, "final Close of layer "+nm+" failed")
			}
		})
	}
	// nothing may be left behind in the database
	bdb.View(func(tx *bolt.Tx) error {
		if fs := tx.Bucket([]byte("filesystems")); fs != nil {
			n := 0
			fs.ForEach(func(k, v []byte) error { n++; return nil })
			rejected := 0
			for _, v := range first {
				if v.Err {
					rejected++
				}
			}
			if n > rejected { // the bucket of a rejected layer stays behind (its Close fails too): counted, not a C05 clause
				res.problems = append(res.problems, fmt.Sprintf("%d filesystem buckets left after closing every layer", n))
			}
			res.leaked = n
		}
		return nil
	})
	res.diffs = diffViews(res.mem, res.db)
	res.problems = append(res.problems, prefixAll("memory: ", res.mem.Problems)...)
	res.problems = append(res.problems, prefixAll("db: ", res.db.Problems)...)
	// model-free expectations that do not need the other store
	want := fmt.Sprintf("sha256:%x", sha256.Sum256(res.tocBytes))
	for nm, v := range map[string]*View{"memory": res.mem, "db": res.db} {
		if !v.Err && v.Digest != want {
			res.diffs = append(res.diffs, Diff{Kind: "tocdigest-" + nm, Mem: v.Digest, Db: want})
		}
	}
	if !hasMalformedChunks(c) {
		// every chunk handed to the pre-read callback must be the chunk it claims to be
		content0 := map[string][]byte{}
		for _, f := range c.Files {
			if f.Kind == "reg" {
				content0[cleanName(f.Name)] = content(f)
			}
		}
		for nm, v := range map[string]*View{"memory": res.mem, "db": res.db} {
			for _, p := range v.Pre {
				if strings.HasPrefix(p.Path, "<read ") {
					continue
				}
				sum := p.Sum[:strings.Index(p.Sum, "/")]
				if p.Dg != "" && p.Dg != "sha256:"+sum && !noChunkDigestOp(c) {
					res.problems = append(res.problems, fmt.Sprintf("%s: pre-read callback for %s chunk %d+%d carries bytes that do not match its digest", nm, p.Path, p.ChOff, p.ChSize))
				}
				if b, ok := content0[p.Path]; ok {
					if p.ChOff < 0 || p.ChOff+p.ChSize > int64(len(b)) || fmt.Sprintf("%x", sha256.Sum256(b[p.ChOff:p.ChOff+p.ChSize])) != sum {
						res.problems = append(res.problems, fmt.Sprintf("%s: pre-read callback for %s chunk %d+%d does not carry the bytes of that range of the file", nm, p.Path, p.ChOff, p.ChSize))
					}
				}
			}
		}
		src := map[string]string{}
		for _, f := range c.Files {
			if f.Kind == "reg" {
				src[cleanName(f.Name)] = fmt.Sprintf("%x", sha256.Sum256(content(f)))
			}
		}
		for nm, v := range map[string]*View{"memory": res.mem, "db": res.db} {
			if v.Err {
				continue
			}
			for _, n := range v.Nodes {
				if want, ok := src[strings.Join(n.Path, "/")]; ok && n.Reg && n.Data != want {
					res.problems = append(res.problems, fmt.Sprintf("%s: bytes of %v are not the bytes of the source file (%s)", nm, n.Path, n.Data))
				}
			}
		}
	}
	return res
}

func hasMalformedChunks(c *Case) bool {
	for _, m := range c.Ops {
		switch m.Op {
		case "gap", "swapchunks", "chunkfirst", "offset", "move", "dup", "dropdir", "add":
			return true // conservative: anything that can detach a file from its data or shadow it
		}
	}
	return false
}

func contains(xs []string, x string) bool {
	for _, y := range xs {
		if y == x {
			return true
		}
	}
	return false
}

func prefixAll(p string, xs []string) []string {
	out := make([]string, len(xs))
	for i, x := range xs {
		out[i] = p + x
	}
	return out
}

func stripPre(v *View) *View { c := *v; c.Pre = nil; return &c }
func stripData(v *View) *View {
	c := *v
	c.Pre = nil
	c.Nodes = append([]Node{}, v.Nodes...)
	for i := range c.Nodes {
		c.Nodes[i].Data = ""
	}
	return &c
}

func errClass(err error) string {
	s := err.Error()
	if len(s) > 160 {
		s = s[:160]
	}
	return s
}

func componentInterner(ents []*estargz.TOCEntry) *interner {
	in := newInterner("", ".", "..")
	for _, e := range ents {
		for _, c := range strings.Split(e.Name, "/") {
			in.id(c)
		}
		if e.Type == "hardlink" {
			for _, c := range strings.Split(e.LinkName, "/") {
				in.id(c)
			}
		}
	}
	return in
}

func main() {
	ctx := hx.Start()
	var err error
	workDir, err = os.MkdirTemp(ctx.Out, "db")
	if err != nil {
		panic(err)
	}
	defer os.RemoveAll(workDir)
	debug := os.Getenv("STORES_DEBUG") != ""
	emit := func(c Case) {
		res := exec(&c)
		term, key, feats := coqCase(&c, res)
		for _, f := range feats {
			ctx.Count(f)
		}
		nontrivial := !res.mem.Err && len(res.mem.Nodes) >= 4
		id := ctx.Case(term, c, key, nontrivial)
		classify(ctx, id, &c, res, feats)
		if debug && (len(res.diffs) > 0 || len(res.problems) > 0) {
			b, _ := json.Marshal(c)
			fmt.Printf("case %d: %s\n  toc: %s\n", id, b, res.tocBytes[:min(len(res.tocBytes), 1500)])
			for _, d := range res.diffs {
				fmt.Printf("  DIFF %+v\n", d)
			}
			for _, p := range res.problems {
				fmt.Printf("  PROBLEM %s\n", p)
			}
		}
	}
	if ctx.Replay != "" {
		var c Case
		ctx.LoadReplay(&c)
		emit(c)
		ctx.Finish()
		return
	}
	cs := corpus()
	for i, c := range cs {
		if i >= ctx.N {
			break
		}
		emit(c)
	}
	r := hx.NewRng(ctx.Seed * 1000003) // hx seeds n and n+1 are the same stream shifted by one draw: spread them
	for i := len(cs); i < ctx.N; i++ {
		emit(gen(r.Fork(), ctx.Tier))
	}
	ctx.Finish()
}

// parkedInBatch reports how many goroutines wait inside (*bolt.DB).Batch for their batch to run, and the db call site of one.
func parkedInBatch() (n int, site string) {
	buf := make([]byte, 1<<20)
	buf = buf[:runtime.Stack(buf, true)]
	for _, g := range strings.Split(string(buf), "\n\n") {
		if !strings.Contains(g, "bbolt.(*DB).Batch(") || !strings.Contains(g[:strings.Index(g+"\n", "\n")], "chan receive") {
			continue
		}
		n++
		switch {
		case strings.Contains(g, ").initRootNode("):
			site = "root"
		case strings.Contains(g, ").initNodes("):
			site = "nodes"
		case strings.Contains(g, ").Close("):
			site = "close"
		default:
			site = "other"
		}
	}
	return
}

// injectWhileParked polls (bounded) until done; whenever a goroutine is parked in Batch it queues a failing call behind it
// (with MaxBatchSize 2 the batch then runs at once). No sleep is used as synchronisation: the poll only yields.
func injectWhileParked(done <-chan struct{}, inject func(), count map[string]int) bool {
	deadline := time.Now().Add(20 * time.Second)
	for time.Now().Before(deadline) {
		select {
		case <-done:
			return true
		default:
		}
		if n, site := parkedInBatch(); n > 0 {
			count[site]++
			inject()
		} else {
			time.Sleep(50 * time.Microsecond)
		}
	}
	return false
}

// noChunkDigestOp: the TOC was stripped of chunk digests: a multi-chunk file then has only its file digest, which both
// stores report for its first chunk (legacy stargz); such a chunk cannot be verified by anybody
func noChunkDigestOp(c *Case) bool {
	for _, m := range c.Ops {
		if m.Op == "nochunkdigest" {
			return true
		}
	}
	return false
}
