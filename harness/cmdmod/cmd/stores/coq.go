package main

// Printing of one case as a Coq term of type Model.TreeStores.case (everything numeric is Z; the driver's
// preamble opens Z_scope), and classification of the oracle's findings.

import (
	"fmt"
	"strings"
	"time"

	"github.com/containerd/stargz-snapshotter/estargz"
	"verif/harness/hx"
)

func zlist(xs []int) string {
	s := make([]string, len(xs))
	for i, x := range xs {
		s[i] = z(int64(x))
	}
	return "[" + strings.Join(s, ";") + "]"
}

func z(x int64) string {
	if x < 0 {
		return fmt.Sprintf("(%d)", x)
	}
	return fmt.Sprintf("%d", x)
}

type interners struct {
	comp, str *interner
}

// sid interns s in namespace ns; the empty string is 0 in every namespace (the model only tests emptiness).
func (in *interners) sid(ns, s string) int {
	if s == "" {
		return 0
	}
	return in.str.id(ns + s)
}

func (in *interners) comps(name string) []int {
	var out []int
	for _, c := range strings.Split(name, "/") {
		out = append(out, in.comp.id(c))
	}
	return out
}

func typeCtor(t string) string {
	switch t {
	case "dir":
		return "TDir"
	case "reg":
		return "TReg"
	case "symlink":
		return "TSymlink"
	case "hardlink":
		return "THardlink"
	case "char":
		return "TChar"
	case "block":
		return "TBlock"
	case "fifo":
		return "TFifo"
	case "chunk":
		return "TChunk"
	}
	return "TOther"
}

func mtimeTerm(has bool, ns string) string {
	if !has {
		return "None"
	}
	if strings.HasPrefix(ns, "-") {
		return "(Some (" + ns + "))"
	}
	return "(Some " + ns + ")"
}

func coqEntry(in *interners, e *estargz.TOCEntry) string {
	t, err := time.Parse(time.RFC3339, e.ModTime3339)
	has := err == nil && !t.IsZero()
	ns := "0"
	if has {
		ns = timeKey(t)
	}
	perm := int64(uint32((&estargz.TOCEntry{Mode: e.Mode, Type: "reg"}).Stat().Mode()))
	var xs []string
	for _, k := range sortedKeys(e.Xattrs) {
		xs = append(xs, fmt.Sprintf("(%d,%d)", in.sid("k:", k), in.sid("v:", string(e.Xattrs[k]))))
	}
	hl := "[]"
	if e.Type == "hardlink" {
		hl = zlist(in.comps(e.LinkName))
	}
	return fmt.Sprintf("E %s %s %s %s %d %s %s %s %s %s %s [%s] %s %s %s %s %d %d",
		zlist(in.comps(e.Name)), typeCtor(e.Type), z(e.Size), mtimeTerm(has, ns), in.sid("l:", e.LinkName), hl,
		z(perm), z(int64(e.UID)), z(int64(e.GID)), z(int64(e.DevMajor)), z(int64(e.DevMinor)), strings.Join(xs, ";"),
		z(e.Offset), z(e.InnerOffset), z(e.ChunkOffset), z(e.ChunkSize), in.sid("d:", e.Digest), in.sid("d:", e.ChunkDigest))
}

func coqView(in *interners, v *View) string {
	if v.Err {
		return "None"
	}
	ns := make([]string, len(v.Nodes))
	for i, n := range v.Nodes {
		var path []int
		for _, c := range n.Path {
			path = append(path, in.comp.id(c))
		}
		var xs []string
		for _, kv := range n.Xattrs {
			xs = append(xs, fmt.Sprintf("(%d,%d)", in.sid("k:", kv[0]), in.sid("v:", kv[1])))
		}
		ps := make([]string, len(n.Probes))
		for j, p := range n.Probes {
			if p.Ok {
				ps[j] = fmt.Sprintf("Some (%s,%s,%d)", z(p.Off), z(p.Size), in.sid("d:", p.Dg))
			} else {
				ps[j] = "None"
			}
		}
		ns[i] = fmt.Sprintf("V %s (A %s %s %d %s %s %s %s %s [%s] %s) %s %d %s [%s]",
			zlist(path), z(n.Size), mtimeTerm(n.HasMTime, n.MTime), in.sid("l:", n.Link), z(int64(n.Mode)),
			z(int64(n.UID)), z(int64(n.GID)), z(int64(n.Major)), z(int64(n.Minor)), strings.Join(xs, ";"), z(int64(n.NLink)),
			z(n.Off), n.Ino, hx.CoqBool(n.Reg), strings.Join(ps, ";"))
	}
	return "(Some [" + strings.Join(ns, "; ") + "])"
}

// coqCase returns the Coq term, the distinctness key and the feature list (input distribution) of a case.
func coqCase(c *Case, res *Result) (term, key string, feats []string) {
	in := &interners{comp: componentInterner(res.ents), str: newInterner("")}
	es := make([]string, len(res.ents))
	for i, e := range res.ents {
		es[i] = coqEntry(in, e)
	}
	probes := probeOffsets(res.ents, c.Probes)
	ps := make([]string, len(probes))
	for i, p := range probes {
		ps[i] = z(p)
	}
	term = fmt.Sprintf("(%s, [%s], %s, %s)", "["+strings.Join(es, "; ")+"]", strings.Join(ps, ";"), coqView(in, res.mem), coqView(in, res.db))
	key = term
	feats = features(c, res)
	return
}
