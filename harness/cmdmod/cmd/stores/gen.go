package main

import (
	"fmt"

	"verif/harness/hx"
)

// TOC modtimes at their boundaries (RFC 3339): absent, unparsable, fractional seconds, non-UTC offsets, the epoch,
// before 1970, before 1678 / after 2262 (outside int64 nanoseconds), year 1 (Go's zero time) and year 9999
var mtimes = []string{"", "not-a-time", "2020-02-29T12:34:56Z", "2019-01-01T00:00:00+09:00", "1970-01-01T00:00:00Z",
	"2022-05-05T05:05:05.123456789Z", "0001-01-01T00:00:00Z", "2021-06-07T08:09:10.5Z", "2021-06-07T08:09:10.000000001Z",
	"2021-06-07T08:09:10.999999999Z", "2018-03-04T05:06:07.25-03:30", "1969-12-31T23:59:59Z", "1969-12-31T23:59:59.999999999Z",
	"1901-02-03T04:05:06Z", "1600-01-01T00:00:00Z", "2300-01-01T00:00:00.5Z", "9999-12-31T23:59:59Z", "9999-12-31T23:59:59.999999999+14:00",
	"0001-01-01T00:00:00.000000001Z", "1970-01-01T00:00:00.000000001Z"}

var xattrKeys = []string{"user.k", "security.capability", "user.long.name", "trusted.x"}

func genFiles(r *hx.Rng, chunk int) []FileSpec {
	n := r.Range(0, 9)
	if r.Chance(1, 25) {
		n = 0
	}
	prefix := ""
	switch r.Pick(6, 2, 1, 1) {
	case 1:
		prefix = "./"
	case 2:
		prefix = "/"
	case 3:
		prefix = "../"
	}
	dirs := []string{""}
	var targets []string // names a hardlink may point to (reg, symlink, hardlink)
	var files []FileSpec
	used := map[string]bool{}
	bases := []string{"a", "b", "c", "d", "f", "g", "h", "k", "lnk", "x.txt", "y", "z"}
	for i := 0; i < n; i++ {
		parent := dirs[r.Intn(len(dirs))]
		if r.Chance(1, 6) { // file below a directory that has no entry of its own (implicit parent)
			parent = join(parent, "imp"+fmt.Sprint(r.Intn(2)))
		}
		base := bases[r.Intn(len(bases))]
		name := join(parent, base)
		if used[name] {
			name = join(parent, fmt.Sprintf("%s%d", base, i))
		}
		used[name] = true
		// everything implicit above name is now a directory
		for p := parent; p != ""; p = parentOf(p) {
			used[p] = true
		}
		f := FileSpec{Name: prefix + name, Mode: int64([]int{0o644, 0o755, 0o600, 0o4755, 0o1777, 0o2750, 0}[r.Intn(7)])}
		if r.Chance(1, 2) {
			f.UID, f.GID = r.Intn(3)*500, r.Intn(3)*1000
		}
		if r.Chance(2, 3) {
			f.MTime = int64(1500000000 + r.Intn(100000000))
		}
		if r.Chance(1, 4) {
			f.Xattrs = map[string]string{}
			for k := r.Range(1, 3); k > 0; k-- {
				v := fmt.Sprintf("v%d", r.Intn(4))
				if r.Chance(1, 3) {
					v = "" // empty-valued xattr
				}
				f.Xattrs[xattrKeys[r.Intn(len(xattrKeys))]] = v
			}
		}
		switch r.Pick(24, 40, 8, 12, 4, 4, 4) {
		case 0:
			f.Kind = "dir"
			dirs = append(dirs, name)
			if r.Chance(3, 4) {
				f.Name += "/"
			}
			if f.Mode == 0 {
				f.Mode = 0o755
			}
		case 1:
			f.Kind = "reg"
			f.Seed = r.U64()
			switch r.Pick(2, 3, 3, 3, 2) {
			case 0:
				f.Size = 0
			case 1:
				f.Size = r.Range(1, 40)
			case 2:
				f.Size = chunk*r.Range(1, 4) + r.Range(-1, 1)
			case 3:
				f.Size = r.Range(1, chunk*4)
			case 4:
				f.Size = r.Range(200, 2500)
			}
			if f.Size < 0 {
				f.Size = 0
			}
			targets = append(targets, f.Name)
		case 2:
			f.Kind = "symlink"
			f.Link = []string{"../a", "/etc/passwd", "x", "a/b/c"}[r.Intn(4)]
			targets = append(targets, f.Name)
		case 3:
			if len(targets) == 0 {
				f.Kind = "fifo"
				break
			}
			f.Kind = "hardlink"
			f.Link = targets[r.Intn(len(targets))] // may itself be a hardlink: chains
			targets = append(targets, f.Name)
		case 4:
			f.Kind = "char"
			f.Major, f.Minor = int64(r.Intn(300)), int64(r.Intn(300))
		case 5:
			f.Kind = "block"
			f.Major, f.Minor = int64(r.Intn(300)), int64(r.Intn(300))
		case 6:
			f.Kind = "fifo"
		}
		files = append(files, f)
	}
	return files
}

func join(p, b string) string {
	if p == "" {
		return b
	}
	return p + "/" + b
}

func parentOf(p string) string {
	for i := len(p) - 1; i >= 0; i-- {
		if p[i] == '/' {
			return p[:i]
		}
	}
	return ""
}

func gen(r *hx.Rng, tier string) Case {
	c := Case{}
	chunk := []int{16, 50, 64, 100, 300}[r.Intn(5)]
	c.ChunkSize = chunk
	if r.Chance(1, 5) {
		c.ChunkSize = 0 // builder default (4 MiB): single-chunk files
	}
	if r.Chance(2, 5) {
		c.MinChunkSize = []int{40, 200, 1000, 5000}[r.Intn(4)]
	}
	c.Level = []int{0, 1, 9, -1, -2}[r.Intn(5)]
	c.Files = genFiles(r, chunk)
	nm := r.Pick(30, 25, 20, 15, 10)
	for i := 0; i < nm; i++ {
		c.Ops = append(c.Ops, genMut(r))
	}
	if r.Chance(1, 12) {
		c.Ops = append(c.Ops, genMalformed(r))
	}
	switch r.Pick(60, 20, 10, 10) {
	case 1:
		c.Trail = r.Range(1, 64)
	case 2:
		c.Trail = []int{400, 511, 512, 513, 1024, 4097}[r.Intn(6)]
	case 3:
		c.Trail = r.Range(65, 9000)
	}
	if c.Trail > 0 {
		c.TrailByte = []string{" ", "\n", "\t", " "}[r.Intn(4)]
	}
	for i := r.Intn(3); i > 0; i-- {
		c.Probes = append(c.Probes, int64(r.Intn(3000)))
	}
	c.Sched = genSched(r)
	c.BadNeighbour = r.Chance(1, 4)
	if r.Chance(1, 5) {
		c.Coalesce = []string{"doubleclose", "raw"}[r.Intn(2)]
	}
	switch r.Pick(6, 2, 2) {
	case 1:
		c.Comp = "zstd"
	case 2:
		c.Comp = "exttoc"
	}
	return c
}

func genSched(r *hx.Rng) []string {
	layers := []string{"m", "a", "b", "c"}
	// shuffle
	for i := len(layers) - 1; i > 0; i-- {
		j := r.Intn(i + 1)
		layers[i], layers[j] = layers[j], layers[i]
	}
	k := r.Range(1, 4)
	var s []string
	open := []string{}
	for _, l := range layers[:k] {
		s = append(s, "open:"+l)
		open = append(open, l)
	}
	rest := layers[k:]
	for steps := r.Range(0, 5); steps > 0; steps-- {
		if len(rest) > 0 && r.Bool() {
			s = append(s, "open:"+rest[0])
			open = append(open, rest[0])
			rest = rest[1:]
		} else if len(open) > 0 {
			j := r.Intn(len(open))
			s = append(s, "close:"+open[j])
			open = append(open[:j], open[j+1:]...)
		}
	}
	return s
}

func genMut(r *hx.Rng) Mut {
	i, j := r.Intn(64), r.Intn(64)
	switch r.Pick(14, 14, 12, 14, 4, 12, 5, 5, 8, 6, 8, 8, 6, 3) {
	case 0:
		return Mut{Op: "dropdir", I: i}
	case 1:
		return Mut{Op: "dup", I: i, J: j, N: int64(r.Intn(5))}
	case 2:
		return Mut{Op: "move", I: i, J: j}
	case 3:
		return Mut{Op: "name", I: i, N: int64(r.Intn(8))}
	case 4:
		return Mut{Op: "linkname", I: i, N: int64(r.Intn(8))}
	case 5:
		return Mut{Op: "hardlink", I: i, J: j, S: []string{"hl1", "a/hl2", "newdir/hl3", "./hl4", "b/../hl5"}[r.Intn(5)]}
	case 6:
		return Mut{Op: "nodigest", I: i}
	case 7:
		return Mut{Op: "nochunkdigest", I: i}
	case 8:
		v := []string{"", "", "val", "\x00\x01"}[r.Intn(4)]
		return Mut{Op: "xattr", I: i, S: xattrKeys[r.Intn(len(xattrKeys))], T: v}
	case 9:
		return Mut{Op: "mtime", I: i, S: mtimes[r.Intn(len(mtimes))]}
	case 10:
		return Mut{Op: "root", J: j, S: []string{"./", "/", "", ".", "a/..", "../"}[r.Intn(6)], N: int64(r.Intn(8))}
	case 11:
		return Mut{Op: "add", J: j, S: []string{"n1", "a/n2", "p/q/n3", "./p/n4", "a/b/../n5"}[r.Intn(5)], T: []string{"symlink", "fifo", "dir", "reg", "dir"}[r.Intn(5)], N: int64(r.Intn(10))}
	case 12:
		return Mut{Op: "lastsize", I: i}
	default:
		return Mut{Op: "lastsize", I: i}
	}
}

func genMalformed(r *hx.Rng) Mut {
	i := r.Intn(64)
	switch r.Pick(3, 3, 2, 3) {
	case 0:
		return Mut{Op: "badlink", J: i, S: "badlnk", T: []string{"nowhere", "a/none", "zz/../none2"}[r.Intn(3)]}
	case 1:
		return Mut{Op: "gap", I: i, N: int64(r.Range(1, 9))}
	case 2:
		return Mut{Op: "swapchunks", I: i}
	default:
		return Mut{Op: "chunkfirst"}
	}
}

// corpus: one hand-written case per clause / suspected class
func corpus() []Case {
	reg := func(name string, size int) FileSpec {
		return FileSpec{Name: name, Kind: "reg", Size: size, Seed: uint64(size) + 7, Mode: 0o644, MTime: 1600000000}
	}
	dir := func(name string) FileSpec {
		return FileSpec{Name: name, Kind: "dir", Mode: 0o755, MTime: 1600000001, UID: 5}
	}
	base := []FileSpec{dir("a/"), reg("a/f", 150), reg("g", 10), {Name: "a/l", Kind: "hardlink", Link: "a/f"}, {Name: "s", Kind: "symlink", Link: "a/f", Mode: 0o777},
		{Name: "a/e", Kind: "reg", Mode: 0o600, Xattrs: map[string]string{"user.k": "v", "user.e": ""}}}
	all := []string{"open:m", "open:a", "open:b", "open:c", "close:b", "close:c", "close:a"}
	return []Case{
		{Files: base, ChunkSize: 64, Level: 9, Sched: all},
		{Files: base, ChunkSize: 64, MinChunkSize: 1000, Level: 1, Sched: all, BadNeighbour: true},
		// failing Batch calls behind every Batch call site of a healthy layer (root node, metadata, streams, Close)
		{Files: base, ChunkSize: 16, MinChunkSize: 1000, Level: 1, Sched: []string{"open:m", "close:m"}, Coalesce: "doubleclose"},
		{Files: base, ChunkSize: 64, Level: 9, Sched: []string{"open:m", "open:a", "close:a"}, Coalesce: "raw"},
		{Files: base, ChunkSize: 50, MinChunkSize: 200, Level: 9, Sched: all, Coalesce: "doubleclose", Ops: []Mut{{Op: "dropdir", I: 0}, {Op: "root", J: 0, S: "./", N: 1}}},
		{Files: nil, ChunkSize: 64, Level: 9, Sched: []string{"open:m", "open:c"}},
		{Files: base, ChunkSize: 50, Level: 9, Ops: []Mut{{Op: "root", J: 0, S: "./", N: 1}}},
		{Files: base, ChunkSize: 50, Level: 9, Ops: []Mut{{Op: "dup", I: 0, J: 3, N: 0}}},
		{Files: base, ChunkSize: 50, Level: 9, Ops: []Mut{{Op: "dup", I: 0, J: 3, N: 3}, {Op: "dup", I: 0, J: 5, N: 2}}},
		{Files: base, ChunkSize: 50, Level: 9, Ops: []Mut{{Op: "dropdir", I: 0}}},
		{Files: base, ChunkSize: 50, Level: 9, Ops: []Mut{{Op: "move", I: 0, J: 4}}},                            // dir entry after its children
		{Files: base, ChunkSize: 50, Level: 9, Ops: []Mut{{Op: "move", I: 3, J: 0}}},                            // forward hardlink
		{Files: base, ChunkSize: 50, Level: 9, Ops: []Mut{{Op: "hardlink", I: 3, J: 6, S: "hl"}}},               // hardlink to hardlink
		{Files: base, ChunkSize: 50, Level: 9, Ops: []Mut{{Op: "nodigest", I: 1}, {Op: "nochunkdigest", I: 2}}}, // digest only on chunk / only on file
		{Files: base, ChunkSize: 50, Level: 9, Ops: []Mut{{Op: "xattr", I: 1, S: "user.z", T: ""}, {Op: "xattr", I: 1, S: "user.y", T: ""}}},
		{Files: base, ChunkSize: 50, Level: 9, Trail: 500, TrailByte: " "},
		{Files: base, ChunkSize: 50, Level: 9, Trail: 9000, TrailByte: "\n"},
		{Files: base, ChunkSize: 50, Level: 9, Ops: []Mut{{Op: "name", I: 1, N: 7}, {Op: "name", I: 0, N: 2}, {Op: "linkname", I: 3, N: 3}}},
		{Files: base, ChunkSize: 50, Level: 9, Ops: []Mut{{Op: "badlink", J: 2, S: "bad", T: "nowhere"}}, BadNeighbour: true, Sched: all},
		{Files: base, ChunkSize: 50, Level: 9, Ops: []Mut{{Op: "chunkfirst"}}},
		{Files: nil, ChunkSize: 50, Level: 9, NullEntries: true},
		// modtime boundaries on the reg (1), dir (0), symlink (4), hardlink (3) and empty reg (5) entries of the base tar
		{Files: base, ChunkSize: 64, Level: 9, Ops: []Mut{{Op: "mtime", I: 1, S: "2021-06-07T08:09:10.5Z"}, {Op: "mtime", I: 0, S: "2021-06-07T08:09:10.000000001Z"},
			{Op: "mtime", I: 4, S: "2021-06-07T08:09:10.999999999Z"}, {Op: "mtime", I: 3, S: "2018-03-04T05:06:07.25-03:30"}, {Op: "mtime", I: 5, S: "1969-12-31T23:59:59.999999999Z"}}},
		{Files: base, ChunkSize: 64, Level: 9, Ops: []Mut{{Op: "mtime", I: 1, S: "2018-03-04T05:06:07.25-03:30"}, {Op: "mtime", I: 0, S: "1969-12-31T23:59:59Z"},
			{Op: "mtime", I: 4, S: "1600-01-01T00:00:00Z"}, {Op: "mtime", I: 5, S: "9999-12-31T23:59:59.999999999+14:00"}, {Op: "mtime", I: 2, S: ""}}},
		{Files: base, ChunkSize: 64, Level: 9, Ops: []Mut{{Op: "mtime", I: 1, S: "9999-12-31T23:59:59Z"}, {Op: "mtime", I: 0, S: "2300-01-01T00:00:00.5Z"},
			{Op: "mtime", I: 4, S: "1970-01-01T00:00:00.000000001Z"}, {Op: "mtime", I: 5, S: "0001-01-01T00:00:00.000000001Z"}, {Op: "mtime", I: 2, S: "0001-01-01T00:00:00Z"},
			{Op: "root", J: 0, S: "./", N: 1}, {Op: "mtime", I: 0, S: "1901-02-03T04:05:06.75+05:45"}}},
		{Files: base, ChunkSize: 64, Level: 1, Comp: "zstd", Ops: []Mut{{Op: "mtime", I: 1, S: "2021-06-07T08:09:10.000000001Z"}, {Op: "mtime", I: 0, S: "1969-12-31T23:59:59.5Z"}}},
		// zstd:chunked and external-TOC blobs (builder output, mutated TOC, trailing bytes after the TOC)
		{Files: base, ChunkSize: 64, Level: 1, Comp: "zstd", Sched: all},
		{Files: base, ChunkSize: 50, MinChunkSize: 1000, Level: 9, Comp: "zstd", Ops: []Mut{{Op: "dropdir", I: 0}, {Op: "root", J: 0, S: "./", N: 1}}, Trail: 700, TrailByte: " "},
		{Files: base, ChunkSize: 64, Level: 9, Comp: "exttoc", Sched: all},
		{Files: base, ChunkSize: 50, MinChunkSize: 1000, Level: 1, Comp: "exttoc", Ops: []Mut{{Op: "dup", I: 0, J: 3, N: 3}}, Trail: 9000, TrailByte: "\n"},
		{Files: base, ChunkSize: 0, Level: 9, Ops: []Mut{{Op: "lastsize", I: 1}, {Op: "nochunkdigest", I: 1}}},
	}
}
