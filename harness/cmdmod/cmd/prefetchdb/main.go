// C15 correspondence harness, both metadata stores: the memory store and the bbolt store of
// cmd/containerd-stargz-grpc/db (module /repo/cmd). The harness proper is package verif/harness/prefetchx.
package main

import (
	"io"
	"path/filepath"

	"github.com/containerd/stargz-snapshotter/cmd/containerd-stargz-grpc/db"
	"github.com/containerd/stargz-snapshotter/metadata"
	bolt "go.etcd.io/bbolt"
	"verif/harness/prefetchx"
)

func dbStore(dir string) (metadata.Store, func(), error) {
	bdb, err := bolt.Open(filepath.Join(dir, "metadata.db"), 0600, &bolt.Options{NoSync: true, NoFreelistSync: true})
	if err != nil {
		return nil, nil, err
	}
	store := func(sr *io.SectionReader, opts ...metadata.Option) (metadata.Reader, error) {
		return db.NewReader(bdb, sr, opts...)
	}
	return store, func() { bdb.Close() }, nil
}

func main() {
	prefetchx.Main([]string{"db", "memory", "db"}, map[string]prefetchx.StoreFactory{"memory": prefetchx.MemoryStore, "db": dbStore})
}
