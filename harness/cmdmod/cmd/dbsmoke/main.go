// dbsmoke: checks that the cmd module (db metadata store) links from the harness module.
package main

import (
	"fmt"

	_ "github.com/containerd/stargz-snapshotter/cmd/containerd-stargz-grpc/db"
	"verif/harness/hx"
)

func main() { fmt.Println(hx.CoqNat(1)) }
