module verif/harnesscmd

go 1.25.0

require (
	github.com/containerd/stargz-snapshotter v0.18.2
	github.com/containerd/stargz-snapshotter/cmd v0.0.0
	github.com/containerd/stargz-snapshotter/estargz v0.18.2
	verif/harness v0.0.0
)

require (
	github.com/goccy/go-json v0.10.6 // indirect
	github.com/klauspost/compress v1.18.6 // indirect
	github.com/opencontainers/go-digest v1.0.0 // indirect
	github.com/rs/xid v1.6.0 // indirect
	github.com/vbatts/tar-split v0.12.2 // indirect
	go.etcd.io/bbolt v1.4.3 // indirect
	golang.org/x/sync v0.20.0 // indirect
	golang.org/x/sys v0.45.0 // indirect
)

replace github.com/containerd/stargz-snapshotter => /repo

replace github.com/containerd/stargz-snapshotter/estargz => /repo/estargz

replace github.com/containerd/stargz-snapshotter/ipfs => /repo/ipfs

replace github.com/containerd/stargz-snapshotter/cmd => /repo/cmd

replace verif/harness => /verif/harness/root
