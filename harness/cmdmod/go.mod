module verif/harnesscmd

go 1.25.0

require (
	github.com/containerd/containerd/v2 v2.2.3
	github.com/containerd/stargz-snapshotter v0.18.2
	github.com/containerd/stargz-snapshotter/cmd v0.0.0
	github.com/containerd/stargz-snapshotter/estargz v0.18.2
	github.com/hanwen/go-fuse/v2 v2.10.1
	github.com/opencontainers/go-digest v1.0.0
	github.com/opencontainers/image-spec v1.1.1
	github.com/sirupsen/logrus v1.9.4
	go.etcd.io/bbolt v1.4.3
	verif/harness v0.0.0
)

require (
	cyphar.com/go-pathrs v0.2.1
	github.com/Microsoft/go-winio v0.6.2
	github.com/Microsoft/hcsshim v0.14.1
	github.com/beorn7/perks v1.0.1 // indirect
	github.com/bmatcuk/doublestar/v4 v4.10.0
	github.com/cespare/xxhash/v2 v2.3.0 // indirect
	github.com/cilium/ebpf v0.22.0
	github.com/containerd/cgroups/v3 v3.1.2
	github.com/containerd/console v1.0.5
	github.com/containerd/containerd/api v1.10.0
	github.com/containerd/continuity v0.4.5
	github.com/containerd/errdefs v1.0.0
	github.com/containerd/errdefs/pkg v0.3.0
	github.com/containerd/fifo v1.1.0
	github.com/containerd/go-cni v1.1.13
	github.com/containerd/go-runc v1.1.0
	github.com/containerd/log v0.1.0 // indirect
	github.com/containerd/platforms v1.0.0-rc.4 // indirect
	github.com/containerd/plugin v1.0.0
	github.com/containerd/stargz-snapshotter/ipfs v0.18.2
	github.com/containerd/ttrpc v1.2.7
	github.com/containerd/typeurl/v2 v2.2.3 // indirect
	github.com/containernetworking/cni v1.3.0
	github.com/containernetworking/plugins v1.9.0
	github.com/coreos/go-systemd/v22 v22.7.0
	github.com/cpuguy83/go-md2man/v2 v2.0.7
	github.com/cyphar/filepath-securejoin v0.6.0
	github.com/davecgh/go-spew v1.1.2-0.20180830191138-d8f796af33cc
	github.com/distribution/reference v0.6.0 // indirect
	github.com/docker/cli v29.4.3+incompatible
	github.com/docker/docker-credential-helpers v0.9.3
	github.com/docker/go-metrics v0.0.1
	github.com/docker/go-units v0.5.0
	github.com/emicklei/go-restful/v3 v3.13.0
	github.com/felixge/httpsnoop v1.0.4 // indirect
	github.com/fsnotify/fsnotify v1.9.0
	github.com/fxamacker/cbor/v2 v2.9.0
	github.com/go-logr/logr v1.4.3 // indirect
	github.com/go-logr/stdr v1.2.2 // indirect
	github.com/go-openapi/jsonpointer v0.21.0
	github.com/go-openapi/jsonreference v0.20.2
	github.com/go-openapi/swag v0.23.0
	github.com/goccy/go-json v0.10.6 // indirect
	github.com/godbus/dbus/v5 v5.1.0
	github.com/gogo/protobuf v1.3.2 // indirect
	github.com/golang/groupcache v0.0.0-20241129210726-2c02b8208cf8 // indirect
	github.com/google/gnostic-models v0.7.0
	github.com/google/go-cmp v0.7.0
	github.com/google/uuid v1.6.0
	github.com/hashicorp/go-cleanhttp v0.5.2 // indirect
	github.com/hashicorp/go-retryablehttp v0.7.8 // indirect
	github.com/intel/goresctrl v0.10.0
	github.com/ipfs/go-cid v0.1.0
	github.com/josharian/intern v1.0.0
	github.com/json-iterator/go v1.1.12
	github.com/klauspost/compress v1.18.6
	github.com/klauspost/cpuid/v2 v2.2.6
	github.com/mailru/easyjson v0.7.7
	github.com/mdlayher/socket v0.5.1
	github.com/mdlayher/vsock v1.2.1
	github.com/minio/sha256-simd v1.0.1
	github.com/mitchellh/go-homedir v1.1.0
	github.com/moby/locker v1.0.1 // indirect
	github.com/moby/sys/capability v0.4.0
	github.com/moby/sys/mountinfo v0.7.2
	github.com/moby/sys/sequential v0.6.0
	github.com/moby/sys/signal v0.7.1
	github.com/moby/sys/symlink v0.3.0
	github.com/moby/sys/user v0.4.0
	github.com/moby/sys/userns v0.1.0
	github.com/modern-go/concurrent v0.0.0-20180306012644-bacd9c7ef1dd
	github.com/modern-go/reflect2 v1.0.3-0.20250322232337-35a7c28c31ee
	github.com/mr-tron/base58 v1.2.0
	github.com/multiformats/go-base32 v0.1.0
	github.com/multiformats/go-base36 v0.2.0
	github.com/multiformats/go-multiaddr v0.16.1
	github.com/multiformats/go-multibase v0.2.0
	github.com/multiformats/go-multihash v0.2.3
	github.com/multiformats/go-varint v0.0.7
	github.com/munnerz/goautoneg v0.0.0-20191010083416-a7dc8b61c822 // indirect
	github.com/opencontainers/runtime-spec v1.3.0
	github.com/opencontainers/runtime-tools v0.9.1-0.20251114084447-edf4cb3d2116
	github.com/opencontainers/selinux v1.13.1
	github.com/pelletier/go-toml v1.9.5
	github.com/pelletier/go-toml/v2 v2.2.4
	github.com/petermattis/goid v0.0.0-20240813172612-4fcff4a6cae7
	github.com/pkg/errors v0.9.1
	github.com/pmezard/go-difflib v1.0.1-0.20181226105442-5d4384ee4fb2
	github.com/prometheus/client_golang v1.23.2 // indirect
	github.com/prometheus/client_model v0.6.2 // indirect
	github.com/prometheus/common v0.66.1 // indirect
	github.com/prometheus/procfs v0.16.1 // indirect
	github.com/rs/xid v1.6.0 // indirect
	github.com/russross/blackfriday/v2 v2.1.0
	github.com/sasha-s/go-deadlock v0.3.5
	github.com/spaolacci/murmur3 v1.1.0
	github.com/spf13/pflag v1.0.10
	github.com/urfave/cli/v2 v2.27.7
	github.com/vbatts/tar-split v0.12.2 // indirect
	github.com/x448/float16 v0.8.4
	github.com/xrash/smetrics v0.0.0-20240521201337-686a1a2994c1
	go.opencensus.io v0.24.0
	go.opentelemetry.io/auto/sdk v1.2.1 // indirect
	go.opentelemetry.io/contrib/instrumentation/net/http/otelhttp v0.60.0 // indirect
	go.opentelemetry.io/otel v1.43.0 // indirect
	go.opentelemetry.io/otel/metric v1.43.0 // indirect
	go.opentelemetry.io/otel/trace v1.43.0 // indirect
	go.yaml.in/yaml/v2 v2.4.3 // indirect
	go.yaml.in/yaml/v3 v3.0.4
	golang.org/x/crypto v0.52.0
	golang.org/x/exp v0.0.0-20241108190413-2d47ceb2692f
	golang.org/x/mod v0.35.0
	golang.org/x/net v0.55.0
	golang.org/x/oauth2 v0.36.0
	golang.org/x/sync v0.20.0 // indirect
	golang.org/x/sys v0.45.0 // indirect
	golang.org/x/term v0.43.0
	golang.org/x/text v0.37.0
	golang.org/x/time v0.14.0
	google.golang.org/genproto/googleapis/rpc v0.0.0-20260414002931-afd174a4e478
	google.golang.org/grpc v1.82.1
	google.golang.org/protobuf v1.36.11 // indirect
	gopkg.in/evanphx/json-patch.v4 v4.13.0
	gopkg.in/inf.v0 v0.9.1
	gopkg.in/yaml.v3 v3.0.1
	k8s.io/api v0.35.3
	k8s.io/apimachinery v0.35.3
	k8s.io/client-go v0.35.3
	k8s.io/cri-api v0.35.3
	k8s.io/klog/v2 v2.130.1
	k8s.io/kube-openapi v0.0.0-20250910181357-589584f1c912
	k8s.io/utils v0.0.0-20251002143259-bc988d571ff4
	lukechampine.com/blake3 v1.2.1
	sigs.k8s.io/json v0.0.0-20250730193827-2d320260d730
	sigs.k8s.io/randfill v1.0.0
	sigs.k8s.io/structured-merge-diff/v6 v6.3.0
	sigs.k8s.io/yaml v1.6.0
	tags.cncf.io/container-device-interface v1.1.0
	tags.cncf.io/container-device-interface/specs-go v1.1.0
)

replace github.com/containerd/stargz-snapshotter => /repo

replace github.com/containerd/stargz-snapshotter/estargz => /repo/estargz

replace github.com/containerd/stargz-snapshotter/ipfs => /repo/ipfs

replace github.com/containerd/stargz-snapshotter/cmd => /repo/cmd

replace verif/harness => /verif/harness/root
