// Package servex is the C02 correspondence harness, shared by the two metadata stores (cmd/serve in this module
// drives metadata/memory, cmd/servedb in the cmdmod module drives the bbolt store): random tar archives -> estargz.Build (chunk size, min-chunk-size, gzip/zstd,
// prioritized files, workers) -> metadata/memory.NewReader -> fs/reader.NewReader with a small chunk cache ->
// random histories of reads (incl. past EOF) interleaved with prefetch (Cache()) and evictions, plus the
// served tree walked through the metadata.Reader API before and after the history.
//
// Per case it prints a Coq term of type Model.Serve.case that contains the inputs and everything observed on the
// implementation; the model-free oracle (expected tree and expected bytes computed directly from the input tar,
// see oracle.go) reports property violations.
package servex

import (
	"archive/tar"
	"bytes"
	"crypto/sha256"
	"fmt"
	"io"
	"os"
	"path/filepath"
	"runtime/debug"
	"sort"
	"strings"
	"sync"
	"time"
	"unsafe"

	"github.com/containerd/stargz-snapshotter/cache"
	"github.com/containerd/stargz-snapshotter/estargz"
	"github.com/containerd/stargz-snapshotter/estargz/zstdchunked"
	"github.com/containerd/stargz-snapshotter/fs/layer"
	"github.com/containerd/stargz-snapshotter/fs/reader"
	"github.com/containerd/stargz-snapshotter/metadata"
	"github.com/klauspost/compress/zstd"
	"verif/harness/hx"
)

// Store is the metadata store under test.
type Store struct {
	Name string // "memory" or "db"
	// Open creates the metadata reader of a blob; dir is a scratch directory that lives as long as the reader.
	Open func(sr *io.SectionReader, dir string, opts ...metadata.Option) (metadata.Reader, func(), error)
	// Grow makes the store that backs the opened reader take in another (unrelated, large) layer, as the snapshotter
	// does when a further layer is mounted: the bbolt file of the db store grows and is re-mapped. nil = nothing to do.
	Grow func(other *io.SectionReader) error
}

// ---- case description (JSON, replayable) ----

type Ent struct {
	Name   string            `json:"name"`
	Kind   string            `json:"kind"` // reg dir symlink hardlink char block fifo
	Mode   int64             `json:"mode"`
	UID    int               `json:"uid"`
	GID    int               `json:"gid"`
	Mtime  int64             `json:"mtime"`
	Link   string            `json:"link,omitempty"`
	Maj    int64             `json:"maj,omitempty"`
	Min    int64             `json:"min,omitempty"`
	Xattrs map[string]string `json:"xattrs,omitempty"`
	Data   []byte            `json:"data,omitempty"`
}

type Op struct {
	Op      string    `json:"op"`             // read prefetch evict evictall par grow pt
	File    int       `json:"file,omitempty"` // index into the sorted list of regular files (modulo its length)
	Off     int64     `json:"off,omitempty"`
	Len     int64     `json:"len,omitempty"`
	Pick    []int     `json:"pick,omitempty"` // evict: indexes into the list of all chunk keys (modulo its length)
	Reopen  bool      `json:"reopen,omitempty"`
	Par     []ParRead `json:"par,omitempty"`     // par: reads issued concurrently
	Mbs     int64     `json:"mbs,omitempty"`     // pt: merge buffer size
	Workers int       `json:"workers,omitempty"` // pt: merge worker count
}

type ParRead struct {
	File int   `json:"file"`
	Off  int64 `json:"off"`
	Len  int64 `json:"len"`
}

type AttrIn struct {
	Mode  uint32 `json:"mode"`
	Size  int64  `json:"size"`
	Link  string `json:"link"`
	Maj   int    `json:"maj"`
	Min   int    `json:"min"`
	Nlink int    `json:"nlink"`
	UID   int    `json:"uid"`
	GID   int    `json:"gid"`
	Mtime int64  `json:"mtime"`
}

type Case struct {
	Kind string `json:"kind"` // serve | clean | attr
	// serve
	Tar          []Ent    `json:"tar,omitempty"`
	ChunkSize    int      `json:"chunk_size,omitempty"`
	MinChunkSize int      `json:"min_chunk_size,omitempty"`
	Zstd         bool     `json:"zstd,omitempty"`
	Prioritized  []string `json:"prioritized,omitempty"`
	Workers      int      `json:"workers,omitempty"`
	Cache        string   `json:"cache,omitempty"` // mem dir1 dirdirect dirasync
	Ops          []Op     `json:"ops,omitempty"`
	// layers: several layers through one layer.Resolver
	Layers     [][]Ent `json:"layers,omitempty"`
	LReads     []LRead `json:"lreads,omitempty"`
	FSCache    string  `json:"fscache,omitempty"`
	SkipVerify bool    `json:"skip_verify,omitempty"`
	// clean
	Name string `json:"name,omitempty"`
	// attr
	Attr *AttrIn `json:"attr,omitempty"`
}

// ---- recording wrappers ----

type key struct {
	F    int
	Off  int64
	Size int64
}

type event struct {
	get    bool // cache Get
	k      string
	ok     bool
	under  bool // underlying ReadAt
	off    int64
	size   int64
	add    bool
	nested bool
}

type recorder struct {
	mu     sync.Mutex
	on     bool
	nested int
	evs    []event
}

func (r *recorder) log(e event) {
	r.mu.Lock()
	if r.on {
		e.nested = r.nested > 0
		r.evs = append(r.evs, e)
	}
	r.mu.Unlock()
}

type recCache struct {
	cache.BlobCache
	rec *recorder
}

func (c *recCache) Get(k string, opts ...cache.Option) (cache.Reader, error) {
	r, err := c.BlobCache.Get(k, opts...)
	c.rec.log(event{get: true, k: k, ok: err == nil})
	return r, err
}

func (c *recCache) Add(k string, opts ...cache.Option) (cache.Writer, error) {
	c.rec.log(event{add: true, k: k})
	return c.BlobCache.Add(k, opts...)
}

type recMeta struct {
	metadata.Reader
	rec *recorder
}

type recFile struct {
	metadata.File
	rec *recorder
}

func (f *recFile) ReadAt(p []byte, off int64) (int, error) {
	f.rec.log(event{under: true, off: off, size: int64(len(p))})
	f.rec.mu.Lock()
	f.rec.nested++
	f.rec.mu.Unlock()
	n, err := f.File.ReadAt(p, off)
	f.rec.mu.Lock()
	f.rec.nested--
	f.rec.mu.Unlock()
	return n, err
}

func (m *recMeta) OpenFile(id uint32) (metadata.File, error) {
	f, err := m.Reader.OpenFile(id)
	if err != nil {
		return nil, err
	}
	return &recFile{f, m.rec}, nil
}

func (m *recMeta) OpenFileWithPreReader(id uint32, preRead func(id uint32, chunkOffset, chunkSize int64, chunkDigest string, r io.Reader) error) (metadata.File, error) {
	f, err := m.Reader.OpenFileWithPreReader(id, preRead)
	if err != nil {
		return nil, err
	}
	return &recFile{f, m.rec}, nil
}

func (m *recMeta) Clone(sr *io.SectionReader) (metadata.Reader, error) {
	r, err := m.Reader.Clone(sr)
	if err != nil {
		return nil, err
	}
	return &recMeta{r, m.rec}, nil
}

func genID(id uint32, offset, size int64) string {
	sum := sha256.Sum256(fmt.Appendf(nil, "%d-%d-%d", id, offset, size))
	return fmt.Sprintf("%x", sum)
}

// ---- building the layer ----

type zstdCompression struct {
	*zstdchunked.Compressor
	*zstdchunked.Decompressor
}

func typeflag(kind string) byte {
	switch kind {
	case "reg":
		return tar.TypeReg
	case "dir":
		return tar.TypeDir
	case "symlink":
		return tar.TypeSymlink
	case "hardlink":
		return tar.TypeLink
	case "char":
		return tar.TypeChar
	case "block":
		return tar.TypeBlock
	case "fifo":
		return tar.TypeFifo
	}
	return tar.TypeReg
}

func buildTar(ents []Ent) ([]byte, error) {
	var buf bytes.Buffer
	tw := tar.NewWriter(&buf)
	for _, e := range ents {
		h := &tar.Header{
			Name:     e.Name,
			Typeflag: typeflag(e.Kind),
			Mode:     e.Mode,
			Uid:      e.UID,
			Gid:      e.GID,
			ModTime:  time.Unix(e.Mtime, 0),
			Format:   tar.FormatPAX,
		}
		switch e.Kind {
		case "reg":
			h.Size = int64(len(e.Data))
		case "symlink", "hardlink":
			h.Linkname = e.Link
		case "char", "block":
			h.Devmajor, h.Devminor = e.Maj, e.Min
		}
		if len(e.Xattrs) > 0 {
			h.PAXRecords = map[string]string{}
			for k, v := range e.Xattrs {
				h.PAXRecords["SCHILY.xattr."+k] = v
			}
		}
		if err := tw.WriteHeader(h); err != nil {
			return nil, err
		}
		if e.Kind == "reg" {
			if _, err := tw.Write(e.Data); err != nil {
				return nil, err
			}
		}
	}
	if err := tw.Close(); err != nil {
		return nil, err
	}
	return buf.Bytes(), nil
}

func buildBlob(c Case) ([]byte, error) {
	tb, err := buildTar(c.Tar)
	if err != nil {
		return nil, fmt.Errorf("tar: %w", err)
	}
	opts := []estargz.Option{estargz.WithChunkSize(c.ChunkSize), estargz.WithParallelism(c.Workers)}
	if c.MinChunkSize > 0 {
		opts = append(opts, estargz.WithMinChunkSize(c.MinChunkSize))
	}
	if c.Zstd {
		opts = append(opts, estargz.WithCompression(&zstdCompression{&zstdchunked.Compressor{CompressionLevel: zstd.SpeedDefault}, &zstdchunked.Decompressor{}}))
	} else {
		opts = append(opts, estargz.WithCompressionLevel(1))
	}
	if len(c.Prioritized) > 0 {
		opts = append(opts, estargz.WithPrioritizedFiles(c.Prioritized))
	}
	blob, err := estargz.Build(io.NewSectionReader(bytes.NewReader(tb), 0, int64(len(tb))), opts...)
	if err != nil {
		return nil, fmt.Errorf("build: %w", err)
	}
	defer blob.Close()
	return io.ReadAll(blob)
}

// ---- observation of the served tree ----

type ONode struct {
	Path   string
	ID     uint32
	Attr   metadata.Attr
	Rep    int
	File   int // -1 = not a regular file
	Fuse   [8]uint64
	Errors []string
}

func fuseOf(a metadata.Attr) [8]uint64 {
	fa, _ := layer.VerifEntryToAttrC02(1, a)
	return [8]uint64{uint64(fa.Mode), fa.Size, fa.Blocks, uint64(fa.Rdev), uint64(fa.Nlink), uint64(fa.Owner.Uid), uint64(fa.Owner.Gid), fa.Mtime}
}

func attrEqual(a, b metadata.Attr) bool {
	if a.Size != b.Size || !a.ModTime.Equal(b.ModTime) || a.LinkName != b.LinkName || a.Mode != b.Mode || a.UID != b.UID ||
		a.GID != b.GID || a.DevMajor != b.DevMajor || a.DevMinor != b.DevMinor || a.NumLink != b.NumLink || len(a.Xattrs) != len(b.Xattrs) {
		return false
	}
	for k, v := range a.Xattrs {
		if w, ok := b.Xattrs[k]; !ok || !bytes.Equal(v, w) {
			return false
		}
	}
	return true
}

// normAttr: "zero NumLink means one" (fs/layer entryToAttr). The db store does not record a link count of one and
// hands out 0 for it; the memory store hands out 1. Both are served as st_nlink 1.
func normAttr(a metadata.Attr) metadata.Attr {
	if a.NumLink == 0 {
		a.NumLink = 1
	}
	return a
}

func isLandmark(p string) bool {
	return p == estargz.PrefetchLandmark || p == estargz.NoPrefetchLandmark
}

// walk lists every path below the root (root = ""), sorted, with the attributes served for it.
// The landmark files that Build adds to the root are not part of the view described by the tar.
func walk(mr metadata.Reader, problems *[]string) []ONode {
	var out []ONode
	rootAttr, err := mr.GetAttr(mr.RootID())
	if err != nil {
		*problems = append(*problems, "GetAttr(root) failed")
		return nil
	}
	out = append(out, ONode{Path: "", ID: mr.RootID(), Attr: normAttr(rootAttr)})
	var rec func(dir string, id uint32, depth int)
	rec = func(dir string, id uint32, depth int) {
		if depth > 64 {
			*problems = append(*problems, "served tree deeper than 64 levels (cycle?) at "+dir)
			return
		}
		type ch struct {
			name string
			id   uint32
			mode os.FileMode
		}
		var chs []ch
		if err := mr.ForeachChild(id, func(name string, cid uint32, mode os.FileMode) bool {
			chs = append(chs, ch{name, cid, mode})
			return true
		}); err != nil {
			*problems = append(*problems, "ForeachChild failed at "+dir)
		}
		sort.Slice(chs, func(i, j int) bool { return chs[i].name < chs[j].name })
		// a name that is not listed is not found
		for _, miss := range []string{"no-such-name", ".", "..", ""} {
			listed := false
			for _, c := range chs {
				listed = listed || c.name == miss
			}
			if _, _, err := mr.GetChild(id, miss); err == nil && !listed {
				*problems = append(*problems, fmt.Sprintf("lookup of %q in %q succeeds but the listing does not contain it", miss, dir))
			}
		}
		for _, c := range chs {
			p := c.name
			if dir != "" {
				p = dir + "/" + c.name
			}
			if dir == "" && isLandmark(c.name) {
				continue
			}
			a, err := mr.GetAttr(c.id)
			if err != nil {
				*problems = append(*problems, "GetAttr failed for listed child "+p)
				continue
			}
			// listing and lookup must agree
			lid, la, err := mr.GetChild(id, c.name)
			if err != nil {
				*problems = append(*problems, "listed child cannot be looked up: "+p)
			} else if lid != c.id || !attrEqual(normAttr(la), normAttr(a)) {
				*problems = append(*problems, "lookup and listing+getattr disagree for "+p)
			}
			if c.mode != a.Mode {
				*problems = append(*problems, "mode given by the listing differs from the attribute mode for "+p)
			}
			out = append(out, ONode{Path: p, ID: c.id, Attr: normAttr(a)})
			if a.Mode.IsDir() {
				rec(p, c.id, depth+1)
			}
		}
	}
	rec("", mr.RootID(), 0)
	sort.Slice(out, func(i, j int) bool { return out[i].Path < out[j].Path })
	for i := range out {
		out[i].Rep = i
		for j := 0; j < i; j++ {
			if out[j].ID == out[i].ID {
				out[i].Rep = j
				break
			}
		}
		out[i].File = -1
		out[i].Fuse = fuseOf(out[i].Attr)
	}
	return out
}

// ---- executing a serve case ----

type fileInfo struct {
	owner  string // path of the first (sorted) name of the node; replaced by the TOC name below
	id     uint32
	size   int64
	chunks [][2]int64
	mates  map[int64][]key
}

type readOut struct {
	isRead  bool
	f       int
	off, n  int64
	data    []byte
	err     bool
	pnc     bool
	trace   []string // Coq events
	par     bool     // issued concurrently with other reads: oracle only
	pt      bool     // the merged passthrough file
	model   bool     // pt entry that only feeds the Coq term (the oracle sees the copy in obs.par)
	mbs     int64
	workers int
}

type serveObs struct {
	openFailed bool
	view       []ONode
	files      []fileInfo
	coqOps     []string
	outs       []readOut
	par        []readOut
	fwd        bool
	lateDirs   map[string]int // db store: parent path -> number of its sub-directories whose entry follows an entry below them
	problems   []string
	stats      map[string]int
}

func newCache(kind, dir string) (cache.BlobCache, error) {
	switch kind {
	case "mem":
		return cache.NewMemoryCache(), nil
	case "dir1":
		return cache.NewDirectoryCache(dir, cache.DirectoryCacheConfig{MaxLRUCacheEntry: 1, MaxCacheFds: 1, SyncAdd: true})
	case "dirdirect":
		return cache.NewDirectoryCache(dir, cache.DirectoryCacheConfig{Direct: true, SyncAdd: true})
	case "dirasync":
		return cache.NewDirectoryCache(dir, cache.DirectoryCacheConfig{MaxLRUCacheEntry: 2, MaxCacheFds: 1, SyncAdd: false})
	}
	return nil, fmt.Errorf("unknown cache kind %q", kind)
}

func coqKey(k key) string {
	return fmt.Sprintf("(%d%%nat, %d%%Z, %d%%Z)", k.F, k.Off, k.Size)
}

func coqKeys(ks []key) string {
	s := make([]string, len(ks))
	for i, k := range ks {
		s[i] = coqKey(k)
	}
	return hx.CoqList(s)
}

func execServe(st Store, c Case, tmpRoot string) (obs serveObs) {
	obs.stats = map[string]int{}
	blobBytes, err := buildBlob(c)
	if err != nil {
		obs.problems = append(obs.problems, "estargz.Build failed: "+err.Error())
		obs.openFailed = true
		return
	}
	sr := io.NewSectionReader(bytes.NewReader(blobBytes), 0, int64(len(blobBytes)))
	mopts := []metadata.Option{metadata.WithDecompressors(new(zstdchunked.Decompressor))}
	// does the TOC name a hardlink before the entry of its target? (the db store resolves hardlinks while decoding)
	var toc []estargz.VerifTOCEntryC02
	if er, err := estargz.Open(sr, estargz.WithDecompressors(new(zstdchunked.Decompressor))); err == nil {
		toc = estargz.VerifTOCEntriesC02(er)
	}
	obs.fwd = forwardHardlink(c, toc)
	if st.Name == "db" {
		obs.lateDirs = lateDirs(toc)
	}
	sdir := filepath.Join(tmpRoot, "store")
	os.RemoveAll(sdir)
	if err := os.MkdirAll(sdir, 0o755); err != nil {
		panic(err)
	}
	defer os.RemoveAll(sdir)
	mr0, closeStore, err := st.Open(sr, sdir, mopts...)
	if err != nil {
		obs.openFailed = true
		return
	}
	defer closeStore()
	rec := &recorder{}
	mr := &recMeta{mr0, rec}

	dir := filepath.Join(tmpRoot, "cache")
	os.RemoveAll(dir)
	if err := os.MkdirAll(dir, 0o755); err != nil {
		panic(err)
	}
	defer os.RemoveAll(dir)
	bc, err := newCache(c.Cache, dir)
	if err != nil {
		panic(err)
	}
	rc := &recCache{bc, rec}
	vr, err := reader.NewReader(mr, rc, "")
	if err != nil {
		obs.problems = append(obs.problems, "reader.NewReader failed")
		return
	}
	defer vr.Close()
	gr := vr.SkipVerify()

	obs.view = walk(mr, &obs.problems)
	// The attributes are kept by the node layer for the life of a node: none of their bytes may live in a file
	// mapping of the store (bbolt values are only valid during the transaction; the mapping moves when the file grows).
	for _, n := range obs.view {
		for k, v := range n.Attr.Xattrs {
			if len(v) > 0 {
				if f := fileMappingOf(uintptr(unsafe.Pointer(&v[0]))); f != "" {
					obs.problems = append(obs.problems, fmt.Sprintf("xattr value %q of %q returned by the metadata store points into the memory-mapped file %s (valid only during the store's transaction)", k, n.Path, filepath.Base(f)))
				}
			}
		}
	}

	// regular files: one per node id, named by the TOC entry that owns the node
	if toc == nil {
		obs.problems = append(obs.problems, "estargz.Open failed although the metadata store opened the blob")
		return
	}
	regOwner := map[string]bool{}
	for _, e := range toc {
		if e.Type == "reg" && !isLandmark(e.Name) && e.Name != estargz.TOCTarName {
			regOwner[e.Name] = true
		}
	}
	idOwner := map[uint32]string{}
	for _, n := range obs.view {
		if n.Attr.Mode.IsRegular() {
			if regOwner[n.Path] {
				idOwner[n.ID] = n.Path
			} else if _, ok := idOwner[n.ID]; !ok {
				idOwner[n.ID] = ""
			}
		}
	}
	var owners []string
	ownerID := map[string]uint32{}
	for id, o := range idOwner {
		if o == "" {
			obs.problems = append(obs.problems, "a regular node is served under no name that owns a TOC entry")
			continue
		}
		owners = append(owners, o)
		ownerID[o] = id
	}
	sort.Strings(owners)
	fileIdx := map[string]int{}
	for i, o := range owners {
		fileIdx[o] = i
	}
	for i := range obs.view {
		n := &obs.view[i]
		if n.Attr.Mode.IsRegular() {
			if fi, ok := fileIdx[idOwner[n.ID]]; ok {
				n.File = fi
			}
		}
	}
	revKey := map[string]key{}
	var allKeys []key
	for i, o := range owners {
		fi := fileInfo{owner: o, id: ownerID[o], mates: map[int64][]key{}}
		a, _ := mr.GetAttr(fi.id)
		fi.size = a.Size
		mf, err := mr0.OpenFile(fi.id)
		if err != nil {
			obs.problems = append(obs.problems, "metadata OpenFile failed for "+o)
		} else {
			for off := int64(0); off < fi.size && len(fi.chunks) < 10000; {
				co, cs, _, ok := mf.ChunkEntryForOffset(off)
				if !ok {
					break
				}
				fi.chunks = append(fi.chunks, [2]int64{co, cs})
				k := key{i, co, cs}
				revKey[genID(fi.id, co, cs)] = k
				allKeys = append(allKeys, k)
				if cs <= 0 {
					break
				}
				off = co + cs
			}
		}
		obs.files = append(obs.files, fi)
	}
	// chunks sharing a compression member, as fileReader.ReadAt walks them
	isData := func(e estargz.VerifTOCEntryC02) bool {
		return (e.Type == "reg" && e.Size > 0) || (e.Type == "chunk" && e.ChunkSize > 0)
	}
	for ti, e := range toc {
		fidx, ok := fileIdx[e.Name]
		if !ok || !isData(e) {
			continue
		}
		var ms []key
		if st.Name == "db" {
			// db fileReader.ReadAt: every other chunk recorded for the stream that starts at the same blob offset
			// (readInnerChunks), whatever its position in the TOC
			for j, m := range toc {
				if j == ti || !isData(m) || m.Offset != e.Offset {
					continue
				}
				if mi, ok := fileIdx[m.Name]; ok {
					ms = append(ms, key{mi, m.ChunkOffset, m.ChunkSize})
				}
			}
		} else {
			// estargz fileReader.ReadAt: the data entries from chunkTopIndex on, while they share the blob offset
			top := e.ChunkTopIndex
			for j := top; j < len(toc); j++ {
				m := toc[j]
				if !isData(m) {
					continue // directories etc.; an empty file has no payload in any member
				}
				if m.Offset != toc[top].Offset {
					break
				}
				if j == ti {
					continue
				}
				if mi, ok := fileIdx[m.Name]; ok {
					ms = append(ms, key{mi, m.ChunkOffset, m.ChunkSize})
				}
			}
		}
		if len(ms) > 0 {
			obs.files[fidx].mates[e.ChunkOffset] = ms
			obs.stats["mates.shared"]++
		}
	}

	// history
	handles := map[int]io.ReaderAt{}
	for _, o := range c.Ops {
		switch o.Op {
		case "prefetch":
			if err := vr.Cache(); err != nil {
				obs.problems = append(obs.problems, "Cache() (prefetch) failed: "+err.Error())
			}
			if c.Cache == "mem" {
				obs.coqOps = append(obs.coqOps, "CPrefetch")
				obs.outs = append(obs.outs, readOut{})
			}
			obs.stats["op.prefetch"]++
		case "evictall", "evict":
			var ks []key
			if o.Op == "evictall" {
				ks = allKeys
			} else if len(allKeys) > 0 {
				for _, p := range o.Pick {
					ks = append(ks, allKeys[p%len(allKeys)])
				}
			}
			if mc, ok := bc.(*cache.MemoryCache); ok {
				for _, k := range ks {
					delete(mc.Membuf, genID(obs.files[k.F].id, k.Off, k.Size))
				}
				obs.coqOps = append(obs.coqOps, "CEvict "+coqKeys(ks))
				obs.outs = append(obs.outs, readOut{})
			} else {
				for _, k := range ks {
					id := genID(obs.files[k.F].id, k.Off, k.Size)
					os.Remove(filepath.Join(dir, id[:2], id))
				}
			}
			obs.stats["op."+o.Op]++
		case "grow":
			if st.Grow != nil {
				if err := st.Grow(bigLayer()); err != nil {
					obs.problems = append(obs.problems, "opening a second layer in the same store failed: "+err.Error())
				}
				obs.stats["op.grow"]++
			}
		case "pt":
			// FUSE passthrough: the whole file merged into one cache entry (GetPassthroughFd), sequential or batched path
			// depending on the merge buffer size. Needs a cache that hands out *os.File: the direct directory cache.
			if len(obs.files) == 0 || c.Cache != "dirdirect" {
				continue
			}
			f := o.File % len(obs.files)
			po := readOut{isRead: true, f: f, off: 0, n: obs.files[f].size, pt: true, mbs: o.Mbs, workers: o.Workers}
			func() {
				defer func() {
					if r := recover(); r != nil {
						po.pnc = true
					}
				}()
				h, err := gr.OpenFile(obs.files[f].id)
				if err != nil {
					po.err = true
					return
				}
				g, ok := h.(reader.PassthroughFdGetter)
				if !ok {
					po.err = true
					return
				}
				_, cr, err := g.GetPassthroughFd(o.Mbs, o.Workers)
				if err != nil {
					po.err = true
					return
				}
				defer cr.Close()
				b, err := io.ReadAll(io.NewSectionReader(cr.GetReaderAt(), 0, 1<<30))
				if err != nil {
					po.err = true
					return
				}
				po.data = b
			}()
			obs.par = append(obs.par, po)
			// also a step of the model history: what the merged file holds (no cache-probe trace is compared for it)
			obs.coqOps = append(obs.coqOps, fmt.Sprintf("CPt %d %s %s", f, hx.CoqZ(o.Mbs), hx.CoqZ(int64(o.Workers))))
			obs.outs = append(obs.outs, readOut{isRead: true, f: f, data: po.data, err: po.err, pnc: po.pnc, pt: true, model: true})
			obs.stats["op.pt"]++
			if len(obs.files[f].chunks) > 1 {
				obs.stats["pt.multichunk"]++
			}
		case "par":
			// concurrent readers (searched by the oracle only; the cache state afterwards is not predicted, so this op
			// is used with the directory caches, whose answers are replayed from observation)
			if len(obs.files) == 0 || c.Cache == "mem" {
				continue
			}
			var wg sync.WaitGroup
			res := make([]readOut, len(o.Par))
			for i, pr := range o.Par {
				f := pr.File % len(obs.files)
				res[i] = readOut{isRead: true, f: f, off: pr.Off, n: pr.Len, par: true}
				wg.Add(1)
				go func(i int, pr ParRead, id uint32) {
					defer wg.Done()
					defer func() {
						if r := recover(); r != nil {
							res[i].pnc = true
						}
					}()
					h, err := gr.OpenFile(id)
					if err != nil {
						res[i].err = true
						return
					}
					p := make([]byte, pr.Len)
					n, err := h.ReadAt(p, pr.Off)
					if err != nil && err != io.EOF {
						res[i].err = true
						return
					}
					res[i].data = p[:n]
				}(i, pr, obs.files[f].id)
			}
			wg.Wait()
			obs.par = append(obs.par, res...)
			obs.stats["op.par"]++
			obs.stats["read.concurrent"] += len(o.Par)
		case "read":
			if len(obs.files) == 0 {
				continue
			}
			f := o.File % len(obs.files)
			fi := obs.files[f]
			h, ok := handles[f]
			if !ok || o.Reopen {
				h, err = gr.OpenFile(fi.id)
				if err != nil {
					obs.problems = append(obs.problems, "reader OpenFile failed for "+fi.owner)
					continue
				}
				handles[f] = h
			}
			p := make([]byte, o.Len)
			ro := readOut{isRead: true, f: f, off: o.Off, n: o.Len}
			rec.mu.Lock()
			rec.on, rec.evs = true, nil
			rec.mu.Unlock()
			func() {
				defer func() {
					if r := recover(); r != nil {
						ro.pnc = true
					}
				}()
				n, err := h.ReadAt(p, o.Off)
				if err != nil && err != io.EOF {
					ro.err = true
				} else {
					ro.data = append([]byte{}, p[:n]...)
				}
			}()
			rec.mu.Lock()
			rec.on = false
			evs := rec.evs
			rec.mu.Unlock()
			// translate the event log
			var hits []key
			for i, e := range evs {
				if e.nested {
					continue
				}
				switch {
				case e.get:
					k, known := revKey[e.k]
					if !known {
						k = key{9999, -1, -1}
					}
					// the cached data was used iff no read of the underlying file follows before the next probe
					used := e.ok
					for j := i + 1; j < len(evs); j++ {
						if evs[j].nested || evs[j].add {
							continue
						}
						if evs[j].under {
							used = false
						}
						break
					}
					if used {
						hits = append(hits, k)
						obs.stats["read.chunk.hit"]++
					} else {
						obs.stats["read.chunk.miss"]++
					}
					ro.trace = append(ro.trace, fmt.Sprintf("EGet %s %s", coqKey(k), hx.CoqBool(used)))
				case e.under:
					ro.trace = append(ro.trace, fmt.Sprintf("EUnder %d %d", e.off, e.size))
				}
			}
			if c.Cache != "mem" {
				// the state of a directory cache (memory LRU, fd LRU, files, asynchronous persistence) is not
				// predicted: the probes it answered are given to the model as the environment's honest cache
				obs.coqOps = append(obs.coqOps, fmt.Sprintf("CReadObs %d %d %d %s", f, o.Off, o.Len, coqKeys(hits)))
			} else {
				obs.coqOps = append(obs.coqOps, fmt.Sprintf("CRead %d %d %d", f, o.Off, o.Len))
			}
			obs.outs = append(obs.outs, ro)
			obs.stats["op.read"]++
			if o.Off+o.Len > fi.size {
				obs.stats["read.past_eof"]++
			}
			if o.Off >= fi.size {
				obs.stats["read.beyond_eof"]++
			}
			if len(fi.chunks) > 1 {
				obs.stats["read.multichunk_file"]++
			}
			// model-free oracle for the bytes is applied by the caller (it knows the source tar)
		}
	}
	// the tree after the history must be the tree before it; the attributes handed out before the history are kept
	// by the node layer for the life of the node, so they must still be readable and unchanged now
	after := walk(mr, &obs.problems)
	func() {
		defer debug.SetPanicOnFault(debug.SetPanicOnFault(true))
		defer func() {
			if r := recover(); r != nil {
				obs.problems = append(obs.problems, "attributes (xattr values) returned before the history are no longer readable after it: memory fault")
				obs.view = after
			}
		}()
		if len(after) != len(obs.view) {
			obs.problems = append(obs.problems, "the served tree changed during the history")
			return
		}
		for i := range after {
			if after[i].Path != obs.view[i].Path || after[i].ID != obs.view[i].ID || !attrEqual(after[i].Attr, obs.view[i].Attr) {
				obs.problems = append(obs.problems, "the served tree changed during the history at "+after[i].Path)
				break
			}
		}
	}()
	// detach what is reported from the store's memory (the store is closed before the oracle runs)
	detach := func(view []ONode) (ok bool) {
		defer debug.SetPanicOnFault(debug.SetPanicOnFault(true))
		defer func() {
			if r := recover(); r != nil {
				ok = false
			}
		}()
		for i := range view {
			if xs := view[i].Attr.Xattrs; xs != nil {
				cp := make(map[string][]byte, len(xs))
				for k, v := range xs {
					cp[k] = append([]byte{}, v...)
				}
				view[i].Attr.Xattrs = cp
			}
		}
		return true
	}
	if !detach(obs.view) {
		obs.problems = append(obs.problems, "attributes (xattr values) returned before the history are no longer readable after it: memory fault")
		obs.view = after
		detach(obs.view)
	}
	return
}

var (
	bigOnce sync.Once
	bigBlob []byte
)

// bigLayer is an unrelated layer with many entries and xattrs (about 1.5 MB of metadata in the db store).
func bigLayer() *io.SectionReader {
	bigOnce.Do(func() {
		var ents []Ent
		for i := 0; i < 1500; i++ {
			ents = append(ents, Ent{Name: fmt.Sprintf("big/d%d/file-with-a-rather-long-name-%d", i%50, i), Kind: "reg", Mode: 0o644, Mtime: 1,
				Data: []byte{byte(i)}, Xattrs: map[string]string{"user.padding": strings.Repeat("x", 200)}})
		}
		b, err := buildBlob(Case{Tar: ents, ChunkSize: 4096, Workers: 1})
		if err != nil {
			panic(err)
		}
		bigBlob = b
	})
	return io.NewSectionReader(bytes.NewReader(bigBlob), 0, int64(len(bigBlob)))
}

// ---- Coq printing ----

func coqStr(s string) string {
	return "\"" + strings.ReplaceAll(s, "\"", "\"\"") + "\"%string"
}

func coqPath(p string) string {
	if p == "" {
		return "[]"
	}
	parts := strings.Split(p, "/")
	s := make([]string, len(parts))
	for i, x := range parts {
		s[i] = coqStr(x)
	}
	return hx.CoqList(s)
}

func coqKind(k string) string {
	switch k {
	case "reg":
		return "KReg"
	case "dir":
		return "KDir"
	case "symlink":
		return "KSymlink"
	case "hardlink":
		return "KHardlink"
	case "char":
		return "KChar"
	case "block":
		return "KBlock"
	case "fifo":
		return "KFifo"
	}
	return "KReg"
}

func coqXattrs(m map[string]string) string {
	ks := make([]string, 0, len(m))
	for k := range m {
		ks = append(ks, k)
	}
	sort.Strings(ks)
	s := make([]string, len(ks))
	for i, k := range ks {
		s[i] = fmt.Sprintf("(%s, %s)", coqStr(k), coqStr(m[k]))
	}
	return hx.CoqList(s)
}

func coqEnt(e Ent) string {
	link, maj, min := "", int64(0), int64(0)
	switch e.Kind {
	case "symlink", "hardlink":
		link = e.Link
	case "char", "block":
		maj, min = e.Maj, e.Min
	}
	data := []byte{}
	if e.Kind == "reg" {
		data = e.Data
	}
	return fmt.Sprintf("(mkTent %s %s %s %s %s %s %s %s %s %s %s)", coqStr(e.Name), coqKind(e.Kind), hx.CoqZ(e.Mode),
		hx.CoqZ(int64(e.UID)), hx.CoqZ(int64(e.GID)), hx.CoqZ(e.Mtime), coqStr(link), hx.CoqZ(maj), hx.CoqZ(min),
		coqXattrs(e.Xattrs), hx.CoqBytes(data))
}

func coqFattr(f [8]uint64) string {
	s := make([]string, 8)
	for i, x := range f {
		s[i] = fmt.Sprintf("%d%%Z", x)
	}
	return "(" + strings.Join(s, ", ") + ")"
}

func coqONode(n ONode) string {
	xs := map[string]string{}
	for k, v := range n.Attr.Xattrs {
		xs[k] = string(v)
	}
	file := "None"
	if n.File >= 0 {
		file = fmt.Sprintf("(Some %d%%nat)", n.File)
	}
	return fmt.Sprintf("(%s, mkOnode %s %s %s %s %s %s %s %s %s %s %d%%nat %s %s)", coqPath(n.Path),
		hx.CoqZ(int64(n.Attr.Mode)), hx.CoqZ(int64(n.Attr.UID)), hx.CoqZ(int64(n.Attr.GID)), hx.CoqZ(n.Attr.Size),
		hx.CoqZ(n.Attr.ModTime.Unix()), coqStr(n.Attr.LinkName), hx.CoqZ(int64(n.Attr.DevMajor)), hx.CoqZ(int64(n.Attr.DevMinor)),
		coqXattrs(xs), hx.CoqZ(int64(n.Attr.NumLink)), n.Rep, file, coqFattr(n.Fuse))
}

func coqServe(st Store, c Case, obs serveObs) string {
	tar := make([]string, len(c.Tar))
	for i, e := range c.Tar {
		tar[i] = coqEnt(e)
	}
	view := "None"
	files := []string{}
	chunks := []string{}
	if !obs.openFailed {
		ns := make([]string, len(obs.view))
		for i, n := range obs.view {
			ns[i] = coqONode(n)
		}
		view = "(Some " + hx.CoqList(ns) + ")"
		for _, f := range obs.files {
			var offs []int64
			for o := range f.mates {
				offs = append(offs, o)
			}
			sort.Slice(offs, func(i, j int) bool { return offs[i] < offs[j] })
			ms := make([]string, len(offs))
			for i, o := range offs {
				ms[i] = fmt.Sprintf("(%d%%Z, %s)", o, coqKeys(f.mates[o]))
			}
			files = append(files, fmt.Sprintf("(%s, %s)", coqPath(f.owner), hx.CoqList(ms)))
			cs := make([]string, len(f.chunks))
			for i, ch := range f.chunks {
				cs[i] = fmt.Sprintf("(%d%%Z, %d%%Z)", ch[0], ch[1])
			}
			chunks = append(chunks, hx.CoqList(cs))
		}
	}
	outs := make([]string, len(obs.outs))
	for i, o := range obs.outs {
		if !o.isRead {
			outs[i] = "None"
			continue
		}
		r := "ROk " + hx.CoqBytes(o.data)
		if o.pnc {
			r = "RPanic"
		} else if o.err {
			r = "RErr"
		}
		outs[i] = fmt.Sprintf("Some (%s, %s)", r, hx.CoqList(o.trace))
	}
	var late []string
	for p, n := range obs.lateDirs {
		late = append(late, fmt.Sprintf("(%s, %d%%Z)", coqPath(p), n))
	}
	sort.Strings(late)
	return fmt.Sprintf("CServe %s %s %s %s %d%%Z %s %s %s %s %s", hx.CoqBool(st.Name == "db"), hx.CoqBool(obs.fwd), hx.CoqList(late), hx.CoqList(tar), effChunkSize(c.ChunkSize), hx.CoqList(files), hx.CoqList(chunks), view,
		hx.CoqList(obs.coqOps), hx.CoqList(outs))
}

func effChunkSize(cs int) int {
	if cs <= 0 {
		return 4 << 20
	}
	return cs
}

// ---- main ----

// Main runs the harness against one metadata store.
func Main(st Store) {
	ctx := hx.Start()
	absOut, err := filepath.Abs(ctx.Out)
	if err != nil {
		panic(err)
	}
	tmpRoot, err := os.MkdirTemp(absOut, "c02-")
	if err != nil {
		panic(err)
	}
	defer os.RemoveAll(tmpRoot)

	emit := func(c Case) {
		switch c.Kind {
		case "clean":
			got := estargz.VerifCleanEntryNameC02(c.Name)
			ctx.Count("kind.clean")
			if got != oracleClean(c.Name) {
				ctx.Count("clean.differs")
			}
			id := ctx.Case(fmt.Sprintf("CClean %s %s", coqStr(c.Name), coqPath(got)), c, "clean:"+c.Name, got != c.Name)
			if got != oracleClean(c.Name) {
				ctx.Violation(id, fmt.Sprintf("cleanEntryName(%q) = %q, expected %q", c.Name, got, oracleClean(c.Name)), nil)
			}
		case "layers":
			emitLayers(ctx, st, c, tmpRoot)
		case "attr":
			a := c.Attr
			ma := metadata.Attr{Size: a.Size, ModTime: time.Unix(a.Mtime, 0), LinkName: a.Link, Mode: os.FileMode(a.Mode), UID: a.UID, GID: a.GID,
				DevMajor: a.Maj, DevMinor: a.Min, NumLink: a.Nlink}
			f := fuseOf(ma)
			ctx.Count("kind.attr")
			id := ctx.Case(fmt.Sprintf("CAttr %s %s %s %s %s %s %s %s %s %s", hx.CoqZ(int64(a.Mode)), hx.CoqZ(a.Size), coqStr(a.Link),
				hx.CoqZ(int64(a.Maj)), hx.CoqZ(int64(a.Min)), hx.CoqZ(int64(a.Nlink)), hx.CoqZ(int64(a.UID)), hx.CoqZ(int64(a.GID)), hx.CoqZ(a.Mtime), coqFattr(f)),
				c, fmt.Sprintf("attr:%v", *a), true)
			for _, p := range oracleAttr(*a, f) {
				ctx.Violation(id, p, nil)
			}
		default:
			obs := execServe(st, c, tmpRoot)
			problems := append([]string{}, obs.problems...)
			op, findings := oracleServe(st, c, obs, ctx)
			problems = append(problems, op...)
			ctx.Count("kind.serve")
			ctx.Count("cache." + c.Cache)
			if c.Zstd {
				ctx.Count("build.zstd")
			} else {
				ctx.Count("build.gzip")
			}
			if c.MinChunkSize > 0 {
				ctx.Count("build.min_chunk_size")
			}
			if len(c.Prioritized) > 0 {
				ctx.Count("build.prioritized")
			}
			if c.Workers > 1 {
				ctx.Count("build.workers>1")
			}
			for k, v := range obs.stats {
				ctx.CountN(k, v)
			}
			if obs.openFailed {
				ctx.Count("result.open_failed")
			}
			term := coqServe(st, c, obs)
			sum := sha256.Sum256([]byte(term))
			nontrivial := !obs.openFailed && len(obs.files) > 0 && obs.stats["op.read"] >= 2
			id := ctx.Case(term, c, fmt.Sprintf("%x", sum[:8]), nontrivial)
			seen := map[string]bool{}
			for _, p := range problems {
				if !seen[p] {
					seen[p] = true
					ctx.Violation(id, p, nil)
				}
			}
			for _, f := range findings {
				if !seen[f[0]] {
					seen[f[0]] = true
					ctx.Count("finding." + f[0])
					ctx.Finding(id, f[0], f[1], nil)
				}
			}
		}
	}

	if ctx.Replay != "" {
		var c Case
		ctx.LoadReplay(&c)
		emit(c)
		ctx.Finish()
		return
	}
	for _, c := range corpus() {
		emit(c)
	}
	// hx.NewRng(seed) starts splitmix64 at seed*G, so the streams of consecutive seeds are shifts of one another;
	// seeding from the first (mixed) output makes different seeds explore unrelated cases.
	r := hx.NewRng(hx.NewRng(ctx.Seed).U64())
	for i := len(corpus()); i < ctx.N; i++ {
		rr := r.Fork()
		switch rr.Pick(6, 2, 2, 1) {
		case 3:
			emit(genLayers(rr))
		case 0:
			emit(genServe(rr, ctx.Tier))
		case 1:
			emit(genClean(rr))
		case 2:
			emit(genAttr(rr))
		}
	}
	ctx.Finish()
}

// forwardHardlink reports whether some hardlink entry of the TOC precedes the entry that defines its (direct) target name.
func forwardHardlink(c Case, toc []estargz.VerifTOCEntryC02) bool {
	link := map[string]string{}
	for _, e := range c.Tar {
		if e.Kind == "hardlink" {
			link[oracleClean(e.Name)] = oracleClean(e.Link) // the last entry of a name wins, as in the layer
		} else {
			delete(link, oracleClean(e.Name))
		}
	}
	defined := map[string]bool{"": true}
	for _, e := range toc {
		if e.Type == "chunk" {
			continue
		}
		if e.Type == "hardlink" {
			if t, ok := link[e.Name]; ok && !defined[t] {
				return true
			}
		}
		for q := e.Name; ; q = parentOf(q) {
			defined[q] = true
			if q == "" {
				break
			}
		}
	}
	return false
}

// lateDirs: for the db store (C05 known finding F11), the directories whose TOC entry comes after an entry below them
// (so that the directory had already been created implicitly), counted per parent directory.
func lateDirs(toc []estargz.VerifTOCEntryC02) map[string]int {
	out := map[string]int{}
	created := map[string]bool{"": true}
	for _, e := range toc {
		if e.Type == "chunk" {
			continue
		}
		if e.Type == "dir" && e.Name != "" && created[e.Name] {
			out[parentOf(e.Name)]++
		}
		for q := e.Name; ; q = parentOf(q) {
			created[q] = true
			if q == "" {
				break
			}
		}
	}
	return out
}

// fileMappingOf returns the path of the file whose mapping contains the address, "" for anonymous memory (Go heap).
func fileMappingOf(addr uintptr) string {
	b, err := os.ReadFile("/proc/self/maps")
	if err != nil {
		return ""
	}
	for _, line := range strings.Split(string(b), "\n") {
		var lo, hi uintptr
		var perms, off, dev, path string
		var inode uint64
		n, _ := fmt.Sscanf(line, "%x-%x %s %s %s %d %s", &lo, &hi, &perms, &off, &dev, &inode, &path)
		if n >= 6 && addr >= lo && addr < hi {
			if n == 7 && strings.HasPrefix(path, "/") {
				return path
			}
			return ""
		}
	}
	return ""
}
