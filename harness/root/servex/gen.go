// Case generators of the C02 harness.
package servex

import (
	"fmt"
	"os"
	"strings"

	"verif/harness/hx"
)

func seqBytes(n int, start byte) []byte {
	b := make([]byte, n)
	for i := range b {
		b[i] = start + byte(i)
	}
	return b
}

// corpus: hand-written cases for each clause of the property.
func corpus() []Case {
	d10 := seqBytes(10, 1)
	return []Case{
		// multi-chunk file, reads across chunk boundaries, at and past EOF, eviction in between
		{Kind: "serve", ChunkSize: 4, Workers: 1, Cache: "mem",
			Tar: []Ent{{Name: "a/f", Kind: "reg", Mode: 0o644, Mtime: 1, Data: d10}, {Name: "a/e", Kind: "reg", Mode: 0o600, Mtime: 1}},
			Ops: []Op{{Op: "read", File: 1, Off: 2, Len: 7}, {Op: "read", File: 1, Off: 0, Len: 20}, {Op: "evict", Pick: []int{1}},
				{Op: "read", File: 1, Off: 3, Len: 3}, {Op: "read", File: 1, Off: 10, Len: 3}, {Op: "read", File: 1, Off: 9, Len: 5},
				{Op: "read", File: 0, Off: 0, Len: 4}, {Op: "prefetch"}, {Op: "read", File: 1, Off: 4, Len: 4}, {Op: "evictall"}, {Op: "read", File: 1, Off: 7, Len: 2}}},
		// name prefixes, implicit parents, explicit root, duplicates (last wins), hardlink chain, devices, xattrs, setuid
		{Kind: "serve", ChunkSize: 3, Workers: 2, Cache: "dir1",
			Tar: []Ent{
				{Name: "./", Kind: "dir", Mode: 0o750, UID: 5, GID: 6, Mtime: 100},
				{Name: "./x/y/f", Kind: "reg", Mode: 0o4755, UID: 1, GID: 2, Mtime: 1000000000, Data: []byte("first"), Xattrs: map[string]string{"user.a": "1", "security.capability": "zz"}},
				{Name: "../x/y/f", Kind: "reg", Mode: 0o644, Mtime: 7, Data: []byte("second!")},
				{Name: "/l1", Kind: "hardlink", Link: "x/../l2", Mtime: 3},
				{Name: "l2", Kind: "hardlink", Link: "./x/y/f", Mtime: 3},
				{Name: "x/s", Kind: "symlink", Mode: 0o777, Link: "../y/f", Mtime: 4},
				{Name: "dev/c", Kind: "char", Mode: 0o600, Maj: 5, Min: 1, Mtime: 5},
				{Name: "dev/b", Kind: "block", Mode: 0o660, Maj: 259, Min: 300, Mtime: 5},
				{Name: "dev/p", Kind: "fifo", Mode: 0o1644, Mtime: 5},
				{Name: "x/y/", Kind: "dir", Mode: 0o2700, UID: 9, Mtime: 6},
			},
			Ops: []Op{{Op: "read", File: 0, Off: 0, Len: 7}, {Op: "read", File: 0, Off: 1, Len: 100}, {Op: "evictall"}, {Op: "read", File: 0, Off: 6, Len: 1}}},
		// several small files in one compression member (min-chunk-size), zstd, prioritized
		{Kind: "serve", ChunkSize: 5, MinChunkSize: 5000, Zstd: true, Workers: 1, Cache: "mem", Prioritized: []string{"./b"},
			Tar: []Ent{{Name: "a", Kind: "reg", Mode: 0o644, Mtime: 1, Data: seqBytes(12, 10)}, {Name: "b", Kind: "reg", Mode: 0o644, Mtime: 1, Data: seqBytes(7, 100)},
				{Name: "c", Kind: "reg", Mode: 0o644, Mtime: 1, Data: seqBytes(5, 200)}},
			Ops: []Op{{Op: "read", File: 0, Off: 6, Len: 3}, {Op: "read", File: 1, Off: 0, Len: 7}, {Op: "read", File: 2, Off: 0, Len: 9}, {Op: "read", File: 0, Off: 0, Len: 12}}},
		// an empty file between two files of the first compression member (min-chunk-size + prioritized files)
		{Kind: "serve", ChunkSize: 4, MinChunkSize: 5000, Workers: 1, Cache: "mem", Prioritized: []string{"a", "e", "c"},
			Tar: []Ent{{Name: "a", Kind: "reg", Mode: 0o644, Mtime: 1, Data: seqBytes(5, 10)}, {Name: "e", Kind: "reg", Mode: 0o644, Mtime: 1},
				{Name: "c", Kind: "reg", Mode: 0o644, Mtime: 1, Data: seqBytes(7, 200)}, {Name: "z", Kind: "reg", Mode: 0o644, Mtime: 1, Data: seqBytes(3, 50)}},
			Ops: []Op{{Op: "read", File: 0, Off: 0, Len: 5}, {Op: "read", File: 1, Off: 0, Len: 7}, {Op: "read", File: 2, Off: 0, Len: 1}, {Op: "read", File: 3, Off: 0, Len: 3}, {Op: "prefetch"}, {Op: "read", File: 1, Off: 2, Len: 4}}},
		// passthrough: no merge worker; a chunk crossing a merge-buffer boundary; a chunk larger than the buffer
		{Kind: "serve", ChunkSize: 4, Workers: 1, Cache: "dirdirect",
			Tar: []Ent{{Name: "f", Kind: "reg", Mode: 0o644, Mtime: 1, Data: seqBytes(14, 1)}, {Name: "g", Kind: "reg", Mode: 0o644, Mtime: 1, Data: seqBytes(14, 50)},
				{Name: "h", Kind: "reg", Mode: 0o644, Mtime: 1, Data: seqBytes(14, 100)}, {Name: "i", Kind: "reg", Mode: 0o644, Mtime: 1, Data: seqBytes(16, 150)},
				{Name: "j", Kind: "reg", Mode: 0o644, Mtime: 1}, {Name: "k", Kind: "reg", Mode: 0o644, Mtime: 1, Data: seqBytes(26, 200)}},
			Ops: []Op{{Op: "pt", File: 5, Mbs: 12, Workers: 2}, {Op: "pt", File: 4, Mbs: 0, Workers: 2}, {Op: "pt", File: 0, Mbs: 8, Workers: 0}, {Op: "pt", File: 1, Mbs: 6, Workers: 2}, {Op: "pt", File: 2, Mbs: 3, Workers: 1},
				{Op: "pt", File: 3, Mbs: 8, Workers: 3}, {Op: "read", File: 0, Off: 3, Len: 9}, {Op: "pt", File: 0, Mbs: 8, Workers: 2}}},
		// two layers of the same shape through one resolver: same node ids and chunk keys, different bytes; A read before B
		{Kind: "layers", ChunkSize: 4,
			Layers: [][]Ent{
				{{Name: "f0", Kind: "reg", Mode: 0o644, Mtime: 1, Data: seqBytes(10, 1)}, {Name: "f1", Kind: "reg", Mode: 0o644, Mtime: 1, Data: seqBytes(10, 20)}, {Name: "f2", Kind: "reg", Mode: 0o644, Mtime: 1, Data: seqBytes(10, 40)}},
				{{Name: "f0", Kind: "reg", Mode: 0o644, Mtime: 1, Data: seqBytes(10, 101)}, {Name: "f1", Kind: "reg", Mode: 0o644, Mtime: 1, Data: seqBytes(10, 120)}, {Name: "f2", Kind: "reg", Mode: 0o644, Mtime: 1, Data: seqBytes(10, 140)}}},
			LReads: []LRead{{0, 0, 0, 10}, {0, 1, 0, 10}, {0, 2, 0, 10}, {1, 0, 0, 10}, {1, 1, 0, 10}, {1, 2, 0, 10}, {0, 1, 3, 5}, {1, 2, 5, 9}}},
		// db readChunks order: chunk offsets reach 64 and more (their bbolt keys are zig-zag varints)
		{Kind: "serve", ChunkSize: 4, Workers: 1, Cache: "mem",
			Tar: []Ent{{Name: "big", Kind: "reg", Mode: 0o644, Mtime: 1, Data: seqBytes(150, 3)}, {Name: "x", Kind: "reg", Mode: 0o600, Mtime: 1, Data: seqBytes(70, 9),
				Xattrs: map[string]string{"user.a": "value-a", "user.b": "value-b", "user.c": "value-c"}}},
			Ops: []Op{{Op: "read", File: 0, Off: 60, Len: 20}, {Op: "read", File: 0, Off: 0, Len: 150}, {Op: "grow"}, {Op: "read", File: 0, Off: 126, Len: 30}, {Op: "read", File: 1, Off: 62, Len: 8},
				{Op: "evictall"}, {Op: "read", File: 0, Off: 100, Len: 33}}},
		// dangling hardlink: the layer is not servable
		{Kind: "serve", ChunkSize: 4, Workers: 1, Cache: "mem", Tar: []Ent{{Name: "a", Kind: "hardlink", Link: "nope", Mtime: 1}}},
		{Kind: "clean", Name: "../a/./b//c/../d/"},
		{Kind: "clean", Name: "/"},
		{Kind: "attr", Attr: &AttrIn{Mode: uint32(os.ModeSymlink | 0o777), Size: 99, Link: "target", Nlink: 0, UID: 1, GID: 2, Mtime: 5}},
		{Kind: "attr", Attr: &AttrIn{Mode: uint32(os.ModeDevice | os.ModeCharDevice | os.ModeSetuid | 0o600), Maj: 4095, Min: 1048575, Nlink: 3, Mtime: -5}},
	}
}

var prefixes = []string{"", "", "", "./", "/", "../", "././", "//", "../../"}

func styled(r *hx.Rng, p string, dir bool) string {
	s := prefixes[r.Intn(len(prefixes))] + p
	if r.Chance(1, 8) {
		s = strings.Replace(s, "/", "//", 1)
	}
	if r.Chance(1, 8) {
		s = strings.Replace(s, "/", "/./", 1)
	}
	if r.Chance(1, 10) && strings.Contains(p, "/") {
		i := strings.Index(p, "/")
		s = p[:i] + "/zz/.." + p[i:]
	}
	if dir && r.Bool() {
		s += "/"
	}
	return s
}

func genMode(r *hx.Rng) int64 {
	m := int64([]int{0o644, 0o755, 0o600, 0o777, 0o400, 0o000, 0o664}[r.Intn(7)])
	if r.Chance(1, 4) {
		m = int64(r.Intn(0o1000))
	}
	if r.Chance(1, 5) {
		m |= int64(r.Intn(8)) << 9 // setuid/setgid/sticky
	}
	return m
}

func genMtime(r *hx.Rng) int64 {
	switch r.Pick(2, 5, 2, 1) {
	case 0:
		return 1
	case 1:
		return 1000000000 + int64(r.Intn(700000000))
	case 2:
		return int64(r.Intn(100000)) + 1
	}
	return 0 // the epoch
}

func genSize(r *hx.Rng, cs int) int {
	max := 1200
	if 48*cs < max {
		max = 48 * cs
	}
	var n int
	switch r.Pick(2, 2, 4, 3, 3, 2, 4) {
	case 0:
		n = 0
	case 1:
		n = 1
	case 2:
		n = cs*r.Range(1, 3) + r.Range(-1, 1)
	case 3:
		n = cs
	case 4:
		n = r.Range(1, cs)
	case 5:
		n = max
	case 6:
		n = r.Range(0, max)
	}
	if n < 0 {
		n = 0
	}
	if n > max {
		n = max
	}
	return n
}

func genServe(r *hx.Rng, tier string) Case {
	c := Case{Kind: "serve"}
	c.ChunkSize = []int{1, 2, 3, 7, 16, 64, 100, 256, 600}[r.Intn(9)]
	if r.Chance(2, 5) {
		c.MinChunkSize = []int{1, 2 * c.ChunkSize, 300, 5000, 100000}[r.Intn(5)]
	}
	c.Zstd = r.Chance(3, 10)
	c.Workers = r.Range(1, 4)
	c.Cache = []string{"mem", "dir1", "dirdirect", "dirasync"}[r.Pick(50, 20, 15, 15)]

	dirs := []string{"", "a", "b", "a/c", "a/c/d", "b/e"}
	isDir := map[string]bool{"": true} // clean path -> must be a directory
	nonDir := map[string]string{}      // clean path -> kind
	var order []string                 // non-directory names in creation order
	markParents := func(p string) bool {
		for q := parentOf(p); ; q = parentOf(q) {
			if _, bad := nonDir[q]; bad {
				return false
			}
			if q == "" {
				break
			}
		}
		for q := parentOf(p); ; q = parentOf(q) {
			isDir[q] = true
			if q == "" {
				break
			}
		}
		return true
	}
	n := r.Range(1, 10)
	if tier == "thorough" {
		n = r.Range(1, 16)
	}
	nfile := 0
	for i := 0; i < n; i++ {
		e := Ent{Mode: genMode(r), UID: r.Intn(3) * 500, GID: r.Intn(3) * 7, Mtime: genMtime(r)}
		if r.Chance(1, 6) {
			e.Xattrs = map[string]string{}
			for j := r.Range(1, 2); j > 0; j-- {
				e.Xattrs[[]string{"user.k", "user.mime_type", "security.selinux", "trusted.overlay.opaque"}[r.Intn(4)]] = []string{"", "y", "v1", "system_u:object_r:x"}[r.Intn(4)]
			}
		}
		kind := r.Pick(45, 14, 9, 12, 3, 3, 3, 11)
		// a duplicate of an existing name
		if kind == 7 {
			if len(order) == 0 {
				kind = 0
			} else {
				p := order[r.Intn(len(order))]
				e.Name = styled(r, p, false)
				e.Kind = "reg"
				e.Data = r.Bytes(genSize(r, c.ChunkSize))
				nonDir[p] = "reg"
				c.Tar = append(c.Tar, e)
				continue
			}
		}
		d := dirs[r.Intn(len(dirs))]
		join := func(b string) string {
			if d == "" {
				return b
			}
			return d + "/" + b
		}
		switch kind {
		case 1: // directory (possibly the root itself, possibly repeated)
			p := dirs[r.Intn(len(dirs))]
			if r.Chance(1, 4) {
				p = join(fmt.Sprintf("d%d", r.Intn(3)))
			}
			if _, bad := nonDir[p]; bad || !markParents(p) {
				continue
			}
			isDir[p] = true
			e.Kind = "dir"
			e.Name = styled(r, p, true)
			if p == "" {
				e.Name = []string{"./", "/", ".", ""}[r.Intn(3)]
			}
			c.Tar = append(c.Tar, e)
			continue
		case 3: // hardlink to an existing non-directory (possibly another hardlink), rarely dangling or forward
			p := join(fmt.Sprintf("h%d", r.Intn(4)))
			if isDir[p] || !markParents(p) || len(order) == 0 {
				continue
			}
			if _, dup := nonDir[p]; dup {
				continue
			}
			t := order[r.Intn(len(order))]
			if t == p {
				continue
			}
			if r.Chance(1, 40) {
				t = "missing/target"
			}
			e.Kind, e.Link = "hardlink", styled(r, t, false)
			e.Name = styled(r, p, false)
			nonDir[p] = "hardlink"
			order = append(order, p)
			c.Tar = append(c.Tar, e)
			continue
		}
		p := join(fmt.Sprintf("f%d", nfile))
		nfile++
		if isDir[p] || !markParents(p) {
			continue
		}
		e.Name = styled(r, p, false)
		switch kind {
		case 0:
			e.Kind = "reg"
			e.Data = r.Bytes(genSize(r, c.ChunkSize))
		case 2:
			e.Kind = "symlink"
			e.Link = []string{"f0", "../a/f1", "/abs/path", ".", "a/very/long/target/name/that/does/not/exist"}[r.Intn(5)]
			e.Mode = 0o777
		case 4:
			e.Kind, e.Maj, e.Min = "char", int64(r.Intn(4096)), int64(r.Intn(1<<20))
		case 5:
			e.Kind, e.Maj, e.Min = "block", int64(r.Intn(300)), int64(r.Intn(300))
		case 6:
			e.Kind = "fifo"
		}
		nonDir[p] = e.Kind
		order = append(order, p)
		c.Tar = append(c.Tar, e)
	}
	// forward hardlinks: sometimes move a hardlink entry to the front
	if r.Chance(1, 5) {
		for i, e := range c.Tar {
			if e.Kind == "hardlink" && i > 0 {
				c.Tar[0], c.Tar[i] = c.Tar[i], c.Tar[0]
				break
			}
		}
	}
	// prioritized files: existing regular files or hardlinks, written with any prefix style
	if r.Chance(3, 10) {
		want, _ := expectedView(c.Tar)
		for p, k := range nonDir {
			if (k == "reg" || k == "hardlink") && want != nil && r.Bool() {
				c.Prioritized = append(c.Prioritized, styled(r, p, false))
			}
		}
		sortStrings(c.Prioritized)
	}
	// history
	var regs []int // sizes of the regular files, in an arbitrary but deterministic order (the harness indexes modulo)
	for _, e := range c.Tar {
		if e.Kind == "reg" {
			regs = append(regs, len(e.Data))
		}
	}
	nops := r.Range(4, 24)
	genRead := func() Op {
		o := Op{Op: "read", File: r.Intn(8), Reopen: r.Chance(1, 3)}
		size := 0
		if len(regs) > 0 {
			size = regs[r.Intn(len(regs))]
		}
		cs := c.ChunkSize
		switch r.Pick(3, 4, 2, 2, 3) {
		case 0:
			o.Off = 0
		case 1:
			o.Off = int64(cs*r.Intn(4) + r.Range(-1, 1))
		case 2:
			o.Off = int64(size + r.Range(-2, 2))
		case 3:
			o.Off = int64(size + r.Intn(3*cs+5))
		case 4:
			o.Off = int64(r.Intn(size + 1))
		}
		if o.Off < 0 {
			o.Off = 0
		}
		switch r.Pick(1, 2, 4, 3, 3, 2) {
		case 0:
			o.Len = 0
		case 1:
			o.Len = 1
		case 2:
			o.Len = int64(cs*r.Range(1, 3) + r.Range(-1, 1))
		case 3:
			o.Len = int64(size)
		case 4:
			o.Len = int64(r.Intn(size + cs + 2))
		case 5:
			o.Len = int64(size + r.Intn(2*cs+10))
		}
		if o.Len < 0 {
			o.Len = 0
		}
		if o.Len > 2000 {
			o.Len = 2000
		}
		return o
	}
	for i := 0; i < nops; i++ {
		wpar := 0
		if c.Cache != "mem" {
			wpar = 5
		}
		wpt := 0
		if c.Cache == "dirdirect" {
			wpt = 12
		}
		switch r.Pick(76, 6, 12, 6, wpar, 3, wpt) {
		case 6:
			cs := int64(c.ChunkSize)
			mbs := []int64{0, 1, cs - 1, cs, cs + 1, 2 * cs, 2*cs + 1, 3*cs - 1, 3 * cs, 4 * cs, 5 * cs, 5 * cs, 1 << 20}[r.Intn(13)]
			c.Ops = append(c.Ops, Op{Op: "pt", File: r.Intn(8), Mbs: mbs, Workers: r.Range(0, 4)})
		case 5:
			c.Ops = append(c.Ops, Op{Op: "grow"})
		case 4:
			o := Op{Op: "par"}
			for j := r.Range(2, 8); j > 0; j-- {
				x := genRead()
				o.Par = append(o.Par, ParRead{File: x.File, Off: x.Off, Len: x.Len})
			}
			c.Ops = append(c.Ops, o)
		case 0:
			c.Ops = append(c.Ops, genRead())
		case 1:
			c.Ops = append(c.Ops, Op{Op: "prefetch"})
		case 2:
			o := Op{Op: "evict"}
			for j := r.Range(1, 4); j > 0; j-- {
				o.Pick = append(o.Pick, r.Intn(64))
			}
			c.Ops = append(c.Ops, o)
		case 3:
			c.Ops = append(c.Ops, Op{Op: "evictall"})
		}
	}
	return c
}

func sortStrings(s []string) {
	for i := 1; i < len(s); i++ {
		for j := i; j > 0 && s[j] < s[j-1]; j-- {
			s[j], s[j-1] = s[j-1], s[j]
		}
	}
}

func genClean(r *hx.Rng) Case {
	comps := []string{"", ".", "..", "a", "b", "...", "a.b", ".x", "..y", "c-1_2"}
	n := r.Range(0, 7)
	parts := make([]string, n)
	for i := range parts {
		parts[i] = comps[r.Intn(len(comps))]
	}
	s := strings.Join(parts, "/")
	if r.Chance(1, 4) {
		s = "/" + s
	}
	if r.Chance(1, 4) {
		s += "/"
	}
	return Case{Kind: "clean", Name: s}
}

func genAttr(r *hx.Rng) Case {
	types := []os.FileMode{0, os.ModeDir, os.ModeSymlink, os.ModeDevice, os.ModeDevice | os.ModeCharDevice, os.ModeNamedPipe, os.ModeSocket,
		os.ModeIrregular, os.ModeCharDevice, os.ModeDir | os.ModeSymlink, os.ModeAppend, os.ModeTemporary | os.ModeDir}
	m := types[r.Intn(len(types))] | os.FileMode(r.Intn(0o1000))
	if r.Bool() {
		m |= os.ModeSetuid
	}
	if r.Chance(1, 3) {
		m |= os.ModeSetgid
	}
	if r.Chance(1, 3) {
		m |= os.ModeSticky
	}
	a := &AttrIn{Mode: uint32(m), Link: []string{"", "t", "some/target"}[r.Intn(3)], Nlink: []int{0, 1, 2, 70000}[r.Intn(4)],
		UID: []int{0, 1000, 65534, 1 << 31}[r.Intn(4)], GID: r.Intn(70000)}
	a.Size = []int64{0, 1, 4095, 4096, 4097, 1 << 32, 123456789}[r.Intn(7)]
	a.Maj = []int{0, 1, 255, 256, 4095, 4096, 1 << 20}[r.Intn(7)]
	a.Min = []int{0, 1, 255, 256, 1<<20 - 1, 1 << 20, 1<<32 - 1}[r.Intn(7)]
	a.Mtime = []int64{0, 1, 1700000000, -1, zeroTimeUnix, 1 << 33}[r.Intn(6)]
	return Case{Kind: "attr", Attr: a}
}
