// Model-free oracle of C02: what the input tar describes, computed directly in Go from the case
// (independent of the Coq model and of the packages under test), compared with what was served.
package servex

import (
	"bytes"
	"fmt"
	"os"
	"sort"
	"strings"

	"github.com/containerd/stargz-snapshotter/estargz"
	"verif/harness/hx"
)

// oracleClean: the path an entry name denotes inside the layer root: empty and "." components are dropped,
// ".." goes up but never above the root.
func oracleClean(name string) string {
	var st []string
	for _, c := range strings.Split(name, "/") {
		switch c {
		case "", ".":
		case "..":
			if len(st) > 0 {
				st = st[:len(st)-1]
			}
		default:
			st = append(st, c)
		}
	}
	return strings.Join(st, "/")
}

type xnode struct {
	kind     string
	mode     os.FileMode
	uid, gid int
	size     int64
	mtime    int64
	link     string
	maj, min int
	xattrs   map[string]string
	nlink    int
	data     []byte
	owner    string
	explicit bool
}

func parentOf(p string) string {
	i := strings.LastIndex(p, "/")
	if i < 0 {
		return ""
	}
	return p[:i]
}

// expectedView returns the tree the tar describes (path -> node) or ok=false when the archive is not
// servable (a hardlink without target, a hardlink cycle, a hardlink to a directory).
func expectedView(tar []Ent) (map[string]*xnode, bool) {
	last := map[string]int{}
	for i, e := range tar {
		p := oracleClean(e.Name)
		if p == estargz.PrefetchLandmark || p == estargz.NoPrefetchLandmark || p == estargz.TOCTarName {
			continue
		}
		last[p] = i // the last entry of a name replaces the earlier ones
	}
	ents := map[string]Ent{}
	for p, i := range last {
		ents[p] = tar[i]
	}
	resolve := func(p string) (string, bool) {
		for n := 0; n <= len(ents); n++ {
			e, ok := ents[p]
			if !ok {
				return "", false
			}
			if e.Kind != "hardlink" {
				return p, true
			}
			p = oracleClean(e.Link)
		}
		return "", false
	}
	view := map[string]*xnode{}
	for p, e := range ents {
		if e.Kind == "hardlink" {
			continue
		}
		n := &xnode{kind: e.Kind, uid: e.UID, gid: e.GID, mtime: e.Mtime, owner: p, explicit: true, xattrs: e.Xattrs}
		n.mode = os.FileMode(e.Mode & 0o777)
		if e.Mode&0o4000 != 0 {
			n.mode |= os.ModeSetuid
		}
		if e.Mode&0o2000 != 0 {
			n.mode |= os.ModeSetgid
		}
		if e.Mode&0o1000 != 0 {
			n.mode |= os.ModeSticky
		}
		switch e.Kind {
		case "reg":
			n.size, n.data = int64(len(e.Data)), e.Data
		case "dir":
			n.mode |= os.ModeDir
		case "symlink":
			n.mode |= os.ModeSymlink
			n.link = e.Link
		case "char":
			n.mode |= os.ModeDevice | os.ModeCharDevice
			n.maj, n.min = int(e.Maj), int(e.Min)
		case "block":
			n.mode |= os.ModeDevice
			n.maj, n.min = int(e.Maj), int(e.Min)
		case "fifo":
			n.mode |= os.ModeNamedPipe
		}
		if e.Kind != "dir" {
			n.nlink = 1
		}
		view[p] = n
	}
	for p, e := range ents {
		if e.Kind != "hardlink" {
			continue
		}
		t, ok := resolve(p)
		if !ok || view[t].kind == "dir" {
			return nil, false
		}
		view[t].nlink++
		view[p] = view[t]
	}
	// missing parents are directories rwxr-xr-x owned by root
	for p := range ents {
		for q := p; q != ""; {
			q = parentOf(q)
			if _, ok := view[q]; !ok {
				view[q] = &xnode{kind: "dir", mode: os.ModeDir | 0o755, owner: q, mtime: -1 << 62}
			}
		}
	}
	if _, ok := view[""]; !ok {
		view[""] = &xnode{kind: "dir", mode: os.ModeDir | 0o755, owner: "", mtime: -1 << 62}
	}
	// directories: "." + the entry in the parent + ".." of every sub-directory
	for p, n := range view {
		if n.kind != "dir" || n.owner != p {
			continue
		}
		n.nlink = 2
		for q, m := range view {
			if q != "" && parentOf(q) == p && m.kind == "dir" {
				n.nlink++
			}
		}
	}
	return view, true
}

const zeroTimeUnix = -62135596800

func sysMode(kind string) uint64 {
	switch kind {
	case "dir":
		return 0o040000
	case "symlink":
		return 0o120000
	case "char":
		return 0o020000
	case "block":
		return 0o060000
	case "fifo":
		return 0o010000
	}
	return 0o100000
}

func devMajor(dev uint64) uint64 { return (dev>>8)&0xfff | (dev>>32)&^0xfff }
func devMinor(dev uint64) uint64 { return dev&0xff | (dev>>12)&^0xff }

func oracleServe(st Store, c Case, obs serveObs, ctx *hx.Ctx) (problems []string, findings [][2]string) {
	bad := func(f string, a ...any) { problems = append(problems, fmt.Sprintf(f, a...)) }
	finding := func(sig, what string) { findings = append(findings, [2]string{sig, what}) }
	want, ok := expectedView(c.Tar)
	if !ok {
		if !obs.openFailed {
			bad("a tar with an unresolvable hardlink (or a hardlink to a directory) was opened and served")
		}
		return
	}
	if obs.openFailed {
		if st.Name == "db" && obs.fwd {
			// The db store resolves a hardlink while it decodes the TOC and refuses one whose target entry comes later
			// (C05 known finding F12). A tar in which the link precedes its target is outside the archives a tar
			// extractor accepts; counted, not a failure of this property.
			ctx.Count("db.forward_hardlink_refused")
			return
		}
		bad("a well-formed tar could not be built/opened")
		return
	}
	got := map[string]ONode{}
	for _, n := range obs.view {
		got[n.Path] = n
	}
	var paths []string
	for p := range want {
		paths = append(paths, p)
	}
	sort.Strings(paths)
	for _, p := range paths {
		w := want[p]
		g, ok := got[p]
		if !ok {
			bad("path %q described by the tar is not served", p)
			continue
		}
		a := g.Attr
		if a.Mode != w.mode {
			bad("%q: mode %v, the tar says %v", p, a.Mode, w.mode)
		}
		if a.UID != w.uid || a.GID != w.gid {
			bad("%q: owner %d:%d, the tar says %d:%d", p, a.UID, a.GID, w.uid, w.gid)
		}
		if a.Size != w.size {
			bad("%q: size %d, the tar says %d", p, a.Size, w.size)
		}
		if a.LinkName != w.link && w.kind == "symlink" {
			bad("%q: symlink target %q, the tar says %q", p, a.LinkName, w.link)
		}
		if a.DevMajor != w.maj || a.DevMinor != w.min {
			bad("%q: device %d,%d, the tar says %d,%d", p, a.DevMajor, a.DevMinor, w.maj, w.min)
		}
		if len(a.Xattrs) != len(w.xattrs) {
			bad("%q: %d xattrs, the tar has %d", p, len(a.Xattrs), len(w.xattrs))
		}
		for k, v := range w.xattrs {
			if gv, ok := a.Xattrs[k]; !ok || string(gv) != v {
				bad("%q: xattr %q = %q (present: %v), the tar says %q", p, k, gv, ok, v)
			}
		}
		// modification time. An explicit entry carries it; a directory that has no entry has none.
		mt := a.ModTime.Unix()
		switch {
		case !w.explicit:
			// nothing described
		case w.mtime == 0:
			// The writer omits a modification time equal to the epoch from the TOC and both stores serve time.Time{}
			// (year 1; the FUSE Mtime wraps) for it: the attribute differs from what the tar describes. Known finding.
			if mt == zeroTimeUnix {
				finding("C02-mtime-epoch-served-as-year-1", fmt.Sprintf("%q: mtime served as year 1 (time.Time{}), the tar says 1970-01-01 (0)", p))
			} else if mt != 0 {
				bad("%q: mtime %d, the tar says 0", p, mt)
			}
		case mt != w.mtime:
			bad("%q: mtime %d, the tar says %d", p, mt, w.mtime)
		}
		// link counts: names of a file; "." + parent entry + sub-directories of a directory
		if a.NumLink != w.nlink {
			if k := obs.lateDirs[p]; st.Name == "db" && w.kind == "dir" && k > 0 && a.NumLink == w.nlink+k {
				// C05 known finding F11 seen from the tar: the db store counts the parent link of a sub-directory twice
				// when the sub-directory's entry follows an entry below it
				finding("C02-db-dir-entry-after-child-nlink", fmt.Sprintf("%q: link count %d, expected %d (db store, %d sub-directory entries follow their contents)", p, a.NumLink, w.nlink, k))
			} else {
				bad("%q: link count %d, expected %d", p, a.NumLink, w.nlink)
			}
		}
		// FUSE attributes
		f := g.Fuse
		if f[0] != sysMode(w.kind)|uint64(c.entMode(w)&0o7777) {
			bad("%q: st_mode %o, expected %o", p, f[0], sysMode(w.kind)|uint64(c.entMode(w)&0o7777))
		}
		wsize := uint64(w.size)
		if w.kind == "symlink" {
			wsize = uint64(len(w.link))
		}
		if f[1] != wsize || f[2] != (wsize+4095)/4096*8 {
			bad("%q: st_size/st_blocks %d/%d, expected %d/%d", p, f[1], f[2], wsize, (wsize+4095)/4096*8)
		}
		if (w.kind == "char" || w.kind == "block") && (devMajor(f[3]) != uint64(w.maj) || devMinor(f[3]) != uint64(w.min)) {
			bad("%q: st_rdev %d decodes to %d,%d, the tar says %d,%d", p, f[3], devMajor(f[3]), devMinor(f[3]), w.maj, w.min)
		}
		wn := uint64(a.NumLink)
		if wn == 0 {
			wn = 1
		}
		if f[4] != wn || f[5] != uint64(uint32(w.uid)) || f[6] != uint64(uint32(w.gid)) {
			bad("%q: st_nlink/uid/gid %d/%d/%d, expected %d/%d/%d", p, f[4], f[5], f[6], wn, w.uid, w.gid)
		}
	}
	for _, n := range obs.view {
		if _, ok := want[n.Path]; !ok {
			bad("path %q is served but the tar does not describe it", n.Path)
		}
	}
	// names of one file share the node; different files do not
	for i, a := range obs.view {
		for j := 0; j < i; j++ {
			b := obs.view[j]
			wa, wb := want[a.Path], want[b.Path]
			if wa == nil || wb == nil {
				continue
			}
			if (wa == wb) != (a.ID == b.ID) {
				bad("%q and %q: same node served = %v, same file in the tar = %v", a.Path, b.Path, a.ID == b.ID, wa == wb)
			}
		}
	}
	// a name that does not exist is not found
	// (checked by the walk for existing names; here: every regular file read returns the bytes of the tar)
	for _, o := range append(append([]readOut{}, obs.outs...), obs.par...) {
		if !o.isRead || o.model {
			continue
		}
		fi := obs.files[o.f]
		w := want[fi.owner]
		if w == nil || w.kind != "reg" {
			bad("read of %q which the tar does not describe as a regular file", fi.owner)
			continue
		}
		if o.pt {
			switch {
			case o.pnc:
				bad("GetPassthroughFd(%q, mergeBufferSize=%d, workers=%d) panicked", fi.owner, o.mbs, o.workers)
			case o.err:
				bad("GetPassthroughFd(%q, mergeBufferSize=%d, workers=%d) failed", fi.owner, o.mbs, o.workers)
			case !bytes.Equal(o.data, w.data):
				bad("GetPassthroughFd(%q, mergeBufferSize=%d, workers=%d): the merged file (%d bytes) differs from the file content (%d bytes)", fi.owner, o.mbs, o.workers, len(o.data), len(w.data))
			}
			continue
		}
		if o.pnc {
			bad("ReadAt(%q, off=%d, len=%d) panicked", fi.owner, o.off, o.n)
			continue
		}
		if o.err {
			bad("ReadAt(%q, off=%d, len=%d) failed", fi.owner, o.off, o.n)
			continue
		}
		lo, hi := o.off, o.off+o.n
		if lo > int64(len(w.data)) {
			lo = int64(len(w.data))
		}
		if hi > int64(len(w.data)) {
			hi = int64(len(w.data))
		}
		if !bytes.Equal(o.data, w.data[lo:hi]) {
			if len(o.data) < int(hi-lo) && bytes.Equal(o.data, w.data[lo:lo+int64(len(o.data))]) {
				bad("ReadAt(%q, off=%d, len=%d) returned %d bytes, %d are available (short before EOF)", fi.owner, o.off, o.n, len(o.data), hi-lo)
			} else {
				bad("ReadAt(%q, off=%d, len=%d) returned wrong bytes", fi.owner, o.off, o.n)
			}
		}
	}
	return
}

// entMode returns the tar header mode of the entry that owns node w.
func (c Case) entMode(w *xnode) int64 {
	if !w.explicit {
		return 0o755
	}
	m := int64(0)
	for _, e := range c.Tar {
		if oracleClean(e.Name) == w.owner && e.Kind != "hardlink" {
			m = e.Mode
		}
	}
	return m
}

func oracleAttr(a AttrIn, f [8]uint64) (problems []string) {
	bad := func(s string, x ...any) { problems = append(problems, fmt.Sprintf(s, x...)) }
	m := os.FileMode(a.Mode)
	want := uint64(m & os.ModePerm)
	switch m & os.ModeType {
	case os.ModeDevice:
		want |= 0o060000
	case os.ModeDevice | os.ModeCharDevice:
		want |= 0o020000
	case os.ModeDir:
		want |= 0o040000
	case os.ModeNamedPipe:
		want |= 0o010000
	case os.ModeSymlink:
		want |= 0o120000
	case os.ModeSocket:
		want |= 0o140000
	default:
		want |= 0o100000
	}
	if m&os.ModeSetuid != 0 {
		want |= 0o4000
	}
	if m&os.ModeSetgid != 0 {
		want |= 0o2000
	}
	if m&os.ModeSticky != 0 {
		want |= 0o1000
	}
	if f[0] != want {
		bad("st_mode %o for %v, expected %o", f[0], m, want)
	}
	size := uint64(a.Size)
	if m&os.ModeSymlink != 0 {
		size = uint64(len(a.Link))
	}
	if f[1] != size || f[2] != (size+4095)/4096*8 {
		bad("st_size/st_blocks %d/%d, expected %d/%d", f[1], f[2], size, (size+4095)/4096*8)
	}
	if a.Maj >= 0 && a.Maj < 4096 && a.Min >= 0 && a.Min < 1<<20 {
		if devMajor(f[3]) != uint64(a.Maj) || devMinor(f[3]) != uint64(a.Min) {
			bad("st_rdev %d decodes to %d,%d, expected %d,%d", f[3], devMajor(f[3]), devMinor(f[3]), a.Maj, a.Min)
		}
	}
	n := uint64(uint32(a.Nlink))
	if n == 0 {
		n = 1
	}
	if f[4] != n {
		bad("st_nlink %d, expected %d", f[4], n)
	}
	if f[5] != uint64(uint32(a.UID)) || f[6] != uint64(uint32(a.GID)) {
		bad("uid/gid %d/%d, expected %d/%d", f[5], f[6], a.UID, a.GID)
	}
	if f[7] != uint64(a.Mtime) {
		bad("mtime %d, expected %d", f[7], uint64(a.Mtime))
	}
	return
}
