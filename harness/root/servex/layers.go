// Several layers of identical shape and different contents resolved through ONE real layer.Resolver (directory chunk
// cache, in-memory registry): every layer must serve its own bytes whatever was read from the other layers before.
package servex

import (
	"bytes"
	"context"
	"crypto/sha256"
	"fmt"
	"io"
	"os"
	"path/filepath"
	"sort"
	"sync"
	"time"

	"github.com/containerd/containerd/v2/pkg/reference"
	"github.com/containerd/stargz-snapshotter/estargz"
	"github.com/containerd/stargz-snapshotter/fs/config"
	"github.com/containerd/stargz-snapshotter/fs/layer"
	"github.com/containerd/stargz-snapshotter/fs/remote"
	"github.com/containerd/stargz-snapshotter/metadata"
	"github.com/containerd/stargz-snapshotter/task"
	digest "github.com/opencontainers/go-digest"
	ocispec "github.com/opencontainers/image-spec/specs-go/v1"
	"verif/harness/hx"
)

// LRead is one read of a multi-layer case.
type LRead struct {
	Layer int   `json:"layer"`
	File  int   `json:"file"`
	Off   int64 `json:"off"`
	Len   int64 `json:"len"`
}

// multiRegistry serves several blobs, selected by the digest of the descriptor.
type multiRegistry struct {
	mu    sync.Mutex
	blobs map[digest.Digest][]byte
}

type blobFetcher struct{ b []byte }

func (g *multiRegistry) Handle(ctx context.Context, desc ocispec.Descriptor) (remote.Fetcher, int64, error) {
	g.mu.Lock()
	defer g.mu.Unlock()
	b, ok := g.blobs[desc.Digest]
	if !ok {
		return nil, 0, fmt.Errorf("unknown blob %v", desc.Digest)
	}
	return &blobFetcher{b}, int64(len(b)), nil
}

func (f *blobFetcher) Fetch(ctx context.Context, off int64, size int64) (io.ReadCloser, error) {
	if off < 0 || size < 0 || off+size > int64(len(f.b)) {
		return nil, fmt.Errorf("bad range")
	}
	return io.NopCloser(bytes.NewReader(f.b[off : off+size])), nil
}
func (f *blobFetcher) Check() error { return nil }
func (f *blobFetcher) GenID(off int64, size int64) string {
	return fmt.Sprintf("%x-%d-%d", sha256.Sum256(f.b[:min(len(f.b), 64)]), off, size)
}

type layersObs struct {
	failed   string
	names    []string // regular files (sorted), the same in every layer
	results  [][]byte // per read; nil = error
	errs     []bool
	problems []string
}

func execLayers(st Store, c Case, tmpRoot string) (obs layersObs) {
	root := filepath.Join(tmpRoot, "layers")
	os.RemoveAll(root)
	if err := os.MkdirAll(root, 0o755); err != nil {
		panic(err)
	}
	defer os.RemoveAll(root)
	reg := &multiRegistry{blobs: map[digest.Digest][]byte{}}
	var descs []ocispec.Descriptor
	var tocs []digest.Digest
	for _, tarEnts := range c.Layers {
		blob, err := buildBlob(Case{Tar: tarEnts, ChunkSize: c.ChunkSize, MinChunkSize: c.MinChunkSize, Workers: 1})
		if err != nil {
			obs.failed = "build: " + err.Error()
			return
		}
		sum := sha256.Sum256(blob)
		d := digest.NewDigestFromBytes(digest.SHA256, sum[:])
		reg.blobs[d] = blob
		descs = append(descs, ocispec.Descriptor{Digest: d, Size: int64(len(blob)), MediaType: ocispec.MediaTypeImageLayerGzip})
		er, err := estargz.Open(io.NewSectionReader(bytes.NewReader(blob), 0, int64(len(blob))))
		if err != nil {
			obs.failed = "open: " + err.Error()
			return
		}
		tocs = append(tocs, er.TOCDigest())
	}
	var closers []func()
	defer func() {
		for _, f := range closers {
			f()
		}
	}()
	nstore := 0
	var smu sync.Mutex
	store := func(sr *io.SectionReader, opts ...metadata.Option) (metadata.Reader, error) {
		smu.Lock()
		nstore++
		dir := filepath.Join(root, fmt.Sprintf("store%d", nstore))
		smu.Unlock()
		if err := os.MkdirAll(dir, 0o755); err != nil {
			return nil, err
		}
		r, done, err := st.Open(sr, dir, opts...)
		if err != nil {
			return nil, err
		}
		smu.Lock()
		closers = append(closers, done)
		smu.Unlock()
		return r, nil
	}
	tm := task.NewBackgroundTaskManager(2, 2*time.Millisecond)
	cfg := config.Config{
		HTTPCacheType: "memory",
		FSCacheType:   c.FSCache, // "" = directory cache
		BlobConfig:    config.BlobConfig{ChunkSize: 4096, ValidInterval: 3600, FetchTimeoutSec: 20},
		DirectoryCacheConfig: config.DirectoryCacheConfig{
			MaxLRUCacheEntry: 1, MaxCacheFds: 1, SyncAdd: true,
		},
	}
	resolver, err := layer.NewResolver(root, tm, cfg, map[string]remote.Handler{"mem": reg}, store, layer.OverlayOpaqueAll, nil)
	if err != nil {
		obs.failed = "NewResolver: " + err.Error()
		return
	}
	refspec, err := reference.Parse("registry.test/img:latest")
	if err != nil {
		panic(err)
	}
	type lay struct {
		l   layer.Layer
		ids map[string]uint32
	}
	var lays []lay
	for i, d := range descs {
		l, err := resolver.Resolve(context.Background(), nil, refspec, d)
		if err != nil {
			obs.failed = fmt.Sprintf("resolve layer %d: %v", i, err)
			return
		}
		defer l.Done()
		if c.SkipVerify {
			l.SkipVerify()
		} else if err := l.Verify(tocs[i]); err != nil {
			obs.failed = fmt.Sprintf("verify layer %d: %v", i, err)
			return
		}
		rd := layer.VerifLayerReaderC02(l)
		if rd == nil {
			obs.failed = "layer reader not reachable"
			return
		}
		ids := map[string]uint32{}
		var problems []string
		for _, n := range walk(rd.Metadata(), &problems) {
			if n.Attr.Mode.IsRegular() {
				ids[n.Path] = n.ID
			}
		}
		obs.problems = append(obs.problems, problems...)
		lays = append(lays, lay{l, ids})
	}
	for p := range lays[0].ids {
		obs.names = append(obs.names, p)
	}
	sort.Strings(obs.names)
	for _, rdop := range c.LReads {
		if len(obs.names) == 0 {
			break
		}
		li := rdop.Layer % len(lays)
		name := obs.names[rdop.File%len(obs.names)]
		var res []byte
		bad := false
		func() {
			defer func() {
				if r := recover(); r != nil {
					bad = true
				}
			}()
			rd := layer.VerifLayerReaderC02(lays[li].l)
			ra, err := rd.OpenFile(lays[li].ids[name])
			if err != nil {
				bad = true
				return
			}
			p := make([]byte, rdop.Len)
			n, err := ra.ReadAt(p, rdop.Off)
			if err != nil && err != io.EOF {
				bad = true
				return
			}
			res = append([]byte{}, p[:n]...)
		}()
		obs.results = append(obs.results, res)
		obs.errs = append(obs.errs, bad)
	}
	return
}

// contentOf returns the bytes the tar of one layer gives to a clean path.
func contentOf(tar []Ent, name string) []byte {
	want, ok := expectedView(tar)
	if !ok || want[name] == nil {
		return nil
	}
	return want[name].data
}

func emitLayers(ctx *hx.Ctx, st Store, c Case, tmpRoot string) {
	obs := execLayers(st, c, tmpRoot)
	ctx.Count("kind.layers")
	// Coq term: per layer the contents of the regular files (sorted by name), the reads and what they returned
	var ls []string
	for _, t := range c.Layers {
		var fs []string
		for _, n := range obs.names {
			fs = append(fs, hx.CoqBytes(contentOf(t, n)))
		}
		ls = append(ls, hx.CoqList(fs))
	}
	var rs []string
	for i, r := range c.LReads {
		if i >= len(obs.results) {
			break
		}
		out := "None"
		if !obs.errs[i] {
			out = "(Some " + hx.CoqBytes(obs.results[i]) + ")"
		}
		rs = append(rs, fmt.Sprintf("(%d%%nat, %d%%nat, %d%%Z, %d%%Z, %s)", r.Layer%max(len(c.Layers), 1), r.File%max(len(obs.names), 1), r.Off, r.Len, out))
	}
	term := fmt.Sprintf("CLayers %s %s", hx.CoqList(ls), hx.CoqList(rs))
	sum := sha256.Sum256([]byte(term))
	id := ctx.Case(term, c, fmt.Sprintf("%x", sum[:8]), obs.failed == "" && len(obs.results) >= 2)
	if obs.failed != "" {
		ctx.Violation(id, "multi-layer case could not be set up: "+obs.failed, nil)
		return
	}
	for _, p := range obs.problems {
		ctx.Violation(id, p, nil)
	}
	seen := map[string]bool{}
	for i, r := range c.LReads {
		if i >= len(obs.results) {
			break
		}
		li := r.Layer % len(c.Layers)
		name := obs.names[r.File%len(obs.names)]
		data := contentOf(c.Layers[li], name)
		lo, hi := min(r.Off, int64(len(data))), min(r.Off+r.Len, int64(len(data)))
		var what string
		switch {
		case obs.errs[i]:
			what = fmt.Sprintf("layer %d: ReadAt(%q, off=%d, len=%d) failed", li, name, r.Off, r.Len)
		case !bytes.Equal(obs.results[i], data[lo:hi]):
			what = fmt.Sprintf("layer %d: ReadAt(%q, off=%d, len=%d) returned bytes that are not this layer's", li, name, r.Off, r.Len)
			for lj := range c.Layers {
				if od := contentOf(c.Layers[lj], name); lj != li && int64(len(od)) >= hi && bytes.Equal(obs.results[i], od[lo:hi]) {
					what += fmt.Sprintf(" (they are layer %d's)", lj)
					break
				}
			}
		}
		if what != "" && !seen[what] {
			seen[what] = true
			ctx.Violation(id, what, nil)
		}
		ctx.Count("layers.read")
	}
}

// genLayers: 2-3 layers whose tars have the same names, sizes and chunking and different bytes.
func genLayers(r *hx.Rng) Case {
	c := Case{Kind: "layers", ChunkSize: []int{2, 4, 16, 100}[r.Intn(4)], SkipVerify: r.Chance(1, 3)}
	if r.Chance(1, 4) {
		c.MinChunkSize = 5000
	}
	if r.Chance(1, 5) {
		c.FSCache = "memory"
	}
	nf := r.Range(2, 4)
	size := c.ChunkSize*r.Range(1, 5) + r.Range(0, c.ChunkSize-1)
	nl := r.Range(2, 3)
	for l := 0; l < nl; l++ {
		var t []Ent
		for f := 0; f < nf; f++ {
			t = append(t, Ent{Name: fmt.Sprintf("f%d", f), Kind: "reg", Mode: 0o644, Mtime: 1, Data: r.Bytes(size)})
		}
		c.Layers = append(c.Layers, t)
	}
	for i := r.Range(6, 20); i > 0; i-- {
		c.LReads = append(c.LReads, LRead{Layer: r.Intn(nl), File: r.Intn(nf), Off: int64(r.Intn(size + 1)), Len: int64(r.Range(1, size+3))})
	}
	return c
}
