// Package snapx: shared machinery of the C08/C09 harnesses (cmd/snap, cmd/snapcrash).
// It drives the real snapshot.NewSnapshotter on a temporary root with a recording
// snapshot.FileSystem whose Mount/Check/Unmount results follow the script carried by each op,
// observes (result class, backend calls, directory removals, Walk, snapshots/ listing, mount table)
// and evaluates the model-free clauses of the properties. No real mount is ever made.
package snapx

import (
	"context"
	"fmt"
	"io"
	"os"
	"path/filepath"
	"sort"
	"strconv"
	"strings"
	"sync"
	"time"

	"github.com/containerd/containerd/v2/core/mount"
	"github.com/containerd/containerd/v2/core/snapshots"
	"github.com/containerd/errdefs"
	"github.com/containerd/log"
	"github.com/containerd/stargz-snapshotter/snapshot"
	"verif/harness/hx"
)

const (
	TargetLabel = "containerd.io/snapshot.ref"
	RemoteLabel = "containerd.io/snapshot/remote"
	UserLabel   = "containerd.io/snapshot/verif.user"
	// ExtLabel lies OUTSIDE the containerd.io/snapshot namespace (a label a backend may use to find the layer).
	ExtLabel = "example.com/verif.layer-source"
	// BadEmpty: the empty string, which cannot be a bolt bucket name. (BadLong, a 40000-byte name, is accepted by
	// bolt's CreateBucket and therefore not generated.)
	BadEmpty = 1000
	BadLong  = 1001
)

// Labels is the abstraction of a label map the model keeps.
type Labels struct {
	T int  `json:"t"` // target name, -1 = none
	R bool `json:"r,omitempty"`
	U int  `json:"u,omitempty"` // label inside the snapshot namespace: 0 absent, 1 = empty value, n >= 2 = value "n"
	E int  `json:"e,omitempty"` // label outside the snapshot namespace, same encoding
	// W is not a label: the snapshots.WithParent option passed next to WithLabels (0 = not passed, n+1 = name n).
	W int `json:"w,omitempty"`
}

var NoLabels = Labels{T: -1}

func init() { log.L.Logger.SetOutput(io.Discard) }

var longName = strings.Repeat("n", 40000)

func Name(n int) string {
	switch n {
	case BadEmpty:
		return ""
	case BadLong:
		return longName
	}
	return fmt.Sprintf("k%02d", n)
}

func ParseName(s string) (int, bool) {
	if s == "" {
		return BadEmpty, true
	}
	if len(s) > 1000 {
		return BadLong, true
	}
	if len(s) != 3 || s[0] != 'k' {
		return 0, false
	}
	n, err := strconv.Atoi(s[1:])
	return n, err == nil
}

func (l Labels) Map() map[string]string {
	m := map[string]string{}
	if l.T >= 0 {
		m[TargetLabel] = Name(l.T)
	}
	if l.R {
		m[RemoteLabel] = "remote snapshot"
	}
	val := func(n int) string {
		if n == 1 {
			return ""
		}
		return strconv.Itoa(n)
	}
	if l.U > 0 {
		m[UserLabel] = val(l.U)
	}
	if l.E > 0 {
		m[ExtLabel] = val(l.E)
	}
	return m
}

// Stored is what the metadata store keeps of a label map: empty-valued labels are dropped (boltutil.WriteLabels).
func (l Labels) Stored() Labels {
	l.W = 0
	if l.T == BadEmpty {
		l.T = -1
	}
	if l.U == 1 {
		l.U = 0
	}
	if l.E == 1 {
		l.E = 0
	}
	return l
}

func (l Labels) Opts() []snapshots.Opt {
	var opts []snapshots.Opt
	if m := l.Map(); len(m) > 0 {
		opts = append(opts, snapshots.WithLabels(m))
	}
	if l.W > 0 {
		opts = append(opts, snapshots.WithParent(Name(l.W-1)))
	}
	return opts
}

// AbsLabels abstracts an observed label map; ok=false when it holds anything the model has no place for.
func AbsLabels(m map[string]string) (Labels, bool) {
	l := Labels{T: -1}
	ok := true
	for k, v := range m {
		switch k {
		case TargetLabel:
			n, good := ParseName(v)
			if !good {
				ok = false
			}
			l.T = n
		case RemoteLabel:
			l.R = true
		case UserLabel, ExtLabel:
			n := 1
			if v != "" {
				var err error
				n, err = strconv.Atoi(v)
				if err != nil || n < 2 {
					ok = false
				}
			}
			if k == UserLabel {
				l.U = n
			} else {
				l.E = n
			}
		default:
			ok = false
		}
	}
	return l, ok
}

func (l Labels) Coq() string {
	t := "None"
	if l.T >= 0 {
		t = fmt.Sprintf("(Some %d)", l.T)
	}
	return fmt.Sprintf("(mkL %s %s %d %d %s)", t, hx.CoqBool(l.R), l.U, l.E, coqOptName(l.W-1))
}

// Op is one API call with its fault script.
type Op struct {
	Op     string `json:"op"` // prepare view commit mounts remove cleanup update stat close
	Key    int    `json:"key"`
	Parent int    `json:"parent"` // -1 = ""
	Name   int    `json:"name"`   // commit/update/stat: the name
	L      Labels `json:"l"`
	MOK    bool   `json:"mok,omitempty"`
	CBad   []int  `json:"cbad,omitempty"` // ids whose Check fails
	UBad   []int  `json:"ubad,omitempty"` // ids whose Unmount fails
}

func coqOptName(n int) string {
	if n < 0 {
		return "None"
	}
	return fmt.Sprintf("(Some %d)", n)
}

func (o Op) Coq() string {
	switch o.Op {
	case "prepare":
		return fmt.Sprintf("Prepare %d %s %s %s %s", o.Key, coqOptName(o.Parent), o.L.Coq(), hx.CoqBool(o.MOK), hx.CoqNatList(o.CBad))
	case "view":
		return fmt.Sprintf("View %d %s %s %s", o.Key, coqOptName(o.Parent), o.L.Coq(), hx.CoqNatList(o.CBad))
	case "commit":
		return fmt.Sprintf("Commit %d %d %s", o.Name, o.Key, o.L.Coq())
	case "mounts":
		return fmt.Sprintf("Mounts %d %s", o.Key, hx.CoqNatList(o.CBad))
	case "remove":
		return fmt.Sprintf("Remove %d %s", o.Key, hx.CoqNatList(o.UBad))
	case "cleanup":
		return fmt.Sprintf("Cleanup %s", hx.CoqNatList(o.UBad))
	case "update":
		return fmt.Sprintf("Update %d %s", o.Name, o.L.Coq())
	case "stat":
		return fmt.Sprintf("Stat %d", o.Name)
	case "close":
		return fmt.Sprintf("Close %s", hx.CoqNatList(o.UBad))
	}
	panic("bad op " + o.Op)
}

// Dirent: Id >= 0 is snapshots/<id>; Id < 0 is a new-* temp directory.
type Dirent struct {
	Id int `json:"id"`
}

func (d Dirent) Coq() string {
	if d.Id < 0 {
		return "(DTemp 0)"
	}
	return fmt.Sprintf("(DId %d)", d.Id)
}

// Event is one observed backend call or directory removal.
type Event struct {
	Ev   string `json:"ev"` // mount check unmount rmdir
	D    Dirent `json:"d"`
	L    Labels `json:"l"`
	Live bool   `json:"live,omitempty"`
	OK   bool   `json:"ok,omitempty"`
	Call int    `json:"call,omitempty"` // concurrent harness: id of the API call that made the backend call (0 = none)
}

// CallCtx travels in the context of one API call of the concurrent harness (cmd/snapconc): identity of the
// call and its private fault script.
type CallCtx struct {
	ID   int
	MOK  bool
	CBad map[int]bool
	UBad map[int]bool
}

type callKey struct{}

// WithCall attaches a CallCtx to ctx.
func WithCall(ctx context.Context, c *CallCtx) context.Context {
	return context.WithValue(ctx, callKey{}, c)
}

func callOf(ctx context.Context) *CallCtx {
	c, _ := ctx.Value(callKey{}).(*CallCtx)
	return c
}

func (e Event) Coq() string {
	switch e.Ev {
	case "mount":
		return fmt.Sprintf("EvMount %d %s %s", e.D.Id, e.L.Coq(), hx.CoqBool(e.OK))
	case "check":
		return fmt.Sprintf("EvCheck %d %s", e.D.Id, hx.CoqBool(e.OK))
	case "unmount":
		return fmt.Sprintf("EvUnmount %s %s %s", e.D.Coq(), hx.CoqBool(e.Live), hx.CoqBool(e.OK))
	case "rmdir":
		return fmt.Sprintf("EvRmDir %s", e.D.Coq())
	}
	panic("bad event")
}

// Res is the canonical result of an op.
type Res struct {
	Class  string `json:"class"` // ok exists notfound invalid unavail failedpre other mounts info
	Bind   bool   `json:"bind,omitempty"`
	ID     int    `json:"id,omitempty"`
	RO     bool   `json:"ro,omitempty"`
	Upper  int    `json:"upper,omitempty"` // -1 none
	Lower  []int  `json:"lower,omitempty"`
	Kind   int    `json:"kind,omitempty"`
	Parent int    `json:"parent,omitempty"`
	L      Labels `json:"l"`
}

func (r Res) Coq() string {
	switch r.Class {
	case "ok":
		return "ROk"
	case "exists":
		return "RErr EExists"
	case "notfound":
		return "RErr ENotFound"
	case "invalid":
		return "RErr EInvalid"
	case "unavail":
		return "RErr EUnavail"
	case "failedpre":
		return "RErr EFailedPre"
	case "other":
		return "RErr EOther"
	case "mounts":
		if r.Bind {
			return fmt.Sprintf("RMounts (MBind %d %s)", r.ID, hx.CoqBool(r.RO))
		}
		return fmt.Sprintf("RMounts (MOverlay %s %s)", coqOptName(r.Upper), hx.CoqNatList(r.Lower))
	case "info":
		return fmt.Sprintf("RInfo %s %s %s", coqKind(r.Kind), coqOptName(r.Parent), r.L.Coq())
	}
	panic("bad res " + r.Class)
}

func coqKind(k int) string { return [...]string{"KView", "KActive", "KCommitted"}[k] }

func kindN(k snapshots.Kind) int {
	switch k {
	case snapshots.KindView:
		return 0
	case snapshots.KindActive:
		return 1
	case snapshots.KindCommitted:
		return 2
	}
	return -1
}

type WalkEnt struct {
	Name   int    `json:"name"`
	Kind   int    `json:"kind"`
	Parent int    `json:"parent"`
	L      Labels `json:"l"`
}

type MountEnt struct {
	ID int    `json:"id"`
	L  Labels `json:"l"`
}

// View is the observable state after an op.
type View struct {
	Walk   []WalkEnt  `json:"walk"`
	Dirs   []int      `json:"dirs"`
	Temps  int        `json:"temps"`
	Mounts []MountEnt `json:"mounts"`
}

func (v View) Coq() string {
	w := make([]string, len(v.Walk))
	for i, e := range v.Walk {
		w[i] = fmt.Sprintf("(%d, (%d, %s, %s))", e.Name, e.Kind, coqOptName(e.Parent), e.L.Coq())
	}
	m := make([]string, len(v.Mounts))
	for i, e := range v.Mounts {
		m[i] = fmt.Sprintf("(%d, %s)", e.ID, e.L.Coq())
	}
	return fmt.Sprintf("(mkView %s %s %d %s)", hx.CoqList(w), hx.CoqNatList(v.Dirs), v.Temps, hx.CoqList(m))
}

type Out struct {
	R  Res     `json:"r"`
	Ev []Event `json:"ev"`
	V  View    `json:"v"`
}

func (o Out) Coq() string {
	ev := make([]string, len(o.Ev))
	for i, e := range o.Ev {
		ev[i] = e.Coq()
	}
	return fmt.Sprintf("(%s, %s, %s)", o.R.Coq(), hx.CoqList(ev), o.V.Coq())
}

// ---------------------------------------------------------------------------------------------
// recording FileSystem

type RecFS struct {
	mu       sync.Mutex
	root     string
	Table    map[string]map[string]string
	Events   []Event
	mok      bool
	mokFn    func(id int) bool // restore-time script: per-id Mount result
	cbad     map[int]bool
	ubad     map[int]bool
	Problems []string
	// OnLiveUnmount is called (with the lock released) when Unmount hits a registered mountpoint.
	OnLiveUnmount func(id int)
	failedUnmount map[string]bool // mountpoints whose live Unmount was scripted to fail
	// expect/arrived: the Check calls of one API call are made concurrently by the snapshotter; each Check waits
	// (bounded) until [expect] of them have arrived, so that all of them are in flight at the same time
	expect, arrived int
	// Created: labels of the last successful Mount per id (what the backend saw when the remote snapshot was created)
	Created map[int]Labels
	// OnLiveUnmountCall: same, with the id of the API call (concurrent harness).
	OnLiveUnmountCall func(call, id int)
}

func NewRecFS(root string) *RecFS {
	return &RecFS{root: root, Table: map[string]map[string]string{}, mok: true}
}

func (f *RecFS) Script(mok bool, cbad, ubad []int) {
	f.mu.Lock()
	defer f.mu.Unlock()
	f.mok = mok
	f.cbad = map[int]bool{}
	f.ubad = map[int]bool{}
	for _, x := range cbad {
		f.cbad[x] = true
	}
	for _, x := range ubad {
		f.ubad[x] = true
	}
}

func (f *RecFS) problem(format string, a ...any) {
	f.Problems = append(f.Problems, fmt.Sprintf(format, a...))
}

// dirent of a mountpoint <root>/snapshots/<x>/fs
func (f *RecFS) dirent(mp string) Dirent {
	rel, err := filepath.Rel(filepath.Join(f.root, "snapshots"), mp)
	if err != nil {
		f.problem("backend called with mountpoint %q outside snapshots/", mp)
		return Dirent{-1}
	}
	parts := strings.Split(rel, string(filepath.Separator))
	if len(parts) != 2 || parts[1] != "fs" {
		f.problem("backend called with mountpoint %q that is not <dir>/fs", mp)
		return Dirent{-1}
	}
	if strings.HasPrefix(parts[0], "new-") {
		return Dirent{-1}
	}
	id, err := strconv.Atoi(parts[0])
	if err != nil || id < 0 {
		f.problem("backend called with mountpoint %q: directory is neither an id nor new-*", mp)
		return Dirent{-1}
	}
	return Dirent{id}
}

func (f *RecFS) Mount(ctx context.Context, mountpoint string, labels map[string]string) error {
	f.mu.Lock()
	defer f.mu.Unlock()
	d := f.dirent(mountpoint)
	l, ok := AbsLabels(labels)
	if !ok {
		f.problem("Mount(%s) with unexpected labels %v", mountpoint, labels)
	}
	cc := callOf(ctx)
	mok := f.mok
	if f.mokFn != nil {
		mok = f.mokFn(d.Id)
	}
	call := 0
	if cc != nil {
		mok, call = cc.MOK, cc.ID
	}
	if st, err := os.Stat(mountpoint); err != nil || !st.IsDir() {
		if cc == nil {
			f.problem("Mount(%s): mountpoint directory does not exist", mountpoint)
		}
		mok = false // a FUSE mount on a directory that is gone fails
	}
	f.Events = append(f.Events, Event{Ev: "mount", D: d, L: l, OK: mok, Call: call})
	if !mok {
		return fmt.Errorf("scripted mount failure")
	}
	if _, dup := f.Table[mountpoint]; dup && cc == nil {
		f.problem("Mount(%s): mountpoint already has a live backend mount", mountpoint)
	}
	cp := map[string]string{}
	for k, v := range labels {
		cp[k] = v
	}
	f.Table[mountpoint] = cp
	if f.Created == nil {
		f.Created = map[int]Labels{}
	}
	f.Created[d.Id] = l
	return nil
}

// SetExpect tells the backend how many concurrent Check calls the next API call should make.
func (f *RecFS) SetExpect(n int) {
	f.mu.Lock()
	f.expect, f.arrived = n, 0
	f.mu.Unlock()
}

func (f *RecFS) Check(ctx context.Context, mountpoint string, labels map[string]string) error {
	f.mu.Lock()
	f.arrived++
	if f.expect > 1 {
		deadline := time.Now().Add(40 * time.Millisecond)
		for f.arrived < f.expect && time.Now().Before(deadline) {
			f.mu.Unlock()
			time.Sleep(100 * time.Microsecond)
			f.mu.Lock()
		}
	}
	defer f.mu.Unlock()
	d := f.dirent(mountpoint)
	_, live := f.Table[mountpoint]
	bad, call := f.cbad[d.Id], 0
	if cc := callOf(ctx); cc != nil {
		bad, call = cc.CBad[d.Id], cc.ID
	}
	ok := live && !bad
	f.Events = append(f.Events, Event{Ev: "check", D: d, OK: ok, Call: call})
	if !ok {
		return fmt.Errorf("scripted check failure")
	}
	return nil
}

func (f *RecFS) Unmount(ctx context.Context, mountpoint string) error {
	f.mu.Lock()
	d := f.dirent(mountpoint)
	_, live := f.Table[mountpoint]
	bad, call := f.ubad[d.Id], 0
	if cc := callOf(ctx); cc != nil {
		bad, call = cc.UBad[d.Id], cc.ID
	}
	if !live {
		f.Events = append(f.Events, Event{Ev: "unmount", D: d, Call: call})
		f.mu.Unlock()
		return fmt.Errorf("not a mountpoint")
	}
	ok := !bad
	f.Events = append(f.Events, Event{Ev: "unmount", D: d, Live: true, OK: ok, Call: call})
	if _, err := os.Stat(mountpoint); err != nil && !f.failedUnmount[mountpoint] {
		// (after a scripted Unmount failure the snapshotter deletes the directory anyway and the registration
		// stays: a later Unmount of that left-over registration is not a new fault)
		f.problem("Unmount(%s) of a live mount after its directory was deleted", mountpoint)
	}
	if ok {
		delete(f.Table, mountpoint)
	} else {
		if f.failedUnmount == nil {
			f.failedUnmount = map[string]bool{}
		}
		f.failedUnmount[mountpoint] = true
	}
	cb, cb2 := f.OnLiveUnmount, f.OnLiveUnmountCall
	f.mu.Unlock()
	if cb != nil {
		cb(d.Id)
	}
	if cb2 != nil {
		cb2(call, d.Id)
	}
	if !ok {
		return fmt.Errorf("scripted unmount failure")
	}
	return nil
}

func (f *RecFS) MountView() []MountEnt {
	f.mu.Lock()
	defer f.mu.Unlock()
	var out []MountEnt
	for mp, labels := range f.Table {
		d := f.dirent(mp)
		l, ok := AbsLabels(labels)
		if !ok {
			f.problem("mount table holds unexpected labels %v", labels)
		}
		out = append(out, MountEnt{ID: d.Id, L: l})
	}
	sort.Slice(out, func(i, j int) bool { return out[i].ID < out[j].ID })
	return out
}

// ---------------------------------------------------------------------------------------------
// machine

func ErrClass(err error) string {
	switch {
	case err == nil:
		return "ok"
	case errdefs.IsAlreadyExists(err):
		return "exists"
	case errdefs.IsNotFound(err):
		return "notfound"
	case errdefs.IsInvalidArgument(err):
		return "invalid"
	case errdefs.IsUnavailable(err):
		return "unavail"
	case errdefs.IsFailedPrecondition(err):
		return "failedpre"
	}
	return "other"
}

// Problem is an oracle failure; Sig != "" marks a known-finding class.
type Problem struct {
	Sig  string
	What string
}

type Machine struct {
	Root   string
	FS     *RecFS
	SN     snapshots.Snapshotter
	Async  bool
	Closed bool
	// Relaxed: the root is a crash image: left-over temp/orphan directories and the failures they cause
	// (rename onto an orphan directory) are expected until the first Cleanup.
	Relaxed bool
	// ConcurrentCleanup: set by cmd/snapcrash while a Cleanup runs in another goroutine next to the observed call.
	ConcurrentCleanup bool
	// UpdatedIDs: ids of snapshots whose labels were replaced by Update (their stored labels legitimately differ
	// from the labels they were created with); UpdatedUnknown: an Update hit a snapshot whose id is unknown.
	UpdatedIDs     map[int]bool
	UpdatedUnknown bool
	// CrashImage: the snapshotter was started on a crash image. The harness knows the ids of the snapshots it saw
	// being created before the crash, but not of those the interrupted call was about; for those the clauses that
	// need an id cannot be evaluated until the id shows up in a returned mount (never the case on a fresh root).
	CrashImage bool
	// NoRestore: started with snapshot.NoRestore on an existing root: remote snapshots are neither re-mounted
	// nor are their directories (removed by Close) recreated.
	NoRestore bool
	// NoRestoreGone: names of the snapshots that carried the remote label when the snapshotter was started with
	// NoRestore: Close (also an interrupted one) removed their directories on purpose and NoRestore does not bring
	// them back, whatever happens to their labels later (Update). A name leaves the set when it is removed.
	NoRestoreGone map[int]bool
	Problems      []Problem
	// harness-side bookkeeping, learnt from observations only (never from the model)
	idOf      map[int]int // live snapshot name -> id (from the directory that appeared when it was created)
	curOp     *Op
	hook      func(point string, m *Machine)
	ctx       context.Context
	preIDs    map[int]bool // ids of live snapshots before the current op
	leakedIDs map[int]bool // ids whose live Unmount was scripted to fail
}

// TempRoot makes a scratch root directory (tmpfs when available: bolt fsync dominates otherwise).
func TempRoot() string {
	base := os.TempDir()
	if st, err := os.Stat("/dev/shm"); err == nil && st.IsDir() {
		base = "/dev/shm"
	}
	d, err := os.MkdirTemp(base, "verif-snap-")
	if err != nil {
		panic(err)
	}
	return d
}

// Open starts a snapshotter on root (fresh or a crash image). Returns the construction error, if any.
func Open(root string, async, noRestore, allowInvalid bool, mok func(id int) bool) (*Machine, error) {
	m := &Machine{Root: root, Async: async, idOf: map[int]int{}, ctx: context.Background()}
	m.FS = NewRecFS(root)
	var opts []snapshot.Opt
	if async {
		opts = append(opts, snapshot.AsynchronousRemove)
	}
	if noRestore {
		opts = append(opts, snapshot.NoRestore)
	}
	if allowInvalid {
		opts = append(opts, snapshot.AllowInvalidMountsOnRestart)
	}
	if mok != nil {
		m.FS.mokFn = mok
	}
	sn, err := snapshot.NewSnapshotter(m.ctx, root, m.FS, opts...)
	m.FS.mokFn = nil
	if err != nil {
		return m, err
	}
	m.SN = sn
	return m, nil
}

func (m *Machine) problem(sig, format string, a ...any) {
	m.Problems = append(m.Problems, Problem{Sig: sig, What: fmt.Sprintf(format, a...)})
}

func (m *Machine) walk() ([]WalkEnt, map[int]WalkEnt) {
	var out []WalkEnt
	idx := map[int]WalkEnt{}
	if m.SN == nil || m.Closed {
		return out, idx
	}
	err := m.SN.Walk(m.ctx, func(_ context.Context, info snapshots.Info) error {
		n, ok := ParseName(info.Name)
		if !ok {
			m.problem("", "Walk returned unknown name %q", info.Name)
			return nil
		}
		p := -1
		if info.Parent != "" {
			p, ok = ParseName(info.Parent)
			if !ok {
				m.problem("", "Walk returned unknown parent %q", info.Parent)
			}
		}
		l, ok := AbsLabels(info.Labels)
		if !ok {
			m.problem("", "snapshot %s carries unexpected labels %v", info.Name, info.Labels)
		}
		e := WalkEnt{Name: n, Kind: kindN(info.Kind), Parent: p, L: l}
		out = append(out, e)
		idx[n] = e
		return nil
	})
	if err != nil && !errdefs.IsNotFound(err) {
		m.problem("", "Walk failed: %v", err)
	}
	sort.Slice(out, func(i, j int) bool { return out[i].Name < out[j].Name })
	return out, idx
}

// ListDirs lists snapshots/: ids (ascending) and number of new-* entries.
func ListDirs(root string) ([]int, int, []string) {
	ents, err := os.ReadDir(filepath.Join(root, "snapshots"))
	if err != nil {
		return nil, 0, []string{"cannot list snapshots/: " + err.Error()}
	}
	var ids []int
	temps := 0
	var bad []string
	for _, e := range ents {
		if strings.HasPrefix(e.Name(), "new-") {
			temps++
			continue
		}
		id, err := strconv.Atoi(e.Name())
		if err != nil {
			bad = append(bad, "unexpected entry in snapshots/: "+e.Name())
			continue
		}
		ids = append(ids, id)
	}
	sort.Ints(ids)
	return ids, temps, bad
}

func (m *Machine) View() View {
	w, _ := m.walk()
	ids, temps, bad := ListDirs(m.Root)
	for _, b := range bad {
		m.problem("", "%s", b)
	}
	if w == nil {
		w = []WalkEnt{}
	}
	if ids == nil {
		ids = []int{}
	}
	mv := m.FS.MountView()
	if mv == nil {
		mv = []MountEnt{}
	}
	return View{Walk: w, Dirs: ids, Temps: temps, Mounts: mv}
}

func (m *Machine) parseMounts(ms []mount.Mount) Res {
	r := Res{Class: "mounts", Upper: -1, Parent: -1, L: NoLabels}
	if len(ms) != 1 {
		m.problem("", "expected exactly one mount, got %d", len(ms))
		return r
	}
	mt := ms[0]
	idOfPath := func(p, leaf string) int {
		rel, err := filepath.Rel(filepath.Join(m.Root, "snapshots"), p)
		if err != nil {
			m.problem("", "mount path %q outside snapshots/", p)
			return -1
		}
		parts := strings.Split(rel, string(filepath.Separator))
		if len(parts) != 2 || parts[1] != leaf {
			m.problem("", "mount path %q is not <id>/%s", p, leaf)
			return -1
		}
		id, err := strconv.Atoi(parts[0])
		if err != nil {
			m.problem("", "mount path %q: not an id", p)
			return -1
		}
		return id
	}
	switch mt.Type {
	case "bind":
		r.Bind = true
		r.ID = idOfPath(mt.Source, "fs")
		if len(mt.Options) != 2 || mt.Options[1] != "rbind" || (mt.Options[0] != "ro" && mt.Options[0] != "rw") {
			m.problem("", "unexpected bind options %v", mt.Options)
		} else {
			r.RO = mt.Options[0] == "ro"
		}
	case "overlay":
		work := -1
		for _, o := range mt.Options {
			switch {
			case strings.HasPrefix(o, "workdir="):
				work = idOfPath(strings.TrimPrefix(o, "workdir="), "work")
			case strings.HasPrefix(o, "upperdir="):
				r.Upper = idOfPath(strings.TrimPrefix(o, "upperdir="), "fs")
			case strings.HasPrefix(o, "lowerdir="):
				for _, p := range strings.Split(strings.TrimPrefix(o, "lowerdir="), ":") {
					r.Lower = append(r.Lower, idOfPath(p, "fs"))
				}
			case o == "userxattr":
			default:
				m.problem("", "unexpected overlay option %q", o)
			}
		}
		if work != r.Upper {
			m.problem("", "overlay workdir id %d differs from upperdir id %d", work, r.Upper)
		}
	default:
		m.problem("", "unexpected mount type %q", mt.Type)
	}
	return r
}

// SetHook installs a crash-point callback (cmd/snapcrash).
func (m *Machine) SetHook(h func(point string, m *Machine)) { m.hook = h }

// Do executes one op on the implementation, returns its canonical output and evaluates the oracle.
func (m *Machine) Do(o Op) Out {
	m.curOp = &o
	m.FS.Script(o.MOK, o.CBad, o.UBad)
	m.FS.mu.Lock()
	m.FS.Events = nil
	m.FS.mu.Unlock()

	// ---- observations before the op (model-free oracle inputs) ----
	_, before := m.walk()
	dirsBefore, _, _ := ListDirs(m.Root)
	m.preIDs = map[int]bool{}
	for n := range before {
		if id, ok := m.idOf[n]; ok {
			m.preIDs[id] = true
		}
	}
	// number of remote layers on the chain this call has to check (all of them are checked concurrently)
	{
		start, n := -1, 0
		switch o.Op {
		case "prepare", "view":
			start = o.Parent
		case "mounts":
			start = o.Key
		}
		for k, fuel := start, 200; k >= 0 && fuel > 0; fuel-- {
			e, ok := before[k]
			if !ok {
				break
			}
			if e.L.R {
				n++
			}
			k = e.Parent
		}
		m.FS.SetExpect(n)
	}
	removedNow := -1 // id whose metadata this op removes (set below for remove)
	if o.Op == "remove" {
		if id, ok := m.idOf[o.Key]; ok {
			removedNow = id
		}
	}
	m.FS.OnLiveUnmount = func(id int) {
		// clause: a backend mount is unmounted only after its snapshot was removed, or on Close
		if o.Op == "close" {
			return
		}
		if m.preIDs[id] && id != removedNow {
			m.problem("", "live backend mount of snapshot id %d unmounted by %s while the snapshot is still in metadata", id, o.Op)
		}
	}
	// directory-removal observation through the crash-point markers
	snapshot.VerifOnCrashPoint(func(point string) {
		switch point {
		case "cleanupdir.unmounted", "cleanupdir.removed":
			m.FS.mu.Lock()
			var last *Event
			for i := len(m.FS.Events) - 1; i >= 0; i-- {
				if m.FS.Events[i].Ev == "unmount" || m.FS.Events[i].Ev == "rmdir" {
					last = &m.FS.Events[i]
					break
				}
			}
			if m.ConcurrentCleanup && (last == nil || last.Ev != "unmount") {
				// events of two goroutines are interleaved in one list: adjacency cannot be attributed
			} else if last == nil || last.Ev != "unmount" {
				m.FS.problem("directory removal without a preceding backend Unmount call")
			} else if point == "cleanupdir.removed" {
				m.FS.Events = append(m.FS.Events, Event{Ev: "rmdir", D: last.D})
			}
			m.FS.mu.Unlock()
		}
		if m.hook != nil {
			m.hook(point, m)
		}
	})
	defer snapshot.VerifOnCrashPoint(nil)

	var res Res
	var err error
	switch o.Op {
	case "prepare":
		var ms []mount.Mount
		ms, err = m.SN.Prepare(m.ctx, Name(o.Key), parentName(o.Parent), o.L.Opts()...)
		if err == nil {
			res = m.parseMounts(ms)
		}
	case "view":
		var ms []mount.Mount
		ms, err = m.SN.View(m.ctx, Name(o.Key), parentName(o.Parent), o.L.Opts()...)
		if err == nil {
			res = m.parseMounts(ms)
		}
	case "commit":
		err = m.SN.Commit(m.ctx, Name(o.Name), Name(o.Key), o.L.Opts()...)
	case "mounts":
		var ms []mount.Mount
		ms, err = m.SN.Mounts(m.ctx, Name(o.Key))
		if err == nil {
			res = m.parseMounts(ms)
		}
	case "remove":
		err = m.SN.Remove(m.ctx, Name(o.Key))
	case "cleanup":
		c, ok := m.SN.(snapshots.Cleaner)
		if !ok {
			panic("snapshotter is not a Cleaner")
		}
		err = c.Cleanup(m.ctx)
	case "update":
		var info snapshots.Info
		info, err = m.SN.Update(m.ctx, snapshots.Info{Name: Name(o.Name), Labels: o.L.Map()})
		if err == nil {
			res = m.infoRes(info)
		}
	case "stat":
		var info snapshots.Info
		info, err = m.SN.Stat(m.ctx, Name(o.Name))
		if err == nil {
			res = m.infoRes(info)
		}
	case "close":
		err = m.SN.Close()
		m.Closed = true
	default:
		panic("bad op " + o.Op)
	}
	if err != nil || res.Class == "" {
		res = Res{Class: ErrClass(err), Upper: -1, Parent: -1, L: NoLabels}
	}
	m.FS.OnLiveUnmount = nil

	m.FS.mu.Lock()
	evs := append([]Event{}, m.FS.Events...)
	for _, p := range m.FS.Problems {
		m.Problems = append(m.Problems, Problem{What: p})
	}
	m.FS.Problems = nil
	m.FS.mu.Unlock()

	v := m.View()
	m.oracle(o, res, evs, before, dirsBefore, v)
	return Out{R: res, Ev: evs, V: v}
}

func parentName(p int) string {
	if p < 0 {
		return ""
	}
	return Name(p)
}

func (m *Machine) infoRes(info snapshots.Info) Res {
	p := -1
	if info.Parent != "" {
		p, _ = ParseName(info.Parent)
	}
	l, ok := AbsLabels(info.Labels)
	if !ok {
		m.problem("", "info of %s carries unexpected labels %v", info.Name, info.Labels)
	}
	return Res{Class: "info", Kind: kindN(info.Kind), Parent: p, L: l, Upper: -1}
}

func contains(xs []int, x int) bool {
	for _, y := range xs {
		if x == y {
			return true
		}
	}
	return false
}

// SigTargetUncommitted: known-finding class (see KNOWN_FINDINGS.json, C08).
const SigTargetUncommitted = "C08-target-names-uncommitted-snapshot"

// oracle: the clauses of C08 evaluated on the observations of this op, independent of the Coq model.
func (m *Machine) oracle(o Op, res Res, evs []Event, before map[int]WalkEnt, dirsBefore []int, v View) {
	after := map[int]WalkEnt{}
	for _, e := range v.Walk {
		after[e.Name] = e
	}
	// --- bookkeeping name -> id from the directory that appeared / metadata renames ---
	var newDirs []int
	for _, d := range v.Dirs {
		if !contains(dirsBefore, d) {
			newDirs = append(newDirs, d)
		}
	}
	switch o.Op {
	case "prepare", "view":
		_, existed := before[o.Key]
		if !existed {
			if _, now := after[o.Key]; now {
				if len(newDirs) == 1 {
					m.idOf[o.Key] = newDirs[0]
				} else if !m.Relaxed {
					m.problem("", "%s created %s but %d new directories appeared", o.Op, Name(o.Key), len(newDirs))
				}
			} else if o.Op == "prepare" && o.L.T >= 0 {
				// committed as the target by this call?
				if _, tb := before[o.L.T]; !tb {
					if _, ta := after[o.L.T]; ta && len(newDirs) == 1 {
						m.idOf[o.L.T] = newDirs[0]
					}
				}
			}
		}
	case "commit":
		if res.Class == "ok" {
			if id, ok := m.idOf[o.Key]; ok {
				delete(m.idOf, o.Key)
				m.idOf[o.Name] = id
				// an explicit Commit replaces the labels (storage.CommitActive: "do not inherit"): from here on the
				// stored labels legitimately differ from those a backend Mount of this id saw at creation
				if m.UpdatedIDs == nil {
					m.UpdatedIDs = map[int]bool{}
				}
				m.UpdatedIDs[id] = true
			} else {
				m.UpdatedUnknown = true
			}
		}
	case "remove":
		if res.Class == "ok" {
			delete(m.idOf, o.Key)
		}
	}
	if m.CrashImage && res.Class == "mounts" && (o.Op == "mounts" || o.Op == "prepare") {
		// a writable mount names the snapshot's own directory: learn the id of a snapshot the crashed call created
		if _, ok := m.idOf[o.Key]; !ok {
			if e, live := after[o.Key]; live && e.Kind == 1 {
				if !res.Bind && res.Upper >= 0 {
					m.idOf[o.Key] = res.Upper
				} else if res.Bind && !res.RO {
					m.idOf[o.Key] = res.ID
				}
			}
		}
	}
	if o.Op != "prepare" && o.Op != "view" && len(newDirs) > 0 {
		m.problem("", "%s made new directories %v", o.Op, newDirs)
	}
	if m.Closed {
		return
	}
	// a name that cannot be a bucket name ("" / oversized) makes the commit fail with whatever error bolt has for it
	badName := (o.Op == "prepare" && o.L.T >= BadEmpty) || (o.Op == "commit" && o.Name >= BadEmpty)
	// with NoRestore, calls that need the directory of such a snapshot fail on the missing directory (Commit measures
	// disk usage first, Prepare/View stat the parent's directory): prescribed by NoRestore, not a fault
	goneDir := m.NoRestore && ((o.Op == "commit" && m.NoRestoreGone[o.Key]) || ((o.Op == "prepare" || o.Op == "view") && o.Parent >= 0 && m.NoRestoreGone[o.Parent]))
	if o.Op == "remove" && res.Class == "ok" {
		delete(m.NoRestoreGone, o.Key)
	}
	if res.Class == "other" && !m.Relaxed && !badName && !goneDir {
		m.problem("", "%s failed with an unclassified error while the snapshotter is open", o.Op)
	}
	if o.Op == "update" && res.Class == "info" {
		if id, ok := m.idOf[o.Name]; ok {
			if m.UpdatedIDs == nil {
				m.UpdatedIDs = map[int]bool{}
			}
			m.UpdatedIDs[id] = true
		} else {
			m.UpdatedUnknown = true
		}
	}
	// stored labels: what Stat/Walk show is what the caller passed minus empty-valued labels
	if (o.Op == "prepare" || o.Op == "view") && (res.Class == "mounts" || res.Class == "unavail") {
		if _, existed := before[o.Key]; !existed {
			if e, ok := after[o.Key]; ok && e.L != o.L.Stored() {
				m.problem("", "%s(%s): labels in metadata %+v differ from the labels passed %+v", o.Op, Name(o.Key), e.L, o.L.Stored())
			}
		}
	}

	// --- clause 1: Prepare naming a target ---
	if o.Op == "prepare" && o.L.T >= 0 {
		_, keyExisted := before[o.Key]
		mountedOK := -1
		for _, e := range evs {
			if e.Ev == "mount" && e.OK {
				mountedOK = e.D.Id
			}
		}
		switch {
		case mountedOK >= 0 && res.Class != "exists":
			// the backend Mount succeeded but the call neither reported the target nor... : only an error is
			// acceptable (no fallback after a successful Mount), and the key must stay behind as an active,
			// not-remote snapshot that still carries the mount (the caller must not use the key again)
			if res.Class == "ok" || res.Class == "mounts" || res.Class == "info" {
				m.problem("", "Prepare(%s, target %q): backend Mount succeeded, internal commit failed, but the call returned success (%s) instead of an error", Name(o.Key), Name(o.L.T), res.Class)
			}
			ka, ok := after[o.Key]
			if !ok || ka.Kind != 1 || (ka.L.R && !o.L.R) {
				m.problem("", "Prepare(%s): after a failed internal commit the key is not an active, not-remote snapshot", Name(o.Key))
			}
			n := 0
			for _, me := range v.Mounts {
				if me.ID == mountedOK {
					n++
				}
			}
			if n != 1 {
				m.problem("", "Prepare(%s): after a failed internal commit the backend mount of the key is gone", Name(o.Key))
			}
		case res.Class == "exists" && !keyExisted:
			// the AlreadyExists is about the target
			tb, targetExisted := before[o.L.T]
			ta, targetNow := after[o.L.T]
			switch {
			case !targetNow:
				m.problem("", "Prepare reported target %s exists but it does not", Name(o.L.T))
			case ta.Kind != 2:
				if (targetExisted && tb.Kind != 2) || o.L.T == o.Key {
					m.problem(SigTargetUncommitted, "Prepare(%s, target %s) reported AlreadyExists but the target names a snapshot that is not committed (kind %d)", Name(o.Key), Name(o.L.T), ta.Kind)
				} else {
					m.problem("", "Prepare reported target %s exists but it is not committed", Name(o.L.T))
				}
			case !targetExisted:
				// this call created it
				id, ok := m.idOf[o.L.T]
				if !ta.L.R {
					m.problem("", "target %s committed by Prepare is not marked remote", Name(o.L.T))
				}
				want := o.L.Stored()
				want.R = true
				if ta.L != want {
					m.problem("", "target %s committed by Prepare carries labels %+v, the caller passed %+v (+ remote mark)", Name(o.L.T), ta.L, o.L.Stored())
				}
				n := 0
				for _, me := range v.Mounts {
					if ok && me.ID == id {
						n++
					}
				}
				if !ok || n != 1 {
					m.problem("", "target %s committed by Prepare has %d live backend mounts on its directory (want 1)", Name(o.L.T), n)
				}
				if ok && !contains(v.Dirs, id) {
					m.problem("", "target %s committed by Prepare has no directory", Name(o.L.T))
				}
			}
		case res.Class == "mounts":
			ka, ok := after[o.Key]
			if !ok || ka.Kind != 1 {
				m.problem("", "Prepare fell back but %s is not an active snapshot", Name(o.Key))
			} else {
				if ka.L.R && !o.L.R {
					m.problem("", "fallback snapshot %s is marked remote", Name(o.Key))
				}
				id, have := m.idOf[o.Key]
				writable := (res.Bind && !res.RO && have && res.ID == id) || (!res.Bind && have && res.Upper == id)
				if !writable {
					m.problem("", "fallback of Prepare(%s) did not return a writable mount of its own directory", Name(o.Key))
				}
				for _, me := range v.Mounts {
					if have && me.ID == id {
						m.problem("", "fallback snapshot %s has a live backend mount", Name(o.Key))
					}
				}
			}
		}
	}

	// --- clause 2: availability of the whole chain ---
	if o.Op == "prepare" || o.Op == "view" || o.Op == "mounts" {
		failed := false
		passed := map[int]bool{}
		for _, e := range evs {
			if e.Ev == "check" {
				if e.OK {
					passed[e.D.Id] = true
				} else {
					failed = true
				}
			}
		}
		if res.Class == "mounts" {
			if failed {
				m.problem("", "%s returned mounts although a connectivity check failed", o.Op)
			}
			start := o.Parent
			if o.Op == "mounts" {
				start = o.Key
			}
			chain := []int{}
			chainKnown := true
			for n, fuel := start, 1000; n >= 0 && fuel > 0; fuel-- {
				e, ok := after[n]
				if !ok {
					m.problem("", "%s returned mounts although %s on the chain does not exist", o.Op, Name(n))
					break
				}
				id, have := m.idOf[n]
				if have {
					chain = append(chain, id)
				} else {
					chainKnown = false
					if m.CrashImage {
						n = e.Parent
						continue // id of a snapshot of the crash image the harness could not learn: cannot evaluate
					}
				}
				if e.L.R && (!have || !passed[id]) {
					m.problem("", "%s returned mounts without a passed check of remote layer %s", o.Op, Name(n))
				}
				n = e.Parent
			}
			// --- clause 4: lower directories nearest parent first ---
			wantLower := chain
			if o.Op == "mounts" && len(chain) > 0 {
				wantLower = chain[1:]
			}
			got := res.Lower
			if res.Bind {
				got = nil
				if ka, ok := after[o.Key]; ok && ka.Kind == 0 && len(wantLower) == 1 {
					got = []int{res.ID} // view of a single parent: bind of the parent
				} else if len(wantLower) != 0 {
					m.problem("", "%s of a snapshot with parents returned a plain bind mount", o.Op)
				}
				if len(wantLower) == 0 {
					got = nil
				}
			}
			if !chainKnown && m.CrashImage {
				got, wantLower = nil, nil
			}
			if fmt.Sprint(got) != fmt.Sprint(wantLower) && !(len(got) == 0 && len(wantLower) == 0) {
				m.problem("", "%s: lower directories %v, want parent chain nearest first %v", o.Op, got, wantLower)
			}
		} else if failed && res.Class != "unavail" {
			m.problem("", "%s: a connectivity check failed but the call returned %s instead of Unavailable", o.Op, res.Class)
		}
	}

	// --- clause 3: Unmount precedes every directory removal (events), see also OnLiveUnmount ---
	for i, e := range evs {
		if m.ConcurrentCleanup {
			break // merged event list of two goroutines (see above)
		}
		if e.Ev == "rmdir" {
			if i == 0 || evs[i-1].Ev != "unmount" || evs[i-1].D != e.D {
				m.problem("", "directory %v removed without the backend Unmount call directly before", e.D)
			}
		}
	}
	for _, d := range dirsBefore {
		if m.ConcurrentCleanup {
			// another goroutine runs Cleanup while this call is observed: directories of removed snapshots go away
			// through ITS cleanupSnapshotDirectory, whose markers cannot be attributed to this call. What the property
			// demands of this call's own snapshots is still checked below (a live snapshot keeps its directory).
			break
		}
		if !contains(v.Dirs, d) {
			seen := false
			for _, e := range evs {
				if e.Ev == "rmdir" && e.D.Id == d {
					seen = true
				}
			}
			if !seen {
				m.problem("", "directory %d disappeared without going through cleanupSnapshotDirectory", d)
			}
		}
	}

	// --- clause 5: after Cleanup the directories are exactly those of live snapshots ---
	// (also after every synchronous Remove; and always: every live snapshot has its directory)
	want := []int{}
	known := true
	for n, we := range after {
		if m.NoRestore && (we.L.R || m.NoRestoreGone[n]) {
			known = false
			continue
		}
		id, ok := m.idOf[n]
		if !ok {
			known = false
			continue
		}
		want = append(want, id)
		if !contains(v.Dirs, id) {
			m.problem("", "live snapshot %s (id %d) has no directory", Name(n), id)
		}
	}
	sort.Ints(want)
	if (o.Op == "cleanup" && res.Class == "ok") || (o.Op == "remove" && res.Class == "ok" && !m.Async) {
		if known && (fmt.Sprint(want) != fmt.Sprint(v.Dirs) || v.Temps != 0) {
			m.problem("", "after %s: directories %v (+%d temp), live snapshot ids %v", o.Op, v.Dirs, v.Temps, want)
		}
	}
	if v.Temps != 0 && !m.Relaxed {
		m.problem("", "temp directory left behind by %s", o.Op)
	}
	// every backend mount sits on an existing directory unless its Unmount was scripted to fail
	for _, me := range v.Mounts {
		if !contains(v.Dirs, me.ID) && !m.leaked(me.ID) {
			m.problem("", "backend mount on deleted directory %d", me.ID)
		}
	}
	for _, e := range evs {
		if e.Ev == "unmount" && e.Live && !e.OK {
			m.markLeaked(e.D.Id)
		}
	}
}

func (m *Machine) leaked(id int) bool {
	// a failed Unmount in the current op counts too
	m.FS.mu.Lock()
	defer m.FS.mu.Unlock()
	for _, e := range m.FS.Events {
		if e.Ev == "unmount" && e.Live && !e.OK && e.D.Id == id {
			return true
		}
	}
	return m.leakedIDs[id]
}

func (m *Machine) markLeaked(id int) {
	if m.leakedIDs == nil {
		m.leakedIDs = map[int]bool{}
	}
	m.leakedIDs[id] = true
}

// Destroy closes the snapshotter (if still open) and removes the scratch root.
func (m *Machine) Destroy() {
	if m.SN != nil && !m.Closed {
		m.SN.Close()
	}
	os.RemoveAll(m.Root)
}

// LastUnmountID: id of the directory of the most recent Unmount call (-1: none / a temp directory).
func (f *RecFS) LastUnmountID() int {
	f.mu.Lock()
	defer f.mu.Unlock()
	for i := len(f.Events) - 1; i >= 0; i-- {
		if f.Events[i].Ev == "unmount" {
			return f.Events[i].D.Id
		}
	}
	return -1
}

// Lock/Unlock give the concurrent harness consistent access to Events / Table / Problems.
func (f *RecFS) Lock()   { f.mu.Lock() }
func (f *RecFS) Unlock() { f.mu.Unlock() }

// ParseMounts canonicalises a returned mount list (exported for cmd/snapconc).
func (m *Machine) ParseMounts(ms []mount.Mount) Res { return m.parseMounts(ms) }

// IDOf exposes a copy of the harness-side name -> id bookkeeping (cmd/snapcrash).
func (m *Machine) IDOf() map[int]int {
	c := map[int]int{}
	for k, v := range m.idOf {
		c[k] = v
	}
	return c
}

// SeedIDs installs name -> id knowledge learnt by the pre-crash machine (minus the names the crashing op touched).
func (m *Machine) SeedIDs(ids map[int]int, except map[int]bool) {
	for k, v := range ids {
		if !except[k] {
			m.idOf[k] = v
		}
	}
}
