// Generator of op histories shared by cmd/snap and cmd/snapcrash.
package snapx

import "verif/harness/hx"

const nnames = 8

// tracker: the generator's rough guess of what exists (heuristic only; it steers the op mix towards
// meaningful calls, it is neither the model nor the oracle).
type tracker struct {
	kind   map[int]int // name -> 0 view 1 active 2 committed
	remote map[int]bool
	nextID int
	ids    map[int]int
}

func (t *tracker) pick(r *hx.Rng, want func(k int) bool) (int, bool) {
	var c []int
	for n := 0; n < nnames; n++ {
		if k, ok := t.kind[n]; ok && want(k) {
			c = append(c, n)
		}
	}
	if len(c) == 0 {
		return 0, false
	}
	return c[r.Intn(len(c))], true
}

func (t *tracker) fresh(r *hx.Rng) int {
	var c []int
	for n := 0; n < nnames; n++ {
		if _, ok := t.kind[n]; !ok {
			c = append(c, n)
		}
	}
	if len(c) == 0 || r.Chance(1, 12) {
		return r.Intn(nnames)
	}
	return c[r.Intn(len(c))]
}

func subset(r *hx.Rng, max int, p int) []int {
	var out []int
	for i := 1; i <= max; i++ {
		if r.Chance(p, 100) {
			out = append(out, i)
		}
	}
	return out
}

// GenOps produces a history of n ops (closeOK: whether Close may appear).
func GenOps(r *hx.Rng, n int, closeOK bool) []Op {
	var ops []Op
	t := &tracker{kind: map[int]int{}, remote: map[int]bool{}, ids: map[int]int{}}
	isCommitted := func(k int) bool { return k == 2 }
	labels := func() Labels {
		l := Labels{T: -1}
		if r.Chance(1, 4) {
			l.U = r.Range(1, 3) // 1 = empty value
		}
		if r.Chance(1, 4) {
			l.E = r.Range(1, 3) // a label outside the containerd.io/snapshot namespace
		}
		if r.Chance(1, 40) {
			l.R = true // a caller passing the reserved remote label itself
		}
		return l
	}
	// deep remote chain: 6-10 remote layers k10 <- k11 <- ..., then calls on top of it with the Check of ONE layer,
	// at any depth, scripted to fail (and with none failing)
	if t.nextID == 0 && n >= 10 && r.Chance(1, 5) {
		depth := r.Range(6, 10)
		for d := 0; d < depth; d++ {
			p := -1
			if d > 0 {
				p = 10 + d - 1
			}
			ops = append(ops, Op{Op: "prepare", Key: 9, Parent: p, L: Labels{T: 10 + d}, MOK: true})
		}
		t.nextID = depth
		top := 10 + depth - 1
		for j, m := 0, r.Range(3, 6); j < m; j++ {
			var bad []int
			if r.Chance(4, 5) {
				bad = []int{r.Range(1, depth)}
			}
			key := t.fresh(r)
			switch r.Intn(3) {
			case 0:
				ops = append(ops, Op{Op: "prepare", Key: key, Parent: top, L: NoLabels, MOK: true, CBad: bad})
				t.kind[key] = 1
				t.nextID++
			case 1:
				ops = append(ops, Op{Op: "view", Key: key, Parent: top, L: NoLabels, CBad: bad})
				t.kind[key] = 0
				t.nextID++
			case 2:
				if k, ok := t.pick(r, func(k int) bool { return k != 2 }); ok {
					ops = append(ops, Op{Op: "mounts", Key: k, Parent: -1, L: NoLabels, CBad: bad})
				}
			}
		}
	}
	for i := 0; i < n; i++ {
		var o Op
		parent := func() int {
			if p, ok := t.pick(r, isCommitted); ok && r.Chance(4, 5) {
				return p
			}
			if r.Chance(1, 10) {
				return r.Intn(nnames) // missing or uncommitted parent
			}
			return -1
		}
		cbad := func() []int {
			if r.Chance(1, 3) {
				return subset(r, t.nextID+1, 30)
			}
			return nil
		}
		ubad := func() []int {
			if r.Chance(1, 4) {
				return subset(r, t.nextID+1, 30)
			}
			return nil
		}
		switch r.Pick(22, 12, 8, 10, 10, 14, 6, 5, 2, 3) {
		case 0: // prepare with target (remote snapshot attempt)
			o = Op{Op: "prepare", Key: t.fresh(r), Parent: parent(), L: labels(), MOK: r.Chance(3, 4), CBad: cbad()}
			for try := 0; try < 4; try++ {
				o.L.T = t.fresh(r)
				if o.L.T != o.Key {
					break
				}
			}
			if r.Chance(1, 10) {
				o.L.T = r.Intn(nnames) // existing target (committed, or even an active key)
			}
			if r.Chance(1, 40) {
				o.L.T = o.Key
			}
			if r.Chance(1, 20) {
				o.L.T = BadEmpty // a target ref that cannot be committed: the empty string
			}
			if r.Chance(1, 10) {
				o.L.W = r.Intn(nnames) + 1 // WithParent travels with the opts into the internal commit
				if o.L.W-1 == o.L.T {
					// WithParent naming the commit's own name makes containerd's storage create a snapshot that is its
					// own parent; every later chain walk loops forever (known finding, scenario in cmd/snapconc): never
					// generated here, the model answers NotFound for it
					o.L.W = 0
				}
			}
			t.nextID++
			if o.MOK {
				if _, ok := t.kind[o.L.T]; !ok {
					t.kind[o.L.T] = 2
					t.remote[o.L.T] = true
				} else if _, ok := t.kind[o.Key]; !ok {
					t.kind[o.Key] = 1
				}
			} else if _, ok := t.kind[o.Key]; !ok {
				t.kind[o.Key] = 1
			}
		case 1: // ordinary prepare
			o = Op{Op: "prepare", Key: t.fresh(r), Parent: parent(), L: labels(), MOK: true, CBad: cbad()}
			t.nextID++
			if _, ok := t.kind[o.Key]; !ok {
				t.kind[o.Key] = 1
			}
		case 2:
			o = Op{Op: "view", Key: t.fresh(r), Parent: parent(), L: labels(), CBad: cbad()}
			t.nextID++
			if _, ok := t.kind[o.Key]; !ok {
				t.kind[o.Key] = 0
			}
		case 3:
			k, ok := t.pick(r, func(k int) bool { return k == 1 })
			if !ok || r.Chance(1, 10) {
				k = r.Intn(nnames)
			}
			o = Op{Op: "commit", Key: k, Name: t.fresh(r), L: labels()}
			if r.Chance(1, 5) {
				// snapshots.WithParent on Commit: rebase onto a committed snapshot, or a parent that is missing /
				// not committed / different from the one the snapshot has
				if p, ok := t.pick(r, isCommitted); ok && r.Chance(2, 3) {
					o.L.W = p + 1
				} else {
					o.L.W = r.Intn(nnames) + 1
				}
				if o.L.W-1 == o.Name {
					o.L.W = 0 // see the note at Prepare: self-parent
				}
			}
			if r.Chance(1, 25) {
				o.Name = BadEmpty
			}
			if t.kind[k] == 1 {
				if _, ex := t.kind[o.Name]; !ex {
					delete(t.kind, k)
					t.kind[o.Name] = 2
				}
			}
		case 4:
			k, ok := t.pick(r, func(k int) bool { return k != 2 })
			if !ok || r.Chance(1, 6) {
				k = r.Intn(nnames)
			}
			o = Op{Op: "mounts", Key: k, CBad: cbad()}
		case 5:
			k, ok := t.pick(r, func(k int) bool { return true })
			if !ok || r.Chance(1, 10) {
				k = r.Intn(nnames)
			}
			o = Op{Op: "remove", Key: k, UBad: ubad()}
			delete(t.kind, k) // may in fact be refused (children); the tracker is only a guess
		case 6:
			o = Op{Op: "cleanup", UBad: ubad()}
		case 7:
			k, ok := t.pick(r, func(k int) bool { return true })
			if !ok || r.Chance(1, 6) {
				k = r.Intn(nnames)
			}
			o = Op{Op: "update", Name: k, L: labels()}
			if r.Chance(1, 3) {
				o.L.R = t.remote[k] // keep the remote mark
			}
		case 8:
			o = Op{Op: "stat", Name: r.Intn(nnames)}
		case 9:
			if i+4 < n && r.Chance(4, 5) {
				o = Op{Op: "stat", Name: r.Intn(nnames)}
			} else {
				o = Op{Op: "close", UBad: ubad()}
			}
		}
		if o.Op != "prepare" && o.Op != "view" {
			o.Parent = -1
		}
		if o.Op != "prepare" && o.Op != "view" && o.Op != "commit" && o.Op != "update" {
			o.L = NoLabels
		}
		if o.Op == "close" && !closeOK {
			o = Op{Op: "stat", Name: r.Intn(nnames), Parent: -1, L: NoLabels}
		}
		ops = append(ops, o)
	}
	return ops
}
