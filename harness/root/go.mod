module verif/harness

go 1.25.0

require (
	github.com/containerd/containerd/v2 v2.2.3
	github.com/containerd/errdefs v1.0.0
	github.com/containerd/log v0.1.0
	github.com/containerd/stargz-snapshotter v0.0.0
	github.com/containerd/stargz-snapshotter/estargz v0.18.2
	github.com/hanwen/go-fuse/v2 v2.10.1
	github.com/hashicorp/go-retryablehttp v0.7.8
	github.com/klauspost/compress v1.18.6
	github.com/opencontainers/go-digest v1.0.0
	github.com/opencontainers/image-spec v1.1.1
	github.com/sirupsen/logrus v1.9.4
	google.golang.org/grpc v1.81.1
	k8s.io/cri-api v0.35.3
)

require (
	github.com/beorn7/perks v1.0.1 // indirect
	github.com/cespare/xxhash/v2 v2.3.0 // indirect
	github.com/containerd/containerd/api v1.10.0 // indirect
	github.com/containerd/continuity v0.4.5 // indirect
	github.com/containerd/platforms v1.0.0-rc.4 // indirect
	github.com/containerd/typeurl/v2 v2.2.3 // indirect
	github.com/distribution/reference v0.6.0 // indirect
	github.com/docker/go-metrics v0.0.1 // indirect
	github.com/felixge/httpsnoop v1.0.4 // indirect
	github.com/go-logr/logr v1.4.3 // indirect
	github.com/go-logr/stdr v1.2.2 // indirect
	github.com/gogo/protobuf v1.3.2 // indirect
	github.com/golang/groupcache v0.0.0-20241129210726-2c02b8208cf8 // indirect
	github.com/hashicorp/go-cleanhttp v0.5.2 // indirect
	github.com/moby/locker v1.0.1 // indirect
	github.com/moby/sys/mountinfo v0.7.2 // indirect
	github.com/moby/sys/userns v0.1.0 // indirect
	github.com/munnerz/goautoneg v0.0.0-20191010083416-a7dc8b61c822 // indirect
	github.com/pelletier/go-toml/v2 v2.2.4 // indirect
	github.com/prometheus/client_golang v1.23.2 // indirect
	github.com/prometheus/client_model v0.6.2 // indirect
	github.com/prometheus/common v0.66.1 // indirect
	github.com/prometheus/procfs v0.16.1 // indirect
	github.com/vbatts/tar-split v0.12.2 // indirect
	go.etcd.io/bbolt v1.4.3 // indirect
	go.opentelemetry.io/auto/sdk v1.2.1 // indirect
	go.opentelemetry.io/contrib/instrumentation/net/http/otelhttp v0.60.0 // indirect
	go.opentelemetry.io/otel v1.43.0 // indirect
	go.opentelemetry.io/otel/metric v1.43.0 // indirect
	go.opentelemetry.io/otel/trace v1.43.0 // indirect
	go.yaml.in/yaml/v2 v2.4.3 // indirect
	golang.org/x/net v0.55.0 // indirect
	golang.org/x/sync v0.20.0 // indirect
	golang.org/x/sys v0.45.0 // indirect
	golang.org/x/text v0.37.0 // indirect
	google.golang.org/genproto/googleapis/rpc v0.0.0-20260226221140-a57be14db171 // indirect
	google.golang.org/protobuf v1.36.11 // indirect
)

replace github.com/containerd/stargz-snapshotter => /repo

replace github.com/containerd/stargz-snapshotter/estargz => /repo/estargz
