module verif/harness

go 1.25.0

require (
	github.com/containerd/stargz-snapshotter v0.0.0
	github.com/containerd/stargz-snapshotter/estargz v0.18.2
)

require (
	github.com/golang/groupcache v0.0.0-20241129210726-2c02b8208cf8 // indirect
	github.com/klauspost/compress v1.18.6 // indirect
	github.com/opencontainers/go-digest v1.0.0 // indirect
	github.com/vbatts/tar-split v0.12.2 // indirect
)

replace github.com/containerd/stargz-snapshotter => /repo

replace github.com/containerd/stargz-snapshotter/estargz => /repo/estargz
