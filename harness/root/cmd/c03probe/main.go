package main

import (
	"archive/tar"
	"bytes"
	"fmt"
	"io"

	"github.com/containerd/stargz-snapshotter/estargz"
)

func mk(name string, n int, b byte) []byte {
	var buf bytes.Buffer
	tw := tar.NewWriter(&buf)
	tw.WriteHeader(&tar.Header{Name: name, Typeflag: tar.TypeReg, Size: int64(n), Mode: 0644})
	tw.Write(bytes.Repeat([]byte{b}, n))
	tw.Close()
	return buf.Bytes()
}

func main() {
	for _, min := range []int{0, 5000} {
		var out bytes.Buffer
		w := estargz.NewWriterLevel(&out, 1)
		w.MinChunkSize = min
		if err := w.AppendTar(bytes.NewReader(mk("a", 300, 'a'))); err != nil {
			panic(err)
		}
		if err := w.AppendTar(bytes.NewReader(mk("b", 200, 'b'))); err != nil {
			panic(err)
		}
		if _, err := w.Close(); err != nil {
			panic(err)
		}
		b := out.Bytes()
		r, err := estargz.Open(io.NewSectionReader(bytes.NewReader(b), 0, int64(len(b))))
		if err != nil {
			fmt.Println("min", min, "open error:", err)
			continue
		}
		for _, n := range []string{"a", "b"} {
			e, _ := r.Lookup(n)
			fmt.Printf("min %d %s: offset %d inner %d\n", min, n, e.Offset, e.InnerOffset)
			sr, err := r.OpenFile(n)
			if err != nil {
				fmt.Println("  openfile error", err)
				continue
			}
			got, err := io.ReadAll(sr)
			fmt.Printf("  read %d bytes err=%v ok=%v\n", len(got), err, len(got) > 0 && got[0] == n[0])
		}
	}
}
