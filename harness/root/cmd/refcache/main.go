// C10 correspondence harness: drives util/cacheutil.{LRUCache,TTLCache} with random
// histories and prints, per case, the ops and the observed outputs as Coq terms for Model/Refcache.v.
package main

import (
	"fmt"
	"runtime"
	"strings"
	"time"

	"github.com/containerd/stargz-snapshotter/util/cacheutil"
	"verif/harness/hx"
)

type Op struct {
	Op string `json:"op"` // add get remove expire rel
	K  int    `json:"k"`
	H  int    `json:"h"`
	Ev bool   `json:"ev"`
}

type Out struct {
	Has   bool  `json:"has"`
	V     int   `json:"v,omitempty"`
	Flag  bool  `json:"flag,omitempty"`
	Calls []int `json:"calls"`
}

type Case struct {
	Kind string `json:"kind"` // lru | ttl
	Cap  int    `json:"cap"`
	Ops  []Op   `json:"ops"`
	Outs []Out  `json:"outs,omitempty"`
}

type cacheIface interface {
	add(k string, v int) (int, func(bool), bool)
	get(k string) (int, func(bool), bool)
	remove(k string)
	expire(k string)
	lock()
	unlock()
}

type lruC struct{ c *cacheutil.LRUCache }

func (l lruC) add(k string, v int) (int, func(bool), bool) {
	cv, done, added := l.c.Add(k, v)
	return cv.(int), func(bool) { done() }, added
}
func (l lruC) get(k string) (int, func(bool), bool) {
	cv, done, ok := l.c.Get(k)
	if !ok {
		return 0, nil, false
	}
	return cv.(int), func(bool) { done() }, true
}
func (l lruC) remove(k string) { l.c.Remove(k) }
func (l lruC) expire(k string) { l.c.Remove(k) }
func (l lruC) lock()           { l.c.VerifLock() }
func (l lruC) unlock()         { l.c.VerifUnlock() }

type ttlC struct{ c *cacheutil.TTLCache }

func (t ttlC) add(k string, v int) (int, func(bool), bool) {
	cv, done, added := t.c.Add(k, v)
	return cv.(int), done, added
}
func (t ttlC) get(k string) (int, func(bool), bool) {
	cv, done, ok := t.c.Get(k)
	if !ok {
		return 0, nil, false
	}
	return cv.(int), done, true
}
func (t ttlC) remove(k string) { t.c.Remove(k) }
func (t ttlC) expire(k string) { t.c.VerifExpire(k) }
func (t ttlC) lock()           { t.c.VerifLock() }
func (t ttlC) unlock()         { t.c.VerifUnlock() }

// machine executes ops against the implementation and evaluates the model-free oracle.
type machine struct {
	c        cacheIface
	calls    []int       // OnEvicted log of the current op
	cbCount  map[int]int // per value
	nvals    int
	handles  []func(bool)
	hval     []int
	hopen    []bool
	keyOf    map[int]string
	problems []string
}

func newMachine(kind string, cap int) *machine {
	m := &machine{cbCount: map[int]int{}, keyOf: map[int]string{}}
	onEv := func(key string, value any) {
		v := value.(int)
		m.calls = append(m.calls, v)
		m.cbCount[v]++
		if m.cbCount[v] > 1 {
			m.problems = append(m.problems, fmt.Sprintf("callback ran %d times for value %d", m.cbCount[v], v))
		}
		for h, hv := range m.hval {
			if hv == v && m.hopen[h] {
				m.problems = append(m.problems, fmt.Sprintf("callback for value %d while handle %d is still held", v, h))
			}
		}
		if key != m.keyOf[v] {
			m.problems = append(m.problems, fmt.Sprintf("callback key %q for value %d added under %q", key, v, m.keyOf[v]))
		}
	}
	if kind == "lru" {
		c := cacheutil.NewLRUCache(cap)
		c.OnEvicted = onEv
		m.c = lruC{c}
	} else {
		c := cacheutil.NewTTLCache(time.Hour)
		c.OnEvicted = onEv
		m.c = ttlC{c}
	}
	return m
}

func key(k int) string { return fmt.Sprintf("k%d", k) }

func (m *machine) do(o Op) Out {
	m.calls = nil
	var out Out
	switch o.Op {
	case "add":
		v, done, added := m.c.add(key(o.K), m.nvals)
		if added {
			if v != m.nvals {
				m.problems = append(m.problems, "Add reported added but returned another value")
			}
			m.keyOf[v] = key(o.K)
			m.nvals++
		} else if m.keyOf[v] != key(o.K) {
			m.problems = append(m.problems, fmt.Sprintf("Add(%s) returned value %d of key %s", key(o.K), v, m.keyOf[v]))
		}
		if m.cbCount[v] > 0 {
			m.problems = append(m.problems, fmt.Sprintf("Add returned already finalized value %d", v))
		}
		m.handles = append(m.handles, done)
		m.hval = append(m.hval, v)
		m.hopen = append(m.hopen, true)
		out = Out{Has: true, V: v, Flag: added}
	case "get":
		v, done, ok := m.c.get(key(o.K))
		if ok {
			if m.keyOf[v] != key(o.K) {
				m.problems = append(m.problems, fmt.Sprintf("Get(%s) returned value %d of key %s", key(o.K), v, m.keyOf[v]))
			}
			if m.cbCount[v] > 0 {
				m.problems = append(m.problems, fmt.Sprintf("Get returned already finalized value %d", v))
			}
			m.handles = append(m.handles, done)
			m.hval = append(m.hval, v)
			m.hopen = append(m.hopen, true)
			out = Out{Has: true, V: v, Flag: true}
		}
	case "remove":
		m.c.remove(key(o.K))
	case "expire":
		m.c.expire(key(o.K))
	case "rel":
		if o.H < len(m.handles) {
			m.hopen[o.H] = false
			m.handles[o.H](o.Ev)
		}
	case "rel2":
		// two concurrent calls of the SAME done closure, both parked on the cache mutex and released together
		// (the model: two Release steps in a row; the second must be a no-op for the reference count)
		if o.H < len(m.handles) {
			m.hopen[o.H] = false
			m.c.lock()
			fin := make(chan struct{}, 2)
			for g := 0; g < 2; g++ {
				go func() { m.handles[o.H](o.Ev); fin <- struct{}{} }()
			}
			parked := false
			for spin := 0; spin < 2000 && !parked; spin++ {
				buf := make([]byte, 1<<16)
				n := runtime.Stack(buf, true)
				parked = strings.Count(string(buf[:n]), "decreaseOnceFunc") >= 2 && strings.Count(string(buf[:n]), "sync.(*Mutex).Lock") >= 2
				if !parked {
					time.Sleep(200 * time.Microsecond)
				}
			}
			if !parked {
				m.problems = append(m.problems, "harness: the two concurrent releases did not park on the cache mutex")
			}
			m.c.unlock()
			<-fin
			<-fin
		}
	}
	out.Calls = append([]int{}, m.calls...)
	return out
}

// quiesce: release everything, remove every key; afterwards every value must have been finalized once.
func (m *machine) quiesce(nkeys int) {
	for h := range m.handles {
		if m.hopen[h] {
			m.hopen[h] = false
			m.handles[h](false)
		}
	}
	for k := 0; k < nkeys; k++ {
		m.c.remove(key(k))
	}
	for v := 0; v < m.nvals; v++ {
		if m.cbCount[v] != 1 {
			m.problems = append(m.problems, fmt.Sprintf("value %d finalized %d times at quiescence (leak or double)", v, m.cbCount[v]))
		}
	}
}

const nkeys = 4

func gen(r *hx.Rng) Case {
	c := Case{}
	if r.Bool() {
		c.Kind = "lru"
		c.Cap = r.Pick(3, 3, 2, 1) + 1 // 1..4
		if r.Chance(1, 10) {
			c.Cap = 0
		} else if r.Chance(1, 9) {
			c.Cap = -r.Range(1, 3) // negative MaxEntries: groupcache/lru evicts on every Add
		}
	} else {
		c.Kind = "ttl"
	}
	n := r.Range(4, 40)
	nh := 0
	open := []int{}
	m := newMachine(c.Kind, c.Cap)
	for i := 0; i < n; i++ {
		var o Op
		switch r.Pick(30, 18, 30, 10, 10) {
		case 0:
			o = Op{Op: "add", K: r.Intn(nkeys)}
		case 1:
			o = Op{Op: "get", K: r.Intn(nkeys)}
		case 2:
			if nh == 0 {
				o = Op{Op: "add", K: r.Intn(nkeys)}
				break
			}
			h := r.Intn(nh) // any handle, possibly already released (double release)
			if len(open) > 0 && r.Chance(3, 4) {
				j := r.Intn(len(open))
				h = open[j]
				open = append(open[:j], open[j+1:]...)
			}
			o = Op{Op: "rel", H: h}
			if c.Kind == "ttl" {
				o.Ev = r.Chance(1, 3)
			}
			if r.Chance(1, 8) {
				o.Op = "rel2"
			}
		case 3:
			o = Op{Op: "remove", K: r.Intn(nkeys)}
		case 4:
			if c.Kind == "ttl" {
				o = Op{Op: "expire", K: r.Intn(nkeys)}
			} else {
				o = Op{Op: "get", K: r.Intn(nkeys)}
			}
		}
		out := m.do(o)
		if out.Has {
			open = append(open, nh)
			nh++
		}
		c.Ops = append(c.Ops, o)
		c.Outs = append(c.Outs, out)
	}
	return c
}

func exec(c Case) ([]Out, []string) {
	m := newMachine(c.Kind, c.Cap)
	outs := make([]Out, 0, len(c.Ops))
	for _, o := range c.Ops {
		outs = append(outs, m.do(o))
	}
	m.quiesce(nkeys)
	return outs, m.problems
}

func coqCase(c Case, outs []Out) string {
	ops := make([]string, 0, len(c.Ops))
	os := make([]string, 0, len(outs))
	for i, o := range c.Ops {
		r := "None"
		if outs[i].Has {
			r = fmt.Sprintf("Some (%d, %s)", outs[i].V, hx.CoqBool(outs[i].Flag))
		}
		os = append(os, fmt.Sprintf("(%s, %s)", r, hx.CoqNatList(outs[i].Calls)))
		switch o.Op {
		case "rel2":
			ops = append(ops, fmt.Sprintf("Release %d %s", o.H, hx.CoqBool(o.Ev)), fmt.Sprintf("Release %d %s", o.H, hx.CoqBool(o.Ev)))
			os = append(os, "(None, [])")
			continue
		}
		switch o.Op {
		case "add":
			ops = append(ops, fmt.Sprintf("Add %d", o.K))
		case "get":
			ops = append(ops, fmt.Sprintf("Get %d", o.K))
		case "remove":
			ops = append(ops, fmt.Sprintf("Remove %d", o.K))
		case "expire":
			ops = append(ops, fmt.Sprintf("Expire %d", o.K))
		case "rel":
			ops = append(ops, fmt.Sprintf("Release %d %s", o.H, hx.CoqBool(o.Ev)))
		}
	}
	return fmt.Sprintf("(%s, %s, %s)", hx.CoqZ(int64(c.Cap)), hx.CoqList(ops), hx.CoqList(os))
}

func main() {
	ctx := hx.Start()
	emit := func(c Case) {
		outs, problems := exec(c)
		c.Outs = outs
		ncb := 0
		kinds := map[string]bool{}
		for i, o := range c.Ops {
			ctx.Count("op." + o.Op)
			if (o.Op == "rel" || o.Op == "rel2") && o.Ev {
				ctx.Count("op.rel.evict")
			}
			kinds[o.Op] = true
			ncb += len(outs[i].Calls)
			if o.Op == "add" && !outs[i].Flag {
				ctx.Count("result.add.existing")
			}
			if o.Op == "get" && !outs[i].Has {
				ctx.Count("result.get.miss")
			}
			if len(outs[i].Calls) > 0 {
				ctx.Count("result.callback." + o.Op)
			}
		}
		ctx.Count("kind." + c.Kind)
		if c.Cap < 0 {
			ctx.Count("cap.negative")
		}
		ctx.CountN("ops", len(c.Ops))
		nontrivial := ncb > 0 && len(kinds) >= 3
		id := ctx.Case(coqCase(c, outs), c, coqCase(c, outs), nontrivial)
		for _, p := range problems {
			ctx.Violation(id, p, nil)
		}
	}
	if ctx.Replay != "" {
		var c Case
		ctx.LoadReplay(&c)
		emit(c)
		ctx.Finish()
		return
	}
	// corpus: minimal histories that exercise each clause of the property
	corpus := []Case{
		{Kind: "ttl", Ops: []Op{{Op: "add", K: 0}, {Op: "expire", K: 0}, {Op: "add", K: 0}, {Op: "rel", H: 0, Ev: true}, {Op: "get", K: 0}, {Op: "rel", H: 1}, {Op: "rel", H: 2}, {Op: "remove", K: 0}}},
		{Kind: "lru", Cap: 1, Ops: []Op{{Op: "add", K: 0}, {Op: "add", K: 1}, {Op: "rel", H: 0}, {Op: "rel", H: 0}, {Op: "get", K: 0}, {Op: "add", K: 1}, {Op: "rel", H: 1}, {Op: "rel", H: 2}, {Op: "remove", K: 1}}},
		{Kind: "ttl", Ops: []Op{{Op: "add", K: 2}, {Op: "get", K: 2}, {Op: "rel", H: 0, Ev: true}, {Op: "rel", H: 0, Ev: true}, {Op: "rel", H: 1, Ev: false}, {Op: "get", K: 2}}},
	}
	corpus = append(corpus,
		// negative capacity: every Add evicts the value it just inserted (held by the adder, out of the cache)
		Case{Kind: "lru", Cap: -1, Ops: []Op{{Op: "add", K: 0}, {Op: "get", K: 0}, {Op: "add", K: 0}, {Op: "rel", H: 0}, {Op: "rel", H: 1}, {Op: "add", K: 1}, {Op: "rel2", H: 2}}},
		// two concurrent calls of one done closure, with a second holder and a later eviction
		Case{Kind: "lru", Cap: 2, Ops: []Op{{Op: "add", K: 0}, {Op: "get", K: 0}, {Op: "rel2", H: 0}, {Op: "remove", K: 0}, {Op: "rel", H: 1}}},
		Case{Kind: "ttl", Ops: []Op{{Op: "add", K: 1}, {Op: "get", K: 1}, {Op: "rel2", H: 0, Ev: true}, {Op: "get", K: 1}, {Op: "rel2", H: 1}, {Op: "add", K: 1}, {Op: "rel2", H: 2, Ev: true}}},
	)
	for _, c := range corpus {
		emit(c)
	}
	r := hx.NewRng(ctx.Seed)
	for i := len(corpus); i < ctx.N; i++ {
		c := gen(r.Fork())
		emit(c)
	}
	_ = strings.Join
	ctx.Finish()
}
