// C12 correspondence harness: drives the real fs/layer.Resolver (layer.NewResolver, Resolve, Layer.Done/Close/
// Check/Refresh/RootNode/ReadAt, TTL expiry of both caches through the verif hooks) against an in-memory registry
// (remote.Handler), the real memory metadata store and real directory caches under a temporary root.
// A Resolve call runs in its own goroutine and is suspended inside every external call it makes (connectivity
// check, registry, metadata store), so that the harness interleaves other operations at those points and
// chooses the outcome of the call. Prints the executed history and the observations as Coq terms for
// Model/Resolver.v and evaluates the property's clauses directly on the observations (model-free oracle).
package main

import (
	"archive/tar"
	"bytes"
	"context"
	"fmt"
	"io"
	"os"
	"path/filepath"
	"runtime"
	"strconv"
	"strings"
	"sync"
	"sync/atomic"
	"time"

	"github.com/containerd/containerd/v2/core/remotes/docker"
	"github.com/containerd/containerd/v2/pkg/reference"
	"github.com/containerd/stargz-snapshotter/estargz"
	"github.com/containerd/stargz-snapshotter/fs/config"
	"github.com/containerd/stargz-snapshotter/fs/layer"
	"github.com/containerd/stargz-snapshotter/fs/remote"
	"github.com/containerd/stargz-snapshotter/metadata"
	"github.com/containerd/stargz-snapshotter/metadata/memory"
	"github.com/containerd/stargz-snapshotter/task"
	digest "github.com/opencontainers/go-digest"
	ocispec "github.com/opencontainers/image-spec/specs-go/v1"
	"verif/harness/hx"
)

type Op struct {
	Op string `json:"op"` // start step done close expl expb use refresh
	N  int    `json:"n,omitempty"`
	T  int    `json:"t,omitempty"`
	U  int    `json:"u,omitempty"`
	Ok bool   `json:"ok,omitempty"`
	Rf string `json:"rf,omitempty"` // refresh: what the registry answers: ok | err | size (blob of another size) | content (same size, other bytes)
}

// IOp: one operation of an interval case (sequential, model-free oracle only)
type IOp struct {
	Op string `json:"op"` // res age chk refresh probe done close expl expb
	N  int    `json:"n,omitempty"`
	U  int    `json:"u,omitempty"`
	Ok bool   `json:"ok,omitempty"`
	Rf string `json:"rf,omitempty"`
	Sc []bool `json:"sc,omitempty"`
}

type Case struct {
	IOps []IOp    `json:"iops,omitempty"` // non-empty: an interval case
	Ops  []Op     `json:"ops"`
	Exec []string `json:"exec,omitempty"` // executed history (with the automatic wake-ups and the closing sequence)
	Outs []string `json:"outs,omitempty"`
}

const nnames = 3
const probeChunk = 512 // blob chunk size of the remote blob; a probe reads 4 bytes of a chunk nobody has read yet
const probeFirst = 8   // chunks below hold a.txt

var (
	blobData   []byte
	variants   [3][]byte // 0 = the blob, 1 = other size, 2 = same size and other content
	blobDigest digest.Digest
	fileData   = []byte("hello from the layer: 0123456789abcdefghijklmnopqrstuvwxyz")
	tm         = task.NewBackgroundTaskManager(2, time.Millisecond)
)

func buildBlob() {
	var buf bytes.Buffer
	tw := tar.NewWriter(&buf)
	tw.WriteHeader(&tar.Header{Typeflag: tar.TypeDir, Name: "d/", Mode: 0755})
	tw.WriteHeader(&tar.Header{Typeflag: tar.TypeReg, Name: "a.txt", Mode: 0644, Size: int64(len(fileData))})
	tw.Write(fileData)
	pad := make([]byte, 96*1024) // never read through the file system: probes read it chunk by chunk from the registry
	for i := range pad {
		pad[i] = byte(i*7 + i/251)
	}
	tw.WriteHeader(&tar.Header{Typeflag: tar.TypeReg, Name: "pad.bin", Mode: 0644, Size: int64(len(pad))})
	tw.Write(pad)
	tw.WriteHeader(&tar.Header{Typeflag: tar.TypeReg, Name: "d/b.txt", Mode: 0644, Size: 3})
	tw.Write([]byte("abc"))
	tw.Close()
	t := buf.Bytes()
	b, err := estargz.Build(io.NewSectionReader(bytes.NewReader(t), 0, int64(len(t))), estargz.WithChunkSize(8192), estargz.WithCompressionLevel(0))
	if err != nil {
		panic(err)
	}
	blobData, err = io.ReadAll(b)
	if err != nil {
		panic(err)
	}
	b.Close()
	blobDigest = digest.FromBytes(blobData)
	// what a wrong registry serves under the same reference: other bytes, of the same size or longer
	variants[0] = blobData
	variants[2] = make([]byte, len(blobData))
	for i, c := range blobData {
		variants[2][i] = c ^ 0x5a
	}
	variants[1] = append(append([]byte{}, variants[2]...), bytes.Repeat([]byte{0xee}, 777)...)
}

func goid() uint64 {
	var buf [64]byte
	n := runtime.Stack(buf[:], false)
	f := strings.Fields(string(buf[:n]))
	id, _ := strconv.ParseUint(f[1], 10, 64)
	return id
}

type event struct{ kind int } // 0 = Resolve returned; 1,3,4 = suspended in an external call

const (
	stRunning = iota
	stPaused
	stBlocked
	stDone
)

type thread struct {
	id, name int
	evCh     chan event
	resume   chan bool
	state    int
	l        layer.Layer
	err      error
	needPost bool
}

type handle struct {
	l        layer.Layer
	obj      any
	name     int
	released bool
}

type machine struct {
	root     string
	res      *layer.Resolver
	threads  []*thread
	handles  []*handle
	byGoid   sync.Map
	syncOK   bool
	syncSrc  int         // variant served to a Refresh made by the harness itself
	probeK   map[int]int // per name: next never-read chunk of the blob
	tainted  map[int]bool
	stress   bool
	seq      bool
	chkLog   []chkRec
	script   []bool
	calls    uint64
	mu       sync.Mutex
	openMeta int
	objIDs   map[any]int
	cur      map[int]any  // last instance returned per name
	dirty    map[int]bool // an event that legitimately ends sharing of cur happened
	problems []string
	exec     []string
	outs     []string
	stats    map[string]int
}

type trackedReader struct {
	metadata.Reader
	m      *machine
	closed bool
}

func (t *trackedReader) Close() error {
	t.m.mu.Lock()
	if !t.closed {
		t.closed = true
		t.m.openMeta--
	}
	t.m.mu.Unlock()
	return t.Reader.Close()
}

type chkRec struct {
	f  *fetcher
	ok bool
}

type fetcher struct {
	m   *machine
	src int // which variant this fetcher serves
}

func (f *fetcher) Fetch(ctx context.Context, off int64, size int64) (io.ReadCloser, error) {
	b := variants[f.src]
	if off < 0 || off+size > int64(len(b)) {
		return nil, fmt.Errorf("out of range")
	}
	return io.NopCloser(bytes.NewReader(b[off : off+size])), nil
}
func (f *fetcher) Check() error {
	ok := f.m.external(1)
	if f.m.seq {
		f.m.chkLog = append(f.m.chkLog, chkRec{f, ok}) // which blob's connection was probed, with what outcome
	}
	if !ok {
		return fmt.Errorf("unreachable")
	}
	return nil
}
func (f *fetcher) GenID(off int64, size int64) string { return fmt.Sprintf("%d-%d", off, size) }

type handler struct{ m *machine }

func (h *handler) Handle(ctx context.Context, desc ocispec.Descriptor) (remote.Fetcher, int64, error) {
	if !h.m.external(3) {
		return nil, 0, fmt.Errorf("registry failure")
	}
	src := 0
	if _, isThread := h.m.byGoid.Load(goid()); !isThread && !h.m.stress {
		src = h.m.syncSrc // a Refresh made by the harness itself
	}
	return &fetcher{h.m, src}, int64(len(variants[src])), nil
}

// external is called from inside an external call: a Resolve goroutine is suspended here until the harness
// resumes it with the outcome; calls made synchronously by the harness itself take the preset outcome.
func (m *machine) external(kind int) bool {
	if m.stress {
		return atomic.AddUint64(&m.calls, 1)%7 != 0 // truly concurrent mode: no suspension, every 7th external call fails
	}
	if m.seq { // sequential mode (interval cases): no suspension, outcomes from a script (missing entries = success)
		m.calls++
		if len(m.script) == 0 {
			return true
		}
		ok := m.script[0]
		m.script = m.script[1:]
		return ok
	}
	v, ok := m.byGoid.Load(goid())
	if !ok {
		return m.syncOK
	}
	t := v.(*thread)
	t.evCh <- event{kind}
	return <-t.resume
}

func failingHosts(reference.Spec) ([]docker.RegistryHost, error) {
	return nil, fmt.Errorf("no registry host")
}

func refOf(n int) reference.Spec {
	r, err := reference.Parse(fmt.Sprintf("registry.test/img%d:latest", n))
	if err != nil {
		panic(err)
	}
	return r
}

func descOf() ocispec.Descriptor {
	return ocispec.Descriptor{Digest: blobDigest, Size: int64(len(blobData))}
}

func newMachine() *machine { return newMachineCfg(false) }

// interval = true: connectivity checks are valid for an hour (ValidInterval) instead of being repeated on every Check
func newMachineCfg(interval bool) *machine {
	base := ""
	if st, e := os.Stat("/dev/shm"); e == nil && st.IsDir() {
		base = "/dev/shm" // directory caches fsync; keep the per-case root on tmpfs when there is one
	}
	root, err := os.MkdirTemp(base, "c12-")
	if err != nil {
		panic(err)
	}
	m := &machine{root: root, objIDs: map[any]int{}, cur: map[int]any{}, dirty: map[int]bool{}, probeK: map[int]int{}, tainted: map[int]bool{}, syncOK: true, stats: map[string]int{}}
	store := func(sr *io.SectionReader, opts ...metadata.Option) (metadata.Reader, error) {
		if !m.external(4) {
			return nil, fmt.Errorf("metadata failure")
		}
		r, err := memory.NewReader(sr, opts...)
		if err != nil {
			return nil, err
		}
		m.mu.Lock()
		m.openMeta++
		m.mu.Unlock()
		return &trackedReader{Reader: r, m: m}, nil
	}
	cfg := config.Config{}
	cfg.BlobConfig.CheckAlways = !interval
	cfg.BlobConfig.ValidInterval = 3600
	cfg.BlobConfig.ChunkSize = probeChunk
	cfg.DirectoryCacheConfig.SyncAdd = true
	cfg.ResolveResultEntryTTLSec = 3600
	res, err := layer.NewResolver(root, tm, cfg, map[string]remote.Handler{"mem": &handler{m}}, store, layer.OverlayOpaqueAll, nil)
	if err != nil {
		panic(err)
	}
	m.res = res
	return m
}

func (m *machine) cleanup() { os.RemoveAll(m.root) }

func (m *machine) problem(f string, a ...any) { m.problems = append(m.problems, fmt.Sprintf(f, a...)) }

func countDir(p string) int {
	es, err := os.ReadDir(p)
	if err != nil {
		return 0
	}
	return len(es)
}

func (m *machine) view() [3]int {
	m.mu.Lock()
	om := m.openMeta
	m.mu.Unlock()
	return [3]int{countDir(filepath.Join(m.root, "fscache")), countDir(filepath.Join(m.root, "httpcache")), om}
}

func (m *machine) record(op, ev string) { m.record2(op, ev, "ENone") }

// record2: wake = what a Resolve that was blocked on the per-name lock did after this op released the lock
func (m *machine) record2(op, ev, wake string) {
	v := m.view()
	m.exec = append(m.exec, op)
	m.outs = append(m.outs, fmt.Sprintf("(%s, %s, (%d, %d, %d))", ev, wake, v[0], v[1], v[2]))
}

func (m *machine) inflight(name int) *thread {
	for _, t := range m.threads {
		if t.name == name && (t.state == stPaused || t.state == stRunning) {
			return t
		}
	}
	return nil
}

func (m *machine) waiter(name int) *thread {
	for _, t := range m.threads {
		if t.name == name && t.state == stBlocked {
			return t
		}
	}
	return nil
}

// await waits until thread t is suspended in an external call, has returned, or (only when another Resolve of the
// same name is in flight) is considered blocked on the per-name lock.
func (m *machine) await(t *thread, expectBlock bool) string {
	timeout := 20 * time.Second
	if expectBlock {
		timeout = 4 * time.Millisecond
	}
	select {
	case e := <-t.evCh:
		for _, o := range m.threads {
			if o != t && o.name == t.name && o.state == stPaused {
				m.problem("two Resolve calls for name %d run past the per-name lock together (threads %d and %d)", t.name, o.id, t.id)
			}
		}
		if e.kind != 0 {
			t.state = stPaused
			m.stats[fmt.Sprintf("pause.%d", e.kind)]++
			return fmt.Sprintf("EPause %d", e.kind)
		}
		t.state = stDone
		if t.err != nil {
			m.stats["result.err"]++
			if t.l != nil {
				m.problem("Resolve returned both a layer and an error")
			}
			return "EErr"
		}
		// SkipVerify and the first read of the layer are done by post(), once a Resolve woken by this return has reached
		// its own external call: a fetch made now would run concurrently with that Resolve's connectivity check, and a
		// fetch that succeeds meanwhile counts as a check (blob.lastCheck), so the check would be skipped or not by timing
		t.needPost = true
		obj := layer.VerifLayerObjectC12(t.l)
		id, seen := m.objIDs[obj]
		if !seen {
			id = len(m.objIDs)
			m.objIDs[obj] = id
			m.stats["result.ret.fresh"]++
		} else {
			m.stats["result.ret.shared"]++
		}
		// concurrent requests share one instance: another holder still holds the current instance of this name and
		// nothing that ends sharing (expiry, evicting Close, failed connectivity check) happened since it was returned
		if c, ok := m.cur[t.name]; ok && !m.dirty[t.name] && c != obj {
			held := false
			for _, h := range m.handles {
				if h.obj == c && !h.released {
					held = true
				}
			}
			if held {
				m.problem("Resolve of name %d returned a second instance while the first is held, cached and healthy", t.name)
			}
		}
		if seen && m.cur[t.name] != obj {
			m.problem("Resolve of name %d returned an older instance than the current one", t.name)
		}
		if !seen {
			m.cur[t.name] = obj
			m.dirty[t.name] = false
		}
		m.handles = append(m.handles, &handle{l: t.l, obj: obj, name: t.name})
		return fmt.Sprintf("ERet %d %s", id, hx.CoqBool(!seen))
	case <-time.After(timeout):
		if !expectBlock {
			m.problem("Resolve of name %d (thread %d) neither returned nor reached an external call (hang)", t.name, t.id)
		}
		t.state = stBlocked
		m.stats["result.blocked"]++
		return "EBlocked"
	}
}

// afterReturn: when a Resolve returned, a waiter for the same name takes the lock and runs on its own.
func (m *machine) afterReturn(t *thread) string {
	if t.state != stDone {
		return "ENone"
	}
	w := m.waiter(t.name)
	if w == nil {
		return "ENone"
	}
	w.state = stRunning
	m.stats["op.wake"]++
	return m.await(w, false)
}

// post: what the caller does with a layer Resolve returned (as fs.Mount: SkipVerify) plus a first read of its file;
// called when no Resolve goroutine is running.
func (m *machine) post(t *thread) {
	if !t.needPost {
		return
	}
	t.needPost = false
	t.l.SkipVerify()
	if data, err := layer.VerifReadFileC12(t.l, "a.txt", len(fileData)+8); err != nil || !bytes.Equal(data, fileData) {
		m.problem("the layer returned by Resolve does not serve its file: %v", err)
	}
}

func (m *machine) apply(o Op) {
	switch o.Op {
	case "start":
		if o.N < 0 || o.N >= nnames || m.waiter(o.N) != nil {
			return
		}
		t := &thread{id: len(m.threads), name: o.N, evCh: make(chan event, 1), resume: make(chan bool)}
		expectBlock := m.inflight(o.N) != nil
		m.threads = append(m.threads, t)
		go func() {
			g := goid()
			m.byGoid.Store(g, t)
			l, err := m.res.Resolve(context.Background(), failingHosts, refOf(t.name), descOf())
			m.byGoid.Delete(g)
			t.l, t.err = l, err
			t.evCh <- event{0}
		}()
		ev := m.await(t, expectBlock)
		m.stats["op.start"]++
		wake := m.afterReturn(t)
		m.post(t)
		m.record2(fmt.Sprintf("RStart %d", o.N), ev, wake)
	case "step":
		if o.T < 0 || o.T >= len(m.threads) || m.threads[o.T].state != stPaused {
			return
		}
		t := m.threads[o.T]
		if !o.Ok {
			m.dirty[t.name] = true
			m.stats["op.step.fail"]++
		}
		t.state = stRunning
		t.resume <- o.Ok
		ev := m.await(t, false)
		m.stats["op.step"]++
		wake := m.afterReturn(t)
		m.post(t)
		m.record2(fmt.Sprintf("RStep %d %s", o.T, hx.CoqBool(o.Ok)), ev, wake)
	case "done", "close":
		if o.U < 0 || o.U >= len(m.handles) {
			return
		}
		h := m.handles[o.U]
		if h.released {
			m.stats["op.release.again"]++
		}
		h.released = true
		if o.Op == "done" {
			h.l.Done()
			m.record(fmt.Sprintf("Done %d", o.U), "ENone")
		} else {
			m.dirty[h.name] = true
			h.l.Close()
			m.record(fmt.Sprintf("Close %d", o.U), "ENone")
		}
		m.stats["op."+o.Op]++
	case "expl", "expb":
		if o.N < 0 || o.N >= nnames {
			return
		}
		key := layer.VerifCacheKeyC12(refOf(o.N), descOf())
		if o.Op == "expl" {
			m.dirty[o.N] = true
			m.res.VerifExpireLayerC12(key)
			m.record(fmt.Sprintf("ExpireL %d", o.N), "ENone")
		} else {
			m.res.VerifExpireBlobC12(key)
			m.record(fmt.Sprintf("ExpireB %d", o.N), "ENone")
		}
		m.stats["op."+o.Op]++
	case "use":
		if o.U < 0 || o.U >= len(m.handles) {
			return
		}
		h := m.handles[o.U]
		m.syncOK = true
		_, rootErr := h.l.RootNode(0)
		data, fileErr := layer.VerifReadFileC12(h.l, "a.txt", len(fileData)+8)
		if fileErr == nil && !bytes.Equal(data, fileData) {
			fileErr = fmt.Errorf("wrong contents")
		}
		p := make([]byte, 4)
		tail := int64(len(blobData) - 4) // the footer: fetched by every Resolve, so served from the blob cache
		_, blobErr := h.l.ReadAt(p, tail)
		if blobErr == nil && !bytes.Equal(p, blobData[tail:]) {
			blobErr = fmt.Errorf("wrong blob bytes")
		}
		checkErr := h.l.Check()
		if !h.released {
			m.stats["op.use.held"]++
			if rootErr != nil || fileErr != nil || blobErr != nil || checkErr != nil {
				m.problem("held layer (handle %d, name %d) is not usable: root=%v file=%v blob=%v check=%v", o.U, h.name, rootErr, fileErr, blobErr, checkErr)
			}
		} else if rootErr != nil {
			m.stats["result.use.closed"]++
		} else {
			m.stats["result.use.released-open"]++
		}
		m.record(fmt.Sprintf("Use %d", o.U), fmt.Sprintf("EUse %s %s", hx.CoqBool(rootErr != nil), hx.CoqBool(blobErr != nil)))
		m.stats["op.use"]++
	case "refresh":
		if o.U < 0 || o.U >= len(m.handles) {
			return
		}
		h := m.handles[o.U]
		rf := o.Rf
		if rf == "" {
			rf = map[bool]string{true: "ok", false: "err"}[o.Ok]
		}
		m.syncOK = rf != "err"
		m.syncSrc = map[string]int{"ok": 0, "err": 0, "size": 1, "content": 2}[rf]
		err := h.l.Refresh(context.Background(), failingHosts, refOf(h.name), descOf())
		m.syncOK, m.syncSrc = true, 0
		ev := "ENone"
		if err != nil {
			ev = "EErr"
		}
		if !h.released && rf == "ok" && err != nil {
			m.problem("Refresh of a held layer failed although the registry answered: %v", err)
		}
		if (rf == "err" || rf == "size") && err == nil {
			m.problem("Refresh succeeded although the registry %s", map[string]string{"err": "could not be resolved", "size": "offered a blob of another size"}[rf])
		}
		if rf == "content" && err == nil {
			m.tainted[h.name] = true // a registry serving other bytes under the blob's size was accepted (sizes only are compared)
		}
		m.record(fmt.Sprintf("Refresh %d %s", o.U, map[string]string{"ok": "RfOk", "err": "RfErr", "size": "RfSize", "content": "RfContent"}[rf]), ev)
		m.stats["op.refresh"]++
		m.stats["op.refresh."+rf]++
	case "probe":
		if o.U < 0 || o.U >= len(m.handles) {
			return
		}
		h := m.handles[o.U]
		k := probeFirst + m.probeK[h.name]
		off := int64(k * probeChunk)
		if off+4 > int64(len(blobData))-16*1024 {
			return // out of never-read chunks (the generator stays far below)
		}
		m.probeK[h.name]++
		p := make([]byte, 4)
		_, err := h.l.ReadAt(p, off)
		ok := err == nil && bytes.Equal(p, blobData[off:off+4])
		if !h.released {
			m.stats["op.probe.held"]++
			if !ok && !m.tainted[h.name] {
				m.problem("held layer (handle %d, name %d): a read that has to go to the registry failed or returned other bytes than the blob's (err=%v)", o.U, h.name, err)
			}
		}
		if !ok {
			m.stats["result.probe.fail"]++
		}
		m.record(fmt.Sprintf("Probe %d", o.U), fmt.Sprintf("EProbe %s", hx.CoqBool(ok)))
		m.stats["op.probe"]++
	}
}

func (m *machine) paused() *thread {
	for _, t := range m.threads {
		if t.state == stPaused {
			return t
		}
	}
	return nil
}

// quiesce: let every Resolve finish, release every handle, expire every name; then nothing may remain;
// then a new Resolve must produce a fresh, usable layer, and releasing + expiring it leaves nothing again.
func (m *machine) quiesce() {
	for i := 0; i < 400; i++ {
		t := m.paused()
		if t == nil {
			break
		}
		m.apply(Op{Op: "step", T: t.id, Ok: true})
	}
	for _, t := range m.threads {
		if t.state != stDone {
			m.problem("thread %d did not finish", t.id)
		}
	}
	for u, h := range m.handles {
		if !h.released {
			m.apply(Op{Op: "done", U: u})
		}
	}
	for n := 0; n < nnames; n++ {
		m.apply(Op{Op: "expl", N: n})
		m.apply(Op{Op: "expb", N: n})
	}
	if v := m.view(); v != [3]int{0, 0, 0} {
		m.problem("after every holder released and everything expired: %d fscache dirs, %d httpcache dirs, %d open metadata readers remain", v[0], v[1], v[2])
	}
	for u, h := range m.handles {
		if _, err := h.l.RootNode(0); err == nil {
			m.problem("layer of handle %d still serves after release + expiry", u)
		}
	}
	nobj := len(m.objIDs)
	m.apply(Op{Op: "start", N: 0})
	for i := 0; i < 10; i++ {
		t := m.paused()
		if t == nil {
			break
		}
		m.apply(Op{Op: "step", T: t.id, Ok: true})
	}
	last := m.threads[len(m.threads)-1]
	if last.state != stDone || last.err != nil || len(m.objIDs) != nobj+1 {
		m.problem("Resolve after reclamation did not produce a fresh layer (err=%v)", last.err)
		return
	}
	u := len(m.handles) - 1
	m.apply(Op{Op: "use", U: u})
	m.apply(Op{Op: "refresh", U: u, Rf: "size"})
	m.apply(Op{Op: "probe", U: u})
	m.apply(Op{Op: "close", U: u})
	m.apply(Op{Op: "expb", N: 0})
	if v := m.view(); v != [3]int{0, 0, 0} {
		m.problem("after Close + blob expiry of the re-resolved layer: %d fscache dirs, %d httpcache dirs, %d open metadata readers remain", v[0], v[1], v[2])
	}
}

// stress: truly concurrent resolvers (thorough tier; meant for the race-detector build). Workers resolve, use, release
// (Done or Close) layers of three names while another goroutine fires expiry; no suspension, every 7th external call fails.
// Only the model-free oracle applies (the schedule is not reproducible): a held layer is usable; afterwards all is reclaimed.
func stress(seed uint64) []string {
	m := newMachine()
	defer m.cleanup()
	m.stress = true
	var wg sync.WaitGroup
	var pmu sync.Mutex
	var problems []string
	stop := make(chan struct{})
	go func() {
		r := hx.NewRng(seed + 99)
		for {
			select {
			case <-stop:
				return
			default:
			}
			key := layer.VerifCacheKeyC12(refOf(r.Intn(nnames)), descOf())
			if r.Bool() {
				m.res.VerifExpireLayerC12(key)
			} else {
				m.res.VerifExpireBlobC12(key)
			}
			time.Sleep(200 * time.Microsecond)
		}
	}()
	for w := 0; w < 6; w++ {
		wg.Add(1)
		go func(w int) {
			defer wg.Done()
			r := hx.NewRng(seed*31 + uint64(w))
			for i := 0; i < 25; i++ {
				n := r.Intn(nnames)
				l, err := m.res.Resolve(context.Background(), failingHosts, refOf(n), descOf())
				if err != nil {
					continue
				}
				l.SkipVerify() // as fs.Mount does, unsynchronised with the other holders of the shared layer
				_, rootErr := l.RootNode(0)
				data, fileErr := layer.VerifReadFileC12(l, "a.txt", len(fileData)+8)
				if fileErr == nil && !bytes.Equal(data, fileData) {
					fileErr = fmt.Errorf("wrong contents")
				}
				p := make([]byte, 4)
				_, blobErr := l.ReadAt(p, 0)
				if rootErr != nil || fileErr != nil || blobErr != nil {
					pmu.Lock()
					problems = append(problems, fmt.Sprintf("concurrent mode: held layer of name %d is not usable: root=%v file=%v blob=%v", n, rootErr, fileErr, blobErr))
					pmu.Unlock()
				}
				if r.Chance(1, 3) {
					l.Close()
				} else {
					l.Done()
				}
			}
		}(w)
	}
	wg.Wait()
	close(stop)
	time.Sleep(time.Millisecond)
	for n := 0; n < nnames; n++ {
		key := layer.VerifCacheKeyC12(refOf(n), descOf())
		m.res.VerifExpireLayerC12(key)
		m.res.VerifExpireBlobC12(key)
	}
	if v := m.view(); v != [3]int{0, 0, 0} {
		problems = append(problems, fmt.Sprintf("concurrent mode: after all workers released and everything expired: %d fscache dirs, %d httpcache dirs, %d open metadata readers remain", v[0], v[1], v[2]))
	}
	return problems
}

// intervalCase: the resolver with a non-zero ValidInterval and time passing (the verif hook moves a blob's lastCheck into
// the past). Sequential: every call completes; outcomes of external calls from a script. The Coq model has no notion of the
// interval (it models CheckAlways), so only the model-free oracle applies: a Check probes exactly when the last successful
// check / fetch / refresh is older than the interval, fails exactly when that probe fails, a failed probe does not count as a
// check, Resolve does not hand out a cached layer whose due check failed; held layers stay usable; all is reclaimed at the end.
func intervalCase(ops []IOp) []string {
	m := newMachineCfg(true)
	defer m.cleanup()
	m.seq = true
	type ih struct {
		l        layer.Layer
		b        remote.Blob
		obj      any
		name     int
		released bool
	}
	var hs []*ih
	stale := map[remote.Blob]bool{}
	cached := map[int]any{} // name -> instance believed to be in the layer cache
	var problems []string
	bad := func(f string, a ...any) { problems = append(problems, "interval mode: "+fmt.Sprintf(f, a...)) }
	get := func(u int) *ih {
		if u < 0 || u >= len(hs) {
			return nil
		}
		return hs[u]
	}
	// a successful probe of a blob's connection — by whichever call made it, also a Resolve that failed later or handed out
	// another layer over the same blob — is its last successful check
	observe := func() {
		for _, h := range hs {
			if h.released {
				continue
			}
			f, _ := remote.VerifFetcherC12(h.b).(*fetcher)
			for _, e := range m.chkLog {
				if e.ok && f != nil && e.f == f {
					stale[h.b] = false
				}
			}
		}
		m.chkLog = nil
	}
	for _, o := range ops {
		observe()
		switch o.Op {
		case "res":
			if o.N < 0 || o.N >= nnames {
				continue
			}
			m.script = append([]bool{}, o.Sc...)
			inst := cached[o.N]
			var instBlob remote.Blob
			for _, h := range hs {
				if h.obj == inst && inst != nil {
					instBlob = h.b
				}
			}
			l, err := m.res.Resolve(context.Background(), failingHosts, refOf(o.N), descOf())
			m.script = nil
			if err != nil {
				continue
			}
			l.SkipVerify()
			h := &ih{l: l, b: layer.VerifBlobC12(l), obj: layer.VerifLayerObjectC12(l), name: o.N}
			if inst != nil && h.obj == inst && instBlob != nil && stale[instBlob] && len(o.Sc) > 0 && !o.Sc[0] {
				bad("Resolve of name %d handed out the cached layer although its connectivity check was due and failed", o.N)
			}
			stale[h.b] = false // a layer is only handed out over a blob that is new or whose due check was made and passed
			if data, err := layer.VerifReadFileC12(l, "a.txt", len(fileData)+8); err != nil || !bytes.Equal(data, fileData) {
				bad("the layer returned by Resolve does not serve its file: %v", err)
			}
			cached[o.N] = h.obj
			hs = append(hs, h)
		case "age":
			if h := get(o.U); h != nil && !h.released {
				remote.VerifAgeLastCheckC12(h.b, 2*time.Hour)
				stale[h.b] = true
			}
		case "chk":
			h := get(o.U)
			if h == nil || h.released {
				continue
			}
			m.script = []bool{o.Ok}
			c0 := m.calls
			err := h.l.Check()
			probed := m.calls > c0
			m.script = nil
			if probed != stale[h.b] {
				bad("Check of a held layer: probed=%v but the last successful check is %s", probed, map[bool]string{true: "older than the interval", false: "inside the interval"}[stale[h.b]])
			}
			if (err != nil) != (stale[h.b] && !o.Ok) {
				bad("Check of a held layer returned %v (check due=%v, connection ok=%v)", err, stale[h.b], o.Ok)
			}
			if stale[h.b] && o.Ok {
				stale[h.b] = false
			}
		case "refresh":
			h := get(o.U)
			if h == nil || h.released {
				continue
			}
			m.script = []bool{o.Rf != "err"}
			m.syncSrc = map[string]int{"ok": 0, "err": 0, "size": 1}[o.Rf]
			err := h.l.Refresh(context.Background(), failingHosts, refOf(h.name), descOf())
			m.script, m.syncSrc = nil, 0
			if (err != nil) != (o.Rf != "ok") {
				bad("Refresh (%s) of a held layer returned %v", o.Rf, err)
			}
			if err == nil {
				stale[h.b] = false
			}
		case "probe":
			h := get(o.U)
			if h == nil || h.released {
				continue
			}
			off := int64((probeFirst + m.probeK[h.name]) * probeChunk)
			if off+4 > int64(len(blobData))-16*1024 {
				continue
			}
			m.probeK[h.name]++
			p := make([]byte, 4)
			if _, err := h.l.ReadAt(p, off); err != nil || !bytes.Equal(p, blobData[off:off+4]) {
				bad("held layer: a read that has to go to the registry failed (err=%v)", err)
			} else {
				stale[h.b] = false // a successful fetch counts as a check
			}
		case "done", "close":
			h := get(o.U)
			if h == nil {
				continue
			}
			h.released = true
			if o.Op == "done" {
				h.l.Done()
			} else {
				h.l.Close()
				if cached[h.name] == h.obj {
					delete(cached, h.name)
				}
			}
		case "expl", "expb":
			if o.N < 0 || o.N >= nnames {
				continue
			}
			key := layer.VerifCacheKeyC12(refOf(o.N), descOf())
			if o.Op == "expl" {
				m.res.VerifExpireLayerC12(key)
				delete(cached, o.N)
			} else {
				m.res.VerifExpireBlobC12(key)
			}
		}
	}
	observe()
	for _, h := range hs {
		if !h.released {
			if _, err := h.l.RootNode(0); err != nil {
				bad("held layer is closed: %v", err)
			}
			h.l.Done()
		}
	}
	for n := 0; n < nnames; n++ {
		key := layer.VerifCacheKeyC12(refOf(n), descOf())
		m.res.VerifExpireLayerC12(key)
		m.res.VerifExpireBlobC12(key)
	}
	if v := m.view(); v != [3]int{0, 0, 0} {
		bad("after all holders released and everything expired: %d fscache dirs, %d httpcache dirs, %d open metadata readers remain", v[0], v[1], v[2])
	}
	return problems
}

func genInterval(r *hx.Rng) []IOp {
	var ops []IOp
	nh := 0
	n := r.Range(8, 26)
	for i := 0; i < n; i++ {
		u := 0
		if nh > 0 {
			u = r.Intn(nh)
		}
		switch r.Pick(20, 16, 22, 10, 6, 6, 4, 6, 3) {
		case 0:
			var sc []bool
			if r.Chance(1, 2) {
				sc = []bool{r.Chance(1, 2), r.Chance(4, 5), r.Chance(4, 5)}
			}
			ops = append(ops, IOp{Op: "res", N: r.Pick(5, 3, 2), Sc: sc})
			nh++ // (a failed Resolve adds no handle; indices beyond are skipped)
		case 1:
			ops = append(ops, IOp{Op: "age", U: u})
		case 2:
			ops = append(ops, IOp{Op: "chk", U: u, Ok: r.Chance(1, 2)})
		case 3:
			ops = append(ops, IOp{Op: "refresh", U: u, Rf: []string{"ok", "err", "size"}[r.Pick(2, 4, 3)]})
		case 4:
			ops = append(ops, IOp{Op: "probe", U: u})
		case 5:
			ops = append(ops, IOp{Op: "done", U: u})
		case 6:
			ops = append(ops, IOp{Op: "close", U: u})
		case 7:
			ops = append(ops, IOp{Op: "expl", N: r.Pick(5, 3, 2)})
		case 8:
			ops = append(ops, IOp{Op: "expb", N: r.Pick(5, 3, 2)})
		}
	}
	return ops
}

func run(c Case) *machine {
	m := newMachine()
	defer m.cleanup()
	for _, o := range c.Ops {
		m.apply(o)
	}
	m.quiesce()
	return m
}

func gen(r *hx.Rng) Case {
	m := newMachine()
	defer m.cleanup()
	c := Case{}
	n := r.Range(6, 34)
	name := func() int { return r.Pick(5, 3, 2) }
	for i := 0; i < n; i++ {
		var o Op
		var pausedT []int
		for _, t := range m.threads {
			if t.state == stPaused {
				pausedT = append(pausedT, t.id)
			}
		}
		var unrel []int
		for u, h := range m.handles {
			if !h.released {
				unrel = append(unrel, u)
			}
		}
		anyHandle := func() (int, bool) {
			if len(m.handles) == 0 {
				return 0, false
			}
			if len(unrel) > 0 && r.Chance(3, 4) {
				return unrel[r.Intn(len(unrel))], true
			}
			return r.Intn(len(m.handles)), true
		}
		o = Op{Op: "start", N: name()}
		switch r.Pick(22, 38, 10, 7, 7, 5, 7, 6, 7) {
		case 1:
			if len(pausedT) > 0 {
				o = Op{Op: "step", T: pausedT[r.Intn(len(pausedT))], Ok: r.Chance(4, 5)}
			}
		case 2:
			if u, ok := anyHandle(); ok {
				o = Op{Op: "done", U: u}
			}
		case 3:
			if u, ok := anyHandle(); ok {
				o = Op{Op: "close", U: u}
			}
		case 4:
			o = Op{Op: "expl", N: name()}
		case 5:
			o = Op{Op: "expb", N: name()}
		case 6:
			if u, ok := anyHandle(); ok {
				o = Op{Op: "use", U: u}
			}
		case 7:
			if u, ok := anyHandle(); ok {
				o = Op{Op: "refresh", U: u, Rf: []string{"ok", "err", "size", "content"}[r.Pick(3, 3, 4, 1)]}
			}
		case 8:
			if u, ok := anyHandle(); ok {
				o = Op{Op: "probe", U: u}
			}
		}
		if o.Op == "start" && m.waiter(o.N) != nil {
			continue
		}
		m.apply(o)
		c.Ops = append(c.Ops, o)
	}
	m.quiesce()
	return c
}

func main() {
	ctx := hx.Start()
	buildBlob()
	emit := func(c Case) {
		m := run(c)
		c.Exec, c.Outs = m.exec, m.outs
		for k, v := range m.stats {
			ctx.CountN(k, v)
		}
		ctx.CountN("ops", len(m.exec))
		term := fmt.Sprintf("(%s, %s)", hx.CoqList(m.exec), hx.CoqList(m.outs))
		nontrivial := m.stats["result.ret.shared"] > 0 && m.stats["result.ret.fresh"] > 1 && (m.stats["op.step.fail"] > 0 || m.stats["op.expl"] > nnames)
		id := ctx.Case(term, c, term, nontrivial)
		for _, p := range m.problems {
			ctx.Violation(id, p, nil)
		}
	}
	emitInterval := func(ops []IOp) {
		problems := intervalCase(ops)
		ctx.Count("interval")
		for _, o := range ops {
			ctx.Count("iop." + o.Op)
		}
		id := ctx.Case("([], [])", Case{IOps: ops}, fmt.Sprintf("interval-%v", ops), false)
		for _, p := range problems {
			ctx.Violation(id, p, nil)
		}
	}
	if ctx.Replay != "" {
		var c Case
		ctx.LoadReplay(&c)
		if len(c.IOps) > 0 {
			emitInterval(c.IOps)
			ctx.Finish()
			return
		}
		emit(c)
		ctx.Finish()
		return
	}
	S := func(n int) Op { return Op{Op: "start", N: n} }
	T := func(t int, ok bool) Op { return Op{Op: "step", T: t, Ok: ok} }
	corpus := []Case{
		// resolve, second resolver shares it, expiry while held, first holder closes, still usable
		{Ops: []Op{S(0), T(0, true), T(0, true), S(0), T(1, true), {Op: "expl", N: 0}, {Op: "expb", N: 0}, {Op: "close", U: 0}, {Op: "use", U: 1}, {Op: "use", U: 0}, {Op: "done", U: 1}, {Op: "use", U: 1}}},
		// registry failure, then metadata failure, then success
		{Ops: []Op{S(0), T(0, false), S(0), T(1, true), T(1, false), S(0), T(2, true), T(2, true), {Op: "use", U: 0}}},
		// waiter on the per-name lock; failing connectivity check re-resolves while the old instance is held
		{Ops: []Op{S(0), S(0), T(0, true), T(0, true), {Op: "use", U: 0}, S(0), T(2, false), T(2, false), T(2, true), T(2, true), {Op: "use", U: 0}, {Op: "use", U: 2}, {Op: "done", U: 0}, {Op: "refresh", U: 2, Ok: true}, {Op: "refresh", U: 2, Ok: false}}},
		// two names interleaved; layer expired but blob still cached: new layer shares the blob
		{Ops: []Op{S(0), S(1), T(0, true), T(1, true), T(1, true), T(0, true), {Op: "expl", N: 0}, S(0), T(2, true), T(2, true), {Op: "done", U: 1}, {Op: "use", U: 2}, {Op: "close", U: 2}, {Op: "done", U: 0}, {Op: "done", U: 0}, {Op: "close", U: 0}}},
	}
	R := func(u int, rf string) Op { return Op{Op: "refresh", U: u, Rf: rf} }
	P := func(u int) Op { return Op{Op: "probe", U: u} }
	corpus = append(corpus,
		// connectivity refreshes on a held layer: refused ones (resolution error, other size) change nothing, reads of cached and of
		// never-read chunks keep working; an accepted one installs the new fetcher
		Case{Ops: []Op{S(0), T(0, true), T(0, true), P(0), R(0, "size"), P(0), {Op: "use", U: 0}, R(0, "err"), P(0), R(0, "ok"), P(0), R(0, "size"), P(0), P(0), {Op: "use", U: 0}}},
		// a second holder shares layer and blob: a refresh refused for one holder must not break the other's reads; other-content registry accepted, then repaired
		Case{Ops: []Op{S(1), T(0, true), T(0, true), S(1), T(1, true), R(0, "size"), P(1), {Op: "done", U: 0}, R(1, "size"), P(1), R(1, "content"), P(1), {Op: "use", U: 1}, R(1, "ok"), P(1)}},
	)
	for _, c := range corpus {
		emit(c)
	}
	// connectivity checks with a validity interval and time passing (sequential, oracle only): fixed cases, then random ones
	emitInterval([]IOp{{Op: "res", N: 0}, {Op: "chk", U: 0, Ok: false}, {Op: "age", U: 0}, {Op: "chk", U: 0, Ok: false}, {Op: "refresh", U: 0, Rf: "err"},
		{Op: "chk", U: 0, Ok: false}, {Op: "chk", U: 0, Ok: false}, {Op: "res", N: 0, Sc: []bool{false, true, true}}, {Op: "chk", U: 0, Ok: true}, {Op: "chk", U: 0, Ok: false}})
	emitInterval([]IOp{{Op: "res", N: 1}, {Op: "res", N: 1}, {Op: "age", U: 1}, {Op: "refresh", U: 0, Rf: "size"}, {Op: "chk", U: 1, Ok: false}, {Op: "chk", U: 0, Ok: false},
		{Op: "probe", U: 0}, {Op: "chk", U: 1, Ok: false}, {Op: "age", U: 0}, {Op: "refresh", U: 1, Rf: "ok"}, {Op: "chk", U: 0, Ok: false}, {Op: "done", U: 0}, {Op: "age", U: 1}, {Op: "res", N: 1, Sc: []bool{false}}, {Op: "res", N: 1}})
	ninterval := ctx.N / 8
	r := hx.NewRng(ctx.Seed)
	ri := hx.NewRng(ctx.Seed + 7777)
	for i := 0; i < ninterval; i++ {
		emitInterval(genInterval(ri.Fork()))
	}
	nstress := 0
	if ctx.Tier == "thorough" {
		nstress = ctx.N / 25
		if nstress < 4 {
			nstress = 4
		}
	}
	for i := len(corpus) + 2 + ninterval; i < ctx.N-nstress; i++ {
		emit(gen(r.Fork()))
	}
	for i := 0; i < nstress; i++ {
		problems := stress(ctx.Seed*1000 + uint64(i))
		ctx.Count("stress")
		id := ctx.Case("([], [])", Case{}, fmt.Sprintf("stress-%d", i), false)
		for _, p := range problems {
			ctx.Violation(id, p, nil)
		}
	}
	ctx.Finish()
}
