// C03 correspondence harness: drives the real eStargz builder (estargz.Build) and writer
// (estargz.NewWriterWithCompressor + AppendTar / AppendTarLossLess + Close) on generated tar archives x
// options x compression schemes (gzip, zstd:chunked, external TOC), then reads the produced blob ONLY by the
// documented rules with its own small parser (member / frame scanner, footer -> TOC -> per-chunk slices) and
// with eStargz-agnostic tools (stdlib gzip + archive/tar).  Per case it prints the writer inputs, the oracle
// values (compressed member sizes, flush observations, header lengths, TOC sizes) and the observed TOC /
// footer / sizes as a Coq term for Model/EsgzWriter.v, and evaluates the property clauses directly on the
// implementation's output (model-free oracle).
package main

import (
	"archive/tar"
	"bytes"
	"compress/gzip"
	"context"
	"crypto/sha256"
	"encoding/binary"
	"encoding/hex"
	"encoding/json"
	"fmt"
	"hash"
	"io"
	"path"
	"runtime"
	"sort"
	"strconv"
	"strings"
	"sync"
	"time"

	"github.com/containerd/stargz-snapshotter/estargz"
	"github.com/containerd/stargz-snapshotter/estargz/externaltoc"
	"github.com/containerd/stargz-snapshotter/estargz/zstdchunked"
	"github.com/klauspost/compress/zstd"
	digest "github.com/opencontainers/go-digest"
	"verif/harness/hx"
)

// ---------------------------------------------------------------------------------------------
// case description (JSON, replayable)

type Ent struct {
	Name    string            `json:"name"`
	Type    string            `json:"type"` // reg dir symlink link char block fifo xglobal
	Size    int               `json:"size,omitempty"`
	Seed    uint64            `json:"seed,omitempty"`
	Link    string            `json:"link,omitempty"`
	Mode    int64             `json:"mode,omitempty"`
	UID     int               `json:"uid,omitempty"`
	GID     int               `json:"gid,omitempty"`
	Uname   string            `json:"uname,omitempty"`
	Gname   string            `json:"gname,omitempty"`
	MTime   int64             `json:"mtime,omitempty"`
	MTimeNs int64             `json:"mtimens,omitempty"` // sub-second part (PAX)
	Xattrs  map[string]string `json:"xattrs,omitempty"`
	Major   int64             `json:"major,omitempty"`
	Minor   int64             `json:"minor,omitempty"`
}

type Case struct {
	Mode     string   `json:"mode"`  // build writer lossless
	Fmt      string   `json:"fmt"`   // gzip zstd ext
	Chunk    int      `json:"chunk"` // ChunkSize (0 = default 4 MiB)
	MinChunk int      `json:"minchunk"`
	Level    int      `json:"level"`   // gzip level
	Workers  int      `json:"workers"` // Build: WithParallelism (0 = GOMAXPROCS)
	InComp   string   `json:"incomp"`  // none gzip zstd
	Prio     []string `json:"prio,omitempty"`
	Allow    bool     `json:"allow,omitempty"`
	Trail    int      `json:"trail,omitempty"` // extra zero bytes after the end-of-archive marker of the input
	Split    []int    `json:"split,omitempty"` // writer mode: entry indices at which a further AppendTar call starts
	Ops      []Ent    `json:"ops"`             // the input tar (called ops so that the driver shrinks it)
	// Build options beyond the sizes: WithGzipHelperFunc (an in-process gzip helper), WithContext (1 = Background,
	// 2 = a cancellable context that is not cancelled)
	Helper bool `json:"helper,omitempty"`
	Ctx    int  `json:"ctx,omitempty"`
	// Next: further builds made, one after the other, with the SAME compressor value (format and level of this case)
	Next []Case `json:"next,omitempty"`
}

func content(seed uint64, n int) []byte {
	r := hx.NewRng(seed)
	b := make([]byte, n)
	switch seed % 3 {
	case 0:
		for i := range b {
			b[i] = byte(r.U64())
		}
	case 1:
		pat := r.Bytes(7)
		for i := range b {
			b[i] = pat[i%7]
		}
	default:
		for i := range b {
			b[i] = "abcdefgh \n"[r.Intn(10)]
		}
	}
	return b
}

func typeflag(t string) byte {
	switch t {
	case "reg":
		return tar.TypeReg
	case "dir":
		return tar.TypeDir
	case "symlink":
		return tar.TypeSymlink
	case "link":
		return tar.TypeLink
	case "char":
		return tar.TypeChar
	case "block":
		return tar.TypeBlock
	case "fifo":
		return tar.TypeFifo
	case "xglobal":
		return tar.TypeXGlobalHeader
	}
	return tar.TypeReg
}

// makeTar serialises the case's entries with the standard library's tar writer.
func makeTar(c Case) []byte { return makeTarRange(c, 0, len(c.Ops)) }

// callRanges returns the entry ranges of the successive AppendTar calls.
func callRanges(c Case) [][2]int {
	var cuts []int
	if c.Mode == "writer" {
		for _, x := range c.Split {
			if x > 0 && x < len(c.Ops) && (len(cuts) == 0 || x > cuts[len(cuts)-1]) {
				cuts = append(cuts, x)
			}
		}
	}
	var rs [][2]int
	lo := 0
	for _, x := range append(cuts, len(c.Ops)) {
		rs = append(rs, [2]int{lo, x})
		lo = x
	}
	return rs
}

func makeTarRange(c Case, lo, hi int) []byte {
	var buf bytes.Buffer
	tw := tar.NewWriter(&buf)
	for _, e := range c.Ops[lo:hi] {
		h := &tar.Header{Name: e.Name, Typeflag: typeflag(e.Type), Mode: e.Mode, Uid: e.UID, Gid: e.GID,
			Uname: e.Uname, Gname: e.Gname, Linkname: e.Link, Devmajor: e.Major, Devminor: e.Minor}
		if e.MTime != 0 || e.MTimeNs != 0 {
			h.ModTime = time.Unix(e.MTime, e.MTimeNs)
		}
		if e.Type == "reg" {
			h.Size = int64(e.Size)
		}
		if e.Type == "xglobal" {
			h = &tar.Header{Typeflag: tar.TypeXGlobalHeader, PAXRecords: map[string]string{"comment": "c03"}}
		} else if len(e.Xattrs) > 0 {
			h.PAXRecords = map[string]string{}
			for k, v := range e.Xattrs {
				h.PAXRecords["SCHILY.xattr."+k] = v
			}
		}
		if err := tw.WriteHeader(h); err != nil {
			panic(fmt.Sprintf("generator: cannot write header %+v: %v", e, err))
		}
		if e.Type == "reg" && e.Size > 0 {
			tw.Write(content(e.Seed, e.Size))
		}
	}
	tw.Close()
	if c.Trail > 0 {
		buf.Write(make([]byte, c.Trail))
	}
	return buf.Bytes()
}

func compressInput(raw []byte, how string) []byte {
	switch how {
	case "gzip":
		var b bytes.Buffer
		zw, _ := gzip.NewWriterLevel(&b, 1)
		zw.Write(raw)
		zw.Close()
		return b.Bytes()
	case "zstd":
		var b bytes.Buffer
		zw, _ := zstd.NewWriter(&b)
		zw.Write(raw)
		zw.Close()
		return b.Bytes()
	}
	return raw
}

func cleanName(name string) string { return strings.TrimPrefix(path.Clean("/"+name), "/") }

const (
	tocName      = "stargz.index.json"
	prefetchLM   = ".prefetch.landmark"
	noPrefetchLM = ".no.prefetch.landmark"
)

// ---------------------------------------------------------------------------------------------
// tracing compressor: observes, through the exported Compressor interface only, what the writer reads from
// w.cw.n: bytes of the open member that reached the count writer at every Flush, and at Close.

type cntW struct {
	w io.Writer
	n int64
}

func (c *cntW) Write(p []byte) (int, error) {
	n, err := c.w.Write(p)
	c.n += int64(n)
	return n, err
}

type traceComp struct {
	c  estargz.Compressor
	d  estargz.Decompressor
	mu sync.Mutex
	fl []int64
	cl []int64
}

type traceW struct {
	in  estargz.WriteFlushCloser
	cnt *cntW
	t   *traceComp
}

func (t *traceComp) Writer(w io.Writer) (estargz.WriteFlushCloser, error) {
	cnt := &cntW{w: w}
	in, err := t.c.Writer(cnt)
	if err != nil {
		return nil, err
	}
	return &traceW{in, cnt, t}, nil
}
func (w *traceW) Write(p []byte) (int, error) { return w.in.Write(p) }
func (w *traceW) Flush() error {
	err := w.in.Flush()
	w.t.mu.Lock()
	w.t.fl = append(w.t.fl, w.cnt.n)
	w.t.mu.Unlock()
	return err
}
func (w *traceW) Close() error {
	err := w.in.Close()
	w.t.mu.Lock()
	w.t.cl = append(w.t.cl, w.cnt.n)
	w.t.mu.Unlock()
	return err
}
func (t *traceComp) WriteTOCAndFooter(w io.Writer, off int64, toc *estargz.JTOC, h hash.Hash) (digest.Digest, error) {
	return t.c.WriteTOCAndFooter(w, off, toc, h)
}
func (t *traceComp) Reader(r io.Reader) (io.ReadCloser, error) { return t.d.Reader(r) }
func (t *traceComp) FooterSize() int64                         { return t.d.FooterSize() }
func (t *traceComp) ParseFooter(p []byte) (int64, int64, int64, error) {
	return t.d.ParseFooter(p)
}
func (t *traceComp) ParseTOC(r io.Reader) (*estargz.JTOC, digest.Digest, error) {
	return t.d.ParseTOC(r)
}

type zstdCompression struct {
	*zstdchunked.Compressor
	*zstdchunked.Decompressor
}

type gzipCompression struct {
	*estargz.GzipCompressor
	*estargz.GzipDecompressor
}

// ---------------------------------------------------------------------------------------------
// running the implementation

type result struct {
	ok        bool
	errText   string
	blob      []byte
	tocDigest string
	diffID    string
	uncSize   int64 // Build only (-1 otherwise)
	extTOC    []byte
	flushes   []int64
	closes    []int64
}

// compVal is one compressor VALUE; a case may use it for several builds in a row.
type compVal struct {
	comp   estargz.Compressor
	ext    *externaltoc.GzipCompressor
	shared bool
}

func newCompVal(format string, level int, shared bool) *compVal {
	cv := &compVal{shared: shared}
	switch format {
	case "gzip":
		cv.comp = estargz.NewGzipCompressorWithLevel(level)
	case "zstd":
		cv.comp = &zstdchunked.Compressor{CompressionLevel: zstd.SpeedFastest}
	case "ext":
		cv.ext = externaltoc.NewGzipCompressorWithLevel(level)
		cv.comp = cv.ext
	}
	return cv
}

func run(c Case, in []byte, calls [][]byte, cv *compVal) (res result) {
	res.uncSize = -1
	defer func() {
		if r := recover(); r != nil {
			res.ok = false
			res.errText = fmt.Sprintf("PANIC: %v", r)
		}
	}()
	comp, ext := cv.comp, cv.ext
	var dec estargz.Decompressor
	switch c.Fmt {
	case "gzip":
		dec = &estargz.GzipDecompressor{}
	case "zstd":
		dec = &zstdchunked.Decompressor{}
	case "ext":
		dec = externaltoc.NewGzipDecompressor(func() ([]byte, error) {
			var b bytes.Buffer
			_, err := ext.WriteTOCTo(&b)
			return b.Bytes(), err
		})
	}
	tc := &traceComp{c: comp, d: dec}
	if c.Mode == "build" {
		opts := []estargz.Option{estargz.WithChunkSize(c.Chunk), estargz.WithMinChunkSize(c.MinChunk), estargz.WithParallelism(c.Workers)}
		if len(c.Prio) > 0 {
			opts = append(opts, estargz.WithPrioritizedFiles(c.Prio))
		}
		if c.Helper {
			// an external decompression helper, here the standard library in process
			opts = append(opts, estargz.WithGzipHelperFunc(func(r io.Reader) (io.ReadCloser, error) { return gzip.NewReader(r) }))
		}
		switch c.Ctx {
		case 1:
			opts = append(opts, estargz.WithContext(context.Background()))
		case 2:
			ctx, cancel := context.WithCancel(context.Background())
			defer cancel()
			opts = append(opts, estargz.WithContext(ctx))
		}
		var missed []string
		if c.Allow {
			opts = append(opts, estargz.WithAllowPrioritizeNotFound(&missed))
		}
		if c.Fmt == "gzip" && c.MinChunk <= 0 && !cv.shared {
			// the builder's own default compression object
			opts = append(opts, estargz.WithCompressionLevel(c.Level))
		} else {
			opts = append(opts, estargz.WithCompression(tc))
		}
		b, err := estargz.Build(io.NewSectionReader(bytes.NewReader(in), 0, int64(len(in))), opts...)
		if err != nil {
			res.errText = err.Error()
			return
		}
		blob, err := io.ReadAll(b)
		if err != nil {
			b.Close()
			res.errText = err.Error()
			return
		}
		res.blob = blob
		res.tocDigest = b.TOCDigest().String()
		res.diffID = b.DiffID().String()
		if n, err := b.UncompressedSize(); err == nil {
			res.uncSize = n
		} else {
			res.uncSize = -2
		}
		b.Close()
	} else {
		var out bytes.Buffer
		w := estargz.NewWriterWithCompressor(&out, tc)
		w.ChunkSize = c.Chunk
		w.MinChunkSize = c.MinChunk
		var err error
		if c.Mode == "lossless" {
			err = w.AppendTarLossLess(bytes.NewReader(in))
		} else {
			for _, part := range calls {
				if err = w.AppendTar(bytes.NewReader(part)); err != nil {
					break
				}
			}
		}
		if err != nil {
			res.errText = err.Error()
			return
		}
		d, err := w.Close()
		if err != nil {
			res.errText = err.Error()
			return
		}
		res.blob = out.Bytes()
		res.tocDigest = d.String()
		res.diffID = w.DiffID()
	}
	if ext != nil {
		var b bytes.Buffer
		if _, err := ext.WriteTOCTo(&b); err != nil {
			res.errText = "WriteTOCTo: " + err.Error()
			return
		}
		res.extTOC = b.Bytes()
	}
	res.flushes, res.closes = tc.fl, tc.cl
	res.ok = true
	return
}

// ---------------------------------------------------------------------------------------------
// independent reader: documented rules only

type member struct {
	off, csize int64
	payload    []byte
	skippable  bool
}

// scanGzip splits a gzip multistream into its members (RFC 1952) using the standard library.
func scanGzip(b []byte) ([]member, error) {
	var ms []member
	br := bytes.NewReader(b)
	var zr *gzip.Reader
	for br.Len() > 0 {
		start := int64(len(b) - br.Len())
		var err error
		if zr == nil {
			zr, err = gzip.NewReader(br)
		} else {
			err = zr.Reset(br)
		}
		if err != nil {
			return ms, fmt.Errorf("member at %d: %v", start, err)
		}
		zr.Multistream(false)
		p, err := io.ReadAll(zr)
		if err != nil {
			return ms, fmt.Errorf("member at %d: %v", start, err)
		}
		end := int64(len(b) - br.Len())
		ms = append(ms, member{off: start, csize: end - start, payload: p})
	}
	return ms, nil
}

// scanZstd walks the frames of a zstd stream (RFC 8878 section 3.1) with its own frame / block header parser.
func scanZstd(b []byte) ([]member, error) {
	var ms []member
	zd, _ := zstd.NewReader(nil)
	defer zd.Close()
	pos := 0
	for pos < len(b) {
		if len(b)-pos < 8 {
			return ms, fmt.Errorf("trailing garbage at %d", pos)
		}
		magic := binary.LittleEndian.Uint32(b[pos:])
		if magic&0xFFFFFFF0 == 0x184D2A50 {
			n := int(binary.LittleEndian.Uint32(b[pos+4:]))
			if pos+8+n > len(b) {
				return ms, fmt.Errorf("skippable frame at %d overruns", pos)
			}
			ms = append(ms, member{off: int64(pos), csize: int64(8 + n), payload: b[pos+8 : pos+8+n], skippable: true})
			pos += 8 + n
			continue
		}
		if magic != 0xFD2FB528 {
			return ms, fmt.Errorf("bad frame magic %#x at %d", magic, pos)
		}
		p := pos + 4
		fhd := b[p]
		p++
		single := fhd&0x20 != 0
		if !single {
			p++ // window descriptor
		}
		p += []int{0, 1, 2, 4}[fhd&3]
		switch fhd >> 6 {
		case 0:
			if single {
				p++
			}
		case 1:
			p += 2
		case 2:
			p += 4
		case 3:
			p += 8
		}
		for {
			if p+3 > len(b) {
				return ms, fmt.Errorf("frame at %d: truncated block header", pos)
			}
			bh := int(b[p]) | int(b[p+1])<<8 | int(b[p+2])<<16
			p += 3
			last, typ, sz := bh&1 != 0, (bh>>1)&3, bh>>3
			switch typ {
			case 1:
				p++
			case 0, 2:
				p += sz
			default:
				return ms, fmt.Errorf("frame at %d: reserved block type", pos)
			}
			if last {
				break
			}
		}
		if fhd&4 != 0 {
			p += 4
		}
		if p > len(b) {
			return ms, fmt.Errorf("frame at %d overruns", pos)
		}
		pl, err := zd.DecodeAll(b[pos:p], nil)
		if err != nil {
			return ms, fmt.Errorf("frame at %d: %v", pos, err)
		}
		ms = append(ms, member{off: int64(pos), csize: int64(p - pos), payload: pl})
		pos = p
	}
	return ms, nil
}

type tocEntry struct {
	Name        string            `json:"name"`
	Type        string            `json:"type"`
	Size        int64             `json:"size"`
	ModTime     string            `json:"modtime"`
	LinkName    string            `json:"linkName"`
	Mode        int64             `json:"mode"`
	UID         int               `json:"uid"`
	GID         int               `json:"gid"`
	Uname       string            `json:"userName"`
	Gname       string            `json:"groupName"`
	Offset      int64             `json:"offset"`
	InnerOffset int64             `json:"innerOffset"`
	DevMajor    int64             `json:"devMajor"`
	DevMinor    int64             `json:"devMinor"`
	Xattrs      map[string][]byte `json:"xattrs"`
	Digest      string            `json:"digest"`
	ChunkOffset int64             `json:"chunkOffset"`
	ChunkSize   int64             `json:"chunkSize"`
	ChunkDigest string            `json:"chunkDigest"`
}

type tocJSON struct {
	Version int        `json:"version"`
	Entries []tocEntry `json:"entries"`
}

func gzipFooterSpec(extra []byte) []byte {
	b := []byte{0x1f, 0x8b, 8, 4, 0, 0, 0, 0, 0, 255, byte(len(extra)), byte(len(extra) >> 8)}
	b = append(b, extra...)
	b = append(b, 1, 0, 0, 0xff, 0xff)
	return append(b, make([]byte, 8)...)
}

// tarWalk is an own minimal tar block walker: header span (including pax / GNU extension headers),
// data size, and the number of bytes after the last entry's padding.
type rawEnt struct {
	hlen, size int64
	typ        byte
}

func tarNum(f []byte) int64 {
	if len(f) > 0 && f[0]&0x80 != 0 {
		var v int64
		for i, c := range f {
			if i == 0 {
				c &= 0x7f
			}
			v = v<<8 | int64(c)
		}
		return v
	}
	s := strings.Trim(string(f), " \x00")
	if s == "" {
		return 0
	}
	v, _ := strconv.ParseInt(s, 8, 64)
	return v
}

func tarWalk(b []byte) (ents []rawEnt, rest int64, err error) {
	pos := int64(0)
	span := int64(0)
	n := int64(len(b))
	for {
		if pos+512 > n {
			return ents, n - pos + span, nil
		}
		blk := b[pos : pos+512]
		if bytes.Equal(blk, make([]byte, 512)) {
			return ents, n - pos + span, nil
		}
		typ := blk[156]
		size := tarNum(blk[124:136])
		padded := (size + 511) / 512 * 512
		switch typ {
		case 'x', 'L', 'K':
			span += 512 + padded
			pos += 512 + padded
			continue
		case 'g':
			// returned to the caller as an entry by Go's reader; its records are its payload
			ents = append(ents, rawEnt{hlen: span + 512 + padded, size: 0, typ: typ})
			span = 0
			pos += 512 + padded
			continue
		}
		data := size
		switch typ {
		case tar.TypeLink, tar.TypeSymlink, tar.TypeChar, tar.TypeBlock, tar.TypeDir, tar.TypeFifo:
			data = 0
		}
		ents = append(ents, rawEnt{hlen: span + 512, size: data, typ: typ})
		span = 0
		pos += 512 + (data+511)/512*512
		if pos > n {
			return ents, 0, fmt.Errorf("tar walker: entry overruns the stream")
		}
	}
}

// agnostic view of a tar stream: what a runtime that knows nothing about eStargz unpacks.
type tarEnt struct {
	canon   string
	name    string
	typ     byte
	size    int64
	content []byte
	h       *tar.Header
}

var derivedPAX = map[string]bool{"path": true, "linkpath": true, "size": true, "uid": true, "gid": true, "uname": true,
	"gname": true, "mtime": true, "atime": true, "ctime": true}

func canonHeader(h *tar.Header) string {
	var recs []string
	for k, v := range h.PAXRecords {
		if !derivedPAX[k] {
			recs = append(recs, k+"="+v)
		}
	}
	sort.Strings(recs)
	mt := int64(0)
	if !h.ModTime.IsZero() {
		mt = h.ModTime.UnixNano()
	}
	tf := h.Typeflag
	if tf == 0 {
		tf = tar.TypeReg
	}
	return fmt.Sprintf("%c|%q|%q|%d|%o|%d|%d|%q|%q|%d|%d|%d|%q", tf, h.Name, h.Linkname, h.Size, h.Mode, h.Uid, h.Gid,
		h.Uname, h.Gname, mt, h.Devmajor, h.Devminor, recs)
}

func readTar(b []byte) ([]tarEnt, error) {
	var out []tarEnt
	tr := tar.NewReader(bytes.NewReader(b))
	for {
		h, err := tr.Next()
		if err == io.EOF {
			return out, nil
		}
		if err != nil {
			return out, err
		}
		c, err := io.ReadAll(tr)
		if err != nil {
			return out, err
		}
		out = append(out, tarEnt{canon: canonHeader(h), name: h.Name, typ: h.Typeflag, size: h.Size, content: c, h: h})
	}
}

func decompressAll(fmtName string, blob []byte) ([]byte, error) {
	if fmtName == "zstd" {
		zr, err := zstd.NewReader(bytes.NewReader(blob))
		if err != nil {
			return nil, err
		}
		defer zr.Close()
		return io.ReadAll(zr)
	}
	zr, err := gzip.NewReader(bytes.NewReader(blob))
	if err != nil {
		return nil, err
	}
	return io.ReadAll(zr)
}

func sha(b []byte) string { s := sha256.Sum256(b); return "sha256:" + hex.EncodeToString(s[:]) }

// ---------------------------------------------------------------------------------------------
// expected processing order (what the writer is fed)

type procEnt struct {
	src    int    // index into the agnostic view of the input (-1: landmark inserted by Build)
	name   string // raw name
	kind   string // KReg KMeta KToc KBad
	size   int64
	open   bool
	lm     bool
	nameID int
}

func kindOf(typ byte, name string) string {
	if cleanName(name) == tocName {
		return "KToc"
	}
	switch typ {
	case tar.TypeReg, 0:
		return "KReg"
	case tar.TypeLink, tar.TypeSymlink, tar.TypeDir, tar.TypeChar, tar.TypeBlock, tar.TypeFifo:
		return "KMeta"
	}
	return "KBad"
}

func kindByType(typ byte) string {
	switch typ {
	case tar.TypeReg, 0:
		return "KReg"
	case tar.TypeLink, tar.TypeSymlink, tar.TypeDir, tar.TypeChar, tar.TypeBlock, tar.TypeFifo:
		return "KMeta"
	}
	return "KBad"
}

func coqStr(s string) string { return "\"" + strings.ReplaceAll(s, "\"", "\"\"") + "\"%string" }

// simplePrio reports whether every prioritized path is either absent from the tar or a top-level path whose
// surviving entry is not a hardlink: then sortEntries moves exactly the listed entries and the harness's own
// replica [processed] predicts the exact order.  Otherwise (nested paths pull their parent directories, hardlinks
// pull their targets) the order is left to the Coq model (Model/Sort.v composed in Model/EsgzBuild.v) and the
// model-free oracle checks the entry SET (last duplicate by cleaned name wins, one landmark).
func simplePrio(c Case, in []tarEnt) bool {
	last := map[string]byte{}
	for _, e := range in {
		last[cleanName(e.name)] = e.typ
	}
	for _, pn := range c.Prio {
		cn := cleanName(pn)
		t, ok := last[cn]
		if !ok {
			continue
		}
		if cn == "" || strings.Contains(cn, "/") || t == tar.TypeLink {
			return false
		}
	}
	return true
}

// processed returns the entry sequence handed to appendTar: the input order for the Writer; for Build the
// order produced by sortEntries (importTar: landmarks dropped, a later duplicate replaces the earlier one and
// moves to the end; prioritized top-level names first, then the landmark, then the rest).  The generator
// only prioritizes top-level names, whose parents need no entry (the general ordering is C14's subject).
func processed(c Case, in []tarEnt) (seq []procEnt, notFound bool) {
	ids := map[string]int{}
	id := func(n string) int {
		k := cleanName(n)
		if v, ok := ids[k]; ok {
			return v
		}
		ids[k] = len(ids)
		return ids[k]
	}
	mk := func(i int) procEnt {
		e := in[i]
		cn := cleanName(e.name)
		return procEnt{src: i, name: e.name, kind: kindOf(e.typ, e.name), size: e.size, nameID: id(e.name),
			lm: cn == prefetchLM || cn == noPrefetchLM}
	}
	if c.Mode != "build" {
		for i := range in {
			seq = append(seq, mk(i))
		}
		return seq, false
	}
	var stream []procEnt
	for i := range in {
		p := mk(i)
		if p.lm {
			continue
		}
		var f []procEnt
		for _, q := range stream {
			if q.nameID != p.nameID {
				f = append(f, q)
			}
		}
		stream = append(f, p)
	}
	picked := map[int]bool{}
	var first []procEnt
	for _, pn := range c.Prio {
		cn := cleanName(pn)
		found := false
		for _, q := range stream {
			if cleanName(q.name) == cn {
				found = true
				if !picked[q.nameID] {
					picked[q.nameID] = true
					first = append(first, q)
				}
			}
		}
		if !found && !c.Allow {
			return nil, true
		}
	}
	lmName := noPrefetchLM
	if len(c.Prio) > 0 {
		lmName = prefetchLM
	}
	seq = append(first, procEnt{src: -1, name: lmName, kind: "KReg", size: 1, open: true, lm: true, nameID: id(lmName)})
	for _, q := range stream {
		if !picked[q.nameID] {
			seq = append(seq, q)
		}
	}
	return seq, false
}

// ---------------------------------------------------------------------------------------------
// one case: run, read back, oracle, Coq term

type outcome struct {
	coq        string
	problems   []string
	nontrivial bool
	key        string
	stats      []string
}

func nChunks(size int64, chunk int) int64 {
	cs := int64(chunk)
	if cs <= 0 {
		cs = 4 << 20
	}
	return (size + cs - 1) / cs
}

// exec runs the builds of a case one after the other with one compressor value.
func exec(c Case) (o outcome) {
	steps := append([]Case{c}, c.Next...)
	cv := newCompVal(c.Fmt, c.Level, len(steps) > 1)
	var terms []string
	for k, sc := range steps {
		sc.Fmt, sc.Level, sc.Next = c.Fmt, c.Level, nil
		so := execStep(sc, cv)
		terms = append(terms, so.coq)
		for _, p := range so.problems {
			if len(steps) > 1 {
				p = fmt.Sprintf("build #%d with one compressor value: %s", k+1, p)
			}
			o.problems = append(o.problems, p)
		}
		o.stats = append(o.stats, so.stats...)
		o.nontrivial = o.nontrivial || so.nontrivial
	}
	if len(steps) > 1 {
		o.stats = append(o.stats, "reuse."+c.Fmt, fmt.Sprintf("reuse.builds%d", len(steps)))
	}
	o.coq = hx.CoqList(terms)
	o.key = o.coq
	return
}

func execStep(c Case, cv *compVal) (o outcome) {
	bad := func(f string, a ...any) { o.problems = append(o.problems, fmt.Sprintf(f, a...)) }
	count := func(k string) { o.stats = append(o.stats, k) }
	raw := makeTar(c)
	in := compressInput(raw, c.InComp)
	inView, err := readTar(raw)
	if err != nil {
		panic("generator produced an unreadable tar: " + err.Error())
	}
	seq, prioNotFound := processed(c, inView)
	general := c.Mode == "build" && !simplePrio(c, inView)
	if general {
		count("prio.general")
		c2 := c
		c2.Prio = nil
		seq, prioNotFound = processed(c2, inView) // survivors only; the order is rebuilt from the output below
	}
	{
		type grp struct {
			n     int
			raws  map[string]bool
			types map[byte]bool
		}
		gs := map[string]*grp{}
		for _, e := range inView {
			cn := cleanName(e.name)
			g := gs[cn]
			if g == nil {
				g = &grp{raws: map[string]bool{}, types: map[byte]bool{}}
				gs[cn] = g
			}
			g.n++
			g.raws[e.name] = true
			g.types[e.typ] = true
		}
		resp, triple, mixed := false, false, false
		for _, g := range gs {
			if g.n >= 2 && len(g.raws) >= 2 {
				resp = true
				triple = triple || g.n >= 3
				mixed = mixed || len(g.types) >= 2
			}
		}
		if resp {
			count("dup.respelled." + c.Mode)
		}
		if triple {
			count("dup.respelled.triple")
		}
		if mixed {
			count("dup.respelled.mixedtype")
		}
		for _, pn := range c.Prio {
			if pn != cleanName(pn) {
				count("prio.respelled")
				break
			}
		}
	}
	var calls [][]byte
	rgs := callRanges(c)
	for _, rg := range rgs {
		calls = append(calls, compressInput(makeTarRange(c, rg[0], rg[1]), c.InComp))
	}
	if len(rgs) > 1 {
		count("writer.multicall")
		if c.MinChunk > 0 {
			count("writer.multicall.minchunk")
		}
	}
	res := run(c, in, calls, cv)
	count("mode." + c.Mode)
	if c.Helper {
		count("opt.helper." + c.Fmt)
		if c.InComp == "gzip" {
			count("opt.helper.gzipinput")
		}
	}
	if c.Ctx > 0 {
		count("opt.ctx")
	}
	{
		seen := map[string]bool{}
		for _, e := range c.Ops {
			if e.MTime < 0 {
				seen["attr.mtime.negative"] = true
			}
			if e.MTimeNs != 0 {
				seen["attr.mtime.subsecond"] = true
			}
			if e.MTime >= 1<<33-1 {
				seen["attr.mtime.far"] = true
			}
			if e.UID > 2097151 || e.GID > 2097151 {
				seen["attr.id.huge"] = true
			}
			if e.Mode&0o7000 != 0 {
				seen["attr.mode.special"] = true
			}
		}
		for k := range seen {
			count(k)
		}
	}
	count("fmt." + c.Fmt)
	count("incomp." + c.InComp)
	if c.MinChunk > 0 {
		count("minchunk.on")
	}
	if strings.HasPrefix(res.errText, "PANIC") {
		bad("the builder panicked: %s", res.errText)
	}

	// expectation about success, from the documented behaviour
	expectErr := prioNotFound
	for _, p := range seq {
		if p.kind == "KBad" || (p.kind == "KToc" && c.Mode == "lossless") {
			expectErr = true
		}
	}
	if c.InComp == "zstd" && c.Mode != "build" {
		expectErr = true // AppendTar accepts plain or gzip input only
	}
	if general {
		// whether a nested / hardlinked prioritized path is "not found" is decided by the model (C14's sortEntries)
		if expectErr && res.ok {
			bad("unexpected result: ok=%v, expected error=%v", res.ok, expectErr)
		}
	} else if expectErr != !res.ok {
		bad("unexpected result: ok=%v (%s), expected error=%v", res.ok, res.errText, expectErr)
	}

	modeTerm := map[string]string{"writer": "MWriter", "lossless": "MLossless"}[c.Mode]
	workers := c.Workers
	if workers <= 0 {
		workers = runtime.GOMAXPROCS(0)
	}
	if c.Mode == "build" {
		modeTerm = fmt.Sprintf("(MBuild %d)", workers)
	}
	fmtTerm := map[string]string{"gzip": "FGzip", "zstd": "FZstd", "ext": "FExt"}[c.Fmt]

	entTerm := func(i int, p procEnt, hlen int64) string {
		return fmt.Sprintf("mkE %d %d %s %d %d %s %s", i, p.nameID, p.kind, p.size, hlen, hx.CoqBool(p.open), hx.CoqBool(p.lm))
	}
	nlist := func(xs []int64) string {
		s := make([]string, len(xs))
		for i, x := range xs {
			s[i] = fmt.Sprintf("%d", x)
		}
		return hx.CoqList(s)
	}

	// Build from the raw tar: the composed model (sortEntries + writers) gets the input entries themselves
	tarTerm := func() string {
		es := make([]string, len(inView))
		for i, e := range inView {
			l := "None"
			if e.typ == tar.TypeLink {
				l = "(Some " + coqStr(e.h.Linkname) + ")"
			}
			es[i] = fmt.Sprintf("S.mkE %d %s %s", i, coqStr(e.name), l)
		}
		return hx.CoqList(es)
	}
	prioTerm := func() string {
		ps := make([]string, len(c.Prio))
		for i, pn := range c.Prio {
			ps[i] = coqStr(pn)
		}
		return hx.CoqList(ps)
	}
	attrTerm := func(hl map[int]int64) string {
		as := make([]string, len(inView))
		for i, e := range inView {
			h, ok := hl[i]
			if !ok {
				h = 512
			}
			as[i] = fmt.Sprintf("(%s, %d, %d)", kindByType(e.typ), e.size, h)
		}
		return hx.CoqList(as)
	}
	if !res.ok && c.Mode == "build" {
		count("result.error")
		var need int64 = 8
		for _, e := range inView {
			need += nChunks(e.size, c.Chunk) + 1
		}
		ones := make([]int64, need)
		for i := range ones {
			ones[i] = 1
		}
		o.coq = fmt.Sprintf("CB (mkBCase %s (%d)%%Z (%d)%%Z %d %s %s %s %s 512 %s %s 0 0 false [] [] 0 0)", fmtTerm, c.Chunk, c.MinChunk, workers,
			tarTerm(), attrTerm(nil), prioTerm(), hx.CoqBool(c.Allow), nlist(ones), nlist(ones))
		o.key = o.coq
		return
	}
	if !res.ok {
		count("result.error")
		// the model must also fail; oracle values are irrelevant but must not run out
		var need int64 = 4
		ents := make([]string, len(seq))
		for i, p := range seq {
			ents[i] = entTerm(i, p, 512)
			need += nChunks(p.size, c.Chunk) + 1
		}
		if prioNotFound || (c.InComp == "zstd" && c.Mode != "build") {
			// failure before the writer is reached: not a writer case; model a refused entry
			ents = []string{"mkE 0 0 KBad 0 512 false false"}
		}
		ones := make([]int64, need)
		for i := range ones {
			ones[i] = 1
		}
		o.coq = fmt.Sprintf("CW (mkCase %s %s (%d)%%Z (%d)%%Z %s 0 %s %s 0 0 false [] [] 0 0)", modeTerm, fmtTerm, c.Chunk, c.MinChunk,
			hx.CoqList(ents), nlist(ones), nlist(ones))
		o.key = o.coq
		return
	}
	count("result.ok")
	blob := res.blob

	// ---- (1) valid stream of its format; member / frame boundaries ----
	var ms []member
	if c.Fmt == "zstd" {
		ms, err = scanZstd(blob)
	} else {
		ms, err = scanGzip(blob)
	}
	if err != nil {
		bad("output is not a valid %s stream: %v", c.Fmt, err)
		o.coq = "CW (mkCase MWriter FGzip 0%Z 0%Z [] 0 [] [] 0 0 false [] [] 0 0)"
		return
	}
	full, err := decompressAll(c.Fmt, blob)
	if err != nil {
		bad("full decompression of the output failed: %v", err)
	}

	// ---- (2) footer -> TOC, by the documented layout ----
	var tocOff int64 = -1
	var tocBytes []byte
	var footer []byte
	var tocC int64
	payloadEnd := int64(len(blob))
	switch c.Fmt {
	case "gzip":
		if len(blob) < 51 {
			bad("blob shorter than a footer")
			break
		}
		footer = blob[len(blob)-51:]
		want := gzipFooterSpec(append([]byte{'S', 'G', 22, 0}, append(append([]byte{}, footer[16:32]...), "STARGZ"...)...))
		if !bytes.Equal(footer, want) {
			bad("gzip footer does not have the documented 51-byte layout: %x", footer)
		}
		v, perr := strconv.ParseInt(string(footer[16:32]), 16, 64)
		if perr != nil {
			bad("footer offset is not 16 hex digits: %q", footer[16:32])
		}
		tocOff = v
		payloadEnd = tocOff
		for _, m := range ms {
			if m.off == tocOff {
				tocC = m.csize
				te, terr := readTar(m.payload)
				if terr != nil || len(te) != 1 || te[0].name != tocName {
					bad("the member at the footer's offset is not a tar holding only %s (%v)", tocName, terr)
				} else {
					tocBytes = te[0].content
				}
				if m.off+m.csize != int64(len(blob))-51 {
					bad("TOC member is not immediately followed by the footer")
				}
			}
		}
		if tocBytes == nil {
			bad("footer offset %d is not the start of a gzip member", tocOff)
		}
	case "zstd":
		if len(blob) < 48 {
			bad("blob shorter than a footer")
			break
		}
		footer = blob[len(blob)-48:]
		f := footer[8:]
		if !bytes.Equal(footer[:8], []byte{0x50, 0x2a, 0x4d, 0x18, 40, 0, 0, 0}) || !bytes.Equal(f[32:], []byte("GnUlInUx")) ||
			binary.LittleEndian.Uint64(f[24:]) != 1 {
			bad("zstd:chunked footer does not have the documented layout: %x", footer)
		}
		tocOff = int64(binary.LittleEndian.Uint64(f[0:]))
		tocC = int64(binary.LittleEndian.Uint64(f[8:]))
		tocRaw := int64(binary.LittleEndian.Uint64(f[16:]))
		payloadEnd = tocOff - 8
		if tocOff < 8 || tocOff+tocC != int64(len(blob))-48 {
			bad("zstd footer: TOC range [%d,+%d) is not followed by the footer frame", tocOff, tocC)
			break
		}
		if !bytes.Equal(blob[tocOff-8:tocOff-4], []byte{0x50, 0x2a, 0x4d, 0x18}) || int64(binary.LittleEndian.Uint32(blob[tocOff-4:])) != tocC {
			bad("zstd TOC is not wrapped in a skippable frame of its size")
		}
		zd, _ := zstd.NewReader(nil)
		tocBytes, err = zd.DecodeAll(blob[tocOff:tocOff+tocC], nil)
		zd.Close()
		if err != nil {
			bad("zstd TOC frame does not decode: %v", err)
		}
		if int64(len(tocBytes)) != tocRaw {
			bad("zstd footer: uncompressed TOC size %d, real %d", tocRaw, len(tocBytes))
		}
	case "ext":
		if len(blob) < 46 {
			bad("blob shorter than a footer")
			break
		}
		footer = blob[len(blob)-46:]
		if !bytes.Equal(footer, gzipFooterSpec(append([]byte{'S', 'G', 17, 0}, "STARGZEXTERNALTOC"...))) {
			bad("external-TOC footer does not have the documented 46-byte layout: %x", footer)
		}
		payloadEnd = int64(len(blob)) - 46
		tm, terr := scanGzip(res.extTOC)
		if terr != nil || len(tm) != 1 {
			bad("external TOC is not one gzip member: %v", terr)
			break
		}
		te, terr := readTar(tm[0].payload)
		if terr != nil || len(te) != 1 || te[0].name != tocName {
			bad("external TOC is not a tar holding only %s", tocName)
			break
		}
		tocBytes = te[0].content
	}
	var toc tocJSON
	if tocBytes != nil {
		if err := json.Unmarshal(tocBytes, &toc); err != nil {
			bad("TOC is not valid JSON: %v", err)
		}
		if toc.Version != 1 {
			bad("TOC version %d", toc.Version)
		}
	}
	// payload members = the data part before the TOC
	var pm []member
	var payload []byte
	for _, m := range ms {
		if m.off < payloadEnd && !m.skippable {
			pm = append(pm, m)
			payload = append(payload, m.payload...)
		}
	}
	var ptotal int64
	for _, m := range pm {
		ptotal += m.csize
	}
	if ptotal != payloadEnd {
		bad("payload members cover %d bytes, the TOC / footer starts at %d", ptotal, payloadEnd)
	}

	// ---- (3) clause: full decompression is a tar with exactly the expected entries ----
	outView, err := readTar(full)
	if err != nil {
		bad("decompressed output is not a readable tar: %v", err)
	}
	if general {
		// entry SET: every output entry is the landmark or the surviving (last, by cleaned name) input entry of its
		// path, each exactly once; the order itself is checked against the composed Coq model
		lmName := prefetchLM
		outs := outView
		if c.Fmt == "gzip" && len(outs) > 0 && outs[len(outs)-1].name == tocName {
			outs = outs[:len(outs)-1]
		}
		used := map[int]bool{}
		var seq2 []procEnt
		for _, oe := range outs {
			if oe.name == lmName || oe.name == noPrefetchLM {
				if oe.name != lmName {
					bad("prioritized files given but the landmark is %q", oe.name)
				}
				seq2 = append(seq2, procEnt{src: -1, name: oe.name, kind: "KReg", size: 1, open: true, lm: true})
				continue
			}
			found := false
			for qi, q := range seq {
				if q.src >= 0 && q.kind != "KToc" && !used[qi] && cleanName(q.name) == cleanName(oe.name) {
					used[qi], found = true, true
					seq2 = append(seq2, q)
					break
				}
			}
			if !found {
				bad("output entry %q is not the surviving input entry of its path (superseded, dropped or invented)", oe.name)
			}
		}
		for qi, q := range seq {
			if q.src >= 0 && q.kind != "KToc" && !used[qi] {
				bad("input entry %q (last of its path) is missing from the output", q.name)
			}
		}
		seq = seq2
	}
	var expect []tarEnt
	for _, p := range seq {
		if p.kind == "KToc" {
			continue
		}
		if p.src < 0 {
			h := &tar.Header{Name: p.name, Typeflag: tar.TypeReg, Size: 1}
			expect = append(expect, tarEnt{canon: canonHeader(h), name: p.name, typ: tar.TypeReg, size: 1, content: []byte{0xf}, h: h})
		} else {
			expect = append(expect, inView[p.src])
		}
	}
	wantN := len(expect)
	if c.Fmt == "gzip" && c.Mode != "lossless" {
		wantN++
		if len(outView) == 0 || outView[len(outView)-1].name != tocName {
			bad("gzip format: the TOC entry is not the last tar entry")
		} else if !bytes.Equal(outView[len(outView)-1].content, tocBytes) {
			bad("the TOC tar entry differs from the TOC found through the footer")
		}
	}
	if len(outView) != wantN {
		bad("unpacked entry count %d, expected %d (input entries%s)", len(outView), wantN, map[bool]string{true: " + landmark", false: ""}[c.Mode == "build"])
	}
	for i := range expect {
		if i >= len(outView) {
			break
		}
		if outView[i].canon != expect[i].canon {
			bad("entry %d metadata changed: got %s want %s", i, outView[i].canon, expect[i].canon)
		}
		if !bytes.Equal(outView[i].content, expect[i].content) {
			bad("entry %d (%s) content changed", i, expect[i].name)
		}
	}
	nlm := 0
	for _, e := range outView {
		cn := cleanName(e.name)
		if cn == prefetchLM || cn == noPrefetchLM {
			nlm++
		}
	}
	if c.Mode == "build" && nlm != 1 {
		bad("built blob holds %d landmark entries", nlm)
	}

	// ---- (4) clause: the same blob read through the TOC yields the same files ----
	startIdx := map[int64]int{}
	for i, m := range pm {
		startIdx[m.off] = i
	}
	fromMember := func(i int, n int64) []byte {
		var b []byte
		for ; i < len(pm) && int64(len(b)) < n; i++ {
			b = append(b, pm[i].payload...)
		}
		return b
	}
	type tocT struct {
		id                               int
		typ                              string
		size, off, inner, coff, csizeFld int64
	}
	var tts []tocT
	ei := -1 // index into expect / processed-non-toc
	var fileBuf []byte
	var cur *tarEnt
	var curSize int64
	procIdx := []int{} // expect index -> seq index
	for i, p := range seq {
		if p.kind != "KToc" {
			procIdx = append(procIdx, i)
		}
	}
	finishFile := func() {
		if cur != nil && cur.typ == tar.TypeReg && curSize > 0 {
			if !bytes.Equal(fileBuf, cur.content) {
				bad("file %q read through the TOC (%d bytes) differs from the input (%d bytes)", cur.name, len(fileBuf), len(cur.content))
			}
		}
	}
	lastU, lastG := map[int]string{}, map[int]string{}
	for ti, te := range toc.Entries {
		if te.Type != "chunk" {
			finishFile()
			ei++
			fileBuf = nil
			if ei >= len(expect) {
				bad("TOC has more entries than the archive (entry %d %q)", ti, te.Name)
				break
			}
			cur = &expect[ei]
			curSize = te.Size
			h := cur.h
			wantType := map[byte]string{tar.TypeReg: "reg", 0: "reg", tar.TypeDir: "dir", tar.TypeSymlink: "symlink", tar.TypeLink: "hardlink",
				tar.TypeChar: "char", tar.TypeBlock: "block", tar.TypeFifo: "fifo"}[h.Typeflag]
			wantSize := int64(0)
			if wantType == "reg" {
				wantSize = h.Size
			}
			un, gn := te.Uname, te.Gname
			if un == "" {
				un = lastU[te.UID]
			} else {
				lastU[te.UID] = un
			}
			if gn == "" {
				gn = lastG[te.GID]
			} else {
				lastG[te.GID] = gn
			}
			wantMT := ""
			if !h.ModTime.IsZero() && h.ModTime.Unix() != 0 {
				wantMT = h.ModTime.UTC().Round(time.Second).Format(time.RFC3339)
			}
			xa := map[string]string{}
			for k, v := range h.PAXRecords {
				if strings.HasPrefix(k, "SCHILY.xattr.") {
					xa[k[len("SCHILY.xattr."):]] = v
				}
			}
			okx := len(xa) == len(te.Xattrs)
			for k, v := range xa {
				if string(te.Xattrs[k]) != v {
					okx = false
				}
			}
			var diffs []string
			df := func(cond bool, what string) {
				if cond {
					diffs = append(diffs, what)
				}
			}
			df(te.Name != h.Name, "name")
			df(te.Type != wantType, "type")
			df(te.Size != wantSize, "size")
			df(te.LinkName != h.Linkname, "linkName")
			df(te.Mode != h.Mode, "mode")
			df(te.UID != h.Uid || te.GID != h.Gid, "uid/gid")
			// userName / groupName are delta-encoded per uid: an entry without a name inherits the last one; only a
			// name present in the tar header must be recoverable
			df(h.Uname != "" && un != h.Uname, "userName")
			df(h.Gname != "" && gn != h.Gname, "groupName")
			df(te.ModTime != wantMT, "modtime")
			df(!okx, "xattrs")
			df((wantType == "char" || wantType == "block") && (te.DevMajor != h.Devmajor || te.DevMinor != h.Devminor), "dev")
			if len(diffs) > 0 {
				bad("TOC entry %d %+v does not describe tar entry %s: %v", ti, te, cur.canon, diffs)
			}
			if wantType == "reg" {
				if te.Digest != sha(cur.content) {
					bad("TOC digest of %q is not the SHA-256 of its content", te.Name)
				}
			}
		} else {
			if cur == nil || te.Name != cur.name {
				bad("chunk entry %d %q does not follow its file", ti, te.Name)
				continue
			}
		}
		isData := te.Type == "chunk" || (te.Type == "reg" && te.Size > 0)
		tt := tocT{typ: "TOther", size: te.Size, off: te.Offset, inner: te.InnerOffset, coff: te.ChunkOffset, csizeFld: te.ChunkSize}
		if ei >= 0 && ei < len(procIdx) {
			tt.id = procIdx[ei]
		}
		if te.Type == "reg" {
			tt.typ = "TReg"
		} else if te.Type == "chunk" {
			tt.typ = "TChunk"
		}
		tts = append(tts, tt)
		if !isData {
			continue
		}
		if te.ChunkOffset != int64(len(fileBuf)) {
			bad("chunk of %q starts at %d, previous chunks end at %d", te.Name, te.ChunkOffset, len(fileBuf))
		}
		n := te.ChunkSize
		if n == 0 {
			n = curSize - te.ChunkOffset
		}
		mi, okm := startIdx[te.Offset]
		if !okm {
			bad("TOC offset %d of %q (chunk offset %d) is not the start of a %s member", te.Offset, te.Name, te.ChunkOffset, c.Fmt)
			fileBuf = append(fileBuf, make([]byte, n)...)
			continue
		}
		if te.InnerOffset > 0 {
			count("toc.inner")
		}
		if te.Type == "chunk" {
			count("toc.chunk")
		}
		s := fromMember(mi, te.InnerOffset+n)
		if int64(len(s)) < te.InnerOffset+n {
			bad("chunk of %q: stream from offset %d is shorter than innerOffset+size", te.Name, te.Offset)
			fileBuf = append(fileBuf, make([]byte, n)...)
			continue
		}
		ch := s[te.InnerOffset : te.InnerOffset+n]
		if sha(ch) != te.ChunkDigest {
			bad("chunk of %q at offset %d/inner %d does not hash to its chunkDigest", te.Name, te.Offset, te.InnerOffset)
		}
		fileBuf = append(fileBuf, ch...)
	}
	finishFile()
	if tocBytes != nil && ei != len(expect)-1 {
		bad("TOC describes %d entries, the archive has %d", ei+1, len(expect))
	}

	// ---- (5) clause: reported digests and sizes ----
	if tocBytes != nil && res.tocDigest != sha(tocBytes) {
		bad("reported TOC digest %s is not the SHA-256 of the TOC JSON %s", res.tocDigest, sha(tocBytes))
	}
	if full != nil && res.diffID != sha(full) {
		bad("reported DiffID %s is not the SHA-256 of the decompressed blob %s", res.diffID, sha(full))
	}
	if c.Mode == "build" && res.uncSize != int64(len(full)) {
		bad("UncompressedSize %d, decompressed stream has %d bytes", res.uncSize, len(full))
	}
	// ---- (6) clause: lossless gives the input back byte for byte ----
	if c.Mode == "lossless" {
		count("lossless.checked")
		if !bytes.Equal(payload, raw) {
			bad("lossless: decompressed payload (%d bytes) differs from the input tar (%d bytes)", len(payload), len(raw))
		}
		if c.Fmt != "gzip" && !bytes.Equal(full, raw) {
			bad("lossless: full decompression differs from the input tar")
		}
	}
	// ---- (7) the reader of the repository agrees (Unpack) ----
	if len(pm) == 0 && c.Fmt == "gzip" {
		// a Writer fed an empty tar produces TOC + footer only; Unpack then hands zero bytes to gzip.NewReader, which
		// reports EOF.  The blob itself satisfies every clause above (Unpack is not part of the property text).
		count("unpack.emptypayload")
	} else if up, uerr := estargz.Unpack(io.NewSectionReader(bytes.NewReader(blob), 0, int64(len(blob))), decompressorFor(c, res)); uerr != nil {
		bad("estargz.Unpack fails on the built blob: %v", uerr)
	} else {
		ub, rerr := io.ReadAll(up)
		up.Close()
		want := payload
		if c.Fmt == "ext" {
			want = full // blobPayloadSize < 0: the whole blob including the empty footer member
		}
		if rerr != nil || !bytes.Equal(ub, want) {
			bad("estargz.Unpack returns %d bytes (%v), the payload has %d", len(ub), rerr, len(want))
		}
	}

	// ---- (8) the repository's own reader accepts, verifies and reads the blob (estargz.Open / VerifyTOC) ----
	hasLink := false
	nameCount := map[string]int{}
	for _, e := range expect {
		if e.typ == tar.TypeLink {
			hasLink = true
		}
		nameCount[cleanName(e.name)]++
	}
	if rd, oerr := estargz.Open(io.NewSectionReader(bytes.NewReader(blob), 0, int64(len(blob))), estargz.WithDecompressors(decompressorFor(c, res))); oerr != nil {
		if hasLink {
			count("open.skipped") // a dangling / directory hardlink of the INPUT is refused by Open: not a defect of the blob
		} else {
			bad("estargz.Open fails on the built blob: %v", oerr)
		}
	} else {
		count("open.checked")
		td, _ := digest.Parse(res.tocDigest)
		ev, verr := rd.VerifyTOC(td)
		if verr != nil {
			bad("estargz.Reader.VerifyTOC rejects the built blob: %v", verr)
		}
		for _, e := range expect {
			cn := cleanName(e.name)
			if (e.typ != tar.TypeReg && e.typ != 0) || nameCount[cn] != 1 || cn == "" {
				continue
			}
			te, ok := rd.Lookup(e.name)
			if !ok || te.Type != "reg" {
				if !hasLink {
					bad("estargz.Reader.Lookup(%q) does not find the regular file", e.name)
				}
				continue
			}
			sr, ferr := rd.OpenFile(e.name)
			if ferr != nil {
				bad("estargz.Reader.OpenFile(%q): %v", e.name, ferr)
				continue
			}
			got, rerr := io.ReadAll(io.NewSectionReader(sr, 0, int64(len(e.content))))
			if rerr != nil || !bytes.Equal(got, e.content) {
				bad("estargz.Reader reads %d bytes of %q (%v), the input has %d", len(got), e.name, rerr, len(e.content))
			}
			if ev == nil {
				continue
			}
			for off := int64(0); off < int64(len(e.content)); {
				ce, ok := rd.ChunkEntryForOffset(e.name, off)
				if !ok {
					bad("estargz.Reader has no chunk of %q for offset %d", e.name, off)
					break
				}
				n := ce.ChunkSize
				if n == 0 {
					n = int64(len(e.content)) - ce.ChunkOffset
				}
				v, cerr := ev.Verifier(ce)
				if cerr != nil {
					bad("no verifier for the chunk of %q at %d: %v", e.name, off, cerr)
					break
				}
				if ce.ChunkOffset+n > int64(len(e.content)) || n <= 0 {
					bad("chunk of %q at %d has range [%d,+%d) outside the file", e.name, off, ce.ChunkOffset, n)
					break
				}
				v.Write(e.content[ce.ChunkOffset : ce.ChunkOffset+n])
				if !v.Verified() {
					bad("the verifier of the chunk of %q at %d rejects the chunk's bytes", e.name, off)
				}
				off = ce.ChunkOffset + n
			}
		}
	}

	// ---- oracle values for the model ----
	walk, rest, werr := tarWalk(payload)
	if werr != nil {
		bad("%v", werr)
	}
	if len(walk) != len(expect) {
		bad("own tar walker sees %d entries in the payload, expected %d", len(walk), len(expect))
	}
	ents := make([]string, len(seq))
	wi := 0
	for i, p := range seq {
		hl := int64(512)
		if p.kind != "KToc" {
			if wi < len(walk) {
				hl = walk[wi].hlen
			}
			wi++
		}
		ents[i] = entTerm(i, p, hl)
	}
	tlen := int64(0)
	if c.Mode == "lossless" {
		// from the INPUT: the raw bytes after the last entry's padding (end-of-archive marker and anything after it)
		_, tlen, _ = tarWalk(raw)
		_ = rest
	}
	var cs []int64
	for _, m := range pm {
		cs = append(cs, m.csize)
	}
	var fs []int64
	if c.MinChunk > 0 {
		fs = res.flushes
		// cross-check of the two observation channels: the Close trace must be the scanned member sizes
		if len(res.closes) != len(cs) {
			bad("writer closed %d members, the scanner found %d", len(res.closes), len(cs))
		} else {
			for i := range cs {
				if cs[i] != res.closes[i] {
					bad("member %d: scanned size %d, traced size %d", i, cs[i], res.closes[i])
				}
			}
		}
	}
	tocs := make([]string, len(tts))
	for i, t := range tts {
		tocs[i] = fmt.Sprintf("mkT %d %s %d %d %d %d %d", t.id, t.typ, t.size, t.off, t.inner, t.coff, t.csizeFld)
	}
	fb := make([]string, len(footer))
	for i, x := range footer {
		fb[i] = fmt.Sprintf("%d", x)
	}
	if c.Mode == "build" {
		// ids of the composed model: position in the input tar; the landmark gets the first unused id
		hl := map[int]int64{}
		lmh := int64(512)
		wj := 0
		for _, p := range seq {
			if p.kind == "KToc" {
				continue
			}
			if wj < len(walk) {
				if p.src < 0 {
					lmh = walk[wj].hlen
				} else {
					hl[p.src] = walk[wj].hlen
				}
			}
			wj++
		}
		idOf := func(seqIdx int) int {
			if seqIdx < len(seq) && seq[seqIdx].src >= 0 {
				return seq[seqIdx].src
			}
			return len(inView)
		}
		for i, t := range tts {
			tocs[i] = fmt.Sprintf("mkT %d %s %d %d %d %d %d", idOf(t.id), t.typ, t.size, t.off, t.inner, t.coff, t.csizeFld)
		}
		o.coq = fmt.Sprintf("CB (mkBCase %s (%d)%%Z (%d)%%Z %d %s %s %s %s %d %s %s %d %d true %s %s %d %d)", fmtTerm, c.Chunk, c.MinChunk, workers,
			tarTerm(), attrTerm(hl), prioTerm(), hx.CoqBool(c.Allow), lmh, nlist(cs), nlist(fs), len(tocBytes), tocC,
			hx.CoqList(tocs), hx.CoqList(fb), len(blob), len(full))
	} else {
		o.coq = fmt.Sprintf("CW (mkCase %s %s (%d)%%Z (%d)%%Z %s %d %s %s %d %d true %s %s %d %d)", modeTerm, fmtTerm, c.Chunk, c.MinChunk,
			hx.CoqList(ents), tlen, nlist(cs), nlist(fs), len(tocBytes), tocC, hx.CoqList(tocs), hx.CoqList(fb), len(blob), len(full))
	}
	o.key = o.coq
	nchunk := 0
	for _, t := range tts {
		if t.typ == "TChunk" {
			nchunk++
		}
	}
	o.nontrivial = len(pm) >= 2 && len(tts) >= 3
	if len(pm) > 1 && c.Mode == "build" && c.MinChunk <= 0 && workers > 1 {
		count("build.parallel")
	}
	if nchunk > 0 {
		count("case.chunked")
	}
	return
}

func decompressorFor(c Case, res result) estargz.Decompressor {
	switch c.Fmt {
	case "zstd":
		return &zstdchunked.Decompressor{}
	case "ext":
		return externaltoc.NewGzipDecompressor(func() ([]byte, error) { return res.extTOC, nil })
	}
	return &estargz.GzipDecompressor{}
}

// ---------------------------------------------------------------------------------------------
// generator

// spell returns one of the many spellings of the clean relative path p that estargz's cleanEntryName (and any
// tar extractor) maps to the same file: leading "./", "/", "../", "//", doubled slashes, "/./" or "/x/../"
// inside, and for directories an optional trailing slash.  Every occurrence of a path picks its spelling
// independently, so duplicates are usually spelled differently.
func spell(r *hx.Rng, p string, dir bool) string {
	s := p
	if strings.Contains(s, "/") && r.Chance(2, 5) {
		parts := strings.Split(s, "/")
		k := 1 + r.Intn(len(parts)-1)
		sep := []string{"//", "/./", "/x/../", "///"}[r.Intn(4)]
		s = strings.Join(parts[:k], "/") + sep + strings.Join(parts[k:], "/")
	}
	s = []string{"", "", "./", "/", "../", "//", "./../", "/./"}[r.Intn(8)] + s
	if dir && r.Chance(2, 3) {
		s += "/"
	}
	if cleanName(s) != p {
		panic(fmt.Sprintf("generator: spelling %q of %q is not equivalent", s, p))
	}
	return s
}

func gen(r *hx.Rng) Case {
	c := Case{}
	c.Mode = []string{"build", "build", "writer", "lossless"}[r.Pick(4, 3, 4, 3)]
	c.Fmt = []string{"gzip", "zstd", "ext"}[r.Pick(5, 3, 3)]
	c.Chunk = []int{0, 64, 100, 512, 1000, 4096}[r.Pick(1, 3, 3, 3, 3, 2)]
	if r.Chance(1, 3) {
		c.MinChunk = []int{1, 50, 300, 2000, 10000}[r.Intn(5)]
	}
	c.Level = []int{1, 1, 9, -1, 0, 5}[r.Intn(6)]
	c.Workers = r.Pick(1, 2, 3, 2, 2, 1, 1, 1, 1, 1) // 0..9
	if c.Mode == "build" {
		c.Helper = r.Chance(1, 3)
		c.Ctx = r.Pick(3, 1, 1)
	}
	c.InComp = "none"
	if r.Chance(1, 4) || (c.Helper && r.Bool()) {
		c.InComp = "gzip"
	} else if c.Mode == "build" && r.Chance(1, 5) {
		c.InComp = "zstd"
	}
	if c.Mode == "lossless" && r.Chance(1, 4) {
		c.Trail = []int{512, 1024, 10240 - 1024}[r.Intn(3)]
	}
	cs := c.Chunk
	if cs == 0 {
		cs = 700
	}
	n := r.Pick(1, 2, 3, 3, 3, 3, 2, 2, 2, 1, 1, 1, 1)
	names := []string{"a", "b", "dir", "dir/c", "dir/sub/d", "e", "f.txt", "g", "h", "a/b.txt", strings.Repeat("long/", 25) + "name", "a"}
	for i := 0; i < n; i++ {
		e := Ent{Name: names[r.Intn(len(names))], Mode: []int64{0o644, 0o755, 0o600, 0o4755, 0o1777, 0o2755, 0o6711, 0o7777, 0, 0o1}[r.Pick(4, 4, 3, 2, 1, 1, 1, 1, 1, 1)]}
		plain := r.Bool() // keep the path as is for every type: duplicates of mixed types
		if r.Chance(1, 2) {
			e.UID, e.GID = r.Intn(3)*1000, r.Intn(2)*100
			if r.Bool() {
				e.Uname, e.Gname = []string{"root", "alice"}[e.UID%2000/1000], []string{"wheel", "staff"}[e.GID/100]
			}
			if r.Chance(1, 5) {
				// ids at the limits of the ustar octal fields and of int32
				e.UID = []int{2097151, 2097152, 1<<31 - 1, 65534}[r.Intn(4)]
				e.GID = []int{0, 2097151, 2097152, 1<<31 - 1}[r.Intn(4)]
			}
		}
		switch r.Pick(3, 10, 2, 2, 1, 1) {
		case 1:
			e.MTime = int64(1_600_000_000 + r.Intn(1000))
		case 2: // before / at the epoch
			e.MTime = []int64{-1, -86400 * 365, -2208988800, 1, -1}[r.Intn(5)]
			if r.Chance(1, 3) {
				e.MTimeNs = 250000000
			}
		case 3: // sub-second (rounded in the TOC), incl. the fractions that round up and the first second
			e.MTime = []int64{1_600_000_000, 0, 1, 1_599_999_999}[r.Intn(4)]
			e.MTimeNs = []int64{500000000, 499999999, 999999999, 1}[r.Intn(4)]
		case 4: // beyond the 11 octal digits of ustar
			e.MTime = []int64{1 << 33, 1<<33 - 1, 253402300799, 4102444800}[r.Intn(4)]
		case 5:
			e.MTime = 1 << 31
		}
		switch r.Pick(12, 3, 2, 2, 1, 1, 1) {
		case 0:
			e.Type = "reg"
			e.Seed = r.U64()
			switch r.Pick(2, 2, 3, 3, 3, 2, 2, 2, 3) {
			case 0:
				e.Size = 0
			case 1:
				e.Size = 1 + r.Intn(20)
			case 2:
				e.Size = cs - 1 + r.Intn(3)
			case 3:
				e.Size = 2*cs - 1 + r.Intn(3)
			case 4:
				e.Size = cs*r.Range(1, 6) + r.Intn(cs)
			case 5:
				e.Size = 511 + r.Intn(3)
			case 6:
				e.Size = 1024
			case 7:
				e.Size = r.Intn(6 * cs)
			case 8:
				e.Size = cs * r.Range(1, 4)
			}
			if e.Size > 30000 {
				e.Size = 30000
			}
		case 1:
			e.Type = "dir"
			if !plain {
				e.Name += "d"
			}
		case 2:
			e.Type = "symlink"
			e.Link = []string{"a", "../x", "/abs/target"}[r.Intn(3)]
			if !plain {
				e.Name += "s"
			}
		case 3:
			e.Type = "link"
			e.Link = []string{"a", "b", "dir/c"}[r.Intn(3)]
			if !plain {
				e.Name += "l"
			}
		case 4:
			e.Type = "char"
			e.Major, e.Minor = []int64{0, 1, 4, 255, 256, 2097151}[r.Intn(6)], []int64{0, 5, 255, 256, 1048575, 2097151}[r.Intn(6)]
			if !plain {
				e.Name += "c"
			}
		case 5:
			e.Type = "block"
			e.Major, e.Minor = []int64{0, 8, 259, 4095, 2097151}[r.Intn(5)], []int64{0, 1, 16, 2097151}[r.Intn(4)]
			if !plain {
				e.Name += "b"
			}
		case 6:
			e.Type = "fifo"
			if !plain {
				e.Name += "p"
			}
		}
		if r.Chance(1, 6) {
			e.Xattrs = map[string]string{"user.k": "v" + fmt.Sprint(r.Intn(9))}
			if r.Bool() {
				e.Xattrs["security.selinux"] = "system_u:object_r:x:s0"
			}
		}
		e.Name = spell(r, e.Name, e.Type == "dir")
		c.Ops = append(c.Ops, e)
	}
	// duplicates: 1 or 2 further occurrences of an existing path, each under its own spelling, same or another type
	for rounds := r.Pick(5, 4, 1); rounds > 0 && len(c.Ops) > 0; rounds-- {
		src := c.Ops[r.Intn(len(c.Ops))]
		for k := r.Range(1, 2); k > 0; k-- {
			d := src
			d.Seed = r.U64()
			switch r.Pick(6, 2, 1, 1) {
			case 1:
				d.Type, d.Link, d.Size = "reg", "", 1+r.Intn(2*cs)
			case 2:
				d.Type, d.Link, d.Size = "dir", "", 0
			case 3:
				d.Type, d.Link, d.Size = "symlink", "a", 0
			default:
				if d.Type == "reg" {
					d.Size = r.Intn(2*cs + 1)
				}
			}
			d.Name = spell(r, cleanName(src.Name), d.Type == "dir")
			at := r.Intn(len(c.Ops) + 1)
			c.Ops = append(c.Ops[:at], append([]Ent{d}, c.Ops[at:]...)...)
		}
	}
	// already-eStargz input: landmark and TOC entries at arbitrary places
	if r.Chance(1, 6) {
		for k := r.Range(1, 2); k > 0; k-- {
			lm := Ent{Name: spell(r, []string{prefetchLM, noPrefetchLM}[r.Intn(2)], false), Type: "reg", Size: 1, Seed: 3, Mode: 0o644}
			at := r.Intn(len(c.Ops) + 1)
			c.Ops = append(c.Ops[:at], append([]Ent{lm}, c.Ops[at:]...)...)
		}
	}
	if r.Chance(1, 7) {
		for k := r.Pick(3, 1) + 1; k > 0; k-- {
			te := Ent{Name: spell(r, tocName, false), Type: "reg", Size: 20 + r.Intn(2000), Seed: 4, Mode: 0o644}
			at := len(c.Ops)
			if r.Chance(1, 3) {
				at = r.Intn(len(c.Ops) + 1)
			}
			c.Ops = append(c.Ops[:at], append([]Ent{te}, c.Ops[at:]...)...)
		}
	}
	if r.Chance(1, 30) {
		at := r.Intn(len(c.Ops) + 1)
		c.Ops = append(c.Ops[:at], append([]Ent{{Type: "xglobal"}}, c.Ops[at:]...)...)
	}
	if c.Mode == "writer" && len(c.Ops) > 1 && r.Chance(2, 5) {
		c.Split = []int{r.Range(1, len(c.Ops)-1)}
		if r.Bool() && c.Split[0]+1 < len(c.Ops) {
			c.Split = append(c.Split, r.Range(c.Split[0]+1, len(c.Ops)-1))
		}
	}
	var top []string
	{
		last := map[string]string{}
		var order []string
		for _, e := range c.Ops {
			cn := cleanName(e.Name)
			if _, ok := last[cn]; !ok {
				order = append(order, cn)
			}
			last[cn] = e.Type
		}
		for _, cn := range order {
			if cn != "" && !strings.Contains(cn, "/") && last[cn] != "link" && last[cn] != "xglobal" && cn != tocName && cn != prefetchLM && cn != noPrefetchLM {
				top = append(top, cn)
			}
		}
	}
	if c.Mode == "build" && r.Chance(1, 4) {
		// general prioritized list: any path of the tar (nested: parents are pulled; hardlinks: targets are pulled),
		// in any spelling
		var all []string
		seen := map[string]bool{}
		for _, e := range c.Ops {
			cn := cleanName(e.Name)
			if cn != "" && !seen[cn] && e.Type != "xglobal" && cn != tocName && cn != prefetchLM && cn != noPrefetchLM {
				seen[cn] = true
				all = append(all, cn)
			}
		}
		for k := r.Range(1, 3); k > 0 && len(all) > 0; k-- {
			c.Prio = append(c.Prio, spell(r, all[r.Intn(len(all))], r.Chance(1, 4)))
		}
		if r.Chance(1, 6) {
			c.Prio = append(c.Prio, "dir/missing")
		}
		c.Allow = r.Chance(1, 2)
	} else if c.Mode == "build" && len(top) > 0 && r.Chance(2, 5) {
		k := r.Range(1, 2)
		for i := 0; i < k; i++ {
			c.Prio = append(c.Prio, spell(r, top[r.Intn(len(top))], r.Chance(1, 4)))
		}
		if r.Chance(1, 5) {
			c.Prio = append(c.Prio, "missing-file")
			c.Allow = r.Chance(2, 3)
		}
	}
	return c
}

// genChain: with some probability the case goes on with 1-2 further builds of DIFFERENT tars (any mode) that reuse
// the compressor value of the first one.
func genChain(r *hx.Rng) Case {
	c := gen(r)
	if r.Chance(1, 4) {
		for k := r.Range(1, 2); k > 0; k-- {
			n := gen(r.Fork())
			n.Fmt, n.Level = c.Fmt, c.Level
			c.Next = append(c.Next, n)
		}
	}
	return c
}

func main() {
	ctx := hx.Start()
	emit := func(c Case) {
		o := exec(c)
		for _, k := range o.stats {
			ctx.Count(k)
		}
		id := ctx.Case(o.coq, c, o.key, o.nontrivial)
		for _, p := range o.problems {
			ctx.Violation(id, p, nil)
		}
	}
	if ctx.Replay != "" {
		var c Case
		ctx.LoadReplay(&c)
		emit(c)
		ctx.Finish()
		return
	}
	reg := func(name string, size int) Ent {
		return Ent{Name: name, Type: "reg", Size: size, Seed: uint64(size)*7 + 1, Mode: 0o644, MTime: 1600000000}
	}
	corpus := []Case{
		{Mode: "writer", Fmt: "gzip", Chunk: 100, Level: 1, InComp: "none", Ops: []Ent{reg("a", 250), {Name: "d/", Type: "dir", Mode: 0o755}, reg("d/b", 100), reg("e", 0)}},
		{Mode: "build", Fmt: "gzip", Chunk: 64, Level: 9, Workers: 3, InComp: "gzip", Ops: []Ent{reg("a", 300), reg("b", 64), reg("a", 10), reg("c", 129)}},
		{Mode: "build", Fmt: "gzip", Chunk: 1000, MinChunk: 300, Level: 1, Workers: 4, InComp: "none", Prio: []string{"b"}, Ops: []Ent{reg("a", 30), reg("b", 700), reg("c", 2500), reg("d", 5)}},
		{Mode: "writer", Fmt: "zstd", Chunk: 512, MinChunk: 2000, InComp: "none", Ops: []Ent{reg("a", 1500), reg("b", 10), reg("c", 513)}},
		{Mode: "lossless", Fmt: "ext", Chunk: 512, Level: 1, InComp: "gzip", Trail: 1024, Ops: []Ent{reg("a", 1500), {Name: "s", Type: "symlink", Link: "a"}, reg("c", 513)}},
		{Mode: "build", Fmt: "zstd", Chunk: 100, Workers: 8, InComp: "zstd", Ops: []Ent{reg("a", 1), reg("b", 1), reg("c", 1), reg(tocName, 50), reg(noPrefetchLM, 1), reg("d", 1000)}},
		{Mode: "lossless", Fmt: "gzip", Chunk: 100, Level: 1, InComp: "none", Ops: []Ent{reg("a", 10), reg(tocName, 5)}},
		{Mode: "build", Fmt: "ext", Chunk: 100, Level: 1, Workers: 2, InComp: "none", Ops: []Ent{}},
		// the same path under different spellings: the LAST occurrence (by cleaned name) must be the only survivor in Build
		{Mode: "build", Fmt: "gzip", Chunk: 100, Level: 1, Workers: 3, InComp: "none", Ops: []Ent{reg("a/b.txt", 150), reg("c", 300), reg("./a/b.txt", 20), reg("d", 1), reg("/a/b.txt", 333)}},
		{Mode: "build", Fmt: "zstd", Chunk: 64, Workers: 1, InComp: "none", Ops: []Ent{{Name: "d/", Type: "dir", Mode: 0o755}, reg("a//x", 70), {Name: "s", Type: "symlink", Link: "a"},
			{Name: "./d", Type: "dir", Mode: 0o700}, reg("a/./x", 5), reg("/s", 9), reg("../a/x", 129), {Name: "//d/", Type: "dir", Mode: 0o711}}},
		{Mode: "build", Fmt: "ext", Chunk: 512, Level: 1, Workers: 4, InComp: "gzip", Prio: []string{"./p", "../q/"}, Ops: []Ent{reg("p", 600), reg("q", 10), reg("./"+noPrefetchLM, 1),
			reg("/p", 30), reg("//"+tocName, 40), reg("r", 1500), reg("./q", 513), reg("../"+tocName, 50), reg("/"+prefetchLM, 1)}},
		{Mode: "build", Fmt: "gzip", Chunk: 1000, MinChunk: 2000, Level: 1, Workers: 2, InComp: "none", Ops: []Ent{reg("dir/sub/d", 1200), reg("dir//sub/d", 10), reg("dir/sub/./d", 2100), reg("e", 5)}},
		{Mode: "writer", Fmt: "gzip", Chunk: 100, Level: 1, InComp: "none", Ops: []Ent{reg("a", 10), reg("./a", 120), reg("/a", 0)}},
		// entry attributes at their boundaries (pre-1970, sub-second and far-future mtime, huge ids, special mode bits,
		// large device numbers), through every path
		{Mode: "build", Fmt: "gzip", Chunk: 100, Level: 1, Workers: 2, InComp: "none", Ops: []Ent{
			{Name: "old", Type: "reg", Size: 120, Seed: 5, Mode: 0o4755, MTime: -1}, {Name: "older/", Type: "dir", Mode: 0o1777, MTime: -2208988800},
			{Name: "half", Type: "reg", Size: 3, Seed: 6, Mode: 0o644, MTime: 1600000000, MTimeNs: 500000000, UID: 2097152, GID: 1<<31 - 1},
			{Name: "future", Type: "symlink", Link: "old", Mode: 0o777, MTime: 1 << 33}, {Name: "first", Type: "reg", Size: 0, Mode: 0, MTime: 1},
			{Name: "dev", Type: "block", Mode: 0o660, Major: 2097151, Minor: 2097151, MTime: 253402300799}}},
		{Mode: "writer", Fmt: "zstd", Chunk: 64, InComp: "gzip", Ops: []Ent{{Name: "neg", Type: "reg", Size: 70, Seed: 7, Mode: 0o6711, MTime: -86400, MTimeNs: 250000000, UID: 65534, GID: 2097151},
			{Name: "almost", Type: "reg", Size: 1, Seed: 8, Mode: 0o2755, MTime: 0, MTimeNs: 999999999}}},
		{Mode: "lossless", Fmt: "ext", Chunk: 512, Level: 1, InComp: "none", Ops: []Ent{{Name: "neg", Type: "fifo", Mode: 0o600, MTime: -1}, {Name: "c", Type: "char", Mode: 0o620, Major: 4, Minor: 256, MTime: 1<<33 - 1}}},
		// every Build option crossed with every compression: in-process gzip helper, contexts
		{Mode: "build", Fmt: "zstd", Chunk: 100, Workers: 2, InComp: "gzip", Helper: true, Ctx: 1, Ops: []Ent{reg("a", 250), reg("b", 0)}},
		{Mode: "build", Fmt: "zstd", Chunk: 100, MinChunk: 300, Workers: 1, InComp: "none", Helper: true, Ops: []Ent{reg("a", 150), reg("b", 150)}},
		{Mode: "build", Fmt: "ext", Chunk: 64, Level: 1, Workers: 3, InComp: "gzip", Helper: true, Ctx: 2, Ops: []Ent{reg("a", 130)}},
		{Mode: "build", Fmt: "gzip", Chunk: 64, Level: 9, Workers: 3, InComp: "gzip", Helper: true, Ops: []Ent{reg("a", 130), reg("b", 64)}},
		{Mode: "build", Fmt: "gzip", Chunk: 1000, MinChunk: 50, Level: 1, Workers: 2, InComp: "zstd", Helper: true, Ctx: 2, Prio: []string{"b"}, Ops: []Ent{reg("a", 130), reg("b", 64)}},
		// one compressor VALUE used for several builds of different tars (external TOC: WriteTOCTo must give the TOC of the last build)
		{Mode: "build", Fmt: "ext", Chunk: 100, Level: 1, Workers: 2, InComp: "none", Ops: []Ent{reg("first/a", 250), reg("first/b", 10)},
			Next: []Case{{Mode: "build", Chunk: 64, Workers: 3, InComp: "none", Ops: []Ent{reg("second/x.txt", 300), reg("second/y.txt", 1), reg("second/z.txt", 129)}},
				{Mode: "writer", Chunk: 512, InComp: "gzip", Ops: []Ent{reg("third", 700)}}}},
		{Mode: "writer", Fmt: "ext", Chunk: 100, MinChunk: 300, Level: 9, InComp: "none", Ops: []Ent{reg("a", 120), reg("b", 5)},
			Next: []Case{{Mode: "lossless", Chunk: 100, InComp: "none", Ops: []Ent{reg("c", 333)}}}},
		{Mode: "build", Fmt: "zstd", Chunk: 100, Workers: 2, InComp: "none", Ops: []Ent{reg("a", 250)},
			Next: []Case{{Mode: "build", Chunk: 100, MinChunk: 300, Workers: 1, InComp: "none", Ops: []Ent{reg("b", 150), reg("c", 150)}}}},
		{Mode: "build", Fmt: "gzip", Chunk: 100, Level: 1, Workers: 2, InComp: "none", Ops: []Ent{reg("a", 250)},
			Next: []Case{{Mode: "writer", Chunk: 64, InComp: "none", Ops: []Ent{reg("b", 150)}}, {Mode: "build", Chunk: 0, Workers: 4, InComp: "none", Ops: []Ent{reg("c", 99), reg("d", 0)}}}},
		// two AppendTar calls sharing one compression stream (C03-fix-1)
		{Mode: "writer", Fmt: "gzip", MinChunk: 5000, Level: 1, InComp: "none", Split: []int{1}, Ops: []Ent{reg("a", 300), reg("b", 200)}},
		{Mode: "writer", Fmt: "zstd", Chunk: 100, MinChunk: 300, InComp: "gzip", Split: []int{1, 2}, Ops: []Ent{reg("a", 250), reg("b", 200), {Name: "d/", Type: "dir", Mode: 0o755}, reg("c", 1)}},
	}
	for _, c := range corpus {
		emit(c)
	}
	r := hx.NewRng(ctx.Seed)
	for i := len(corpus); i < ctx.N; i++ {
		emit(genChain(r.Fork()))
	}
	ctx.Finish()
}
