// C17 sub-step harness: drives the real fusemanager.Server with CONCURRENT requests. Every Mount/Check/Unmount
// runs in its own goroutine and is stopped at each sub-step boundary (entry of the filesystem call = gate in the
// recording filesystem; before the fsMap update and before the fusestore write = verifPoint hooks), so the harness
// chooses the interleaving and can kill the manager between any two sub-steps. Per case it prints the effective
// sub-step history and the observations (result, backend calls, status / fsMap / bolt bucket / what every instance
// serves, where every request stands) as Coq terms for Model/FusemgrSub.v. Model-free oracle: clauses of C17 at
// quiescent points, and "no mountpoint is mounted twice" at every point.
package main

import (
	"context"
	"encoding/json"
	"errors"
	"fmt"
	"io"
	"os"
	"path/filepath"
	"sort"
	"strconv"
	"strings"
	"sync"
	"sync/atomic"
	"time"

	"github.com/containerd/log"
	fsconfig "github.com/containerd/stargz-snapshotter/fs/config"
	"github.com/containerd/stargz-snapshotter/fusemanager"
	pb "github.com/containerd/stargz-snapshotter/fusemanager/api"
	"github.com/containerd/stargz-snapshotter/service"
	"github.com/containerd/stargz-snapshotter/snapshot"
	"github.com/sirupsen/logrus"
	"verif/harness/hx"
)

// ---- case format ----

type Op struct {
	Op     string `json:"op"` // bmount bcheck bunmount adv init close restart
	M      int    `json:"m,omitempty"`
	L      int    `json:"l,omitempty"`
	C      int    `json:"c,omitempty"`
	T      int    `json:"t,omitempty"` // adv: request handle = index of its begin op among the begin ops of the case
	Ok     bool   `json:"ok,omitempty"`
	Stage  string `json:"stage,omitempty"`
	Script []bool `json:"script,omitempty"`
}

type Call struct{ I, K, M, L int }
type Rec struct{ M, L, C int }

type View struct {
	Status int
	Closed bool
	Cur    int
	FsMap  [][2]int
	Store  []Rec
	Cfgs   []int
	Mnts   [][][2]int
}

type Obs struct {
	Res   int // 0 in flight 1 ok 2 err 3 panic 4 blocked
	Calls []Call
	View  View
	Pcs   []int
}

type Case struct {
	Ops []Op `json:"ops"`
}

// ---- naming (same as cmd/fusemgr) ----

const extMP = "/proc"

// Mountpoints are opaque strings for the manager (fsMap and the bolt bucket are keyed by the exact string), so
// every SPELLING is its own model key, also several spellings of one directory (trailing slash, doubled slash,
// "/./", "/x/../"). The table is sorted bytewise: model key = index, so numeric order = bolt iteration order.
var mpNames = []string{
	extMP,
	"/verif-c17/./mp2",
	"/verif-c17/mp1",
	"/verif-c17/mp1/",
	"/verif-c17/mp1//",
	"/verif-c17/mp2",
	"/verif-c17/mp3",
}

func init() {
	for i := 1; i < len(mpNames); i++ {
		if !(mpNames[i-1] < mpNames[i]) {
			panic("HARNESS: mountpoint table is not sorted")
		}
	}
}

func mpName(m int) string {
	if m >= 0 && m < len(mpNames) {
		return mpNames[m]
	}
	return fmt.Sprintf("/verif-c17/zz%d", m)
}

func mpID(s string) int {
	for i, n := range mpNames {
		if n == s {
			return i
		}
	}
	return 990
}

func labelsOf(l int) map[string]string {
	if l == 0 {
		return nil
	}
	return map[string]string{"verif.l": strconv.Itoa(l), "containerd.io/snapshot/remote/stargz.reference": fmt.Sprintf("registry.invalid/img:%d", l)}
}

func labelsID(lb map[string]string) int {
	if len(lb) == 0 {
		return 0
	}
	n, err := strconv.Atoi(lb["verif.l"])
	if err != nil || len(lb) != 2 || lb["containerd.io/snapshot/remote/stargz.reference"] != fmt.Sprintf("registry.invalid/img:%d", n) {
		return 991
	}
	return n
}

func cfgOf(c int) *fusemanager.Config {
	return &fusemanager.Config{Config: service.Config{Config: fsconfig.Config{
		PrefetchSize: int64(1000 + c), NoPrometheus: true, HTTPCacheType: "memory", FSCacheType: "memory"}}}
}

func cfgID(root string, c *service.Config) int {
	if c == nil {
		return 992
	}
	id := int(c.PrefetchSize) - 1000
	if !strings.HasSuffix(root, fmt.Sprintf("/root-%d", id)) {
		return 993
	}
	return id
}

// ---- requests (goroutines) and gates ----

type gateCmd struct{ ok bool }

type request struct {
	h     int // handle (begin order in the case)
	tid   int // model thread id (effective begin order), -1 while waiting for the per-mountpoint mutex
	kind  string
	m, l  int
	gen   int          // process generation it belongs to
	at    chan string  // goroutine -> harness: name of the gate reached, or "done"
	gate  chan gateCmd // harness -> goroutine: go on
	where string       // "" = not started / waiting for a mutex, gate name, or "done"
	res   int
	dead  atomic.Bool // its process was killed
}

type ctxKey struct{}

var errInjected = errors.New("injected failure")

type world struct {
	mu                sync.Mutex // protects recorder state against the request goroutines
	dir               string
	storePath         string
	srv               *fusemanager.Server
	gen               int
	insts             []*recFS
	reqs              []*request
	ntid              int
	inInit            bool
	script            []bool
	cfgFuncErr, fsErr bool
	calls             []Call
	problems          []string
}

var cur *world

type recFS struct {
	w       *world
	id      int
	cfg     int
	gen     int
	mounted [][2]int
}

func (w *world) servedBy(m int) []int {
	var r []int
	for _, f := range w.insts {
		for _, e := range f.mounted {
			if e[0] == m {
				r = append(r, f.id)
			}
		}
	}
	return r
}

// stop blocks the calling request goroutine at a gate until the harness lets it go on.
func stop(ctx context.Context, name string) (gateCmd, *request) {
	rq, _ := ctx.Value(ctxKey{}).(*request)
	if rq == nil {
		return gateCmd{ok: true}, nil
	}
	if rq.dead.Load() {
		return gateCmd{}, rq
	}
	rq.at <- name
	return <-rq.gate, rq
}

func (f *recFS) Mount(ctx context.Context, mountpoint string, labels map[string]string) error {
	w := f.w
	m, l := mpID(mountpoint), labelsID(labels)
	cmd, rq := stop(ctx, "fs.mount")
	w.mu.Lock()
	defer w.mu.Unlock()
	if rq != nil && rq.dead.Load() {
		return errInjected
	}
	w.calls = append(w.calls, Call{f.id, 0, m, l})
	ok := cmd.ok
	if rq == nil { // restore inside Init
		ok = true
		if len(w.script) > 0 {
			ok = w.script[0]
			w.script = w.script[1:]
		}
	}
	if !ok {
		return errInjected
	}
	f.mounted = append([][2]int{{m, l}}, f.mounted...)
	return nil
}

func (f *recFS) Check(ctx context.Context, mountpoint string, labels map[string]string) error {
	w := f.w
	m, l := mpID(mountpoint), labelsID(labels)
	cmd, rq := stop(ctx, "fs.check")
	w.mu.Lock()
	defer w.mu.Unlock()
	if rq != nil && rq.dead.Load() {
		return errInjected
	}
	w.calls = append(w.calls, Call{f.id, 1, m, l})
	if !cmd.ok {
		return errInjected
	}
	return nil
}

func (f *recFS) Unmount(ctx context.Context, mountpoint string) error {
	w := f.w
	m := mpID(mountpoint)
	cmd, rq := stop(ctx, "fs.unmount")
	w.mu.Lock()
	defer w.mu.Unlock()
	if rq != nil && rq.dead.Load() {
		return errInjected
	}
	w.calls = append(w.calls, Call{f.id, 2, m, 0})
	if !cmd.ok {
		return errInjected
	}
	for i, e := range f.mounted {
		if e[0] == m {
			f.mounted = append(append([][2]int{}, f.mounted[:i]...), f.mounted[i+1:]...)
			break
		}
	}
	return nil
}

func install() {
	fusemanager.VerifSetFS(func(root string, cfg *fusemanager.Config, real snapshot.FileSystem, err error) (snapshot.FileSystem, error) {
		w := cur
		if err != nil {
			w.problems = append(w.problems, "HARNESS: real service.NewFileSystem failed: "+err.Error())
		}
		if w.fsErr {
			return nil, errInjected
		}
		var sc *service.Config
		if cfg != nil {
			sc = &cfg.Config
		}
		f := &recFS{w: w, id: len(w.insts), cfg: cfgID(root, sc), gen: w.gen}
		w.insts = append(w.insts, f)
		return f, nil
	})
	fusemanager.RegisterConfigFunc(func(cc *fusemanager.ConfigContext) ([]service.Option, error) {
		if cur.cfgFuncErr {
			return nil, errInjected
		}
		return nil, nil
	})
	fusemanager.VerifSetPoint(func(ctx context.Context, name string) { stop(ctx, name) })
}

func (w *world) start() {
	srv, err := fusemanager.NewFuseManager(context.Background(), nil, nil, w.storePath, filepath.Join(w.dir, "fm.sock"))
	if err != nil {
		panic("HARNESS: NewFuseManager: " + err.Error())
	}
	w.srv = srv
}

func newWorld() *world {
	base := ""
	if os.Getenv("TMPDIR") == "" {
		if st, e := os.Stat("/dev/shm"); e == nil && st.IsDir() {
			base = "/dev/shm"
		}
	}
	dir, err := os.MkdirTemp(base, "verif-c17s-")
	if err != nil {
		panic(err)
	}
	w := &world{dir: dir, storePath: filepath.Join(dir, "store", "fusestore.db")}
	cur = w
	w.start()
	return w
}

// kill lets every request of the dead process run to its end without effects.
func (w *world) kill() {
	for _, rq := range w.reqs {
		if rq.where != "done" {
			rq.dead.Store(true)
		}
	}
	for _, rq := range w.reqs {
		for rq.where != "done" {
			if rq.where != "" {
				rq.gate <- gateCmd{}
			}
			select {
			case ev := <-rq.at:
				rq.where = ev
			case <-time.After(10 * time.Second):
				panic("HARNESS: a request of the killed process does not finish")
			}
		}
	}
}

func (w *world) cleanup() {
	if w.srv != nil {
		w.srv.VerifCrash()
	}
	w.kill()
	os.RemoveAll(w.dir)
}

// wait waits for the next event of a request; blocked=true if nothing happens for a while
// (the request waits for a mutex held by another request).
func (w *world) wait(rq *request, patience time.Duration) (blocked bool) {
	select {
	case ev := <-rq.at:
		rq.where = ev
		return false
	case <-time.After(patience):
		return true
	}
}

func (w *world) spawn(kind string, m, l int) *request {
	rq := &request{h: len(w.reqs), tid: -1, kind: kind, m: m, l: l, gen: w.gen, at: make(chan string, 1), gate: make(chan gateCmd)}
	w.reqs = append(w.reqs, rq)
	srv := w.srv
	ctx := context.WithValue(context.Background(), ctxKey{}, rq)
	go func() {
		var err error
		panicked := false
		func() {
			defer func() {
				if r := recover(); r != nil {
					panicked = true
				}
			}()
			switch kind {
			case "mount":
				_, err = srv.Mount(ctx, &pb.MountRequest{Mountpoint: mpName(m), Labels: labelsOf(l)})
			case "check":
				_, err = srv.Check(ctx, &pb.CheckRequest{Mountpoint: mpName(m), Labels: labelsOf(l)})
			case "unmount":
				_, err = srv.Unmount(ctx, &pb.UnmountRequest{Mountpoint: mpName(m)})
			}
		}()
		switch {
		case panicked:
			rq.res = 3
		case err != nil:
			rq.res = 2
		default:
			rq.res = 1
		}
		rq.at <- "done"
	}()
	return rq
}

func pcode(rq *request) int {
	switch rq.where {
	case "fs.mount":
		return 1
	case "mount.table":
		return 2
	case "mount.record":
		return 3
	case "fs.unmount":
		return 4
	case "unmount.table":
		return 5
	case "unmount.record":
		return 6
	case "fs.check":
		return 7
	}
	return 0
}

func (w *world) view() View {
	status, fm, recs, serr := w.srv.VerifDump()
	st := 9
	switch status {
	case fusemanager.FuseManagerNotReady:
		st = 0
	case fusemanager.FuseManagerWaitInit:
		st = 1
	case fusemanager.FuseManagerReady:
		st = 2
	}
	v := View{Status: st, Closed: serr != nil, Cur: -1, FsMap: [][2]int{}, Store: []Rec{}, Cfgs: []int{}, Mnts: [][][2]int{}}
	if f, ok := w.srv.VerifCurFS().(*recFS); ok && f != nil {
		v.Cur = f.id
	} else if w.srv.VerifCurFS() != nil {
		v.Cur = 994
	}
	for k, f := range fm {
		id := 995
		if r, ok := f.(*recFS); ok {
			id = r.id
		}
		v.FsMap = append(v.FsMap, [2]int{mpID(k), id})
	}
	sort.Slice(v.FsMap, func(i, j int) bool { return v.FsMap[i][0] < v.FsMap[j][0] })
	for _, r := range recs {
		m := mpID(r.Mountpoint)
		if r.Key != r.Mountpoint {
			m = 996
		}
		c := r.Config
		v.Store = append(v.Store, Rec{m, labelsID(r.Labels), cfgID(r.Root, &c)})
	}
	w.mu.Lock()
	for _, f := range w.insts {
		v.Cfgs = append(v.Cfgs, f.cfg)
		v.Mnts = append(v.Mnts, append([][2]int{}, f.mounted...))
	}
	w.mu.Unlock()
	return v
}

func (w *world) pcs() []int {
	n := 0
	for _, rq := range w.reqs {
		if rq.tid >= 0 {
			n++
		}
	}
	p := make([]int, n)
	for _, rq := range w.reqs {
		if rq.tid >= 0 && rq.gen == w.gen {
			p[rq.tid] = pcode(rq)
		}
	}
	return p
}

// held: a Mount/Unmount of mountpoint m has begun and is not finished
func (w *world) held(m int) bool {
	for _, rq := range w.reqs {
		if rq.gen == w.gen && rq.tid >= 0 && rq.where != "done" && rq.kind != "check" && rq.m == m {
			return true
		}
	}
	return false
}

func (w *world) busy() bool {
	for _, rq := range w.reqs {
		if rq.gen == w.gen && rq.where != "done" {
			return true
		}
	}
	return false
}

// ---- execution: returns the effective model history with observations, and oracle failures ----

type step struct {
	coq string
	obs Obs
}

func inSet(xs [][2]int, m int) (int, bool) {
	for _, e := range xs {
		if e[0] == m {
			return e[1], true
		}
	}
	return 0, false
}

func exec(c Case, ctx *hx.Ctx) ([]step, []string) {
	w := newWorld()
	defer w.cleanup()
	var steps []step
	problems := []string{}
	bad := func(i int, f string, a ...any) {
		problems = append(problems, fmt.Sprintf("op %d (%s): ", i, c.Ops[i].Op)+fmt.Sprintf(f, a...))
	}
	lastInitOK := false
	pending := map[int]bool{}
	var waiting []*request // requests waiting for a per-mountpoint mutex
	emit := func(i int, coq string, res int) {
		v := w.view()
		w.mu.Lock()
		calls := append([]Call{}, w.calls...)
		w.calls = nil
		probs := w.problems
		w.problems = nil
		w.mu.Unlock()
		steps = append(steps, step{coq, Obs{Res: res, Calls: calls, View: v, Pcs: w.pcs()}})
		for _, p := range probs {
			bad(i, "%s", p)
		}
		if res == 3 {
			bad(i, "the RPC method panicked")
		}
		// at every point: no mountpoint is mounted twice
		seen := map[int]int{}
		for _, mn := range v.Mnts {
			for _, e := range mn {
				seen[e[0]]++
			}
		}
		for m, n := range seen {
			if n > 1 {
				bad(i, "mountpoint %d is mounted %d times (served by %v)", m, n, w.servedBy(m))
			}
		}
		// at quiescent points: table = what is served; store = live + records the last Init left unrestored
		if !w.busy() {
			for _, e := range v.FsMap {
				if by := w.servedBy(e[0]); len(by) != 1 || by[0] != e[1] {
					bad(i, "quiescent: mountpoint %d: manager says instance %d, served by %v", e[0], e[1], by)
				}
			}
			for m := range seen {
				if _, ok := inSet(v.FsMap, m); !ok {
					bad(i, "quiescent: mountpoint %d is served but unknown to the manager", m)
				}
			}
			if v.Status == 2 && !v.Closed {
				rec := map[int]bool{}
				for _, r := range v.Store {
					rec[r.M] = true
					if _, ok := inSet(v.FsMap, r.M); !ok {
						if !pending[r.M] {
							bad(i, "quiescent: mountpoint %d is recorded, not served, and was not left unrestored by the last Init", r.M)
						} else if lastInitOK {
							bad(i, "quiescent: mountpoint %d is recorded but not served although the last Init reported success", r.M)
						}
					}
				}
				for _, e := range v.FsMap {
					if !rec[e[0]] {
						bad(i, "quiescent: mountpoint %d is served but not recorded", e[0])
					}
				}
			}
		}
	}
	begun := func(i int, rq *request) {
		// the request has passed its lock acquisitions: it is now a model thread
		rq.tid = w.ntid
		w.ntid++
		// two Mount/Unmount requests of one mountpoint in flight together
		if rq.kind != "check" && rq.where != "done" {
			for _, o := range w.reqs {
				if o != rq && o.gen == w.gen && o.tid >= 0 && o.where != "done" && o.kind != "check" && o.m == rq.m {
					bad(i, "requests %d (%s) and %d (%s) for mountpoint %d are in flight together", o.h, o.kind, rq.h, rq.kind, rq.m)
				}
			}
		}
		name := map[string]string{"mount": fmt.Sprintf("BMount %d %d", rq.m, rq.l), "check": fmt.Sprintf("BCheck %d %d", rq.m, rq.l), "unmount": fmt.Sprintf("BUnmount %d", rq.m)}[rq.kind]
		res := 0
		if rq.where == "done" {
			res = rq.res
		}
		emit(i, name, res)
	}
	wake := func(i int) {
		// requests that waited for a mutex may have got it now
		var still []*request
		for _, rq := range waiting {
			if rq.gen != w.gen {
				continue
			}
			if w.held(rq.m) {
				still = append(still, rq) // the mutex it waits for is still held
				continue
			}
			if w.wait(rq, 20*time.Second) {
				panic("HARNESS: a request waiting for a free per-mountpoint mutex does not go on")
			}
			begun(i, rq)
		}
		waiting = still
	}
	nbegin := 0
	handles := []*request{}
	for i, o := range c.Ops {
		switch o.Op {
		case "bmount", "bcheck", "bunmount":
			kind := o.Op[1:]
			rq := w.spawn(kind, o.M, o.L)
			handles = append(handles, rq)
			nbegin++
			// Only a request for a mountpoint on which another Mount/Unmount is in flight can be waiting for the
			// per-mountpoint mutex; only then is silence interpreted as "waits" (otherwise wait for its event).
			patience := 20 * time.Second
			if kind != "check" && w.held(o.M) {
				patience = 150 * time.Millisecond
			}
			if w.wait(rq, patience) {
				if patience > time.Second {
					panic("HARNESS: request does not reach its first sub-step")
				}
				// waits for a mutex: in the model this begin does nothing now
				waiting = append(waiting, rq)
				name := map[string]string{"mount": fmt.Sprintf("BMount %d %d", o.M, o.L), "unmount": fmt.Sprintf("BUnmount %d", o.M), "check": fmt.Sprintf("BCheck %d %d", o.M, o.L)}[kind]
				emit(i, name, 4)
			} else {
				begun(i, rq)
			}
		case "adv":
			if o.T < 0 || o.T >= len(handles) || handles[o.T].tid < 0 || handles[o.T].gen != w.gen || handles[o.T].where == "done" {
				tid := 900
				if o.T >= 0 && o.T < len(handles) && handles[o.T].tid >= 0 {
					tid = handles[o.T].tid
				}
				emit(i, fmt.Sprintf("Adv %d %s", tid, hx.CoqBool(o.Ok)), 4)
				break
			}
			rq := handles[o.T]
			rq.gate <- gateCmd{ok: o.Ok}
			if w.wait(rq, 10*time.Second) {
				panic("HARNESS: request does not reach its next sub-step")
			}
			res := 0
			if rq.where == "done" {
				res = rq.res
			}
			emit(i, fmt.Sprintf("Adv %d %s", rq.tid, hx.CoqBool(o.Ok)), res)
			if rq.where == "done" {
				wake(i)
			}
		case "init", "close":
			if w.busy() {
				continue // would wait for the requests in flight: another schedule
			}
			w.inInit, w.script, w.cfgFuncErr, w.fsErr = o.Op == "init", append([]bool{}, o.Script...), false, false
			var err error
			panicked := false
			func() {
				defer func() {
					if r := recover(); r != nil {
						panicked = true
					}
				}()
				if o.Op == "close" {
					err = w.srv.Close(context.Background())
					return
				}
				root := filepath.Join(w.dir, fmt.Sprintf("root-%d", o.C))
				b, _ := json.Marshal(cfgOf(o.C))
				switch o.Stage {
				case "json":
					b = []byte("{not json")
				case "cfgfunc":
					w.cfgFuncErr = true
				case "fs":
					w.fsErr = true
				}
				_, err = w.srv.Init(context.Background(), &pb.InitRequest{Root: root, Config: b})
			}()
			w.inInit = false
			res := 1
			if panicked {
				res = 3
			} else if err != nil {
				res = 2
			}
			if o.Op == "close" {
				emit(i, "SClose", res)
			} else {
				st := map[string]string{"json": "IBadJSON", "cfgfunc": "ICfgFuncFail", "fs": "IFsFail", "run": "IRun"}[o.Stage]
				sc := make([]string, len(o.Script))
				for j, b := range o.Script {
					sc[j] = hx.CoqBool(b)
				}
				// unrestored records after this Init
				v := w.view()
				lastInitOK = res == 1
				pending = map[int]bool{}
				for _, r := range v.Store {
					if _, ok := inSet(v.FsMap, r.M); !ok {
						pending[r.M] = true
					}
				}
				emit(i, fmt.Sprintf("SInit %d %s %s", o.C, st, hx.CoqList(sc)), res)
			}
		case "restart":
			if e := w.srv.VerifCrash(); e != nil {
				bad(i, "HARNESS: closing the store handle failed: %v", e)
			}
			w.kill()
			w.mu.Lock()
			for _, f := range w.insts {
				f.mounted = nil
			}
			w.calls = nil
			w.mu.Unlock()
			// model thread ids keep counting; requests that never became threads are forgotten
			waiting = nil
			w.gen++
			w.start()
			lastInitOK, pending = false, map[int]bool{}
			emit(i, "SRestart", 1)
		}
	}
	_ = nbegin
	_ = ctx
	return steps, problems
}

// ---- Coq printing ----

func coqPairs(xs [][2]int) string {
	s := make([]string, len(xs))
	for i, e := range xs {
		s[i] = fmt.Sprintf("pr %d %d", e[0], e[1])
	}
	return hx.CoqList(s)
}

func coqObs(o Obs) string {
	cs := make([]string, len(o.Calls))
	for i, c := range o.Calls {
		cs[i] = fmt.Sprintf("cl %d %s %d %d", c.I, []string{"KMount", "KCheck", "KUnmount"}[c.K], c.M, c.L)
	}
	v := o.View
	st := "NotReady"
	switch v.Status {
	case 1:
		st = "WaitInit"
	case 2:
		st = "Ready"
	}
	curS := "no"
	if v.Cur >= 0 {
		curS = fmt.Sprintf("(sm %d)", v.Cur)
	}
	sto := make([]string, len(v.Store))
	for i, r := range v.Store {
		sto[i] = fmt.Sprintf("rc %d %d %d", r.M, r.L, r.C)
	}
	mn := make([]string, len(v.Mnts))
	for i, m := range v.Mnts {
		mn[i] = coqPairs(m)
	}
	return fmt.Sprintf("sob %d %s (vw %s %s %s %s %s %s %s) %s", o.Res, hx.CoqList(cs), st, hx.CoqBool(v.Closed), curS,
		coqPairs(v.FsMap), hx.CoqList(sto), hx.CoqNatList(v.Cfgs), hx.CoqList(mn), hx.CoqNatList(o.Pcs))
}

func coqCase(steps []step) string {
	ops := make([]string, len(steps))
	obs := make([]string, len(steps))
	for i, s := range steps {
		ops[i] = s.coq
		obs[i] = coqObs(s.obs)
	}
	// per-mountpoint mutex present (patches/C17-fix-2.diff); externally mounted = {0}
	return fmt.Sprintf("cas true [0] %s %s", hx.CoqList(ops), hx.CoqList(obs))
}

// ---- generation ----

const nMP, nLbl, nCfg = 6, 3, 3

type genReq struct {
	h     int
	kind  string
	m     int
	steps int // sub-steps still to go at most
}

func gen(r *hx.Rng) Case {
	c := Case{}
	add := func(o Op) { c.Ops = append(c.Ops, o) }
	initOp := func() Op {
		o := Op{Op: "init", C: r.Intn(nCfg), Stage: "run"}
		switch r.Pick(80, 7, 7, 6) {
		case 1:
			o.Stage = "fs"
		case 2:
			o.Stage = "cfgfunc"
		case 3:
			o.Stage = "json"
		}
		if o.Stage == "run" {
			for j := r.Pick(5, 2, 2, 1); j > 0; j-- {
				o.Script = append(o.Script, !r.Chance(2, 5))
			}
		}
		return o
	}
	if !r.Chance(1, 8) {
		o := initOp()
		if r.Chance(4, 5) {
			o.Stage, o.Script = "run", nil
		}
		add(o)
	}
	var fly []*genReq
	nh := 0
	n := r.Range(6, 26)
	drain := func() {
		for len(fly) > 0 {
			q := fly[0]
			for ; q.steps > 0; q.steps-- {
				add(Op{Op: "adv", T: q.h, Ok: !r.Chance(1, 8)})
			}
			fly = fly[1:]
		}
	}
	for len(c.Ops) < n {
		switch r.Pick(30, 10, 20, 60, 8, 1, 7) {
		case 0, 1, 2:
			kind := []string{"mount", "check", "unmount"}[r.Pick(30, 10, 20)]
			m := 1 + r.Intn(nMP)
			if r.Chance(1, 15) {
				m = 0
			}
			// usually respect the client's discipline (one Mount/Unmount per mountpoint at a time);
			// sometimes overlap on purpose (with the per-mountpoint mutex the second one waits)
			clash := false
			for _, q := range fly {
				if q.kind != "check" && q.m == m && kind != "check" {
					clash = true
				}
			}
			if clash && !r.Chance(1, 4) {
				continue
			}
			if clash {
				// at most one waiter per mountpoint (the order in which waiters get a mutex is not ours to choose)
				cnt := 0
				for _, q := range fly {
					if q.m == m && q.kind != "check" {
						cnt++
					}
				}
				if cnt > 1 {
					continue
				}
			}
			add(Op{Op: "b" + kind, M: m, L: r.Intn(nLbl)})
			fly = append(fly, &genReq{h: nh, kind: kind, m: m, steps: 3})
			nh++
		case 3:
			if len(fly) == 0 {
				continue
			}
			j := r.Intn(len(fly))
			q := fly[j]
			add(Op{Op: "adv", T: q.h, Ok: !r.Chance(1, 8)})
			q.steps--
			if q.steps == 0 {
				fly = append(fly[:j], fly[j+1:]...)
			}
		case 4:
			drain()
			add(initOp())
		case 5:
			drain()
			add(Op{Op: "close"})
		case 6:
			// crash between sub-steps, usually followed by Init
			add(Op{Op: "restart"})
			fly = nil
			if r.Chance(4, 5) {
				o := initOp()
				if r.Chance(2, 3) {
					o.Stage = "run"
				}
				add(o)
			}
		}
	}
	drain()
	return c
}

func main() {
	ctx := hx.Start()
	logrus.SetOutput(io.Discard)
	log.L.Logger.SetOutput(io.Discard)
	install()
	emit := func(c Case) {
		steps, problems := exec(c, ctx)
		maxfly, crashfly, blocked := 0, false, false
		for i, s := range steps {
			ctx.Count("op." + strings.Fields(s.coq)[0])
			fl := 0
			for _, p := range s.obs.Pcs {
				if p != 0 {
					fl++
					ctx.Count(fmt.Sprintf("pc.%d", p))
				}
			}
			if fl > maxfly {
				maxfly = fl
			}
			if s.coq == "SRestart" && i > 0 {
				for _, p := range steps[i-1].obs.Pcs {
					if p == 2 || p == 3 || p == 5 || p == 6 {
						crashfly = true
						ctx.Count(fmt.Sprintf("crash.at-pc.%d", p))
					}
				}
			}
			if s.obs.Res == 4 && strings.HasPrefix(s.coq, "B") {
				blocked = true
				ctx.Count("begin.waits-for-mountpoint-mutex")
			}
		}
		for _, o := range c.Ops {
			ctx.Count("in." + o.Op)
		}
		if maxfly >= 2 {
			ctx.Count("case.concurrent")
		}
		ctx.CountN("steps", len(steps))
		term := coqCase(steps)
		id := ctx.Case(term, c, term, maxfly >= 2 || crashfly || blocked)
		for _, p := range problems {
			if strings.Contains(p, "HARNESS:") {
				panic(p)
			}
			ctx.Violation(id, p, nil)
		}
	}
	if ctx.Replay != "" {
		var c Case
		ctx.LoadReplay(&c)
		emit(c)
		ctx.Finish()
		return
	}
	ini := Op{Op: "init", Stage: "run"}
	adv := func(t int) Op { return Op{Op: "adv", T: t, Ok: true} }
	corpus := []Case{
		// two Mounts of one mountpoint begun together (the double mount of the code as found)
		{Ops: []Op{ini, {Op: "bmount", M: 1, L: 1}, {Op: "bmount", M: 1, L: 2}, adv(0), adv(1), adv(0), adv(1), adv(0), adv(1), adv(1), adv(1), {Op: "bcheck", M: 1, L: 1}, adv(2)}},
		// Mount of a mountpoint whose Unmount is between the filesystem call and the table update (stale record)
		{Ops: []Op{ini, {Op: "bmount", M: 1, L: 1}, adv(0), adv(0), adv(0), {Op: "bunmount", M: 1}, adv(1), {Op: "bmount", M: 1, L: 2}, adv(1), adv(1), adv(2), adv(2), adv(2)}},
		// crashes between sub-steps: mounted but not recorded; recorded... then Init
		{Ops: []Op{ini, {Op: "bmount", M: 1, L: 1}, adv(0), adv(0), {Op: "restart"}, {Op: "init", C: 1, Stage: "run"}, {Op: "bmount", M: 2, L: 2}, adv(1), adv(1), adv(1), {Op: "bunmount", M: 2}, adv(2), adv(2), {Op: "restart"}, {Op: "init", C: 2, Stage: "run"}, {Op: "bcheck", M: 2, L: 2}, adv(3)}},
		// independent mountpoints interleaved, a failing call, requests before Init, Close
		{Ops: []Op{{Op: "bmount", M: 1}, ini, {Op: "bmount", M: 1, L: 1}, {Op: "bmount", M: 2, L: 2}, {Op: "bunmount", M: 3}, adv(2), adv(1), adv(2), {Op: "bcheck", M: 2, L: 2}, adv(1), adv(2), {Op: "adv", T: 4}, adv(1), {Op: "bunmount", M: 2}, {Op: "adv", T: 5}, {Op: "init", C: 1, Stage: "run"}, {Op: "close"}}},
	}
	for _, c := range corpus {
		emit(c)
	}
	r := hx.NewRng(ctx.Seed)
	for i := len(corpus); i < ctx.N; i++ {
		emit(gen(r.Fork()))
	}
	ctx.Finish()
}
