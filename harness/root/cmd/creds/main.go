// C18 correspondence harness, credential half: drives the real CRI keychain
// (service/keychain/cri: PullImage / RemoveImage / credential function, through a fake backend CRI client),
// resolver.ParseAuth (reached through the keychain) and resolver.multiCredsFuncs, and prints per case the ops and
// the observed answers as Coq terms for Model/Creds.v. The model-free oracle evaluates the clauses of C18
// directly on the request history.
package main

import (
	"context"
	"encoding/base64"
	"errors"
	"fmt"
	"strings"

	"github.com/containerd/containerd/v2/pkg/reference"
	crikc "github.com/containerd/stargz-snapshotter/service/keychain/cri"
	"github.com/containerd/stargz-snapshotter/service/resolver"
	"google.golang.org/grpc"
	runtime "k8s.io/cri-api/pkg/apis/runtime/v1"
	"verif/harness/hx"
)

// ---- tables ----

const dg = "sha256:0123456789abcdef0123456789abcdef0123456789abcdef0123456789abcdef"

// image strings as a CRI client may send them, with the index of the normalised reference they denote
// (docker reference rules, written by hand; -1 = does not parse).
var images = []struct {
	S  string
	ID int
}{
	{"docker.io/library/ubuntu:latest", 0}, {"ubuntu", 0}, {"ubuntu:latest", 0}, {"library/ubuntu", 0}, {"docker.io/ubuntu", 0},
	{"index.docker.io/library/ubuntu:latest", 0},
	{"ubuntu:22.04", 1}, {"docker.io/library/ubuntu:22.04", 1},
	{"ghcr.io/org/app:v1", 2},
	{"ghcr.io/org/app@" + dg, 3}, {"ghcr.io/org/app:v1@" + dg, 3},
	{"reg.example:5000/team/svc:latest", 4}, {"reg.example:5000/team/svc", 4},
	{"localhost:5000/x:1", 5},
	{"ghcr.io/org/app:v2", 6},
	{"", -1}, {"UPPER/Case:1", -1}, {"ghcr.io/org/app:", -1}, {"a b", -1},
}

// the references a credential query can name: id -> reference.Spec. 0..6 are the normalised forms above,
// 7.. are specs that no pull request can produce (no tag/digest).
func querySpec(id int) reference.Spec {
	canon := []string{
		"docker.io/library/ubuntu:latest", "docker.io/library/ubuntu:22.04", "ghcr.io/org/app:v1",
		"ghcr.io/org/app@" + dg, "reg.example:5000/team/svc:latest", "localhost:5000/x:1", "ghcr.io/org/app:v2",
	}
	if id < len(canon) {
		s, err := reference.Parse(canon[id])
		if err != nil {
			panic(err)
		}
		return s
	}
	switch id {
	case 7:
		return reference.Spec{Locator: "docker.io/library/ubuntu"}
	default:
		return reference.Spec{Locator: "ghcr.io/org/app"}
	}
}

const nQueryRefs = 9

var hosts = []string{"docker.io", "registry-1.docker.io", "index.docker.io", "ghcr.io", "reg.example:5000", "localhost:5000", "evil.example", "cdn.evil.example", "",
	"registry.internal:5000", "registry.internal:5001", "registry.internal", "registry.internal:443", "registry.internal:8443", "REGISTRY.internal:5000",
	"registry.internal.:5000", "10.0.0.1:5000", "10.0.0.1", "[::1]:5000", "[::1]", "::1", "ghcr.io:443", "GHCR.IO", "ghcr.io."}

// hostVariants: hosts that differ from hp only in the port, the case, a trailing dot or the brackets
func hostVariants(hp string) []string {
	name, port := hp, ""
	if i := strings.LastIndex(hp, ":"); i >= 0 && !strings.HasSuffix(hp, "]") && strings.Count(hp, ":") == 1 || (strings.HasPrefix(hp, "[") && strings.Contains(hp, "]:")) {
		i := strings.LastIndex(hp, ":")
		name, port = hp[:i], hp[i+1:]
	}
	vs := []string{hp, name, name + ":5000", name + ":5001", name + ":443", name + ":80", name + ":8443", name + ":", name + ":0" + port,
		strings.ToUpper(name) + ":" + port, strings.ToLower(name), name + ".", name + ".:" + port}
	if strings.HasPrefix(name, "[") {
		vs = append(vs, strings.Trim(name, "[]"), strings.Trim(name, "[]")+":"+port)
	} else {
		vs = append(vs, "["+name+"]", "["+name+"]:"+port)
	}
	return vs
}

// decorate renders a server address around a host:port; the named host is hp whatever the decoration
func decorate(hp string, k int) string {
	switch k % 10 {
	case 0:
		return "https://" + hp
	case 1:
		return "http://" + hp + "/"
	case 2:
		return "https://" + hp + "/v2/"
	case 3:
		return "https://alice:s3cret@" + hp + "/v1/"
	case 4:
		return "https://bob@" + hp
	case 5:
		return "https://" + hp + "?service=registry"
	case 6:
		return "https://" + hp + "#top"
	case 7:
		return "HTTPS://" + hp + "/v2/?a=b#c"
	case 8:
		return "//" + hp + "/v2"
	default:
		return "ftp://a@b@" + hp + "/x y"
	}
}

const nDecor = 10

// ---- case description ----

type SA struct {
	Kind string `json:"kind"` // empty | url | bare | bad
	Text string `json:"text"` // the ServerAddress sent
	Host string `json:"host"` // kind url: the host the text was rendered from
}

type Auth struct {
	SA      SA     `json:"sa"`
	User    string `json:"user"`
	Pass    string `json:"pass"`
	Token   string `json:"token"`
	B64Bad  bool   `json:"b64bad"`
	B64Text string `json:"b64text"` // the Auth field sent
	B64D    []byte `json:"b64d"`    // payload it was encoded from (when !B64Bad)
}

type Cred struct {
	Err bool   `json:"err"`
	U   string `json:"u"`
	S   string `json:"s"`
}

type Op struct {
	Op    string `json:"op"`             // connect pull remove other query multi len
	Img   int    `json:"img"`            // index into images (pull/remove)
	Auth  *Auth  `json:"auth,omitempty"` // pull
	BadBE bool   `json:"badbe"`          // backend CRI call fails
	Host  string `json:"host"`           // query
	Ref   int    `json:"ref"`            // query: reference id
	Pre   []Cred `json:"pre,omitempty"`  // multi: answers of the credential functions before the keychain
	Post  []Cred `json:"post,omitempty"` // multi: ... after it
}

type Out struct {
	Kind  string `json:"kind"` // err done cred multi num
	C     Cred   `json:"c"`
	Calls int    `json:"calls"`
	N     int    `json:"n"`
}

type Case struct {
	Connected bool  `json:"connected"`
	Ops       []Op  `json:"ops"`
	Outs      []Out `json:"outs,omitempty"`
}

// ---- fake backend CRI ----

type fakeCRI struct {
	fail  bool
	pulls int
	rms   int
}

var errBackend = errors.New("backend failure")

func (f *fakeCRI) ListImages(ctx context.Context, in *runtime.ListImagesRequest, opts ...grpc.CallOption) (*runtime.ListImagesResponse, error) {
	return &runtime.ListImagesResponse{}, nil
}
func (f *fakeCRI) ImageStatus(ctx context.Context, in *runtime.ImageStatusRequest, opts ...grpc.CallOption) (*runtime.ImageStatusResponse, error) {
	return &runtime.ImageStatusResponse{}, nil
}
func (f *fakeCRI) PullImage(ctx context.Context, in *runtime.PullImageRequest, opts ...grpc.CallOption) (*runtime.PullImageResponse, error) {
	f.pulls++
	if f.fail {
		return nil, errBackend
	}
	return &runtime.PullImageResponse{ImageRef: in.GetImage().GetImage()}, nil
}
func (f *fakeCRI) RemoveImage(ctx context.Context, in *runtime.RemoveImageRequest, opts ...grpc.CallOption) (*runtime.RemoveImageResponse, error) {
	f.rms++
	if f.fail {
		return nil, errBackend
	}
	return &runtime.RemoveImageResponse{}, nil
}
func (f *fakeCRI) ImageFsInfo(ctx context.Context, in *runtime.ImageFsInfoRequest, opts ...grpc.CallOption) (*runtime.ImageFsInfoResponse, error) {
	return &runtime.ImageFsInfoResponse{}, nil
}

// ---- execution + oracle ----

func toCred(u, s string, err error) Cred {
	if err != nil {
		return Cred{Err: true}
	}
	return Cred{U: u, S: s}
}

func aliasHost(h string) string {
	if h == "docker.io" || h == "registry-1.docker.io" {
		return "index.docker.io"
	}
	return h
}

// candidates: every (user, secret) pair that some field of the auth config denotes
func candidates(a *Auth) []Cred {
	var cs []Cred
	if a.User != "" {
		cs = append(cs, Cred{U: a.User, S: a.Pass})
	}
	if a.Token != "" {
		cs = append(cs, Cred{U: "", S: a.Token})
	}
	if !a.B64Bad && len(a.B64D) > 0 {
		if i := strings.IndexByte(string(a.B64D), ':'); i >= 0 {
			cs = append(cs, Cred{U: string(a.B64D[:i]), S: strings.Trim(string(a.B64D[i+1:]), "\x00")})
		}
	}
	return cs
}

type hist struct {
	pulled bool  // the most recent accepted pull/remove request for the reference is a pull
	auth   *Auth // its auth config (nil = none)
}

func exec(c Case) ([]Out, []string) {
	var problems []string
	be := &fakeCRI{}
	var client runtime.ImageServiceClient
	if c.Connected {
		client = be
	}
	creds, srv := crikc.VerifNewCRIKeychain(client)
	connected := c.Connected
	last := map[int]hist{}
	ctx := context.Background()
	outs := make([]Out, 0, len(c.Ops))

	checkAnswer := func(i int, host string, ref int, ans Cred) {
		if ans.Err || (ans.U == "" && ans.S == "") {
			return
		}
		h, ok := last[ref]
		switch {
		case !ok:
			problems = append(problems, fmt.Sprintf("op %d: credential offered for host %q ref %d which was never pulled", i, host, ref))
		case !h.pulled:
			problems = append(problems, fmt.Sprintf("op %d: credential offered for host %q ref %d after the image was removed", i, host, ref))
		case h.auth == nil:
			problems = append(problems, fmt.Sprintf("op %d: credential offered for ref %d whose last pull carried no auth", i, ref))
		default:
			a := h.auth
			// the host part of the named server address ("" for an address without scheme) must be the host contacted
			saHost, saOK := a.SA.Host, a.SA.Kind == "url" || a.SA.Kind == "bare"
			if a.SA.Kind != "empty" && !(saOK && saHost == aliasHost(host)) {
				problems = append(problems, fmt.Sprintf("op %d: credential offered to host %q although the pull named server address %q", i, host, a.SA.Text))
			}
			found := false
			for _, cd := range candidates(a) {
				if cd.U == ans.U && cd.S == ans.S {
					found = true
				}
			}
			if !found {
				problems = append(problems, fmt.Sprintf("op %d: credential offered for ref %d is not the one of its most recent pull", i, ref))
			}
		}
	}

	for i, o := range c.Ops {
		var out Out
		be.fail = o.BadBE
		switch o.Op {
		case "connect":
			crikc.VerifSetClient(srv, be)
			connected = true
			out.Kind = "done"
		case "pull":
			im := images[o.Img]
			req := &runtime.PullImageRequest{Image: &runtime.ImageSpec{Image: im.S}}
			if o.Auth != nil {
				req.Auth = &runtime.AuthConfig{Username: o.Auth.User, Password: o.Auth.Pass, IdentityToken: o.Auth.Token,
					Auth: o.Auth.B64Text, ServerAddress: o.Auth.SA.Text}
			}
			before := be.pulls
			_, err := srv.PullImage(ctx, req)
			out.Kind = "done"
			if err != nil {
				out.Kind = "err"
			}
			if connected && im.ID >= 0 {
				last[im.ID] = hist{pulled: true, auth: o.Auth}
				if be.pulls != before+1 {
					problems = append(problems, fmt.Sprintf("op %d: accepted pull not forwarded to the backend exactly once", i))
				}
			} else if err == nil {
				problems = append(problems, fmt.Sprintf("op %d: pull of %q accepted (connected=%v)", i, im.S, connected))
			}
		case "remove":
			im := images[o.Img]
			_, err := srv.RemoveImage(ctx, &runtime.RemoveImageRequest{Image: &runtime.ImageSpec{Image: im.S}})
			out.Kind = "done"
			if err != nil {
				out.Kind = "err"
			}
			if connected && im.ID >= 0 {
				last[im.ID] = hist{pulled: false}
			}
		case "other":
			_, err := srv.ImageStatus(ctx, &runtime.ImageStatusRequest{Image: &runtime.ImageSpec{Image: "ubuntu"}})
			_, err2 := srv.ListImages(ctx, &runtime.ListImagesRequest{})
			_, err3 := srv.ImageFsInfo(ctx, &runtime.ImageFsInfoRequest{})
			out.Kind = "done"
			if err != nil || err2 != nil || err3 != nil {
				out.Kind = "err"
			}
		case "query":
			u, s, err := creds(o.Host, querySpec(o.Ref))
			out.Kind = "cred"
			out.C = toCred(u, s, err)
			checkAnswer(i, o.Host, o.Ref, out.C)
		case "multi":
			calls := 0
			var fs []resolver.Credential
			var answers []Cred
			static := func(cd Cred) resolver.Credential {
				return func(string, reference.Spec) (string, string, error) {
					calls++
					if cd.Err {
						return "", "", errBackend
					}
					return cd.U, cd.S, nil
				}
			}
			for _, cd := range o.Pre {
				fs = append(fs, static(cd))
				answers = append(answers, cd)
			}
			ku, ks, kerr := creds(o.Host, querySpec(o.Ref))
			kc := toCred(ku, ks, kerr)
			checkAnswer(i, o.Host, o.Ref, kc)
			answers = append(answers, kc)
			fs = append(fs, func(h string, r reference.Spec) (string, string, error) { calls++; return creds(h, r) })
			for _, cd := range o.Post {
				fs = append(fs, static(cd))
				answers = append(answers, cd)
			}
			u, s, err := resolver.VerifMultiCredsFuncs(querySpec(o.Ref), fs...)(o.Host)
			out.Kind = "multi"
			out.C = toCred(u, s, err)
			out.Calls = calls
			// clause "first non-empty credential wins": the first answer that is an error or non-empty decides
			want := Cred{}
			for _, a := range answers {
				if a.Err || a.U != "" || a.S != "" {
					want = a
					break
				}
			}
			if want != out.C {
				problems = append(problems, fmt.Sprintf("op %d: combined credential is not the first non-empty answer", i))
			}
		case "len":
			out.Kind = "num"
			out.N = crikc.VerifConfigLen(srv)
		}
		outs = append(outs, out)
	}
	return outs, problems
}

// ---- generation ----

var bareAddrs = []string{"ghcr.io", "index.docker.io/v1/", "ghcr.io/v2", "reg.example:5000", "docker.io", "registry.internal:5000", "registry.internal:5000/v2",
	"localhost:5000", "/registry.internal:5000", "?registry.internal:5000", "https:registry.internal", "https:/registry.internal", "https:///v2", "https://"}
var badAddrs = []string{"https://[::1", "http://a b/", "%zz", "1.2.3.4:5000/v1", "10.0.0.1:5000", "[::1]:5000", "1reg:5000/x", "https://[::1]x", "https://[::1]:x",
	"https://registry.internal:50x0", "https://registry.internal:-1", "https://registry.internal/%zz", "https://registry%2Einternal", " https://registry.internal",
	"https://registry.internal#%zz", "https://a^b@registry.internal", "https://registry.internal\tx"}

func genSA(r *hx.Rng) SA {
	switch r.Pick(28, 50, 11, 11) {
	case 0:
		return SA{Kind: "empty"}
	case 1:
		h := hosts[r.Intn(len(hosts))]
		if h == "" && !r.Chance(1, 6) {
			h = "registry.internal:5000"
		}
		return SA{Kind: "url", Text: decorate(h, r.Intn(nDecor)), Host: h}
	case 2:
		return SA{Kind: "bare", Text: bareAddrs[r.Intn(len(bareAddrs))]}
	default:
		return SA{Kind: "bad", Text: badAddrs[r.Intn(len(badAddrs))]}
	}
}

var b64payloads = []string{"carol:pw", "dave:p:w", "nocolon", ":", "erin:", ":onlypw", "u:p\x00", "\x00:x", "frank:abc", "gina:abcd", "x:\x00\x00y\x00"}

func genAuth(r *hx.Rng) *Auth {
	if r.Chance(1, 10) {
		return nil
	}
	a := &Auth{SA: genSA(r)}
	form := r.Pick(40, 20, 25, 5, 10)
	switch form {
	case 0:
		a.User = []string{"alice", "bob"}[r.Intn(2)]
		a.Pass = []string{"pw1", "s3cret", ""}[r.Pick(4, 4, 1)]
	case 1:
		a.Token = []string{"tok-A", "tok-B"}[r.Intn(2)]
	case 2:
		if r.Chance(1, 6) {
			a.B64Bad = true
			a.B64Text = []string{"!!!notbase64", "a", "YWxpY2U6cHc"}[r.Intn(3)] // last: missing padding
		} else {
			a.B64D = []byte(b64payloads[r.Intn(len(b64payloads))])
			a.B64Text = base64.StdEncoding.EncodeToString(a.B64D)
		}
	case 3: // nothing at all
	case 4: // several forms at once
		a.User = []string{"alice", ""}[r.Intn(2)]
		a.Pass = "pw1"
		a.Token = []string{"tok-A", ""}[r.Intn(2)]
		a.B64D = []byte(b64payloads[r.Intn(len(b64payloads))])
		a.B64Text = base64.StdEncoding.EncodeToString(a.B64D)
	}
	return a
}

func genCred(r *hx.Rng) Cred {
	switch r.Pick(55, 10, 35) {
	case 0:
		return Cred{}
	case 1:
		return Cred{Err: true}
	default:
		return Cred{U: []string{"", "mallory"}[r.Intn(2)], S: "static-secret"}
	}
}

func gen(r *hx.Rng) Case {
	c := Case{Connected: !r.Chance(1, 7)}
	n := r.Range(3, 24)
	// a case concentrates on few images/hosts so that histories collide
	imgs := []int{r.Intn(len(images)), r.Intn(len(images)), r.Intn(len(images))}
	for i := 0; i < n; i++ {
		var o Op
		switch r.Pick(33, 12, 36, 9, 3, 4, 3) {
		case 0:
			o = Op{Op: "pull", Img: imgs[r.Intn(3)], Auth: genAuth(r), BadBE: r.Chance(1, 8)}
		case 1:
			o = Op{Op: "remove", Img: imgs[r.Intn(3)], BadBE: r.Chance(1, 8)}
		case 2:
			o = Op{Op: "query", Host: hosts[r.Intn(len(hosts))]}
			o.Ref = r.Intn(nQueryRefs)
			if r.Chance(3, 4) { // mostly a reference of this case
				if id := images[imgs[r.Intn(3)]].ID; id >= 0 {
					o.Ref = id
				}
			}
			if r.Chance(1, 2) { // and often a host named by one of the earlier pulls
				for j := len(c.Ops) - 1; j >= 0; j-- {
					if a := c.Ops[j].Auth; a != nil && a.SA.Kind == "url" {
						o.Host = a.SA.Host
						if o.Host == "index.docker.io" && r.Bool() {
							o.Host = []string{"docker.io", "registry-1.docker.io"}[r.Intn(2)]
						} else if r.Chance(1, 2) { // a host that differs only in port / case / dot / brackets
							vs := hostVariants(a.SA.Host)
							o.Host = vs[r.Intn(len(vs))]
						}
						break
					}
				}
			}
		case 3:
			o = Op{Op: "multi", Host: hosts[r.Intn(len(hosts))], Ref: r.Intn(nQueryRefs)}
			if id := images[imgs[r.Intn(3)]].ID; id >= 0 {
				o.Ref = id
			}
			for k := r.Intn(3); k > 0; k-- {
				o.Pre = append(o.Pre, genCred(r))
			}
			for k := r.Intn(3); k > 0; k-- {
				o.Post = append(o.Post, genCred(r))
			}
		case 4:
			o = Op{Op: "other"}
		case 5:
			o = Op{Op: "len"}
		case 6:
			o = Op{Op: "connect"}
		}
		c.Ops = append(c.Ops, o)
	}
	return c
}

// ---- Coq printing ----

// coqStr prints a byte string: printable text as (bs "...") (a Coq string literal), anything else as a byte list.
func coqStr(s string) string {
	if s == "" {
		return "[]"
	}
	for i := 0; i < len(s); i++ {
		if s[i] < 0x20 || s[i] > 0x7e || s[i] == '"' {
			return hx.CoqBytes([]byte(s))
		}
	}
	return "(bs \"" + s + "\")"
}

func coqCred(c Cred) string {
	if c.Err {
		return "CErr"
	}
	return fmt.Sprintf("(COk %s %s)", coqStr(c.U), coqStr(c.S))
}

func coqCreds(cs []Cred) string {
	s := make([]string, len(cs))
	for i, c := range cs {
		s[i] = coqCred(c)
	}
	return hx.CoqList(s)
}

func coqAuth(a *Auth) string {
	if a == nil {
		return "None"
	}
	sa := "SAEmpty" // the model parses the address text itself (Model/Creds.v parse_url_host)
	if a.SA.Kind != "empty" {
		sa = "(SAText " + coqStr(a.SA.Text) + ")"
	}
	b := "B64Bad"
	if !a.B64Bad {
		b = "(B64 " + coqStr(string(a.B64D)) + ")"
	}
	return fmt.Sprintf("(Some (mkAuth %s %s %s %s %s))", sa, coqStr(a.User), coqStr(a.Pass), coqStr(a.Token), b)
}

func coqImg(i int) string {
	if images[i].ID < 0 {
		return "None"
	}
	return fmt.Sprintf("(Some %d)", images[i].ID)
}

func coqCase(c Case, outs []Out) string {
	ops := make([]string, len(c.Ops))
	for i, o := range c.Ops {
		switch o.Op {
		case "connect":
			ops[i] = "Connect"
		case "pull":
			ops[i] = fmt.Sprintf("Pull %s %s %s", coqImg(o.Img), coqAuth(o.Auth), hx.CoqBool(!o.BadBE))
		case "remove":
			ops[i] = fmt.Sprintf("Remove %s %s", coqImg(o.Img), hx.CoqBool(!o.BadBE))
		case "other":
			ops[i] = "Other"
		case "query":
			ops[i] = fmt.Sprintf("Query %s %d", coqStr(o.Host), o.Ref)
		case "multi":
			ops[i] = fmt.Sprintf("QueryMulti %s %s %d %s", coqCreds(o.Pre), coqStr(o.Host), o.Ref, coqCreds(o.Post))
		case "len":
			ops[i] = "Len"
		}
	}
	os := make([]string, len(outs))
	for i, o := range outs {
		switch o.Kind {
		case "err":
			os[i] = "OErr"
		case "done":
			os[i] = "ODone"
		case "cred":
			os[i] = "OCred " + coqCred(o.C)
		case "multi":
			os[i] = fmt.Sprintf("OMulti %s %d", coqCred(o.C), o.Calls)
		case "num":
			os[i] = fmt.Sprintf("ONum %d", o.N)
		}
	}
	return fmt.Sprintf("(%s, %s, %s)", hx.CoqBool(c.Connected), hx.CoqList(ops), hx.CoqList(os))
}

func main() {
	ctx := hx.Start()
	emit := func(c Case) {
		// replayed / shrunk cases may have lost ops: keep indices valid
		for i := range c.Ops {
			if c.Ops[i].Img < 0 || c.Ops[i].Img >= len(images) {
				c.Ops[i].Img = 0
			}
			if c.Ops[i].Ref < 0 || c.Ops[i].Ref >= nQueryRefs {
				c.Ops[i].Ref = 0
			}
		}
		outs, problems := exec(c)
		c.Outs = outs
		offered, refused := 0, 0
		for i, o := range c.Ops {
			ctx.Count("op." + o.Op)
			if o.Op == "pull" {
				switch {
				case o.Auth == nil:
					ctx.Count("auth.nil")
				default:
					ctx.Count("auth.sa." + o.Auth.SA.Kind)
					if o.Auth.User != "" {
						ctx.Count("auth.form.userpass")
					}
					if o.Auth.Token != "" {
						ctx.Count("auth.form.token")
					}
					if o.Auth.B64Bad || len(o.Auth.B64D) > 0 {
						ctx.Count("auth.form.base64")
					}
				}
				if images[o.Img].ID < 0 {
					ctx.Count("pull.invalid-ref")
				}
				if o.BadBE {
					ctx.Count("pull.backend-fails")
				}
			}
			if o.Op == "query" || o.Op == "multi" {
				if aliasHost(o.Host) != o.Host {
					ctx.Count("query.docker-alias")
				}
				for j := i - 1; j >= 0; j-- { // the host differs from the address of the latest pull only in port/case/dot/brackets
					if a := c.Ops[j].Auth; c.Ops[j].Op == "pull" && a != nil && a.SA.Kind == "url" {
						if o.Host != a.SA.Host {
							for _, v := range hostVariants(a.SA.Host) {
								if v == o.Host {
									ctx.Count("query.host-variant")
									break
								}
							}
						} else {
							ctx.Count("query.host-exact")
						}
						break
					}
				}
				switch {
				case outs[i].C.Err:
					ctx.Count("result.error")
				case outs[i].C.U != "" || outs[i].C.S != "":
					ctx.Count("result.offered")
					offered++
				default:
					ctx.Count("result.none")
					refused++
				}
			}
			if outs[i].Kind == "err" {
				ctx.Count("result.rejected")
			}
		}
		if !c.Connected {
			ctx.Count("case.starts-unconnected")
		}
		ctx.CountN("ops", len(c.Ops))
		term := coqCase(c, outs)
		id := ctx.Case(term, c, term, offered > 0 && refused > 0)
		for _, p := range problems {
			ctx.Violation(id, p, nil)
		}
	}
	if ctx.Replay != "" {
		var c Case
		ctx.LoadReplay(&c)
		emit(c)
		ctx.Finish()
		return
	}
	b64 := func(s string) (string, []byte) { return base64.StdEncoding.EncodeToString([]byte(s)), []byte(s) }
	t1, d1 := b64("carol:pw")
	t2, d2 := b64("u:p\x00")
	up := func(sa SA) *Auth { return &Auth{SA: sa, User: "alice", Pass: "pw1"} }
	url := func(h string) SA { return SA{Kind: "url", Text: "https://" + h + "/v1/", Host: h} }
	corpus := []Case{
		// pull with creds, query right host / other ref / after remove
		{Connected: true, Ops: []Op{{Op: "pull", Img: 8, Auth: up(SA{Kind: "empty"})}, {Op: "query", Host: "ghcr.io", Ref: 2}, {Op: "query", Host: "evil.example", Ref: 2},
			{Op: "query", Host: "ghcr.io", Ref: 6}, {Op: "query", Host: "ghcr.io", Ref: 8}, {Op: "len"}, {Op: "remove", Img: 8}, {Op: "query", Host: "ghcr.io", Ref: 2}, {Op: "len"}}},
		// server address mismatch; docker.io aliases; re-pull without auth forgets the credential
		{Connected: true, Ops: []Op{{Op: "pull", Img: 1, Auth: up(url("index.docker.io"))}, {Op: "query", Host: "docker.io", Ref: 0}, {Op: "query", Host: "registry-1.docker.io", Ref: 0},
			{Op: "query", Host: "index.docker.io", Ref: 0}, {Op: "query", Host: "ghcr.io", Ref: 0}, {Op: "query", Host: "docker.io", Ref: 7},
			{Op: "pull", Img: 0, Auth: nil}, {Op: "query", Host: "docker.io", Ref: 0}}},
		// identity token, base64 (with NUL padding), bad base64, bad server address, backend failure, not connected
		{Connected: false, Ops: []Op{{Op: "pull", Img: 8, Auth: up(SA{Kind: "empty"})}, {Op: "query", Host: "ghcr.io", Ref: 2}, {Op: "other"}, {Op: "connect"},
			{Op: "pull", Img: 8, Auth: &Auth{SA: url("ghcr.io"), Token: "tok-A"}, BadBE: true}, {Op: "query", Host: "ghcr.io", Ref: 2},
			{Op: "pull", Img: 8, Auth: &Auth{SA: SA{Kind: "empty"}, B64Text: t1, B64D: d1}}, {Op: "query", Host: "ghcr.io", Ref: 2},
			{Op: "pull", Img: 8, Auth: &Auth{SA: SA{Kind: "empty"}, B64Text: t2, B64D: d2}}, {Op: "query", Host: "ghcr.io", Ref: 2},
			{Op: "pull", Img: 8, Auth: &Auth{SA: SA{Kind: "empty"}, B64Bad: true, B64Text: "!!!"}}, {Op: "query", Host: "ghcr.io", Ref: 2},
			{Op: "pull", Img: 8, Auth: up(SA{Kind: "bad", Text: "https://[::1"})}, {Op: "query", Host: "ghcr.io", Ref: 2},
			{Op: "pull", Img: 8, Auth: up(SA{Kind: "bare", Text: "ghcr.io"})}, {Op: "query", Host: "ghcr.io", Ref: 2},
			{Op: "pull", Img: 16, Auth: up(SA{Kind: "empty"})}, {Op: "remove", Img: 15}, {Op: "remove", Img: 8, BadBE: true}, {Op: "query", Host: "ghcr.io", Ref: 2}}},
		// combination of credential sources
		{Connected: true, Ops: []Op{{Op: "pull", Img: 8, Auth: up(SA{Kind: "empty"})},
			{Op: "multi", Host: "ghcr.io", Ref: 2, Pre: []Cred{{}}, Post: []Cred{{U: "mallory", S: "x"}}},
			{Op: "multi", Host: "ghcr.io", Ref: 6, Pre: []Cred{{}}, Post: []Cred{{}, {U: "mallory", S: "x"}, {Err: true}}},
			{Op: "multi", Host: "ghcr.io", Ref: 2, Pre: []Cred{{Err: true}}},
			{Op: "multi", Host: "ghcr.io", Ref: 6, Post: []Cred{{Err: true}}}}},
	}
	// deterministic sweep over address forms: for every host:port spelling, every decoration of the address, then the
	// host itself and every host that differs only in port / case / trailing dot / brackets
	var sweep []Case // large cases: spread over the run (one every 35 cases) so that no Coq shard gets them all
	sweepHosts := []string{"registry.internal:5000", "registry.internal", "registry.internal:443", "REGISTRY.internal:5000", "registry.internal.:5000",
		"10.0.0.1:5000", "10.0.0.1", "[::1]:5000", "[::1]", "::1", "registry.internal:", ":5000", "index.docker.io:443"}
	for hi, hp := range sweepHosts {
		c := Case{Connected: true}
		vs := hostVariants(hp)
		for k := 0; k < nDecor; k++ {
			c.Ops = append(c.Ops, Op{Op: "pull", Img: 8, Auth: up(SA{Kind: "url", Text: decorate(hp, k), Host: hp})})
			c.Ops = append(c.Ops, Op{Op: "query", Host: hp, Ref: 2})
			for j := 0; j < 4; j++ { // a rotating window over the variants: all are covered across the decorations
				c.Ops = append(c.Ops, Op{Op: "query", Host: vs[(4*k+j+hi)%len(vs)], Ref: 2})
			}
		}
		c.Ops = append(c.Ops, Op{Op: "query", Host: "docker.io", Ref: 2}, Op{Op: "query", Host: "", Ref: 2})
		sweep = append(sweep, c)
	}
	for _, list := range [][]string{bareAddrs, badAddrs} {
		c := Case{Connected: true}
		kind := "bare"
		if &list[0] == &badAddrs[0] {
			kind = "bad"
		}
		for _, t := range list {
			c.Ops = append(c.Ops, Op{Op: "pull", Img: 8, Auth: up(SA{Kind: kind, Text: t})},
				Op{Op: "query", Host: "registry.internal:5000", Ref: 2}, Op{Op: "query", Host: "registry.internal", Ref: 2}, Op{Op: "query", Host: "", Ref: 2})
		}
		sweep = append(sweep, c)
	}
	for _, c := range corpus {
		emit(c)
	}
	r := hx.NewRng(ctx.Seed)
	for i := len(corpus); i < ctx.N; i++ {
		if len(sweep) > 0 && i%35 == 10 {
			emit(sweep[0])
			sweep = sweep[1:]
			continue
		}
		emit(gen(r.Fork()))
	}
	if ctx.N >= 50 { // a short run still gets the whole sweep
		for _, c := range sweep {
			emit(c)
		}
	}
	ctx.Finish()
}
