// C17 correspondence harness: drives the real fusemanager.Server (bolt store in a temp dir, no gRPC)
// with histories of Init / Mount / Check / Unmount / Close / manager restart, with recording
// snapshot.FileSystem instances substituted through the verif hook, and prints per case the ops and the
// observations (result class, backend calls, status / fsMap / bolt bucket / what each instance serves)
// as Coq terms for Model/Fusemgr.v. The model-free oracle evaluates the clauses of C17 on the observations.
package main

import (
	"context"
	"encoding/json"
	"errors"
	"fmt"
	"io"
	"os"
	"path/filepath"
	"sort"
	"strconv"
	"strings"

	"github.com/containerd/log"
	fsconfig "github.com/containerd/stargz-snapshotter/fs/config"
	"github.com/containerd/stargz-snapshotter/fusemanager"
	pb "github.com/containerd/stargz-snapshotter/fusemanager/api"
	"github.com/containerd/stargz-snapshotter/service"
	"github.com/containerd/stargz-snapshotter/snapshot"
	"github.com/sirupsen/logrus"
	"verif/harness/hx"
)

// ---- case format ----

type Op struct {
	Op     string `json:"op"` // init mount check unmount close restart
	M      int    `json:"m,omitempty"`
	L      int    `json:"l,omitempty"`
	C      int    `json:"c,omitempty"`
	Ok     bool   `json:"ok,omitempty"`
	Stage  string `json:"stage,omitempty"` // init: json | cfgfunc | fs | run
	Script []bool `json:"script,omitempty"`
}

type Call struct {
	I int `json:"i"`
	K int `json:"k"` // 0 mount 1 check 2 unmount
	M int `json:"m"`
	L int `json:"l"`
}

type Rec struct{ M, L, C int }

type View struct {
	Status int        `json:"status"` // 0 NotReady 1 WaitInit 2 Ready
	Closed bool       `json:"closed"`
	Cur    int        `json:"cur"` // -1 = nil
	FsMap  [][2]int   `json:"fsmap"`
	Store  []Rec      `json:"store"`
	Cfgs   []int      `json:"cfgs"`
	Mnts   [][][2]int `json:"mnts"`
}

type Obs struct {
	Res   int    `json:"res"` // 0 ok 1 err 2 panic
	Calls []Call `json:"calls"`
	View  View   `json:"view"`
}

type Case struct {
	Ops  []Op  `json:"ops"`
	Outs []Obs `json:"outs,omitempty"`
}

// ---- naming: ids <-> strings ----

// mountpoint 0 is a path the kernel mount table of the sandbox lists (never mounted by the manager);
// the others never exist. Byte order of the names = numeric order of the ids (bolt iterates in key order).
const extMP = "/proc"

// Mountpoints are opaque strings for the manager (fsMap and the bolt bucket are keyed by the exact string), so
// every SPELLING is its own model key, also several spellings of one directory (trailing slash, doubled slash,
// "/./", "/x/../"). The table is sorted bytewise: model key = index, so numeric order = bolt iteration order.
var mpNames = []string{
	extMP,
	"/verif-c17/./mp2",
	"/verif-c17//mp3",
	"/verif-c17/mp1",
	"/verif-c17/mp1/",
	"/verif-c17/mp1/.",
	"/verif-c17/mp1/../mp1",
	"/verif-c17/mp1//",
	"/verif-c17/mp2",
	"/verif-c17/mp2/",
	"/verif-c17/mp3",
}

func init() {
	for i := 1; i < len(mpNames); i++ {
		if !(mpNames[i-1] < mpNames[i]) {
			panic("HARNESS: mountpoint table is not sorted")
		}
	}
}

func mpName(m int) string {
	if m >= 0 && m < len(mpNames) {
		return mpNames[m]
	}
	return fmt.Sprintf("/verif-c17/zz%d", m)
}

func mpID(s string) int {
	for i, n := range mpNames {
		if n == s {
			return i
		}
	}
	return 990
}

func labelsOf(l int) map[string]string {
	if l == 0 {
		return nil
	}
	return map[string]string{
		"verif.l": strconv.Itoa(l),
		"containerd.io/snapshot/remote/stargz.reference": fmt.Sprintf("registry.invalid/img:%d", l),
	}
}

func labelsID(lb map[string]string) int {
	if len(lb) == 0 {
		return 0
	}
	n, err := strconv.Atoi(lb["verif.l"])
	if err != nil || len(lb) != 2 || lb["containerd.io/snapshot/remote/stargz.reference"] != fmt.Sprintf("registry.invalid/img:%d", n) {
		return 991
	}
	return n
}

func cfgOf(c int) *fusemanager.Config {
	return &fusemanager.Config{Config: service.Config{Config: fsconfig.Config{
		PrefetchSize: int64(1000 + c), NoPrometheus: true, HTTPCacheType: "memory", FSCacheType: "memory"}}}
}

func cfgID(root string, c *service.Config) int {
	if c == nil {
		return 992
	}
	id := int(c.PrefetchSize) - 1000
	if !strings.HasSuffix(root, fmt.Sprintf("/root-%d", id)) {
		return 993 // root and config of different Init calls
	}
	return id
}

// ---- recording filesystem ----

var errInjected = errors.New("injected failure")

type world struct {
	dir       string
	storePath string
	srv       *fusemanager.Server
	insts     []*recFS
	// fault script of the op in progress
	inInit     bool
	script     []bool
	opOK       bool
	cfgFuncErr bool
	fsErr      bool
	calls      []Call
	problems   []string
}

var cur *world

type recFS struct {
	w       *world
	id      int
	cfg     int
	mounted [][2]int // (mountpoint, labels), newest first
}

func (w *world) servedBy(m int) []int {
	var r []int
	for _, f := range w.insts {
		for _, e := range f.mounted {
			if e[0] == m {
				r = append(r, f.id)
			}
		}
	}
	return r
}

func (f *recFS) has(m int) bool {
	for _, e := range f.mounted {
		if e[0] == m {
			return true
		}
	}
	return false
}

func (f *recFS) Mount(ctx context.Context, mountpoint string, labels map[string]string) error {
	w := f.w
	m, l := mpID(mountpoint), labelsID(labels)
	w.calls = append(w.calls, Call{f.id, 0, m, l})
	if by := w.servedBy(m); len(by) > 0 {
		w.problems = append(w.problems, fmt.Sprintf("mountpoint %d mounted a second time (instance %d) while served by %v", m, f.id, by))
	}
	ok := w.opOK
	if w.inInit {
		ok = true
		if len(w.script) > 0 {
			ok = w.script[0]
			w.script = w.script[1:]
		}
	}
	if !ok {
		return errInjected
	}
	f.mounted = append([][2]int{{m, l}}, f.mounted...)
	return nil
}

func (f *recFS) Check(ctx context.Context, mountpoint string, labels map[string]string) error {
	w := f.w
	m, l := mpID(mountpoint), labelsID(labels)
	w.calls = append(w.calls, Call{f.id, 1, m, l})
	if !f.has(m) {
		w.problems = append(w.problems, fmt.Sprintf("Check of mountpoint %d sent to instance %d which does not serve it (served by %v)", m, f.id, w.servedBy(m)))
	}
	if !w.opOK {
		return errInjected
	}
	return nil
}

func (f *recFS) Unmount(ctx context.Context, mountpoint string) error {
	w := f.w
	m := mpID(mountpoint)
	w.calls = append(w.calls, Call{f.id, 2, m, 0})
	if !f.has(m) {
		w.problems = append(w.problems, fmt.Sprintf("Unmount of mountpoint %d sent to instance %d which does not serve it (served by %v)", m, f.id, w.servedBy(m)))
	}
	if !w.opOK {
		return errInjected
	}
	for i, e := range f.mounted {
		if e[0] == m {
			f.mounted = append(append([][2]int{}, f.mounted[:i]...), f.mounted[i+1:]...)
			break
		}
	}
	return nil
}

// installed once: the filesystem factory override (verif hook) and a ConfigFunc (exported API)
func install() {
	fusemanager.VerifSetFS(func(root string, cfg *fusemanager.Config, real snapshot.FileSystem, err error) (snapshot.FileSystem, error) {
		w := cur
		if err != nil {
			w.problems = append(w.problems, "HARNESS: real service.NewFileSystem failed: "+err.Error())
		}
		if w.fsErr {
			return nil, errInjected
		}
		var sc *service.Config
		if cfg != nil {
			sc = &cfg.Config
		}
		f := &recFS{w: w, id: len(w.insts), cfg: cfgID(root, sc)}
		w.insts = append(w.insts, f)
		return f, nil
	})
	fusemanager.RegisterConfigFunc(func(cc *fusemanager.ConfigContext) ([]service.Option, error) {
		if cur.cfgFuncErr {
			return nil, errInjected
		}
		return nil, nil
	})
}

func (w *world) start() {
	srv, err := fusemanager.NewFuseManager(context.Background(), nil, nil, w.storePath, filepath.Join(w.dir, "fm.sock"))
	if err != nil {
		panic("HARNESS: NewFuseManager: " + err.Error())
	}
	w.srv = srv
}

func newWorld() *world {
	// bolt syncs every transaction: use a memory-backed temp dir when there is one (TMPDIR overrides)
	base := ""
	if os.Getenv("TMPDIR") == "" {
		if st, e := os.Stat("/dev/shm"); e == nil && st.IsDir() {
			base = "/dev/shm"
		}
	}
	dir, err := os.MkdirTemp(base, "verif-c17-")
	if err != nil {
		panic(err)
	}
	w := &world{dir: dir, storePath: filepath.Join(dir, "store", "fusestore.db")}
	cur = w
	w.start()
	return w
}

func (w *world) cleanup() {
	if w.srv != nil {
		w.srv.VerifCrash()
	}
	os.RemoveAll(w.dir)
}

func class(err error, panicked bool) int {
	if panicked {
		return 2
	}
	if err != nil {
		return 1
	}
	return 0
}

// do executes one op on the implementation; panics inside the RPC method are caught like the
// gRPC layer would not: they are the result class 2.
func (w *world) do(o Op) (res int) {
	w.calls = nil
	w.inInit, w.script, w.opOK, w.cfgFuncErr, w.fsErr = false, nil, o.Ok, false, false
	ctx := context.Background()
	var err error
	panicked := false
	call := func(f func() error) {
		defer func() {
			if r := recover(); r != nil {
				panicked = true
				if os.Getenv("C17_DEBUG") != "" {
					fmt.Fprintf(os.Stderr, "panic in %s: %v\n", o.Op, r)
				}
			}
		}()
		err = f()
	}
	switch o.Op {
	case "init":
		w.inInit = true
		w.script = append([]bool{}, o.Script...)
		root := filepath.Join(w.dir, fmt.Sprintf("root-%d", o.C))
		b, e := json.Marshal(cfgOf(o.C))
		if e != nil {
			panic(e)
		}
		switch o.Stage {
		case "json":
			b = []byte("{not json")
		case "cfgfunc":
			w.cfgFuncErr = true
		case "fs":
			w.fsErr = true
		}
		call(func() error { _, e := w.srv.Init(ctx, &pb.InitRequest{Root: root, Config: b}); return e })
	case "mount":
		call(func() error {
			_, e := w.srv.Mount(ctx, &pb.MountRequest{Mountpoint: mpName(o.M), Labels: labelsOf(o.L)})
			return e
		})
	case "check":
		call(func() error {
			_, e := w.srv.Check(ctx, &pb.CheckRequest{Mountpoint: mpName(o.M), Labels: labelsOf(o.L)})
			return e
		})
	case "unmount":
		call(func() error { _, e := w.srv.Unmount(ctx, &pb.UnmountRequest{Mountpoint: mpName(o.M)}); return e })
	case "close":
		call(func() error { return w.srv.Close(ctx) })
	case "restart":
		// the process dies: its filesystem instances stop serving, the store file stays
		if e := w.srv.VerifCrash(); e != nil {
			w.problems = append(w.problems, "HARNESS: closing the store handle failed: "+e.Error())
		}
		for _, f := range w.insts {
			f.mounted = nil
		}
		w.start()
	}
	return class(err, panicked)
}

func (w *world) view() View {
	status, fm, recs, serr := w.srv.VerifDump()
	// canonical status: 0 NotReady 1 WaitInit 2 Ready (by the package's constants, not their numeric values)
	st := 9
	switch status {
	case fusemanager.FuseManagerNotReady:
		st = 0
	case fusemanager.FuseManagerWaitInit:
		st = 1
	case fusemanager.FuseManagerReady:
		st = 2
	}
	v := View{Status: st, Closed: serr != nil, Cur: -1, FsMap: [][2]int{}, Store: []Rec{}, Cfgs: []int{}, Mnts: [][][2]int{}}
	if f, ok := w.srv.VerifCurFS().(*recFS); ok && f != nil {
		v.Cur = f.id
	} else if w.srv.VerifCurFS() != nil {
		v.Cur = 994
	}
	for k, f := range fm {
		id := 995
		if r, ok := f.(*recFS); ok {
			id = r.id
		}
		v.FsMap = append(v.FsMap, [2]int{mpID(k), id})
	}
	sort.Slice(v.FsMap, func(i, j int) bool { return v.FsMap[i][0] < v.FsMap[j][0] })
	for _, r := range recs {
		m := mpID(r.Mountpoint)
		if r.Key != r.Mountpoint {
			m = 996
		}
		c := r.Config
		v.Store = append(v.Store, Rec{m, labelsID(r.Labels), cfgID(r.Root, &c)})
	}
	for _, f := range w.insts {
		v.Cfgs = append(v.Cfgs, f.cfg)
		v.Mnts = append(v.Mnts, append([][2]int{}, f.mounted...))
	}
	return v
}

// ---- execution + model-free oracle ----

func inSet(xs [][2]int, m int) (int, bool) {
	for _, e := range xs {
		if e[0] == m {
			return e[1], true
		}
	}
	return 0, false
}

func storeHas(rs []Rec, m int) (Rec, bool) {
	for _, r := range rs {
		if r.M == m {
			return r, true
		}
	}
	return Rec{}, false
}

func exec(c Case) ([]Obs, []string) {
	w := newWorld()
	defer w.cleanup()
	var outs []Obs
	problems := []string{}
	bad := func(i int, f string, a ...any) {
		problems = append(problems, fmt.Sprintf("op %d (%s): ", i, c.Ops[i].Op)+fmt.Sprintf(f, a...))
	}
	prev := w.view()
	// oracle state, derived from observations only
	initedThisProcess := false // an Init was requested since the process started
	lastInitOK := false
	lastInitInst := -1        // instance built by the last Init that returned OK
	lastInitCfg := -1         // config id passed to it
	pending := map[int]bool{} // records left unrestored by the last Init (store \ fsMap right after it)
	for i, o := range c.Ops {
		ninst := len(w.insts)
		res := w.do(o)
		v := w.view()
		ob := Obs{Res: res, Calls: append([]Call{}, w.calls...), View: v}
		outs = append(outs, ob)
		for _, p := range w.problems {
			bad(i, "%s", p)
		}
		w.problems = nil

		if res == 2 {
			bad(i, "the RPC method panicked")
		}
		if v.Status == 9 {
			bad(i, "status is none of NotReady / WaitInit / Ready")
		}
		// requests before initialisation fail (and reach no filesystem)
		if !initedThisProcess && (o.Op == "mount" || o.Op == "check" || o.Op == "unmount") {
			if res != 1 || len(ob.Calls) != 0 {
				bad(i, "request before initialisation did not fail cleanly (res=%d calls=%v)", res, ob.Calls)
			}
		}
		switch o.Op {
		case "restart":
			initedThisProcess, lastInitOK, lastInitInst, lastInitCfg = false, false, -1, -1
			pending = map[int]bool{}
			if !prev.Closed && fmt.Sprint(v.Store) != fmt.Sprint(prev.Store) {
				bad(i, "store changed across a manager restart: %v -> %v", prev.Store, v.Store)
			}
		case "init":
			initedThisProcess = true
			lastInitOK = res == 0
			if res == 0 {
				lastInitCfg = o.C
				lastInitInst = -1
				if len(w.insts) == ninst+1 {
					lastInitInst = ninst
					if w.insts[ninst].cfg != o.C {
						bad(i, "filesystem of Init(cfg %d) was built from config %d", o.C, w.insts[ninst].cfg)
					}
				} else {
					bad(i, "successful Init built %d filesystems", len(w.insts)-ninst)
				}
			}
			// existing mounts keep their owner and are not mounted again
			for _, e := range prev.FsMap {
				if own, ok := inSet(v.FsMap, e[0]); !ok || own != e[1] {
					bad(i, "mountpoint %d owned by instance %d lost its owner across Init (now %v,%v)", e[0], e[1], own, ok)
				}
				for _, cl := range ob.Calls {
					if cl.M == e[0] {
						bad(i, "Init issued a backend call for the already mounted mountpoint %d", e[0])
					}
				}
			}
			// the backend calls of Init are Mounts, on the new instance, of recorded mountpoints that were not
			// mounted, in bucket order, each with its recorded labels; only the last one may have failed
			var want []Call
			for _, r := range prev.Store {
				if _, ok := inSet(prev.FsMap, r.M); !ok {
					want = append(want, Call{ninst, 0, r.M, r.L})
				}
			}
			if len(ob.Calls) > len(want) {
				bad(i, "Init issued more backend calls than unrestored records: %v, records %v", ob.Calls, prev.Store)
			} else {
				for j, cl := range ob.Calls {
					if cl != want[j] {
						bad(i, "restore call %d is %v, want %v (recorded mountpoint with recorded labels on the new instance)", j, cl, want[j])
					}
				}
			}
			if res == 0 && !prev.Closed {
				if len(ob.Calls) != len(want) {
					bad(i, "Init returned success but restored %d of %d unrestored records", len(ob.Calls), len(want))
				}
				for _, r := range prev.Store {
					own, ok := inSet(v.FsMap, r.M)
					if !ok {
						bad(i, "Init returned success but recorded mountpoint %d is not mounted", r.M)
					} else if _, was := inSet(prev.FsMap, r.M); !was {
						if own < 0 || own >= len(w.insts) {
							bad(i, "recorded mountpoint %d is owned by something that is not a filesystem built by Init", r.M)
						} else if l, ok2 := inSet(w.insts[own].mounted, r.M); !ok2 || l != r.L {
							bad(i, "recorded mountpoint %d restored with labels %d, recorded %d", r.M, l, r.L)
						}
					}
				}
			}
			pending = map[int]bool{}
			for _, r := range v.Store {
				if _, ok := inSet(v.FsMap, r.M); !ok {
					pending[r.M] = true
				}
			}
			if len(pending) > 0 && res == 0 {
				bad(i, "Init left records %v unrestored but reported success", pending)
			}
		case "mount":
			if _, was := inSet(prev.FsMap, o.M); !was && len(ob.Calls) > 0 && lastInitOK {
				// a new mount after a successful (re-)initialisation uses the filesystem of the new configuration
				for _, cl := range ob.Calls {
					if cl.I != lastInitInst || w.insts[cl.I].cfg != lastInitCfg {
						bad(i, "new mount went to instance %d (cfg %d), the last Init built instance %d from cfg %d", cl.I, w.insts[cl.I].cfg, lastInitInst, lastInitCfg)
					}
				}
				if res == 0 {
					if r, ok := storeHas(v.Store, o.M); !v.Closed && (!ok || r.L != o.L || r.C != lastInitCfg) {
						bad(i, "new mount recorded as %v (present=%v), want labels %d cfg %d", r, ok, o.L, lastInitCfg)
					}
				}
			}
			if _, was := inSet(prev.FsMap, o.M); was && len(ob.Calls) > 0 {
				bad(i, "Mount of an already mounted mountpoint reached a filesystem: %v", ob.Calls)
			}
		case "unmount":
			_, rec := storeHas(prev.Store, o.M)
			_, mnt := inSet(prev.FsMap, o.M)
			if !rec && !mnt && len(w.servedBy(o.M)) == 0 && o.M != 0 && prev.Status == 2 && res != 0 {
				bad(i, "Unmount of a mountpoint neither recorded nor mounted failed")
			}
		}
		// every Check/Unmount goes to the owner recorded before the op
		for _, cl := range ob.Calls {
			if cl.K != 0 {
				if own, ok := inSet(prev.FsMap, cl.M); !ok || own != cl.I {
					bad(i, "backend call %v went to instance %d, owner is %v (known=%v)", cl, cl.I, own, ok)
				}
			}
		}
		// the manager's table is what the instances really serve, each mountpoint once
		for _, e := range v.FsMap {
			if by := w.servedBy(e[0]); len(by) != 1 || by[0] != e[1] {
				bad(i, "mountpoint %d: manager says instance %d, served by %v", e[0], e[1], by)
			}
		}
		for _, f := range w.insts {
			for _, e := range f.mounted {
				if own, ok := inSet(v.FsMap, e[0]); !ok || own != f.id {
					bad(i, "instance %d serves mountpoint %d unknown to the manager (table: %v,%v)", f.id, e[0], own, ok)
				}
			}
		}
		// store = live mounts + at most the records the last Init failed to restore (and it said so)
		if v.Status == 2 && !v.Closed {
			for _, e := range v.FsMap {
				if _, ok := storeHas(v.Store, e[0]); !ok {
					bad(i, "mountpoint %d is served but not recorded", e[0])
				}
			}
			for _, r := range v.Store {
				if _, ok := inSet(v.FsMap, r.M); !ok {
					if !pending[r.M] {
						bad(i, "mountpoint %d is recorded, not served, and was not left unrestored by the last Init", r.M)
					} else if lastInitOK {
						bad(i, "mountpoint %d is recorded but not served although the last Init reported success", r.M)
					}
				}
			}
		}
		prev = v
	}
	return outs, problems
}

// ---- Coq printing ----

func coqOp(o Op) string {
	switch o.Op {
	case "init":
		st := map[string]string{"json": "IBadJSON", "cfgfunc": "ICfgFuncFail", "fs": "IFsFail", "run": "IRun"}[o.Stage]
		sc := make([]string, len(o.Script))
		for i, b := range o.Script {
			sc[i] = hx.CoqBool(b)
		}
		return fmt.Sprintf("Init %d %s %s", o.C, st, hx.CoqList(sc))
	case "mount":
		return fmt.Sprintf("Mount %d %d %s", o.M, o.L, hx.CoqBool(o.Ok))
	case "check":
		return fmt.Sprintf("Check %d %d %s", o.M, o.L, hx.CoqBool(o.Ok))
	case "unmount":
		return fmt.Sprintf("Unmount %d %s", o.M, hx.CoqBool(o.Ok))
	case "close":
		return "Close"
	}
	return "Restart"
}

func coqPairs(xs [][2]int) string {
	s := make([]string, len(xs))
	for i, e := range xs {
		s[i] = fmt.Sprintf("pr %d %d", e[0], e[1])
	}
	return hx.CoqList(s)
}

func coqObs(o Obs) string {
	res := []string{"ROk", "RErr", "RPanic"}[o.Res]
	cs := make([]string, len(o.Calls))
	for i, c := range o.Calls {
		cs[i] = fmt.Sprintf("cl %d %s %d %d", c.I, []string{"KMount", "KCheck", "KUnmount"}[c.K], c.M, c.L)
	}
	v := o.View
	st := "NotReady" // an unknown status value (9) prints as NotReady and is reported by the oracle
	switch v.Status {
	case 1:
		st = "WaitInit"
	case 2:
		st = "Ready"
	}
	curS := "no"
	if v.Cur >= 0 {
		curS = fmt.Sprintf("(sm %d)", v.Cur)
	}
	sto := make([]string, len(v.Store))
	for i, r := range v.Store {
		sto[i] = fmt.Sprintf("rc %d %d %d", r.M, r.L, r.C)
	}
	mn := make([]string, len(v.Mnts))
	for i, m := range v.Mnts {
		mn[i] = coqPairs(m)
	}
	return fmt.Sprintf("ob %s %s (vw %s %s %s %s %s %s %s)", res, hx.CoqList(cs), st, hx.CoqBool(v.Closed), curS,
		coqPairs(v.FsMap), hx.CoqList(sto), hx.CoqNatList(v.Cfgs), hx.CoqList(mn))
}

func coqCase(c Case, outs []Obs) string {
	ops := make([]string, len(c.Ops))
	for i, o := range c.Ops {
		ops[i] = coqOp(o)
	}
	os := make([]string, len(outs))
	for i, o := range outs {
		os[i] = coqObs(o)
	}
	// code variant true = mount() guards a nil curFs (patches/C17-fix-1.diff); externally mounted = {0}
	return fmt.Sprintf("cas true [0] %s %s", hx.CoqList(ops), hx.CoqList(os))
}

// ---- generation ----

const nMP, nLbl, nCfg = 10, 4, 4

func genInit(r *hx.Rng) Op {
	o := Op{Op: "init", C: r.Intn(nCfg)}
	switch r.Pick(76, 8, 8, 8) {
	case 0:
		o.Stage = "run"
		n := r.Pick(5, 2, 2, 1, 1)
		for j := 0; j < n; j++ {
			o.Script = append(o.Script, !r.Chance(2, 5))
		}
	case 1:
		o.Stage = "fs"
	case 2:
		o.Stage = "cfgfunc"
	case 3:
		o.Stage = "json"
	}
	return o
}

func gen(r *hx.Rng) Case {
	c := Case{}
	n := r.Range(4, 18)
	if !r.Chance(1, 6) {
		o := genInit(r)
		if r.Chance(4, 5) {
			o.Stage, o.Script = "run", nil
		}
		c.Ops = append(c.Ops, o)
	}
	// a rough guess of what is mounted, only to aim ops at interesting mountpoints
	likely := []int{}
	add := func(m int) {
		for _, x := range likely {
			if x == m {
				return
			}
		}
		likely = append(likely, m)
	}
	drop := func(m int) {
		for i, x := range likely {
			if x == m {
				likely = append(likely[:i], likely[i+1:]...)
				return
			}
		}
	}
	mp := func(bias int) int {
		if len(likely) > 0 && r.Chance(bias, 100) {
			return likely[r.Intn(len(likely))]
		}
		if r.Chance(1, 12) {
			return 0
		}
		return 1 + r.Intn(nMP)
	}
	for len(c.Ops) < n {
		switch r.Pick(34, 12, 20, 14, 2, 9) {
		case 0:
			o := Op{Op: "mount", M: mp(20), L: r.Intn(nLbl), Ok: !r.Chance(1, 7)}
			if o.Ok {
				add(o.M)
			}
			c.Ops = append(c.Ops, o)
		case 1:
			c.Ops = append(c.Ops, Op{Op: "check", M: mp(75), L: r.Intn(nLbl), Ok: !r.Chance(1, 5)})
		case 2:
			o := Op{Op: "unmount", M: mp(60), Ok: !r.Chance(1, 5)}
			if o.Ok {
				drop(o.M)
			}
			c.Ops = append(c.Ops, o)
		case 3:
			c.Ops = append(c.Ops, genInit(r))
		case 4:
			c.Ops = append(c.Ops, Op{Op: "close"})
			if r.Chance(1, 4) {
				c.Ops = append(c.Ops, Op{Op: "close"})
			}
			if r.Chance(2, 3) {
				c.Ops = append(c.Ops, Op{Op: "restart"})
				likely = likely[:0]
			}
		case 5:
			c.Ops = append(c.Ops, Op{Op: "restart"})
			if r.Chance(3, 4) {
				o := genInit(r)
				if o.Stage == "run" && len(likely) > 0 && r.Chance(1, 3) {
					// a restore that fails at a random record of the populated store
					o.Script = nil
					for j := r.Intn(len(likely)); j > 0; j-- {
						o.Script = append(o.Script, true)
					}
					o.Script = append(o.Script, false)
				}
				c.Ops = append(c.Ops, o)
			}
		}
	}
	return c
}

func main() {
	ctx := hx.Start()
	logrus.SetOutput(io.Discard)
	log.L.Logger.SetOutput(io.Discard)
	install()
	emit := func(c Case) {
		outs, problems := exec(c)
		c.Outs = outs
		kinds := map[string]bool{}
		reinitLive, restartPop, restoreFail := false, false, false
		for i, o := range c.Ops {
			ctx.Count("op." + o.Op)
			kinds[o.Op] = true
			ob := outs[i]
			ctx.Count(fmt.Sprintf("result.%s.%d", o.Op, ob.Res))
			var prev View
			if i > 0 {
				prev = outs[i-1].View
			}
			switch o.Op {
			case "init":
				ctx.Count("init.stage." + o.Stage)
				if i > 0 && len(prev.FsMap) > 0 {
					ctx.Count("init.with-live-mounts")
					reinitLive = true
				}
				if i > 0 && c.Ops[i-1].Op == "restart" && len(prev.Store) > 0 {
					ctx.Count("init.after-restart-populated")
					restartPop = true
				}
				if o.Stage == "run" && ob.Res == 1 && len(ob.Calls) > 0 {
					ctx.Count("init.restore-failed")
					restoreFail = true
				}
				if len(ob.Calls) > 0 {
					ctx.Count("init.restored-some")
				}
			case "mount":
				if i > 0 {
					if _, ok := inSet(prev.FsMap, o.M); ok {
						ctx.Count("mount.already-mounted")
					}
				}
				if ob.Res != 0 && i > 0 && prev.Status == 2 && prev.Cur < 0 {
					ctx.Count("mount.no-filesystem")
				}
			case "unmount":
				if i > 0 && prev.Status == 2 {
					_, a := inSet(prev.FsMap, o.M)
					_, b := storeHas(prev.Store, o.M)
					if !a && !b {
						ctx.Count("unmount.unknown")
					}
					if !a && b {
						ctx.Count("unmount.recorded-not-mounted")
					}
					if !a && o.M == 0 {
						ctx.Count("unmount.kernel-mounted")
					}
				}
			}
			if (o.Op == "mount" || o.Op == "check" || o.Op == "unmount") && (i == 0 || prev.Status != 2) {
				ctx.Count("request.not-ready")
			}
		}
		// input-only counters (these, not the behaviour-dependent ones above, are what the driver requires to be
		// non-zero: a broken implementation must surface as a VIOLATION, not as a generator-sanity failure)
		inited, closedOnce, sinceRestart := false, false, 0
		for i, o := range c.Ops {
			switch o.Op {
			case "init":
				ctx.Count("in.init." + o.Stage)
				if inited {
					ctx.Count("in.reinit")
				}
				if i > 0 && c.Ops[i-1].Op == "restart" && sinceRestart > 0 {
					ctx.Count("in.init-after-restart-with-history")
				}
				for _, b := range o.Script {
					if !b {
						ctx.Count("in.init-script-failure")
						break
					}
				}
				inited = true
			case "mount", "check", "unmount":
				if !inited {
					ctx.Count("in.request-before-init")
				}
				if !o.Ok {
					ctx.Count("in." + o.Op + "-failure")
				}
				if o.M == 0 {
					ctx.Count("in.kernel-mounted-mountpoint")
				}
			case "close":
				if closedOnce {
					ctx.Count("in.close-twice")
				}
				closedOnce = true
			case "restart":
				inited, closedOnce = false, false
				sinceRestart = i
			}
		}
		ctx.CountN("ops", len(c.Ops))
		nontrivial := len(kinds) >= 3 && (reinitLive || restartPop || restoreFail)
		term := coqCase(c, outs)
		id := ctx.Case(term, c, term, nontrivial)
		for _, p := range problems {
			if strings.Contains(p, "HARNESS:") {
				panic(p)
			}
			ctx.Violation(id, p, nil)
		}
	}
	if ctx.Replay != "" {
		var c Case
		ctx.LoadReplay(&c)
		c.Outs = nil
		emit(c)
		ctx.Finish()
		return
	}
	run := func(script ...bool) Op { return Op{Op: "init", Stage: "run", Script: script} }
	runc := func(c int, script ...bool) Op { return Op{Op: "init", C: c, Stage: "run", Script: script} }
	corpus := []Case{
		// the three scenarios of fusemanager_test: mount/check/unmount; init error; mount error
		{Ops: []Op{run(), {Op: "mount", M: 1, L: 1, Ok: true}, {Op: "check", M: 1, L: 1, Ok: true}, {Op: "unmount", M: 1, Ok: true}}},
		{Ops: []Op{{Op: "init", Stage: "fs"}, {Op: "mount", M: 2, L: 1, Ok: true}, {Op: "check", M: 2, Ok: true}, {Op: "unmount", M: 2, Ok: true}}},
		{Ops: []Op{run(), {Op: "mount", M: 3, L: 1, Ok: false}, {Op: "check", M: 3, L: 1, Ok: true}, {Op: "unmount", M: 3, Ok: true}}},
		// requests before initialisation; failed first Init at each stage, then a Mount (F19)
		{Ops: []Op{{Op: "mount", M: 1, Ok: true}, {Op: "check", M: 1, Ok: true}, {Op: "unmount", M: 1, Ok: true}, {Op: "init", Stage: "json"}, {Op: "mount", M: 1, L: 2, Ok: true}, {Op: "init", Stage: "cfgfunc"}, {Op: "mount", M: 1, L: 2, Ok: true}, {Op: "unmount", M: 1, Ok: true}, {Op: "check", M: 1, Ok: true}}},
		// snapshotter restart: re-Init with live mounts and a new configuration
		{Ops: []Op{runc(0), {Op: "mount", M: 1, L: 1, Ok: true}, {Op: "mount", M: 2, L: 2, Ok: true}, runc(1), {Op: "mount", M: 3, L: 3, Ok: true}, {Op: "mount", M: 1, L: 3, Ok: true}, {Op: "check", M: 1, L: 1, Ok: true}, {Op: "check", M: 3, L: 3, Ok: true}, {Op: "unmount", M: 2, Ok: true}, {Op: "unmount", M: 3, Ok: true}, {Op: "unmount", M: 1, Ok: false}, {Op: "unmount", M: 1, Ok: true}}},
		// manager restart with a populated store: full restore; failing restore, retry
		{Ops: []Op{runc(0), {Op: "mount", M: 1, L: 1, Ok: true}, {Op: "mount", M: 2, L: 2, Ok: true}, {Op: "mount", M: 3, L: 0, Ok: true}, {Op: "restart"}, {Op: "check", M: 1, Ok: true}, runc(2), {Op: "check", M: 2, L: 2, Ok: true}, {Op: "restart"}, runc(3, true, false), {Op: "unmount", M: 2, Ok: true}, {Op: "unmount", M: 3, Ok: true}, {Op: "mount", M: 3, L: 1, Ok: true}, runc(1, false), runc(1), {Op: "unmount", M: 2, Ok: true}}},
		// restart, construction failure, mount; unmount of unknown / kernel-mounted mountpoints; close
		{Ops: []Op{runc(1), {Op: "mount", M: 4, L: 1, Ok: true}, {Op: "restart"}, {Op: "init", C: 2, Stage: "fs"}, {Op: "mount", M: 5, L: 1, Ok: true}, {Op: "unmount", M: 4, Ok: true}, {Op: "unmount", M: 5, Ok: true}, {Op: "unmount", M: 0, Ok: true}, {Op: "mount", M: 0, L: 1, Ok: true}, runc(2), {Op: "unmount", M: 0, Ok: true}, {Op: "mount", M: 0, L: 1, Ok: true}, {Op: "unmount", M: 0, Ok: true}, {Op: "close"}, {Op: "mount", M: 1, Ok: true}, {Op: "close"}, runc(3), {Op: "mount", M: 1, Ok: true}, {Op: "restart"}, runc(0)}},
	}
	// spellings: Mount with a trailing slash, Check/Unmount with the same and with the canonical spelling (other keys),
	// unmount, restart: nothing may be left to restore; then "/x/../" and "//" spellings across a restart
	k := func(s string) int { return mpID("/verif-c17/" + s) }
	corpus = append(corpus, Case{Ops: []Op{runc(0), {Op: "mount", M: k("mp1/"), L: 1, Ok: true}, {Op: "check", M: k("mp1/"), L: 1, Ok: true},
		{Op: "check", M: k("mp1"), L: 1, Ok: true}, {Op: "unmount", M: k("mp1"), Ok: true}, {Op: "unmount", M: k("mp1/"), Ok: true},
		{Op: "restart"}, runc(1), {Op: "check", M: k("mp1/"), L: 1, Ok: true},
		{Op: "mount", M: k("mp1/../mp1"), L: 2, Ok: true}, {Op: "mount", M: k("/mp3"), L: 3, Ok: true}, {Op: "mount", M: k("./mp2"), L: 1, Ok: true},
		{Op: "mount", M: k("mp1"), L: 1, Ok: true}, {Op: "unmount", M: k("/mp3"), Ok: true}, {Op: "restart"}, runc(2),
		{Op: "unmount", M: k("mp1/../mp1"), Ok: true}, {Op: "unmount", M: k("./mp2"), Ok: false}, {Op: "check", M: k("./mp2"), L: 1, Ok: true}, {Op: "restart"}, runc(3)}})
	for _, c := range corpus {
		emit(c)
	}
	r := hx.NewRng(ctx.Seed)
	for i := len(corpus); i < ctx.N; i++ {
		emit(gen(r.Fork()))
	}
	ctx.Finish()
}
