// C03 footer harness: the four footer layouts (eStargz gzip 51 bytes, legacy stargz 47 bytes, zstd:chunked
// 40 bytes in a skippable frame, external TOC 46 bytes).  Encoders are reached through the exported
// WriteTOCAndFooter / CreateGzipFooter, parsers through the exported ParseFooter.  Per case the observed
// bytes / parse result are printed as a Coq term for Model/EsgzFooter.v; the model-free oracle checks the
// round trip parse(encode(off)) and the exact sizes directly on the implementation.
package main

import (
	"bytes"
	"fmt"

	"github.com/containerd/stargz-snapshotter/estargz"
	"github.com/containerd/stargz-snapshotter/estargz/externaltoc"
	"github.com/containerd/stargz-snapshotter/estargz/zstdchunked"
	"github.com/klauspost/compress/zstd"
	"verif/harness/hx"
)

type Case struct {
	Kind string `json:"kind"` // enc | parse
	Fmt  string `json:"fmt"`  // gzip legacy zstd ext
	Off  uint64 `json:"off"`
	NEnt int    `json:"nent"`          // zstd: number of TOC entries (varies the TOC sizes)
	Mut  []int  `json:"mut,omitempty"` // parse: (position, new byte) pairs applied to the real footer
	Len  int    `json:"len,omitempty"` // parse: bytes appended (+) or cut (-) at the end
}

func tocOf(n int) *estargz.JTOC {
	t := &estargz.JTOC{Version: 1}
	for i := 0; i < n; i++ {
		t.Entries = append(t.Entries, &estargz.TOCEntry{Name: fmt.Sprintf("file%d", i), Type: "reg", Size: int64(i)})
	}
	return t
}

// encode returns the footer bytes the implementation writes for payload size off, plus (zstd) the sizes it embeds.
func encode(c Case) (footer []byte, raw, comp uint64) {
	var buf bytes.Buffer
	switch c.Fmt {
	case "gzip":
		if _, err := estargz.NewGzipCompressorWithLevel(1).WriteTOCAndFooter(&buf, int64(c.Off), tocOf(0), nil); err != nil {
			panic(err)
		}
		b := buf.Bytes()
		return b[len(b)-estargz.FooterSize:], 0, 0
	case "legacy":
		return estargz.CreateGzipFooter([]byte(fmt.Sprintf("%016xSTARGZ", int64(c.Off)))), 0, 0
	case "zstd":
		zc := &zstdchunked.Compressor{CompressionLevel: zstd.SpeedFastest, Metadata: map[string]string{}}
		if _, err := zc.WriteTOCAndFooter(&buf, int64(c.Off), tocOf(c.NEnt), nil); err != nil {
			panic(err)
		}
		b := buf.Bytes()
		var pos, rawLen, compLen, typ uint64
		fmt.Sscanf(zc.Metadata[zstdchunked.ManifestPositionAnnotation], "%d:%d:%d:%d", &pos, &compLen, &rawLen, &typ)
		return b[len(b)-48:], rawLen, compLen
	default:
		if _, err := externaltoc.NewGzipCompressorWithLevel(1).WriteTOCAndFooter(&buf, int64(c.Off), tocOf(0), nil); err != nil {
			panic(err)
		}
		b := buf.Bytes()
		return b[len(b)-externaltoc.FooterSize:], 0, 0
	}
}

func parse(f string, p []byte) (res string, a, b, c int64) {
	defer func() {
		if r := recover(); r != nil {
			res = "panic"
		}
	}()
	var err error
	switch f {
	case "gzip":
		a, b, c, err = (&estargz.GzipDecompressor{}).ParseFooter(p)
	case "legacy":
		a, b, c, err = (&estargz.LegacyGzipDecompressor{}).ParseFooter(p)
	case "zstd":
		a, b, c, err = (&zstdchunked.Decompressor{}).ParseFooter(p)
	default:
		a, b, c, err = externaltoc.NewGzipDecompressor(nil).ParseFooter(p)
	}
	if err != nil {
		return "err", 0, 0, 0
	}
	return "ok", a, b, c
}

var fmtTerm = map[string]string{"gzip": "FGzip", "legacy": "FLegacy", "zstd": "FZstd", "ext": "FExt"}

func main() {
	ctx := hx.Start()
	emit := func(c Case) {
		var footer []byte
		var raw, comp uint64
		func() {
			defer func() {
				if r := recover(); r != nil {
					footer = nil
				}
			}()
			footer, raw, comp = encode(c)
		}()
		if footer == nil {
			id := ctx.Case("CEnc FGzip 0 0 0 []", c, "panic", false)
			ctx.Violation(id, fmt.Sprintf("the %s footer encoder panicked for offset %d", c.Fmt, c.Off), nil)
			return
		}
		ctx.Count("fmt." + c.Fmt)
		ctx.Count("kind." + c.Kind)
		if c.Kind == "enc" {
			term := fmt.Sprintf("CEnc %s %d %d %d %s", fmtTerm[c.Fmt], c.Off, raw, comp, hx.CoqBytes(footer))
			id := ctx.Case(term, c, term, c.Off > 0)
			// model-free oracle: exact size, and the implementation's own parser gives the offset back
			wantLen := map[string]int{"gzip": 51, "legacy": 47, "zstd": 48, "ext": 46}[c.Fmt]
			if len(footer) != wantLen {
				ctx.Violation(id, fmt.Sprintf("%s footer has %d bytes, documented %d", c.Fmt, len(footer), wantLen), nil)
			}
			p := footer
			if c.Fmt == "zstd" {
				p = footer[8:]
			}
			r, a, b, cc := parse(c.Fmt, p)
			off := int64(c.Off)
			ok := false
			switch c.Fmt {
			case "gzip", "legacy":
				ok = r == "ok" && a == off && b == off && cc == 0
			case "zstd":
				ok = r == "ok" && a == off && b == off+8 && cc == int64(comp)
			default:
				ok = r == "ok" && a == -1 && b == -1 && cc == 0
			}
			if !ok {
				ctx.Violation(id, fmt.Sprintf("%s footer for offset %d does not parse back: %s (%d,%d,%d)", c.Fmt, off, r, a, b, cc), nil)
			}
			return
		}
		p := append([]byte{}, footer...)
		if c.Fmt == "zstd" {
			p = p[8:]
		}
		for i := 0; i+1 < len(c.Mut); i += 2 {
			if c.Mut[i] >= 0 && c.Mut[i] < len(p) {
				p[c.Mut[i]] = byte(c.Mut[i+1])
			}
		}
		if c.Len > 0 {
			p = append(p, make([]byte, c.Len)...)
		} else if c.Len < 0 && -c.Len < len(p) {
			p = p[:len(p)+c.Len]
		}
		r, a, b, cc := parse(c.Fmt, p)
		ctx.Count("parse." + r)
		obs := "PErr"
		if r == "ok" {
			obs = fmt.Sprintf("(POk %s %s %s)", hx.CoqZ(a), hx.CoqZ(b), hx.CoqZ(cc))
		} else if r == "panic" {
			obs = "PUnmodelled"
		}
		term := fmt.Sprintf("CParse %s %s %s", fmtTerm[c.Fmt], hx.CoqBytes(p), obs)
		id := ctx.Case(term, c, term, len(c.Mut) > 0)
		if r == "panic" {
			// outside the format side (C04 owns hostile footers); the generator is not supposed to reach it
			ctx.Violation(id, "ParseFooter panicked on a footer the C03 generator considers well-formed enough", nil)
		}
	}
	if ctx.Replay != "" {
		var c Case
		ctx.LoadReplay(&c)
		emit(c)
		ctx.Finish()
		return
	}
	fmts := []string{"gzip", "legacy", "zstd", "ext"}
	edge := []uint64{0, 1, 9, 15, 16, 255, 256, 4095, 1<<31 - 1, 1 << 31, 1<<32 - 1, 1 << 32, 1 << 53, 1<<62 + 12345, 1<<63 - 9, 1<<63 - 1,
		0x0123456789abcdef, 0x7edcba9876543210}
	n := 0
	for _, f := range fmts {
		for _, o := range edge {
			if f == "zstd" && o > 1<<63-9 {
				continue // uint64(off)+8 leaves the int64 range: not a reachable payload size
			}
			emit(Case{Kind: "enc", Fmt: f, Off: o, NEnt: int(o % 5)})
			emit(Case{Kind: "parse", Fmt: f, Off: o, NEnt: int(o % 3)})
			n += 2
		}
	}
	r := hx.NewRng(ctx.Seed)
	for ; n < ctx.N; n++ {
		q := r.Fork()
		c := Case{Fmt: fmts[q.Pick(4, 3, 4, 1)], NEnt: q.Intn(6)}
		switch q.Intn(4) {
		case 0:
			c.Off = q.U64() >> 1
		case 1:
			c.Off = q.U64() >> uint(1+q.Intn(63))
		case 2:
			c.Off = uint64(1)<<uint(q.Intn(63)) - uint64(q.Intn(2))
		default:
			c.Off = uint64(q.Intn(1 << 20))
		}
		if c.Fmt == "zstd" && c.Off > 1<<63-9 {
			c.Off = 1<<63 - 9
		}
		if q.Bool() {
			c.Kind = "enc"
		} else {
			c.Kind = "parse"
			if q.Chance(2, 3) {
				flen := map[string]int{"gzip": 51, "legacy": 47, "zstd": 40, "ext": 46}[c.Fmt]
				k := q.Range(1, 2)
				for i := 0; i < k; i++ {
					pos := q.Intn(flen)
					// positions whose corruption leaves the format side (flags, XLEN: slice panics of C04/F1-F3,
					// header CRC) are not generated
					if c.Fmt != "zstd" && (pos == 3 || pos == 10 || pos == 11) {
						pos = 12 + q.Intn(flen-12)
					}
					val := q.Intn(256)
					if q.Bool() {
						val = int("0123456789abcdefABCDEFg+-_ xSG"[q.Intn(30)])
					}
					c.Mut = append(c.Mut, pos, val)
				}
			}
			if q.Chance(1, 8) {
				c.Len = []int{1, 5, -1, -3}[q.Intn(4)]
				if c.Fmt == "zstd" && c.Len < 0 {
					c.Len = 4 // a short zstd footer panics in the unrepaired parser (C04/F2)
				}
			}
		}
		emit(c)
	}
	ctx.Finish()
}
