// C16 correspondence harness: drives the real store.LayerManager (real refPool, real fs/layer.Resolver,
// real eStargz blobs, in-memory registry) with histories of lookup / info / use / release (and the
// sub-steps of getLayer), evaluates the property's clauses directly on the observations (model-free oracle),
// and prints every history with the observed results and map dumps as a Coq term for Model/Store.v.
package main

import (
	"archive/tar"
	"bytes"
	"compress/gzip"
	"context"
	"encoding/json"
	"fmt"
	"io"
	"net/http"
	"os"
	"sort"
	"strings"
	"sync"
	"time"

	"github.com/containerd/containerd/v2/core/remotes/docker"
	"github.com/containerd/containerd/v2/pkg/reference"
	"github.com/containerd/log"
	"github.com/containerd/stargz-snapshotter/estargz"
	"github.com/containerd/stargz-snapshotter/fs/config"
	"github.com/containerd/stargz-snapshotter/fs/remote"
	memorymetadata "github.com/containerd/stargz-snapshotter/metadata/memory"
	"github.com/containerd/stargz-snapshotter/store"
	digest "github.com/opencontainers/go-digest"
	"github.com/opencontainers/image-spec/specs-go"
	ocispec "github.com/opencontainers/image-spec/specs-go/v1"
	"github.com/sirupsen/logrus"

	"verif/harness/hx"
)

// ---------------------------------------------------------------------------------------------
// case format

type World struct {
	Ltoc   []int   `json:"ltoc"`   // per layer digest id: TOC id (== blob id) or -1 (not eStargz)
	Images [][]int `json:"images"` // per ref id: layer digest ids of the manifest
	// per ref id, per layer index: the toc.digest annotation of the layer descriptor in the manifest:
	// -1 (or missing) = none, 0..4 / 50.. / 100.. = the digest of that toc id (correct when it is the layer's own), 900 = not a digest
	Ann [][]int `json:"ann,omitempty"`
}

type Op struct {
	Op  string `json:"op"`          // lookup info use release loadref resolve probe
	K   string `json:"k,omitempty"` // lookup: diff | blob
	R   int    `json:"r"`
	T   int    `json:"t,omitempty"`
	L   int    `json:"l,omitempty"`
	Mf  bool   `json:"mf,omitempty"`  // manifest fetch fails during this op
	Fl  []int  `json:"fl,omitempty"`  // layer digest ids whose blob fetch fails during this op
	Grp int    `json:"grp,omitempty"` // lookups with the same non-zero grp (consecutive) run concurrently
	Cx  string `json:"cx,omitempty"`  // lookup: the client's context is cancelled "before" the call, "mid" (while a blob request is in flight) or "after" it
}

type Case struct {
	World World `json:"world"`
	Ops   []Op  `json:"ops"`
}

type Obs struct {
	Res     string   `json:"res"` // ok fail infoempty infofull count err
	N       int      `json:"n,omitempty"`
	Chk     bool     `json:"chk"` // state dump valid (false for non-final members of a concurrent group)
	Layers  [][3]int `json:"layers,omitempty"`
	Counts  [][3]int `json:"counts,omitempty"`
	Memo    [][3]int `json:"memo,omitempty"`
	Pool    [][2]int `json:"pool,omitempty"`
	Manif   []int    `json:"manif,omitempty"`
	Empties int      `json:"empties,omitempty"`
	Closed  [][2]int `json:"closed,omitempty"` // layers the manager holds whose object has been closed
}

// ---------------------------------------------------------------------------------------------
// the registry: blobs (built once), images (per case)

const (
	nEsgz    = 5
	nPlain   = 2
	nBlobs   = nEsgz + nPlain
	tocUnk0  = 50  // toc ids 50, 51: digests no layer has
	tocAsLD  = 100 // toc id 100+j: the *layer* digest of blob j used as directory name
	hostName = "reg.test"
)

type blob struct {
	data []byte
	dgst digest.Digest
	toc  digest.Digest // "" when not eStargz
}

var blobs []blob

func buildTar(i int) []byte {
	var buf bytes.Buffer
	tw := tar.NewWriter(&buf)
	add := func(name string, body string) {
		tw.WriteHeader(&tar.Header{Name: name, Typeflag: tar.TypeReg, Mode: 0644, Size: int64(len(body))})
		tw.Write([]byte(body))
	}
	tw.WriteHeader(&tar.Header{Name: "d/", Typeflag: tar.TypeDir, Mode: 0755})
	add("d/a", fmt.Sprintf("content of layer %d", i))
	add("b", strings.Repeat(fmt.Sprintf("%d", i), 100+i))
	tw.Close()
	return buf.Bytes()
}

func buildBlobs() {
	for i := 0; i < nBlobs; i++ {
		t := buildTar(i)
		if i < nEsgz {
			b, err := estargz.Build(io.NewSectionReader(bytes.NewReader(t), 0, int64(len(t))), estargz.WithCompressionLevel(gzip.BestSpeed))
			if err != nil {
				panic(err)
			}
			data, err := io.ReadAll(b)
			if err != nil {
				panic(err)
			}
			b.Close()
			blobs = append(blobs, blob{data: data, dgst: digest.FromBytes(data), toc: b.TOCDigest()})
		} else {
			var z bytes.Buffer
			zw := gzip.NewWriter(&z)
			zw.Write(t)
			zw.Close()
			blobs = append(blobs, blob{data: z.Bytes(), dgst: digest.FromBytes(z.Bytes())})
		}
	}
}

func tocDigest(t int) digest.Digest {
	switch {
	case t >= 0 && t < nEsgz:
		return blobs[t].toc
	case t >= tocAsLD && t < tocAsLD+nBlobs:
		return blobs[t-tocAsLD].dgst
	default:
		return digest.FromString(fmt.Sprintf("no such toc %d", t))
	}
}

func refName(r int) string { return fmt.Sprintf("%s/img%d:latest", hostName, r) }

// registry serves manifests/configs over a fake http.RoundTripper and blobs through a remote.Handler.
type registry struct {
	mu                    sync.Mutex
	w                     World
	manifest              map[string][]byte // "img<r>" -> manifest bytes
	mdigest               map[string]digest.Digest
	content               map[digest.Digest][]byte // manifests + configs by digest
	mfault                bool
	bfault                map[digest.Digest]bool
	injected              map[digest.Digest]bool // blob faults actually delivered during the current op
	fetches               int                    // manifest fetches served
	gateReached, gateOpen chan struct{}
}

// armGate makes the next blob request wait; returns (reached, open).
func (g *registry) armGate() (<-chan struct{}, func()) {
	g.mu.Lock()
	defer g.mu.Unlock()
	r, o := make(chan struct{}), make(chan struct{})
	g.gateReached, g.gateOpen = r, o
	return r, func() {
		g.mu.Lock()
		g.gateReached, g.gateOpen = nil, nil
		g.mu.Unlock()
		close(o)
	}
}

func diffID(r, i int) digest.Digest { return digest.FromString(fmt.Sprintf("diffid-%d-%d", r, i)) }

func newRegistry(w World) *registry {
	g := &registry{w: w, manifest: map[string][]byte{}, mdigest: map[string]digest.Digest{}, content: map[digest.Digest][]byte{},
		bfault: map[digest.Digest]bool{}, injected: map[digest.Digest]bool{}}
	for r, ls := range w.Images {
		img := ocispec.Image{}
		img.Architecture = "amd64"
		img.OS = "linux"
		img.RootFS.Type = "layers"
		var descs []ocispec.Descriptor
		for i, l := range ls {
			img.RootFS.DiffIDs = append(img.RootFS.DiffIDs, diffID(r, i))
			descs = append(descs, annotate(layerDesc(l), annOf(w, r, i)))
		}
		cb, _ := json.Marshal(img)
		cd := digest.FromBytes(cb)
		g.content[cd] = cb
		m := ocispec.Manifest{
			Versioned: specs.Versioned{SchemaVersion: 2},
			MediaType: ocispec.MediaTypeImageManifest,
			Config:    ocispec.Descriptor{MediaType: ocispec.MediaTypeImageConfig, Digest: cd, Size: int64(len(cb))},
			Layers:    descs,
		}
		mb, _ := json.Marshal(m)
		md := digest.FromBytes(mb)
		g.content[md] = mb
		g.manifest[fmt.Sprintf("img%d", r)] = mb
		g.mdigest[fmt.Sprintf("img%d", r)] = md
	}
	return g
}

func annOf(w World, r, i int) int {
	if r < 0 || r >= len(w.Ann) || i >= len(w.Ann[r]) {
		return -1
	}
	return w.Ann[r][i]
}

// annotate adds the toc.digest annotation an image builder would have put on the layer descriptor (possibly stale or wrong).
func annotate(d ocispec.Descriptor, a int) ocispec.Descriptor {
	switch {
	case a < 0:
	case a == 900:
		d.Annotations = map[string]string{estargz.TOCJSONDigestAnnotation: "not-a-digest"}
	default:
		d.Annotations = map[string]string{estargz.TOCJSONDigestAnnotation: tocDigest(a).String()}
	}
	return d
}

func layerDesc(l int) ocispec.Descriptor {
	return ocispec.Descriptor{MediaType: ocispec.MediaTypeImageLayerGzip, Digest: blobs[l].dgst, Size: int64(len(blobs[l].data))}
}

func (g *registry) RoundTrip(req *http.Request) (*http.Response, error) {
	if err := req.Context().Err(); err != nil {
		return nil, err // a real transport does not serve a cancelled request
	}
	g.mu.Lock()
	defer g.mu.Unlock()
	resp := func(code int, ct string, body []byte, dg digest.Digest) (*http.Response, error) {
		h := http.Header{}
		if ct != "" {
			h.Set("Content-Type", ct)
		}
		if dg != "" {
			h.Set("Docker-Content-Digest", dg.String())
		}
		h.Set("Content-Length", fmt.Sprintf("%d", len(body)))
		var rc io.ReadCloser = io.NopCloser(bytes.NewReader(body))
		if req.Method == http.MethodHead {
			rc = http.NoBody
		}
		return &http.Response{StatusCode: code, Status: fmt.Sprintf("%d", code), Header: h, Body: rc, ContentLength: int64(len(body)), Request: req,
			Proto: "HTTP/1.1", ProtoMajor: 1, ProtoMinor: 1}, nil
	}
	if g.mfault {
		return resp(500, "", nil, "")
	}
	p := strings.TrimPrefix(req.URL.Path, "/v2/")
	parts := strings.Split(p, "/")
	if len(parts) != 3 {
		return resp(404, "", nil, "")
	}
	name, kind, id := parts[0], parts[1], parts[2]
	switch kind {
	case "manifests":
		mb, ok := g.manifest[name]
		if !ok {
			return resp(404, "", nil, "")
		}
		if id != "latest" && id != g.mdigest[name].String() {
			return resp(404, "", nil, "")
		}
		if req.Method == http.MethodGet {
			g.fetches++
		}
		return resp(200, ocispec.MediaTypeImageManifest, mb, g.mdigest[name])
	case "blobs":
		b, ok := g.content[digest.Digest(id)]
		if !ok {
			return resp(404, "", nil, "")
		}
		return resp(200, "application/octet-stream", b, digest.Digest(id))
	}
	return resp(404, "", nil, "")
}

func (g *registry) hosts(reference.Spec) ([]docker.RegistryHost, error) {
	return []docker.RegistryHost{{
		Client: &http.Client{Transport: g}, Host: hostName, Scheme: "https", Path: "/v2",
		Capabilities: docker.HostCapabilityPull | docker.HostCapabilityResolve,
	}}, nil
}

func noHosts(reference.Spec) ([]docker.RegistryHost, error) {
	return nil, fmt.Errorf("blob registry unreachable (scripted)")
}

// Handle implements remote.Handler: serves layer blobs from memory, or fails when the script says so.
func (g *registry) Handle(ctx context.Context, desc ocispec.Descriptor) (remote.Fetcher, int64, error) {
	// gate: the first blob request after armGate() waits here until the harness lets it continue (the client
	// abandons its lookup in the meantime); like a real registry client, a cancelled request fails
	g.mu.Lock()
	reached, open := g.gateReached, g.gateOpen
	g.gateReached, g.gateOpen = nil, nil
	g.mu.Unlock()
	if reached != nil {
		close(reached)
		<-open
	}
	if err := ctx.Err(); err != nil {
		return nil, 0, err
	}
	g.mu.Lock()
	defer g.mu.Unlock()
	if g.bfault[desc.Digest] {
		g.injected[desc.Digest] = true
		return nil, 0, fmt.Errorf("scripted registry error for %s", desc.Digest)
	}
	for _, b := range blobs {
		if b.dgst == desc.Digest {
			return &memFetcher{b.data, b.dgst}, int64(len(b.data)), nil
		}
	}
	return nil, 0, fmt.Errorf("no such blob")
}

type memFetcher struct {
	data []byte
	d    digest.Digest
}

func (f *memFetcher) Fetch(ctx context.Context, off int64, size int64) (io.ReadCloser, error) {
	if off < 0 || off > int64(len(f.data)) {
		return nil, fmt.Errorf("out of range")
	}
	end := off + size
	if end > int64(len(f.data)) {
		end = int64(len(f.data))
	}
	return io.NopCloser(bytes.NewReader(f.data[off:end])), nil
}
func (f *memFetcher) Check() error { return nil }
func (f *memFetcher) GenID(off int64, size int64) string {
	return fmt.Sprintf("%s-%d-%d", f.d, off, size)
}

func (g *registry) setFaults(mf bool, fl []int) {
	g.mu.Lock()
	g.mfault = mf
	g.bfault = map[digest.Digest]bool{}
	g.injected = map[digest.Digest]bool{}
	for _, l := range fl {
		if l >= 0 && l < nBlobs {
			g.bfault[blobs[l].dgst] = true
		}
	}
	g.mu.Unlock()
}

func (g *registry) injectedLayers() []int {
	g.mu.Lock()
	defer g.mu.Unlock()
	var out []int
	for l := range blobs {
		if g.injected[blobs[l].dgst] {
			out = append(out, l)
		}
	}
	return out
}

// ---------------------------------------------------------------------------------------------
// machine: executes a case on the implementation and evaluates the oracle

type machine struct {
	w     World
	g     *registry
	lm    *store.LayerManager
	root  string
	specs []reference.Spec // one more than images: the last ref does not exist in the registry

	// oracle bookkeeping (independent of the Coq model)
	own      map[[2]int]int  // outstanding uses per (ref, toc) according to the ops issued
	faulted  map[[2]int]bool // (ref, ld): a registry error was delivered while resolving ld for ref since the ref's uses last dropped to zero
	problems []problem
	relZero  map[int]bool // ref had a release-to-zero of its last use
	raceLR   map[int]bool // op index of a racerel whose resolution failed: its error is recorded after the release
	stats    map[string]int
}

type problem struct {
	sig, what string
}

func newMachine(w World) *machine {
	root, err := os.MkdirTemp("", "c16-")
	if err != nil {
		panic(err)
	}
	g := newRegistry(w)
	cfg := config.Config{NoPrefetch: true, NoBackgroundFetch: true, NoPrometheus: true, HTTPCacheType: "memory", FSCacheType: "memory"}
	lm, err := store.VerifNewLayerManager(context.Background(), root, g.hosts, noHosts,
		map[string]remote.Handler{"mem": g}, memorymetadata.NewReader, cfg)
	if err != nil {
		panic(err)
	}
	m := &machine{w: w, g: g, lm: lm, root: root, own: map[[2]int]int{}, faulted: map[[2]int]bool{}, relZero: map[int]bool{}, stats: map[string]int{}, raceLR: map[int]bool{}}
	for r := 0; r <= len(w.Images); r++ {
		s, err := reference.Parse(refName(r))
		if err != nil {
			panic(err)
		}
		m.specs = append(m.specs, s)
	}
	return m
}

func (m *machine) close() { os.RemoveAll(m.root) }

func (m *machine) spec(r int) reference.Spec {
	if r < 0 || r >= len(m.specs) {
		return m.specs[len(m.specs)-1]
	}
	return m.specs[r]
}

// descOf is the descriptor of layer l as the manifest of ref r has it (with its annotations).
func (m *machine) descOf(r, l int) ocispec.Descriptor {
	for i, x := range m.image(r) {
		if x == l {
			return annotate(layerDesc(l), annOf(m.w, r, i))
		}
	}
	return layerDesc(l)
}

func (m *machine) image(r int) []int {
	if r < 0 || r >= len(m.w.Images) {
		return nil
	}
	return m.w.Images[r]
}

func (m *machine) tocOf(l int) int {
	if l < 0 || l >= len(m.w.Ltoc) {
		return -1
	}
	return m.w.Ltoc[l]
}

func (m *machine) imageHasToc(r, t int) bool {
	for _, l := range m.image(r) {
		if m.tocOf(l) == t && t >= 0 {
			return true
		}
	}
	return false
}

func (m *machine) fail(sig, f string, a ...any) {
	m.problems = append(m.problems, problem{sig, fmt.Sprintf(f, a...)})
}

// ---- state dump, mapped back to ids ----
type dump struct {
	layers  [][3]int
	closed  [][2]int // cached layers whose object is closed
	counts  [][3]int
	memo    [][3]int
	pool    [][2]int
	manif   []int
	empties int
}

func (m *machine) refID(s string) int {
	for i, sp := range m.specs {
		if sp.String() == s {
			return i
		}
	}
	return 999
}
func tocID(s string) int {
	for t := 0; t < nEsgz; t++ {
		if blobs[t].toc.String() == s {
			return t
		}
	}
	for j := 0; j < nBlobs; j++ {
		if blobs[j].dgst.String() == s {
			return tocAsLD + j
		}
	}
	for t := tocUnk0; t < tocUnk0+4; t++ {
		if tocDigest(t).String() == s {
			return t
		}
	}
	return 998
}
func ldID(s string) int {
	for j := 0; j < nBlobs; j++ {
		if blobs[j].dgst.String() == s {
			return j
		}
	}
	return 997
}

func (m *machine) dump() dump {
	st := m.lm.VerifState()
	var d dump
	for _, e := range st.Layers {
		d.layers = append(d.layers, [3]int{m.refID(e.Ref), tocID(e.Key), ldID(e.LayerDigest)})
		if e.Closed {
			d.closed = append(d.closed, [2]int{m.refID(e.Ref), tocID(e.Key)})
		}
		if e.Key != e.TOCDigest {
			m.fail("", "layer cached under key %s has TOC digest %s", e.Key, e.TOCDigest)
		}
	}
	for _, e := range st.Counts {
		d.counts = append(d.counts, [3]int{m.refID(e.Ref), tocID(e.Key), e.Count})
	}
	for _, e := range st.Memo {
		ok := 0
		if e.OK {
			ok = 1
		}
		d.memo = append(d.memo, [3]int{m.refID(e.Ref), ldID(e.LayerDigest), ok})
	}
	for _, e := range st.PoolCounts {
		d.pool = append(d.pool, [2]int{m.refID(e.Ref), e.Count})
	}
	for r := range m.specs {
		if m.lm.VerifManifestCached(m.specs[r]) {
			d.manif = append(d.manif, r)
		}
	}
	d.empties = len(st.EmptyLayerRefs) + len(st.EmptyCountRefs) + len(st.EmptyMemoRefs)
	sort.Slice(d.layers, func(i, j int) bool { return less3(d.layers[i], d.layers[j]) })
	sort.Slice(d.counts, func(i, j int) bool { return less3(d.counts[i], d.counts[j]) })
	sort.Slice(d.memo, func(i, j int) bool { return less3(d.memo[i], d.memo[j]) })
	sort.Slice(d.pool, func(i, j int) bool { return d.pool[i][0] < d.pool[j][0] })
	return d
}

func less3(a, b [3]int) bool {
	for i := 0; i < 3; i++ {
		if a[i] != b[i] {
			return a[i] < b[i]
		}
	}
	return false
}

func (d dump) cached(r, t int) bool {
	for _, e := range d.layers {
		if e[0] == r && e[1] == t {
			return true
		}
	}
	return false
}
func (d dump) memoComplete(r int, image []int) bool {
	for _, l := range image {
		found := false
		for _, e := range d.memo {
			if e[0] == r && e[1] == l {
				found = true
			}
		}
		if !found {
			return false
		}
	}
	return true
}
func (d dump) hasManifest(r int) bool {
	for _, x := range d.manif {
		if x == r {
			return true
		}
	}
	return false
}

// quiesce waits until every resolveLayer goroutine spawned by getLayer has returned
// (getLayer returns as soon as one goroutine found the layer; the others keep running or have not even started).
func (m *machine) quiesce() {
	deadline := time.Now().Add(20 * time.Second)
	for store.VerifResolvePending() != 0 {
		if time.Now().After(deadline) {
			m.fail("", "resolution did not complete within 20s")
			return
		}
		time.Sleep(20 * time.Microsecond)
	}
}

// lookup = what layernode.Lookup("diff"|"blob") does with the manager: getLayer, then Verify(directory name).
func (m *machine) lookup(r, t int) bool {
	ctx, cancel := context.WithTimeout(context.Background(), 20*time.Second)
	defer cancel()
	return m.lookupCtx(ctx, r, t)
}

// lookupCx is a lookup whose client gives up at the given stage. Resolution must not depend on the client's patience:
// whatever was started goes on, and later lookups see no trace of the cancellation.
func (m *machine) lookupCx(o Op) bool {
	ctx, cancel := context.WithCancel(context.Background())
	defer cancel()
	switch o.Cx {
	case "before":
		cancel()
		return m.lookupCtx(ctx, o.R, o.T)
	case "mid":
		reached, open := m.g.armGate()
		done := make(chan bool, 1)
		go func() { done <- m.lookupCtx(ctx, o.R, o.T) }()
		var res bool
		select {
		case <-reached:
			m.stats["result.cancel.midfetch"]++
			cancel()
			open()
			res = <-done
		case res = <-done: // no blob request was made (cache hit, manifest failure, everything memoised)
			open()
		}
		return res
	default:
		res := m.lookupCtx(ctx, o.R, o.T)
		cancel()
		return res
	}
}

func (m *machine) lookupCtx(ctx context.Context, r, t int) bool {
	l, err := m.lm.VerifGetLayer(ctx, m.spec(r), tocDigest(t))
	if err != nil {
		return false
	}
	if err := l.Verify(tocDigest(t)); err != nil {
		return false
	}
	if got := l.Info().TOCDigest; got != tocDigest(t) {
		m.fail("", "lookup(%d,%d) returned a layer with TOC digest %s", r, t, got)
	}
	return true
}

// oracle for one finished lookup
func (m *machine) judgeLookup(o Op, ok bool, pre dump) {
	has := m.imageHasToc(o.R, o.T)
	if ok {
		m.stats["result.lookup.ok"]++
		if m.relZero[o.R] {
			m.stats["result.relookup.ok"]++
		}
		if !has {
			m.fail("", "lookup(ref %d, toc %d) succeeded although no layer of the image has this TOC digest", o.R, o.T)
		}
		return
	}
	if !has {
		m.stats["result.lookup.fail.unknown"]++
		return
	}
	// the image contains the layer: failure is legitimate only when the registry did not answer in this op
	manifestOK := pre.hasManifest(o.R) || !o.Mf
	healthyLayer, stickyLayer := false, false
	for _, l := range m.image(o.R) {
		if m.tocOf(l) != o.T {
			continue
		}
		f := false
		for _, x := range o.Fl {
			if x == l {
				f = true
			}
		}
		if !f {
			healthyLayer = true
			if m.faulted[[2]int{o.R, l}] {
				stickyLayer = true
			}
		}
	}
	if !manifestOK || !healthyLayer {
		m.stats["result.lookup.fail.fault"]++
		return
	}
	if stickyLayer {
		m.stats["result.lookup.fail.sticky"]++
		m.fail("C16:sticky-resolve-error", "lookup(ref %d, toc %d) fails with a healthy registry: an earlier registry error for this layer is memoised", o.R, o.T)
		return
	}
	m.fail("", "lookup(ref %d, toc %d) failed although the image contains the layer and the registry is healthy", o.R, o.T)
}

func (m *machine) noteInjected(r int) {
	for _, l := range m.g.injectedLayers() {
		m.faulted[[2]int{r, l}] = true
		m.stats["fault.blob.delivered"]++
	}
}

func (m *machine) ownTotal(r int) int {
	n := 0
	for k, c := range m.own {
		if k[0] == r {
			n += c
		}
	}
	return n
}

// invariants of every state
func (m *machine) judgeState(d dump, pre dump) {
	for _, e := range d.counts {
		if e[2] < 0 {
			m.fail("", "use count of (ref %d, toc %d) is negative: %d", e[0], e[1], e[2])
		}
		if own := m.own[[2]int{e[0], e[1]}]; own > 0 && e[2] != own {
			m.fail("", "use count of (ref %d, toc %d) is %d after %d outstanding uses", e[0], e[1], e[2], own)
		}
	}
	for k, own := range m.own {
		if own <= 0 {
			continue
		}
		found := false
		for _, e := range d.counts {
			if e[0] == k[0] && e[1] == k[1] {
				found = true
			}
		}
		if !found {
			m.fail("", "(ref %d, toc %d) has %d outstanding uses but no use count", k[0], k[1], own)
		}
		if pre.cached(k[0], k[1]) && !d.cached(k[0], k[1]) {
			m.fail("", "layer (ref %d, toc %d) was dropped with %d outstanding uses", k[0], k[1], own)
		}
	}
	if d.empties != 0 {
		m.fail("", "%d empty inner maps left behind", d.empties)
	}
	for _, e := range d.closed {
		m.fail("", "layer (ref %d, toc %d) is held by the manager (%d outstanding uses) but its object has been closed", e[0], e[1], m.own[[2]int{e[0], e[1]}])
	}
}

func (m *machine) obs(res string, n int, d dump) Obs {
	return Obs{Res: res, N: n, Chk: true, Layers: d.layers, Counts: d.counts, Memo: d.memo, Pool: d.pool, Manif: d.manif, Empties: d.empties, Closed: d.closed}
}

func (m *machine) run(ops []Op) []Obs {
	var out []Obs
	for i := 0; i < len(ops); i++ {
		o := ops[i]
		pre := m.dump()
		switch o.Op {
		case "lookup":
			// a concurrent group = maximal run of consecutive lookups with the same non-zero grp on the same ref
			j := i + 1
			if o.Grp != 0 {
				for j < len(ops) && ops[j].Op == "lookup" && ops[j].Grp == o.Grp && ops[j].R == o.R {
					j++
				}
			}
			grp := ops[i:j]
			m.g.setFaults(o.Mf, o.Fl)
			res := make([]bool, len(grp))
			if len(grp) == 1 && o.Cx != "" {
				res[0] = m.lookupCx(o)
				if o.Cx == "before" {
					o.Mf = true // a request that is already cancelled cannot fetch the manifest: same as a manifest fault
				}
			} else if len(grp) == 1 {
				res[0] = m.lookup(o.R, o.T)
			} else {
				var wg sync.WaitGroup
				for k := range grp {
					wg.Add(1)
					go func(k int) {
						defer wg.Done()
						res[k] = m.lookup(grp[k].R, grp[k].T)
					}(k)
				}
				wg.Wait()
			}
			m.quiesce()
			m.noteInjected(o.R)
			m.g.setFaults(false, nil)
			d := m.dump()
			for k, x := range grp {
				x.Mf, x.Fl = o.Mf, o.Fl
				m.judgeLookup(x, res[k], pre)
				ob := Obs{Res: "fail"}
				if res[k] {
					ob.Res = "ok"
				}
				if k == len(grp)-1 {
					ob = m.obs(ob.Res, 0, d)
				}
				out = append(out, ob)
			}
			m.judgeState(d, pre)
			i = j - 1
			continue
		case "info":
			m.g.setFaults(o.Mf, nil)
			info, err := m.lm.VerifGetLayerInfo(context.Background(), m.spec(o.R), tocDigest(o.T))
			m.g.setFaults(false, nil)
			d := m.dump()
			switch {
			case err != nil:
				out = append(out, m.obs("fail", 0, d))
				if pre.hasManifest(o.R) || (!o.Mf && o.R >= 0 && o.R < len(m.w.Images)) {
					m.fail("", "info(ref %d, toc %d) failed although the manifest is available", o.R, o.T)
				}
			case info.Flags == nil:
				out = append(out, m.obs("infoempty", 0, d))
				if pre.cached(o.R, o.T) {
					m.fail("", "info(ref %d, toc %d) is empty although the layer is cached", o.R, o.T)
				}
			default:
				idx := -1
				for k := range m.image(o.R) {
					if diffID(o.R, k).String() == info.Flags["expected-layer-diffid"] {
						idx = k
					}
				}
				if idx < 0 || m.tocOf(m.image(o.R)[idx]) != o.T || info.TOCDigest != tocDigest(o.T) {
					m.fail("", "info(ref %d, toc %d) names diff id of layer index %d", o.R, o.T, idx)
					if idx < 0 {
						idx = 99
					}
				}
				out = append(out, m.obs("infofull", idx, d))
			}
			m.judgeState(d, pre)
		case "use":
			n := m.lm.VerifUse(m.spec(o.R), tocDigest(o.T))
			m.own[[2]int{o.R, o.T}]++
			d := m.dump()
			if n != m.own[[2]int{o.R, o.T}] {
				m.fail("", "use(ref %d, toc %d) returned %d after %d outstanding uses", o.R, o.T, n, m.own[[2]int{o.R, o.T}])
			}
			out = append(out, m.obs("count", n, d))
			m.judgeState(d, pre)
		case "release":
			k := [2]int{o.R, o.T}
			before := m.ownTotal(o.R)
			n, err := m.lm.VerifRelease(context.Background(), m.spec(o.R), tocDigest(o.T))
			hadUse := m.own[k] > 0
			if hadUse {
				m.own[k]--
			}
			d := m.dump()
			if err != nil {
				m.stats["result.release.err"]++
				out = append(out, m.obs("err", 0, d))
				if hadUse && pre.cached(o.R, o.T) {
					m.fail("", "release(ref %d, toc %d) of a used and cached layer failed", o.R, o.T)
				}
			} else {
				out = append(out, m.obs("count", n, d))
				if n < 0 {
					m.fail("", "release(ref %d, toc %d) returned negative count %d", o.R, o.T, n)
				}
				if hadUse && n != m.own[k] {
					m.fail("", "release(ref %d, toc %d) returned %d with %d uses outstanding", o.R, o.T, n, m.own[k])
				}
			}
			if hadUse && m.own[k] == 0 {
				m.stats["result.release.layerzero"]++
			}
			if hadUse && before > 0 && m.ownTotal(o.R) == 0 {
				// last use of the image released: layers and resolution bookkeeping must be gone
				m.stats["result.release.imagezero"]++
				m.relZero[o.R] = true
				for _, e := range d.layers {
					if e[0] == o.R {
						m.fail("", "layer (ref %d, toc %d) still cached after the last use of the image was released", e[0], e[1])
					}
				}
				for _, e := range d.memo {
					if e[0] == o.R {
						m.fail("", "resolution memo of (ref %d, layer %d) survives the last release of the image", e[0], e[1])
					}
				}
				for _, e := range d.counts {
					if e[0] == o.R {
						m.fail("", "use count entry (ref %d, toc %d)=%d survives the last release of the image", e[0], e[1], e[2])
					}
				}
				for l := range blobs {
					delete(m.faulted, [2]int{o.R, l})
				}
			}
			m.judgeState(d, pre)
		case "loadref":
			m.g.setFaults(o.Mf, nil)
			_, err := m.lm.VerifLoadRef(context.Background(), m.spec(o.R))
			m.g.setFaults(false, nil)
			d := m.dump()
			if err != nil {
				out = append(out, m.obs("fail", 0, d))
			} else {
				out = append(out, m.obs("ok", 0, d))
			}
			m.judgeState(d, pre)
		case "resolve":
			// one resolveLayer goroutine of getLayer; only meaningful for a layer of the manifest
			valid := false
			for _, l := range m.image(o.R) {
				if l == o.L {
					valid = true
				}
			}
			if valid {
				m.g.setFaults(false, o.Fl)
				m.lm.VerifResolveLayer(context.Background(), m.spec(o.R), m.descOf(o.R, o.L))
				m.noteInjected(o.R)
				m.g.setFaults(false, nil)
			}
			d := m.dump()
			out = append(out, m.obs("ok", 0, d))
			m.judgeState(d, pre)
		case "probe":
			ok := m.lm.VerifCached(m.spec(o.R), tocDigest(o.T))
			d := m.dump()
			if ok {
				out = append(out, m.obs("ok", 0, d))
				if !m.imageHasToc(o.R, o.T) {
					m.fail("", "probe(ref %d, toc %d) found a layer the image does not contain", o.R, o.T)
				}
			} else {
				out = append(out, m.obs("fail", 0, d))
			}
			m.judgeState(d, pre)
		case "racerel":
			// schedule: resolveLayer(r, l) runs up to the point right after cacheLayer; release(r, t) runs; resolveLayer finishes.
			// Printed for the model as Resolve r l f; Release r t (resolveLayer's effects happen in one locked section).
			valid := false
			for _, l := range m.image(o.R) {
				if l == o.L {
					valid = true
				}
			}
			if !valid {
				d := m.dump()
				out = append(out, m.obs("ok", 0, d), m.obs("err", 0, d))
				continue
			}
			m.g.setFaults(false, o.Fl)
			reached, open := store.VerifArmGate(m.spec(o.R).String() + "/" + blobs[o.L].dgst.String())
			done := make(chan struct{})
			var rerr error
			go func() {
				rerr = m.lm.VerifResolveLayer(context.Background(), m.spec(o.R), m.descOf(o.R, o.L))
				close(done)
			}()
			atGate := false
			select {
			case <-reached:
				atGate = true
				m.stats["result.racerel.gate"]++
			case <-done: // memo hit: the call neither caches nor records anything
			}
			// at the gate the call has either cached the layer (success: its effects are complete) or failed and not yet
			// recorded the error; the registry's injection log tells which
			failedAtGate := atGate && len(m.g.injectedLayers()) > 0
			if atGate && !failedAtGate && m.tocOf(o.L) < 0 {
				failedAtGate = true // not an eStargz blob: resolution failed without a registry fault
			}
			k := [2]int{o.R, o.T}
			before := m.ownTotal(o.R)
			var d1, d dump
			var n int
			var err error
			if failedAtGate {
				// effects in the order release; record error
				m.raceLR[i] = true
				m.stats["result.racerel.errgate"]++
				n, err = m.lm.VerifRelease(context.Background(), m.spec(o.R), tocDigest(o.T))
				d1 = m.dump()
				open()
				<-done
				m.quiesce()
				d = m.dump()
			} else {
				d1 = m.dump()
				n, err = m.lm.VerifRelease(context.Background(), m.spec(o.R), tocDigest(o.T))
				open()
				<-done
				m.quiesce()
				d = m.dump()
			}
			_ = rerr
			hadUse := m.own[k] > 0
			if hadUse {
				m.own[k]--
			}
			m.noteInjected(o.R)
			relObs := m.obs("err", 0, d)
			if failedAtGate {
				relObs = m.obs("err", 0, d1)
			}
			if err == nil {
				relObs.Res, relObs.N = "count", n
				if atGate && n == 0 {
					m.stats["result.racerel.dropped"]++
				}
			}
			if failedAtGate {
				out = append(out, relObs, m.obs("ok", 0, d))
			} else {
				out = append(out, m.obs("ok", 0, d1), relObs)
			}
			injectedNow := map[int]bool{}
			for _, l := range m.g.injectedLayers() {
				injectedNow[l] = true
			}
			m.g.setFaults(false, nil)
			if hadUse && before > 0 && m.ownTotal(o.R) == 0 {
				m.relZero[o.R] = true
				for _, e := range d.memo {
					if e[0] == o.R && e[2] != 0 {
						m.fail("", "layer %d of ref %d is recorded as resolved after the last release of the image (release raced with its resolution)", e[1], e[0])
					}
				}
				for l := range blobs {
					if !injectedNow[l] {
						delete(m.faulted, [2]int{o.R, l})
					}
				}
			}
			m.judgeState(d, pre)
		case "expire":
			// TTL timers of the resolver's layer and blob cache fire for (ref, layer digest)
			if o.L >= 0 && o.L < nBlobs {
				m.lm.VerifExpire(m.spec(o.R), layerDesc(o.L))
			}
			d := m.dump()
			out = append(out, m.obs("ok", 0, d))
			m.judgeState(d, pre)
		default:
			panic("unknown op " + o.Op)
		}
	}
	return out
}

// ---------------------------------------------------------------------------------------------
// Coq printing

func coqOptNat(x int) string {
	if x < 0 {
		return "None"
	}
	return fmt.Sprintf("Some %d", x)
}

func coqWorld(w World) string {
	lt := make([]string, len(w.Ltoc))
	for i, t := range w.Ltoc {
		lt[i] = coqOptNat(t)
	}
	im := make([]string, len(w.Images))
	for i, ls := range w.Images {
		im[i] = hx.CoqNatList(ls)
	}
	return fmt.Sprintf("mkW %s %s", hx.CoqList(lt), hx.CoqList(im))
}

func coqOp(o Op) string {
	switch o.Op {
	case "lookup":
		return fmt.Sprintf("Lookup %d %d %s %s", o.R, o.T, hx.CoqBool(o.Mf || (o.Cx == "before" && o.Grp == 0)), hx.CoqNatList(o.Fl))
	case "info":
		return fmt.Sprintf("Info %d %d %s", o.R, o.T, hx.CoqBool(o.Mf))
	case "use":
		return fmt.Sprintf("Use %d %d", o.R, o.T)
	case "release":
		return fmt.Sprintf("Release %d %d", o.R, o.T)
	case "loadref":
		return fmt.Sprintf("LoadRef %d %s", o.R, hx.CoqBool(o.Mf))
	case "resolve":
		return fmt.Sprintf("Resolve %d %d %s", o.R, o.L, hx.CoqBool(len(o.Fl) > 0))
	case "probe":
		return fmt.Sprintf("Probe %d %d", o.R, o.T)
	case "expire":
		return fmt.Sprintf("Expire %d %d", o.R, o.L)
	case "racerel":
		return fmt.Sprintf("Resolve %d %d %s; Release %d %d", o.R, o.L, hx.CoqBool(len(o.Fl) > 0), o.R, o.T)
	}
	panic("op")
}

func coqObs(o Obs) string {
	res := map[string]string{"ok": "ROk", "fail": "RFail", "infoempty": "RInfoEmpty", "err": "RErr"}[o.Res]
	switch o.Res {
	case "infofull":
		res = fmt.Sprintf("(RInfoFull %d)", o.N)
	case "count":
		res = fmt.Sprintf("(RCount %s)", hx.CoqZ(int64(o.N)))
	}
	t3 := func(ctor string, xs [][3]int, last func(int) string) string {
		s := make([]string, len(xs))
		for i, x := range xs {
			s[i] = fmt.Sprintf("%s %d %d %s", ctor, x[0], x[1], last(x[2]))
		}
		return hx.CoqList(s)
	}
	nat := func(x int) string { return fmt.Sprintf("%d", x) }
	z := func(x int) string { return hx.CoqZ(int64(x)) }
	b := func(x int) string { return hx.CoqBool(x != 0) }
	ps := make([]string, len(o.Pool))
	for i, x := range o.Pool {
		ps[i] = fmt.Sprintf("tp %d %s", x[0], hx.CoqZ(int64(x[1])))
	}
	cl := make([]string, len(o.Closed))
	for i, x := range o.Closed {
		cl[i] = fmt.Sprintf("tk %d %d", x[0], x[1])
	}
	return fmt.Sprintf("mkRObs (mkObs %s %s %s %s %s %s %s %d) %s", res, hx.CoqBool(o.Chk), t3("tl", o.Layers, nat), t3("tc", o.Counts, z), t3("tm", o.Memo, b),
		hx.CoqList(ps), hx.CoqNatList(o.Manif), o.Empties, hx.CoqList(cl))
}

func coqCase(c Case, obs []Obs, raceLR map[int]bool) string {
	// a concurrent group is printed as consecutive Lookups carrying the group's fault script
	ops := make([]string, 0, len(c.Ops))
	for i := 0; i < len(c.Ops); i++ {
		o := c.Ops[i]
		if o.Op == "lookup" && o.Grp != 0 {
			j := i
			for j < len(c.Ops) && c.Ops[j].Op == "lookup" && c.Ops[j].Grp == o.Grp && c.Ops[j].R == o.R {
				x := c.Ops[j]
				x.Mf, x.Fl = o.Mf, o.Fl
				ops = append(ops, coqOp(x))
				j++
			}
			i = j - 1
			continue
		}
		if o.Op == "racerel" && raceLR[i] {
			ops = append(ops, fmt.Sprintf("Release %d %d; Resolve %d %d true", o.R, o.T, o.R, o.L))
			continue
		}
		ops = append(ops, coqOp(o))
	}
	os := make([]string, len(obs))
	for i, o := range obs {
		os[i] = coqObs(o)
	}
	return fmt.Sprintf("(%s, %s, %s)", coqWorld(c.World), hx.CoqList(ops), hx.CoqList(os))
}

// ---------------------------------------------------------------------------------------------
// generation

func genWorld(r *hx.Rng) World {
	w := World{}
	for l := 0; l < nBlobs; l++ {
		if l < nEsgz {
			w.Ltoc = append(w.Ltoc, l)
		} else {
			w.Ltoc = append(w.Ltoc, -1)
		}
	}
	nimg := r.Range(1, 3)
	for i := 0; i < nimg; i++ {
		n := r.Pick(2, 4, 4, 2) + 1 // 1..4 layers
		var ls []int
		for len(ls) < n {
			var l int
			if r.Chance(1, 5) {
				l = nEsgz + r.Intn(nPlain)
			} else {
				l = r.Intn(nEsgz)
			}
			dup := false
			for _, x := range ls {
				if x == l {
					dup = true
				}
			}
			if dup && !r.Chance(1, 12) { // the same blob twice in one manifest: rare
				continue
			}
			ls = append(ls, l)
		}
		w.Images = append(w.Images, ls)
		var an []int
		for _, l := range ls {
			a := -1
			switch r.Pick(40, 30, 12, 6, 6, 6) {
			case 1:
				if w.Ltoc[l] >= 0 {
					a = w.Ltoc[l] // correct
				}
			case 2:
				a = r.Intn(nEsgz) // another layer's TOC digest (or, by chance, the right one)
			case 3:
				a = tocUnk0 + r.Intn(2) // stale: a digest no layer has
			case 4:
				a = tocAsLD + l // the layer digest
			case 5:
				a = 900 // malformed
			}
			an = append(an, a)
		}
		w.Ann = append(w.Ann, an)
	}
	return w
}

func genCase(r *hx.Rng, tier string) Case {
	w := genWorld(r)
	c := Case{World: w}
	nops := r.Range(3, 22)
	pickRef := func() int {
		if r.Chance(1, 20) {
			return len(w.Images) // does not exist
		}
		return r.Intn(len(w.Images))
	}
	pickToc := func(ref int) int {
		var img []int
		if ref < len(w.Images) {
			img = w.Images[ref]
		}
		switch r.Pick(82, 8, 3, 4, 3) {
		case 0:
			if len(img) > 0 {
				l := img[r.Intn(len(img))]
				if w.Ltoc[l] >= 0 {
					return w.Ltoc[l]
				}
				return tocAsLD + l
			}
			return r.Intn(nEsgz)
		case 1:
			return r.Intn(nEsgz) // a real TOC digest, maybe of another image
		case 2:
			return tocUnk0 + r.Intn(2)
		case 3:
			if len(img) > 0 {
				return tocAsLD + img[r.Intn(len(img))] // the layer digest instead of the TOC digest
			}
		}
		return r.Intn(nEsgz)
	}
	faults := func(ref int) []int {
		var fl []int
		if ref < len(w.Images) && r.Chance(1, 5) {
			for _, l := range w.Images[ref] {
				if r.Chance(1, 2) {
					fl = append(fl, l)
				}
			}
		}
		return fl
	}
	used := [][2]int{}
	looked := [][2]int{}
	grp := 0
	for len(c.Ops) < nops {
		ref := pickRef()
		switch r.Pick(30, 6, 22, 24, 5, 4, 5, 4, 5, 6, 5) {
		case 0:
			k := "diff"
			if r.Bool() {
				k = "blob"
			}
			t := pickToc(ref)
			if ref < len(w.Images) {
				for _, l := range w.Images[ref] {
					if w.Ltoc[l] == t {
						looked = append(looked, [2]int{ref, t})
						break
					}
				}
			}
			lo := Op{Op: "lookup", K: k, R: ref, T: t, Mf: r.Chance(1, 8), Fl: faults(ref)}
			if r.Chance(1, 5) {
				lo.Cx = []string{"before", "mid", "mid", "after"}[r.Intn(4)]
			}
			c.Ops = append(c.Ops, lo)
			if lo.Cx != "" && r.Chance(2, 3) { // a fresh client asks again
				c.Ops = append(c.Ops, Op{Op: "lookup", K: "diff", R: ref, T: t})
			}
		case 1:
			c.Ops = append(c.Ops, Op{Op: "info", R: ref, T: pickToc(ref), Mf: r.Chance(1, 8)})
		case 2:
			t := pickToc(ref)
			if len(looked) > 0 && r.Chance(7, 8) { // the normal client: use what was just looked up
				x := looked[len(looked)-1-r.Intn(min(3, len(looked)))]
				ref, t = x[0], x[1]
			}
			c.Ops = append(c.Ops, Op{Op: "use", R: ref, T: t})
			used = append(used, [2]int{ref, t})
		case 3:
			if len(used) > 0 && r.Chance(5, 6) {
				j := r.Intn(len(used))
				u := used[j]
				used = append(used[:j], used[j+1:]...)
				c.Ops = append(c.Ops, Op{Op: "release", R: u[0], T: u[1]})
			} else if r.Chance(1, 3) {
				c.Ops = append(c.Ops, Op{Op: "release", R: ref, T: pickToc(ref)}) // possibly never used / double release
			}
		case 4:
			// lookups racing on one image
			grp++
			n := r.Range(2, 4)
			mf, fl := r.Chance(1, 10), faults(ref)
			for k := 0; k < n; k++ {
				c.Ops = append(c.Ops, Op{Op: "lookup", K: "diff", R: ref, T: pickToc(ref), Mf: mf, Fl: fl, Grp: grp})
			}
		case 5:
			c.Ops = append(c.Ops, Op{Op: "loadref", R: ref, Mf: r.Chance(1, 4)})
		case 6:
			if ref < len(w.Images) {
				l := w.Images[ref][r.Intn(len(w.Images[ref]))]
				o := Op{Op: "resolve", R: ref, L: l}
				if r.Chance(1, 5) {
					o.Fl = []int{l}
				}
				c.Ops = append(c.Ops, o)
			}
		case 7:
			c.Ops = append(c.Ops, Op{Op: "probe", R: ref, T: pickToc(ref)})
		case 10:
			// resolver TTL expiry, then a sibling released to zero and looked up again: every layer of the image is resolved
			// again while some of them are still cached and in use (duplicate path of resolveLayer)
			if ref < len(w.Images) {
				var ts []int
				for _, l := range w.Images[ref] {
					if w.Ltoc[l] >= 0 {
						ts = append(ts, w.Ltoc[l])
					}
				}
				if len(ts) >= 2 {
					a, b := ts[0], ts[1]
					if r.Bool() {
						a, b = b, a
					}
					c.Ops = append(c.Ops, Op{Op: "lookup", K: "diff", R: ref, T: a}, Op{Op: "use", R: ref, T: a}, Op{Op: "use", R: ref, T: b})
					for _, l := range w.Images[ref] {
						if r.Chance(3, 4) {
							c.Ops = append(c.Ops, Op{Op: "expire", R: ref, L: l})
						}
					}
					c.Ops = append(c.Ops, Op{Op: "release", R: ref, T: a}, Op{Op: "lookup", K: "diff", R: ref, T: a}, Op{Op: "lookup", K: "blob", R: ref, T: b})
					used = append(used, [2]int{ref, b})
				}
			}
		case 9:
			// a release racing with the resolution of the layer it releases (or of a sibling)
			if ref < len(w.Images) {
				img := w.Images[ref]
				l := img[r.Intn(len(img))]
				t := w.Ltoc[l]
				if t < 0 || r.Chance(1, 4) {
					t = pickToc(ref)
				}
				if len(used) > 0 && r.Chance(1, 2) {
					u := used[len(used)-1]
					if u[0] == ref {
						t = u[1]
						used = used[:len(used)-1]
					}
				}
				o := Op{Op: "racerel", R: ref, L: l, T: t}
				if r.Chance(1, 6) {
					o.Fl = []int{l}
				}
				c.Ops = append(c.Ops, o)
			}
		case 8:
			if ref < len(w.Images) {
				c.Ops = append(c.Ops, Op{Op: "expire", R: ref, L: w.Images[ref][r.Intn(len(w.Images[ref]))]})
			}
		}
	}
	return c
}

func corpus() []Case {
	std := World{Ltoc: []int{0, 1, 2, 3, 4, -1, -1}, Images: [][]int{{0, 1, 5}, {1, 2}}}
	return []Case{
		// F15 witness: use; release; lookup
		{World: std, Ops: []Op{{Op: "lookup", K: "diff", R: 0, T: 0}, {Op: "use", R: 0, T: 0}, {Op: "release", R: 0, T: 0}, {Op: "lookup", K: "diff", R: 0, T: 0}, {Op: "release", R: 0, T: 0}}},
		// release one layer while another layer of the image is in use, then look the released one up again
		{World: std, Ops: []Op{{Op: "lookup", K: "blob", R: 0, T: 0}, {Op: "use", R: 0, T: 0}, {Op: "use", R: 0, T: 1}, {Op: "release", R: 0, T: 0}, {Op: "lookup", K: "diff", R: 0, T: 0}, {Op: "info", R: 0, T: 0}, {Op: "release", R: 0, T: 1}, {Op: "info", R: 0, T: 1}}},
		// F22: layer 1 resolved as a side effect, never used; last release of the image
		{World: std, Ops: []Op{{Op: "lookup", K: "diff", R: 0, T: 0}, {Op: "use", R: 0, T: 0}, {Op: "release", R: 0, T: 0}, {Op: "probe", R: 0, T: 1}, {Op: "lookup", K: "diff", R: 0, T: 1}}},
		// registry error during resolution, memoised: later healthy lookup (known finding), cleared by the last release
		{World: std, Ops: []Op{{Op: "lookup", K: "diff", R: 1, T: 1, Fl: []int{1}}, {Op: "lookup", K: "diff", R: 1, T: 1}, {Op: "lookup", K: "diff", R: 1, T: 2}, {Op: "use", R: 1, T: 2}, {Op: "release", R: 1, T: 2}, {Op: "lookup", K: "diff", R: 1, T: 1}}},
		// unknown digests, layer digest as directory name, non-existing image, manifest fault
		{World: std, Ops: []Op{{Op: "lookup", K: "diff", R: 0, T: 50}, {Op: "lookup", K: "diff", R: 0, T: 100}, {Op: "lookup", K: "diff", R: 0, T: 2}, {Op: "lookup", K: "diff", R: 2, T: 0}, {Op: "lookup", K: "diff", R: 1, T: 1, Mf: true}, {Op: "info", R: 1, T: 1, Mf: true}, {Op: "lookup", K: "diff", R: 1, T: 1}}},
		// racing lookups on one image, shared layer between images
		{World: std, Ops: []Op{{Op: "lookup", K: "diff", R: 0, T: 0, Grp: 1}, {Op: "lookup", K: "diff", R: 0, T: 1, Grp: 1}, {Op: "lookup", K: "diff", R: 0, T: 51, Grp: 1}, {Op: "use", R: 0, T: 1}, {Op: "lookup", K: "blob", R: 1, T: 1}, {Op: "release", R: 0, T: 1}, {Op: "probe", R: 1, T: 1}}},
		// resolver-cache expiry: after the release the layer is only in the resolver's TTL cache (fault ignored); after expiry the fault bites
		{World: std, Ops: []Op{{Op: "lookup", K: "diff", R: 1, T: 1}, {Op: "use", R: 1, T: 1}, {Op: "release", R: 1, T: 1}, {Op: "lookup", K: "diff", R: 1, T: 1, Fl: []int{1}}, {Op: "use", R: 1, T: 1}, {Op: "release", R: 1, T: 1}, {Op: "expire", R: 1, L: 1}, {Op: "lookup", K: "diff", R: 1, T: 1, Fl: []int{1}}, {Op: "expire", R: 1, L: 2}, {Op: "lookup", K: "diff", R: 1, T: 2}}},
		// in-use layer B must survive: TTL expiry, sibling A released to zero and looked up again (B is resolved again: duplicate path)
		{World: std, Ops: []Op{{Op: "lookup", K: "diff", R: 0, T: 0}, {Op: "use", R: 0, T: 0}, {Op: "use", R: 0, T: 1}, {Op: "expire", R: 0, L: 0}, {Op: "expire", R: 0, L: 1}, {Op: "release", R: 0, T: 0}, {Op: "lookup", K: "diff", R: 0, T: 0}, {Op: "lookup", K: "diff", R: 0, T: 1}, {Op: "release", R: 0, T: 1}}},
		// a failing resolution whose error is recorded after the last release of the image (in flight during the release)
		{World: std, Ops: []Op{{Op: "lookup", K: "diff", R: 1, T: 2, Fl: []int{1}}, {Op: "use", R: 1, T: 2}, {Op: "expire", R: 1, L: 1}, {Op: "release", R: 1, T: 2}, {Op: "use", R: 1, T: 2}, {Op: "racerel", R: 1, L: 1, T: 2, Fl: []int{1}}, {Op: "lookup", K: "diff", R: 1, T: 1}}},
		// thorough run (seed 1) of the phase-2 harness, case 82: a failing resolution racing with a release (error recorded after it)
		{World: World{Ltoc: []int{0, 1, 2, 3, 4, -1, -1}, Images: [][]int{{4}}}, Ops: []Op{{Op: "use", R: 0, T: 4}, {Op: "lookup", K: "diff", R: 0, T: 3, Fl: []int{4}}, {Op: "release", R: 0, T: 4}, {Op: "use", R: 0, T: 4}, {Op: "racerel", R: 0, T: 4, L: 4, Fl: []int{4}}, {Op: "release", R: 0, T: 4}, {Op: "release", R: 0, T: 4}, {Op: "lookup", K: "diff", R: 0, T: 4, Grp: 1}, {Op: "lookup", K: "diff", R: 0, T: 4, Grp: 1}, {Op: "lookup", K: "diff", R: 0, T: 4, Grp: 1}, {Op: "lookup", K: "diff", R: 0, T: 4, Grp: 1}, {Op: "lookup", K: "diff", R: 0, T: 4}, {Op: "use", R: 0, T: 4}, {Op: "release", R: 0, T: 4}, {Op: "release", R: 0, T: 4}, {Op: "resolve", R: 0, L: 4, Fl: []int{4}}, {Op: "lookup", K: "blob", R: 0, T: 4}}},
		// thorough run (seed 1) of the phase-2 harness, case 3844: a failing resolution racing with a release (error recorded after it)
		{World: World{Ltoc: []int{0, 1, 2, 3, 4, -1, -1}, Images: [][]int{{3, 0, 1}, {3, 4}}}, Ops: []Op{{Op: "use", R: 1, T: 1}, {Op: "resolve", R: 0, L: 1, Fl: []int{1}}, {Op: "racerel", R: 1, T: 1, L: 3, Fl: []int{3}}, {Op: "use", R: 2, T: 2}, {Op: "lookup", K: "diff", R: 1, T: 3}, {Op: "use", R: 1, T: 3}, {Op: "release", R: 1, T: 3}, {Op: "release", R: 2, T: 2}, {Op: "use", R: 0}}},
		// thorough run (seed 1) of the phase-2 harness, case 818: a failing resolution racing with a release (error recorded after it)
		{World: World{Ltoc: []int{0, 1, 2, 3, 4, -1, -1}, Images: [][]int{{2}}}, Ops: []Op{{Op: "use", R: 0, T: 2}, {Op: "release", R: 0, T: 2}, {Op: "use", R: 0, T: 2}, {Op: "info", R: 0}, {Op: "racerel", R: 0, T: 2, L: 2, Fl: []int{2}}, {Op: "use", R: 0}, {Op: "lookup", K: "diff", R: 0, T: 2}, {Op: "use", R: 0, T: 2}, {Op: "lookup", K: "diff", R: 0}, {Op: "lookup", K: "diff", R: 0, T: 2, Grp: 1}, {Op: "lookup", K: "diff", R: 0, T: 2, Grp: 1}, {Op: "lookup", K: "diff", R: 0, T: 2, Grp: 1}, {Op: "lookup", K: "diff", R: 0, T: 2, Grp: 1}, {Op: "use", R: 0, T: 2}, {Op: "lookup", K: "diff", R: 0, T: 2}, {Op: "lookup", K: "diff", R: 0, T: 2, Grp: 2}, {Op: "lookup", K: "diff", R: 0, T: 2, Grp: 2}, {Op: "lookup", K: "diff", R: 0, T: 2, Grp: 2}, {Op: "lookup", K: "blob", R: 0, T: 2, Fl: []int{2}}}},
		// manifests whose layer descriptors carry toc.digest annotations: correct, another layer's, stale, malformed, none
		{World: World{Ltoc: []int{0, 1, 2, 3, 4, -1, -1}, Images: [][]int{{0, 1, 2, 3, 5}, {1, 2}}, Ann: [][]int{{1, 50, 900, 3, 0}, {101, -1}}},
			Ops: []Op{{Op: "lookup", K: "diff", R: 0, T: 0}, {Op: "lookup", K: "diff", R: 0, T: 1}, {Op: "lookup", K: "blob", R: 0, T: 2}, {Op: "lookup", K: "diff", R: 0, T: 3}, {Op: "use", R: 0, T: 1}, {Op: "release", R: 0, T: 1}, {Op: "lookup", K: "diff", R: 0, T: 1}, {Op: "lookup", K: "diff", R: 0, T: 50}, {Op: "lookup", K: "diff", R: 1, T: 1}, {Op: "info", R: 1, T: 1}, {Op: "lookup", K: "diff", R: 1, T: 2}}},
		// the client gives up before / while a blob request is in flight / after; a fresh client asks again; no release in between
		{World: std, Ops: []Op{{Op: "lookup", K: "diff", R: 0, T: 0, Cx: "mid"}, {Op: "lookup", K: "diff", R: 0, T: 0}, {Op: "lookup", K: "diff", R: 0, T: 1}, {Op: "lookup", K: "diff", R: 1, T: 1, Cx: "before"}, {Op: "lookup", K: "diff", R: 1, T: 1, Cx: "mid"}, {Op: "lookup", K: "blob", R: 1, T: 2}, {Op: "lookup", K: "diff", R: 1, T: 1, Cx: "after"}, {Op: "use", R: 1, T: 1}, {Op: "release", R: 1, T: 1}, {Op: "lookup", K: "diff", R: 1, T: 2, Cx: "mid"}, {Op: "lookup", K: "diff", R: 1, T: 2}}},
		// F28: the last use of a layer is released while a resolveLayer of that layer is between cacheLayer and its bookkeeping
		{World: std, Ops: []Op{{Op: "use", R: 1, T: 1}, {Op: "racerel", R: 1, L: 1, T: 1}, {Op: "lookup", K: "diff", R: 1, T: 1}, {Op: "lookup", K: "diff", R: 1, T: 1}, {Op: "use", R: 1, T: 2}, {Op: "racerel", R: 1, L: 1, T: 2}, {Op: "lookup", K: "blob", R: 1, T: 1}}},
		// sub-steps interleaved with a release
		{World: std, Ops: []Op{{Op: "loadref", R: 0}, {Op: "resolve", R: 0, L: 0}, {Op: "use", R: 0, T: 0}, {Op: "resolve", R: 0, L: 1}, {Op: "release", R: 0, T: 0}, {Op: "resolve", R: 0, L: 0}, {Op: "probe", R: 0, T: 0}, {Op: "resolve", R: 0, L: 5}, {Op: "probe", R: 0, T: 1}}},
	}
}

func main() {
	logrus.SetLevel(logrus.PanicLevel)
	logrus.SetOutput(io.Discard)
	log.L.Logger.SetOutput(io.Discard)
	ctx := hx.Start()
	buildBlobs()
	emit := func(c Case) {
		m := newMachine(c.World)
		obs := m.run(c.Ops)
		m.close()
		kinds := map[string]bool{}
		for _, o := range c.Ops {
			key := "op." + o.Op
			if o.Op == "lookup" {
				key += "." + o.K
				if o.Grp != 0 {
					ctx.Count("op.lookup.racing")
				}
				if o.Mf {
					ctx.Count("fault.manifest")
				}
				if len(o.Fl) > 0 {
					ctx.Count("fault.blob")
				}
			}
			ctx.Count(key)
			kinds[o.Op] = true
		}
		for k, v := range m.stats {
			ctx.CountN(k, v)
		}
		ctx.CountN("ops", len(c.Ops))
		term := coqCase(c, obs, m.raceLR)
		nontrivial := len(kinds) >= 3 && m.stats["result.lookup.ok"] > 0
		id := ctx.Case(term, c, term, nontrivial)
		for _, p := range m.problems {
			if p.sig != "" {
				ctx.Finding(id, p.sig, p.what, nil)
			} else {
				ctx.Violation(id, p.what, nil)
			}
		}
	}
	if ctx.Replay != "" {
		var c Case
		ctx.LoadReplay(&c)
		emit(c)
		ctx.Finish()
		return
	}
	cs := corpus()
	for _, c := range cs {
		emit(c)
	}
	r := hx.NewRng(ctx.Seed)
	for i := len(cs); i < ctx.N; i++ {
		emit(genCase(r.Fork(), ctx.Tier))
	}
	ctx.Finish()
}
