// C12 second correspondence harness: drives the real fs.NewFilesystem(...).Mount / Check / Unmount (everything but the
// FUSE server, which the verif switch of fs.Mount skips) over an in-memory registry, the real memory metadata store and
// real directory caches, with TTL expiry of the resolver's two caches fired through the verif hooks. An "image" has
// three layers; Mount of one layer pre-resolves the two neighbours in parallel goroutines. Every external call (registry,
// metadata store, connectivity check) takes its outcome from a per-layer script. Prints the history and the observations
// as Coq terms for Model/FsMount.v and evaluates the property's clauses at the Mount level (model-free oracle).
package main

import (
	"archive/tar"
	"bytes"
	"context"
	"fmt"
	"io"
	"os"
	"path/filepath"
	"runtime"
	"strings"
	"sync"
	"time"

	"github.com/containerd/containerd/v2/core/remotes/docker"
	"github.com/containerd/containerd/v2/pkg/reference"
	clog "github.com/containerd/log"
	"github.com/containerd/stargz-snapshotter/estargz"
	"github.com/containerd/stargz-snapshotter/fs"
	"github.com/containerd/stargz-snapshotter/fs/config"
	"github.com/containerd/stargz-snapshotter/fs/layer"
	"github.com/containerd/stargz-snapshotter/fs/remote"
	"github.com/containerd/stargz-snapshotter/fs/source"
	"github.com/containerd/stargz-snapshotter/metadata"
	"github.com/containerd/stargz-snapshotter/metadata/memory"
	"github.com/containerd/stargz-snapshotter/snapshot"
	digest "github.com/opencontainers/go-digest"
	ocispec "github.com/opencontainers/image-spec/specs-go/v1"
	"verif/harness/hx"
)

const (
	probeChunk = 1024 // chunk size of the remote blob; a probe reads 4 bytes of a chunk nobody has read yet
	probeFirst = 4
	nimgs   = 2
	nlayers = 3
	nnames  = nimgs * nlayers // name = img*nlayers + layer
	nmps    = 4
)

type Op struct {
	Op  string   `json:"op"` // mount check unmount use expl expb
	Mp  int      `json:"mp,omitempty"`
	N   int      `json:"n,omitempty"`
	Scs [][]bool `json:"scs,omitempty"` // mount: scripts of the target and of the neighbours (in manifest order)
	Ok1 bool     `json:"ok1,omitempty"`
	Ok2 bool     `json:"ok2,omitempty"`
	Vf  string   `json:"vf,omitempty"` // mount: verification asked of Mount: ok | skip | mismatch | bad | none
	Rf  string   `json:"rf,omitempty"` // check: what the registry answers to the Refresh: ok | err | size | content
}

type Case struct {
	Ops  []Op     `json:"ops"`
	Exec []string `json:"exec,omitempty"`
	Outs []string `json:"outs,omitempty"`
}

var (
	blobs   [nlayers][]byte
	tocs    [nlayers]digest.Digest
	wrong   [nlayers][3][]byte // per layer: 0 = the blob, 1 = a blob of another size, 2 = same size and other content
	digests [nlayers]digest.Digest
	files   [nlayers][]byte
)

func buildBlobs() {
	for i := 0; i < nlayers; i++ {
		files[i] = []byte(fmt.Sprintf("layer-%d:0123456789abcdefghijklmnopqrstuvwxyz;", i))
		pad := make([]byte, 96*1024)
		for j := range pad {
			pad[j] = byte(j*7 + j/251 + i)
		} // never read: keeps FetchedSize < Size, so Check always checks
		var buf bytes.Buffer
		tw := tar.NewWriter(&buf)
		tw.WriteHeader(&tar.Header{Typeflag: tar.TypeReg, Name: "a.txt", Mode: 0644, Size: int64(len(files[i]))})
		tw.Write(files[i])
		tw.WriteHeader(&tar.Header{Typeflag: tar.TypeReg, Name: "pad.bin", Mode: 0644, Size: int64(len(pad))})
		tw.Write(pad)
		tw.Close()
		t := buf.Bytes()
		b, err := estargz.Build(io.NewSectionReader(bytes.NewReader(t), 0, int64(len(t))), estargz.WithChunkSize(8192), estargz.WithCompressionLevel(0))
		if err != nil {
			panic(err)
		}
		blobs[i], err = io.ReadAll(b)
		if err != nil {
			panic(err)
		}
		b.Close()
		tocs[i] = b.TOCDigest()
		digests[i] = digest.FromBytes(blobs[i])
		other := make([]byte, len(blobs[i]))
		for j, c := range blobs[i] {
			other[j] = c ^ 0x5a
		}
		wrong[i][0] = blobs[i]
		wrong[i][2] = other
		wrong[i][1] = append(append([]byte{}, other...), bytes.Repeat([]byte{0xee}, 777)...)
	}
}

func layerOf(d digest.Digest) int {
	for i := range digests {
		if digests[i] == d {
			return i
		}
	}
	return -1
}

type machine struct {
	root     string
	f        snapshot.FileSystem
	res      *layer.Resolver
	mu       sync.Mutex
	scripts  map[int][]bool // per name: outcomes of the next external calls
	curImg   int            // image of the operation in progress (the registry fake sees only the digest)
	rf       string         // answer of the registry to the Refresh of the Check in progress
	probeK   map[int]int    // per name: next never-read chunk of the blob
	tainted  map[int]bool   // an other-content registry was accepted for this name
	byGoid   map[uint64]int // goroutine -> name
	openMeta int
	mounted  map[int]int // mountpoint -> name (harness bookkeeping for the oracle)
	problems []string
	exec     []string
	outs     []string
	stats    map[string]int
}

func goid() uint64 {
	var buf [64]byte
	n := runtime.Stack(buf[:], false)
	var id uint64
	fmt.Sscanf(string(buf[:n]), "goroutine %d ", &id)
	return id
}

// next outcome for name (a missing entry means success)
func (m *machine) next(name int) bool {
	m.mu.Lock()
	defer m.mu.Unlock()
	sc := m.scripts[name]
	if len(sc) == 0 {
		return true
	}
	m.scripts[name] = sc[1:]
	return sc[0]
}

type trackedReader struct {
	metadata.Reader
	m      *machine
	closed bool
}

func (t *trackedReader) Close() error {
	t.m.mu.Lock()
	if !t.closed {
		t.closed = true
		t.m.openMeta--
	}
	t.m.mu.Unlock()
	return t.Reader.Close()
}

type fetcher struct {
	m    *machine
	name int
	src  int
}

func (f *fetcher) Fetch(ctx context.Context, off int64, size int64) (io.ReadCloser, error) {
	b := wrong[f.name%nlayers][f.src]
	if off < 0 || off+size > int64(len(b)) {
		return nil, fmt.Errorf("out of range")
	}
	return io.NopCloser(bytes.NewReader(b[off : off+size])), nil
}
func (f *fetcher) Check() error {
	f.m.mu.Lock()
	f.m.byGoid[goid()] = f.name
	f.m.mu.Unlock()
	if !f.m.next(f.name) {
		return fmt.Errorf("unreachable")
	}
	return nil
}
func (f *fetcher) GenID(off int64, size int64) string { return fmt.Sprintf("%d-%d-%d", f.name, off, size) }

type handler struct{ m *machine }

func (h *handler) Handle(ctx context.Context, desc ocispec.Descriptor) (remote.Fetcher, int64, error) {
	l := layerOf(desc.Digest)
	if l < 0 {
		return nil, 0, fmt.Errorf("unknown blob")
	}
	h.m.mu.Lock()
	name := h.m.curImg*nlayers + l
	h.m.byGoid[goid()] = name
	rf := h.m.rf
	h.m.mu.Unlock()
	if rf != "" { // the Refresh of a Check made by the harness
		if rf == "err" {
			return nil, 0, fmt.Errorf("registry failure")
		}
		src := map[string]int{"ok": 0, "size": 1, "content": 2}[rf]
		return &fetcher{h.m, name, src}, int64(len(wrong[l][src])), nil
	}
	if !h.m.next(name) {
		return nil, 0, fmt.Errorf("registry failure")
	}
	return &fetcher{h.m, name, 0}, int64(len(blobs[l])), nil
}

func failingHosts(reference.Spec) ([]docker.RegistryHost, error) {
	return nil, fmt.Errorf("no registry host")
}

func refOf(img int) reference.Spec {
	r, err := reference.Parse(fmt.Sprintf("registry.test/img%d:latest", img))
	if err != nil {
		panic(err)
	}
	return r
}

func descOf(l int) ocispec.Descriptor {
	return ocispec.Descriptor{Digest: digests[l], Size: int64(len(blobs[l]))}
}

func labelsOf(name int) map[string]string {
	return map[string]string{"verif/name": fmt.Sprint(name)}
}

// mountLabels: how Mount is asked to verify the layer: ok = right TOC digest, skip = skip-verify label (allowed),
// mismatch = a well-formed but wrong TOC digest, bad = unparsable digest label, none = no label at all
func mountLabels(name int, vf string) map[string]string {
	l := labelsOf(name)
	switch vf {
	case "", "ok":
		l[estargz.TOCJSONDigestAnnotation] = tocs[name%nlayers].String()
	case "skip":
		l[config.TargetSkipVerifyLabel] = "true"
	case "mismatch":
		l[estargz.TOCJSONDigestAnnotation] = digest.FromString("something else").String()
	case "bad":
		l[estargz.TOCJSONDigestAnnotation] = "sha256:not-a-digest"
	}
	return l
}

func verifies(vf string) bool { return vf == "" || vf == "ok" || vf == "skip" }

func newMachine() *machine {
	base := ""
	if st, e := os.Stat("/dev/shm"); e == nil && st.IsDir() {
		base = "/dev/shm"
	}
	root, err := os.MkdirTemp(base, "c12fs-")
	if err != nil {
		panic(err)
	}
	m := &machine{root: root, scripts: map[int][]bool{}, byGoid: map[uint64]int{}, probeK: map[int]int{}, tainted: map[int]bool{}, mounted: map[int]int{}, stats: map[string]int{}}
	store := func(sr *io.SectionReader, opts ...metadata.Option) (metadata.Reader, error) {
		m.mu.Lock()
		name, ok := m.byGoid[goid()]
		m.mu.Unlock()
		if !ok {
			return nil, fmt.Errorf("metadata store called from an unknown goroutine")
		}
		if !m.next(name) {
			return nil, fmt.Errorf("metadata failure")
		}
		r, err := memory.NewReader(sr, opts...)
		if err != nil {
			return nil, err
		}
		m.mu.Lock()
		m.openMeta++
		m.mu.Unlock()
		return &trackedReader{Reader: r, m: m}, nil
	}
	getSources := func(labels map[string]string) ([]source.Source, error) {
		var name int
		fmt.Sscan(labels["verif/name"], &name)
		var man ocispec.Manifest
		for l := 0; l < nlayers; l++ {
			man.Layers = append(man.Layers, descOf(l))
		}
		return []source.Source{{Hosts: failingHosts, Name: refOf(name / nlayers), Target: descOf(name % nlayers), Manifest: man}}, nil
	}
	cfg := config.Config{}
	cfg.BlobConfig.CheckAlways = true
	cfg.BlobConfig.ChunkSize = 1024
	cfg.DirectoryCacheConfig.SyncAdd = true
	cfg.ResolveResultEntryTTLSec = 3600
	cfg.NoPrefetch = true
	cfg.NoBackgroundFetch = true
	cfg.AllowNoVerification = true
	cfg.NoPrometheus = true
	f, err := fs.NewFilesystem(root, cfg, fs.WithGetSources(getSources), fs.WithResolveHandler("mem", &handler{m}), fs.WithMetadataStore(store))
	if err != nil {
		panic(err)
	}
	m.f = f
	m.res = fs.VerifResolverC12(f)
	return m
}

func (m *machine) cleanup() { os.RemoveAll(m.root) }

func (m *machine) problem(f string, a ...any) { m.problems = append(m.problems, fmt.Sprintf(f, a...)) }

func countDir(p string) int {
	es, err := os.ReadDir(p)
	if err != nil {
		return 0
	}
	return len(es)
}

func mpPath(mp int) string { return fmt.Sprintf("/verif-mp/%d", mp) }

func (m *machine) record(op, ev string) {
	m.mu.Lock()
	om := m.openMeta
	m.mu.Unlock()
	_, nm := fs.VerifMountedLayerC12(m.f, "")
	m.exec = append(m.exec, op)
	m.outs = append(m.outs, fmt.Sprintf("(%s, (%d, %d, %d, %d))", ev, countDir(filepath.Join(m.root, "fscache")), countDir(filepath.Join(m.root, "httpcache")), om, nm))
}

// settle waits until every goroutine spawned by Mount (target resolver, pre-resolvers) has finished.
func (m *machine) settle() {
	buf := make([]byte, 1<<20)
	for i := 0; i < 200000; i++ {
		n := runtime.Stack(buf, true)
		if !strings.Contains(string(buf[:n]), "(*filesystem).Mount.func") {
			return
		}
		time.Sleep(50 * time.Microsecond)
	}
	m.problem("goroutines started by Mount do not finish")
}

func coqBools(b []bool) string {
	s := make([]string, len(b))
	for i, x := range b {
		s[i] = hx.CoqBool(x)
	}
	return hx.CoqList(s)
}

func (m *machine) usable(l layer.Layer, name int) (bool, bool, string) {
	_, rootErr := l.RootNode(0)
	want := files[name%nlayers]
	data, fileErr := layer.VerifReadFileC12(l, "a.txt", len(want)+8)
	if fileErr == nil && !bytes.Equal(data, want) {
		fileErr = fmt.Errorf("wrong contents")
	}
	p := make([]byte, 4)
	bl := blobs[name%nlayers]
	_, blobErr := l.ReadAt(p, int64(len(bl)-4)) // the footer: fetched by every Resolve, so served from the blob cache
	if blobErr == nil && !bytes.Equal(p, bl[len(bl)-4:]) {
		blobErr = fmt.Errorf("wrong blob bytes")
	}
	checkErr := l.Check()
	detail := ""
	if rootErr != nil || fileErr != nil || blobErr != nil || checkErr != nil {
		detail = fmt.Sprintf("root=%v file=%v blob=%v check=%v", rootErr, fileErr, blobErr, checkErr)
	}
	return rootErr != nil, blobErr != nil, detail
}

func (m *machine) apply(o Op) {
	ctx := context.Background()
	switch o.Op {
	case "mount":
		if o.Mp < 0 || o.Mp >= nmps || o.N < 0 || o.N >= nnames {
			return
		}
		if _, dup := m.mounted[o.Mp]; dup {
			return // Mount over a registered mountpoint is not generated (the snapshotter never does it)
		}
		img, tl := o.N/nlayers, o.N%nlayers
		var nbs []string
		names := []int{o.N}
		for l := 0; l < nlayers; l++ {
			if l != tl {
				nbs = append(nbs, fmt.Sprint(img*nlayers+l))
				names = append(names, img*nlayers+l)
			}
		}
		scs := make([]string, len(names))
		m.mu.Lock()
		m.curImg = img
		for i, nm := range names {
			var sc []bool
			if i < len(o.Scs) {
				sc = o.Scs[i]
			}
			m.scripts[nm] = append([]bool{}, sc...)
			scs[i] = coqBools(sc)
		}
		m.mu.Unlock()
		fs.VerifNoFuseC15(mpPath(o.Mp), true)
		err := m.f.Mount(ctx, mpPath(o.Mp), mountLabels(o.N, o.Vf))
		m.settle()
		m.mu.Lock()
		m.scripts = map[int][]bool{}
		m.mu.Unlock()
		ev := "ENone"
		l, _ := fs.VerifMountedLayerC12(m.f, mpPath(o.Mp))
		if err != nil {
			ev = "EErr"
			m.stats["result.mount.err"]++
			if !verifies(o.Vf) {
				m.stats["result.mount.refused."+o.Vf]++
			}
			if l != nil {
				m.problem("Mount failed but left a layer registered under the mountpoint")
			}
		} else {
			m.stats["result.mount.ok"]++
			if !verifies(o.Vf) {
				m.problem("Mount succeeded although the layer could not be verified (%s)", o.Vf)
			}
			m.mounted[o.Mp] = o.N
			if l == nil {
				m.problem("Mount succeeded without registering a layer")
			} else if _, _, d := m.usable(l, o.N); d != "" {
				m.problem("freshly mounted layer (mountpoint %d, name %d) is not usable: %s", o.Mp, o.N, d)
			}
		}
		m.stats["op.mount"]++
		m.record(fmt.Sprintf("CMount %d %d %s [%s] %s", o.Mp, o.N, hx.CoqBool(verifies(o.Vf)), strings.Join(nbs, "; "), hx.CoqList(scs)), ev)
	case "check":
		if o.Mp < 0 || o.Mp >= nmps {
			return
		}
		rf := o.Rf
		if rf == "" {
			rf = map[bool]string{true: "ok", false: "err"}[o.Ok2]
		}
		name, isMounted := m.mounted[o.Mp]
		m.mu.Lock()
		if isMounted {
			m.curImg = name / nlayers
			m.scripts[name] = []bool{o.Ok1}
			m.rf = rf
		}
		m.mu.Unlock()
		err := m.f.Check(ctx, mpPath(o.Mp), labelsOf(name))
		m.mu.Lock()
		m.scripts = map[int][]bool{}
		m.rf = ""
		m.mu.Unlock()
		ev := "ENone"
		if err != nil {
			ev = "EErr"
		}
		if isMounted {
			m.stats["op.check.mounted"]++
			if (o.Ok1 || rf == "ok") && err != nil {
				m.problem("Check of mounted layer (mountpoint %d) failed although the registry answered (check ok=%v, refresh %s): %v", o.Mp, o.Ok1, rf, err)
			}
			if !o.Ok1 {
				m.stats["op.check.refresh"]++
				m.stats["op.check.refresh."+rf]++
				if (rf == "err" || rf == "size") && err == nil {
					m.problem("Check succeeded although the connectivity check failed and the Refresh had to be refused (%s)", rf)
				}
				if rf == "content" && err == nil {
					m.tainted[name] = true
				}
			}
			if err != nil {
				m.stats["result.check.err"]++
			}
		} else if err == nil {
			m.problem("Check of an unregistered mountpoint succeeded")
		}
		m.stats["op.check"]++
		m.record(fmt.Sprintf("COp (FCheck %d %s %s)", o.Mp, hx.CoqBool(o.Ok1), map[string]string{"ok": "RfOk", "err": "RfErr", "size": "RfSize", "content": "RfContent"}[rf]), ev)
	case "probe":
		if o.Mp < 0 || o.Mp >= nmps {
			return
		}
		l, _ := fs.VerifMountedLayerC12(m.f, mpPath(o.Mp))
		ev := "EErr"
		if l != nil {
			name := m.mounted[o.Mp]
			bl := blobs[name%nlayers]
			off := int64((probeFirst + m.probeK[name]) * probeChunk)
			if off+4 > int64(len(bl))-16*1024 {
				return
			}
			m.probeK[name]++
			p := make([]byte, 4)
			_, err := l.ReadAt(p, off)
			ok := err == nil && bytes.Equal(p, bl[off:off+4])
			if !ok && !m.tainted[name] {
				m.problem("mounted layer (mountpoint %d, name %d): a read that has to go to the registry failed or returned other bytes than the blob's (err=%v)", o.Mp, name, err)
			}
			if !ok {
				m.stats["result.probe.fail"]++
			}
			ev = fmt.Sprintf("EProbe %s", hx.CoqBool(ok))
			m.stats["op.probe.mounted"]++
		}
		m.stats["op.probe"]++
		m.record(fmt.Sprintf("COp (FProbe %d)", o.Mp), ev)
	case "unmount":
		if o.Mp < 0 || o.Mp >= nmps {
			return
		}
		_, isMounted := m.mounted[o.Mp]
		before, _ := fs.VerifMountedLayerC12(m.f, mpPath(o.Mp))
		m.f.Unmount(ctx, mpPath(o.Mp)) // the unmount(2) of a path that is not a mount fails; the layer is released before
		after, _ := fs.VerifMountedLayerC12(m.f, mpPath(o.Mp))
		ev := "ENone"
		if before == nil {
			ev = "EErr"
			m.stats["op.unmount.unknown"]++
		} else {
			m.stats["op.unmount"]++
		}
		if after != nil {
			m.problem("Unmount left the layer registered")
		}
		if isMounted != (before != nil) {
			m.problem("registered layers differ from the mounts performed")
		}
		delete(m.mounted, o.Mp)
		m.record(fmt.Sprintf("COp (FUnmount %d)", o.Mp), ev)
	case "use":
		if o.Mp < 0 || o.Mp >= nmps {
			return
		}
		l, _ := fs.VerifMountedLayerC12(m.f, mpPath(o.Mp))
		ev := "EErr"
		if l != nil {
			name := m.mounted[o.Mp]
			m.mu.Lock()
			m.curImg = name / nlayers
			m.mu.Unlock()
			lc, bc, d := m.usable(l, name)
			if d != "" {
				m.problem("mounted layer (mountpoint %d, name %d) is not usable: %s", o.Mp, name, d)
			}
			ev = fmt.Sprintf("EUse %s %s", hx.CoqBool(lc), hx.CoqBool(bc))
			m.stats["op.use.mounted"]++
		}
		m.stats["op.use"]++
		m.record(fmt.Sprintf("COp (FUse %d)", o.Mp), ev)
	case "expl", "expb":
		if o.N < 0 || o.N >= nnames {
			return
		}
		key := layer.VerifCacheKeyC12(refOf(o.N/nlayers), descOf(o.N%nlayers))
		if o.Op == "expl" {
			m.res.VerifExpireLayerC12(key)
			m.record(fmt.Sprintf("COp (FExpireL %d)", o.N), "ENone")
		} else {
			m.res.VerifExpireBlobC12(key)
			m.record(fmt.Sprintf("COp (FExpireB %d)", o.N), "ENone")
		}
		m.stats["op."+o.Op]++
	}
}

// quiesce: unmount everything, expire everything: nothing may remain; a new Mount then works and is reclaimed again.
func (m *machine) quiesce() {
	for mp := 0; mp < nmps; mp++ {
		if _, ok := m.mounted[mp]; ok {
			m.apply(Op{Op: "unmount", Mp: mp})
		}
	}
	for n := 0; n < nnames; n++ {
		m.apply(Op{Op: "expl", N: n})
		m.apply(Op{Op: "expb", N: n})
	}
	check := func(when string) {
		m.mu.Lock()
		om := m.openMeta
		m.mu.Unlock()
		a, b := countDir(filepath.Join(m.root, "fscache")), countDir(filepath.Join(m.root, "httpcache"))
		if a != 0 || b != 0 || om != 0 {
			m.problem("%s: %d fscache dirs, %d httpcache dirs, %d open metadata readers remain", when, a, b, om)
		}
	}
	check("after every mount was unmounted and everything expired")
	m.apply(Op{Op: "mount", Mp: 0, N: 1})
	m.apply(Op{Op: "use", Mp: 0})
	m.apply(Op{Op: "check", Mp: 0, Ok1: false, Rf: "size"})
	m.apply(Op{Op: "probe", Mp: 0})
	m.apply(Op{Op: "unmount", Mp: 0})
	for n := 0; n < nlayers; n++ {
		m.apply(Op{Op: "expl", N: n})
		m.apply(Op{Op: "expb", N: n})
	}
	check("after the closing mount/unmount/expiry")
}

func run(c Case) *machine {
	m := newMachine()
	defer m.cleanup()
	for _, o := range c.Ops {
		m.apply(o)
	}
	m.quiesce()
	return m
}

func genScript(r *hx.Rng) []bool {
	switch r.Pick(70, 12, 12, 6) {
	case 1:
		return []bool{false} // first external call fails
	case 2:
		return []bool{true, false} // second one fails
	case 3:
		return []bool{r.Bool(), r.Bool(), r.Bool(), r.Bool()}
	}
	return nil
}

func gen(r *hx.Rng) Case {
	c := Case{}
	n := r.Range(5, 22)
	for i := 0; i < n; i++ {
		var o Op
		switch r.Pick(30, 18, 16, 10, 12, 10, 12) {
		case 0:
			o = Op{Op: "mount", Mp: r.Intn(nmps), N: r.Pick(4, 3, 2, 2, 1, 1), Scs: [][]bool{genScript(r), genScript(r), genScript(r)},
				Vf: []string{"ok", "skip", "mismatch", "bad", "none"}[r.Pick(9, 3, 3, 2, 2)]}
		case 1:
			o = Op{Op: "check", Mp: r.Intn(nmps), Ok1: r.Chance(1, 3), Rf: []string{"ok", "err", "size", "content"}[r.Pick(3, 3, 4, 1)]}
		case 2:
			o = Op{Op: "unmount", Mp: r.Intn(nmps)}
		case 3:
			o = Op{Op: "use", Mp: r.Intn(nmps)}
		case 4:
			o = Op{Op: "expl", N: r.Intn(nnames)}
		case 5:
			o = Op{Op: "expb", N: r.Intn(nnames)}
		case 6:
			o = Op{Op: "probe", Mp: r.Intn(nmps)}
		}
		c.Ops = append(c.Ops, o)
	}
	return c
}

func main() {
	ctx := hx.Start()
	clog.L.Logger.SetOutput(io.Discard)
	buildBlobs()
	emit := func(c Case) {
		m := run(c)
		c.Exec, c.Outs = m.exec, m.outs
		for k, v := range m.stats {
			ctx.CountN(k, v)
		}
		ctx.CountN("ops", len(m.exec))
		term := fmt.Sprintf("(%s, %s)", hx.CoqList(m.exec), hx.CoqList(m.outs))
		nontrivial := m.stats["result.mount.ok"] > 1 && m.stats["op.unmount"] > 1 && (m.stats["result.mount.err"] > 0 || m.stats["op.check.refresh"] > 0)
		id := ctx.Case(term, c, term, nontrivial)
		for _, p := range m.problems {
			ctx.Violation(id, p, nil)
		}
	}
	if ctx.Replay != "" {
		var c Case
		ctx.LoadReplay(&c)
		emit(c)
		ctx.Finish()
		return
	}
	corpus := []Case{
		// two mountpoints share layer 0 (the second Mount hits the cache), neighbours pre-resolved; expiry; one unmount; the other stays usable
		{Ops: []Op{{Op: "mount", Mp: 0, N: 0}, {Op: "mount", Mp: 1, N: 0}, {Op: "expl", N: 0}, {Op: "expb", N: 0}, {Op: "unmount", Mp: 0}, {Op: "use", Mp: 1}, {Op: "check", Mp: 1, Ok1: false, Ok2: true}, {Op: "check", Mp: 1, Ok1: false, Ok2: false}, {Op: "use", Mp: 1}}},
		// registry failure of the target, metadata failure of the target, failing neighbours, then success from the pre-resolved cache
		{Ops: []Op{{Op: "mount", Mp: 0, N: 1, Scs: [][]bool{{false}}}, {Op: "mount", Mp: 0, N: 1, Scs: [][]bool{{true, false}, {false}, {true, false}}}, {Op: "mount", Mp: 0, N: 1}, {Op: "mount", Mp: 2, N: 2}, {Op: "check", Mp: 3, Ok1: true}, {Op: "unmount", Mp: 3}, {Op: "use", Mp: 2}, {Op: "unmount", Mp: 0}, {Op: "use", Mp: 2}}},
		// cached neighbour fails its connectivity check at the next Mount: re-resolved while ... ; second image
		{Ops: []Op{{Op: "mount", Mp: 0, N: 0}, {Op: "mount", Mp: 1, N: 1, Scs: [][]bool{{false, true, true, true}}}, {Op: "use", Mp: 0}, {Op: "use", Mp: 1}, {Op: "mount", Mp: 2, N: 4}, {Op: "unmount", Mp: 1}, {Op: "expl", N: 1}, {Op: "use", Mp: 2}}},
	}
	K := func(mp int, ok1 bool, rf string) Op { return Op{Op: "check", Mp: mp, Ok1: ok1, Rf: rf} }
	P := func(mp int) Op { return Op{Op: "probe", Mp: mp} }
	corpus = append(corpus,
		// Check after a failed connectivity check refreshes through the source: refused refreshes (error, other size) leave the mounted layer reading
		// cached and never-read chunks; an accepted one installs the new fetcher; two mountpoints share the layer
		Case{Ops: []Op{{Op: "mount", Mp: 0, N: 0}, {Op: "mount", Mp: 1, N: 0}, P(0), K(0, false, "size"), P(0), P(1), {Op: "use", Mp: 1}, K(1, false, "err"), P(1), K(0, false, "ok"), P(0), K(0, true, "size"), K(1, false, "size"), P(0), {Op: "unmount", Mp: 0}, P(1), {Op: "use", Mp: 1}}},
		Case{Ops: []Op{{Op: "mount", Mp: 2, N: 4}, K(2, false, "content"), P(2), {Op: "use", Mp: 2}, K(2, false, "size"), P(2), K(2, false, "ok"), P(2)}},
	)
	V := func(mp, n int, vf string) Op { return Op{Op: "mount", Mp: mp, N: n, Vf: vf} }
	X := func(n int) []Op { return []Op{{Op: "expl", N: n}, {Op: "expb", N: n}} }
	cat := func(xs ...[]Op) (r []Op) {
		for _, x := range xs {
			r = append(r, x...)
		}
		return
	}
	corpus = append(corpus,
		// Mount resolves the layer and is then refused at each verification stage (wrong TOC digest, unparsable label, no label);
		// nothing is registered, and after expiry everything is reclaimed; then the same layer mounts and serves
		Case{Ops: cat([]Op{V(0, 0, "mismatch")}, X(0), X(1), X(2), []Op{V(0, 0, "bad")}, X(0), X(1), X(2), []Op{V(0, 0, "none")}, X(0), X(1), X(2), []Op{V(0, 0, "ok"), {Op: "use", Mp: 0}})},
		// refused while another mountpoint holds the same (verified / skip-verified) layer: the holder keeps serving, the refused reference is released
		Case{Ops: cat([]Op{V(0, 1, "ok"), V(1, 1, "mismatch"), V(2, 1, "none"), {Op: "use", Mp: 0}}, X(1), []Op{{Op: "use", Mp: 0}, {Op: "unmount", Mp: 0}, V(3, 2, "skip"), V(1, 2, "bad"), {Op: "use", Mp: 3}, {Op: "unmount", Mp: 3}}, X(2))},
	)
	for _, c := range corpus {
		emit(c)
	}
	r := hx.NewRng(ctx.Seed)
	for i := len(corpus); i < ctx.N; i++ {
		emit(gen(r.Fork()))
	}
	ctx.Finish()
}
