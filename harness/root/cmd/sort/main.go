// C14 correspondence harness: drives the real estargz.sortEntries (through the verif hook
// VerifSortEntries) and, for a part of the cases, the full estargz.Build, on generated tar blobs x
// prioritized lists x allow-not-found x chunking/worker settings. Per case it prints the input and the
// observed result as a Coq term for Model/Sort.v and evaluates the property's clauses directly on the
// observations (model-free oracle).
package main

import (
	"archive/tar"
	"bytes"
	"compress/gzip"
	"encoding/json"
	"fmt"
	"io"
	"path"
	"sort"
	"strings"

	"github.com/containerd/stargz-snapshotter/estargz"
	"verif/harness/hx"
)

// Ent is one entry of the input tar. Kind: reg dir link sym.
type Ent struct {
	Name string `json:"name"`
	Kind string `json:"kind"`
	Link string `json:"link,omitempty"`
	Size int    `json:"size,omitempty"`
}

type BuildCfg struct {
	ChunkSize    int `json:"chunk"`
	MinChunkSize int `json:"minchunk"`
	Workers      int `json:"workers"`
}

type Case struct {
	Ops   []Ent     `json:"ops"` // the input tar (called ops so that the driver shrinks it)
	Prio  []string  `json:"prio"`
	Allow bool      `json:"allow"`
	Build *BuildCfg `json:"build,omitempty"`
}

// ---- observations ----

type obsItem struct {
	ID       int    // index+1 of the input entry, 0 for an entry synthesized by sortEntries
	Name     string // raw header name
	Landmark int    // 0 no, 1 prefetch, 2 no-prefetch (synthesized only)
}

type obsResult struct {
	Class  string // ok notfound other
	Out    []obsItem
	Missed []string
	Err    string
}

func cleanName(n string) string { return strings.TrimPrefix(path.Clean("/"+n), "/") }

func isLandmarkKey(k string) bool {
	return k == estargz.PrefetchLandmark || k == estargz.NoPrefetchLandmark
}

func content(i, size int) []byte {
	b := make([]byte, size)
	for j := range b {
		b[j] = byte(i*31 + j*7 + (j>>3)*13)
	}
	return b
}

func makeTar(es []Ent) ([]byte, error) {
	var buf bytes.Buffer
	tw := tar.NewWriter(&buf)
	for i, e := range es {
		h := &tar.Header{Name: e.Name, Uid: i + 1, Mode: 0o644, Format: tar.FormatPAX}
		switch e.Kind {
		case "dir":
			h.Typeflag = tar.TypeDir
			h.Mode = 0o755
		case "link":
			h.Typeflag = tar.TypeLink
			h.Linkname = e.Link
		case "sym":
			h.Typeflag = tar.TypeSymlink
			h.Linkname = e.Link
		default:
			h.Typeflag = tar.TypeReg
			h.Size = int64(e.Size)
		}
		if err := tw.WriteHeader(h); err != nil {
			return nil, err
		}
		if h.Typeflag == tar.TypeReg && e.Size > 0 {
			if _, err := tw.Write(content(i, e.Size)); err != nil {
				return nil, err
			}
		}
	}
	if err := tw.Close(); err != nil {
		return nil, err
	}
	return buf.Bytes(), nil
}

func runSort(c Case, tarBytes []byte) obsResult {
	out, missed, notFound, err := estargz.VerifSortEntries(bytes.NewReader(tarBytes), c.Prio, c.Allow)
	if err != nil {
		if notFound {
			return obsResult{Class: "notfound", Err: err.Error()}
		}
		return obsResult{Class: "other", Err: err.Error()}
	}
	r := obsResult{Class: "ok", Missed: missed}
	for _, e := range out {
		it := obsItem{ID: e.UID, Name: e.Name}
		if e.UID == 0 {
			switch e.Name {
			case estargz.PrefetchLandmark:
				it.Landmark = 1
			case estargz.NoPrefetchLandmark:
				it.Landmark = 2
			}
		}
		r.Out = append(r.Out, it)
	}
	return r
}

// ---- model-free oracle: the clauses of the property on the observations ----

type graph struct {
	es    []Ent
	keys  []string       // cleaned name per input entry
	byKey map[string]int // cleaned name -> index of the imported entry
	imp   []int          // imported entries (indices), in order
}

func newGraph(es []Ent) *graph {
	g := &graph{es: es, byKey: map[string]int{}}
	for _, e := range es {
		g.keys = append(g.keys, cleanName(e.Name))
	}
	// the effective input: landmarks of the input are not entries of the layer; of several entries with
	// the same cleaned name the last one is the file (tar semantics), at its own position.
	for i := range es {
		if isLandmarkKey(g.keys[i]) {
			continue
		}
		last := true
		for j := i + 1; j < len(es); j++ {
			if g.keys[j] == g.keys[i] {
				last = false
			}
		}
		if last {
			g.byKey[g.keys[i]] = i
			g.imp = append(g.imp, i)
		}
	}
	return g
}

func parentKey(k string) string {
	i := strings.LastIndex(k, "/")
	if i < 0 {
		return ""
	}
	return k[:i]
}

// edges of "must be placed before": parent directory; hardlink target.
func (g *graph) succ(k string) []string {
	if k == "" {
		return nil
	}
	s := []string{parentKey(k)}
	if i, ok := g.byKey[k]; ok && g.es[i].Kind == "link" {
		s = append(s, cleanName(g.es[i].Link))
	}
	return s
}

type closure struct {
	ids      map[int]bool // imported entries that must precede / be the start path
	absent   bool         // the start path itself has no entry
	dangling bool         // a hardlink on the way has a target without entry
	cyclic   bool
}

func (g *graph) closure(start string) closure {
	c := closure{ids: map[int]bool{}}
	if _, ok := g.byKey[start]; !ok && start != "" {
		c.absent = true
	}
	color := map[string]int{}
	var dfs func(k string)
	dfs = func(k string) {
		color[k] = 1
		if i, ok := g.byKey[k]; ok {
			c.ids[i] = true
			if k != "" && g.es[i].Kind == "link" {
				t := cleanName(g.es[i].Link)
				if _, ok := g.byKey[t]; !ok && t != "" {
					c.dangling = true
				}
			}
		}
		for _, n := range g.succ(k) {
			switch color[n] {
			case 0:
				dfs(n)
			case 1:
				c.cyclic = true
			}
		}
		color[k] = 2
	}
	dfs(start)
	return c
}

func oracle(c Case, r obsResult) (problems []string) {
	bad := func(f string, a ...any) { problems = append(problems, fmt.Sprintf(f, a...)) }
	g := newGraph(c.Ops)
	cl := make([]closure, len(c.Prio))
	anyNotFound, anyCycle, messy := false, false, false
	for i, l := range c.Prio {
		cl[i] = g.closure(cleanName(l))
		if cl[i].absent || cl[i].dangling {
			anyNotFound = true
		}
		if cl[i].cyclic {
			anyCycle = true
		}
		if cl[i].cyclic || (cl[i].dangling && !cl[i].absent) {
			messy = true
		}
	}
	switch r.Class {
	case "notfound":
		if c.Allow {
			bad("build aborted with not-found although missing prioritized files are allowed")
		}
		if !anyNotFound {
			bad("build aborted with not-found but every prioritized path exists: %s", r.Err)
		}
		return
	case "other":
		if !anyCycle {
			bad("sortEntries failed on a valid input: %s", r.Err)
		}
		return
	}
	// success
	// missing paths: aborted or reported back, and only those are reported
	j := 0
	for i, l := range c.Prio {
		nf := cl[i].absent || cl[i].dangling
		took := j < len(r.Missed) && r.Missed[j] == l
		switch {
		case nf && !cl[i].cyclic:
			if !c.Allow {
				bad("prioritized path %q does not exist but the build succeeded in strict mode", l)
			} else if !took {
				bad("missing prioritized path %q was not reported back (missed=%q)", l, r.Missed)
			} else {
				j++
			}
		case nf && cl[i].cyclic:
			if took {
				j++
			}
		default:
			if cl[i].cyclic {
				bad("prioritized path %q is on a hardlink cycle but sortEntries succeeded", l)
			}
		}
	}
	if j != len(r.Missed) {
		bad("reported missed=%q contains a path that exists (or is out of order)", r.Missed)
	}
	// exactly one landmark of the right kind
	lm := -1
	for i, it := range r.Out {
		if it.ID == 0 || isLandmarkKey(cleanName(it.Name)) {
			if it.ID != 0 {
				bad("landmark entry of the input survived: id %d %q", it.ID, it.Name)
			}
			if lm >= 0 {
				bad("more than one landmark in the output")
			}
			lm = i
			want := 1
			if len(c.Prio) == 0 {
				want = 2
			}
			if it.Landmark != want {
				bad("wrong landmark %q for a prioritized list of length %d", it.Name, len(c.Prio))
			}
		}
	}
	if lm < 0 {
		bad("no landmark in the output")
		return
	}
	G, R := r.Out[:lm], r.Out[lm+1:]
	// nothing lost, nothing duplicated
	seen := map[int]int{}
	for _, it := range append(append([]obsItem{}, G...), R...) {
		seen[it.ID]++
	}
	for _, i := range g.imp {
		if seen[i+1] != 1 {
			bad("input entry %d (%q) occurs %d times in the output", i+1, c.Ops[i].Name, seen[i+1])
		}
		delete(seen, i+1)
	}
	for id, n := range seen {
		bad("output contains %d x entry %d which is not an entry of the layer", n, id)
	}
	// the rest keeps its original relative order
	for i := 1; i < len(R); i++ {
		if R[i-1].ID >= R[i].ID {
			bad("remaining entries reordered: %d before %d", R[i-1].ID, R[i].ID)
		}
	}
	// every entry of the leading group is preceded by its parent directories and hardlink target
	pos := map[int]int{}
	for i, it := range G {
		pos[it.ID-1] = i
	}
	for i, it := range G {
		if it.ID < 1 || it.ID > len(c.Ops) {
			continue
		}
		k := g.keys[it.ID-1]
		need := []string{}
		for a := k; a != ""; {
			a = parentKey(a)
			need = append(need, a)
		}
		if k != "" && c.Ops[it.ID-1].Kind == "link" {
			need = append(need, cleanName(c.Ops[it.ID-1].Link))
		}
		for _, n := range need {
			if d, ok := g.byKey[n]; ok && d != it.ID-1 {
				if p, ok := pos[d]; !ok || p >= i {
					bad("entry %q is in the prioritized group but %q (parent directory or hardlink target) does not precede it", it.Name, c.Ops[d].Name)
				}
			}
		}
	}
	// in the order given, each once, nothing else: after the i-th listed path the group is exactly the union
	// of what the first i paths need, and a newly placed listed path is the last of its own group
	if !messy {
		need := map[int]bool{}
		for i := range c.Prio {
			if cl[i].absent {
				continue
			}
			k := cleanName(c.Prio[i])
			self, hasSelf := g.byKey[k]
			fresh := hasSelf && !need[self]
			for id := range cl[i].ids {
				need[id] = true
			}
			n := len(need)
			if n > len(G) {
				bad("prioritized path %q: %d entries needed so far but the group has only %d", c.Prio[i], n, len(G))
				break
			}
			for _, it := range G[:n] {
				if !need[it.ID-1] {
					bad("prioritized path %q: entry %q is placed before it is asked for", c.Prio[i], it.Name)
				}
			}
			if fresh && G[n-1].ID-1 != self {
				bad("prioritized path %q is not placed after its own parents/targets (last of its group is %q)", c.Prio[i], G[n-1].Name)
			}
		}
		if len(need) != len(G) {
			bad("the prioritized group has %d entries, %d are needed by the list", len(G), len(need))
		}
	}
	return
}

// ---- full Build: entry order in the decompressed tar, offsets in the TOC ----

func runBuild(c Case, tarBytes []byte, sr obsResult) (problems []string) {
	bad := func(f string, a ...any) { problems = append(problems, fmt.Sprintf(f, a...)) }
	var missed []string
	opts := []estargz.Option{
		estargz.WithCompressionLevel(gzip.BestSpeed),
		estargz.WithChunkSize(c.Build.ChunkSize),
		estargz.WithMinChunkSize(c.Build.MinChunkSize),
		estargz.WithParallelism(c.Build.Workers),
	}
	if c.Prio != nil {
		opts = append(opts, estargz.WithPrioritizedFiles(c.Prio))
	}
	if c.Allow {
		opts = append(opts, estargz.WithAllowPrioritizeNotFound(&missed))
	}
	blob, err := estargz.Build(io.NewSectionReader(bytes.NewReader(tarBytes), 0, int64(len(tarBytes))), opts...)
	if err != nil {
		if sr.Class == "ok" {
			bad("Build failed although sortEntries succeeded: %v", err)
		}
		return
	}
	defer blob.Close()
	if sr.Class != "ok" {
		bad("Build succeeded although sortEntries failed (%s)", sr.Err)
		return
	}
	raw, err := io.ReadAll(blob)
	if err != nil {
		bad("reading the built blob: %v", err)
		return
	}
	if strings.Join(missed, "\x00") != strings.Join(sr.Missed, "\x00") {
		bad("Build reported missed=%q, sortEntries %q", missed, sr.Missed)
	}
	gunzip := func(b []byte) ([]byte, error) {
		zr, err := gzip.NewReader(bytes.NewReader(b))
		if err != nil {
			return nil, err
		}
		return io.ReadAll(zr)
	}
	all, err := gunzip(raw)
	if err != nil {
		bad("built blob does not decompress: %v", err)
		return
	}
	// entry order of the decompressed tar and where the payload of each entry starts
	br := bytes.NewReader(all)
	tr := tar.NewReader(br)
	var names []string
	dataStart := map[string]int64{}
	var toc estargz.JTOC
	for {
		h, err := tr.Next()
		if err == io.EOF {
			break
		}
		if err != nil {
			bad("decompressed blob is not a tar: %v", err)
			return
		}
		if h.Name == estargz.TOCTarName {
			if err := json.NewDecoder(tr).Decode(&toc); err != nil {
				bad("TOC does not parse: %v", err)
				return
			}
			continue
		}
		names = append(names, h.Name)
		dataStart[h.Name] = int64(len(all)) - int64(br.Len())
	}
	var want []string
	group := map[string]bool{} // raw names of the leading group
	lmName, inG := "", true
	for _, it := range sr.Out {
		want = append(want, it.Name)
		if it.ID == 0 {
			lmName, inG = it.Name, false
		} else if inG {
			group[it.Name] = true
		}
	}
	if strings.Join(names, "\x00") != strings.Join(want, "\x00") {
		bad("entry order of the built layer %q differs from the sorted order %q", names, want)
		return
	}
	var lm *estargz.TOCEntry
	for _, e := range toc.Entries {
		if e.Name == lmName && e.Type == "reg" {
			if lm != nil {
				bad("two landmark entries in the TOC")
			}
			lm = e
		}
	}
	if lm == nil {
		bad("no landmark entry %q in the TOC", lmName)
		return
	}
	if lm.InnerOffset != 0 {
		bad("landmark does not start its own compressed stream: innerOffset %d", lm.InnerOffset)
	}
	if lm.Offset <= 0 || lm.Offset > int64(len(raw)) {
		bad("landmark offset %d out of the blob", lm.Offset)
		return
	}
	// what the runtime prefetches is blob[0:landmark.Offset): it must hold exactly everything before the landmark's payload
	head, err := gunzip(raw[:lm.Offset])
	if err != nil {
		bad("blob[0:landmark offset %d) is not a sequence of complete compressed streams: %v", lm.Offset, err)
	} else if int64(len(head)) != dataStart[lmName] {
		bad("blob[0:landmark offset) decompresses to %d bytes, the landmark payload starts at %d", len(head), dataStart[lmName])
	}
	for _, e := range toc.Entries {
		if (e.Type != "reg" && e.Type != "chunk") || e == lm {
			continue
		}
		if e.Type == "reg" && e.Size == 0 {
			continue
		}
		if group[e.Name] && e.Offset >= lm.Offset {
			bad("data of prioritized file %q at offset %d is not before the landmark at %d", e.Name, e.Offset, lm.Offset)
		}
		if !group[e.Name] && e.Offset < lm.Offset {
			bad("data of non-prioritized file %q at offset %d lies before the landmark at %d", e.Name, e.Offset, lm.Offset)
		}
	}
	return
}

// ---- Coq printing ----

func okChar(s string) bool {
	for _, ch := range []byte(s) {
		if ch < 0x20 || ch > 0x7e || ch == '"' {
			return false
		}
	}
	return true
}

func coqStr(s string) string { return `"` + s + `"` }

func coqStrList(xs []string) string {
	s := make([]string, len(xs))
	for i, x := range xs {
		s[i] = coqStr(x)
	}
	return hx.CoqList(s)
}

func coqCase(c Case, r obsResult) string {
	es := make([]string, len(c.Ops))
	raws := map[string]bool{}
	for i, e := range c.Ops {
		l := "None"
		if e.Kind == "link" {
			l = "(Some " + coqStr(e.Link) + ")"
			raws[e.Link] = true
		}
		es[i] = fmt.Sprintf("mkE %d %s %s", i+1, coqStr(e.Name), l)
		raws[e.Name] = true
	}
	for _, p := range c.Prio {
		raws[p] = true
	}
	rl := make([]string, 0, len(raws))
	for s := range raws {
		rl = append(rl, s)
	}
	sort.Strings(rl)
	cls := make([]string, len(rl))
	for i, s := range rl {
		k := estargz.VerifCleanEntryName(s) // the implementation's own cleaning, compared with the model's
		comps := []string{}
		if k != "" {
			comps = strings.Split(k, "/")
		}
		cls[i] = fmt.Sprintf("(%s, %s)", coqStr(s), coqStrList(comps))
	}
	var obs string
	switch r.Class {
	case "ok":
		items := make([]string, len(r.Out))
		for i, it := range r.Out {
			switch {
			case it.ID != 0:
				items[i] = fmt.Sprintf("OEnt %d", it.ID)
			case it.Landmark == 1:
				items[i] = "OLand true"
			case it.Landmark == 2:
				items[i] = "OLand false"
			default:
				items[i] = "OEnt 0"
			}
		}
		obs = fmt.Sprintf("OOk %s %s", hx.CoqList(items), coqStrList(r.Missed))
	case "notfound":
		obs = "ONotFound"
	default:
		obs = "OOther"
	}
	return fmt.Sprintf("(%s, %s, %s, %s, %s)", hx.CoqList(es), coqStrList(c.Prio), hx.CoqBool(c.Allow), hx.CoqList(cls), obs)
}

// ---- generator ----

var spellings = []func(string) string{
	func(s string) string { return s },
	func(s string) string { return s },
	func(s string) string { return "/" + s },
	func(s string) string { return "./" + s },
	func(s string) string { return "../" + s },
	func(s string) string { return strings.ReplaceAll(s, "/", "//") },
	func(s string) string { return strings.Replace(s, "/", "/./", 1) },
	func(s string) string { return "x/../" + s },
	func(s string) string { return s + "/" },
	func(s string) string { return "/../" + s + "/." },
}

func spell(r *hx.Rng, s string, plain int) (string, int) {
	if r.Chance(plain, 100) {
		return s, 0
	}
	i := r.Intn(len(spellings))
	return spellings[i](s), i
}

func gen(r *hx.Rng, ctxCount func(string)) Case {
	c := Case{}
	dirs := []string{"a", "b", "a/c", "a/c/d", "e"}
	leaf := []string{"f", "g", "h", "k"}
	var names []string // cleaned names in the tar so far
	n := r.Pick(1, 2, 3, 4, 5, 5, 5, 4, 3, 3, 2, 2, 1)
	randPath := func() string {
		if r.Chance(1, 4) {
			return leaf[r.Intn(len(leaf))]
		}
		return dirs[r.Intn(len(dirs))] + "/" + leaf[r.Intn(len(leaf))]
	}
	for i := 0; i < n; i++ {
		var e Ent
		switch r.Pick(30, 40, 16, 4, 4, 3, 6) {
		case 0: // directory
			d := dirs[r.Intn(len(dirs))]
			e = Ent{Name: d, Kind: "dir"}
			if r.Chance(2, 3) {
				e.Name = d + "/"
			}
			if r.Chance(1, 6) {
				e.Name, _ = spell(r, d, 0)
			}
		case 1: // regular file, often below a directory that has no entry of its own
			e = Ent{Name: randPath(), Kind: "reg", Size: r.Pick(2, 6, 3, 2) * r.Range(0, 90)}
			if r.Chance(1, 5) {
				e.Name, _ = spell(r, e.Name, 0)
			}
		case 2: // hardlink: to an existing entry, to a later one, to itself, to nothing
			e = Ent{Name: randPath(), Kind: "link"}
			switch {
			case len(names) > 0 && r.Chance(7, 10):
				e.Link = names[r.Intn(len(names))]
			case r.Chance(1, 2):
				e.Link = randPath()
			case r.Chance(1, 2):
				e.Link = e.Name
			default:
				e.Link = "nowhere/z"
			}
			if r.Chance(1, 4) {
				e.Link, _ = spell(r, e.Link, 0)
			}
		case 3:
			e = Ent{Name: randPath(), Kind: "sym", Link: randPath()}
		case 4: // landmark already in the input
			e = Ent{Name: []string{estargz.PrefetchLandmark, estargz.NoPrefetchLandmark, "./" + estargz.PrefetchLandmark, "/" + estargz.NoPrefetchLandmark}[r.Intn(4)], Kind: "reg", Size: 1}
		case 5: // root entry
			e = Ent{Name: []string{"./", "/", "../", "a/.."}[r.Intn(4)], Kind: "dir"}
		case 6: // repeated name, possibly spelled differently
			if len(names) == 0 {
				e = Ent{Name: randPath(), Kind: "reg", Size: r.Range(0, 50)}
			} else {
				nm := names[r.Intn(len(names))]
				if nm == "" {
					nm = "."
				}
				e = Ent{Name: nm, Kind: []string{"reg", "dir", "reg"}[r.Intn(3)], Size: r.Range(1, 40)}
				e.Name, _ = spell(r, nm, 50)
			}
		}
		if e.Kind != "dir" { // archive/tar refuses a trailing slash on anything but a directory
			if t := strings.TrimRight(e.Name, "/"); t != "" {
				e.Name = t
			}
		}
		names = append(names, cleanName(e.Name))
		c.Ops = append(c.Ops, e)
	}
	// prioritized list
	np := r.Pick(12, 14, 18, 18, 14, 10, 8, 6)
	c.Prio = []string{}
	for i := 0; i < np; i++ {
		var p string
		switch r.Pick(68, 9, 8, 6, 6, 4) {
		case 0: // an entry of the tar
			if len(names) == 0 {
				p = randPath()
				break
			}
			p = names[r.Intn(len(names))]
			if p == "" {
				p = "/"
			}
			p, _ = spell(r, p, 45)
		case 1: // a path that does not exist
			p = []string{"zz", "a/zz", "nowhere/z", "/q/r/s", estargz.PrefetchLandmark}[r.Intn(5)]
		case 2: // an implicit directory
			p = dirs[r.Intn(len(dirs))]
			p, _ = spell(r, p, 50)
		case 3: // the root
			p = []string{"", "/", ".", "./", "..", "a/.."}[r.Intn(6)]
		case 4: // repeated
			if len(c.Prio) > 0 {
				p = c.Prio[r.Intn(len(c.Prio))]
			} else {
				p = randPath()
			}
		case 5:
			p = randPath()
		}
		c.Prio = append(c.Prio, p)
	}
	c.Allow = r.Bool()
	if r.Chance(1, 8) {
		c.Build = &BuildCfg{
			ChunkSize:    []int{0, 1, 7, 64, 4096}[r.Intn(5)],
			MinChunkSize: []int{0, 0, 5, 100, 400, 5000}[r.Intn(6)],
			Workers:      []int{1, 1, 2, 3, 8}[r.Intn(5)],
		}
	}
	return c
}

func valid(c Case) bool {
	for _, e := range c.Ops {
		if e.Name == "" || !okChar(e.Name) || !okChar(e.Link) {
			return false
		}
	}
	for _, p := range c.Prio {
		if !okChar(p) {
			return false
		}
	}
	return true
}

func main() {
	ctx := hx.Start()
	emit := func(c Case) {
		if !valid(c) {
			return
		}
		tarBytes, err := makeTar(c.Ops)
		if err != nil {
			ctx.Count("gen.untarable")
			if _, ok := ctx.Extra["untarable"]; !ok {
				ctx.Extra["untarable"] = fmt.Sprintf("%v: %+v", err, c.Ops)
			}
			return
		}
		r := runSort(c, tarBytes)
		term := coqCase(c, r)
		// distribution
		g := newGraph(c.Ops)
		ctx.Count("res." + r.Class)
		if len(r.Missed) > 0 {
			ctx.Count("res.missed")
		}
		if len(c.Prio) == 0 {
			ctx.Count("prio.empty")
		}
		if c.Allow {
			ctx.Count("allow")
		} else {
			ctx.Count("strict")
		}
		if len(g.imp) < len(c.Ops) {
			ctx.Count("in.dropped")
		}
		seenP := map[string]bool{}
		for _, e := range c.Ops {
			ctx.Count("in." + e.Kind)
			k := cleanName(e.Name)
			if isLandmarkKey(k) {
				ctx.Count("in.landmark")
			}
			if k == "" {
				ctx.Count("in.root")
			}
			if k != "" {
				if _, ok := g.byKey[parentKey(k)]; !ok && parentKey(k) != "" {
					ctx.Count("in.implicit_parent")
				}
			}
		}
		for _, p := range c.Prio {
			k := cleanName(p)
			switch {
			case strings.HasPrefix(p, "../") || strings.Contains(p, "/../"):
				ctx.Count("prio.dotdot")
			case strings.HasPrefix(p, "./"):
				ctx.Count("prio.dotslash")
			case strings.HasPrefix(p, "/"):
				ctx.Count("prio.abs")
			}
			if k == "" {
				ctx.Count("prio.root")
			}
			if seenP[k] {
				ctx.Count("prio.dup")
			}
			seenP[k] = true
			cl := g.closure(k)
			if cl.absent {
				ctx.Count("prio.missing")
			}
			if cl.cyclic {
				ctx.Count("prio.cycle")
			}
			if cl.dangling {
				ctx.Count("prio.dangling")
			}
			if i, ok := g.byKey[k]; ok {
				ctx.Count("prio." + c.Ops[i].Kind)
				if k != "" {
					if _, ok := g.byKey[parentKey(k)]; !ok && parentKey(k) != "" {
						ctx.Count("prio.under_implicit_parent")
					}
				}
			}
		}
		nontrivial := len(c.Prio) > 0 && len(g.imp) >= 2
		id := ctx.Case(term, c, term, nontrivial)
		for _, p := range oracle(c, r) {
			ctx.Violation(id, p, map[string]any{"result": r.Class, "err": r.Err})
		}
		if c.Build != nil {
			ctx.Count("build")
			if c.Build.MinChunkSize > 0 {
				ctx.Count("build.minchunk")
			}
			if c.Build.Workers > 1 {
				ctx.Count("build.workers")
			}
			if c.Build.ChunkSize > 0 && c.Build.ChunkSize < 64 {
				ctx.Count("build.smallchunk")
			}
			for _, p := range runBuild(c, tarBytes, r) {
				ctx.Violation(id, "Build: "+p, c.Build)
			}
		}
	}
	if ctx.Replay != "" {
		var c Case
		ctx.LoadReplay(&c)
		emit(c)
		ctx.Finish()
		return
	}
	reg := func(n string, s int) Ent { return Ent{Name: n, Kind: "reg", Size: s} }
	dir := func(n string) Ent { return Ent{Name: n, Kind: "dir"} }
	lnk := func(n, t string) Ent { return Ent{Name: n, Kind: "link", Link: t} }
	corpus := []Case{
		// no list: single no-prefetch landmark first
		{Ops: []Ent{reg("foo.txt", 3), dir("bar/"), reg("bar/baz.txt", 3)}, Prio: []string{}, Build: &BuildCfg{Workers: 2}},
		// parents first, order given, rest in order
		{Ops: []Ent{reg("foo.txt", 3), dir("bar/"), reg("bar/baz.txt", 30), reg("bar/bar.txt", 30), reg("bar/baa.txt", 3)}, Prio: []string{"bar/baa.txt", "/foo.txt", "./bar/baz.txt"}, Build: &BuildCfg{MinChunkSize: 1000, Workers: 1}},
		// F23: prioritized file under a directory without entry (strict and allow)
		{Ops: []Ent{reg("a/b", 10), reg("c", 10)}, Prio: []string{"a/b"}},
		{Ops: []Ent{reg("a/b", 10), reg("c", 10)}, Prio: []string{"a/b"}, Allow: true, Build: &BuildCfg{ChunkSize: 4, MinChunkSize: 100, Workers: 1}},
		{Ops: []Ent{dir("x/"), reg("x/a/b", 10), reg("c", 10)}, Prio: []string{"x/a/b"}, Allow: true},
		// F8: hardlink cycles (two entries, self, through a descendant)
		{Ops: []Ent{lnk("a", "b"), lnk("b", "a"), reg("c", 1)}, Prio: []string{"a"}},
		{Ops: []Ent{lnk("a", "a")}, Prio: []string{"c", "a"}, Allow: true},
		{Ops: []Ent{lnk("a", "a/b"), reg("a/b", 2)}, Prio: []string{"a/b"}},
		// hardlink and target, target listed later; link to a parent directory is not a cycle
		{Ops: []Ent{dir("d/"), reg("d/t", 50), dir("e/"), lnk("e/l", "d/t"), lnk("d/p", "d"), reg("z", 5)}, Prio: []string{"e/l", "d/t", "d/p"}, Build: &BuildCfg{ChunkSize: 7, Workers: 3}},
		// missing: strict aborts, allow reports; dangling hardlink
		{Ops: []Ent{reg("a", 1)}, Prio: []string{"a", "nope"}},
		{Ops: []Ent{reg("a", 1)}, Prio: []string{"nope", "a", "../nope2"}, Allow: true},
		{Ops: []Ent{dir("d"), lnk("d/l", "gone"), reg("a", 1)}, Prio: []string{"d/l", "a"}, Allow: true},
		// root, landmarks in the input, repeated names
		{Ops: []Ent{dir("./"), reg("./a", 1), reg(estargz.PrefetchLandmark, 1), reg("./"+estargz.NoPrefetchLandmark, 1), reg("a", 4), reg("b", 2)}, Prio: []string{"/", "a", "a", estargz.PrefetchLandmark}, Allow: true, Build: &BuildCfg{MinChunkSize: 50, Workers: 1}},
		{Ops: []Ent{dir("./"), reg("b", 2)}, Prio: []string{"b"}},
	}
	for _, c := range corpus {
		emit(c)
	}
	rng := hx.NewRng(ctx.Seed)
	for i := len(corpus); i < ctx.N; i++ {
		emit(gen(rng.Fork(), ctx.Count))
	}
	ctx.Finish()
}
