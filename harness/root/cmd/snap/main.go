// C08 correspondence harness: random histories of snapshotter API calls with scripted backend
// failures against the real snapshot.NewSnapshotter; prints per case the ops and the observed outputs
// as a Coq term of type Model.Snap.case; evaluates the C08 clauses on the observations (snapx oracle).
package main

import (
	"fmt"

	"verif/harness/hx"
	"verif/harness/snapx"
)

type Case struct {
	Async bool        `json:"async"`
	Ops   []snapx.Op  `json:"ops"`
	Outs  []snapx.Out `json:"outs,omitempty"`
}

func gen(r *hx.Rng) Case {
	return Case{Async: r.Chance(1, 3), Ops: snapx.GenOps(r, r.Range(6, 28), true)}
}

func exec(c Case) ([]snapx.Out, []snapx.Problem) {
	root := snapx.TempRoot()
	m, err := snapx.Open(root, c.Async, false, false, nil)
	if err != nil {
		panic(fmt.Sprintf("NewSnapshotter on a fresh root failed: %v", err))
	}
	defer m.Destroy()
	outs := make([]snapx.Out, 0, len(c.Ops))
	for _, o := range c.Ops {
		outs = append(outs, m.Do(o))
	}
	return outs, m.Problems
}

func coqCase(c Case, outs []snapx.Out) string {
	ops := make([]string, len(c.Ops))
	for i, o := range c.Ops {
		ops[i] = o.Coq()
	}
	os := make([]string, len(outs))
	for i, o := range outs {
		os[i] = o.Coq()
	}
	return fmt.Sprintf("(%s, %s, %s)", hx.CoqBool(c.Async), hx.CoqList(ops), hx.CoqList(os))
}

func main() {
	ctx := hx.Start()
	emit := func(c Case) {
		outs, problems := exec(c)
		c.Outs = outs
		kinds := map[string]bool{}
		remote, unmounts := 0, 0
		for i, o := range c.Ops {
			ctx.Count("op." + o.Op)
			kinds[o.Op] = true
			r := outs[i].R
			ctx.Count("result." + o.Op + "." + r.Class)
			if o.Op == "prepare" && o.L.T >= 0 {
				ctx.Count("op.prepare.target")
				if !o.MOK {
					ctx.Count("fault.mount")
				}
			}
			if r.Class == "mounts" && !r.Bind && len(r.Lower) >= 2 {
				ctx.Count("result.lower.multi")
			}
			for _, e := range outs[i].Ev {
				ctx.Count("event." + e.Ev)
				switch {
				case e.Ev == "mount" && e.OK:
					remote++
				case e.Ev == "unmount" && e.Live:
					unmounts++
					ctx.Count("event.unmount.live")
					if !e.OK {
						ctx.Count("fault.unmount")
					}
				case e.Ev == "check" && !e.OK:
					ctx.Count("fault.check")
				}
			}
		}
		if c.Async {
			ctx.Count("cfg.async")
		} else {
			ctx.Count("cfg.sync")
		}
		ctx.CountN("ops", len(c.Ops))
		term := coqCase(c, outs)
		id := ctx.Case(term, c, term, remote > 0 && unmounts > 0 && len(kinds) >= 4)
		for _, p := range problems {
			if p.Sig != "" {
				ctx.Count("finding." + p.Sig)
				ctx.Finding(id, p.Sig, p.What, nil)
			} else {
				ctx.Violation(id, p.What, nil)
			}
		}
	}
	if ctx.Replay != "" {
		var c Case
		ctx.LoadReplay(&c)
		emit(c)
		ctx.Finish()
		return
	}
	L := func(t int) snapx.Labels { return snapx.Labels{T: t} }
	corpus := []Case{
		// remote chain, availability failure, mounts, remove + cleanup, close
		{Ops: []snapx.Op{
			{Op: "prepare", Key: 0, Parent: -1, L: L(1), MOK: true},
			{Op: "prepare", Key: 0, Parent: 1, L: L(2), MOK: true},
			{Op: "prepare", Key: 3, Parent: 2, L: L(-1)},
			{Op: "mounts", Key: 3, CBad: []int{1}},
			{Op: "mounts", Key: 3},
			{Op: "view", Key: 4, Parent: 2, L: L(-1)},
			{Op: "remove", Key: 2},
			{Op: "remove", Key: 3},
			{Op: "remove", Key: 4},
			{Op: "remove", Key: 2, UBad: []int{2}},
			{Op: "cleanup"},
			{Op: "close"},
		}},
		// mount failure falls back; commit by hand; target already exists (left-over active with a live mount)
		{Async: true, Ops: []snapx.Op{
			{Op: "prepare", Key: 0, Parent: -1, L: L(1), MOK: false},
			{Op: "commit", Name: 1, Key: 0, L: L(-1)},
			{Op: "prepare", Key: 2, Parent: 1, L: L(1), MOK: true},
			{Op: "stat", Name: 2},
			{Op: "remove", Key: 2},
			{Op: "cleanup"},
			{Op: "cleanup"},
		}},
		// target names an active snapshot / the key itself (known finding class)
		{Ops: []snapx.Op{
			{Op: "prepare", Key: 0, Parent: -1, L: L(-1)},
			{Op: "prepare", Key: 1, Parent: -1, L: L(0), MOK: true},
			{Op: "prepare", Key: 2, Parent: -1, L: L(2), MOK: true},
			{Op: "cleanup"},
		}},
		// internal commit fails after a successful backend Mount: empty target ref (no fallback, key not
		// reusable, mount stays); Commit to such a name; labels outside the snapshot namespace and empty-valued labels
		{Ops: []snapx.Op{
			{Op: "prepare", Key: 0, Parent: -1, L: snapx.Labels{T: snapx.BadEmpty, E: 2}, MOK: true},
			{Op: "stat", Name: 0},
			{Op: "mounts", Key: 0},
			{Op: "prepare", Key: 1, Parent: -1, L: snapx.Labels{T: snapx.BadEmpty, U: 1}, MOK: true},
			{Op: "prepare", Key: 2, Parent: -1, L: snapx.Labels{T: snapx.BadEmpty}, MOK: false},
			{Op: "commit", Name: snapx.BadEmpty, Key: 2, L: L(-1)},
			{Op: "remove", Key: 0},
			{Op: "prepare", Key: 3, Parent: -1, L: snapx.Labels{T: 4, U: 1, E: 3}, MOK: true},
			{Op: "stat", Name: 4},
			{Op: "update", Name: 4, L: snapx.Labels{T: -1, R: true, U: 2, E: 1}},
			{Op: "prepare", Key: 5, Parent: 4, L: snapx.Labels{T: -1, U: 3, E: 1}},
			{Op: "cleanup"},
		}},
		// snapshots.WithParent: rebase at Commit (the parent may be younger than the child), contradicting / missing /
		// uncommitted parent; WithParent travelling into the internal commit of a remote Prepare (missing parent:
		// commit fails after the Mount; existing: the remote snapshot is rebased)
		{Ops: []snapx.Op{
			{Op: "prepare", Key: 0, Parent: -1, L: L(-1)},
			{Op: "prepare", Key: 1, Parent: -1, L: L(2), MOK: true},
			{Op: "commit", Name: 3, Key: 0, L: snapx.Labels{T: -1, W: 2 + 1}},
			{Op: "prepare", Key: 4, Parent: 3, L: L(-1)},
			{Op: "mounts", Key: 4},
			{Op: "commit", Name: 5, Key: 4, L: snapx.Labels{T: -1, W: 2 + 1}},
			{Op: "commit", Name: 5, Key: 4, L: snapx.Labels{T: -1, W: 7 + 1}},
			{Op: "prepare", Key: 6, Parent: -1, L: snapx.Labels{T: 7, W: 6 + 1}, MOK: true},
			{Op: "prepare", Key: 0, Parent: -1, L: snapx.Labels{T: 1, W: 0 + 1}, MOK: true},
			{Op: "prepare", Key: 8, Parent: -1, L: snapx.Labels{T: 9, W: 3 + 1}, MOK: true},
			{Op: "prepare", Key: 10, Parent: 9, L: L(-1)},
			{Op: "remove", Key: 3},
			{Op: "cleanup"},
		}},
		// deep remote chain (7 layers): Mounts / View / Prepare on top with the Check of one layer failing, at depth 1,
		// 4, 5, 6, 7 (counted from the nearest parent), and with none failing
		{Ops: []snapx.Op{
			{Op: "prepare", Key: 9, Parent: -1, L: L(10), MOK: true},
			{Op: "prepare", Key: 9, Parent: 10, L: L(11), MOK: true},
			{Op: "prepare", Key: 9, Parent: 11, L: L(12), MOK: true},
			{Op: "prepare", Key: 9, Parent: 12, L: L(13), MOK: true},
			{Op: "prepare", Key: 9, Parent: 13, L: L(14), MOK: true},
			{Op: "prepare", Key: 9, Parent: 14, L: L(15), MOK: true},
			{Op: "prepare", Key: 9, Parent: 15, L: L(16), MOK: true},
			{Op: "prepare", Key: 0, Parent: 16, L: L(-1), MOK: true},
			{Op: "mounts", Key: 0, CBad: []int{7}},
			{Op: "mounts", Key: 0, CBad: []int{4}},
			{Op: "mounts", Key: 0, CBad: []int{3}},
			{Op: "mounts", Key: 0, CBad: []int{2}},
			{Op: "mounts", Key: 0, CBad: []int{1}},
			{Op: "view", Key: 1, Parent: 16, L: L(-1), CBad: []int{1}},
			{Op: "prepare", Key: 2, Parent: 16, L: L(-1), MOK: true, CBad: []int{2}},
			{Op: "mounts", Key: 0},
		}},
		// cleanup before anything was ever created; errors of create
		{Ops: []snapx.Op{
			{Op: "cleanup"},
			{Op: "prepare", Key: 0, Parent: 5, L: L(-1)},
			{Op: "prepare", Key: 0, Parent: -1, L: L(-1)},
			{Op: "prepare", Key: 1, Parent: 0, L: L(-1)},
			{Op: "prepare", Key: 0, Parent: -1, L: L(-1)},
			{Op: "update", Name: 0, L: snapx.Labels{T: -1, U: 2}},
			{Op: "close"},
			{Op: "stat", Name: 0},
		}},
	}
	for _, c := range corpus {
		for i := range c.Ops {
			if c.Ops[i].Op != "prepare" && c.Ops[i].Op != "view" {
				c.Ops[i].Parent = -1
			}
			switch c.Ops[i].Op {
			case "prepare", "view", "commit", "update":
			default:
				c.Ops[i].L = snapx.NoLabels
			}
		}
		emit(c)
	}
	r := hx.NewRng(ctx.Seed)
	for i := len(corpus); i < ctx.N; i++ {
		emit(gen(r.Fork()))
	}
	ctx.Finish()
}
