// C08 correspondence harness: random histories of snapshotter API calls with scripted backend
// failures against the real snapshot.NewSnapshotter; prints per case the ops and the observed outputs
// as a Coq term of type Model.Snap.case; evaluates the C08 clauses on the observations (snapx oracle).
package main

import (
	"fmt"

	"verif/harness/hx"
	"verif/harness/snapx"
)

type Case struct {
	Async bool        `json:"async"`
	Ops   []snapx.Op  `json:"ops"`
	Outs  []snapx.Out `json:"outs,omitempty"`
}

const nnames = 8

// tracker: the generator's rough guess of what exists (heuristic only; it steers the op mix towards
// meaningful calls, it is neither the model nor the oracle).
type tracker struct {
	kind   map[int]int // name -> 0 view 1 active 2 committed
	remote map[int]bool
	nextID int
	ids    map[int]int
}

func (t *tracker) pick(r *hx.Rng, want func(k int) bool) (int, bool) {
	var c []int
	for n := 0; n < nnames; n++ {
		if k, ok := t.kind[n]; ok && want(k) {
			c = append(c, n)
		}
	}
	if len(c) == 0 {
		return 0, false
	}
	return c[r.Intn(len(c))], true
}

func (t *tracker) fresh(r *hx.Rng) int {
	var c []int
	for n := 0; n < nnames; n++ {
		if _, ok := t.kind[n]; !ok {
			c = append(c, n)
		}
	}
	if len(c) == 0 || r.Chance(1, 12) {
		return r.Intn(nnames)
	}
	return c[r.Intn(len(c))]
}

func subset(r *hx.Rng, max int, p int) []int {
	var out []int
	for i := 1; i <= max; i++ {
		if r.Chance(p, 100) {
			out = append(out, i)
		}
	}
	return out
}

func gen(r *hx.Rng) Case {
	c := Case{Async: r.Chance(1, 3)}
	t := &tracker{kind: map[int]int{}, remote: map[int]bool{}, ids: map[int]int{}}
	n := r.Range(6, 28)
	isCommitted := func(k int) bool { return k == 2 }
	labels := func() snapx.Labels {
		l := snapx.Labels{T: -1}
		if r.Chance(1, 4) {
			l.U = r.Range(1, 3)
		}
		if r.Chance(1, 40) {
			l.R = true // a caller passing the reserved remote label itself
		}
		return l
	}
	for i := 0; i < n; i++ {
		var o snapx.Op
		parent := func() int {
			if p, ok := t.pick(r, isCommitted); ok && r.Chance(4, 5) {
				return p
			}
			if r.Chance(1, 10) {
				return r.Intn(nnames) // missing or uncommitted parent
			}
			return -1
		}
		cbad := func() []int {
			if r.Chance(1, 3) {
				return subset(r, t.nextID+1, 30)
			}
			return nil
		}
		ubad := func() []int {
			if r.Chance(1, 4) {
				return subset(r, t.nextID+1, 30)
			}
			return nil
		}
		switch r.Pick(22, 12, 8, 10, 10, 14, 6, 5, 2, 3) {
		case 0: // prepare with target (remote snapshot attempt)
			o = snapx.Op{Op: "prepare", Key: t.fresh(r), Parent: parent(), L: labels(), MOK: r.Chance(3, 4), CBad: cbad()}
			for try := 0; try < 4; try++ {
				o.L.T = t.fresh(r)
				if o.L.T != o.Key {
					break
				}
			}
			if r.Chance(1, 10) {
				o.L.T = r.Intn(nnames) // existing target (committed, or even an active key)
			}
			if r.Chance(1, 40) {
				o.L.T = o.Key
			}
			t.nextID++
			if o.MOK {
				if _, ok := t.kind[o.L.T]; !ok {
					t.kind[o.L.T] = 2
					t.remote[o.L.T] = true
				} else if _, ok := t.kind[o.Key]; !ok {
					t.kind[o.Key] = 1
				}
			} else if _, ok := t.kind[o.Key]; !ok {
				t.kind[o.Key] = 1
			}
		case 1: // ordinary prepare
			o = snapx.Op{Op: "prepare", Key: t.fresh(r), Parent: parent(), L: labels(), MOK: true, CBad: cbad()}
			t.nextID++
			if _, ok := t.kind[o.Key]; !ok {
				t.kind[o.Key] = 1
			}
		case 2:
			o = snapx.Op{Op: "view", Key: t.fresh(r), Parent: parent(), L: labels(), CBad: cbad()}
			t.nextID++
			if _, ok := t.kind[o.Key]; !ok {
				t.kind[o.Key] = 0
			}
		case 3:
			k, ok := t.pick(r, func(k int) bool { return k == 1 })
			if !ok || r.Chance(1, 10) {
				k = r.Intn(nnames)
			}
			o = snapx.Op{Op: "commit", Key: k, Name: t.fresh(r), L: labels()}
			if t.kind[k] == 1 {
				if _, ex := t.kind[o.Name]; !ex {
					delete(t.kind, k)
					t.kind[o.Name] = 2
				}
			}
		case 4:
			k, ok := t.pick(r, func(k int) bool { return k != 2 })
			if !ok || r.Chance(1, 6) {
				k = r.Intn(nnames)
			}
			o = snapx.Op{Op: "mounts", Key: k, CBad: cbad()}
		case 5:
			k, ok := t.pick(r, func(k int) bool { return true })
			if !ok || r.Chance(1, 10) {
				k = r.Intn(nnames)
			}
			o = snapx.Op{Op: "remove", Key: k, UBad: ubad()}
			delete(t.kind, k) // may in fact be refused (children); the tracker is only a guess
		case 6:
			o = snapx.Op{Op: "cleanup", UBad: ubad()}
		case 7:
			k, ok := t.pick(r, func(k int) bool { return true })
			if !ok || r.Chance(1, 6) {
				k = r.Intn(nnames)
			}
			o = snapx.Op{Op: "update", Name: k, L: labels()}
			if r.Chance(1, 3) {
				o.L.R = t.remote[k] // keep the remote mark
			}
		case 8:
			o = snapx.Op{Op: "stat", Name: r.Intn(nnames)}
		case 9:
			if i+4 < n && r.Chance(4, 5) {
				o = snapx.Op{Op: "stat", Name: r.Intn(nnames)}
			} else {
				o = snapx.Op{Op: "close", UBad: ubad()}
			}
		}
		if o.Op != "prepare" && o.Op != "view" {
			o.Parent = -1
		}
		if o.Op != "prepare" && o.Op != "view" && o.Op != "commit" && o.Op != "update" {
			o.L = snapx.NoLabels
		}
		c.Ops = append(c.Ops, o)
	}
	return c
}

func exec(c Case) ([]snapx.Out, []snapx.Problem) {
	root := snapx.TempRoot()
	m, err := snapx.Open(root, c.Async, false, false, nil)
	if err != nil {
		panic(fmt.Sprintf("NewSnapshotter on a fresh root failed: %v", err))
	}
	defer m.Destroy()
	outs := make([]snapx.Out, 0, len(c.Ops))
	for _, o := range c.Ops {
		outs = append(outs, m.Do(o))
	}
	return outs, m.Problems
}

func coqCase(c Case, outs []snapx.Out) string {
	ops := make([]string, len(c.Ops))
	for i, o := range c.Ops {
		ops[i] = o.Coq()
	}
	os := make([]string, len(outs))
	for i, o := range outs {
		os[i] = o.Coq()
	}
	return fmt.Sprintf("(%s, %s, %s)", hx.CoqBool(c.Async), hx.CoqList(ops), hx.CoqList(os))
}

func main() {
	ctx := hx.Start()
	emit := func(c Case) {
		outs, problems := exec(c)
		c.Outs = outs
		kinds := map[string]bool{}
		remote, unmounts := 0, 0
		for i, o := range c.Ops {
			ctx.Count("op." + o.Op)
			kinds[o.Op] = true
			r := outs[i].R
			ctx.Count("result." + o.Op + "." + r.Class)
			if o.Op == "prepare" && o.L.T >= 0 {
				ctx.Count("op.prepare.target")
				if !o.MOK {
					ctx.Count("fault.mount")
				}
			}
			if r.Class == "mounts" && !r.Bind && len(r.Lower) >= 2 {
				ctx.Count("result.lower.multi")
			}
			for _, e := range outs[i].Ev {
				ctx.Count("event." + e.Ev)
				switch {
				case e.Ev == "mount" && e.OK:
					remote++
				case e.Ev == "unmount" && e.Live:
					unmounts++
					ctx.Count("event.unmount.live")
					if !e.OK {
						ctx.Count("fault.unmount")
					}
				case e.Ev == "check" && !e.OK:
					ctx.Count("fault.check")
				}
			}
		}
		if c.Async {
			ctx.Count("cfg.async")
		} else {
			ctx.Count("cfg.sync")
		}
		ctx.CountN("ops", len(c.Ops))
		term := coqCase(c, outs)
		id := ctx.Case(term, c, term, remote > 0 && unmounts > 0 && len(kinds) >= 4)
		for _, p := range problems {
			if p.Sig != "" {
				ctx.Count("finding." + p.Sig)
				ctx.Finding(id, p.Sig, p.What, nil)
			} else {
				ctx.Violation(id, p.What, nil)
			}
		}
	}
	if ctx.Replay != "" {
		var c Case
		ctx.LoadReplay(&c)
		emit(c)
		ctx.Finish()
		return
	}
	L := func(t int) snapx.Labels { return snapx.Labels{T: t} }
	corpus := []Case{
		// remote chain, availability failure, mounts, remove + cleanup, close
		{Ops: []snapx.Op{
			{Op: "prepare", Key: 0, Parent: -1, L: L(1), MOK: true},
			{Op: "prepare", Key: 0, Parent: 1, L: L(2), MOK: true},
			{Op: "prepare", Key: 3, Parent: 2, L: L(-1)},
			{Op: "mounts", Key: 3, CBad: []int{1}},
			{Op: "mounts", Key: 3},
			{Op: "view", Key: 4, Parent: 2, L: L(-1)},
			{Op: "remove", Key: 2},
			{Op: "remove", Key: 3},
			{Op: "remove", Key: 4},
			{Op: "remove", Key: 2, UBad: []int{2}},
			{Op: "cleanup"},
			{Op: "close"},
		}},
		// mount failure falls back; commit by hand; target already exists (left-over active with a live mount)
		{Async: true, Ops: []snapx.Op{
			{Op: "prepare", Key: 0, Parent: -1, L: L(1), MOK: false},
			{Op: "commit", Name: 1, Key: 0, L: L(-1)},
			{Op: "prepare", Key: 2, Parent: 1, L: L(1), MOK: true},
			{Op: "stat", Name: 2},
			{Op: "remove", Key: 2},
			{Op: "cleanup"},
			{Op: "cleanup"},
		}},
		// target names an active snapshot / the key itself (known finding class)
		{Ops: []snapx.Op{
			{Op: "prepare", Key: 0, Parent: -1, L: L(-1)},
			{Op: "prepare", Key: 1, Parent: -1, L: L(0), MOK: true},
			{Op: "prepare", Key: 2, Parent: -1, L: L(2), MOK: true},
			{Op: "cleanup"},
		}},
		// cleanup before anything was ever created; errors of create
		{Ops: []snapx.Op{
			{Op: "cleanup"},
			{Op: "prepare", Key: 0, Parent: 5, L: L(-1)},
			{Op: "prepare", Key: 0, Parent: -1, L: L(-1)},
			{Op: "prepare", Key: 1, Parent: 0, L: L(-1)},
			{Op: "prepare", Key: 0, Parent: -1, L: L(-1)},
			{Op: "update", Name: 0, L: snapx.Labels{T: -1, U: 2}},
			{Op: "close"},
			{Op: "stat", Name: 0},
		}},
	}
	for _, c := range corpus {
		for i := range c.Ops {
			if c.Ops[i].Op != "prepare" && c.Ops[i].Op != "view" {
				c.Ops[i].Parent = -1
			}
			switch c.Ops[i].Op {
			case "prepare", "view", "commit", "update":
			default:
				c.Ops[i].L = snapx.NoLabels
			}
		}
		emit(c)
	}
	r := hx.NewRng(ctx.Seed)
	for i := len(corpus); i < ctx.N; i++ {
		emit(gen(r.Fork()))
	}
	ctx.Finish()
}
