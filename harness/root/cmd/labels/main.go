// C20 correspondence harness (handler level): drives the real pull-side label handlers over generated manifests and the
// real readers over the produced annotation maps; see package verif/harness/c20 for the machinery.
package main

import "verif/harness/c20"

func main() {
	c20.Main(c20.ExecHandlers, append(c20.Corpus(), c20.BoundaryCorpus()...), c20.Gen)
}
