// C02 correspondence harness, memory metadata store (the harness itself is package servex).
package main

import (
	"io"

	"github.com/containerd/stargz-snapshotter/metadata"
	"github.com/containerd/stargz-snapshotter/metadata/memory"
	"verif/harness/servex"
)

func main() {
	servex.Main(servex.Store{Name: "memory", Open: func(sr *io.SectionReader, _ string, opts ...metadata.Option) (metadata.Reader, func(), error) {
		r, err := memory.NewReader(sr, opts...)
		return r, func() {}, err
	}})
}
