// C13 correspondence harness: drives the real task.BackgroundTaskManager with scripted schedules
// (prioritized begin/end pairs, silence periods ending, concurrently invoked background tasks whose bodies
// finish and react to cancellation only when the script says so), records the manager's decisions through
// the verif event hooks in the manager's own lock order, evaluates the property clauses directly on the
// implementation (model-free oracle) and prints the trace as a Coq term for the monitor of Model/Task.v.
package main

import (
	"context"
	"fmt"
	"runtime"
	"strings"
	"sync"
	"sync/atomic"
	"time"

	"github.com/containerd/stargz-snapshotter/task"
	"verif/harness/hx"
)

type Op struct {
	Op   string `json:"op"`             // invoke | prio | done | silence | finish
	I    int    `json:"i,omitempty"`    // finish: invocation
	Mode string `json:"mode,omitempty"` // invoke: manual (ignores cancellation until finished) | prompt (returns on cancellation)
	T    int    `json:"t,omitempty"`    // invoke: context timeout in microseconds (0 = one hour, never fires)
	Fast bool   `json:"fast,omitempty"` // do not wait for the manager's goroutines to settle before the next op (real races)
}

type Ev struct {
	E string `json:"e"`
	I int    `json:"i,omitempty"`
	K int    `json:"k,omitempty"`
	B bool   `json:"b,omitempty"`
}

type Case struct {
	Conc    int  `json:"conc"`
	Ops     []Op `json:"ops"`
	Trace   []Ev `json:"trace,omitempty"`
	Drained bool `json:"drained,omitempty"`
}

// waitLimit bounds every wait for a reaction of the implementation; once a wait has timed out (the
// implementation is broken: the run is a violation anyway) later waits are cut short so that the run still ends.
var waitLimit = 20 * time.Second

func timedOut() { waitLimit = 30 * time.Millisecond }

const silencePeriod = 300 * time.Microsecond

// body = one running execution of the body of an invocation
type body struct {
	inv, k int
	ctx    context.Context
	fin    chan struct{} // closed by the script: the body may return now
	once   sync.Once
	ended  chan struct{} // closed when the body has left
}

type invState struct {
	mode     string
	timeout  time.Duration
	active   int32 // executions of this invocation's body currently running
	execs    int32
	returned chan struct{}

	rmu     sync.Mutex
	results []result // what each execution returned (recorded by the fake blob read itself)
}

// result of one execution of the body (one blob.ReadAt in fs/layer backgroundFetch)
type result struct {
	n   int
	err error
}

type run struct {
	conc int
	m    *task.BackgroundTaskManager

	mu  sync.Mutex // L: the log lock; "*-pre" events keep it until the matching event is logged
	log []Ev

	gate chan struct{} // one token lets one silence period end

	tmu   sync.Mutex
	ended []time.Time // times of DonePrioritizedTask calls
	ndec  int

	bmu    sync.Mutex
	bodies map[*body]bool
	invs   []*invState
	active int32 // bodies running, all invocations

	pmu      sync.Mutex
	problems []string

	inprog, sleepers int
	sched            map[string]int // what the script managed to set up (independent of the manager's reactions)
}

func (r *run) problem(f string, a ...any) {
	r.pmu.Lock()
	r.problems = append(r.problems, fmt.Sprintf(f, a...))
	r.pmu.Unlock()
}

func (r *run) logLen() int {
	r.mu.Lock()
	n := len(r.log)
	r.mu.Unlock()
	return n
}

func (r *run) count(e string) int {
	r.mu.Lock()
	n := 0
	for _, x := range r.log {
		if x.E == e {
			n++
		}
	}
	r.mu.Unlock()
	return n
}

// sink is called from the hooks in task/task.go.
func (r *run) sink(ev string, inv int, val int64) {
	switch ev {
	case "prio-end":
		r.tmu.Lock()
		r.ended = append(r.ended, time.Now())
		r.tmu.Unlock()
		r.mu.Lock()
		r.log = append(r.log, Ev{E: ev, I: inv})
		r.mu.Unlock()
	case "dec-pre":
		// clause: the counter stays up for the silence period after the end of a prioritized task (real time,
		// model-free): the n-th decrement cannot come earlier than the n-th end + period
		r.tmu.Lock()
		n := r.ndec
		r.ndec++
		early := n >= len(r.ended) || time.Since(r.ended[n]) < silencePeriod
		r.tmu.Unlock()
		if early {
			r.problem("silence: decrement %d of the prioritized-task counter came less than the silence period (%v) after the end of the prioritized task", n, silencePeriod)
		} else {
			<-r.gate // beyond that, the silence period ends when the script says so
		}
		r.mu.Lock()
	case "prio-pre", "decide-pre", "cancel-pre":
		r.mu.Lock()
	case "prio-begin", "prio-dec", "cancel":
		r.log = append(r.log, Ev{E: ev, I: inv})
		r.mu.Unlock()
	case "decide":
		r.log = append(r.log, Ev{E: ev, I: inv, B: val == 0})
		r.mu.Unlock()
	default:
		r.mu.Lock()
		r.log = append(r.log, Ev{E: ev, I: inv})
		r.mu.Unlock()
	}
}

// readAt is a replica of the readerAtFunc closure of fs/layer (*layer).backgroundFetch: the result variables
// retN/retErr and the buffer p belong to the caller and are written by the task body, exactly as there
// (unsynchronised; what orders the accesses is InvokeBackgroundTask itself).
func (r *run) readAt(h int, st *invState, p []byte, offset int64) (retN int, retErr error) {
	r.m.InvokeBackgroundTask(func(ctx context.Context) {
		retN, retErr = r.blobReadAt(h, st, p, offset, ctx)
	}, st.timeout)
	return
}

// blobReadAt stands for l.blob.ReadAt(p, offset, remote.WithContext(ctx)): it writes into p while it runs, takes as
// long as the script wants and notices the cancellation as late as the script wants.
func (r *run) blobReadAt(h int, st *invState, p []byte, offset int64, ctx context.Context) (int, error) {
	k := int(atomic.AddInt32(&st.execs, 1)) - 1
	if a := atomic.AddInt32(&st.active, 1); a > 1 {
		r.problem("self-overlap: execution %d of invocation %d started while %d other execution(s) of it still run", k, h, a-1)
	}
	if g := atomic.AddInt32(&r.active, 1); int(g) > r.conc {
		r.problem("bound: %d bodies running at once with concurrency %d", g, r.conc)
	}
	p[0] = byte(k) // partial data arrives in the caller's buffer
	b := &body{inv: h, k: k, ctx: ctx, fin: make(chan struct{}), ended: make(chan struct{})}
	r.bmu.Lock()
	r.bodies[b] = true
	r.bmu.Unlock()
	timeoutLogged := false
	ctxDone := ctx.Done()
wait:
	for {
		select {
		case <-b.fin:
			break wait
		case <-ctxDone:
			if st.mode == "prompt" {
				break wait
			}
			ctxDone = nil // manual: keeps going although the context is done
			r.mu.Lock()
			if ctx.Err() == context.DeadlineExceeded {
				r.log = append(r.log, Ev{E: "timeout", I: h, K: k})
				timeoutLogged = true
			}
			r.mu.Unlock()
		}
	}
	r.bmu.Lock()
	delete(r.bodies, b)
	r.bmu.Unlock()
	atomic.AddInt32(&r.active, -1)
	atomic.AddInt32(&st.active, -1)
	r.mu.Lock()
	err := ctx.Err()
	if err == context.DeadlineExceeded && !timeoutLogged {
		r.log = append(r.log, Ev{E: "timeout", I: h, K: k})
	}
	r.log = append(r.log, Ev{E: "body-done", I: h, K: k, B: err != nil})
	r.mu.Unlock()
	n := 0
	if err == nil {
		for j := range p {
			p[j] = pattern(k, offset, j)
		}
		n = len(p)
	}
	st.rmu.Lock()
	for len(st.results) <= k {
		st.results = append(st.results, result{})
	}
	st.results[k] = result{n, err}
	st.rmu.Unlock()
	close(b.ended)
	return n, err
}

func pattern(k int, offset int64, j int) byte { return byte(17*k + int(offset) + j + 1) }

func (r *run) running(inv int) []*body {
	r.bmu.Lock()
	defer r.bmu.Unlock()
	var out []*body
	for b := range r.bodies {
		if inv < 0 || b.inv == inv {
			out = append(out, b)
		}
	}
	return out
}

// settle waits until the event log stops growing (goroutines of the manager have reached their next blocking point).
func (r *run) settle() {
	last, since, start := r.logLen(), time.Now(), time.Now()
	for time.Since(since) < 150*time.Microsecond && time.Since(start) < 20*time.Millisecond {
		runtime.Gosched()
		if n := r.logLen(); n != last {
			last, since = n, time.Now()
		}
	}
}

func waitFor(cond func() bool) bool {
	dl := time.Now().Add(waitLimit)
	for !cond() {
		if time.Now().After(dl) {
			timedOut()
			return false
		}
		runtime.Gosched()
	}
	return true
}

func (r *run) step(o Op) {
	switch o.Op {
	case "invoke":
		h := len(r.invs)
		if r.inprog+r.sleepers > 0 {
			r.sched["sched.invoke-while-not-quiet"]++
		}
		if len(r.running(-1)) >= r.conc {
			r.sched["sched.invoke-while-slots-busy"]++
		}
		mode := o.Mode
		if mode != "prompt" {
			mode = "manual"
		}
		timeout := time.Hour
		if o.T > 0 {
			timeout = time.Duration(o.T) * time.Microsecond
		}
		st := &invState{mode: mode, timeout: timeout, returned: make(chan struct{})}
		r.invs = append(r.invs, st)
		n0 := r.count("invoke")
		go func() {
			p, offset := make([]byte, 24), int64(100*h)
			n, err := r.readAt(h, st, p, offset)
			if a := atomic.LoadInt32(&st.active); a != 0 {
				r.problem("running-at-return: %d execution(s) of invocation %d still run when InvokeBackgroundTask returned", a, h)
			}
			// clause: the caller's result variables and buffer hold what ONE execution - the last one - produced
			st.rmu.Lock()
			last := int(atomic.LoadInt32(&st.execs)) - 1
			var want result
			if last >= 0 && last < len(st.results) {
				want = st.results[last]
			} else {
				r.problem("caller-state: invocation %d returned although its last execution %d has not returned", h, last)
			}
			st.rmu.Unlock()
			if n != want.n || err != want.err {
				r.problem("caller-state: invocation %d returned (n=%d, err=%v) but its last execution %d returned (n=%d, err=%v)", h, n, err, last, want.n, want.err)
			}
			if err == nil {
				for j := range p {
					if p[j] != pattern(last, offset, j) {
						r.problem("caller-state: buffer of invocation %d does not hold the bytes of its last execution %d at index %d", h, last, j)
						break
					}
				}
			}
			r.mu.Lock()
			r.log = append(r.log, Ev{E: "return", I: h})
			r.mu.Unlock()
			close(st.returned)
		}()
		waitFor(func() bool { return r.count("invoke") > n0 })
	case "prio":
		before := r.running(-1)
		if len(before) > 0 {
			r.sched["sched.prio-while-body-running"]++
		}
		if r.inprog+r.sleepers > 0 {
			r.sched["sched.prio-nested"]++
		}
		r.m.DoPrioritizedTask()
		r.inprog++
		// clause: a body that is running when a prioritized task begins has its context cancelled
		for _, b := range before {
			select {
			case <-b.ctx.Done():
			case <-b.ended:
			case <-time.After(waitLimit):
				timedOut()
				r.problem("not-cancelled: execution %d of invocation %d was running when a prioritized task began and its context was not cancelled", b.k, b.inv)
			}
		}
	case "done":
		if r.inprog == 0 {
			return
		}
		r.inprog--
		r.sleepers++
		r.m.DonePrioritizedTask()
	case "silence":
		if r.sleepers == 0 {
			return
		}
		r.sleepers--
		n0 := r.count("prio-dec")
		r.gate <- struct{}{}
		if !waitFor(func() bool { return r.count("prio-dec") > n0 }) {
			r.problem("harness: silence period did not end")
		}
	case "finish":
		for _, b := range r.running(o.I) {
			b.once.Do(func() { close(b.fin) })
			select {
			case <-b.ended:
			case <-time.After(waitLimit):
				timedOut()
				r.problem("harness: body did not end")
			}
		}
	}
	if !o.Fast {
		r.settle()
	}
}

// drain: all prioritized work stops, every body is allowed to finish; then every invocation must complete.
func (r *run) drain() bool {
	dl := time.Now().Add(waitLimit)
	for {
		for r.inprog > 0 {
			r.inprog--
			r.sleepers++
			r.m.DonePrioritizedTask()
		}
		for r.sleepers > 0 {
			r.sleepers--
			r.gate <- struct{}{}
		}
		for _, b := range r.running(-1) {
			b.once.Do(func() { close(b.fin) })
		}
		all := r.count("prio-dec") == r.count("prio-end")
		for _, st := range r.invs {
			select {
			case <-st.returned:
			default:
				all = false
			}
		}
		if all {
			return true
		}
		if time.Now().After(dl) {
			timedOut()
			return false
		}
		runtime.Gosched()
	}
}

// exec runs one scripted schedule against the implementation.
func exec(c Case) ([]Ev, bool, []string, map[string]int) {
	r := &run{conc: c.Conc, gate: make(chan struct{}, 1024), bodies: map[*body]bool{}, sched: map[string]int{}}
	task.VerifOnEvent(r.sink)
	r.m = task.NewBackgroundTaskManager(int64(c.Conc), silencePeriod)
	for _, o := range c.Ops {
		r.step(o)
	}
	drained := r.drain()
	if !drained {
		var stuck []string
		for h, st := range r.invs {
			select {
			case <-st.returned:
			default:
				stuck = append(stuck, fmt.Sprint(h))
			}
		}
		r.problem("liveness: invocation(s) %s did not complete within %v after all prioritized work stopped and all bodies were released", strings.Join(stuck, ","), waitLimit)
	}
	r.settle()
	task.VerifOnEvent(nil)
	r.mu.Lock()
	tr := append([]Ev{}, r.log...)
	r.mu.Unlock()
	r.traceOracle(tr)
	return tr, drained, r.problems, r.sched
}

// traceOracle evaluates the property clauses on the linearised event trace (no model involved).
func (r *run) traceOracle(tr []Ev) {
	p := 0                     // prioritized tasks in progress or in silence, in trace order
	pAtDecide := map[int]int{} // invocation -> p at its latest decision
	runningOf := map[int]int{} // invocation -> running executions
	total := 0
	for n, e := range tr {
		switch e.E {
		case "prio-begin":
			p++
		case "prio-dec":
			p--
			if p < 0 {
				r.problem("trace: counter below zero at event %d", n)
			}
		case "decide":
			pAtDecide[e.I] = p
		case "start":
			if q := pAtDecide[e.I]; q != 0 {
				r.problem("start-not-quiet: invocation %d started its body although %d prioritized task(s) were in progress or in their silence period when it took the decision under the notify lock (event %d)", e.I, q, n)
			}
			if runningOf[e.I] > 0 {
				r.problem("self-overlap(trace): invocation %d starts an execution while %d earlier one(s) still run (event %d)", e.I, runningOf[e.I], n)
			}
			runningOf[e.I]++
			total++
			if total > r.conc {
				r.problem("bound(trace): %d executions running with concurrency %d (event %d)", total, r.conc, n)
			}
		case "body-done":
			runningOf[e.I]--
			total--
		case "return":
			if runningOf[e.I] > 0 {
				r.problem("running-at-return(trace): invocation %d returned with %d execution(s) running (event %d)", e.I, runningOf[e.I], n)
			}
		}
	}
}

func coqEv(e Ev) string {
	switch e.E {
	case "invoke":
		return fmt.Sprintf("EInvoke %d", e.I)
	case "prio-begin":
		return "EPrioBegin"
	case "prio-end":
		return "EPrioEnd"
	case "prio-dec":
		return "EPrioDec"
	case "acquire":
		return fmt.Sprintf("EAcquire %d", e.I)
	case "decide":
		return fmt.Sprintf("EDecide %d %s", e.I, hx.CoqBool(e.B))
	case "start":
		return fmt.Sprintf("EStart %d", e.I)
	case "cancel":
		return fmt.Sprintf("ECancel %d", e.I)
	case "join":
		return fmt.Sprintf("EJoin %d", e.I)
	case "finish":
		return fmt.Sprintf("EFinish %d", e.I)
	case "release":
		return fmt.Sprintf("ERelease %d", e.I)
	case "body-done":
		return fmt.Sprintf("EBodyDone %d %d %s", e.I, e.K, hx.CoqBool(e.B))
	case "timeout":
		return fmt.Sprintf("ETimeout %d %d", e.I, e.K)
	case "return":
		return fmt.Sprintf("EReturn %d", e.I)
	}
	return "EUnknown_" + e.E // does not typecheck: an unknown hook event must not pass silently
}

func coqCase(c Case, tr []Ev, drained bool) string {
	evs := make([]string, len(tr))
	for i, e := range tr {
		evs[i] = coqEv(e)
	}
	return fmt.Sprintf("(%d, %s, %s)", c.Conc, hx.CoqList(evs), hx.CoqBool(drained))
}

func gen(r *hx.Rng, tier string) Case {
	c := Case{Conc: r.Pick(5, 4, 2) + 1}
	maxInv, maxOps := 4, 28
	if tier == "thorough" && r.Chance(1, 3) {
		maxInv, maxOps = 6, 60
	}
	n := r.Range(5, maxOps)
	// per-case profile: how eagerly bodies are finished, how often the script races with the manager
	finishW := []int{28, 14, 6}[r.Pick(3, 2, 1)]
	fastNum := []int{0, 1, 3}[r.Pick(2, 2, 1)] // out of 4
	ninv, inprog, sleepers := 0, 0, 0
	add := func(o Op) {
		o.Fast = r.Chance(fastNum, 4)
		c.Ops = append(c.Ops, o)
	}
	for len(c.Ops) < n {
		switch r.Pick(18, 20, 16, 16, finishW) {
		case 0:
			if ninv < maxInv {
				mode := "manual"
				if r.Chance(2, 5) {
					mode = "prompt"
				}
				o := Op{Op: "invoke", Mode: mode}
				if r.Chance(1, 5) {
					o.T = []int{50, 300, 1000, 3000}[r.Intn(4)]
				}
				add(o)
				ninv++
			}
		case 1:
			if inprog+sleepers < 3 {
				add(Op{Op: "prio"})
				inprog++
			}
		case 2:
			if inprog > 0 {
				add(Op{Op: "done"})
				inprog--
				sleepers++
			}
		case 3:
			if sleepers > 0 {
				add(Op{Op: "silence"})
				sleepers--
			}
		case 4:
			if ninv > 0 {
				add(Op{Op: "finish", I: r.Intn(ninv)})
			}
		}
	}
	return c
}

func main() {
	ctx := hx.Start()
	emit := func(c Case) {
		tr, drained, problems, sched := exec(c)
		for k, v := range sched {
			ctx.CountN(k, v)
		}
		c.Trace, c.Drained = tr, drained
		for _, o := range c.Ops {
			ctx.Count("op." + o.Op)
			if o.Op == "invoke" {
				ctx.Count("op.invoke." + o.Mode)
				if o.T > 0 {
					ctx.Count("op.invoke.timeout")
				}
			}
			if o.Fast {
				ctx.Count("op.fast")
			}
		}
		ctx.Count(fmt.Sprintf("conc.%d", c.Conc))
		ctx.CountN("events", len(tr))
		ncancel, ninv := 0, 0
		p, decided := 0, map[int]bool{}
		for _, e := range tr {
			ctx.Count("ev." + e.E)
			switch e.E {
			case "invoke":
				ninv++
			case "prio-begin":
				p++
			case "prio-dec":
				p--
			case "cancel":
				ncancel++
				ctx.Count("result.retry")
			case "decide":
				decided[e.I] = e.B
				if !e.B {
					ctx.Count("result.decide.defer")
				}
			case "start":
				if p > 0 {
					ctx.Count("result.start.in-window") // prioritized task began between decision and go
				}
			case "body-done":
				if e.B {
					ctx.Count("result.body.cancelled")
				} else {
					ctx.Count("result.body.completed")
				}
			}
		}
		term := coqCase(c, tr, drained)
		id := ctx.Case(term, c, term, ncancel > 0 && ninv >= 2)
		for _, pr := range problems {
			ctx.Violation(id, pr, nil)
		}
	}
	if ctx.Replay != "" {
		var c Case
		ctx.LoadReplay(&c)
		c.Trace = nil
		emit(c)
		ctx.Finish()
		return
	}
	corpus := []Case{
		// F14 witness: concurrency 1, the body ignores cancellation; the prioritized task ends, silence ends,
		// the retry must not start before the first execution has returned
		{Conc: 1, Ops: []Op{{Op: "invoke", Mode: "manual"}, {Op: "prio"}, {Op: "done"}, {Op: "silence"}, {Op: "finish", I: 0}, {Op: "finish", I: 0}}},
		// a waiter on the semaphore takes the slot during a prioritized task: it must decide not to start
		{Conc: 1, Ops: []Op{{Op: "invoke", Mode: "manual"}, {Op: "invoke", Mode: "manual"}, {Op: "prio"}, {Op: "finish", I: 0}, {Op: "done"}, {Op: "silence"}, {Op: "finish", I: 0}, {Op: "finish", I: 1}}},
		// invoked during a prioritized task / during the silence period: no start before the silence ends
		{Conc: 2, Ops: []Op{{Op: "prio"}, {Op: "invoke", Mode: "prompt"}, {Op: "done"}, {Op: "invoke", Mode: "manual"}, {Op: "silence"}, {Op: "finish", I: 0}, {Op: "finish", I: 1}}},
		// nested prioritized tasks, prompt bodies, three invocations on two slots
		{Conc: 2, Ops: []Op{{Op: "invoke", Mode: "prompt"}, {Op: "invoke", Mode: "prompt"}, {Op: "invoke", Mode: "manual"}, {Op: "prio"}, {Op: "prio"}, {Op: "done"}, {Op: "silence"}, {Op: "done"}, {Op: "silence"}, {Op: "finish", I: 1}, {Op: "prio"}, {Op: "finish", I: 0}}},
	}
	corpus = append(corpus,
		// the context times out while the body runs: the invoker keeps waiting; a prompt body returns and the task counts as done
		Case{Conc: 1, Ops: []Op{{Op: "invoke", Mode: "manual", T: 200}, {Op: "invoke", Mode: "prompt", T: 200}, {Op: "prio"}, {Op: "finish", I: 0}, {Op: "done"}, {Op: "silence"}, {Op: "finish", I: 0}}},
	)
	// the same schedules with the script racing against the manager's goroutines
	for _, c := range corpus[:4] {
		f := Case{Conc: c.Conc}
		for _, o := range c.Ops {
			o.Fast = true
			f.Ops = append(f.Ops, o)
		}
		corpus = append(corpus, f)
	}
	for _, c := range corpus {
		emit(c)
	}
	r := hx.NewRng(ctx.Seed)
	for i := len(corpus); i < ctx.N; i++ {
		emit(gen(r.Fork(), ctx.Tier))
	}
	ctx.Finish()
}
