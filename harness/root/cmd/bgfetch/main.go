// C13 (callers) harness: drives the REAL callers of the background task manager in fs/layer -
// (*layer).BackgroundFetch (the readerAtFunc closure whose result variables retN/retErr and buffer p are written
// from the task body, one InvokeBackgroundTask per read of the section reader, several reads concurrently from
// reader.Cache's worker group) and (*layer).Prefetch (DoPrioritizedTask / deferred DonePrioritizedTask) - on a real
// eStargz layer over a scripted remote.Blob whose ReadAt takes as long and notices cancellation as late as the
// script wants, while the script begins/ends prioritized tasks on the same manager.
//
// Model-free oracle: no two blob reads ever write the same caller buffer at once (what the race detector sees in
// the race build), at most `concurrency` reads run, a read running when a prioritized task begins gets its context
// cancelled, every DoPrioritizedTask of Prefetch is matched by its DonePrioritizedTask on every return path
// (success, error, panic), BackgroundFetch completes without error once prioritized work stops and the cache then
// serves every file. The manager's hook events are printed for the monitor of Model/Task.v (body completions are
// not observable per invocation here: they are inferred directly before the join/finish that observed them).
package main

import (
	"archive/tar"
	"bytes"
	"context"
	"fmt"
	"io"
	"runtime"
	"sync"
	"time"
	"unsafe"

	"github.com/containerd/containerd/v2/pkg/reference"
	"github.com/containerd/stargz-snapshotter/cache"
	"github.com/containerd/stargz-snapshotter/estargz"
	"github.com/containerd/stargz-snapshotter/fs/layer"
	"github.com/containerd/stargz-snapshotter/fs/reader"
	"github.com/containerd/stargz-snapshotter/fs/remote"
	"github.com/containerd/stargz-snapshotter/fs/source"
	memorymetadata "github.com/containerd/stargz-snapshotter/metadata/memory"
	"github.com/containerd/stargz-snapshotter/task"
	digest "github.com/opencontainers/go-digest"
	ocispec "github.com/opencontainers/image-spec/specs-go/v1"
	"verif/harness/hx"
)

type Op struct {
	Op    string `json:"op"`              // bgfetch | prefetch | prio | done | silence | release
	N     int    `json:"n,omitempty"`     // release: how many blocked reads (0 = all)
	Fault string `json:"fault,omitempty"` // prefetch: "" | error | panic  (what blob.Cache does)
	Fast  bool   `json:"fast,omitempty"`
}

type Ev struct {
	E string `json:"e"`
	I int    `json:"i,omitempty"`
	K int    `json:"k,omitempty"`
	B bool   `json:"b,omitempty"`
}

type Case struct {
	Conc    int    `json:"conc"`
	Files   []int  `json:"files"` // sizes
	Chunk   int    `json:"chunk"`
	Seed    uint64 `json:"seed"` // decides which reads ignore cancellation
	Ops     []Op   `json:"ops"`
	Trace   []Ev   `json:"trace,omitempty"`
	Drained bool   `json:"drained,omitempty"`
}

var waitLimit = 20 * time.Second

func timedOut() { waitLimit = 30 * time.Millisecond }

const silencePeriod = 300 * time.Microsecond

// ---- the scripted blob ----

type read struct {
	idx    int
	ctx    context.Context
	fin    chan struct{}
	once   sync.Once
	ended  chan struct{}
	prompt bool
}

type fakeBlob struct {
	r    *run
	data []byte
}

func (b *fakeBlob) Check() error       { return nil }
func (b *fakeBlob) Size() int64        { return int64(len(b.data)) }
func (b *fakeBlob) FetchedSize() int64 { return 0 }
func (b *fakeBlob) Close() error       { return nil }
func (b *fakeBlob) Refresh(context.Context, source.RegistryHosts, reference.Spec, ocispec.Descriptor) error {
	return nil
}
func (b *fakeBlob) Cache(offset int64, size int64, opts ...remote.Option) error {
	switch b.r.cacheFault {
	case "error":
		return fmt.Errorf("scripted failure")
	case "panic":
		panic("scripted panic in blob.Cache")
	}
	return nil
}

// ReadAt is what the task body of backgroundFetch calls, with the caller's buffer.
func (b *fakeBlob) ReadAt(p []byte, offset int64, opts ...remote.Option) (int, error) {
	r := b.r
	ctx := remote.VerifOptionContextC13(opts...)
	if ctx == nil {
		ctx = context.Background()
	}
	if len(p) == 0 {
		return 0, nil
	}
	key := uintptr(unsafe.Pointer(&p[0]))
	r.bmu.Lock()
	idx := r.nreads
	r.nreads++
	r.bufs[key]++
	if r.bufs[key] > 1 {
		r.problem("caller-buffer: %d executions of backgroundFetch's task body write the same caller buffer at once", r.bufs[key])
	}
	r.active++
	if r.active > r.conc {
		r.problem("bound: %d background reads running at once with concurrency %d", r.active, r.conc)
	}
	rd := &read{idx: idx, ctx: ctx, fin: make(chan struct{}), ended: make(chan struct{}),
		prompt: hx.NewRng(r.seed+uint64(idx)*7919).Chance(1, 2)}
	r.reads[rd] = true
	r.bmu.Unlock()

	p[0] = 0xEE // partial data arrives in the caller's buffer while the read is in flight
	if rd.prompt {
		select {
		case <-rd.fin:
		case <-ctx.Done():
		}
	} else {
		<-rd.fin
	}
	var n int
	var err error
	if e := ctx.Err(); e != nil {
		err = e
	} else {
		n, err = bytes.NewReader(b.data).ReadAt(p, offset)
	}
	r.bmu.Lock()
	delete(r.reads, rd)
	r.bufs[key]--
	r.active--
	r.bmu.Unlock()
	close(rd.ended)
	return n, err
}

// ---- one run ----

type run struct {
	conc int
	seed uint64
	m    *task.BackgroundTaskManager

	mu     sync.Mutex // L: log lock ("*-pre" events keep it until the matching event)
	log    []Ev
	vids   map[int]int // hook invocation id -> index in log order of "invoke"
	counts map[string]int

	gate chan struct{}
	tmu  sync.Mutex
	ends []time.Time
	ndec int

	bmu    sync.Mutex
	reads  map[*read]bool
	bufs   map[uintptr]int
	nreads int
	active int

	cacheFault string

	pmu      sync.Mutex
	problems []string

	inprog, sleepers int
	sched            map[string]int
	bgDone           chan error
	bgStarted        bool
}

func (r *run) problem(f string, a ...any) {
	r.pmu.Lock()
	r.problems = append(r.problems, fmt.Sprintf(f, a...))
	r.pmu.Unlock()
}

func (r *run) logLen() int {
	r.mu.Lock()
	defer r.mu.Unlock()
	return len(r.log)
}

func (r *run) count(e string) int {
	r.mu.Lock()
	defer r.mu.Unlock()
	return r.counts[e]
}

// append under r.mu; invocation ids are renumbered in log order of their "invoke" event
func (r *run) add(ev string, inv int, b bool) {
	if ev == "invoke" {
		r.vids[inv] = len(r.vids)
	}
	i := 0
	r.counts[ev]++
	switch ev {
	case "prio-begin", "prio-end", "prio-dec":
	default:
		i = r.vids[inv]
	}
	r.log = append(r.log, Ev{E: ev, I: i, B: b})
}

func (r *run) sink(ev string, inv int, val int64) {
	switch ev {
	case "prio-end":
		r.tmu.Lock()
		r.ends = append(r.ends, time.Now())
		r.tmu.Unlock()
		r.mu.Lock()
		r.add(ev, inv, false)
		r.mu.Unlock()
	case "dec-pre":
		r.tmu.Lock()
		n := r.ndec
		r.ndec++
		early := n >= len(r.ends) || time.Since(r.ends[n]) < silencePeriod
		r.tmu.Unlock()
		if early {
			r.problem("silence: decrement %d of the prioritized-task counter came less than the silence period after the end of the prioritized task", n)
		} else {
			<-r.gate
		}
		r.mu.Lock()
	case "prio-pre", "decide-pre", "cancel-pre":
		r.mu.Lock()
	case "prio-begin", "prio-dec", "cancel":
		r.add(ev, inv, false)
		r.mu.Unlock()
	case "decide":
		r.add(ev, inv, val == 0)
		r.mu.Unlock()
	default:
		r.mu.Lock()
		r.add(ev, inv, false)
		r.mu.Unlock()
	}
}

func (r *run) blocked() []*read {
	r.bmu.Lock()
	defer r.bmu.Unlock()
	out := make([]*read, 0, len(r.reads))
	for rd := range r.reads {
		out = append(out, rd)
	}
	for i := range out { // oldest first
		for j := i + 1; j < len(out); j++ {
			if out[j].idx < out[i].idx {
				out[i], out[j] = out[j], out[i]
			}
		}
	}
	return out
}

func (r *run) settle() {
	last, since, start := r.logLen(), time.Now(), time.Now()
	for time.Since(since) < 150*time.Microsecond && time.Since(start) < 20*time.Millisecond {
		runtime.Gosched()
		if n := r.logLen(); n != last {
			last, since = n, time.Now()
		}
	}
}

func waitFor(cond func() bool) bool {
	dl := time.Now().Add(waitLimit)
	for !cond() {
		if time.Now().After(dl) {
			timedOut()
			return false
		}
		runtime.Gosched()
	}
	return true
}

func (r *run) endPrio() {
	r.inprog--
	r.sleepers++
	r.m.DonePrioritizedTask()
}

func (r *run) step(o Op, l layer.Layer) {
	switch o.Op {
	case "bgfetch":
		if r.bgStarted {
			return
		}
		r.bgStarted = true
		if r.inprog+r.sleepers > 0 {
			r.sched["sched.bgfetch-while-not-quiet"]++
		}
		go func() { r.bgDone <- l.BackgroundFetch() }()
	case "prefetch":
		// pairing on every return path of the real Prefetch: success, error, panic
		b0, e0 := r.count("prio-begin"), r.count("prio-end")
		r.cacheFault = o.Fault
		r.sched["sched.prefetch."+map[string]string{"": "ok", "error": "error", "panic": "panic"}[o.Fault]]++
		func() {
			defer func() { recover() }()
			l.Prefetch(1 << 20)
		}()
		r.cacheFault = ""
		b1, e1 := r.count("prio-begin"), r.count("prio-end")
		if b1-b0 != e1-e0 {
			r.problem("pairing: Prefetch (blob.Cache fault %q) began %d prioritized task(s) and ended %d", o.Fault, b1-b0, e1-e0)
		}
		r.sleepers += e1 - e0
	case "prio":
		before := r.blocked()
		if len(before) > 0 {
			r.sched["sched.prio-while-read-running"]++
		}
		r.m.DoPrioritizedTask()
		r.inprog++
		for _, rd := range before {
			select {
			case <-rd.ctx.Done():
			case <-rd.ended:
			case <-time.After(waitLimit):
				timedOut()
				r.problem("not-cancelled: background read %d was running when a prioritized task began and its context was not cancelled", rd.idx)
			}
		}
	case "done":
		if r.inprog > 0 {
			r.endPrio()
		}
	case "silence":
		if r.sleepers == 0 {
			return
		}
		r.sleepers--
		n0 := r.count("prio-dec")
		r.gate <- struct{}{}
		if !waitFor(func() bool { return r.count("prio-dec") > n0 }) {
			r.problem("harness: silence period did not end")
		}
	case "release":
		bl := r.blocked()
		if o.N > 0 && o.N < len(bl) {
			bl = bl[:o.N]
		}
		if len(bl) > 0 {
			r.sched["sched.release"]++
		}
		for _, rd := range bl {
			rd.once.Do(func() { close(rd.fin) })
			select {
			case <-rd.ended:
			case <-time.After(waitLimit):
				timedOut()
				r.problem("harness: read did not end")
			}
		}
	}
	if !o.Fast {
		r.settle()
	}
}

func (r *run) drain() (bool, error) {
	dl := time.Now().Add(waitLimit)
	var bgErr error
	bgReturned := !r.bgStarted
	for {
		for r.inprog > 0 {
			r.endPrio()
		}
		for r.sleepers > 0 {
			r.sleepers--
			r.gate <- struct{}{}
		}
		for _, rd := range r.blocked() {
			rd.once.Do(func() { close(rd.fin) })
		}
		if !bgReturned {
			select {
			case bgErr = <-r.bgDone:
				bgReturned = true
			default:
			}
		}
		if bgReturned && r.count("prio-dec") == r.count("prio-end") {
			return true, bgErr
		}
		if time.Now().After(dl) {
			timedOut()
			return false, bgErr
		}
		runtime.Gosched()
	}
}

func content(i, size int) []byte {
	b := make([]byte, size)
	x := uint32(i*2654435761 + 12345)
	for j := range b {
		x = x*1664525 + 1013904223
		b[j] = byte(x >> 24)
	}
	return b
}

var layerCache = map[string][]byte{}

// buildLayer builds (once per layout) the eStargz blob of the case with the real builder.
func buildLayer(c Case) ([]byte, error) {
	key := fmt.Sprint(c.Files, c.Chunk)
	if d, ok := layerCache[key]; ok {
		return d, nil
	}
	d, err := buildLayer1(c)
	if err == nil {
		layerCache[key] = d
	}
	return d, err
}

func buildLayer1(c Case) ([]byte, error) {
	var tb bytes.Buffer
	tw := tar.NewWriter(&tb)
	for i, sz := range c.Files {
		if err := tw.WriteHeader(&tar.Header{Name: fmt.Sprintf("f%d", i), Typeflag: tar.TypeReg, Mode: 0o644, Size: int64(sz)}); err != nil {
			return nil, err
		}
		if _, err := tw.Write(content(i, sz)); err != nil {
			return nil, err
		}
	}
	tw.Close()
	t := tb.Bytes()
	b, err := estargz.Build(io.NewSectionReader(bytes.NewReader(t), 0, int64(len(t))), estargz.WithChunkSize(c.Chunk))
	if err != nil {
		return nil, err
	}
	defer b.Close()
	return io.ReadAll(b)
}

func exec(c Case) ([]Ev, bool, []string, map[string]int) {
	r := &run{conc: c.Conc, seed: c.Seed, gate: make(chan struct{}, 1024), vids: map[int]int{}, counts: map[string]int{}, reads: map[*read]bool{},
		bufs: map[uintptr]int{}, sched: map[string]int{}, bgDone: make(chan error, 1)}
	data, err := buildLayer(c)
	if err != nil {
		panic(err)
	}
	mr, err := memorymetadata.NewReader(io.NewSectionReader(bytes.NewReader(data), 0, int64(len(data))))
	if err != nil {
		panic(err)
	}
	mc := cache.NewMemoryCache()
	vr, err := reader.NewReader(mr, mc, digest.FromString("layer"))
	if err != nil {
		panic(err)
	}
	task.VerifOnEvent(r.sink)
	r.m = task.NewBackgroundTaskManager(int64(c.Conc), silencePeriod)
	l := layer.VerifNewLayerC13(vr, &fakeBlob{r: r, data: data}, digest.FromString("layer"), r.m)
	for _, o := range c.Ops {
		r.step(o, l)
	}
	drained, bgErr := r.drain()
	if !drained {
		r.problem("liveness: BackgroundFetch did not complete within %v after all prioritized work stopped and all reads were released", waitLimit)
	} else if r.bgStarted {
		if bgErr != nil {
			r.problem("bgfetch: BackgroundFetch failed although every read finally succeeded: %v", bgErr)
		}
		r.sched["sched.reads"] += r.nreads
	}
	r.settle()
	task.VerifOnEvent(nil)
	r.mu.Lock()
	tr := append([]Ev{}, r.log...)
	r.mu.Unlock()
	r.traceOracle(tr)
	return withBodies(tr), drained, r.problems, r.sched
}

// traceOracle: the clauses on the invoker-side trace (no model involved).
func (r *run) traceOracle(tr []Ev) {
	p, holders := 0, 0
	pAtDecide := map[int]int{}
	inflight := map[int]bool{} // invocation has a started body whose completion the invoker has not observed yet
	for n, e := range tr {
		switch e.E {
		case "prio-begin":
			p++
		case "prio-dec":
			p--
		case "decide":
			pAtDecide[e.I] = p
		case "acquire":
			holders++
			if holders > r.conc {
				r.problem("bound(trace): %d invocations hold a slot with concurrency %d (event %d)", holders, r.conc, n)
			}
		case "release":
			holders--
			if inflight[e.I] {
				r.problem("self-overlap(trace): invocation %d released its slot before the completion of its body was observed (event %d)", e.I, n)
			}
		case "start":
			if q := pAtDecide[e.I]; q != 0 {
				r.problem("start-not-quiet: invocation %d started its body although %d prioritized task(s) were in progress or in their silence period at its decision (event %d)", e.I, q, n)
			}
			if inflight[e.I] {
				r.problem("self-overlap(trace): invocation %d starts an execution before the completion of the previous one was observed (event %d)", e.I, n)
			}
			inflight[e.I] = true
		case "join", "finish":
			inflight[e.I] = false
		}
	}
	if p != 0 {
		r.problem("pairing(trace): prioritized-task counter is %d after the drain", p)
	}
}

// withBodies inserts the inferred body completions (see the package comment).
func withBodies(tr []Ev) []Ev {
	starts, cancelled := map[int]int{}, map[int]bool{}
	out := make([]Ev, 0, len(tr)+len(tr)/4)
	for _, e := range tr {
		switch e.E {
		case "start":
			starts[e.I]++
			cancelled[e.I] = false
		case "cancel":
			cancelled[e.I] = true
		case "join", "finish":
			out = append(out, Ev{E: "body-done", I: e.I, K: starts[e.I] - 1, B: cancelled[e.I]})
		}
		out = append(out, e)
	}
	return out
}

func coqEv(e Ev) string {
	switch e.E {
	case "invoke":
		return fmt.Sprintf("EInvoke %d", e.I)
	case "prio-begin":
		return "EPrioBegin"
	case "prio-end":
		return "EPrioEnd"
	case "prio-dec":
		return "EPrioDec"
	case "acquire":
		return fmt.Sprintf("EAcquire %d", e.I)
	case "decide":
		return fmt.Sprintf("EDecide %d %s", e.I, hx.CoqBool(e.B))
	case "start":
		return fmt.Sprintf("EStart %d", e.I)
	case "cancel":
		return fmt.Sprintf("ECancel %d", e.I)
	case "join":
		return fmt.Sprintf("EJoin %d", e.I)
	case "finish":
		return fmt.Sprintf("EFinish %d", e.I)
	case "release":
		return fmt.Sprintf("ERelease %d", e.I)
	case "body-done":
		return fmt.Sprintf("EBodyDone %d %d %s", e.I, e.K, hx.CoqBool(e.B))
	}
	return "EUnknown_" + e.E
}

func coqCase(c Case, tr []Ev, drained bool) string {
	evs := make([]string, len(tr))
	for i, e := range tr {
		evs[i] = coqEv(e)
	}
	return fmt.Sprintf("(%d, %s, %s)", c.Conc, hx.CoqList(evs), hx.CoqBool(drained))
}

// a few layer layouts (building a layer costs ~80 ms, so they are built once)
var layouts = []struct {
	files []int
	chunk int
}{
	{[]int{3000}, 1024}, {[]int{1500, 300}, 512}, {[]int{1024, 1024, 1024, 1}, 512}, {[]int{1}, 4096},
	{[]int{300, 3000, 1500}, 4096}, {[]int{1024, 1500}, 1024}, {[]int{3000, 3000}, 512},
}

func gen(r *hx.Rng) Case {
	c := Case{Conc: r.Pick(4, 4, 2) + 1, Seed: r.U64() % 1000000}
	lay := layouts[r.Intn(len(layouts))]
	c.Files, c.Chunk = lay.files, lay.chunk
	n := r.Range(4, 24)
	fastNum := []int{0, 1, 3}[r.Pick(2, 2, 1)]
	inprog, sleepers, bg, pf := 0, 0, false, false
	add := func(o Op) {
		o.Fast = r.Chance(fastNum, 4)
		c.Ops = append(c.Ops, o)
	}
	for len(c.Ops) < n {
		switch r.Pick(10, 6, 20, 16, 16, 32) {
		case 0:
			if !bg {
				add(Op{Op: "bgfetch"})
				bg = true
			}
		case 1:
			if !pf {
				add(Op{Op: "prefetch", Fault: []string{"", "error", "panic"}[r.Intn(3)]})
				pf = true
				sleepers++
			}
		case 2:
			if inprog+sleepers < 3 {
				add(Op{Op: "prio"})
				inprog++
			}
		case 3:
			if inprog > 0 {
				add(Op{Op: "done"})
				inprog--
				sleepers++
			}
		case 4:
			if sleepers > 0 {
				add(Op{Op: "silence"})
				sleepers--
			}
		case 5:
			if bg {
				add(Op{Op: "release", N: r.Pick(3, 1, 1)})
			}
		}
	}
	if !bg {
		c.Ops = append([]Op{{Op: "bgfetch"}}, c.Ops...)
	}
	return c
}

func main() {
	ctx := hx.Start()
	emit := func(c Case) {
		tr, drained, problems, sched := exec(c)
		for k, v := range sched {
			ctx.CountN(k, v)
		}
		c.Trace, c.Drained = tr, drained
		for _, o := range c.Ops {
			ctx.Count("op." + o.Op)
		}
		ctx.Count(fmt.Sprintf("conc.%d", c.Conc))
		ncancel, ninv := 0, 0
		for _, e := range tr {
			ctx.Count("ev." + e.E)
			switch e.E {
			case "cancel":
				ncancel++
			case "invoke":
				ninv++
			}
		}
		term := coqCase(c, tr, drained)
		id := ctx.Case(term, c, term, ncancel > 0 && ninv >= 2)
		for _, pr := range problems {
			ctx.Violation(id, pr, nil)
		}
	}
	if ctx.Replay != "" {
		var c Case
		ctx.LoadReplay(&c)
		c.Trace = nil
		emit(c)
		ctx.Finish()
		return
	}
	corpus := []Case{
		// a read that ignores cancellation is interrupted by a prioritized task and retried after the silence period
		{Conc: 1, Files: []int{3000}, Chunk: 1024, Seed: 1, Ops: []Op{{Op: "bgfetch"}, {Op: "prio"}, {Op: "done"}, {Op: "silence"}, {Op: "release"}, {Op: "release"}}},
		// Prefetch whose blob.Cache panics / fails: the prioritized count must come back, background fetch then completes
		{Conc: 2, Files: []int{1500, 300}, Chunk: 512, Seed: 2, Ops: []Op{{Op: "prefetch", Fault: "panic"}, {Op: "bgfetch"}, {Op: "silence"}, {Op: "release"}}},
		{Conc: 2, Files: []int{1500, 300}, Chunk: 512, Seed: 3, Ops: []Op{{Op: "bgfetch"}, {Op: "prefetch", Fault: "error"}, {Op: "release", N: 1}, {Op: "silence"}, {Op: "release"}}},
		{Conc: 3, Files: []int{1024, 1024, 1024, 1}, Chunk: 512, Seed: 4, Ops: []Op{{Op: "bgfetch"}, {Op: "release", N: 2}, {Op: "prio"}, {Op: "prio"}, {Op: "release"}, {Op: "done"}, {Op: "done"}, {Op: "silence"}, {Op: "prefetch"}, {Op: "silence"}}},
	}
	for _, c := range corpus {
		emit(c)
	}
	r := hx.NewRng(ctx.Seed)
	for i := len(corpus); i < ctx.N; i++ {
		emit(gen(r.Fork()))
	}
	ctx.Finish()
}
