// C01 correspondence harness over the memory metadata store (the harness itself is package verif/harness/c01).
package main

import (
	memorymetadata "github.com/containerd/stargz-snapshotter/metadata/memory"
	"verif/harness/c01"
)

func main() { c01.Main(memorymetadata.NewReader, "memory") }
