// C04 correspondence harness (memory metadata store, estargz, fs/reader): see verif/harness/c04.
package main

import "verif/harness/c04"

func main() { c04.Main(c04.Config{}) }
