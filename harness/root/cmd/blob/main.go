// C06 object-level correspondence harness: drives remote.Resolver.Resolve(...) -> Blob.ReadAt / Cache /
// FetchedSize / Check / Refresh of fs/remote against an in-memory http.RoundTripper whose answers follow a
// scripted list of server personalities (multipart, single range, squashed super-range, whole body, extra or
// duplicated parts, truncated bodies, broken multipart streams, 403 + redirect refresh, 400 -> single-range
// mode, 5xx, transport errors, malformed headers), with the real memory / directory chunk cache.
// Per case it prints the ops, the replies the server actually gave and the observed outputs as a Coq term of
// type Model.BlobRead.case. The model-free oracle checks the property's clauses directly on the observations.
package main

import (
	"bytes"
	"context"
	"encoding/json"
	"fmt"
	"io"
	"mime/multipart"
	"net/http"
	"net/textproto"
	"os"
	"runtime"
	"runtime/debug"
	"sort"
	"strconv"
	"strings"
	"sync"
	"time"

	"github.com/containerd/containerd/v2/core/remotes/docker"
	"github.com/containerd/containerd/v2/pkg/reference"
	"github.com/containerd/stargz-snapshotter/cache"
	"github.com/containerd/stargz-snapshotter/fs/config"
	"github.com/containerd/stargz-snapshotter/fs/remote"
	"github.com/containerd/stargz-snapshotter/fs/source"
	digest "github.com/opencontainers/go-digest"
	ocispec "github.com/opencontainers/image-spec/specs-go/v1"
	"verif/harness/hx"
)

// Pers is one scripted answer of the server (consumed by the next HTTP request of the op).
type Pers struct {
	K string `json:"k"`
	A int    `json:"a,omitempty"`
}

type Op struct {
	Op     string `json:"op"` // read | cache | evict | check | refresh | expire
	Off    int64  `json:"off,omitempty"`
	N      int64  `json:"n,omitempty"`
	B      int64  `json:"b,omitempty"`
	E      int64  `json:"e,omitempty"`
	Script []Pers `json:"script,omitempty"`
	// cache: interleaving of the pieces' sub-steps, [piece, phase] with phase 0 = cache walk, 1 = fetchRange.
	// Empty = pieces one after the other.
	Sched [][2]int `json:"sched,omitempty"`
	// parkread: a read started in its own goroutine and parked between its first cache.Get (a hit) and the copy
	// out of the cached chunk, while the next Hold ops run; then it resumes. Reported after those ops.
	Hold int `json:"hold,omitempty"`
	// read / cache / parkread: cache options passed with the call: "", "direct", "pass", "both"
	Opt string `json:"opt,omitempty"`
}

type Case struct {
	Size  int    `json:"size"`
	CS    int64  `json:"cs"`
	PCS   int64  `json:"pcs"`
	Force bool   `json:"force,omitempty"`
	Cache string `json:"cache"` // mem | dir
	// the blob is served by a custom remote.Handler (remoteFetcher path) instead of the HTTP fetcher
	Handler bool `json:"handler,omitempty"`
	Ops     []Op `json:"ops,omitempty"`
	// concurrent part (oracle only): one op list per goroutine, run at the same time after Ops
	Conc     [][]Op `json:"conc,omitempty"`
	ConcSeed uint64 `json:"conc_seed,omitempty"`
	MissPct  int    `json:"miss_pct,omitempty"` // percentage of cache lookups answered "miss" (entry lost)
	// forced shared single-flight fetch (oracle only): see SharedSpec
	Shared *SharedSpec `json:"shared,omitempty"`
}

// SharedSpec: a leader and a follower (ReadAt or Cache) miss the same chunks; the leader's request is held in the
// transport until the follower is parked in singleflight.Do; optionally every cache lookup after that misses (the
// fetched chunks are evicted between the leader's commit and the follower's copy), so the follower refetches; the
// registry answers the requests after the first with Script.
type SharedSpec struct {
	Caller string `json:"caller"` // read | cache : what the follower calls (the leader reads)
	Off    int64  `json:"off"`
	N      int64  `json:"n"`
	Evict  bool   `json:"evict,omitempty"`
	Script []Pers `json:"script,omitempty"` // answers to the requests after the leader's (the follower's refetch)
	Fails  bool   `json:"fails,omitempty"`  // the refetch is scripted to fail: the follower must report an error
}

func blobBytes(size int) []byte {
	b := make([]byte, size)
	for i := range b {
		b[i] = byte((i*131+17)%251 + 1)
	}
	return b
}

// ---------------------------------------------------------------------------------------------
// scripted registry

type reg struct{ b, e int64 }

type server struct {
	blob     []byte
	cs       int64
	validTok int
	phase    string
	script   []Pers
	served   []string // Coq resp terms of the current op
	reqs     []string // Coq req terms of the current op
	kinds    []string // personalities actually applied (for the distribution)
	rangeErr bool     // a Range header the server could not parse (never expected)

	// forced shared fetch: the next data request signals inFlight and waits for release
	holdArmed bool
	inFlight  chan struct{}
	release   chan struct{}

	// concurrent mode: requests are serialised by mu, personalities are drawn from rng
	conc  bool
	calm  bool // only well-behaved answers (closing read)
	mu    sync.Mutex
	rng   *hx.Rng
	nreq  int
	inflt int
	maxIn int
}

var concKinds = []string{"multi", "mpalways", "perm", "squash", "whole", "extra", "over", "first", "dup", "dupextra",
	"trunc", "broken", "500", "403", "400", "conn"}
var concWeights = []int{40, 10, 10, 8, 4, 6, 4, 3, 2, 2, 4, 3, 3, 3, 2, 1}

func (s *server) next() Pers {
	if s.conc {
		if s.calm {
			return Pers{K: "multi"}
		}
		return Pers{K: concKinds[s.rng.Pick(concWeights...)], A: s.rng.Intn(4)}
	}
	if len(s.script) == 0 {
		return Pers{K: "default"}
	}
	p := s.script[0]
	s.script = s.script[1:]
	return p
}

func coqReg(r reg) string { return fmt.Sprintf("(%s, %s)", hx.CoqZ(r.b), hx.CoqZ(r.e)) }

func coqRegs(rs []reg) string {
	x := make([]string, len(rs))
	for i, r := range rs {
		x[i] = coqReg(r)
	}
	return hx.CoqList(x)
}

func resp(code int, h http.Header, body []byte, req *http.Request) *http.Response {
	if h == nil {
		h = http.Header{}
	}
	return &http.Response{
		StatusCode: code,
		Status:     fmt.Sprintf("%d %s", code, http.StatusText(code)),
		Header:     h,
		Body:       io.NopCloser(bytes.NewReader(body)),
		Request:    req,
		Proto:      "HTTP/1.1", ProtoMajor: 1, ProtoMinor: 1,
	}
}

type part struct {
	r      reg
	data   []byte
	rawCR  string // when set, used as the Content-Range value instead of the honest one
	broken bool
}

func (s *server) slice(r reg) []byte {
	b, e := r.b, r.e+1
	if b < 0 {
		b = 0
	}
	if e > int64(len(s.blob)) {
		e = int64(len(s.blob))
	}
	if b >= e {
		return nil
	}
	return append([]byte{}, s.blob[b:e]...)
}

func (s *server) honest(r reg) part { return part{r: r, data: s.slice(r)} }

const boundary = "verifboundary"

func (s *server) multipartBody(parts []part, cutAfter int) []byte {
	var buf bytes.Buffer
	w := multipart.NewWriter(&buf)
	w.SetBoundary(boundary)
	for i, p := range parts {
		if cutAfter >= 0 && i == cutAfter {
			break
		}
		h := textproto.MIMEHeader{}
		h.Set("Content-Type", "application/octet-stream")
		cr := fmt.Sprintf("bytes %d-%d/%d", p.r.b, p.r.e, len(s.blob))
		if p.rawCR != "" {
			cr = p.rawCR
		}
		h.Set("Content-Range", cr)
		pw, _ := w.CreatePart(h)
		pw.Write(p.data)
	}
	if cutAfter >= 0 {
		// the stream breaks inside the headers of the next part
		if buf.Len() > 0 {
			buf.WriteString("\r\n")
		}
		buf.WriteString("--" + boundary + "\r\nContent-Ra")
		return buf.Bytes()
	}
	w.Close()
	return buf.Bytes()
}

func coqParts(parts []part) string {
	x := make([]string, len(parts))
	for i, p := range parts {
		x[i] = fmt.Sprintf("(%s, %s)", coqReg(p.r), hx.CoqBytes(p.data))
	}
	return hx.CoqList(x)
}

func parseRanges(h string) ([]reg, bool) {
	if !strings.HasPrefix(h, "bytes=") {
		return nil, false
	}
	var out []reg
	for _, f := range strings.Split(strings.TrimPrefix(h, "bytes="), ",") {
		be := strings.SplitN(f, "-", 2)
		if len(be) != 2 {
			return nil, false
		}
		b, err1 := strconv.ParseInt(be[0], 10, 64)
		e, err2 := strconv.ParseInt(be[1], 10, 64)
		if err1 != nil || err2 != nil {
			return nil, false
		}
		out = append(out, reg{b, e})
	}
	return out, len(out) > 0
}

func (s *server) RoundTrip(req *http.Request) (*http.Response, error) {
	if !s.conc {
		return s.roundTrip(req)
	}
	s.mu.Lock()
	s.nreq++
	s.inflt++
	if s.inflt > s.maxIn {
		s.maxIn = s.inflt
	}
	pause := time.Duration(50+s.rng.Intn(400)) * time.Microsecond
	s.served, s.reqs, s.kinds = nil, nil, s.kinds[:0]
	r, err := s.roundTrip(req)
	s.mu.Unlock()
	time.Sleep(pause) // network latency: lets other readers join the single-flight
	s.mu.Lock()
	s.inflt--
	s.mu.Unlock()
	return r, err
}

func (s *server) roundTrip(req *http.Request) (*http.Response, error) {
	if req.URL.Host == "reg.test" {
		s.reqs = append(s.reqs, "QRedir")
		p := s.next()
		switch p.K {
		case "rfail":
			s.served = append(s.served, "RRedirFail")
			s.kinds = append(s.kinds, "redir.fail")
			return resp(500, nil, nil, req), nil
		case "rconn":
			s.served = append(s.served, "RFail")
			s.kinds = append(s.kinds, "redir.conn")
			return nil, fmt.Errorf("connection reset (scripted)")
		}
		s.served = append(s.served, "RRedirOK")
		s.kinds = append(s.kinds, "redir.ok")
		h := http.Header{}
		h.Set("Location", fmt.Sprintf("https://cdn.test/blob?tok=%d", s.validTok))
		return resp(307, h, nil, req), nil
	}
	stale := req.URL.Query().Get("tok") != strconv.Itoa(s.validTok)
	size := int64(len(s.blob))
	if req.Method == "HEAD" {
		s.reqs = append(s.reqs, "QHead")
		p := s.next()
		switch p.K {
		case "hfail":
			s.served = append(s.served, "RFail")
			return resp(405, nil, nil, req), nil
		case "hwrong":
			s.served = append(s.served, fmt.Sprintf("RSize %s", hx.CoqZ(size+1)))
			h := http.Header{}
			h.Set("Content-Length", fmt.Sprint(size+1))
			return resp(200, h, nil, req), nil
		}
		s.served = append(s.served, fmt.Sprintf("RSize %s", hx.CoqZ(size)))
		h := http.Header{}
		h.Set("Content-Length", fmt.Sprint(size))
		return resp(200, h, nil, req), nil
	}
	switch s.phase {
	case "resolve", "refresh":
		s.reqs = append(s.reqs, "QSizeGet")
		p := s.next()
		if p.K == "hfail" {
			s.served = append(s.served, "RFail")
			return resp(500, nil, nil, req), nil
		}
		s.served = append(s.served, fmt.Sprintf("RSize %s", hx.CoqZ(size)))
		h := http.Header{}
		h.Set("Content-Range", fmt.Sprintf("bytes 0-1/%d", size))
		return resp(206, h, s.slice(reg{0, 1}), req), nil
	case "check":
		s.reqs = append(s.reqs, "QCheck")
		if stale {
			s.served = append(s.served, "R403")
			s.kinds = append(s.kinds, "check.stale403")
			return resp(403, nil, nil, req), nil
		}
		p := s.next()
		switch p.K {
		case "403":
			s.served = append(s.served, "R403")
			return resp(403, nil, nil, req), nil
		case "400":
			s.served = append(s.served, "R400")
			return resp(400, nil, nil, req), nil
		case "500":
			s.served = append(s.served, "RFail")
			return resp(500, nil, nil, req), nil
		case "conn":
			s.served = append(s.served, "RFail")
			return nil, fmt.Errorf("connection reset (scripted)")
		}
		s.served = append(s.served, "RChkOK")
		h := http.Header{}
		h.Set("Content-Range", fmt.Sprintf("bytes 0-1/%d", size))
		return resp(206, h, s.slice(reg{0, 1}), req), nil
	}
	// data request
	ranges, ok := parseRanges(req.Header.Get("Range"))
	if !ok {
		s.rangeErr = true
		return resp(416, nil, nil, req), nil
	}
	s.reqs = append(s.reqs, "QData "+coqRegs(ranges))
	if s.holdArmed {
		s.holdArmed = false
		close(s.inFlight)
		<-s.release
	}
	if stale {
		s.served = append(s.served, "R403")
		s.kinds = append(s.kinds, "stale403")
		return resp(403, nil, nil, req), nil
	}
	p := s.next()
	kind := p.K
	first, last := ranges[0], ranges[len(ranges)-1]
	lo, hi := first.b, first.e
	for _, r := range ranges {
		if r.b < lo {
			lo = r.b
		}
		if r.e > hi {
			hi = r.e
		}
	}
	single := func(r reg, data []byte, cr string) (*http.Response, error) {
		h := http.Header{}
		h.Set("Content-Type", "application/octet-stream")
		if cr == "" {
			cr = fmt.Sprintf("bytes %d-%d/%d", r.b, r.e, size)
		}
		h.Set("Content-Range", cr)
		s.served = append(s.served, fmt.Sprintf("R206S %s %s", coqReg(r), hx.CoqBytes(data)))
		return resp(206, h, data, req), nil
	}
	multi := func(parts []part, cutAfter int) (*http.Response, error) {
		h := http.Header{}
		h.Set("Content-Type", "multipart/byteranges; boundary="+boundary)
		shown := parts
		endOK := true
		if cutAfter >= 0 {
			shown = parts[:cutAfter]
			endOK = false
		}
		s.served = append(s.served, fmt.Sprintf("R206M %s %s", coqParts(shown), hx.CoqBool(endOK)))
		return resp(206, h, s.multipartBody(parts, cutAfter), req), nil
	}
	fail := func(code int) (*http.Response, error) {
		s.served = append(s.served, "RFail")
		return resp(code, nil, nil, req), nil
	}
	var all []part
	for _, r := range ranges {
		all = append(all, s.honest(r))
	}
	extraReg := reg{last.e + 1, last.e + s.cs}
	if extraReg.e >= size {
		extraReg.e = size - 1
	}
	hasExtra := extraReg.b < size && (last.e+1)%s.cs == 0
	s.kinds = append(s.kinds, kind)
	switch kind {
	case "mpalways":
		return multi(all, -1)
	case "perm":
		rev := make([]part, len(all))
		for i, p := range all {
			rev[len(all)-1-i] = p
		}
		return multi(rev, -1)
	case "first":
		return single(first, s.slice(first), "")
	case "squash":
		return single(reg{lo, hi}, s.slice(reg{lo, hi}), "")
	case "whole":
		h := http.Header{}
		h.Set("Content-Length", fmt.Sprint(size))
		s.served = append(s.served, fmt.Sprintf("R200 %s %s", hx.CoqZ(size), hx.CoqBytes(s.blob)))
		return resp(200, h, s.blob, req), nil
	case "200nolen":
		s.served = append(s.served, "RFail")
		return resp(200, nil, s.blob, req), nil
	case "extra", "dupextra":
		if hasExtra {
			all = append(all, s.honest(extraReg))
			if kind == "dupextra" {
				all = append(all, s.honest(extraReg))
			}
		}
		return multi(all, -1)
	case "dup":
		all = append(all, s.honest(first))
		return multi(all, -1)
	case "over":
		r := reg{lo, hi}
		if hasExtra {
			r.e = extraReg.e
		}
		return single(r, s.slice(r), "")
	case "beyond": // Content-Range claims more than the blob has; the body carries what exists
		r := reg{lo, hi + s.cs + int64(p.A)}
		return single(r, s.slice(r), "")
	case "trunc":
		cut := 1 + p.A
		lp := &all[len(all)-1]
		if cut > len(lp.data) {
			cut = len(lp.data)
		}
		lp.data = lp.data[:len(lp.data)-cut]
		if len(all) == 1 {
			return single(all[0].r, all[0].data, "")
		}
		return multi(all, -1)
	case "broken":
		return multi(all, p.A%(len(all)+1))
	case "badcrpart":
		all[len(all)-1].rawCR = fmt.Sprintf("bytes %d-%d/*", last.b, last.e)
		return multi(all, len(all)-1) // Next() fails on the last part's Content-Range: same as a stream broken before it
	case "unaligned":
		if lo+1 > hi {
			return fail(500)
		}
		r := reg{lo + 1, hi}
		return single(r, s.slice(r), "")
	case "short":
		if hi-1 < lo {
			return fail(500)
		}
		r := reg{lo, hi - 1}
		return single(r, s.slice(r), "")
	case "403":
		s.served = append(s.served, "R403")
		return resp(403, nil, nil, req), nil
	case "400":
		s.served = append(s.served, "R400")
		return resp(400, nil, nil, req), nil
	case "500":
		return fail(500)
	case "conn":
		s.served = append(s.served, "RFail")
		return nil, fmt.Errorf("connection reset (scripted)")
	case "badct":
		h := http.Header{}
		h.Set("Content-Type", "")
		s.served = append(s.served, "RFail")
		return resp(206, h, s.slice(first), req), nil
	case "badcr":
		h := http.Header{}
		h.Set("Content-Type", "application/octet-stream")
		h.Set("Content-Range", fmt.Sprintf("bytes %d-%d/*", first.b, first.e))
		s.served = append(s.served, "RFail")
		return resp(206, h, s.slice(first), req), nil
	}
	// "multi" / default: what a compliant server does
	if len(all) == 1 {
		return single(all[0].r, all[0].data, "")
	}
	return multi(all, -1)
}

// ---------------------------------------------------------------------------------------------
// scripted remote.Handler (the remoteFetcher path)

type hnd struct{ s *server }

func (h *hnd) Handle(ctx context.Context, desc ocispec.Descriptor) (remote.Fetcher, int64, error) {
	s := h.s
	size := int64(len(s.blob))
	s.reqs = append(s.reqs, "QHandle")
	p := s.next()
	switch p.K {
	case "hfail":
		s.served = append(s.served, "RFail")
		return nil, 0, fmt.Errorf("handler refuses (scripted)")
	case "hwrong":
		s.served = append(s.served, fmt.Sprintf("RSize %s", hx.CoqZ(size+1)))
		return &hfetcher{s}, size + 1, nil
	}
	s.served = append(s.served, fmt.Sprintf("RSize %s", hx.CoqZ(size)))
	return &hfetcher{s}, size, nil
}

type hfetcher struct{ s *server }

func (f *hfetcher) Fetch(ctx context.Context, off int64, size int64) (io.ReadCloser, error) {
	s := f.s
	s.reqs = append(s.reqs, "QFetch "+coqReg(reg{off, off + size - 1}))
	p := s.next()
	s.kinds = append(s.kinds, "handler."+p.K)
	r := reg{off, off + size - 1}
	switch p.K {
	case "500", "conn", "403", "400", "badct", "badcr", "200nolen":
		s.served = append(s.served, "RFail")
		return nil, fmt.Errorf("fetch failed (scripted)")
	case "over", "extra", "beyond":
		r.e += s.cs
	}
	body := s.slice(r)
	if p.K == "trunc" || p.K == "short" {
		cut := 1 + p.A
		if cut > len(body) {
			cut = len(body)
		}
		body = body[:len(body)-cut]
	}
	s.served = append(s.served, fmt.Sprintf("RH %s %s", hx.CoqZ(off), hx.CoqBytes(body)))
	return io.NopCloser(bytes.NewReader(body)), nil
}

func (f *hfetcher) Check() error {
	s := f.s
	s.reqs = append(s.reqs, "QCheck")
	p := s.next()
	switch p.K {
	case "500", "conn", "403", "400":
		s.served = append(s.served, "RFail")
		return fmt.Errorf("check failed (scripted)")
	}
	s.served = append(s.served, "RChkOK")
	return nil
}

func (f *hfetcher) GenID(off int64, size int64) string { return fmt.Sprintf("h-%d-%d", off, size) }

func cacheOpts(opt string) []remote.Option {
	switch opt {
	case "direct":
		return []remote.Option{remote.WithCacheOpts(cache.Direct())}
	case "pass":
		return []remote.Option{remote.WithCacheOpts(cache.PassThrough())}
	case "both":
		return []remote.Option{remote.WithCacheOpts(cache.Direct(), cache.PassThrough())}
	}
	return nil
}

// ---------------------------------------------------------------------------------------------
// recording cache wrapper (oracle side: what the cache was given)

type recCache struct {
	inner  cache.BlobCache
	commit func(key string, data []byte)
	// concurrent mode: a percentage of lookups is answered "miss" (the entry was evicted by someone else)
	mu      sync.Mutex
	rng     *hx.Rng
	missPct int
	misses  int
	missAll bool       // every lookup misses (everything was evicted)
	park    *parkState // armed: the next lookup, if it hits, returns a reader that parks before its first ReadAt
}

type parkState struct {
	gate   chan struct{} // closed to resume
	parked chan struct{} // closed when the reader is parked
	once   sync.Once
}

type parkReader struct {
	cache.Reader
	ps *parkState
}

func (r *parkReader) ReadAt(p []byte, off int64) (int, error) {
	r.ps.once.Do(func() { close(r.ps.parked) })
	<-r.ps.gate
	return r.Reader.ReadAt(p, off)
}

type recWriter struct {
	cache.Writer
	c   *recCache
	key string
	buf []byte
}

func (w *recWriter) Write(p []byte) (int, error) {
	w.buf = append(w.buf, p...)
	return w.Writer.Write(p)
}
func (w *recWriter) Commit() error {
	err := w.Writer.Commit()
	if err == nil {
		w.c.commit(w.key, w.buf)
	}
	return err
}
func (c *recCache) Add(key string, opts ...cache.Option) (cache.Writer, error) {
	w, err := c.inner.Add(key, opts...)
	if err != nil {
		return nil, err
	}
	return &recWriter{Writer: w, c: c, key: key}, nil
}
func (c *recCache) Get(key string, opts ...cache.Option) (cache.Reader, error) {
	c.mu.Lock()
	all := c.missAll
	c.mu.Unlock()
	if all {
		return nil, fmt.Errorf("missed cache (scripted eviction)")
	}
	if c.missPct > 0 {
		c.mu.Lock()
		miss := c.rng.Intn(100) < c.missPct
		if miss {
			c.misses++
		}
		c.mu.Unlock()
		if miss {
			return nil, fmt.Errorf("missed cache (scripted loss)")
		}
	}
	c.mu.Lock()
	ps := c.park
	c.park = nil
	c.mu.Unlock()
	r, err := c.inner.Get(key, opts...)
	if err == nil && ps != nil {
		return &parkReader{Reader: r, ps: ps}, nil
	}
	return r, err
}
func (c *recCache) Close() error { return c.inner.Close() }

// ---------------------------------------------------------------------------------------------
// deterministic interleaving of the cacheAt pieces of one Cache() call (through the verif scheduling points)

type fanSched struct {
	mu      sync.Mutex
	cond    *sync.Cond
	steps   [][2]int
	pos     int
	off     int64
	fsz     int64 // 0 = a single piece
	inL     map[int]bool
	inF     map[int]bool
	exited  map[int]bool
	free    bool // schedule abandoned (stall): everybody runs
	stalled bool
	srv     *server
	start   map[int]int
	end     map[int]int
}

func newFanSched(srv *server, off, fsz int64, steps [][2]int) *fanSched {
	f := &fanSched{steps: steps, off: off, fsz: fsz, srv: srv, inL: map[int]bool{}, inF: map[int]bool{},
		exited: map[int]bool{}, start: map[int]int{}, end: map[int]int{}}
	f.cond = sync.NewCond(&f.mu)
	return f
}

func (f *fanSched) piece(offset int64) int {
	if f.fsz == 0 {
		return 0
	}
	return int((offset - f.off) / f.fsz)
}

// skip the fetch steps of pieces that have already returned
func (f *fanSched) skip() {
	for f.pos < len(f.steps) && f.steps[f.pos][1] == 1 && f.exited[f.steps[f.pos][0]] {
		f.pos++
	}
}

func (f *fanSched) wait(i, ph int) {
	for !f.free && !(f.pos < len(f.steps) && f.steps[f.pos] == [2]int{i, ph}) {
		f.cond.Wait()
	}
}

func (f *fanSched) hook(point string, offset int64) {
	f.mu.Lock()
	defer f.mu.Unlock()
	i := f.piece(offset)
	switch point {
	case "lookup":
		f.wait(i, 0)
		f.inL[i] = true
	case "fetch":
		if f.inL[i] {
			f.inL[i] = false
			f.pos++
			f.skip()
			f.cond.Broadcast()
		}
		f.wait(i, 1)
		f.inF[i] = true
		f.start[i] = len(f.srv.served)
	case "exit":
		if f.inL[i] || f.inF[i] {
			if f.inF[i] {
				f.end[i] = len(f.srv.served)
			}
			f.inL[i], f.inF[i] = false, false
			f.pos++
		}
		f.exited[i] = true
		f.skip()
		f.cond.Broadcast()
	}
}

func (f *fanSched) abandon() {
	f.mu.Lock()
	if f.pos < len(f.steps) {
		f.stalled = true
	}
	f.free = true
	f.cond.Broadcast()
	f.mu.Unlock()
}

// pieces of Cache(off, n) as blob.Cache cuts them (count and piece size; 0 = one piece)
func cachePieces(c Case, off, n int64) (int, int64) {
	if c.PCS <= c.CS {
		return 1, 0
	}
	fsz := c.CS * (c.PCS / c.CS)
	k := 0
	for i := off; i < off+n; i += fsz {
		k++
	}
	return k, fsz
}

func defaultSched(np int) [][2]int {
	var s [][2]int
	for i := 0; i < np; i++ {
		s = append(s, [2]int{i, 0}, [2]int{i, 1})
	}
	return s
}

// ---------------------------------------------------------------------------------------------
// execution of one case on the implementation

type OpOut struct {
	Res     string // ok | err | panic
	Data    []byte // read result
	Fetched [][2]int64
	FSize   int64
	Single  bool
	Reqs    []string
	Served  []string
	Kinds   []string
	Sched   [][2]int   // cache: schedule executed
	PerPc   [][]string // cache: replies served to each piece
}

type execResult struct {
	ops      []Op // ops in the order their effects took place (a parked read comes after the ops it was held over)
	outs     []OpOut
	problems []string
	skip     bool // could not resolve (never expected)
	// concurrent part
	concOK, concReqs, concMaxInflight, concMisses int
	concCloseErr                                  bool
	parkedReads                                   int
	sharedJoined, sharedRefetchErr                bool
}

func run(c Case) execResult {
	var res execResult
	var pmu sync.Mutex
	bad := func(f string, a ...any) {
		pmu.Lock()
		res.problems = append(res.problems, fmt.Sprintf(f, a...))
		pmu.Unlock()
	}
	blob := blobBytes(c.Size)
	size := int64(c.Size)
	srv := &server{blob: blob, cs: c.CS, phase: "resolve"}
	hosts := source.RegistryHosts(func(reference.Spec) ([]docker.RegistryHost, error) {
		return []docker.RegistryHost{{
			Client: &http.Client{Transport: srv}, Host: "reg.test", Scheme: "https", Path: "/v2",
			Capabilities: docker.HostCapabilityPull,
		}}, nil
	})
	refspec, err := reference.Parse("reg.test/verif/img:latest")
	if err != nil {
		panic(err)
	}
	desc := ocispec.Descriptor{Digest: digest.FromString("c06"), Size: size}

	var mem *cache.MemoryCache
	var inner cache.BlobCache
	var tmp string
	if c.Cache == "dir" {
		tmp, err = os.MkdirTemp("", "verif-c06-")
		if err != nil {
			panic(err)
		}
		defer os.RemoveAll(tmp)
		inner, err = cache.NewDirectoryCache(tmp+"/c", cache.DirectoryCacheConfig{MaxLRUCacheEntry: 2, MaxCacheFds: 2, SyncAdd: true})
		if err != nil {
			panic(err)
		}
	} else {
		mem = cache.NewMemoryCache().(*cache.MemoryCache)
		inner = mem
	}
	keyRegion := map[string][2]int64{}
	given := map[int64]bool{} // blob bytes the cache was ever given
	rc := &recCache{inner: inner}
	var gmu sync.Mutex
	rc.commit = func(key string, data []byte) {
		gmu.Lock()
		defer gmu.Unlock()
		r, ok := keyRegion[key]
		if !ok {
			bad("a chunk was committed to the cache under a key that is no chunk of this blob")
			return
		}
		if int64(len(data)) != r[1]-r[0]+1 || !bytes.Equal(data, blob[r[0]:r[1]+1]) {
			bad("chunk [%d,%d] was committed to the cache with bytes that are not the blob's", r[0], r[1])
		}
		for x := r[0]; x <= r[1]; x++ {
			given[x] = true
		}
	}
	var handlers map[string]remote.Handler
	if c.Handler {
		handlers = map[string]remote.Handler{"verif": &hnd{srv}}
		// no registry behind the handler: when Handle fails, the default (HTTP) resolution fails too
		hosts = source.RegistryHosts(func(reference.Spec) ([]docker.RegistryHost, error) {
			return nil, fmt.Errorf("no registry (handler mode)")
		})
	}
	resolver := remote.NewResolver(config.BlobConfig{
		ChunkSize: c.CS, PrefetchChunkSize: c.PCS, CheckAlways: true, ForceSingleRangeMode: c.Force, FetchTimeoutSec: 10,
	}, handlers)
	b, err := resolver.Resolve(context.Background(), hosts, refspec, desc, rc)
	if err != nil {
		res.skip = true
		bad("Resolve failed against a well-behaved registry: %v", err)
		return res
	}
	defer b.Close()
	if b.Size() != size {
		bad("Size() = %d, want %d", b.Size(), size)
	}
	for i := int64(0); i < size; i += c.CS {
		e := i + c.CS - 1
		if e >= size {
			e = size - 1
		}
		keyRegion[remote.VerifGenID(b, i, e)] = [2]int64{i, e}
	}
	lastFS := int64(0)
	doRead := func(o Op, out *OpOut) {
		defer func() {
			if r := recover(); r != nil {
				out.Res = "panic"
				if os.Getenv("VERIF_DEBUG") != "" {
					fmt.Fprintf(os.Stderr, "panic in read: %v\n%s\n", r, debug.Stack())
				}
			}
		}()
		p := make([]byte, o.N)
		n, err := b.ReadAt(p, o.Off, cacheOpts(o.Opt)...)
		if err != nil {
			out.Res = "err"
			return
		}
		if n < 0 || n > len(p) {
			bad("ReadAt returned n=%d for a buffer of %d", n, len(p))
			n = 0
		}
		out.Data = p[:n]
		want := int64(0)
		if o.Off <= size {
			want = size - o.Off
			if want > o.N {
				want = o.N
			}
		}
		if int64(n) != want {
			bad("ReadAt(off=%d,len=%d) on a blob of %d bytes returned n=%d, want %d", o.Off, o.N, size, n, want)
		} else if n > 0 && !bytes.Equal(p[:n], blob[o.Off:o.Off+int64(n)]) {
			bad("ReadAt(off=%d,len=%d) returned bytes that differ from blob[%d:%d]", o.Off, o.N, o.Off, o.Off+int64(n))
		}
	}
	finish := func(o Op, out OpOut) {
		if out.Res == "panic" {
			bad("%s panicked", o.Op)
		}
		out.Fetched = remote.VerifFetchedRegions(b)
		out.FSize = b.FetchedSize()
		out.Single = remote.VerifSingleRangeMode(b)
		out.Reqs, out.Served, out.Kinds = srv.reqs, srv.served, srv.kinds
		// fetched size: = number of distinct blob bytes the cache was ever given, <= size, never decreases
		gmu.Lock()
		ngiven := int64(len(given))
		gmu.Unlock()
		if out.FSize != ngiven {
			bad("FetchedSize = %d but the cache was given %d distinct blob bytes", out.FSize, ngiven)
		}
		if out.FSize > size {
			bad("FetchedSize %d exceeds the blob size %d", out.FSize, size)
		}
		if out.FSize < lastFS {
			bad("FetchedSize decreased from %d to %d", lastFS, out.FSize)
		}
		lastFS = out.FSize
		res.ops = append(res.ops, o)
		res.outs = append(res.outs, out)
	}
	// a read parked inside the cache-hit path (see Op.Hold)
	type parked struct {
		o    Op
		out  *OpOut
		ps   *parkState
		done chan struct{}
		left int
	}
	var pk *parked
	resume := func() {
		srv.script = append([]Pers{}, pk.o.Script...)
		srv.served, srv.reqs, srv.kinds = nil, nil, nil
		srv.phase = "data"
		close(pk.ps.gate)
		<-pk.done
		ro := pk.o
		ro.Op = "read"
		finish(ro, *pk.out)
		pk = nil
	}
	for _, o := range c.Ops {
		if o.Op == "expire" {
			srv.validTok++
			continue
		}
		srv.script = append([]Pers{}, o.Script...)
		srv.served, srv.reqs, srv.kinds = nil, nil, nil
		out := OpOut{Res: "ok"}
		if o.Op == "parkread" {
			if pk != nil {
				resume()
				srv.script = append([]Pers{}, o.Script...)
				srv.served, srv.reqs, srv.kinds = nil, nil, nil
			}
			srv.phase = "data"
			np := &parked{o: o, out: &OpOut{Res: "ok"}, ps: &parkState{gate: make(chan struct{}), parked: make(chan struct{})},
				done: make(chan struct{}), left: o.Hold}
			rc.mu.Lock()
			rc.park = np.ps
			rc.mu.Unlock()
			go func() {
				defer close(np.done)
				doRead(np.o, np.out)
			}()
			select {
			case <-np.ps.parked:
				res.parkedReads++
				pk = np
				if pk.left <= 0 {
					resume()
				}
			case <-np.done: // the first lookup missed (or the read needed no lookup): an ordinary read
				rc.mu.Lock()
				rc.park = nil
				rc.mu.Unlock()
				ro := o
				ro.Op = "read"
				finish(ro, *np.out)
			}
			continue
		}
		func() {
			defer func() {
				if r := recover(); r != nil {
					out.Res = "panic"
				}
			}()
			switch o.Op {
			case "read":
				srv.phase = "data"
				doRead(o, &out)
			case "cache":
				srv.phase = "data"
				np, fsz := cachePieces(c, o.Off, o.N)
				steps := o.Sched
				if len(steps) == 0 {
					steps = defaultSched(np)
				}
				fan := newFanSched(srv, o.Off, fsz, steps)
				remote.VerifSetCacheAtHook(fan.hook)
				wd := time.AfterFunc(3*time.Second, fan.abandon)
				err := b.Cache(o.Off, o.N, cacheOpts(o.Opt)...)
				wd.Stop()
				remote.VerifSetCacheAtHook(nil)
				fan.mu.Lock()
				if fan.stalled || fan.pos < len(fan.steps) {
					bad("Cache(off=%d,len=%d): the pieces did not follow the schedule %v (stopped at step %d)", o.Off, o.N, steps, fan.pos)
				}
				out.Sched = steps
				for i := 0; i < np; i++ {
					var sv []string
					if e, ok := fan.end[i]; ok {
						sv = append(sv, srv.served[fan.start[i]:e]...)
					}
					out.PerPc = append(out.PerPc, sv)
				}
				fan.mu.Unlock()
				if err != nil {
					out.Res = "err"
				}
			case "evict":
				if mem != nil {
					delete(mem.Membuf, remote.VerifGenID(b, o.B, o.E))
				}
			case "check":
				srv.phase = "check"
				if err := b.Check(); err != nil {
					out.Res = "err"
				}
			case "refresh":
				srv.phase = "refresh"
				if err := b.Refresh(context.Background(), hosts, refspec, desc); err != nil {
					out.Res = "err"
				}
			}
		}()
		finish(o, out)
		if pk != nil {
			pk.left--
			if pk.left <= 0 {
				resume()
			}
		}
	}
	if pk != nil {
		resume()
	}
	if sp := c.Shared; sp != nil {
		// ---- forced shared single-flight fetch (oracle only) ----
		srv.phase = "data"
		srv.script = nil
		srv.served, srv.reqs, srv.kinds = nil, nil, nil
		srv.inFlight, srv.release = make(chan struct{}), make(chan struct{})
		srv.holdArmed = true
		check := func(who string, p []byte, n int, err error) {
			if err != nil {
				return
			}
			want := int64(0)
			if sp.Off <= size {
				want = size - sp.Off
				if want > sp.N {
					want = sp.N
				}
			}
			if int64(n) != want {
				bad("shared fetch: %s ReadAt(off=%d,len=%d) returned n=%d, want %d", who, sp.Off, sp.N, n, want)
			} else if n > 0 && !bytes.Equal(p[:n], blob[sp.Off:sp.Off+int64(n)]) {
				bad("shared fetch: %s ReadAt(off=%d,len=%d) returned bytes that differ from blob[%d:%d]", who, sp.Off, sp.N, sp.Off, sp.Off+int64(n))
			}
		}
		guard := func(who string, f func()) {
			defer func() {
				if r := recover(); r != nil {
					bad("shared fetch: %s panicked: %v", who, r)
				}
			}()
			f()
		}
		ldone, fdone := make(chan struct{}), make(chan struct{})
		go func() {
			defer close(ldone)
			guard("leader", func() {
				p := bytes.Repeat([]byte{0xEE}, int(sp.N))
				n, err := b.ReadAt(p, sp.Off)
				check("leader", p, n, err)
			})
		}()
		var ferr error
		started := false
		select {
		case <-srv.inFlight:
			started = true
		case <-ldone: // nothing to fetch: no shared fetch in this case
		}
		if started {
			go func() {
				defer close(fdone)
				guard("follower", func() {
					if sp.Caller == "cache" {
						ferr = b.Cache(sp.Off, sp.N)
						return
					}
					p := bytes.Repeat([]byte{0xEE}, int(sp.N))
					n, err := b.ReadAt(p, sp.Off)
					ferr = err
					check("follower", p, n, err)
				})
			}()
			// wait until the follower is parked in singleflight.Group.Do on the leader's call
			deadline := time.Now().Add(5 * time.Second)
			buf := make([]byte, 1<<20)
			for !res.sharedJoined && time.Now().Before(deadline) {
				for _, g := range strings.Split(string(buf[:runtime.Stack(buf, true)]), "\n\n") {
					if strings.Contains(g, "singleflight.(*Group).Do(") && strings.Contains(g, "sync.(*WaitGroup).Wait(") {
						res.sharedJoined = true
					}
				}
				if !res.sharedJoined {
					time.Sleep(200 * time.Microsecond)
				}
			}
			if sp.Evict {
				rc.mu.Lock()
				rc.missAll = true
				rc.mu.Unlock()
			}
			// the held request of the leader is answered well; the script is for what the follower sends afterwards
			srv.script = append([]Pers{{K: "multi"}}, sp.Script...)
			close(srv.release)
			<-ldone
			<-fdone
			rc.mu.Lock()
			rc.missAll = false
			rc.mu.Unlock()
			res.sharedRefetchErr = ferr != nil
			if res.sharedJoined && sp.Evict && sp.Fails && ferr == nil {
				bad("shared fetch: the follower's %s reported success although its copy from the cache missed and its refetch failed (error swallowed)", sp.Caller)
			}
		}
		srv.holdArmed = false
		if fs := b.FetchedSize(); fs > size {
			bad("FetchedSize %d exceeds the blob size %d", fs, size)
		}
	}
	if len(c.Conc) > 0 {
		// ---- concurrent part (oracle only): readers and prefetchers at the same time, shared single-flight
		// fetches, lookups that lose entries, a registry that misbehaves at random ----
		srv.phase = "data"
		srv.rng = hx.NewRng(c.ConcSeed)
		srv.conc = true
		rc.rng = hx.NewRng(c.ConcSeed + 1)
		rc.missPct = c.MissPct
		var wg sync.WaitGroup
		stop := make(chan struct{})
		monDone := make(chan struct{})
		go func() { // FetchedSize never decreases and never exceeds the size, at any moment
			defer close(monDone)
			last := lastFS
			for {
				fs := b.FetchedSize()
				if fs < last {
					bad("FetchedSize decreased from %d to %d while readers were running", last, fs)
				}
				if fs > size {
					bad("FetchedSize %d exceeds the blob size %d while readers were running", fs, size)
				}
				last = fs
				select {
				case <-stop:
					return
				default:
					time.Sleep(20 * time.Microsecond)
				}
			}
		}()
		okReads := make([]int, len(c.Conc))
		for gi, ops := range c.Conc {
			wg.Add(1)
			go func(gi int, ops []Op) {
				defer wg.Done()
				for _, o := range ops {
					func() {
						defer func() {
							if r := recover(); r != nil {
								bad("concurrent %s panicked: %v", o.Op, r)
							}
						}()
						switch o.Op {
						case "read":
							p := make([]byte, o.N)
							n, err := b.ReadAt(p, o.Off, cacheOpts(o.Opt)...)
							if err != nil {
								return
							}
							want := int64(0)
							if o.Off <= size {
								want = size - o.Off
								if want > o.N {
									want = o.N
								}
							}
							if int64(n) != want {
								bad("concurrent ReadAt(off=%d,len=%d) on a blob of %d bytes returned n=%d, want %d", o.Off, o.N, size, n, want)
							} else if n > 0 && !bytes.Equal(p[:n], blob[o.Off:o.Off+int64(n)]) {
								bad("concurrent ReadAt(off=%d,len=%d) returned bytes that differ from blob[%d:%d]", o.Off, o.N, o.Off, o.Off+int64(n))
							} else if n > 0 {
								okReads[gi]++
							}
						case "cache":
							_ = b.Cache(o.Off, o.N, cacheOpts(o.Opt)...)
						case "expire":
							srv.mu.Lock()
							srv.validTok++
							srv.mu.Unlock()
						}
					}()
				}
			}(gi, ops)
		}
		wg.Wait()
		close(stop)
		<-monDone
		for _, n := range okReads {
			res.concOK += n
		}
		res.concReqs = srv.nreq
		res.concMaxInflight = srv.maxIn
		rc.mu.Lock()
		res.concMisses = rc.misses
		rc.missPct = 0
		rc.mu.Unlock()
		srv.mu.Lock()
		srv.calm = true
		srv.mu.Unlock()
		gmu.Lock()
		ngiven := int64(len(given))
		gmu.Unlock()
		if fs := b.FetchedSize(); fs != ngiven {
			bad("after the concurrent phase FetchedSize = %d but the cache was given %d distinct blob bytes", fs, ngiven)
		}
		// closing read of the whole blob from a now well-behaved registry (may need one URL refresh)
		func() {
			defer func() {
				if r := recover(); r != nil {
					bad("closing read panicked: %v", r)
				}
			}()
			p := make([]byte, size+1)
			n, err := b.ReadAt(p, 0)
			if err != nil {
				res.concCloseErr = true // allowed by the property ("or an error"); counted, not a violation
			} else if int64(n) != size || !bytes.Equal(p[:n], blob) {
				bad("closing read after the concurrent phase returned %d bytes that are not the blob", n)
			}
		}()
		if fs := b.FetchedSize(); fs > size {
			bad("FetchedSize %d exceeds the blob size %d", fs, size)
		}
	}
	if srv.rangeErr {
		bad("the implementation sent a Range header the test registry cannot parse")
	}
	return res
}

// ---------------------------------------------------------------------------------------------
// Coq printing

func coqOp(o Op, out OpOut) string {
	served := hx.CoqList(out.Served)
	switch o.Op {
	case "read":
		return fmt.Sprintf("ReadAt %s (repeat 0%%N %d) %s", hx.CoqZ(o.Off), o.N, served)
	case "cache":
		st := make([]string, len(out.Sched))
		for i, x := range out.Sched {
			st[i] = fmt.Sprintf("(%d%%nat, %s)", x[0], hx.CoqBool(x[1] == 1))
		}
		pp := make([]string, len(out.PerPc))
		for i, x := range out.PerPc {
			pp[i] = hx.CoqList(x)
		}
		return fmt.Sprintf("CacheOp %s %s %s %s", hx.CoqZ(o.Off), hx.CoqZ(o.N), hx.CoqList(st), hx.CoqList(pp))
	case "evict":
		return fmt.Sprintf("Evict (%s, %s)", hx.CoqZ(o.B), hx.CoqZ(o.E))
	case "check":
		return "CheckOp " + served
	case "refresh":
		return "RefreshOp " + served
	}
	panic("op")
}

func coqOut(o OpOut) string {
	r := "RErr"
	switch o.Res {
	case "ok":
		r = "ROk " + hx.CoqBytes(o.Data)
	case "panic":
		r = "RPanic"
	}
	fr := make([]reg, len(o.Fetched))
	for i, f := range o.Fetched {
		fr[i] = reg{f[0], f[1]}
	}
	return fmt.Sprintf("(%s, %s, %s, %s, %s)", r, coqRegs(fr), hx.CoqZ(o.FSize), hx.CoqBool(o.Single), hx.CoqList(o.Reqs))
}

func coqCase(c Case, ops []Op, outs []OpOut) string {
	var os, oo []string
	for i, o := range ops {
		os = append(os, coqOp(o, outs[i]))
		oo = append(oo, coqOut(outs[i]))
	}
	return fmt.Sprintf("(mkCfg %s %s %s %s %s, %s, %s)", hx.CoqZ(int64(c.Size)), hx.CoqZ(c.CS), hx.CoqZ(c.PCS), hx.CoqBool(c.Force),
		hx.CoqBool(c.Handler), hx.CoqList(os), hx.CoqList(oo))
}

// ---------------------------------------------------------------------------------------------
// generation

var dataKinds = []string{"multi", "mpalways", "perm", "first", "squash", "whole", "extra", "dupextra", "dup", "over", "beyond",
	"trunc", "broken", "badcrpart", "unaligned", "short", "403", "400", "500", "conn", "badct", "badcr", "200nolen"}
var dataWeights = []int{30, 8, 8, 5, 8, 8, 6, 3, 4, 4, 2,
	6, 4, 2, 3, 3, 7, 7, 3, 2, 1, 2, 1}

func genScript(r *hx.Rng) []Pers {
	var s []Pers
	n := r.Pick(30, 45, 20, 5)
	for i := 0; i < n; i++ {
		k := dataKinds[r.Pick(dataWeights...)]
		s = append(s, Pers{K: k, A: r.Intn(4)})
		if k == "403" {
			switch r.Pick(8, 2, 1) {
			case 0:
				s = append(s, Pers{K: "rok"})
			case 1:
				s = append(s, Pers{K: "rfail"})
			default:
				s = append(s, Pers{K: "rconn"})
			}
		}
	}
	return s
}

func gen(r *hx.Rng) Case {
	c := Case{Cache: "mem"}
	c.CS = int64(r.Pick(2, 3, 3, 4, 2, 1, 1, 2) + 1) // 1..8
	k := r.Intn(6)
	c.Size = k*int(c.CS) + r.Range(-1, 1)
	if c.Size < 0 {
		c.Size = 0
	}
	if r.Chance(1, 5) {
		c.Size = r.Intn(45)
	}
	switch r.Intn(5) {
	case 0:
		c.PCS = 0
	case 1:
		c.PCS = c.CS
	case 2:
		c.PCS = 2 * c.CS
	case 3:
		c.PCS = 3*c.CS + 1
	default:
		c.PCS = int64(r.Intn(20))
	}
	c.Force = r.Chance(1, 6)
	if r.Chance(1, 5) {
		c.Cache = "dir"
	}
	if r.Chance(1, 6) {
		c.Handler = true
		c.Force = false
	}
	size := int64(c.Size)
	nops := r.Range(2, 9)
	for i := 0; i < nops; i++ {
		var o Op
		switch r.Pick(55, 14, 12, 6, 6, 7) {
		case 0:
			o = Op{Op: "read", Script: genScript(r)}
			o.Off = int64(r.Intn(c.Size + 2))
			o.N = int64(r.Intn(3*int(c.CS) + 2))
			switch r.Intn(8) {
			case 0: // chunk-aligned read
				o.Off = int64(r.Intn(c.Size/int(c.CS)+1)) * c.CS
				o.N = int64(r.Range(1, 3)) * c.CS
			case 1: // up to / across EOF
				o.N = size - o.Off + int64(r.Range(-1, 2))
				if o.N < 0 {
					o.N = 0
				}
			case 2: // the whole blob and more
				o.Off, o.N = 0, size+int64(r.Intn(3))
			case 3:
				o.Off = size + int64(r.Intn(3))
			}
		case 1:
			o = Op{Op: "cache", Script: genScript(r)}
			o.Off = int64(r.Intn(c.Size + 2))
			o.N = int64(r.Intn(3*int(c.CS) + 2))
			if c.PCS > c.CS {
				// fanned-out Cache: up to 4 pieces, run in a random interleaving of their sub-steps
				fs := c.CS * (c.PCS / c.CS)
				if r.Chance(2, 3) {
					o.N = int64(r.Range(1, 4))*fs - int64(r.Intn(int(fs)))
				}
				if o.N > 4*fs {
					o.N = 4 * fs
				}
			}
			if r.Chance(1, 8) {
				o.Off, o.N = 0, 0
			}
			if np, _ := cachePieces(c, o.Off, o.N); np > 1 {
				next := make([]int, np) // next phase of each piece
				for left := 2 * np; left > 0; left-- {
					i := r.Intn(np)
					for next[i] > 1 {
						i = (i + 1) % np
					}
					if r.Chance(1, 3) { // bias: all walks first (every piece sees the same cache)
						for j := 0; j < np; j++ {
							if next[j] == 0 {
								i = j
								break
							}
						}
					}
					o.Sched = append(o.Sched, [2]int{i, next[i]})
					next[i]++
				}
			}
		case 2:
			if c.Cache == "dir" || c.Size == 0 {
				o = Op{Op: "read", Off: 0, N: size, Script: genScript(r)}
				break
			}
			b := int64(r.Intn((c.Size+int(c.CS)-1)/int(c.CS))) * c.CS
			e := b + c.CS - 1
			if e >= size {
				e = size - 1
			}
			o = Op{Op: "evict", B: b, E: e}
		case 3:
			o = Op{Op: "check"}
			switch r.Pick(5, 3, 1, 1, 1) {
			case 1:
				o.Script = []Pers{{K: "403"}, {K: []string{"rok", "rok", "rfail", "rconn"}[r.Intn(4)]}}
			case 2:
				o.Script = []Pers{{K: "500"}}
			case 3:
				o.Script = []Pers{{K: "conn"}}
			case 4:
				o.Script = []Pers{{K: "400"}}
			}
		case 4:
			o = Op{Op: "refresh"}
			switch r.Pick(5, 1, 1, 1, 1, 1) {
			case 1:
				o.Script = []Pers{{K: "rfail"}}
			case 2:
				o.Script = []Pers{{K: "rok"}, {K: "hwrong"}}
			case 3:
				o.Script = []Pers{{K: "rok"}, {K: "hfail"}, {K: "ok"}}
			case 4:
				o.Script = []Pers{{K: "rok"}, {K: "hfail"}, {K: "hfail"}}
			case 5:
				o.Script = []Pers{{K: "rconn"}}
			}
		default:
			o = Op{Op: "expire"}
		}
		if c.Handler && o.Op == "refresh" {
			o.Script = [][]Pers{nil, nil, {{K: "hfail"}}, {{K: "hwrong"}}}[r.Intn(4)]
		}
		if (o.Op == "read" || o.Op == "cache") && r.Chance(1, 4) {
			o.Opt = []string{"direct", "pass", "both"}[r.Intn(3)]
		}
		if o.Op == "read" && c.Cache == "dir" && r.Chance(1, 3) {
			// read it once (so that the first chunk sits in the cache's memory LRU), then read it again parked in the
			// cache-hit path while the following ops (forced to be prefetches of other ranges) churn the LRU
			c.Ops = append(c.Ops, o)
			o = Op{Op: "parkread", Off: o.Off, N: o.N, Hold: r.Range(1, 3), Script: genScript(r), Opt: o.Opt}
			c.Ops = append(c.Ops, o)
			for k := 0; k < o.Hold; k++ {
				c.Ops = append(c.Ops, Op{Op: "cache", Off: int64(r.Intn(c.Size + 1)), N: int64(r.Range(1, 4)) * c.CS})
			}
			i += o.Hold
			continue
		}
		c.Ops = append(c.Ops, o)
	}
	// closing read: everything, from a well-behaved registry
	c.Ops = append(c.Ops, Op{Op: "read", Off: 0, N: size + 1})
	return c
}

// genConc: a blob with a few "hot" ranges that several goroutines read and prefetch at the same time.
func genConc(r *hx.Rng) Case {
	c := Case{Cache: "mem"}
	c.CS = int64(r.Range(1, 6))
	c.Size = r.Range(1, 8)*int(c.CS) + r.Range(-1, 1)
	if c.Size < 1 {
		c.Size = 1
	}
	switch r.Intn(3) {
	case 0:
		c.PCS = 0
	case 1:
		c.PCS = 2 * c.CS
	default:
		c.PCS = 3*c.CS + 1
	}
	if r.Chance(1, 4) {
		c.Cache = "dir"
	}
	c.MissPct = []int{0, 10, 30, 60}[r.Intn(4)]
	c.ConcSeed = r.U64()
	size := int64(c.Size)
	type hot struct{ off, n int64 }
	hots := make([]hot, r.Range(1, 2))
	for i := range hots {
		hots[i] = hot{int64(r.Intn(c.Size)), int64(r.Range(1, 3*int(c.CS)))}
	}
	// a little sequential history first (warm part of the cache)
	if r.Chance(1, 2) {
		c.Ops = append(c.Ops, Op{Op: "read", Off: int64(r.Intn(c.Size)), N: int64(r.Range(1, int(c.CS)))})
	}
	g := r.Range(2, 7)
	for i := 0; i < g; i++ {
		var ops []Op
		for j, n := 0, r.Range(1, 4); j < n; j++ {
			h := hots[r.Intn(len(hots))]
			switch r.Pick(60, 15, 20, 5) {
			case 0:
				ops = append(ops, Op{Op: "read", Off: h.off, N: h.n})
			case 1:
				ops = append(ops, Op{Op: "read", Off: int64(r.Intn(c.Size + 2)), N: int64(r.Intn(3*int(c.CS) + 2))})
			case 2:
				ops = append(ops, Op{Op: "cache", Off: h.off, N: h.n + int64(r.Intn(2*int(c.CS)))})
			default:
				ops = append(ops, Op{Op: "expire"})
			}
		}
		c.Conc = append(c.Conc, ops)
	}
	_ = size
	return c
}

// sharedCorpus: shared single-flight fetch x eviction between the leader's commit and the follower's copy x outcome of
// the follower's refetch, for ReadAt and Cache followers.
func sharedCorpus() []Case {
	var cs []Case
	type rf struct {
		script []Pers
		fails  bool
	}
	refetch := []rf{
		{[]Pers{{K: "multi"}}, false},
		{[]Pers{{K: "conn"}}, true},
		{[]Pers{{K: "trunc"}}, true},
		{[]Pers{{K: "500"}}, true},
		{[]Pers{{K: "400"}, {K: "400"}}, true},
		{[]Pers{{K: "403"}, {K: "rfail"}}, true},
		{[]Pers{{K: "403"}, {K: "rok"}, {K: "squash"}}, false},
		{[]Pers{{K: "broken"}}, true},
	}
	for _, caller := range []string{"read", "cache"} {
		for i, r := range refetch {
			c := Case{Size: 16, CS: 4, Cache: "mem", Shared: &SharedSpec{Caller: caller, Off: 4, N: 4, Evict: true, Script: r.script, Fails: r.fails}}
			if i%2 == 1 {
				c.Size, c.Shared.Off, c.Shared.N = 18, 3, 9 // several chunks, multi-range request
				c.Ops = []Op{{Op: "read", Off: 4, N: 4}}
			}
			if i == 3 {
				c.Cache = "dir"
			}
			cs = append(cs, c)
		}
		// no eviction: the follower copies out of the cache
		cs = append(cs, Case{Size: 16, CS: 4, Cache: "mem", Shared: &SharedSpec{Caller: caller, Off: 5, N: 7}})
	}
	return cs
}

func corpus() []Case {
	rd := func(off, n int64, ks ...string) Op {
		o := Op{Op: "read", Off: off, N: n}
		for _, k := range ks {
			o.Script = append(o.Script, Pers{K: k})
		}
		return o
	}
	return []Case{
		{Size: 10, CS: 4, Cache: "mem", Ops: []Op{rd(1, 5, "multi"), rd(0, 10), rd(9, 5), rd(11, 3), rd(10, 2)}},
		{Size: 12, CS: 4, Cache: "mem", Ops: []Op{rd(0, 2), rd(9, 2), rd(0, 12, "400"), rd(0, 12)}},
		{Size: 12, CS: 4, Cache: "mem", Ops: []Op{rd(0, 2), rd(9, 2), {Op: "evict", B: 0, E: 3}, rd(0, 12, "squash")}},
		{Size: 9, CS: 2, Cache: "mem", Ops: []Op{rd(3, 3, "whole"), rd(0, 9)}},
		{Size: 9, CS: 2, Cache: "mem", Ops: []Op{{Op: "expire"}, rd(3, 3), rd(0, 3, "403", "rfail"), rd(0, 9, "403", "rok", "403")}},
		{Size: 16, CS: 4, Cache: "mem", Ops: []Op{rd(0, 4), rd(8, 4), rd(0, 16, "extra"), rd(0, 16, "dup"), rd(0, 16, "perm")}},
		{Size: 16, CS: 4, Cache: "mem", Ops: []Op{rd(4, 4, "dupextra"), rd(0, 16)}},
		{Size: 16, CS: 4, Cache: "dir", Ops: []Op{rd(1, 9, "trunc"), rd(1, 9, "broken"), rd(1, 9, "short"), rd(1, 9, "unaligned"), rd(0, 17)}},
		{Size: 16, CS: 4, PCS: 8, Cache: "mem", Ops: []Op{{Op: "cache", Off: 3, N: 6}, {Op: "cache", Off: 0, N: 0}, {Op: "check"}, {Op: "refresh"}, rd(0, 17)}},
		{Size: 0, CS: 4, Cache: "mem", Ops: []Op{rd(0, 3), {Op: "cache", Off: 0, N: 5}, rd(1, 1)}},
		// a read parked between cache.Get (memory LRU hit of the directory cache, 2 entries) and the copy, while
		// prefetches commit four other chunks (evicting the entry and recycling buffers)
		{Size: 32, CS: 4, Cache: "dir", Ops: []Op{rd(0, 4), {Op: "parkread", Off: 1, N: 3, Hold: 2},
			{Op: "cache", Off: 8, N: 8}, {Op: "cache", Off: 16, N: 8}, rd(0, 33)}},
		{Size: 32, CS: 4, Cache: "dir", Ops: []Op{{Op: "cache", Off: 4, N: 8}, {Op: "parkread", Off: 8, N: 4, Hold: 1},
			{Op: "cache", Off: 12, N: 16}, {Op: "parkread", Off: 30, N: 5, Hold: 1}, rd(0, 33)}},
		{Size: 30, CS: 4, Handler: true, Cache: "mem", Ops: []Op{rd(5, 6), rd(20, 3), rd(0, 30, "trunc"), rd(0, 30, "over"),
			rd(0, 12, "500"), {Op: "check"}, {Op: "check", Script: []Pers{{K: "500"}}}, {Op: "refresh"},
			{Op: "refresh", Script: []Pers{{K: "hfail"}}}, {Op: "refresh", Script: []Pers{{K: "hwrong"}}}, rd(0, 31)}},
		{Size: 30, CS: 4, PCS: 8, Handler: true, Cache: "dir", Ops: []Op{{Op: "cache", Off: 3, N: 20, Opt: "direct",
			Sched: [][2]int{{2, 0}, {1, 0}, {1, 1}, {0, 0}, {2, 1}, {0, 1}}}, {Op: "read", Off: 2, N: 9, Opt: "both"}, rd(0, 31)}},
		{Size: 30, CS: 4, PCS: 9, Cache: "mem", Ops: []Op{rd(9, 2), {Op: "cache", Off: 2, N: 22,
			Sched: [][2]int{{1, 0}, {0, 0}, {2, 0}, {2, 1}, {0, 1}, {1, 1}}, Script: []Pers{{K: "multi"}, {K: "500"}, {K: "whole"}}},
			{Op: "cache", Off: 2, N: 22}, rd(0, 31)}},
		{Size: 7, CS: 3, Force: true, Cache: "mem", Ops: []Op{rd(0, 1), rd(6, 1), rd(0, 7), {Op: "refresh"}, rd(0, 7)}},
		{Size: 16, CS: 4, Cache: "mem", Ops: []Op{rd(0, 2), rd(9, 2), rd(0, 16, "first"), rd(0, 16, "mpalways"),
			{Op: "evict", B: 4, E: 7}, rd(4, 8, "over"), rd(0, 17)}},
		{Size: 13, CS: 4, Cache: "mem", Ops: []Op{rd(2, 3, "500"), rd(2, 3, "conn"), rd(2, 3, "badct"), rd(2, 3, "badcr"),
			rd(2, 3, "200nolen"), rd(2, 9, "badcrpart"), rd(2, 9, "beyond"), rd(0, 14)}},
	}
}

func main() {
	ctx := hx.Start()
	emit := func(c Case) {
		res := run(c)
		if res.skip {
			id := ctx.Case("(mkCfg 0%Z 1%Z 0%Z false false, [], [])", c, "skip", false)
			for _, p := range res.problems {
				ctx.Violation(id, p, nil)
			}
			return
		}
		fetches, okReads := 0, 0
		for _, o := range c.Ops {
			if o.Op == "expire" || o.Op == "parkread" {
				ctx.Count("op." + o.Op)
			}
		}
		ctx.CountN("read.parked_in_cache_hit", res.parkedReads)
		for i, o := range res.ops {
			ctx.Count("op." + o.Op)
			out := res.outs[i]
			ctx.Count("result." + o.Op + "." + out.Res)
			for _, k := range out.Kinds {
				ctx.Count("served." + k)
			}
			for _, q := range out.Reqs {
				if strings.HasPrefix(q, "QData") {
					fetches++
				}
			}
			if o.Op == "cache" && len(out.PerPc) > 1 {
				ctx.Count("cache.fanout")
				interleaved := false
				for k := 0; k+1 < len(out.Sched); k += 2 {
					if out.Sched[k][0] != out.Sched[k+1][0] {
						interleaved = true
					}
				}
				if interleaved {
					ctx.Count("cache.fanout.interleaved")
				}
			}
			if o.Op == "read" {
				if out.Res == "ok" && len(out.Data) > 0 {
					okReads++
					if len(out.Reqs) == 0 {
						ctx.Count("read.from_cache_only")
					}
				}
				if o.Off+o.N > int64(c.Size) {
					ctx.Count("read.across_eof")
				}
			}
			if out.Single {
				ctx.Count("mode.single")
			}
		}
		ctx.Count("cache." + c.Cache)
		if c.Handler {
			ctx.Count("fetcher.handler")
		} else {
			ctx.Count("fetcher.http")
		}
		for _, o := range c.Ops {
			if o.Opt != "" {
				ctx.Count("opt." + o.Opt)
			}
		}
		ctx.CountN("ops", len(c.Ops))
		term := coqCase(c, res.ops, res.outs)
		key := term
		nontrivial := fetches > 0 && okReads > 0
		if c.Shared != nil {
			ctx.Count("shared.cases")
			if res.sharedJoined {
				ctx.Count("shared.joined")
				ctx.Count("shared.follower." + c.Shared.Caller)
				if c.Shared.Evict {
					ctx.Count("shared.evicted_before_copy")
				}
				if res.sharedRefetchErr {
					ctx.Count("shared.follower_error")
				}
			}
			b, _ := json.Marshal(c)
			key = string(b)
			nontrivial = res.sharedJoined
		}
		if len(c.Conc) > 0 {
			// the concurrent part is checked by the oracle only; the Coq term is the sequential prefix
			ctx.Count("conc.cases")
			ctx.CountN("conc.goroutines", len(c.Conc))
			ctx.CountN("conc.reads_ok", res.concOK)
			ctx.CountN("conc.requests", res.concReqs)
			ctx.CountN("conc.cache_misses_injected", res.concMisses)
			if res.concMaxInflight > 1 {
				ctx.Count("conc.overlapping_requests")
			}
			if res.concCloseErr {
				ctx.Count("conc.closing_read_error")
			}
			b, _ := json.Marshal(c)
			key = string(b)
			nontrivial = res.concOK > 0 && res.concReqs > 0
		}
		id := ctx.Case(term, c, key, nontrivial)
		sort.Strings(res.problems)
		seen := map[string]bool{}
		for _, p := range res.problems {
			if !seen[p] {
				seen[p] = true
				ctx.Violation(id, p, nil)
			}
		}
	}
	if ctx.Replay != "" {
		var c Case
		ctx.LoadReplay(&c)
		emit(c)
		ctx.Finish()
		return
	}
	cp := append(corpus(), sharedCorpus()...)
	for _, c := range cp {
		emit(c)
	}
	r := hx.NewRng(ctx.Seed)
	nconc := ctx.N / 8 // concurrent cases (oracle only)
	for i := len(cp); i < ctx.N; i++ {
		if i >= ctx.N-nconc {
			emit(genConc(r.Fork()))
		} else {
			emit(gen(r.Fork()))
		}
	}
	ctx.Finish()
}
