// C06 function-level correspondence harness: drives regionSet.add/totalSize, superRegion, bytesWriter.Write,
// parseRange and walkChunks of fs/remote (through fs/remote/verif_export.go) and prints the observed
// results as Coq terms of type Model.BlobFn.case. The oracle evaluates the function contracts directly
// (independently of the Coq model).
package main

import (
	"fmt"
	"sort"
	"strings"

	"github.com/containerd/stargz-snapshotter/fs/remote"
	"verif/harness/hx"
)

type Case struct {
	Kind   string     `json:"kind"` // add | super | writer | parse | walk
	Rs     [][2]int64 `json:"rs,omitempty"`
	R      [2]int64   `json:"r,omitempty"`
	Dest   int        `json:"dest,omitempty"` // writer: len(dest)
	Off    int64      `json:"off,omitempty"`
	Pieces [][]byte   `json:"pieces,omitempty"`
	Header string     `json:"header,omitempty"`
	Size   int64      `json:"size,omitempty"`
	CS     int64      `json:"cs,omitempty"`
	B      int64      `json:"b,omitempty"`
	E      int64      `json:"e,omitempty"`
	Good   bool       `json:"good,omitempty"` // add: rs was built by successive adds (invariant holds)
}

func coqRegion(r [2]int64) string { return fmt.Sprintf("(%s, %s)", hx.CoqZ(r[0]), hx.CoqZ(r[1])) }
func coqRegions(rs [][2]int64) string {
	s := make([]string, len(rs))
	for i, r := range rs {
		s[i] = coqRegion(r)
	}
	return hx.CoqList(s)
}

// ---- model-free reference computations for the oracle ----

func coverSet(rs [][2]int64) map[int64]bool {
	m := map[int64]bool{}
	for _, r := range rs {
		for x := r[0]; x <= r[1]; x++ {
			m[x] = true
		}
	}
	return m
}

func isGood(rs [][2]int64) bool {
	for i, r := range rs {
		if r[0] > r[1] {
			return false
		}
		if i > 0 && !(rs[i-1][1]+1 < r[0]) {
			return false
		}
	}
	return true
}

func genGoodSet(r *hx.Rng) [][2]int64 {
	var rs [][2]int64
	n := r.Intn(6)
	for i := 0; i < n; i++ {
		b := int64(r.Intn(40))
		e := b + int64(r.Intn(6))
		rs = remote.VerifRegionSetAdd(rs, [2]int64{b, e})
	}
	return rs
}

func gen(r *hx.Rng) Case {
	switch r.Pick(35, 8, 30, 15, 20) {
	case 0:
		c := Case{Kind: "add"}
		if r.Chance(5, 6) {
			c.Rs = genGoodSet(r)
			c.Good = true
		} else { // arbitrary slice (invariant not assumed): model fidelity only
			n := r.Intn(5)
			for i := 0; i < n; i++ {
				b := int64(r.Intn(30))
				c.Rs = append(c.Rs, [2]int64{b, b + int64(r.Intn(8)) - 1})
			}
			c.Good = isGood(c.Rs)
		}
		b := int64(r.Intn(44)) - 2
		c.R = [2]int64{b, b + int64(r.Intn(12))}
		if len(c.Rs) > 0 && r.Chance(1, 2) { // boundary bias: touch an existing region's ends
			l := c.Rs[r.Intn(len(c.Rs))]
			pts := []int64{l[0] - 2, l[0] - 1, l[0], l[0] + 1, l[1] - 1, l[1], l[1] + 1, l[1] + 2}
			b = pts[r.Intn(len(pts))]
			e := pts[r.Intn(len(pts))]
			if e < b {
				b, e = e, b
			}
			if r.Chance(1, 3) {
				e += int64(r.Intn(15))
			}
			c.R = [2]int64{b, e}
		}
		return c
	case 1:
		c := Case{Kind: "super"}
		n := r.Range(1, 5)
		for i := 0; i < n; i++ {
			b := int64(r.Intn(50))
			c.Rs = append(c.Rs, [2]int64{b, b + int64(r.Intn(9))})
		}
		return c
	case 2:
		// chunk of csz bytes delivered in arbitrary pieces to a writer whose window is [off, off+dest) of it
		c := Case{Kind: "writer"}
		csz := r.Range(0, 24)
		off := r.Range(0, csz)
		dl := r.Range(0, csz-off)
		switch r.Intn(8) {
		case 0: // window beyond the data (not produced by ReadAt, must still not corrupt or panic)
			dl = r.Range(0, 30)
			off = r.Range(0, 30)
		case 1:
			off, dl = 0, csz
		}
		c.Dest, c.Off = dl, int64(off)
		data := make([]byte, csz)
		for i := range data {
			data[i] = byte(1 + (i*7+r.Intn(3))%250)
		}
		passes := 1
		if r.Chance(1, 6) {
			passes = 2 // a second complete pass (retry after a shared fetch)
		}
		for ps := 0; ps < passes; ps++ {
			pos := 0
			for pos < len(data) {
				n := r.Range(0, len(data)-pos)
				if r.Chance(1, 3) {
					n = r.Range(0, 3)
					if n > len(data)-pos {
						n = len(data) - pos
					}
				}
				c.Pieces = append(c.Pieces, append([]byte{}, data[pos:pos+n]...))
				pos += n
			}
			if len(data) == 0 {
				c.Pieces = append(c.Pieces, []byte{})
			}
		}
		return c
	case 3:
		c := Case{Kind: "parse"}
		num := func() string {
			if r.Chance(3, 4) {
				return fmt.Sprint(r.Intn(100000))
			}
			switch r.Intn(10) {
			case 0:
				return "9223372036854775807"
			case 1:
				return "9223372036854775808"
			case 2:
				return "00" + fmt.Sprint(r.Intn(100))
			case 3:
				return ""
			case 4:
				return "99999999999999999999999"
			}
			return fmt.Sprint(r.Intn(100000))
		}
		third := func() string {
			switch r.Intn(6) {
			case 0:
				return "*"
			case 1:
				return `\\`
			case 2:
				return ""
			}
			return num()
		}
		h := "bytes " + num() + "-" + num() + "/" + third()
		switch r.Intn(16) {
		case 0:
			h = "xx" + h + "yy"
		case 1:
			h = "bytes " + h
		case 2:
			h = "bytes 1-x/3 " + h
		case 3:
			h = strings.Replace(h, "-", " - ", 1)
		case 4:
			h = strings.Replace(h, "bytes ", "bytes=", 1)
		case 5:
			h = strings.ToUpper(h)
		case 6:
			h = ""
		case 7:
			h = "bytes 5-9/20, bytes 1-2/3"
		case 8:
			h = "bytes -3-4/5"
		}
		c.Header = h
		return c
	default:
		c := Case{Kind: "walk"}
		c.CS = int64(r.Range(1, 9))
		k := int64(r.Intn(6))
		c.Size = k*c.CS + int64(r.Range(-1, 1))
		if c.Size < 0 {
			c.Size = 0
		}
		if r.Chance(1, 4) {
			c.Size = int64(r.Intn(40))
		}
		c.B = int64(r.Intn(5)) * c.CS
		if r.Chance(1, 6) {
			c.B += int64(r.Range(1, 3)) // possibly unaligned
		}
		c.E = c.B + int64(r.Range(-2, 30))
		return c
	}
}

func bytesToN(b []byte) string { return hx.CoqBytes(b) }

const fill = 0xEE

func main() {
	ctx := hx.Start()
	emit := func(c Case) {
		var term, key string
		var problems []string
		nontrivial := true
		switch c.Kind {
		case "add":
			in := append([][2]int64{}, c.Rs...)
			out := remote.VerifRegionSetAdd(in, c.R)
			tot := remote.VerifTotalSize(out)
			term = fmt.Sprintf("FAdd %s %s %s %s", coqRegions(c.Rs), coqRegion(c.R), coqRegions(out), hx.CoqZ(tot))
			ctx.Count("fn.add")
			if c.Good && c.R[0] <= c.R[1] {
				ctx.Count("fn.add.good")
				// oracle: result sorted/disjoint/non-adjacent, covers exactly old ∪ r, totalSize = #covered
				if !isGood(out) {
					problems = append(problems, "regionSet.add result is not sorted/disjoint/non-adjacent")
				}
				want := coverSet(append(append([][2]int64{}, c.Rs...), c.R))
				got := coverSet(out)
				if len(want) != len(got) {
					problems = append(problems, "regionSet.add changed the covered byte set")
				}
				for x := range want {
					if !got[x] {
						problems = append(problems, "regionSet.add lost a covered byte")
						break
					}
				}
				if tot != int64(len(want)) {
					problems = append(problems, fmt.Sprintf("totalSize %d != number of distinct covered bytes %d", tot, len(want)))
				}
				if len(out) < len(c.Rs) {
					ctx.Count("fn.add.merge")
				}
			}
			nontrivial = len(c.Rs) > 0
		case "super":
			out := remote.VerifSuperRegion(c.Rs)
			term = fmt.Sprintf("FSuper %s %s", coqRegions(c.Rs), coqRegion(out))
			ctx.Count("fn.super")
			lo, hi := c.Rs[0][0], c.Rs[0][1]
			for _, r := range c.Rs {
				if r[0] < lo {
					lo = r[0]
				}
				if r[1] > hi {
					hi = r[1]
				}
			}
			if out != [2]int64{lo, hi} {
				problems = append(problems, "superRegion is not [min b, max e]")
			}
		case "writer":
			dest := make([]byte, c.Dest)
			for i := range dest {
				dest[i] = fill
			}
			panicked, bad := remote.VerifBytesWriter(dest, c.Off, c.Pieces)
			ps := make([]string, len(c.Pieces))
			var all []byte
			for i, p := range c.Pieces {
				ps[i] = bytesToN(p)
				all = append(all, p...)
			}
			init := make([]byte, c.Dest)
			for i := range init {
				init[i] = fill
			}
			term = fmt.Sprintf("FWriter %s %s %s %s %s", bytesToN(init), hx.CoqZ(c.Off), hx.CoqList(ps), hx.CoqBool(panicked), bytesToN(dest))
			ctx.Count("fn.writer")
			if len(c.Pieces) > 1 {
				ctx.Count("fn.writer.pieces")
			}
			if panicked {
				problems = append(problems, "bytesWriter.Write panicked")
			}
			if bad {
				problems = append(problems, "bytesWriter.Write did not report len(p), nil")
			}
			// oracle (first pass only): dest[i] = stream[off+i] where the stream has that byte, untouched otherwise.
			// With two complete passes the stream is chunk++chunk and the window lies in the first copy, so the
			// same check applies to the first len(chunk) bytes; positions past the first pass must not be re-written
			// with other data: checked against the first occurrence.
			if !panicked {
				for i := 0; i < c.Dest; i++ {
					idx := int(c.Off) + i
					var want byte = fill
					if idx < len(all) {
						want = all[idx]
					}
					if dest[i] != want {
						problems = append(problems, fmt.Sprintf("bytesWriter: dest[%d]=%d, want byte %d of the written stream (%d)", i, dest[i], idx, want))
						break
					}
				}
			}
			nontrivial = c.Dest > 0
		case "parse":
			b, e, sz, ok := remote.VerifParseRange(c.Header)
			o := "None"
			if ok {
				o = fmt.Sprintf("(Some (%s, %s, %s))", hx.CoqZ(b), hx.CoqZ(e), hx.CoqZ(sz))
				ctx.Count("fn.parse.ok")
			} else {
				ctx.Count("fn.parse.err")
			}
			term = fmt.Sprintf("FParse %s %s", bytesToN([]byte(c.Header)), o)
			ctx.Count("fn.parse")
		case "walk":
			regs, ok := remote.VerifWalkChunks(c.Size, c.CS, c.B, c.E)
			o := "None"
			if ok {
				o = "(Some " + coqRegions(regs) + ")"
				ctx.Count("fn.walk.ok")
			} else {
				ctx.Count("fn.walk.unaligned")
			}
			term = fmt.Sprintf("FWalk %s %s %s %s %s", hx.CoqZ(c.Size), hx.CoqZ(c.CS), hx.CoqZ(c.B), hx.CoqZ(c.E), o)
			ctx.Count("fn.walk")
			if ok {
				// oracle: the chunks partition [b, min(e', size-1)] where e' is e rounded up to a chunk end, in order,
				// each chunk-aligned, of chunk size except possibly the last of the blob
				next := c.B
				for _, g := range regs {
					if g[0] != next || g[0]%c.CS != 0 || g[1] < g[0] || g[1] >= c.Size || (g[1]-g[0]+1 != c.CS && g[1] != c.Size-1) || g[1]-g[0]+1 > c.CS {
						problems = append(problems, fmt.Sprintf("walkChunks: bad chunk %v", g))
						break
					}
					next = g[1] + 1
				}
				if len(regs) > 0 && regs[len(regs)-1][0] > c.E {
					problems = append(problems, "walkChunks: chunk starts after the region end")
				}
				if next <= c.E && next < c.Size {
					problems = append(problems, "walkChunks: stopped early")
				}
				if c.B%c.CS != 0 {
					problems = append(problems, "walkChunks accepted an unaligned region")
				}
			} else if c.B%c.CS == 0 {
				problems = append(problems, "walkChunks refused an aligned region")
			}
			nontrivial = len(regs) > 0
		}
		key = term
		id := ctx.Case(term, c, key, nontrivial)
		sort.Strings(problems)
		for _, p := range problems {
			ctx.Violation(id, p, nil)
		}
	}
	if ctx.Replay != "" {
		var c Case
		ctx.LoadReplay(&c)
		emit(c)
		ctx.Finish()
		return
	}
	corpus := []Case{
		{Kind: "add", Good: true, Rs: nil, R: [2]int64{4, 7}},
		{Kind: "add", Good: true, Rs: [][2]int64{{0, 3}, {8, 11}}, R: [2]int64{4, 7}},            // fills the gap: one region
		{Kind: "add", Good: true, Rs: [][2]int64{{0, 3}, {8, 11}, {20, 23}}, R: [2]int64{2, 30}}, // swallows
		{Kind: "add", Good: true, Rs: [][2]int64{{0, 3}, {8, 11}}, R: [2]int64{9, 10}},           // contained
		{Kind: "add", Good: true, Rs: [][2]int64{{4, 7}}, R: [2]int64{0, 1}},                     // left, not adjacent
		{Kind: "add", Good: true, Rs: [][2]int64{{4, 7}}, R: [2]int64{0, 3}},                     // left, adjacent
		{Kind: "super", Rs: [][2]int64{{8, 11}, {0, 3}, {4, 30}}},
		{Kind: "writer", Dest: 4, Off: 0, Pieces: [][]byte{{1, 2}, {3, 4}}},
		{Kind: "writer", Dest: 2, Off: 1, Pieces: [][]byte{{1}, {2, 3}, {4}}},
		{Kind: "writer", Dest: 3, Off: 1, Pieces: [][]byte{{1, 2, 3, 4}, {1, 2, 3, 4}}},
		{Kind: "writer", Dest: 0, Off: 4, Pieces: [][]byte{{1, 2, 3, 4}}},
		{Kind: "parse", Header: "bytes 0-3/10"},
		{Kind: "parse", Header: "bytes 0-3/*"},
		{Kind: "parse", Header: "bytes 4-7/9223372036854775808"},
		{Kind: "walk", Size: 10, CS: 4, B: 0, E: 11},
		{Kind: "walk", Size: 10, CS: 4, B: 8, E: 15},
		{Kind: "walk", Size: 8, CS: 4, B: 8, E: 11},
		{Kind: "walk", Size: 0, CS: 4, B: 0, E: 3},
		{Kind: "walk", Size: 10, CS: 4, B: 2, E: 7},
	}
	for _, c := range corpus {
		emit(c)
	}
	r := hx.NewRng(ctx.Seed)
	for i := len(corpus); i < ctx.N; i++ {
		emit(gen(r.Fork()))
	}
	ctx.Finish()
}
