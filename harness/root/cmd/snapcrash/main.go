// C09 correspondence harness: a history of snapshotter calls, then one more call during which the
// crash-point markers of snapshot.go (build tag verif) copy the root directory; a fresh
// snapshot.NewSnapshotter is started on one of the copies (both restore settings, scripted Mount
// failures), then post-crash calls run. Prints each case as a Coq term of type Model.SnapCrash.case and
// evaluates the C09 clauses on the observations.
package main

import (
	"context"
	"fmt"
	"io"
	"os"
	"path/filepath"
	"sort"
	"sync"
	"time"

	"github.com/containerd/containerd/v2/core/snapshots"
	"verif/harness/hx"
	"verif/harness/snapx"
)

type Case struct {
	Async bool       `json:"async"`
	Pre   []snapx.Op `json:"pre"`
	Crash snapx.Op   `json:"crash"`
	// Race: the last call of Pre (a Prepare/View) is held between the rename of its directory and the commit of its
	// write transaction while a concurrent Cleanup is started; bolt's single-writer rule makes that Cleanup wait, so
	// the outcome equals "that call; Cleanup" (what the model is given).
	Race bool `json:"race,omitempty"`
	// Partial: the process dies INSIDE the os.RemoveAll of a directory cleanup (marker cleanupdir.unmounted is
	// taken): 1 = the children (fs, work) are gone, the directory itself is left; 2 = only work is gone; 3 = only fs
	// is gone. For the model such a directory simply still exists.
	Partial int        `json:"partial,omitempty"`
	KSeed   int        `json:"kseed"` // marker taken = KSeed mod (markers hit)
	NR      bool       `json:"nr"`
	Allow   bool       `json:"allow"`
	MBad    []int      `json:"mbad,omitempty"`
	Ops     []snapx.Op `json:"ops"` // post-crash ops (shrinkable)
	// observed
	Order  []int         `json:"order,omitempty"`
	K      int           `json:"k"`
	Total  int           `json:"total"`
	Point  string        `json:"point,omitempty"`
	OK     bool          `json:"ok"`
	Events []snapx.Event `json:"events,omitempty"`
	View   snapx.View    `json:"view"`
	Outs   []snapx.Out   `json:"outs,omitempty"`
}

var pointCode = map[string]int{
	"create.tempdir": 1, "create.meta": 2, "create.renamed": 3, "create.committed": 4,
	"prepare.mounted": 5, "prepare.committed": 6, "commit.meta": 7,
	"remove.meta": 8, "remove.committed": 9, "cleanup.iter": 10,
	"cleanupdir.unmounted": 11, "cleanupdir.removed": 12,
}

func copyTree(src, dst string) {
	err := filepath.Walk(src, func(p string, info os.FileInfo, err error) error {
		if err != nil {
			return err
		}
		rel, _ := filepath.Rel(src, p)
		q := filepath.Join(dst, rel)
		if info.IsDir() {
			return os.MkdirAll(q, 0o700)
		}
		if !info.Mode().IsRegular() {
			return nil
		}
		in, err := os.Open(p)
		if err != nil {
			return err
		}
		defer in.Close()
		out, err := os.OpenFile(q, os.O_CREATE|os.O_WRONLY|os.O_TRUNC, 0o600)
		if err != nil {
			return err
		}
		defer out.Close()
		_, err = io.Copy(out, in)
		return err
	})
	if err != nil {
		panic(fmt.Sprintf("copy %s -> %s: %v", src, dst, err))
	}
}

// SigEmptyLabel: known-finding class (empty-valued caller labels are dropped by the metadata store).
const SigEmptyLabel = "C09-empty-valued-label-not-restored"

func run(c *Case) []snapx.Problem {
	var problems []snapx.Problem
	problem := func(sig, format string, a ...any) {
		problems = append(problems, snapx.Problem{Sig: sig, What: fmt.Sprintf(format, a...)})
	}
	root := snapx.TempRoot()
	imgBase := root + "-img"
	os.MkdirAll(imgBase, 0o700)
	defer os.RemoveAll(imgBase)
	m, err := snapx.Open(root, c.Async, false, false, nil)
	if err != nil {
		panic(fmt.Sprintf("NewSnapshotter on a fresh root failed: %v", err))
	}
	defer m.Destroy()
	for i, o := range c.Pre {
		if !(c.Race && i == len(c.Pre)-1 && (o.Op == "prepare" || o.Op == "view")) {
			m.Do(o)
			continue
		}
		reached, resume, done := make(chan struct{}), make(chan struct{}), make(chan struct{})
		var once sync.Once
		held := false
		m.SetHook(func(point string, _ *snapx.Machine) {
			if point == "create.renamed" {
				once.Do(func() { held = true; close(reached); <-resume })
			}
		})
		m.ConcurrentCleanup = true
		go func() { m.Do(o); close(done) }()
		select {
		case <-reached:
		case <-done:
		}
		cdone := make(chan error, 1)
		if held {
			go func() { cdone <- m.SN.(snapshots.Cleaner).Cleanup(context.Background()) }()
			select {
			case err := <-cdone: // only possible when Cleanup does not wait for the open write transaction
				cdone <- err
			case <-time.After(30 * time.Millisecond):
			}
			close(resume)
			<-done
		} else {
			cdone <- m.SN.(snapshots.Cleaner).Cleanup(context.Background())
		}
		<-cdone
		m.ConcurrentCleanup = false
		m.SetHook(nil)
	}
	problems = append(problems, m.Problems...)
	m.Problems = nil
	preView := m.View()
	preIDs := m.IDOf()
	// ---- the crashing op: every marker copies the root ----
	var points []string
	pointDir := map[int]int{} // marker index -> id of the directory being cleaned (cleanupdir.unmounted)
	m.SetHook(func(point string, mm *snapx.Machine) {
		copyTree(root, filepath.Join(imgBase, fmt.Sprintf("%d", len(points))))
		if point == "cleanupdir.unmounted" {
			pointDir[len(points)] = mm.FS.LastUnmountID()
		}
		points = append(points, point)
	})
	out := m.Do(c.Crash)
	m.SetHook(nil)
	problems = append(problems, m.Problems...)
	m.Problems = nil
	c.Order = nil
	if c.Crash.Op == "remove" || c.Crash.Op == "cleanup" || c.Crash.Op == "close" {
		for _, e := range out.Ev {
			if e.Ev == "unmount" && e.D.Id >= 0 {
				c.Order = append(c.Order, e.D.Id)
			}
		}
	}
	c.Total = len(points)
	c.K, c.Point, c.OK, c.Events, c.Outs = 0, "", true, nil, nil
	c.View = snapx.View{Walk: []snapx.WalkEnt{}, Dirs: []int{}, Mounts: []snapx.MountEnt{}}
	if c.Total == 0 {
		return problems
	}
	c.K = c.KSeed % c.Total
	if c.Partial > 0 && !c.NR {
		var cand []int
		for i, p := range points {
			if p == "cleanupdir.unmounted" && pointDir[i] >= 0 {
				cand = append(cand, i)
			}
		}
		if len(cand) > 0 {
			c.K = cand[c.KSeed%len(cand)]
		}
	}
	c.Point = points[c.K]
	// ---- restart on the copy ----
	img := filepath.Join(imgBase, fmt.Sprintf("%d", c.K))
	if id, ok := pointDir[c.K]; ok && id >= 0 && c.Partial > 0 && !c.NR {
		// killed inside os.RemoveAll(<id>): part of the directory's content is already gone
		d := filepath.Join(img, "snapshots", fmt.Sprintf("%d", id))
		if c.Partial == 1 || c.Partial == 2 {
			os.RemoveAll(filepath.Join(d, "work"))
		}
		if c.Partial == 1 || c.Partial == 3 {
			os.RemoveAll(filepath.Join(d, "fs"))
		}
	}
	bad := map[int]bool{}
	for _, x := range c.MBad {
		bad[x] = true
	}
	m2, err := snapx.Open(img, c.Async, c.NR, c.Allow, func(id int) bool { return !bad[id] })
	c.OK = err == nil
	c.Events = append([]snapx.Event{}, m2.FS.Events...)
	for _, p := range m2.FS.Problems {
		problem("", "restore: %s", p)
	}
	m2.FS.Problems = nil
	failedMount := false
	for _, e := range c.Events {
		if e.Ev != "mount" {
			problem("", "restore made a backend %s call", e.Ev)
		}
		if e.Ev == "mount" && !e.OK {
			failedMount = true
		}
	}
	// clause: restart succeeds, or fails exactly as allow_invalid_mounts_on_restart prescribes
	switch {
	case c.NR && (len(c.Events) > 0 || !c.OK):
		problem("", "NoRestore: restart made backend calls or failed (%v)", err)
	case !c.OK && !(failedMount && !c.Allow):
		problem("", "restart failed although no recorded remote snapshot failed to mount (or invalid mounts are allowed): %v", err)
	case c.OK && failedMount && !c.Allow:
		problem("", "restart succeeded although a remote snapshot could not be mounted and invalid mounts are not allowed")
	}
	if !c.OK {
		os.RemoveAll(img)
		return problems
	}
	defer m2.Destroy()
	m2.Relaxed = true
	m2.CrashImage = true
	m2.NoRestore = c.NR
	{
		touched := map[int]bool{c.Crash.Key: true, c.Crash.Name: true}
		if c.Crash.L.T >= 0 {
			touched[c.Crash.L.T] = true
		}
		m2.SeedIDs(preIDs, touched)
	}
	c.View = m2.View()
	if c.NR {
		m2.NoRestoreGone = map[int]bool{}
		for _, e := range c.View.Walk {
			if e.L.R {
				m2.NoRestoreGone[e.Name] = true
			}
		}
	}
	// clause: mounted again WITH THE LABELS IT WAS CREATED WITH: compare what the backend gets at restore with what
	// the backend of the dead process saw when the snapshot was created (plus the remote mark the snapshotter adds),
	// unless the labels were replaced by Update since. Labels passed with an EMPTY value are not persisted
	// (boltutil.WriteLabels): that difference is the known finding below, every other difference a violation.
	m.FS.Lock()
	created := map[int]snapx.Labels{}
	for id, l := range m.FS.Created {
		created[id] = l
	}
	m.FS.Unlock()
	if !m.UpdatedUnknown {
		for _, e := range c.Events {
			cl, known := created[e.D.Id]
			if e.Ev != "mount" || !known || m.UpdatedIDs[e.D.Id] {
				continue
			}
			cl.R = true
			switch {
			case e.L == cl:
			case e.L == cl.Stored():
				problem(SigEmptyLabel, "remote snapshot id %d was created with labels %+v (an empty-valued label among them) and is re-mounted after restart with %+v: the empty-valued label is not persisted", e.D.Id, cl, e.L)
			default:
				problem("", "remote snapshot id %d was created with labels %+v but is re-mounted after restart with %+v", e.D.Id, cl, e.L)
			}
		}
	}
	// clause: every remote snapshot mounted again with the labels it is recorded with, nothing else mounted
	var wantL, gotL []string
	for _, e := range c.View.Walk {
		if e.L.R && !c.NR {
			wantL = append(wantL, e.L.Coq())
		}
	}
	nfail := 0
	for _, e := range c.Events {
		if e.Ev == "mount" {
			if e.OK {
				gotL = append(gotL, e.L.Coq())
			} else {
				nfail++
			}
		}
	}
	sort.Strings(wantL)
	sort.Strings(gotL)
	if len(gotL)+nfail != len(wantL) {
		problem("", "after restart %d remote snapshots recorded, %d mounted + %d failed", len(wantL), len(gotL), nfail)
	}
	if nfail == 0 && fmt.Sprint(wantL) != fmt.Sprint(gotL) {
		problem("", "restored mounts carry labels %v, recorded remote snapshots %v", gotL, wantL)
	}
	if len(c.View.Mounts) != len(gotL) {
		problem("", "mount table has %d entries after restart, %d successful mounts", len(c.View.Mounts), len(gotL))
	}
	for _, me := range c.View.Mounts {
		found := false
		for _, d := range c.View.Dirs {
			if d == me.ID {
				found = true
			}
		}
		if !found {
			problem("", "restored mount on id %d without directory", me.ID)
		}
	}
	// clause: every snapshot acknowledged before the crashing call (and not its subject) is still there, unchanged
	touched := map[int]bool{c.Crash.Key: true, c.Crash.Name: true}
	if c.Crash.L.T >= 0 {
		touched[c.Crash.L.T] = true
	}
	after := map[int]snapx.WalkEnt{}
	for _, e := range c.View.Walk {
		after[e.Name] = e
	}
	for _, e := range preView.Walk {
		if touched[e.Name] && (c.Crash.Op == "prepare" || c.Crash.Op == "view" || c.Crash.Op == "commit" || c.Crash.Op == "remove" || c.Crash.Op == "update") {
			continue
		}
		if a, ok := after[e.Name]; !ok || a != e {
			problem("", "snapshot %s acknowledged before the crash is missing or changed after restart", snapx.Name(e.Name))
		}
	}
	// ---- post-crash ops; clause: one cleanup pass reclaims everything half-made ----
	for _, o := range c.Ops {
		before := m2.View()
		po := m2.Do(o)
		c.Outs = append(c.Outs, po)
		if o.Op == "cleanup" && !m2.Closed {
			switch {
			case po.R.Class == "ok":
				if po.V.Temps != 0 || len(po.V.Dirs) > len(po.V.Walk) || (!c.NR && len(po.V.Dirs) != len(po.V.Walk)) {
					problem("", "after restart + Cleanup: %d directories + %d temp for %d snapshots", len(po.V.Dirs), po.V.Temps, len(po.V.Walk))
				}
			default:
				// (before fix C09-fix-1 a never-initialised metadata.db made this NotFound: finding F61)
				problem("", "Cleanup after restart failed (%s), %d directories + %d temp left for %d snapshots", po.R.Class, len(before.Dirs), before.Temps, len(before.Walk))
			}
			m2.Relaxed = po.R.Class != "ok"
		}
	}
	problems = append(problems, m2.Problems...)
	return problems
}

func coqOps(ops []snapx.Op) string {
	s := make([]string, len(ops))
	for i, o := range ops {
		s[i] = o.Coq()
	}
	return hx.CoqList(s)
}

// modelPre: the history the model is given: a raced call is followed by the Cleanup that had to wait for it.
func modelPre(c Case) []snapx.Op {
	if n := len(c.Pre); c.Race && n > 0 && (c.Pre[n-1].Op == "prepare" || c.Pre[n-1].Op == "view") {
		return append(append([]snapx.Op{}, c.Pre...), snapx.Op{Op: "cleanup", Parent: -1, L: snapx.NoLabels})
	}
	return c.Pre
}

func coqCase(c Case) string {
	ev := make([]string, len(c.Events))
	for i, e := range c.Events {
		ev[i] = e.Coq()
	}
	outs := make([]string, len(c.Outs))
	for i, o := range c.Outs {
		outs[i] = o.Coq()
	}
	return fmt.Sprintf("(mkCase %s %s (%s) %s %d %s %s %s %s %d %d %s %s %s %s)",
		hx.CoqBool(c.Async), coqOps(modelPre(c)), c.Crash.Coq(), hx.CoqNatList(c.Order), c.K,
		hx.CoqBool(c.NR), hx.CoqBool(c.Allow), hx.CoqNatList(c.MBad), coqOps(c.Ops),
		c.Total, pointCode[c.Point], hx.CoqBool(c.OK), hx.CoqList(ev), c.View.Coq(), hx.CoqList(outs))
}

func gen(r *hx.Rng) Case {
	c := Case{Async: r.Chance(1, 3)}
	all := snapx.GenOps(r, r.Range(3, 18), false)
	// the crashing op: the last op of the history that can hit a marker
	idx := -1
	for i := len(all) - 1; i >= 0; i-- {
		switch all[i].Op {
		case "prepare", "view", "commit", "remove", "cleanup":
			idx = i
		}
		if idx >= 0 {
			break
		}
	}
	if idx < 0 {
		all = append(all, snapx.Op{Op: "prepare", Key: 0, Parent: -1, L: snapx.Labels{T: 1}, MOK: true})
		idx = len(all) - 1
	}
	c.Pre, c.Crash = all[:idx], all[idx]
	if r.Chance(1, 8) {
		c.Crash = snapx.Op{Op: "close", Parent: -1, L: snapx.NoLabels}
	}
	c.KSeed = r.Intn(1000)
	if n := len(c.Pre); n > 0 && (c.Pre[n-1].Op == "prepare" || c.Pre[n-1].Op == "view") && r.Chance(1, 3) {
		c.Race = true
	}
	if (c.Crash.Op == "close" || c.Crash.Op == "remove" || c.Crash.Op == "cleanup") && r.Chance(1, 2) {
		c.Partial = r.Range(1, 3)
	}
	c.NR = r.Chance(1, 5)
	c.Allow = r.Bool()
	if r.Chance(1, 3) {
		for i := 1; i <= len(all)+1; i++ {
			if r.Chance(1, 4) {
				c.MBad = append(c.MBad, i)
			}
		}
	}
	post := snapx.GenOps(r, r.Range(1, 6), false)
	if r.Chance(2, 3) {
		post = append([]snapx.Op{{Op: "cleanup", Parent: -1, L: snapx.NoLabels}}, post...)
	}
	c.Ops = post
	return c
}

func main() {
	ctx := hx.Start()
	emit := func(c Case) {
		problems := run(&c)
		if c.Total == 0 {
			ctx.Count("skipped.no-marker")
			return
		}
		ctx.Count("crashop." + c.Crash.Op)
		ctx.Count("point." + c.Point)
		if c.NR {
			ctx.Count("cfg.norestore")
		} else if c.Allow {
			ctx.Count("cfg.allow")
		} else {
			ctx.Count("cfg.strict")
		}
		if c.OK {
			ctx.Count("restart.ok")
		} else {
			ctx.Count("restart.failed")
		}
		nm := 0
		for _, e := range c.Events {
			if e.OK {
				nm++
				ctx.Count("restore.mount.ok")
			} else {
				ctx.Count("restore.mount.failed")
			}
		}
		if c.View.Temps > 0 {
			ctx.Count("image.tempdir")
		}
		if len(c.View.Dirs) > len(c.View.Walk) {
			ctx.Count("image.orphan-dir")
		}
		for i, o := range c.Ops {
			if i < len(c.Outs) {
				ctx.Count("post." + o.Op + "." + c.Outs[i].R.Class)
			}
		}
		term := coqCase(c)
		id := ctx.Case(term, c, term, nm > 0 || c.View.Temps > 0 || len(c.View.Dirs) != len(c.View.Walk))
		for _, p := range problems {
			if p.Sig == snapx.SigTargetUncommitted {
				ctx.Count("c08finding." + p.Sig) // a C08 finding class, reported by the C08 check
				continue
			}
			if p.Sig != "" {
				ctx.Count("finding." + p.Sig)
				ctx.Finding(id, p.Sig, p.What, nil)
			} else {
				ctx.Violation(id, p.What, nil)
			}
		}
	}
	if ctx.Replay != "" {
		var c Case
		ctx.LoadReplay(&c)
		emit(c)
		ctx.Finish()
		return
	}
	L := func(t int) snapx.Labels { return snapx.Labels{T: t} }
	N := snapx.NoLabels
	chain := []snapx.Op{
		{Op: "prepare", Key: 0, Parent: -1, L: L(1), MOK: true},
		{Op: "prepare", Key: 0, Parent: 1, L: L(2), MOK: true},
		{Op: "prepare", Key: 3, Parent: 2, L: N, MOK: true},
	}
	cleanup := snapx.Op{Op: "cleanup", Parent: -1, L: N}
	var corpus []Case
	// every marker of a Prepare that commits a remote snapshot, strict / allow / no-restore
	for k := 0; k < 7; k++ {
		corpus = append(corpus, Case{Pre: chain, Crash: snapx.Op{Op: "prepare", Key: 4, Parent: 2, L: L(5), MOK: true}, KSeed: k,
			Allow: k%2 == 0, NR: k == 5, MBad: []int{[]int{9, 1, 2, 9, 1, 9, 9}[k]},
			Ops: []snapx.Op{cleanup, {Op: "prepare", Key: 6, Parent: 2, L: N, MOK: true}, {Op: "remove", Key: 3, Parent: -1, L: N}}})
	}
	// remote snapshots created with a label outside the containerd.io/snapshot namespace and with an empty-valued
	// label; crash of a later call; strict restart must hand the backend the creation-time labels again
	{
		rich := []snapx.Op{
			{Op: "prepare", Key: 0, Parent: -1, L: snapx.Labels{T: 1, E: 2, U: 3}, MOK: true},
			{Op: "prepare", Key: 0, Parent: 1, L: snapx.Labels{T: 2, E: 3}, MOK: true},
			{Op: "prepare", Key: 0, Parent: 2, L: snapx.Labels{T: 3, E: 1, U: 1}, MOK: true},
		}
		for k := 0; k < 3; k++ {
			corpus = append(corpus, Case{Pre: rich, Crash: snapx.Op{Op: "prepare", Key: 4, Parent: 3, L: snapx.Labels{T: 5, E: 2}, MOK: true}, KSeed: 4 + k,
				Allow: k == 1, Ops: []snapx.Op{cleanup, {Op: "mounts", Key: 4, Parent: -1, L: N}}})
		}
	}
	// crash during Close with NoRestore, then (a) Update strips the remote mark of a snapshot whose directory Close
	// removed, (b) Commit / Prepare need the directory of such a snapshot: all prescribed by NoRestore
	for k := 0; k < 2; k++ {
		corpus = append(corpus, Case{Pre: chain, Crash: snapx.Op{Op: "close", Parent: -1, L: N}, KSeed: 3 + 4*k, NR: true,
			Ops: []snapx.Op{cleanup, {Op: "update", Name: 1, Parent: -1, L: snapx.Labels{T: -1, U: 2}},
				{Op: "commit", Name: 6, Key: 2, Parent: -1, L: N}, {Op: "prepare", Key: 7, Parent: 2, L: N, MOK: true}, cleanup}})
	}
	// killed inside the RemoveAll of Close / Remove / Cleanup: directory left without (part of) its content
	for k := 0; k < 6; k++ {
		corpus = append(corpus, Case{Pre: chain, Crash: snapx.Op{Op: "close", Parent: -1, L: N}, KSeed: k, Partial: 1 + k%3, Allow: k >= 3,
			Ops: []snapx.Op{cleanup, {Op: "mounts", Key: 3, Parent: -1, L: N}, {Op: "prepare", Key: 6, Parent: 2, L: N, MOK: true}}})
	}
	for k := 0; k < 3; k++ {
		corpus = append(corpus, Case{Pre: chain, Crash: snapx.Op{Op: "remove", Key: 3, Parent: -1, L: N}, KSeed: k, Partial: 1 + k,
			Ops: []snapx.Op{{Op: "prepare", Key: 3, Parent: 2, L: N, MOK: true}, cleanup}})
	}
	// a Cleanup racing a createSnapshot that sits between rename and commit, then a crash of a later call, restart:
	// the snapshot that call acknowledged must have its directory
	for k := 0; k < 3; k++ {
		pre := append(append([]snapx.Op{}, chain...), snapx.Op{Op: "prepare", Key: 4, Parent: 2, L: L(5), MOK: k != 1})
		corpus = append(corpus, Case{Pre: pre, Race: true, Crash: snapx.Op{Op: "prepare", Key: 6, Parent: 5 - 3*(k%2), L: N, MOK: true}, KSeed: 3 + k,
			Ops: []snapx.Op{cleanup, {Op: "mounts", Key: 6, Parent: -1, L: N}, {Op: "stat", Name: 5, Parent: -1, L: N}}})
	}
	// crash inside the very first createSnapshot: Cleanup must reclaim the temp / orphan directory (fixed finding F61)
	for k := 0; k < 3; k++ {
		corpus = append(corpus, Case{Crash: snapx.Op{Op: "prepare", Key: 0, Parent: -1, L: N, MOK: true}, KSeed: k,
			Ops: []snapx.Op{cleanup, {Op: "prepare", Key: 0, Parent: -1, L: N, MOK: true}, cleanup}})
	}
	// crash between rename and commit, next Prepare before Cleanup collides with the orphan directory
	corpus = append(corpus, Case{Pre: chain, Crash: snapx.Op{Op: "view", Key: 4, Parent: 2, L: N}, KSeed: 2,
		Ops: []snapx.Op{{Op: "prepare", Key: 5, Parent: 2, L: N, MOK: true}, {Op: "prepare", Key: 5, Parent: 2, L: N, MOK: true}, cleanup}})
	// crash during synchronous Remove and during Close
	for k := 0; k < 4; k++ {
		corpus = append(corpus, Case{Pre: chain, Crash: snapx.Op{Op: "remove", Key: 3, Parent: -1, L: N}, KSeed: k, Ops: []snapx.Op{cleanup}})
		corpus = append(corpus, Case{Pre: chain, Crash: snapx.Op{Op: "close", Parent: -1, L: N}, KSeed: k + 1, NR: k == 3,
			Ops: []snapx.Op{cleanup, {Op: "mounts", Key: 3, Parent: -1, L: N}}})
	}
	n := 0
	for _, c := range corpus {
		if n >= ctx.N {
			break
		}
		emit(c)
		n++
	}
	r := hx.NewRng(ctx.Seed)
	for i := len(corpus); i < ctx.N; i++ {
		emit(gen(r.Fork()))
	}
	ctx.Finish()
}
