package main

import (
	"archive/tar"
	"bytes"
	"fmt"
	"io"

	"github.com/containerd/stargz-snapshotter/estargz"
)

func main() {
	var buf bytes.Buffer
	tw := tar.NewWriter(&buf)
	for _, n := range []string{"a", "b", "c"} {
		tw.WriteHeader(&tar.Header{Name: n, Typeflag: tar.TypeReg, Size: 300, Mode: 0644})
		tw.Write(bytes.Repeat([]byte(n), 300))
	}
	tw.Close()
	in := buf.Bytes()
	for _, min := range []int{0, 5000} {
		b, err := estargz.Build(io.NewSectionReader(bytes.NewReader(in), 0, int64(len(in))), estargz.WithMinChunkSize(min), estargz.WithCompressionLevel(1))
		if err != nil {
			panic(err)
		}
		blob, _ := io.ReadAll(b)
		b.Close()
		r, err := estargz.Open(io.NewSectionReader(bytes.NewReader(blob), 0, int64(len(blob))))
		if err != nil {
			panic(err)
		}
		_, err = r.VerifyTOC(b.TOCDigest())
		fmt.Println("min", min, "VerifyTOC:", err)
		for _, n := range []string{"a", "c"} {
			sr, err := r.OpenFile(n)
			if err != nil {
				fmt.Println(" open", n, err)
				continue
			}
			got, err := io.ReadAll(sr)
			fmt.Println(" read", n, len(got), err)
		}
	}
}
