// C15 correspondence harness (memory metadata store). The harness proper is package prefetchx.
package main

import "verif/harness/prefetchx"

func main() {
	prefetchx.Main([]string{"memory"}, map[string]prefetchx.StoreFactory{"memory": prefetchx.MemoryStore})
}
