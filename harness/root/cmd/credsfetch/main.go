// C18 correspondence harness, transport half: drives the real HTTP fetcher of fs/remote (newHTTPFetcher = initial
// resolution + size probe, transport.RoundTrip with the docker authorizer, fetch incl. 403-refresh and 400-retry, check,
// refreshURL) over registry hosts built by the real resolver.RegistryHostsFromConfig (per-host header tables, one
// authorizer per host fed by the real CRI keychain), against an in-memory world (registries, redirect locations, token
// servers) that logs every request and answers as scripted. Concurrent fetch/check calls are goroutines run under a
// deterministic scheduler (one runs at a time; they are held at the fetcher's scheduling point and at every request to a
// registry or redirect location; token requests are answered at once).
// Prints the observations as Coq terms for Model/Headers.v; the model-free oracle checks every logged request.
package main

import (
	"context"
	"encoding/base64"
	"errors"
	"fmt"
	"io"
	"net/http"
	"net/url"
	"strings"
	"sync"

	"github.com/containerd/containerd/v2/core/remotes/docker"
	"github.com/containerd/containerd/v2/pkg/reference"
	clog "github.com/containerd/log"
	"github.com/containerd/stargz-snapshotter/fs/remote"
	"github.com/containerd/stargz-snapshotter/fs/source"
	crikc "github.com/containerd/stargz-snapshotter/service/keychain/cri"
	"github.com/containerd/stargz-snapshotter/service/resolver"
	rhttp "github.com/hashicorp/go-retryablehttp"
	digest "github.com/opencontainers/go-digest"
	ocispec "github.com/opencontainers/image-spec/specs-go/v1"
	"google.golang.org/grpc"
	runtime "k8s.io/cri-api/pkg/apis/runtime/v1"
	"verif/harness/hx"
)

const (
	refHost = "reg.example"
	refStr  = refHost + "/team/app:1"
	dg      = "sha256:0123456789abcdef0123456789abcdef0123456789abcdef0123456789abcdef"
	nExt    = 3 // cdn-0..2.example are hosts 100..102
	nRealm  = 2 // auth-0..1.example
)

// ---- case ----

// header table of a mirror: kind of each key's value
//
//	"s" string, "l" list of strings, "x" list with a non-string, "b" value of a wrong type
type HostCfg struct {
	Name string   `json:"name"` // mirror host name ("" and names with '/' are invalid destinations)
	Tab  bool     `json:"tab"`  // Header table present (possibly empty)
	Vals []string `json:"vals"`
}

// the pull request the CRI keychain saw for the image
type Auth struct {
	None   bool   `json:"none"`   // PullImage without auth config
	SAKind string `json:"sakind"` // empty | url | bare | bad
	SAText string `json:"satext"`
	SAHost string `json:"sahost"`
	User   string `json:"user"`
	Pass   string `json:"pass"`
	Token  string `json:"token"`
	B64Bad bool   `json:"b64bad"`
}

type Resp struct {
	Err  bool   `json:"err"`
	Code int    `json:"code"`
	Loc  string `json:"loc"` // "" | "ext:H:N" | "blob:I"
	WF   bool   `json:"wf"`
	Chal string `json:"chal"` // "" | basic | bearer:N | bearer:N:err | bearer:none
}

type Op struct {
	Op    string `json:"op"`   // spawn | resume
	Kind  string `json:"kind"` // fetch | check
	Retry bool   `json:"retry"`
	Multi bool   `json:"multi"` // fetch two regions
	T     int    `json:"t"`
	R     Resp   `json:"r"`
	Toks  []Resp `json:"toks"` // answers to the token requests made during this step
}

type Req struct {
	Meth string `json:"meth"`
	Loc  string `json:"loc"` // blob:I | ext:H:N | realm:N | ?url
	Hdr  int    `json:"hdr"` // -1 none, i = carries the header configured for host i
	Az   string `json:"az"`  // "" | basic:J | bearer:J:T | tok:J:0/1
}

type Out struct {
	Reqs []Req `json:"reqs"`
	Done int   `json:"done"` // -1 not finished, 0 failed, 1 ok
}

type Case struct {
	Mirrors []HostCfg `json:"mirrors"`
	Auth    Auth      `json:"auth"`
	Script  []Resp    `json:"script"`
	Ops     []Op      `json:"ops"`
	// Storm > 0: after everything else, 4 goroutines call fetch/check really concurrently (no scheduler), answers drawn
	// from a generator seeded with Storm; oracle only (and the target of the race detector in the race tier)
	Storm uint64 `json:"storm"`
	// observed
	ResReqs   []Req      `json:"res_reqs,omitempty"`
	Target    *[3]string `json:"target,omitempty"`
	Outs      []Out      `json:"outs,omitempty"`
	Final     *[3]string `json:"final,omitempty"`
	HostsErr  bool       `json:"hosts_err"`
	AuthStats [3]int     `json:"auth_stats"` // challenges, requests with Authorization, token requests with credentials
}

// ---- world ----

type world struct {
	c         *Case
	hostNames []string // index -> host name (mirrors..., origin)
	blobURLs  []string
	problems  []string
	handedOut map[string]bool // redirect locations the registry has answered with
	script    []Resp          // answers while no thread runs (resolution, epilogue)
	cur       *thread
	curReqs   *[]Req
	curToks   []Resp
	nclients  int
	stats     [3]int
	storm     bool // free-running phase: requests arrive concurrently
	stormRng  *hx.Rng
	mu        sync.Mutex
}

type thread struct {
	resume chan Resp
	parked chan string
	state  string // start | hook | rt | done
	last   int    // status code of the last answer it received
	done   bool
	ok     bool
}

// fake backend CRI for the keychain
type fakeCRI struct{}

func (fakeCRI) ListImages(ctx context.Context, in *runtime.ListImagesRequest, opts ...grpc.CallOption) (*runtime.ListImagesResponse, error) {
	return &runtime.ListImagesResponse{}, nil
}
func (fakeCRI) ImageStatus(ctx context.Context, in *runtime.ImageStatusRequest, opts ...grpc.CallOption) (*runtime.ImageStatusResponse, error) {
	return &runtime.ImageStatusResponse{}, nil
}
func (fakeCRI) PullImage(ctx context.Context, in *runtime.PullImageRequest, opts ...grpc.CallOption) (*runtime.PullImageResponse, error) {
	return &runtime.PullImageResponse{}, nil
}
func (fakeCRI) RemoveImage(ctx context.Context, in *runtime.RemoveImageRequest, opts ...grpc.CallOption) (*runtime.RemoveImageResponse, error) {
	return &runtime.RemoveImageResponse{}, nil
}
func (fakeCRI) ImageFsInfo(ctx context.Context, in *runtime.ImageFsInfoRequest, opts ...grpc.CallOption) (*runtime.ImageFsInfoResponse, error) {
	return &runtime.ImageFsInfoResponse{}, nil
}

func hdrKey(i, k int) string { return fmt.Sprintf("X-Verif-Reg-%d-%d", i, k) }
func secret(i int) string    { return fmt.Sprintf("secret-of-host-%d", i) }

func extHostName(h int, names []string) string {
	if h >= 110 && h < 110+nExt {
		return fmt.Sprintf("cdn-%d.example:8443", h-110) // the same machine on another port is another host
	}
	if h >= 100 && h < 100+nExt {
		return fmt.Sprintf("cdn-%d.example", h-100)
	}
	if h >= 0 && h < len(names) {
		return names[h]
	}
	return ""
}

// Location forms. ext:H:N is an absolute URL on host H; N selects the spelling:
//
//	0-2 https://H/other/N?sig=N   3 http://   4 HTTPS:// (upper-case scheme)   5 userinfo   6 with fragment
//
// rel:H:N is the scheme-relative reference //H/other/N?sig=N; rel:-:N a reference without host.
var relTexts = []string{"/other/0?sig=0", "other/1", "?sig=2", "../x/3"}

const nExtForms = 7

func (w *world) extURL(h, n int) string {
	host := extHostName(h, w.hostNames)
	switch n {
	case 3:
		return fmt.Sprintf("http://%s/other/%d?sig=%d", host, n, n)
	case 4:
		return fmt.Sprintf("HTTPS://%s/other/%d?sig=%d", host, n, n)
	case 5:
		return fmt.Sprintf("https://user:pw@%s/other/%d?sig=%d", host, n, n)
	case 6:
		return fmt.Sprintf("https://%s/other/%d?sig=%d#part", host, n, n)
	}
	return fmt.Sprintf("https://%s/other/%d?sig=%d", host, n, n)
}

func realmURL(n int) string { return fmt.Sprintf("https://auth-%d.example/token", n) }

// host id of a host name: registry hosts 0.., cdn hosts 100.., -1 unknown
func (w *world) hostID(name string) int {
	for i, n := range w.hostNames {
		if n == name && validHost(n) {
			return i
		}
	}
	for k := 0; k < nExt; k++ {
		if name == fmt.Sprintf("cdn-%d.example", k) {
			return 100 + k
		}
		if name == fmt.Sprintf("cdn-%d.example:8443", k) {
			return 110 + k
		}
	}
	return -1
}

// locURL: the text put into a Location header for a location description ("" = none)
func (w *world) locURL(l string) string {
	var h, n int
	if _, err := fmt.Sscanf(l, "ext:%d:%d", &h, &n); err == nil && validHost(extHostName(h, w.hostNames)) && n >= 0 && n < nExtForms {
		return w.extURL(h, n)
	}
	if _, err := fmt.Sscanf(l, "rel:-:%d", &n); err == nil && n >= 0 && n < len(relTexts) {
		return relTexts[n]
	}
	if _, err := fmt.Sscanf(l, "rel:%d:%d", &h, &n); err == nil && validHost(extHostName(h, w.hostNames)) && n >= 0 && n < 3 {
		return fmt.Sprintf("//%s/other/%d?sig=%d", extHostName(h, w.hostNames), n, n)
	}
	if _, err := fmt.Sscanf(l, "blob:%d", &n); err == nil && n >= 0 && n < len(w.blobURLs) && validHost(w.hostNames[n]) {
		return w.blobURLs[n]
	}
	return ""
}

// urlLoc: the location description of the URL a request was built for
func (w *world) urlLoc(u string) string {
	for i, b := range w.blobURLs {
		if u == b {
			return fmt.Sprintf("blob:%d", i)
		}
	}
	for n, t := range relTexts {
		if u == t {
			return fmt.Sprintf("rel:-:%d", n)
		}
	}
	pu, err := url.Parse(u)
	if err != nil {
		return "?" + u
	}
	var n int
	if _, err := fmt.Sscanf(pu.Path, "/other/%d", &n); err != nil || pu.RawQuery != fmt.Sprintf("sig=%d", n) {
		return "?" + u
	}
	h := w.hostID(pu.Host)
	if h < 0 {
		return "?" + u
	}
	if pu.Scheme == "" {
		return fmt.Sprintf("rel:%d:%d", h, n)
	}
	return fmt.Sprintf("ext:%d:%d", h, n)
}

func (w *world) hdrOf(h http.Header) int {
	found := -1
	for i := range w.hostNames {
		for k := 0; k < 3; k++ {
			if _, ok := h[hdrKey(i, k)]; ok {
				if found >= 0 && found != i {
					w.problems = append(w.problems, "one request carries the headers of two hosts")
				}
				found = i
			}
		}
	}
	return found
}

func aliasHost(h string) string {
	if h == "docker.io" || h == "registry-1.docker.io" {
		return "index.docker.io"
	}
	return h
}

// allowed: may the credential of the case's pull request be used on behalf of this host (clauses of C18 evaluated on
// the pull request itself, not on the keychain's answers)
func (w *world) allowed(host string) bool {
	a := w.c.Auth
	if a.None || a.B64Bad {
		return false
	}
	switch a.SAKind {
	case "empty":
		return true
	case "url":
		return a.SAHost == aliasHost(host)
	case "bare":
		return host == ""
	}
	return false
}

func (w *world) secretOf() (user, sec string) {
	a := w.c.Auth
	if a.User != "" {
		return a.User, a.Pass
	}
	return "", a.Token
}

// oracle: the clauses of C18, evaluated on one logged request (to a registry, a redirect location or a token server)
func (w *world) checkRequest(req *http.Request, body string) {
	u := req.URL.String()
	for i, name := range w.hostNames {
		carries := false
		for k := 0; k < 3; k++ {
			if _, ok := req.Header[hdrKey(i, k)]; ok {
				carries = true
			}
		}
		for _, vs := range req.Header {
			for _, v := range vs {
				if strings.Contains(v, secret(i)) {
					carries = true
				}
			}
		}
		if strings.Contains(body, secret(i)) || strings.Contains(u, secret(i)) {
			carries = true
		}
		if !carries {
			continue
		}
		if req.URL.Host != name {
			w.problems = append(w.problems, fmt.Sprintf("header configured for host %q sent to host %q (%s %s)", name, req.URL.Host, req.Method, u))
		} else if w.handedOut[u] && u != w.blobURLs[i] {
			w.problems = append(w.problems, fmt.Sprintf("header configured for host %q forwarded to the redirect location %s", name, u))
		}
	}
	// credentials
	user, sec := w.secretOf()
	if az := req.Header.Get("Authorization"); strings.HasPrefix(az, "Basic ") && !strings.HasPrefix(req.URL.Host, "auth-") {
		w.stats[1]++
		if !w.allowed(req.URL.Host) {
			w.problems = append(w.problems, fmt.Sprintf("credential sent to host %q although the pull named server address %q (%s)", req.URL.Host, w.c.Auth.SAText, u))
		} else if az != "Basic "+base64.StdEncoding.EncodeToString([]byte(user+":"+sec)) {
			w.problems = append(w.problems, fmt.Sprintf("credential sent to host %q is not the one of the pull request", req.URL.Host))
		}
	} else if strings.HasPrefix(az, "Bearer ") {
		w.stats[1]++
		// a token obtained on behalf of host j is presented to host j only
		var a, n, j int
		if _, err := fmt.Sscanf(az, "Bearer tok-%d-%d-svc%d", &a, &n, &j); err != nil || w.hostID(req.URL.Host) != j {
			w.problems = append(w.problems, fmt.Sprintf("bearer token %q presented to host %q", az, req.URL.Host))
		}
	}
	for _, p := range []string{w.c.Auth.Pass, w.c.Auth.Token} {
		if p == "" || strings.HasPrefix(req.URL.Host, "auth-") {
			continue
		}
		leak := strings.Contains(body, p) || strings.Contains(u, p)
		for _, vs := range req.Header {
			for _, v := range vs {
				dec, err := base64.StdEncoding.DecodeString(strings.TrimPrefix(v, "Basic "))
				if strings.Contains(v, p) || (err == nil && strings.Contains(string(dec), p)) {
					leak = true
				}
			}
		}
		if leak && !w.allowed(req.URL.Host) {
			w.problems = append(w.problems, fmt.Sprintf("the registry secret travels to host %q although the pull named server address %q", req.URL.Host, w.c.Auth.SAText))
		}
	}
}

func (w *world) record(q Req) {
	if w.curReqs != nil {
		*w.curReqs = append(*w.curReqs, q)
	}
}

func azOf(w *world, req *http.Request) string {
	az := req.Header.Get("Authorization")
	switch {
	case az == "":
		return ""
	case strings.HasPrefix(az, "Basic "):
		return fmt.Sprintf("basic:%d", w.hostID(req.URL.Host))
	case strings.HasPrefix(az, "Bearer "):
		var a, n, j int
		if _, err := fmt.Sscanf(az, "Bearer tok-%d-%d-svc%d", &a, &n, &j); err == nil {
			return fmt.Sprintf("bearer:%d:%d", j, n)
		}
	}
	return "?" + az
}

// RoundTrip: registries and redirect locations
func (w *world) RoundTrip(req *http.Request) (*http.Response, error) {
	var r Resp
	if w.storm {
		w.mu.Lock()
		defer w.mu.Unlock()
		r = genResp(w.stormRng, len(w.hostNames), "storm")
		if strings.HasPrefix(r.Chal, "bearer") {
			// no token fetches in the free-running phase: containerd's authHandler.doBearerAuth itself has a data race
			// (expirationTime of a token slot is written by the fetching goroutine outside the handler lock while
			// waiters read it under the lock), which would mask races of the code under test in the race tier
			r.Chal = "basic"
		}
	} else if w.cur != nil {
		t := w.cur
		t.parked <- "rt"
		r = <-t.resume
	} else if len(w.script) > 0 {
		r, w.script = w.script[0], w.script[1:]
	} else {
		r = Resp{Code: 200, WF: true}
	}
	w.checkRequest(req, "")
	u := req.URL.String()
	w.record(Req{Meth: req.Method, Loc: w.urlLoc(u), Hdr: w.hdrOf(req.Header), Az: azOf(w, req)})
	if strings.HasPrefix(w.urlLoc(u), "?") {
		w.problems = append(w.problems, "request to an unexpected URL "+u)
	}
	if req.Method != "GET" && req.Method != "HEAD" {
		w.problems = append(w.problems, "unexpected method "+req.Method)
	}
	if (req.URL.Scheme != "http" && req.URL.Scheme != "https") || req.URL.Host == "" {
		// what net/http's transport does with a URL that is not an absolute http(s) URL (e.g. a relative Location taken verbatim)
		return nil, errors.New("unsupported protocol scheme or no host")
	}
	if r.Err {
		return nil, errors.New("scripted transport error")
	}
	h := http.Header{}
	body := ""
	if l := w.locURL(r.Loc); l != "" {
		h.Set("Location", l)
		w.handedOut[l] = true
	}
	if r.Code == 401 && r.Chal != "" {
		w.stats[0]++
		j := w.hostID(req.URL.Host)
		switch {
		case r.Chal == "basic":
			h.Set("WWW-Authenticate", `Basic realm="verif"`)
		case r.Chal == "bearer:none":
			h.Set("WWW-Authenticate", fmt.Sprintf(`Bearer service="svc%d"`, j))
		default:
			var n int
			fmt.Sscanf(r.Chal, "bearer:%d", &n)
			v := fmt.Sprintf(`Bearer realm="%s",service="svc%d"`, realmURL(n), j)
			if strings.HasSuffix(r.Chal, ":err") {
				v += `,error="invalid_token"`
			}
			h.Set("WWW-Authenticate", v)
		}
	}
	switch {
	case r.Code == 206:
		body = "01"
		if r.WF {
			h.Set("Content-Type", "application/octet-stream")
			h.Set("Content-Range", "bytes 0-1/10")
			h.Set("Content-Length", "2")
		}
	default:
		body = "0123456789"
		if r.WF {
			h.Set("Content-Length", "10")
		} else {
			h.Set("Content-Length", "zz")
		}
	}
	if req.Method == "HEAD" {
		body = ""
	}
	return &http.Response{StatusCode: r.Code, Status: fmt.Sprintf("%d scripted", r.Code), Header: h,
		Body: io.NopCloser(strings.NewReader(body)), Request: req, Proto: "HTTP/1.1", ProtoMajor: 1, ProtoMinor: 1}, nil
}

// tokRT: the token servers, as seen by the authorizer of registry host number idx
type tokRT struct {
	w      *world
	idx    int
	issued int
}

func (t *tokRT) RoundTrip(req *http.Request) (*http.Response, error) {
	w := t.w
	var r Resp
	if w.storm {
		w.mu.Lock()
		defer w.mu.Unlock()
	}
	switch {
	case w.storm:
		r = Resp{Code: 200, WF: !w.stormRng.Chance(1, 6)}
	case w.cur != nil && len(w.curToks) > 0:
		r, w.curToks = w.curToks[0], w.curToks[1:]
	case w.cur == nil && len(w.script) > 0:
		r, w.script = w.script[0], w.script[1:]
	default:
		r = Resp{Code: 200, WF: true}
	}
	body := ""
	if req.Body != nil {
		b, _ := io.ReadAll(req.Body)
		body = string(b)
	}
	w.checkRequest(req, body)
	// which host is this token for, and does the request carry that host's credential
	svc, withCred := "", false
	var cu, cs string
	if req.Method == "POST" {
		form, _ := url.ParseQuery(body)
		svc = form.Get("service")
		if form.Get("grant_type") == "password" {
			withCred, cu, cs = true, form.Get("username"), form.Get("password")
		} else if form.Get("grant_type") == "refresh_token" {
			withCred, cu, cs = true, "", form.Get("refresh_token")
		}
	} else {
		svc = req.URL.Query().Get("service")
		if u, p, ok := req.BasicAuth(); ok {
			withCred, cu, cs = true, u, p
		}
	}
	j := -1
	fmt.Sscanf(svc, "svc%d", &j)
	var n int
	loc := "?" + req.URL.String()
	if _, err := fmt.Sscanf(req.URL.Host, "auth-%d.example", &n); err == nil && req.URL.Path == "/token" {
		loc = fmt.Sprintf("realm:%d", n)
	} else {
		w.problems = append(w.problems, "token request to an unexpected URL "+req.URL.String())
	}
	if withCred {
		w.stats[2]++
		// the credential goes to the token server named by host j: it must be one the pull allows for host j
		name := extHostName(j, w.hostNames)
		user, sec := w.secretOf()
		if j < 0 || !w.allowed(name) {
			w.problems = append(w.problems, fmt.Sprintf("credential sent to the token server on behalf of host %q although the pull named server address %q", name, w.c.Auth.SAText))
		} else if cu != user || cs != sec {
			w.problems = append(w.problems, fmt.Sprintf("credential sent to the token server on behalf of host %q is not the one of the pull request", name))
		}
	}
	cred := 0
	if withCred {
		cred = 1
	}
	w.record(Req{Meth: req.Method, Loc: loc, Hdr: w.hdrOf(req.Header), Az: fmt.Sprintf("tok:%d:%d", j, cred)})
	if r.Err {
		return nil, errors.New("scripted transport error")
	}
	out := "not json"
	if r.Code >= 200 && r.Code < 400 && r.WF {
		tok := fmt.Sprintf("tok-%d-%d-svc%d", t.idx, t.issued, j)
		t.issued++
		if req.Method == "POST" {
			out = fmt.Sprintf(`{"access_token":%q,"expires_in":3600}`, tok)
		} else {
			out = fmt.Sprintf(`{"token":%q,"expires_in":3600}`, tok)
		}
	}
	return &http.Response{StatusCode: r.Code, Status: fmt.Sprintf("%d scripted", r.Code), Header: http.Header{"Content-Type": {"application/json"}},
		Body: io.NopCloser(strings.NewReader(out)), Request: req, Proto: "HTTP/1.1", ProtoMajor: 1, ProtoMinor: 1}, nil
}

func (w *world) hook(where string) {
	if w.storm || w.cur == nil {
		return
	}
	t := w.cur
	t.parked <- "hook"
	<-t.resume
}

func validHost(n string) bool { return n != "" && !strings.Contains(n, "/") }

func headerTable(i int, m HostCfg) map[string]any {
	if !m.Tab {
		return nil
	}
	t := map[string]any{}
	for k, v := range m.Vals {
		switch v {
		case "s":
			t[hdrKey(i, k)] = secret(i)
		case "l":
			t[hdrKey(i, k)] = []any{secret(i), "second-" + secret(i)}
		case "x":
			t[hdrKey(i, k)] = []any{secret(i), 7}
		default:
			t[hdrKey(i, k)] = 42
		}
	}
	return t
}

// exec runs a case on the implementation. With g != nil the schedule is produced on line (the generator sees where
// each thread is held) and recorded in c.Ops; otherwise c.Ops is replayed.
func exec(c Case, g *generator) (Case, []string) {
	w := &world{c: &c, handedOut: map[string]bool{}, script: append([]Resp{}, c.Script...)}
	// registry hosts through the real configuration code
	var mirrors []resolver.MirrorConfig
	for i, m := range c.Mirrors {
		mirrors = append(mirrors, resolver.MirrorConfig{Host: m.Name, Header: headerTable(i, m)})
		w.hostNames = append(w.hostNames, m.Name)
		w.blobURLs = append(w.blobURLs, "https://"+m.Name+"/v2/team/app/blobs/"+dg+"?ns="+refHost)
	}
	w.hostNames = append(w.hostNames, refHost)
	w.blobURLs = append(w.blobURLs, "https://"+refHost+"/v2/team/app/blobs/"+dg)
	cfg := resolver.Config{Host: map[string]resolver.HostConfig{refHost: {Mirrors: mirrors}}}
	// the image was pulled through the CRI keychain
	creds, srv := crikc.VerifNewCRIKeychain(fakeCRI{})
	preq := &runtime.PullImageRequest{Image: &runtime.ImageSpec{Image: refStr}}
	if !c.Auth.None {
		preq.Auth = &runtime.AuthConfig{Username: c.Auth.User, Password: c.Auth.Pass, IdentityToken: c.Auth.Token, ServerAddress: c.Auth.SAText}
		if c.Auth.B64Bad {
			preq.Auth.Auth = "!!!"
		}
	}
	if _, err := srv.PullImage(context.Background(), preq); err != nil {
		panic(err)
	}
	real := resolver.RegistryHostsFromConfig(cfg, creds)
	hostsFn := source.RegistryHosts(func(ref reference.Spec) ([]docker.RegistryHost, error) {
		// the authorizers' own HTTP clients talk to the in-memory token servers
		resolver.VerifSetClientHook(func(cl *rhttp.Client) {
			cl.RetryMax = 0
			cl.HTTPClient.Transport = &tokRT{w: w, idx: w.nclients}
			w.nclients++
		})
		defer resolver.VerifSetClientHook(nil)
		hs, err := real(ref)
		if err != nil {
			return nil, err
		}
		for i := range hs {
			hs[i].Client = &http.Client{Transport: w} // in-memory registry instead of the network
		}
		return hs, nil
	})
	refspec, err := reference.Parse(refStr)
	if err != nil {
		panic(err)
	}
	desc := ocispec.Descriptor{Digest: digest.Digest(dg), Size: 10}

	remote.VerifSetSchedHook(w.hook)
	defer remote.VerifSetSchedHook(nil)

	// initial resolution
	c.ResReqs = []Req{}
	w.curReqs = &c.ResReqs
	c.Target, c.Final, c.Outs, c.HostsErr = nil, nil, nil, false
	if _, herr := real(refspec); herr != nil {
		c.HostsErr = true
	}
	vf, _, err := remote.VerifNewHTTPFetcher(context.Background(), hostsFn, refspec, desc)
	w.curReqs = nil
	if err != nil {
		c.AuthStats = w.stats
		return c, w.problems
	}
	hdrIdx := func(h http.Header) string { return fmt.Sprint(w.hdrOf(h)) }
	{
		u, h, b, _, _ := vf.State()
		c.Target = &[3]string{w.urlLoc(b), w.urlLoc(u), hdrIdx(h)}
	}

	// concurrent phase
	var threads []*thread
	run := func(t *thread, r Resp, toks []Resp, reqs *[]Req) {
		w.cur, w.curReqs, w.curToks = t, reqs, append([]Resp{}, toks...)
		if t.state == "rt" {
			t.last = r.Code
			if r.Err {
				t.last = -1
			}
		}
		t.resume <- r
		t.state = <-t.parked
		if t.state == "done" {
			t.done = true
		}
		w.cur, w.curReqs, w.curToks = nil, nil, nil
	}
	for i := 0; ; i++ {
		var o Op
		if g != nil {
			var more bool
			if o, more = g.next(threads); !more {
				break
			}
			c.Ops = append(c.Ops, o)
		} else if i < len(c.Ops) {
			o = c.Ops[i]
		} else {
			break
		}
		out := Out{Reqs: []Req{}, Done: -1}
		switch o.Op {
		case "spawn":
			t := &thread{resume: make(chan Resp), parked: make(chan string), state: "start"}
			threads = append(threads, t)
			o := o
			go func() {
				<-t.resume
				var err error
				if o.Kind == "check" {
					err = vf.Check()
				} else {
					regs := [][2]int64{{0, 1}}
					if o.Multi {
						regs = append(regs, [2]int64{4, 5})
					}
					err = vf.Fetch(context.Background(), regs, o.Retry)
				}
				t.ok = err == nil
				t.parked <- "done"
			}()
		case "resume":
			if o.T >= 0 && o.T < len(threads) {
				t := threads[o.T]
				if !t.done {
					run(t, o.R, o.Toks, &out.Reqs)
				}
				if t.done {
					out.Done = 0
					if t.ok {
						out.Done = 1
					}
				}
			}
		}
		c.Outs = append(c.Outs, out)
	}
	{
		u, h, _, _, single := vf.State()
		c.Final = &[3]string{w.urlLoc(u), hdrIdx(h), fmt.Sprint(single)}
	}
	// let every thread finish (their requests are still checked by the oracle)
	for _, t := range threads {
		for i := 0; !t.done && i < 20; i++ {
			var sink []Req
			run(t, Resp{Err: true}, nil, &sink)
		}
		if !t.done {
			w.problems = append(w.problems, "a fetch/check call does not terminate although every request fails")
		}
	}
	// epilogue (oracle only): whoever the fetcher currently talks to demands Basic credentials, then the registry host
	// itself demands a bearer token (through a URL refresh), then the location it redirects to does
	w.script = []Resp{{Code: 401, Chal: "basic"}, {Code: 206, WF: true}, {Code: 206, WF: true}}
	_ = vf.Check()
	w.script = []Resp{{Code: 403}, {Code: 401, Chal: "bearer:0"}, {Code: 200, WF: true}, {Code: 307, Loc: "ext:101:1", WF: true}, {Code: 401, Chal: "bearer:1"}, {Code: 200, WF: true}, {Code: 206, WF: true}}
	_ = vf.Check()
	w.script = []Resp{{Code: 401, Chal: "bearer:1"}, {Code: 200, WF: true}, {Code: 206, WF: true}}
	_ = vf.Check()
	w.script = nil
	if c.Storm > 0 {
		w.stormRng = hx.NewRng(c.Storm)
		w.storm = true
		var wg sync.WaitGroup
		for gi := 0; gi < 4; gi++ {
			wg.Add(1)
			go func(gi int) {
				defer wg.Done()
				for i := 0; i < 6; i++ {
					if (gi+i)%3 == 0 {
						_ = vf.Check()
					} else {
						_ = vf.Fetch(context.Background(), [][2]int64{{0, 1}}, true)
					}
				}
			}(gi)
		}
		wg.Wait()
		w.storm = false
	}
	c.AuthStats = w.stats
	return c, w.problems
}

// ---- generation ----

func genChal(r *hx.Rng) string {
	switch r.Pick(30, 45, 10, 15) {
	case 0:
		return "basic"
	case 1:
		return fmt.Sprintf("bearer:%d", r.Intn(nRealm))
	case 2:
		return fmt.Sprintf("bearer:%d:err", r.Intn(nRealm))
	default:
		return []string{"bearer:none", ""}[r.Intn(2)]
	}
}

func genResp(r *hx.Rng, nhosts int, bias string) Resp {
	loc := func() string {
		switch r.Pick(40, 12, 12, 8, 10, 6, 6, 6) {
		case 0:
			return fmt.Sprintf("ext:%d:%d", 100+r.Intn(nExt), r.Intn(3))
		case 1:
			return fmt.Sprintf("ext:%d:%d", r.Intn(nhosts), r.Intn(2))
		case 2:
			return fmt.Sprintf("blob:%d", r.Intn(nhosts))
		case 3:
			return ""
		case 4: // other spellings of an absolute URL: http, upper-case scheme, userinfo, fragment, other port
			return fmt.Sprintf("ext:%d:%d", []int{100, 110}[r.Intn(2)]+r.Intn(nExt), 3+r.Intn(nExtForms-3))
		case 5: // scheme-relative reference to another host
			return fmt.Sprintf("rel:%d:%d", []int{100, 110}[r.Intn(2)]+r.Intn(nExt), r.Intn(3))
		case 6: // scheme-relative reference to a registry host
			return fmt.Sprintf("rel:%d:%d", r.Intn(nhosts), r.Intn(3))
		default: // path-absolute, path-relative, query-only references
			return fmt.Sprintf("rel:-:%d", r.Intn(len(relTexts)))
		}
	}
	wf := !r.Chance(1, 12)
	var k int
	switch bias {
	case "resolve":
		k = r.Pick(40, 8, 28, 4, 4, 10, 3, 2, 3)
	case "storm": // many expiries and refreshes answered both ways
		k = r.Pick(20, 25, 15, 25, 3, 8, 1, 1, 2)
	default:
		k = r.Pick(24, 24, 11, 16, 6, 10, 3, 3, 3)
	}
	switch k {
	case 0:
		return Resp{Code: 200, WF: wf}
	case 1:
		return Resp{Code: 206, WF: wf}
	case 2:
		return Resp{Code: []int{301, 302, 307}[r.Intn(3)], Loc: loc(), WF: wf}
	case 3:
		return Resp{Code: 403, WF: wf}
	case 4:
		return Resp{Code: 400, WF: wf}
	case 5:
		return Resp{Code: 401, WF: wf, Chal: genChal(r)}
	case 6:
		return Resp{Code: []int{404, 416, 405}[r.Intn(3)], WF: wf, Chal: []string{"", "basic"}[r.Pick(4, 1)]} // a challenge on a non-401 is ignored
	case 7:
		return Resp{Code: 204, Loc: []string{"", "ext:101:1"}[r.Intn(2)], WF: wf} // 2xx that is not 200; Location on a 2xx is ignored
	default:
		return Resp{Err: true}
	}
}

// answers of the token servers
func genToks(r *hx.Rng) []Resp {
	var ts []Resp
	for i := r.Pick(55, 25, 20); i > 0; i-- {
		switch r.Pick(50, 8, 8, 8, 8, 8, 5, 5) {
		case 0:
			ts = append(ts, Resp{Code: 200, WF: true})
		case 1:
			ts = append(ts, Resp{Code: 200, WF: false})
		case 2:
			ts = append(ts, Resp{Code: 404})
		case 3:
			ts = append(ts, Resp{Code: 401})
		case 4:
			ts = append(ts, Resp{Code: 400, WF: true})
		case 5:
			ts = append(ts, Resp{Code: 405, WF: true})
		case 6:
			ts = append(ts, Resp{Code: 403, WF: true})
		default:
			ts = append(ts, Resp{Err: true})
		}
	}
	return ts
}

type generator struct {
	r      *hx.Rng
	nhosts int
	left   int
}

// next chooses the next op knowing where every thread is held.
func (g *generator) next(ts []*thread) (Op, bool) {
	r := g.r
	if g.left <= 0 {
		return Op{}, false
	}
	g.left--
	var live []int
	for i, t := range ts {
		if !t.done {
			live = append(live, i)
		}
	}
	if len(ts) < 5 && (len(live) == 0 || (len(live) < 3 && r.Chance(1, 4))) {
		o := Op{Op: "spawn", Kind: "fetch", Retry: !r.Chance(1, 6), Multi: r.Bool()}
		if r.Chance(1, 3) {
			o.Kind = "check"
		}
		return o, true
	}
	if len(live) == 0 && len(ts) >= 5 && r.Chance(2, 3) {
		return Op{}, false
	}
	if len(live) == 0 || r.Chance(1, 30) { // a finished or non-existent thread
		return Op{Op: "resume", T: r.Intn(len(ts) + 2), R: genResp(r, g.nhosts, "run")}, true
	}
	ti := live[r.Intn(len(live))]
	if ts[ti].state == "hook" && len(live) > 1 && r.Chance(2, 3) {
		// keep a thread that has read its target waiting while the others run (the window of the header race)
		ti = live[r.Intn(len(live))]
	}
	t := ts[ti]
	o := Op{Op: "resume", T: ti, Toks: genToks(r)}
	if t.state == "rt" {
		if t.last == 403 { // this request is the URL refresh: mostly a direct answer or a new location
			o.R = genResp(r, g.nhosts, "resolve")
		} else if t.last == 401 && r.Chance(2, 3) { // the resend after a challenge mostly succeeds
			o.R = Resp{Code: 206, WF: true}
		} else {
			o.R = genResp(r, g.nhosts, "run")
		}
	}
	return o, true
}

func genAuth(r *hx.Rng, names []string) Auth {
	a := Auth{}
	switch r.Pick(15, 45, 12, 18, 5, 5) {
	case 0:
		a.None = true
		return a
	case 1:
		a.User, a.Pass = "alice", "registry-password"
	case 2:
		a.User = "alice" // no password
	case 3:
		a.Token = "identity-token-xyz"
	case 4:
		a.B64Bad = true
	case 5: // nothing
	}
	switch r.Pick(40, 45, 7, 8) {
	case 0:
		a.SAKind = "empty"
	case 1:
		a.SAKind = "url"
		cands := append([]string{"cdn-0.example", "cdn-1.example", "auth-0.example"}, names...)
		a.SAHost = cands[r.Intn(len(cands))]
		if r.Chance(1, 2) {
			a.SAHost = names[r.Intn(len(names))]
		}
		a.SAText = "https://" + a.SAHost + []string{"", "/", "/v2/"}[r.Intn(3)]
	case 2:
		a.SAKind, a.SAText = "bare", names[len(names)-1]
	default:
		a.SAKind, a.SAText = "bad", "https://[::1"
	}
	return a
}

func gen(r *hx.Rng) (Case, *generator) {
	c := Case{}
	nm := r.Pick(15, 45, 30, 10)
	names := []string{}
	for i := 0; i < nm; i++ {
		m := HostCfg{Name: fmt.Sprintf("mirror-%d.example", i)}
		if r.Chance(1, 12) {
			m.Name = []string{"", "bad/host"}[r.Intn(2)]
		}
		if !r.Chance(1, 5) {
			m.Tab = true
			for k := r.Pick(8, 60, 25, 7); k > 0; k-- {
				m.Vals = append(m.Vals, []string{"s", "l", "x", "b"}[r.Pick(60, 36, 2, 2)])
			}
		}
		c.Mirrors = append(c.Mirrors, m)
		if validHost(m.Name) {
			names = append(names, m.Name)
		}
	}
	names = append(names, refHost)
	nh := nm + 1
	c.Auth = genAuth(r, names)
	for i := r.Intn(9); i > 0; i-- {
		c.Script = append(c.Script, genResp(r, nh, "resolve"))
	}
	if r.Chance(1, 2) {
		c.Storm = r.U64() | 1
	}
	return c, &generator{r: r, nhosts: nh, left: r.Range(4, 40)}
}

// ---- Coq printing ----

func coqLoc(l string) string {
	var h, n int
	if _, err := fmt.Sscanf(l, "ext:%d:%d", &h, &n); err == nil {
		return fmt.Sprintf("(Ext %d %d)", h, n)
	}
	if _, err := fmt.Sscanf(l, "rel:-:%d", &n); err == nil {
		return fmt.Sprintf("(Rel None %d)", n)
	}
	if _, err := fmt.Sscanf(l, "rel:%d:%d", &h, &n); err == nil {
		return fmt.Sprintf("(Rel (Some %d) %d)", h, n)
	}
	if _, err := fmt.Sscanf(l, "blob:%d", &n); err == nil {
		return fmt.Sprintf("(Blob %d)", n)
	}
	if _, err := fmt.Sscanf(l, "realm:%d", &n); err == nil {
		return fmt.Sprintf("(Realm %d)", n)
	}
	return "(Ext 999 999)" // unknown URL: never produced by the model
}

func (w *world) coqOptLoc(l string) string {
	if w.locURL(l) == "" {
		return "None"
	}
	return "(Some " + coqLoc(l) + ")"
}

func (w *world) coqResp(r Resp) string {
	if r.Err {
		return "RErr"
	}
	ch := "ChNone"
	switch {
	case r.Chal == "basic":
		ch = "ChBasic"
	case r.Chal == "bearer:none":
		ch = "(ChBearer None false)"
	case strings.HasPrefix(r.Chal, "bearer:"):
		var n int
		fmt.Sscanf(r.Chal, "bearer:%d", &n)
		ch = fmt.Sprintf("(ChBearer (Some %d) %s)", n, hx.CoqBool(strings.HasSuffix(r.Chal, ":err")))
	}
	return fmt.Sprintf("Resp %d %s %s %s", r.Code, w.coqOptLoc(r.Loc), hx.CoqBool(r.WF), ch)
}

func (w *world) coqResps(rs []Resp) string {
	s := make([]string, len(rs))
	for i, r := range rs {
		s[i] = w.coqResp(r)
	}
	return hx.CoqList(s)
}

func coqHdr(i int) string {
	if i < 0 {
		return "None"
	}
	return fmt.Sprintf("(Some %d)", i)
}

func coqAz(z string) string {
	var j, t int
	switch {
	case z == "":
		return "AzNone"
	case strings.HasPrefix(z, "basic:"):
		fmt.Sscanf(z, "basic:%d", &j)
		return fmt.Sprintf("(AzBasic %d)", j)
	case strings.HasPrefix(z, "bearer:"):
		fmt.Sscanf(z, "bearer:%d:%d", &j, &t)
		return fmt.Sprintf("(AzBearer %d %d)", j, t)
	case strings.HasPrefix(z, "tok:"):
		fmt.Sscanf(z, "tok:%d:%d", &j, &t)
		return fmt.Sprintf("(AzTok %d %s)", j, hx.CoqBool(t == 1))
	}
	return "(AzBasic 99999)" // unknown authorization: never produced by the model
}

func coqReqs(qs []Req) string {
	s := make([]string, len(qs))
	for i, q := range qs {
		s[i] = fmt.Sprintf("mkReq %s %s %s %s", q.Meth, coqLoc(q.Loc), coqHdr(q.Hdr), coqAz(q.Az))
	}
	return hx.CoqList(s)
}

func atoi(s string) int {
	var n int
	fmt.Sscanf(s, "%d", &n)
	return n
}

func coqStr(s string) string {
	if s == "" {
		return "[]"
	}
	return "(Creds.bs \"" + s + "\")"
}

func coqAuth(a Auth) string {
	if a.None {
		return "None"
	}
	sa := "Creds.SAEmpty" // the model parses the address text itself
	if a.SAKind != "empty" {
		sa = "(Creds.SAText " + coqStr(a.SAText) + ")"
	}
	b := "(Creds.B64 [])"
	if a.B64Bad {
		b = "Creds.B64Bad"
	}
	return fmt.Sprintf("(Some (Creds.mkAuth %s %s %s %s %s))", sa, coqStr(a.User), coqStr(a.Pass), coqStr(a.Token), b)
}

func coqCase(c Case) string {
	w := &world{c: &c}
	ms := make([]string, 0, len(c.Mirrors))
	names := []string{}
	for i, m := range c.Mirrors {
		w.hostNames = append(w.hostNames, m.Name)
		w.blobURLs = append(w.blobURLs, "x")
		tab := "None"
		if m.Tab {
			vs := make([]string, len(m.Vals))
			for k, v := range m.Vals {
				vs[k] = map[string]string{"s": "VStr", "l": "VList true", "x": "VList false", "b": "VBad"}[v]
			}
			tab = "(Some " + hx.CoqList(vs) + ")"
		}
		ms = append(ms, fmt.Sprintf("mkMirror %s %s", hx.CoqBool(validHost(m.Name)), tab))
		if validHost(m.Name) {
			names = append(names, fmt.Sprintf("(%d, %s)", i, coqStr(m.Name)))
		}
	}
	w.hostNames = append(w.hostNames, refHost)
	w.blobURLs = append(w.blobURLs, "x")
	names = append(names, fmt.Sprintf("(%d, %s)", len(c.Mirrors), coqStr(refHost)))
	for k := 0; k < nExt; k++ {
		names = append(names, fmt.Sprintf("(%d, %s)", 100+k, coqStr(fmt.Sprintf("cdn-%d.example", k))))
		names = append(names, fmt.Sprintf("(%d, %s)", 110+k, coqStr(fmt.Sprintf("cdn-%d.example:8443", k))))
	}
	ops := make([]string, len(c.Ops))
	for i, o := range c.Ops {
		if o.Op == "spawn" {
			k := "KFetch"
			if o.Kind == "check" {
				k = "KCheck"
			}
			ops[i] = fmt.Sprintf("Spawn %s %s", k, hx.CoqBool(o.Retry))
		} else {
			t := o.T
			if t < 0 {
				t = 9999
			}
			ops[i] = fmt.Sprintf("Resume %d (%s) %s", t, w.coqResp(o.R), w.coqResps(o.Toks))
		}
	}
	target, final := "None", "None"
	if c.Target != nil {
		target = fmt.Sprintf("(Some (%d, %s, %s))", atoi(strings.TrimPrefix(c.Target[0], "blob:")), coqLoc(c.Target[1]), coqHdr(atoi(c.Target[2])))
	}
	outs := make([]string, len(c.Outs))
	for i, o := range c.Outs {
		d := "None"
		if o.Done == 0 {
			d = "(Some false)"
		} else if o.Done == 1 {
			d = "(Some true)"
		}
		outs[i] = fmt.Sprintf("(%s, %s)", coqReqs(o.Reqs), d)
	}
	if c.Final != nil {
		final = fmt.Sprintf("(Some (%s, %s, %s))", coqLoc(c.Final[0]), coqHdr(atoi(c.Final[1])), c.Final[2])
	}
	return fmt.Sprintf("mkCase %s %s %s %s %s %s %s %s %s", hx.CoqList(ms), coqAuth(c.Auth), hx.CoqList(names), w.coqResps(c.Script), hx.CoqList(ops),
		coqReqs(c.ResReqs), target, hx.CoqList(outs), final)
}

func main() {
	ctx := hx.Start()
	clog.SetLevel("error") // the fetcher logs every refresh at info level
	emit := func(c Case, g *generator) {
		c, problems := exec(c, g)
		for _, m := range c.Mirrors {
			switch {
			case !m.Tab:
				ctx.Count("mirror.table.nil")
			case len(m.Vals) == 0:
				ctx.Count("mirror.table.empty")
			case len(m.Vals) > 1:
				ctx.Count("mirror.table.multi")
			default:
				ctx.Count("mirror.table.one")
			}
			for _, v := range m.Vals {
				ctx.Count("mirror.value." + v)
			}
			if !validHost(m.Name) {
				ctx.Count("mirror.invalid")
			}
		}
		ctx.Count(fmt.Sprintf("mirrors.%d", len(c.Mirrors)))
		switch {
		case c.Auth.None:
			ctx.Count("pull.noauth")
		case c.Auth.B64Bad:
			ctx.Count("pull.badauth")
		case c.Auth.User != "" && c.Auth.Pass != "":
			ctx.Count("pull.userpass")
		case c.Auth.User != "":
			ctx.Count("pull.useronly")
		case c.Auth.Token != "":
			ctx.Count("pull.token")
		}
		if !c.Auth.None {
			ctx.Count("pull.sa." + c.Auth.SAKind)
		}
		if c.HostsErr {
			ctx.Count("hosts.error")
		}
		countLoc := func(r Resp) {
			switch {
			case r.Err || r.Code/100 != 3 || r.Loc == "":
			case strings.HasPrefix(r.Loc, "rel:-"):
				ctx.Count("location.no-host-reference")
			case strings.HasPrefix(r.Loc, "rel:"):
				ctx.Count("location.scheme-relative")
			case strings.HasPrefix(r.Loc, "ext:") && atoi(r.Loc[strings.LastIndex(r.Loc, ":")+1:]) >= 3:
				ctx.Count("location.absolute-other-spelling")
			case strings.HasPrefix(r.Loc, "ext:11"):
				ctx.Count("location.absolute-other-port")
			default:
				ctx.Count("location.absolute")
			}
		}
		for _, r := range c.Script {
			countLoc(r)
		}
		for _, o := range c.Ops {
			countLoc(o.R)
		}
		if c.Storm > 0 {
			ctx.Count("storm")
		}
		redirected, refreshed, withHdr, withAz := false, false, false, false
		countReq := func(q Req) {
			if q.Hdr >= 0 {
				withHdr = true
				ctx.Count("req.with-header")
			}
			if strings.HasPrefix(q.Loc, "ext:") {
				redirected = true
				ctx.Count("req.to-redirect-location")
			}
			if strings.HasPrefix(q.Loc, "rel:") {
				ctx.Count("req.to-relative-location")
			}
			switch {
			case strings.HasPrefix(q.Az, "basic"):
				withAz = true
				ctx.Count("req.az.basic")
			case strings.HasPrefix(q.Az, "bearer"):
				withAz = true
				ctx.Count("req.az.bearer")
			case strings.HasSuffix(q.Az, ":1") && strings.HasPrefix(q.Az, "tok"):
				withAz = true
				ctx.Count("req.token.with-credential")
			case strings.HasPrefix(q.Az, "tok"):
				ctx.Count("req.token.anonymous")
			}
		}
		for _, q := range c.ResReqs {
			ctx.Count("req.resolve")
			countReq(q)
		}
		if c.Target == nil {
			ctx.Count("resolve.failed")
		} else {
			ctx.Count("resolve.ok")
			if c.Target[0] != fmt.Sprintf("blob:%d", len(c.Mirrors)) {
				ctx.Count("resolve.ok.mirror")
			}
			if c.Target[0] != c.Target[1] {
				ctx.Count("resolve.ok.redirected")
			}
			for i, o := range c.Ops {
				ctx.Count("op." + o.Op)
				if o.Op == "spawn" {
					ctx.Count("spawn." + o.Kind)
				}
				if i >= len(c.Outs) {
					continue
				}
				for _, q := range c.Outs[i].Reqs {
					ctx.Count("req.run")
					countReq(q)
				}
				if len(c.Outs[i].Reqs) > 0 && o.Op == "resume" && !o.R.Err {
					switch {
					case o.R.Code == 403:
						ctx.Count("answer.403")
						refreshed = true
					case o.R.Code == 400:
						ctx.Count("answer.400")
					case o.R.Code == 401:
						ctx.Count("answer.401")
						if o.R.Chal != "" {
							ctx.Count("answer.401." + strings.SplitN(o.R.Chal, ":", 2)[0])
						}
					case o.R.Code/100 == 3:
						ctx.Count("answer.3xx")
					case o.R.Code/100 == 2:
						ctx.Count("answer.2xx")
					}
				}
				if c.Outs[i].Done == 1 {
					ctx.Count("done.ok")
				} else if c.Outs[i].Done == 0 {
					ctx.Count("done.failed")
				}
			}
			if c.Final != nil && c.Final[2] == "true" {
				ctx.Count("final.single-range")
			}
			if c.Final != nil && (c.Final[0] != c.Target[1] || c.Final[1] != c.Target[2]) {
				ctx.Count("final.target-changed")
			}
		}
		if c.AuthStats[0] > 0 {
			ctx.Count("auth.challenged")
		}
		if c.AuthStats[1] > 0 {
			ctx.Count("auth.authorization-sent")
		}
		if c.AuthStats[2] > 0 {
			ctx.Count("auth.credential-to-token-server")
		}
		term := coqCase(c)
		id := ctx.Case(term, c, term, (redirected && refreshed && withHdr) || (withAz && withHdr))
		for _, p := range problems {
			ctx.Violation(id, p, nil)
		}
	}
	if ctx.Replay != "" {
		var c Case
		ctx.LoadReplay(&c)
		emit(c, nil)
		ctx.Finish()
		return
	}
	ok := Resp{Code: 206, WF: true}
	tokOK := []Resp{{Code: 200, WF: true}}
	redir := func(l string) Resp { return Resp{Code: 307, Loc: l, WF: true} }
	m1 := []HostCfg{{Name: "mirror-0.example", Tab: true, Vals: []string{"s"}}}
	up := func(sa string) Auth {
		a := Auth{User: "alice", Pass: "registry-password", SAKind: "empty"}
		if sa != "" {
			a.SAKind, a.SAHost, a.SAText = "url", sa, "https://"+sa+"/v2/"
		}
		return a
	}
	corpus := []Case{
		// direct: headers go to the mirror on every path; fetch, check
		{Mirrors: m1, Auth: Auth{None: true}, Ops: []Op{{Op: "spawn", Kind: "fetch", Retry: true}, {Op: "resume", T: 0}, {Op: "resume", T: 0}, {Op: "resume", T: 0, R: ok},
			{Op: "spawn", Kind: "check"}, {Op: "resume", T: 1}, {Op: "resume", T: 1}, {Op: "resume", T: 1, R: ok}}},
		// redirected: nothing to the CDN; expiry (403) -> refresh -> new location
		{Mirrors: m1, Auth: up("mirror-0.example"), Script: []Resp{redir("ext:100:0"), {Code: 405}, ok}, Ops: []Op{{Op: "spawn", Kind: "fetch", Retry: true}, {Op: "resume", T: 0}, {Op: "resume", T: 0},
			{Op: "resume", T: 0, R: Resp{Code: 403}}, {Op: "resume", T: 0, R: redir("ext:101:1")}, {Op: "resume", T: 0}, {Op: "resume", T: 0, R: ok}}},
		// the race the fix closes: A has read the (redirected) target, B's refresh is answered directly and installs
		// the registry headers, then A builds and sends its request to the old location
		{Mirrors: m1, Auth: Auth{None: true}, Storm: 7, Script: []Resp{redir("ext:100:0")}, Ops: []Op{{Op: "spawn", Kind: "fetch", Retry: true}, {Op: "spawn", Kind: "check"},
			{Op: "resume", T: 0}, {Op: "resume", T: 1}, {Op: "resume", T: 1}, {Op: "resume", T: 1, R: Resp{Code: 403}}, {Op: "resume", T: 1, R: Resp{Code: 200, WF: true}},
			{Op: "resume", T: 0}, {Op: "resume", T: 0, R: ok}}},
		// first mirror fails, second redirects to the first mirror's blob URL, 400 -> single range retry; a table with a
		// header-less host between two configured ones
		{Mirrors: []HostCfg{{Name: "mirror-0.example", Tab: true, Vals: []string{"l", "s"}}, {Name: "mirror-1.example"}, {Name: "mirror-2.example", Tab: true, Vals: []string{"s"}}},
			Auth: up(""), Script: []Resp{{Code: 404}, {Code: 404}, redir("blob:0"), {Code: 200, WF: true}},
			Ops: []Op{{Op: "spawn", Kind: "fetch", Retry: true, Multi: true}, {Op: "resume", T: 0}, {Op: "resume", T: 0}, {Op: "resume", T: 0, R: Resp{Code: 400}},
				{Op: "resume", T: 0}, {Op: "resume", T: 0, R: ok}}},
		// a header value of a wrong type: the hosts function fails, nothing is contacted
		{Mirrors: []HostCfg{{Name: "mirror-0.example", Tab: true, Vals: []string{"s", "b"}}}, Auth: up("")},
		// bearer challenge during resolution on the mirror (token fetched with the password), the redirect location challenges
		// too (server address names the mirror: anonymous token), token reuse, basic challenge refused on the CDN
		{Mirrors: m1, Auth: up("mirror-0.example"), Script: []Resp{{Code: 401, Chal: "bearer:0"}, {Code: 200, WF: true}, redir("ext:100:0"), {Code: 401, Chal: "bearer:1"}, {Code: 200, WF: true}, {Code: 200, WF: true}},
			Ops: []Op{{Op: "spawn", Kind: "fetch", Retry: true}, {Op: "resume", T: 0}, {Op: "resume", T: 0}, {Op: "resume", T: 0, R: Resp{Code: 403}, Toks: tokOK},
				{Op: "resume", T: 0, R: redir("ext:101:1")}, {Op: "resume", T: 0}, {Op: "resume", T: 0, R: Resp{Code: 401, Chal: "basic"}},
				{Op: "spawn", Kind: "check"}, {Op: "resume", T: 1}, {Op: "resume", T: 1}, {Op: "resume", T: 1, R: Resp{Code: 401, Chal: "bearer:1"}, Toks: []Resp{{Code: 404}, {Code: 200, WF: true}}}, {Op: "resume", T: 1, R: ok}}},
		// no server address named: the credential follows every challenge, POST refused -> GET with basic auth, invalid_token
		{Mirrors: m1, Auth: up(""), Script: []Resp{redir("ext:100:0"), {Code: 401, Chal: "basic"}, {Code: 200, WF: true}},
			Ops: []Op{{Op: "spawn", Kind: "fetch", Retry: true}, {Op: "resume", T: 0}, {Op: "resume", T: 0}, {Op: "resume", T: 0, R: Resp{Code: 403}},
				{Op: "resume", T: 0, R: Resp{Code: 401, Chal: "bearer:0"}, Toks: []Resp{{Code: 401}, {Code: 200, WF: true}}}, {Op: "resume", T: 0, R: Resp{Code: 200, WF: true}},
				{Op: "resume", T: 0}, {Op: "resume", T: 0, R: Resp{Code: 401, Chal: "bearer:0:err"}, Toks: tokOK}, {Op: "resume", T: 0, R: ok}}},
	}
	// deterministic sweep over Location forms: the resolution is redirected to the form (size probe follows), a fetch runs,
	// the location expires (403), the refresh is redirected to the next form, the fetch retries, a check runs
	forms := []string{"ext:100:0", "ext:100:3", "ext:100:4", "ext:100:5", "ext:100:6", "ext:110:0", "ext:0:1", "blob:1",
		"rel:100:0", "rel:110:1", "rel:0:2", "rel:1:0", "rel:-:0", "rel:-:1", "rel:-:2", "rel:-:3"}
	m2 := []HostCfg{{Name: "mirror-0.example", Tab: true, Vals: []string{"s"}}, {Name: "mirror-1.example", Tab: true, Vals: []string{"l"}}}
	for i, f := range forms {
		g := forms[(i+5)%len(forms)]
		corpus = append(corpus, Case{Mirrors: m2, Auth: up("mirror-0.example"), Script: []Resp{redir(f), {Code: 405}, ok},
			Ops: []Op{{Op: "spawn", Kind: "fetch", Retry: true}, {Op: "resume", T: 0}, {Op: "resume", T: 0}, {Op: "resume", T: 0, R: Resp{Code: 403}},
				{Op: "resume", T: 0, R: redir(g)}, {Op: "resume", T: 0}, {Op: "resume", T: 0, R: ok},
				{Op: "spawn", Kind: "check"}, {Op: "resume", T: 1}, {Op: "resume", T: 1}, {Op: "resume", T: 1, R: Resp{Code: 403}}, {Op: "resume", T: 1, R: redir(f)},
				{Op: "spawn", Kind: "fetch", Retry: true}, {Op: "resume", T: 2}, {Op: "resume", T: 2}, {Op: "resume", T: 2, R: ok}}})
	}
	for _, c := range corpus {
		emit(c, nil)
	}
	r := hx.NewRng(ctx.Seed)
	for i := len(corpus); i < ctx.N; i++ {
		c, g := gen(r.Fork())
		emit(c, g)
	}
	ctx.Finish()
}
