// C18 correspondence harness, header half: drives the real HTTP fetcher of fs/remote (newHTTPFetcher = initial
// resolution + size probe, fetch incl. 403-refresh and 400-retry, check, refreshURL) over registry hosts built by the
// real resolver.RegistryHostsFromConfig (per-host header configuration), against an in-memory round tripper that
// logs every request and answers as scripted. Concurrent fetch/check calls are goroutines run under a deterministic
// scheduler (one runs at a time; they are held at the fetcher's scheduling point and at every request).
// Prints the observations as Coq terms for Model/Headers.v; the model-free oracle checks every logged request.
package main

import (
	"context"
	"encoding/base64"
	"errors"
	"fmt"
	"io"
	"net/http"
	"strings"

	"github.com/containerd/containerd/v2/core/remotes/docker"
	"github.com/containerd/containerd/v2/pkg/reference"
	clog "github.com/containerd/log"
	"github.com/containerd/stargz-snapshotter/fs/remote"
	"github.com/containerd/stargz-snapshotter/fs/source"
	crikc "github.com/containerd/stargz-snapshotter/service/keychain/cri"
	"github.com/containerd/stargz-snapshotter/service/resolver"
	digest "github.com/opencontainers/go-digest"
	ocispec "github.com/opencontainers/image-spec/specs-go/v1"
	"google.golang.org/grpc"
	runtime "k8s.io/cri-api/pkg/apis/runtime/v1"
	"verif/harness/hx"
)

const (
	refHost = "reg.example"
	refStr  = refHost + "/team/app:1"
	dg      = "sha256:0123456789abcdef0123456789abcdef0123456789abcdef0123456789abcdef"
)

// ---- case ----

type HostCfg struct {
	Name string `json:"name"` // mirror host name ("" and names with '/' are invalid destinations)
	Hdr  int    `json:"hdr"`  // 0 none, 1 string-valued header, 2 list-valued header, 3 empty header table
}

type Resp struct {
	Err  bool   `json:"err"`
	Code int    `json:"code"`
	Loc  string `json:"loc"` // "" | "ext:N" | "blob:I"
	WF   bool   `json:"wf"`
	Chal bool   `json:"chal,omitempty"` // epilogue only: WWW-Authenticate: Basic
}

type Op struct {
	Op    string `json:"op"`   // spawn | resume
	Kind  string `json:"kind"` // fetch | check
	Retry bool   `json:"retry"`
	Multi bool   `json:"multi"` // fetch two regions
	T     int    `json:"t"`
	R     Resp   `json:"r"`
}

type Req struct {
	Head bool   `json:"head"`
	Loc  string `json:"loc"` // blob:I | ext:N | ?url
	Hdr  int    `json:"hdr"` // -1 none, i = carries the header configured for host i
}

type Out struct {
	Reqs []Req `json:"reqs"`
	Done int   `json:"done"` // -1 not finished, 0 failed, 1 ok
}

type Case struct {
	Mirrors []HostCfg `json:"mirrors"`
	Script  []Resp    `json:"script"`
	Ops     []Op      `json:"ops"`
	// credential epilogue (oracle only, not part of the Coq term): the image was pulled through the CRI keychain with
	// user/password and this server address ("" = no pull, "empty" = none named, otherwise the address text); after the
	// schedule one more check call is answered 401 + Basic challenge, then 206
	AuthSA string `json:"auth_sa"`
	// observed
	ResReqs   []Req      `json:"res_reqs,omitempty"`
	Target    *[3]string `json:"target,omitempty"`
	Outs      []Out      `json:"outs,omitempty"`
	Final     *[3]string `json:"final,omitempty"`
	AuthStats [2]int     `json:"auth_stats"` // challenges issued, requests that carried an Authorization header
}

// ---- world ----

type world struct {
	hostNames []string // index -> host name (mirrors..., origin)
	blobURLs  []string
	problems  []string
	handedOut map[string]bool // redirect locations the registry has answered with
	script    []Resp
	cur       *thread
	curReqs   *[]Req
	cleanup   bool
	authSA    string
	authSent  int
	authAsked int
}

// fake backend CRI for the keychain
type fakeCRI struct{}

func (fakeCRI) ListImages(ctx context.Context, in *runtime.ListImagesRequest, opts ...grpc.CallOption) (*runtime.ListImagesResponse, error) {
	return &runtime.ListImagesResponse{}, nil
}
func (fakeCRI) ImageStatus(ctx context.Context, in *runtime.ImageStatusRequest, opts ...grpc.CallOption) (*runtime.ImageStatusResponse, error) {
	return &runtime.ImageStatusResponse{}, nil
}
func (fakeCRI) PullImage(ctx context.Context, in *runtime.PullImageRequest, opts ...grpc.CallOption) (*runtime.PullImageResponse, error) {
	return &runtime.PullImageResponse{}, nil
}
func (fakeCRI) RemoveImage(ctx context.Context, in *runtime.RemoveImageRequest, opts ...grpc.CallOption) (*runtime.RemoveImageResponse, error) {
	return &runtime.RemoveImageResponse{}, nil
}
func (fakeCRI) ImageFsInfo(ctx context.Context, in *runtime.ImageFsInfoRequest, opts ...grpc.CallOption) (*runtime.ImageFsInfoResponse, error) {
	return &runtime.ImageFsInfoResponse{}, nil
}

const (
	kcUser = "alice"
	kcPass = "registry-password"
)

type thread struct {
	resume chan Resp
	parked chan string
	state  string // start | hook | rt | done
	last   int    // status code of the last answer it received
	done   bool
	ok     bool
}

func hdrKey(i int) string { return fmt.Sprintf("X-Verif-Reg-%d", i) }
func secret(i int) string { return fmt.Sprintf("secret-of-host-%d", i) }

func extURL(n int) string {
	if n >= 10 { // a different URL on the first registry host itself
		return fmt.Sprintf("https://mirror-0.example/other/%d", n)
	}
	return fmt.Sprintf("https://cdn-%d.example/data?sig=%d", n, n)
}

func (w *world) locURL(l string) string {
	var n int
	if _, err := fmt.Sscanf(l, "ext:%d", &n); err == nil {
		return extURL(n)
	}
	if _, err := fmt.Sscanf(l, "blob:%d", &n); err == nil && n >= 0 && n < len(w.blobURLs) {
		return w.blobURLs[n]
	}
	return ""
}

func (w *world) urlLoc(u string) string {
	for i, b := range w.blobURLs {
		if u == b {
			return fmt.Sprintf("blob:%d", i)
		}
	}
	for _, n := range []int{0, 1, 2, 10, 11} {
		if u == extURL(n) {
			return fmt.Sprintf("ext:%d", n)
		}
	}
	return "?" + u
}

func (w *world) hdrOf(h http.Header) int {
	found := -1
	for i := range w.hostNames {
		if _, ok := h[hdrKey(i)]; ok {
			if found >= 0 {
				w.problems = append(w.problems, "one request carries the headers of two hosts")
			}
			found = i
		}
	}
	return found
}

// oracle: the clauses of C18 about headers, evaluated on one logged request
func (w *world) checkRequest(req *http.Request) {
	u := req.URL.String()
	for i, name := range w.hostNames {
		carries := false
		if _, ok := req.Header[hdrKey(i)]; ok {
			carries = true
		}
		for _, vs := range req.Header {
			for _, v := range vs {
				if strings.Contains(v, secret(i)) {
					carries = true
				}
			}
		}
		if !carries {
			continue
		}
		if req.URL.Host != name {
			w.problems = append(w.problems, fmt.Sprintf("header configured for host %q sent to host %q (%s %s)", name, req.URL.Host, req.Method, u))
		} else if w.handedOut[u] && u != w.blobURLs[i] {
			w.problems = append(w.problems, fmt.Sprintf("header configured for host %q forwarded to the redirect location %s", name, u))
		}
	}
	if strings.HasPrefix(w.urlLoc(u), "?") {
		w.problems = append(w.problems, "request to an unexpected URL "+u)
	}
	// credentials (clauses of C18 evaluated on the pull request the case made, not on the keychain's answers): the
	// password may only travel to a host that the pull's server address names, or anywhere if it named none
	allowed := w.authSA == "empty" || (w.authSA != "" && saHost(w.authSA) == req.URL.Host)
	if az := req.Header.Get("Authorization"); az != "" {
		w.authSent++
		if !allowed {
			w.problems = append(w.problems, fmt.Sprintf("credential sent to host %q although the pull named server address %q (%s)", req.URL.Host, w.authSA, u))
		} else if az != "Basic "+base64.StdEncoding.EncodeToString([]byte(kcUser+":"+kcPass)) {
			w.problems = append(w.problems, fmt.Sprintf("credential sent to host %q is not the one of the pull request", req.URL.Host))
		}
	}
	for _, vs := range req.Header {
		for _, v := range vs {
			dec, err := base64.StdEncoding.DecodeString(strings.TrimPrefix(v, "Basic "))
			if ((err == nil && strings.Contains(string(dec), kcPass)) || strings.Contains(v, kcPass)) && !allowed {
				w.problems = append(w.problems, fmt.Sprintf("the registry password travels to host %q although the pull named server address %q", req.URL.Host, w.authSA))
			}
		}
	}
}

// saHost is the host part of a server address the generator wrote ("scheme://host[/path]").
func saHost(sa string) string {
	s := strings.TrimPrefix(strings.TrimPrefix(sa, "https://"), "http://")
	if i := strings.IndexByte(s, '/'); i >= 0 {
		s = s[:i]
	}
	return s
}

func (w *world) RoundTrip(req *http.Request) (*http.Response, error) {
	var r Resp
	if w.cur != nil {
		t := w.cur
		t.parked <- "rt"
		r = <-t.resume
	} else if len(w.script) > 0 {
		r, w.script = w.script[0], w.script[1:]
	} else {
		r = Resp{Code: 200, WF: true}
	}
	w.checkRequest(req)
	if w.curReqs != nil {
		*w.curReqs = append(*w.curReqs, Req{Head: req.Method == "HEAD", Loc: w.urlLoc(req.URL.String()), Hdr: w.hdrOf(req.Header)})
	}
	if req.Method != "GET" && req.Method != "HEAD" {
		w.problems = append(w.problems, "unexpected method "+req.Method)
	}
	if r.Err {
		return nil, errors.New("scripted transport error")
	}
	h := http.Header{}
	body := ""
	if l := w.locURL(r.Loc); l != "" {
		h.Set("Location", l)
		w.handedOut[l] = true
	}
	if r.Chal {
		h.Set("WWW-Authenticate", `Basic realm="verif"`)
		w.authAsked++
	}
	switch {
	case r.Code == 206:
		body = "01"
		if r.WF {
			h.Set("Content-Type", "application/octet-stream")
			h.Set("Content-Range", "bytes 0-1/10")
			h.Set("Content-Length", "2")
		}
	default:
		body = "0123456789"
		if r.WF {
			h.Set("Content-Length", "10")
		} else {
			h.Set("Content-Length", "zz")
		}
	}
	if req.Method == "HEAD" {
		body = ""
	}
	return &http.Response{StatusCode: r.Code, Status: fmt.Sprintf("%d scripted", r.Code), Header: h,
		Body: io.NopCloser(strings.NewReader(body)), Request: req, Proto: "HTTP/1.1", ProtoMajor: 1, ProtoMinor: 1}, nil
}

func (w *world) hook(where string) {
	if w.cur == nil {
		return
	}
	t := w.cur
	t.parked <- "hook"
	<-t.resume
}

func validHost(n string) bool { return n != "" && !strings.Contains(n, "/") }

// exec runs a case on the implementation. With g != nil the schedule is produced on line (the generator sees where
// each thread is held) and recorded in c.Ops; otherwise c.Ops is replayed.
func exec(c Case, g *generator) (Case, []string) {
	w := &world{handedOut: map[string]bool{}, script: append([]Resp{}, c.Script...)}
	// registry hosts through the real configuration code
	var mirrors []resolver.MirrorConfig
	for i, m := range c.Mirrors {
		mc := resolver.MirrorConfig{Host: m.Name}
		switch m.Hdr {
		case 1:
			mc.Header = map[string]any{hdrKey(i): secret(i)}
		case 2:
			mc.Header = map[string]any{hdrKey(i): []any{secret(i), "second-" + secret(i)}}
		case 3:
			mc.Header = map[string]any{}
		}
		mirrors = append(mirrors, mc)
		w.hostNames = append(w.hostNames, m.Name)
		w.blobURLs = append(w.blobURLs, "https://"+m.Name+"/v2/team/app/blobs/"+dg+"?ns="+refHost)
	}
	w.hostNames = append(w.hostNames, refHost)
	w.blobURLs = append(w.blobURLs, "https://"+refHost+"/v2/team/app/blobs/"+dg)
	cfg := resolver.Config{Host: map[string]resolver.HostConfig{refHost: {Mirrors: mirrors}}}
	var credFns []resolver.Credential
	if c.AuthSA != "" {
		creds, srv := crikc.VerifNewCRIKeychain(fakeCRI{})
		sa := c.AuthSA
		if sa == "empty" {
			sa = ""
		}
		if _, err := srv.PullImage(context.Background(), &runtime.PullImageRequest{Image: &runtime.ImageSpec{Image: refStr},
			Auth: &runtime.AuthConfig{Username: kcUser, Password: kcPass, ServerAddress: sa}}); err != nil {
			panic(err)
		}
		w.authSA = c.AuthSA
		credFns = append(credFns, creds)
	}
	real := resolver.RegistryHostsFromConfig(cfg, credFns...)
	hostsFn := source.RegistryHosts(func(ref reference.Spec) ([]docker.RegistryHost, error) {
		hs, err := real(ref)
		if err != nil {
			return nil, err
		}
		for i := range hs {
			hs[i].Client = &http.Client{Transport: w} // in-memory registry instead of the network
		}
		return hs, nil
	})
	refspec, err := reference.Parse(refStr)
	if err != nil {
		panic(err)
	}
	desc := ocispec.Descriptor{Digest: digest.Digest(dg), Size: 10}

	remote.VerifSetSchedHook(w.hook)
	defer remote.VerifSetSchedHook(nil)

	// initial resolution
	w.curReqs = &c.ResReqs
	c.ResReqs = []Req{}
	vf, _, err := remote.VerifNewHTTPFetcher(context.Background(), hostsFn, refspec, desc)
	w.curReqs = nil
	c.Target, c.Final, c.Outs = nil, nil, nil
	if err != nil {
		return c, w.problems
	}
	hdrIdx := func(h http.Header) string { return fmt.Sprint(w.hdrOf(h)) }
	{
		u, h, b, _, _ := vf.State()
		c.Target = &[3]string{w.urlLoc(b), w.urlLoc(u), hdrIdx(h)}
	}

	// concurrent phase
	var threads []*thread
	run := func(t *thread, r Resp, reqs *[]Req) {
		w.cur, w.curReqs = t, reqs
		if t.state == "rt" {
			t.last = r.Code
			if r.Err {
				t.last = -1
			}
		}
		t.resume <- r
		t.state = <-t.parked
		if t.state == "done" {
			t.done = true
		}
		w.cur, w.curReqs = nil, nil
	}
	for i := 0; ; i++ {
		var o Op
		if g != nil {
			var more bool
			if o, more = g.next(threads); !more {
				break
			}
			c.Ops = append(c.Ops, o)
		} else if i < len(c.Ops) {
			o = c.Ops[i]
		} else {
			break
		}
		out := Out{Reqs: []Req{}, Done: -1}
		switch o.Op {
		case "spawn":
			t := &thread{resume: make(chan Resp), parked: make(chan string), state: "start"}
			threads = append(threads, t)
			o := o
			go func() {
				<-t.resume
				var err error
				if o.Kind == "check" {
					err = vf.Check()
				} else {
					regs := [][2]int64{{0, 1}}
					if o.Multi {
						regs = append(regs, [2]int64{4, 5})
					}
					err = vf.Fetch(context.Background(), regs, o.Retry)
				}
				t.ok = err == nil
				t.parked <- "done"
			}()
		case "resume":
			if o.T >= 0 && o.T < len(threads) {
				t := threads[o.T]
				if !t.done {
					run(t, o.R, &out.Reqs)
				}
				if t.done {
					out.Done = 0
					if t.ok {
						out.Done = 1
					}
				}
			}
		}
		c.Outs = append(c.Outs, out)
	}
	{
		u, h, _, _, single := vf.State()
		c.Final = &[3]string{w.urlLoc(u), hdrIdx(h), fmt.Sprint(single)}
	}
	// let every thread finish (their requests are still checked by the oracle)
	w.cleanup = true
	for _, t := range threads {
		for i := 0; !t.done && i < 20; i++ {
			var sink []Req
			run(t, Resp{Err: true}, &sink)
		}
		if !t.done {
			w.problems = append(w.problems, "a fetch/check call does not terminate although every request fails")
		}
	}
	// credential epilogue: whoever the fetcher currently talks to demands Basic credentials
	if c.AuthSA != "" {
		w.script = []Resp{{Code: 401, Chal: true}, {Code: 206, WF: true}, {Code: 206, WF: true}}
		_ = vf.Check()
		// and the registry host itself does (through a URL refresh)
		w.script = []Resp{{Code: 403}, {Code: 401, Chal: true}, {Code: 200, WF: true}, {Code: 206, WF: true}}
		_ = vf.Check()
	}
	c.AuthStats = [2]int{w.authAsked, w.authSent}
	return c, w.problems
}

// ---- generation ----

func genResp(r *hx.Rng, nhosts int, bias string) Resp {
	loc := func() string {
		switch r.Pick(60, 15, 15, 10) {
		case 0:
			return fmt.Sprintf("ext:%d", r.Intn(3))
		case 1:
			return fmt.Sprintf("ext:%d", 10+r.Intn(2))
		case 2:
			return fmt.Sprintf("blob:%d", r.Intn(nhosts))
		default:
			return ""
		}
	}
	wf := !r.Chance(1, 12)
	var k int
	switch bias {
	case "resolve":
		k = r.Pick(40, 8, 30, 4, 4, 3, 4, 3, 4)
	default:
		k = r.Pick(25, 25, 12, 18, 7, 3, 4, 3, 3)
	}
	switch k {
	case 0:
		return Resp{Code: 200, WF: wf}
	case 1:
		return Resp{Code: 206, WF: wf}
	case 2:
		return Resp{Code: []int{301, 302, 307}[r.Intn(3)], Loc: loc(), WF: wf}
	case 3:
		return Resp{Code: 403, WF: wf}
	case 4:
		return Resp{Code: 400, WF: wf}
	case 5:
		return Resp{Code: 401, WF: wf}
	case 6:
		return Resp{Code: []int{404, 416, 405}[r.Intn(3)], WF: wf}
	case 7:
		return Resp{Code: 204, Loc: []string{"", "ext:1"}[r.Intn(2)], WF: wf} // 2xx that is not 200; Location on a 2xx is ignored
	default:
		return Resp{Err: true}
	}
}

type generator struct {
	r      *hx.Rng
	nhosts int
	left   int
}

// next chooses the next op knowing where every thread is held.
func (g *generator) next(ts []*thread) (Op, bool) {
	r := g.r
	if g.left <= 0 {
		return Op{}, false
	}
	g.left--
	var live []int
	for i, t := range ts {
		if !t.done {
			live = append(live, i)
		}
	}
	if len(ts) < 5 && (len(live) == 0 || (len(live) < 3 && r.Chance(1, 4))) {
		o := Op{Op: "spawn", Kind: "fetch", Retry: !r.Chance(1, 6), Multi: r.Bool()}
		if r.Chance(1, 3) {
			o.Kind = "check"
		}
		return o, true
	}
	if len(live) == 0 && len(ts) >= 5 && r.Chance(2, 3) {
		return Op{}, false
	}
	if len(live) == 0 || r.Chance(1, 30) { // a finished or non-existent thread
		return Op{Op: "resume", T: r.Intn(len(ts) + 2), R: genResp(r, g.nhosts, "run")}, true
	}
	ti := live[r.Intn(len(live))]
	if ts[ti].state == "hook" && len(live) > 1 && r.Chance(2, 3) {
		// keep a thread that has read its target waiting while the others run (the window of the header race)
		ti = live[r.Intn(len(live))]
	}
	t := ts[ti]
	o := Op{Op: "resume", T: ti}
	if t.state == "rt" {
		if t.last == 403 { // this request is the URL refresh: mostly a direct answer or a new location
			o.R = genResp(r, g.nhosts, "resolve")
		} else {
			o.R = genResp(r, g.nhosts, "run")
		}
	}
	return o, true
}

func gen(r *hx.Rng) (Case, *generator) {
	c := Case{}
	nm := r.Pick(15, 50, 35)
	for i := 0; i < nm; i++ {
		m := HostCfg{Name: fmt.Sprintf("mirror-%d.example", i), Hdr: r.Pick(15, 50, 27, 8)}
		if r.Chance(1, 12) {
			m.Name = []string{"", "bad/host"}[r.Intn(2)]
		}
		c.Mirrors = append(c.Mirrors, m)
	}
	nh := nm + 1
	for i := r.Intn(7); i > 0; i-- {
		c.Script = append(c.Script, genResp(r, nh, "resolve"))
	}
	switch r.Pick(30, 25, 25, 10, 10) {
	case 1:
		c.AuthSA = "empty"
	case 2:
		c.AuthSA = "https://mirror-0.example/v2/"
	case 3:
		c.AuthSA = "https://" + refHost
	case 4:
		c.AuthSA = "https://cdn-0.example/"
	}
	return c, &generator{r: r, nhosts: nh, left: r.Range(4, 40)}
}

// ---- Coq printing ----

func coqLoc(l string) string {
	var n int
	if _, err := fmt.Sscanf(l, "ext:%d", &n); err == nil {
		return fmt.Sprintf("(Ext %d)", n)
	}
	if _, err := fmt.Sscanf(l, "blob:%d", &n); err == nil {
		return fmt.Sprintf("(Blob %d)", n)
	}
	return "(Ext 999)" // unknown URL: never produced by the model
}

func coqOptLoc(l string, nhosts int) string {
	var n int
	if _, err := fmt.Sscanf(l, "blob:%d", &n); err == nil && (n < 0 || n >= nhosts) {
		return "None"
	}
	if l == "" {
		return "None"
	}
	return "(Some " + coqLoc(l) + ")"
}

func coqResp(r Resp, nhosts int) string {
	if r.Err {
		return "RErr"
	}
	return fmt.Sprintf("Resp %d %s %s", r.Code, coqOptLoc(r.Loc, nhosts), hx.CoqBool(r.WF))
}

func coqHdr(i int) string {
	if i < 0 {
		return "None"
	}
	return fmt.Sprintf("(Some %d)", i)
}

func coqReqs(qs []Req) string {
	s := make([]string, len(qs))
	for i, q := range qs {
		m := "GET"
		if q.Head {
			m = "HEAD"
		}
		s[i] = fmt.Sprintf("mkReq %s %s %s", m, coqLoc(q.Loc), coqHdr(q.Hdr))
	}
	return hx.CoqList(s)
}

func atoi(s string) int {
	var n int
	fmt.Sscanf(s, "%d", &n)
	return n
}

func coqCase(c Case) string {
	nh := len(c.Mirrors) + 1
	hs := make([]string, 0, nh)
	for _, m := range c.Mirrors {
		hs = append(hs, fmt.Sprintf("mkHost %s %s", hx.CoqBool(validHost(m.Name)), hx.CoqBool(m.Hdr == 1 || m.Hdr == 2)))
	}
	hs = append(hs, "mkHost true false")
	sc := make([]string, len(c.Script))
	for i, r := range c.Script {
		sc[i] = coqResp(r, nh)
	}
	ops := make([]string, len(c.Ops))
	for i, o := range c.Ops {
		if o.Op == "spawn" {
			k := "KFetch"
			if o.Kind == "check" {
				k = "KCheck"
			}
			ops[i] = fmt.Sprintf("Spawn %s %s", k, hx.CoqBool(o.Retry))
		} else {
			t := o.T
			if t < 0 {
				t = 9999
			}
			ops[i] = fmt.Sprintf("Resume %d (%s)", t, coqResp(o.R, nh))
		}
	}
	target, final := "None", "None"
	if c.Target != nil {
		target = fmt.Sprintf("(Some (%d, %s, %s))", atoi(strings.TrimPrefix(c.Target[0], "blob:")), coqLoc(c.Target[1]), coqHdr(atoi(c.Target[2])))
	}
	outs := make([]string, len(c.Outs))
	for i, o := range c.Outs {
		d := "None"
		if o.Done == 0 {
			d = "(Some false)"
		} else if o.Done == 1 {
			d = "(Some true)"
		}
		outs[i] = fmt.Sprintf("(%s, %s)", coqReqs(o.Reqs), d)
	}
	if c.Final != nil {
		final = fmt.Sprintf("(Some (%s, %s, %s))", coqLoc(c.Final[0]), coqHdr(atoi(c.Final[1])), c.Final[2])
	}
	return fmt.Sprintf("mkCase %s %s %s %s %s %s %s", hx.CoqList(hs), hx.CoqList(sc), hx.CoqList(ops), coqReqs(c.ResReqs), target, hx.CoqList(outs), final)
}

func main() {
	ctx := hx.Start()
	clog.SetLevel("error") // the fetcher logs every refresh at info level
	emit := func(c Case, g *generator) {
		c, problems := exec(c, g)
		for _, m := range c.Mirrors {
			ctx.Count(fmt.Sprintf("mirror.hdr%d", m.Hdr))
			if !validHost(m.Name) {
				ctx.Count("mirror.invalid")
			}
		}
		ctx.Count(fmt.Sprintf("mirrors.%d", len(c.Mirrors)))
		redirected, refreshed, withHdr := false, false, false
		for _, q := range c.ResReqs {
			ctx.Count("req.resolve")
			if q.Hdr >= 0 {
				withHdr = true
				ctx.Count("req.with-header")
			}
			if strings.HasPrefix(q.Loc, "ext:") {
				redirected = true
				ctx.Count("req.to-redirect-location")
			}
		}
		if c.Target == nil {
			ctx.Count("resolve.failed")
		} else {
			ctx.Count("resolve.ok")
			if c.Target[0] != fmt.Sprintf("blob:%d", len(c.Mirrors)) {
				ctx.Count("resolve.ok.mirror")
			}
			if c.Target[0] != c.Target[1] {
				ctx.Count("resolve.ok.redirected")
			}
			for i, o := range c.Ops {
				ctx.Count("op." + o.Op)
				if o.Op == "spawn" {
					ctx.Count("spawn." + o.Kind)
				}
				if i >= len(c.Outs) {
					continue
				}
				for _, q := range c.Outs[i].Reqs {
					ctx.Count("req.run")
					if q.Hdr >= 0 {
						withHdr = true
						ctx.Count("req.with-header")
					}
					if strings.HasPrefix(q.Loc, "ext:") {
						redirected = true
						ctx.Count("req.to-redirect-location")
					}
				}
				if len(c.Outs[i].Reqs) > 0 && o.Op == "resume" && !o.R.Err {
					switch {
					case o.R.Code == 403:
						ctx.Count("answer.403")
						refreshed = true
					case o.R.Code == 400:
						ctx.Count("answer.400")
					case o.R.Code == 401:
						ctx.Count("answer.401")
					case o.R.Code/100 == 3:
						ctx.Count("answer.3xx")
					case o.R.Code/100 == 2:
						ctx.Count("answer.2xx")
					}
				}
				if c.Outs[i].Done == 1 {
					ctx.Count("done.ok")
				} else if c.Outs[i].Done == 0 {
					ctx.Count("done.failed")
				}
			}
			if c.Final != nil && c.Final[2] == "true" {
				ctx.Count("final.single-range")
			}
			if c.Final != nil && (c.Final[0] != c.Target[1] || c.Final[1] != c.Target[2]) {
				ctx.Count("final.target-changed")
			}
		}
		if c.AuthSA != "" {
			ctx.Count("auth.keychain")
			if c.AuthStats[0] > 0 {
				ctx.Count("auth.challenged")
			}
			if c.AuthStats[1] > 0 {
				ctx.Count("auth.credential-sent")
			}
			if c.AuthStats[0] > 0 && c.AuthStats[1] == 0 {
				ctx.Count("auth.credential-withheld")
			}
		}
		term := coqCase(c)
		id := ctx.Case(term, c, term, redirected && refreshed && withHdr)
		for _, p := range problems {
			ctx.Violation(id, p, nil)
		}
	}
	if ctx.Replay != "" {
		var c Case
		ctx.LoadReplay(&c)
		emit(c, nil)
		ctx.Finish()
		return
	}
	ok := Resp{Code: 206, WF: true}
	redir := func(l string) Resp { return Resp{Code: 307, Loc: l, WF: true} }
	m1 := []HostCfg{{Name: "mirror-0.example", Hdr: 1}}
	corpus := []Case{
		// direct: headers go to the mirror on every path; fetch, check
		{Mirrors: m1, Ops: []Op{{Op: "spawn", Kind: "fetch", Retry: true}, {Op: "resume", T: 0}, {Op: "resume", T: 0}, {Op: "resume", T: 0, R: ok},
			{Op: "spawn", Kind: "check"}, {Op: "resume", T: 1}, {Op: "resume", T: 1}, {Op: "resume", T: 1, R: ok}}},
		// redirected: nothing to the CDN; expiry (403) -> refresh -> new location
		{Mirrors: m1, AuthSA: "https://mirror-0.example/v2/", Script: []Resp{redir("ext:0"), {Code: 405}, ok}, Ops: []Op{{Op: "spawn", Kind: "fetch", Retry: true}, {Op: "resume", T: 0}, {Op: "resume", T: 0},
			{Op: "resume", T: 0, R: Resp{Code: 403}}, {Op: "resume", T: 0, R: redir("ext:1")}, {Op: "resume", T: 0}, {Op: "resume", T: 0, R: ok}}},
		// the race the fix closes: A has read the (redirected) target, B's refresh is answered directly and installs
		// the registry headers, then A builds and sends its request to the old location
		{Mirrors: m1, Script: []Resp{redir("ext:0")}, Ops: []Op{{Op: "spawn", Kind: "fetch", Retry: true}, {Op: "spawn", Kind: "check"},
			{Op: "resume", T: 0}, {Op: "resume", T: 1}, {Op: "resume", T: 1}, {Op: "resume", T: 1, R: Resp{Code: 403}}, {Op: "resume", T: 1, R: Resp{Code: 200, WF: true}},
			{Op: "resume", T: 0}, {Op: "resume", T: 0, R: ok}}},
		// first mirror fails, second redirects to the first mirror's blob URL, 400 -> single range retry
		{Mirrors: []HostCfg{{Name: "mirror-0.example", Hdr: 2}, {Name: "mirror-1.example", Hdr: 1}}, Script: []Resp{{Code: 404}, redir("blob:0"), {Code: 200, WF: true}},
			Ops: []Op{{Op: "spawn", Kind: "fetch", Retry: true, Multi: true}, {Op: "resume", T: 0}, {Op: "resume", T: 0}, {Op: "resume", T: 0, R: Resp{Code: 400}},
				{Op: "resume", T: 0}, {Op: "resume", T: 0, R: ok}}},
	}
	for _, c := range corpus {
		emit(c, nil)
	}
	r := hx.NewRng(ctx.Seed)
	for i := len(corpus); i < ctx.N; i++ {
		c, g := gen(r.Fork())
		emit(c, g)
	}
	ctx.Finish()
}
