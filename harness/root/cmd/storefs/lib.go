// C16 (handlers): shared pieces of the store/fs.go harness - copied from cmd/store (registry, blobs, dump helpers).
package main

import (
	"archive/tar"
	"bytes"
	"compress/gzip"
	"context"
	"encoding/json"
	"fmt"
	"io"
	"net/http"
	"sort"
	"strings"
	"sync"
	"time"

	"github.com/containerd/containerd/v2/core/remotes/docker"
	"github.com/containerd/containerd/v2/pkg/reference"
	"github.com/containerd/stargz-snapshotter/estargz"
	"github.com/containerd/stargz-snapshotter/fs/remote"
	"github.com/containerd/stargz-snapshotter/store"
	digest "github.com/opencontainers/go-digest"
	"github.com/opencontainers/image-spec/specs-go"
	ocispec "github.com/opencontainers/image-spec/specs-go/v1"

	"verif/harness/hx"
)

type problem struct {
	sig, what string
}

type World struct {
	Ltoc   []int   `json:"ltoc"`   // per layer digest id: TOC id (== blob id) or -1 (not eStargz)
	Images [][]int `json:"images"` // per ref id: layer digest ids of the manifest
	// per ref id, per layer index: the toc.digest annotation of the layer descriptor in the manifest:
	// -1 (or missing) = none, 0..4 / 50.. / 100.. = the digest of that toc id (correct when it is the layer's own), 900 = not a digest
	Ann [][]int `json:"ann,omitempty"`
}

// ---------------------------------------------------------------------------------------------
// the registry: blobs (built once), images (per case)

const (
	nEsgz    = 5
	nPlain   = 2
	nBlobs   = nEsgz + nPlain
	tocUnk0  = 50  // toc ids 50, 51: digests no layer has
	tocAsLD  = 100 // toc id 100+j: the *layer* digest of blob j used as directory name
	hostName = "reg.test"
)

type blob struct {
	data []byte
	dgst digest.Digest
	toc  digest.Digest // "" when not eStargz
}

var blobs []blob

func buildTar(i int) []byte {
	var buf bytes.Buffer
	tw := tar.NewWriter(&buf)
	add := func(name string, body string) {
		tw.WriteHeader(&tar.Header{Name: name, Typeflag: tar.TypeReg, Mode: 0644, Size: int64(len(body))})
		tw.Write([]byte(body))
	}
	tw.WriteHeader(&tar.Header{Name: "d/", Typeflag: tar.TypeDir, Mode: 0755})
	add("d/a", fmt.Sprintf("content of layer %d", i))
	add("b", strings.Repeat(fmt.Sprintf("%d", i), 100+i))
	tw.Close()
	return buf.Bytes()
}

func buildBlobs() {
	for i := 0; i < nBlobs; i++ {
		t := buildTar(i)
		if i < nEsgz {
			b, err := estargz.Build(io.NewSectionReader(bytes.NewReader(t), 0, int64(len(t))), estargz.WithCompressionLevel(gzip.BestSpeed))
			if err != nil {
				panic(err)
			}
			data, err := io.ReadAll(b)
			if err != nil {
				panic(err)
			}
			b.Close()
			blobs = append(blobs, blob{data: data, dgst: digest.FromBytes(data), toc: b.TOCDigest()})
		} else {
			var z bytes.Buffer
			zw := gzip.NewWriter(&z)
			zw.Write(t)
			zw.Close()
			blobs = append(blobs, blob{data: z.Bytes(), dgst: digest.FromBytes(z.Bytes())})
		}
	}
}

func tocDigest(t int) digest.Digest {
	switch {
	case t >= 0 && t < nEsgz:
		return blobs[t].toc
	case t >= tocAsLD && t < tocAsLD+nBlobs:
		return blobs[t-tocAsLD].dgst
	default:
		return digest.FromString(fmt.Sprintf("no such toc %d", t))
	}
}

func refName(r int) string { return fmt.Sprintf("%s/img%d:latest", hostName, r) }

// registry serves manifests/configs over a fake http.RoundTripper and blobs through a remote.Handler.
type registry struct {
	mu                    sync.Mutex
	w                     World
	manifest              map[string][]byte // "img<r>" -> manifest bytes
	mdigest               map[string]digest.Digest
	content               map[digest.Digest][]byte // manifests + configs by digest
	mfault                bool
	bfault                map[digest.Digest]bool
	injected              map[digest.Digest]bool // blob faults actually delivered during the current op
	fetches               int                    // manifest fetches served
	gateReached, gateOpen chan struct{}
}

// armGate makes the next blob request wait; returns (reached, open).
func (g *registry) armGate() (<-chan struct{}, func()) {
	g.mu.Lock()
	defer g.mu.Unlock()
	r, o := make(chan struct{}), make(chan struct{})
	g.gateReached, g.gateOpen = r, o
	return r, func() {
		g.mu.Lock()
		g.gateReached, g.gateOpen = nil, nil
		g.mu.Unlock()
		close(o)
	}
}

func diffID(r, i int) digest.Digest { return digest.FromString(fmt.Sprintf("diffid-%d-%d", r, i)) }

func newRegistry(w World) *registry {
	g := &registry{w: w, manifest: map[string][]byte{}, mdigest: map[string]digest.Digest{}, content: map[digest.Digest][]byte{},
		bfault: map[digest.Digest]bool{}, injected: map[digest.Digest]bool{}}
	for r, ls := range w.Images {
		img := ocispec.Image{}
		img.Architecture = "amd64"
		img.OS = "linux"
		img.RootFS.Type = "layers"
		var descs []ocispec.Descriptor
		for i, l := range ls {
			img.RootFS.DiffIDs = append(img.RootFS.DiffIDs, diffID(r, i))
			descs = append(descs, annotate(layerDesc(l), annOf(w, r, i)))
		}
		cb, _ := json.Marshal(img)
		cd := digest.FromBytes(cb)
		g.content[cd] = cb
		m := ocispec.Manifest{
			Versioned: specs.Versioned{SchemaVersion: 2},
			MediaType: ocispec.MediaTypeImageManifest,
			Config:    ocispec.Descriptor{MediaType: ocispec.MediaTypeImageConfig, Digest: cd, Size: int64(len(cb))},
			Layers:    descs,
		}
		mb, _ := json.Marshal(m)
		md := digest.FromBytes(mb)
		g.content[md] = mb
		g.manifest[fmt.Sprintf("img%d", r)] = mb
		g.mdigest[fmt.Sprintf("img%d", r)] = md
	}
	return g
}

func annOf(w World, r, i int) int {
	if r < 0 || r >= len(w.Ann) || i >= len(w.Ann[r]) {
		return -1
	}
	return w.Ann[r][i]
}

// annotate adds the toc.digest annotation an image builder would have put on the layer descriptor (possibly stale or wrong).
func annotate(d ocispec.Descriptor, a int) ocispec.Descriptor {
	switch {
	case a < 0:
	case a == 900:
		d.Annotations = map[string]string{estargz.TOCJSONDigestAnnotation: "not-a-digest"}
	default:
		d.Annotations = map[string]string{estargz.TOCJSONDigestAnnotation: tocDigest(a).String()}
	}
	return d
}

func layerDesc(l int) ocispec.Descriptor {
	return ocispec.Descriptor{MediaType: ocispec.MediaTypeImageLayerGzip, Digest: blobs[l].dgst, Size: int64(len(blobs[l].data))}
}

func (g *registry) RoundTrip(req *http.Request) (*http.Response, error) {
	if err := req.Context().Err(); err != nil {
		return nil, err // a real transport does not serve a cancelled request
	}
	g.mu.Lock()
	defer g.mu.Unlock()
	resp := func(code int, ct string, body []byte, dg digest.Digest) (*http.Response, error) {
		h := http.Header{}
		if ct != "" {
			h.Set("Content-Type", ct)
		}
		if dg != "" {
			h.Set("Docker-Content-Digest", dg.String())
		}
		h.Set("Content-Length", fmt.Sprintf("%d", len(body)))
		var rc io.ReadCloser = io.NopCloser(bytes.NewReader(body))
		if req.Method == http.MethodHead {
			rc = http.NoBody
		}
		return &http.Response{StatusCode: code, Status: fmt.Sprintf("%d", code), Header: h, Body: rc, ContentLength: int64(len(body)), Request: req,
			Proto: "HTTP/1.1", ProtoMajor: 1, ProtoMinor: 1}, nil
	}
	if g.mfault {
		return resp(500, "", nil, "")
	}
	p := strings.TrimPrefix(req.URL.Path, "/v2/")
	parts := strings.Split(p, "/")
	if len(parts) != 3 {
		return resp(404, "", nil, "")
	}
	name, kind, id := parts[0], parts[1], parts[2]
	switch kind {
	case "manifests":
		mb, ok := g.manifest[name]
		if !ok {
			return resp(404, "", nil, "")
		}
		if id != "latest" && id != g.mdigest[name].String() {
			return resp(404, "", nil, "")
		}
		if req.Method == http.MethodGet {
			g.fetches++
		}
		return resp(200, ocispec.MediaTypeImageManifest, mb, g.mdigest[name])
	case "blobs":
		b, ok := g.content[digest.Digest(id)]
		if !ok {
			return resp(404, "", nil, "")
		}
		return resp(200, "application/octet-stream", b, digest.Digest(id))
	}
	return resp(404, "", nil, "")
}

func (g *registry) hosts(reference.Spec) ([]docker.RegistryHost, error) {
	return []docker.RegistryHost{{
		Client: &http.Client{Transport: g}, Host: hostName, Scheme: "https", Path: "/v2",
		Capabilities: docker.HostCapabilityPull | docker.HostCapabilityResolve,
	}}, nil
}

func noHosts(reference.Spec) ([]docker.RegistryHost, error) {
	return nil, fmt.Errorf("blob registry unreachable (scripted)")
}

// Handle implements remote.Handler: serves layer blobs from memory, or fails when the script says so.
func (g *registry) Handle(ctx context.Context, desc ocispec.Descriptor) (remote.Fetcher, int64, error) {
	// gate: the first blob request after armGate() waits here until the harness lets it continue (the client
	// abandons its lookup in the meantime); like a real registry client, a cancelled request fails
	g.mu.Lock()
	reached, open := g.gateReached, g.gateOpen
	g.gateReached, g.gateOpen = nil, nil
	g.mu.Unlock()
	if reached != nil {
		close(reached)
		<-open
	}
	if err := ctx.Err(); err != nil {
		return nil, 0, err
	}
	g.mu.Lock()
	defer g.mu.Unlock()
	if g.bfault[desc.Digest] {
		g.injected[desc.Digest] = true
		return nil, 0, fmt.Errorf("scripted registry error for %s", desc.Digest)
	}
	for _, b := range blobs {
		if b.dgst == desc.Digest {
			return &memFetcher{b.data, b.dgst}, int64(len(b.data)), nil
		}
	}
	return nil, 0, fmt.Errorf("no such blob")
}

type memFetcher struct {
	data []byte
	d    digest.Digest
}

func (f *memFetcher) Fetch(ctx context.Context, off int64, size int64) (io.ReadCloser, error) {
	if off < 0 || off > int64(len(f.data)) {
		return nil, fmt.Errorf("out of range")
	}
	end := off + size
	if end > int64(len(f.data)) {
		end = int64(len(f.data))
	}
	return io.NopCloser(bytes.NewReader(f.data[off:end])), nil
}
func (f *memFetcher) Check() error { return nil }
func (f *memFetcher) GenID(off int64, size int64) string {
	return fmt.Sprintf("%s-%d-%d", f.d, off, size)
}

func (g *registry) setFaults(mf bool, fl []int) {
	g.mu.Lock()
	g.mfault = mf
	g.bfault = map[digest.Digest]bool{}
	g.injected = map[digest.Digest]bool{}
	for _, l := range fl {
		if l >= 0 && l < nBlobs {
			g.bfault[blobs[l].dgst] = true
		}
	}
	g.mu.Unlock()
}

func (g *registry) injectedLayers() []int {
	g.mu.Lock()
	defer g.mu.Unlock()
	var out []int
	for l := range blobs {
		if g.injected[blobs[l].dgst] {
			out = append(out, l)
		}
	}
	return out
}

func (m *machine) spec(r int) reference.Spec {
	if r < 0 || r >= len(m.specs) {
		return m.specs[len(m.specs)-1]
	}
	return m.specs[r]
}

func (m *machine) image(r int) []int {
	if r < 0 || r >= len(m.w.Images) {
		return nil
	}
	return m.w.Images[r]
}

func (m *machine) tocOf(l int) int {
	if l < 0 || l >= len(m.w.Ltoc) {
		return -1
	}
	return m.w.Ltoc[l]
}

func (m *machine) imageHasToc(r, t int) bool {
	for _, l := range m.image(r) {
		if m.tocOf(l) == t && t >= 0 {
			return true
		}
	}
	return false
}

func (m *machine) fail(sig, f string, a ...any) {
	m.problems = append(m.problems, problem{sig, fmt.Sprintf(f, a...)})
}

// ---- state dump, mapped back to ids ----
type dump struct {
	layers  [][3]int
	closed  [][2]int // cached layers whose object is closed
	counts  [][3]int
	memo    [][3]int
	pool    [][2]int
	manif   []int
	empties int
}

func (m *machine) refID(s string) int {
	for i, sp := range m.specs {
		if sp.String() == s {
			return i
		}
	}
	return 999
}
func tocID(s string) int {
	for t := 0; t < nEsgz; t++ {
		if blobs[t].toc.String() == s {
			return t
		}
	}
	for j := 0; j < nBlobs; j++ {
		if blobs[j].dgst.String() == s {
			return tocAsLD + j
		}
	}
	for t := tocUnk0; t < tocUnk0+4; t++ {
		if tocDigest(t).String() == s {
			return t
		}
	}
	return 998
}
func ldID(s string) int {
	for j := 0; j < nBlobs; j++ {
		if blobs[j].dgst.String() == s {
			return j
		}
	}
	return 997
}

func (m *machine) dump() dump {
	st := m.lm.VerifState()
	var d dump
	for _, e := range st.Layers {
		d.layers = append(d.layers, [3]int{m.refID(e.Ref), tocID(e.Key), ldID(e.LayerDigest)})
		if e.Closed {
			d.closed = append(d.closed, [2]int{m.refID(e.Ref), tocID(e.Key)})
		}
		if e.Key != e.TOCDigest {
			m.fail("", "layer cached under key %s has TOC digest %s", e.Key, e.TOCDigest)
		}
	}
	for _, e := range st.Counts {
		d.counts = append(d.counts, [3]int{m.refID(e.Ref), tocID(e.Key), e.Count})
	}
	for _, e := range st.Memo {
		ok := 0
		if e.OK {
			ok = 1
		}
		d.memo = append(d.memo, [3]int{m.refID(e.Ref), ldID(e.LayerDigest), ok})
	}
	for _, e := range st.PoolCounts {
		d.pool = append(d.pool, [2]int{m.refID(e.Ref), e.Count})
	}
	for r := range m.specs {
		if m.lm.VerifManifestCached(m.specs[r]) {
			d.manif = append(d.manif, r)
		}
	}
	d.empties = len(st.EmptyLayerRefs) + len(st.EmptyCountRefs) + len(st.EmptyMemoRefs)
	sort.Slice(d.layers, func(i, j int) bool { return less3(d.layers[i], d.layers[j]) })
	sort.Slice(d.counts, func(i, j int) bool { return less3(d.counts[i], d.counts[j]) })
	sort.Slice(d.memo, func(i, j int) bool { return less3(d.memo[i], d.memo[j]) })
	sort.Slice(d.pool, func(i, j int) bool { return d.pool[i][0] < d.pool[j][0] })
	return d
}

func less3(a, b [3]int) bool {
	for i := 0; i < 3; i++ {
		if a[i] != b[i] {
			return a[i] < b[i]
		}
	}
	return false
}

func (d dump) cached(r, t int) bool {
	for _, e := range d.layers {
		if e[0] == r && e[1] == t {
			return true
		}
	}
	return false
}
func (d dump) memoComplete(r int, image []int) bool {
	for _, l := range image {
		found := false
		for _, e := range d.memo {
			if e[0] == r && e[1] == l {
				found = true
			}
		}
		if !found {
			return false
		}
	}
	return true
}
func (d dump) hasManifest(r int) bool {
	for _, x := range d.manif {
		if x == r {
			return true
		}
	}
	return false
}

// quiesce waits until every resolveLayer goroutine spawned by getLayer has returned
// (getLayer returns as soon as one goroutine found the layer; the others keep running or have not even started).
func (m *machine) quiesce() {
	deadline := time.Now().Add(20 * time.Second)
	for store.VerifResolvePending() != 0 {
		if time.Now().After(deadline) {
			m.fail("", "resolution did not complete within 20s")
			return
		}
		time.Sleep(20 * time.Microsecond)
	}
}

// lookup = what layernode.Lookup("diff"|"blob") does with the manager: getLayer, then Verify(directory name).
func (m *machine) noteInjected(r int) {
	for _, l := range m.g.injectedLayers() {
		m.faulted[[2]int{r, l}] = true
		m.stats["fault.blob.delivered"]++
	}
}

func (m *machine) ownTotal(r int) int {
	n := 0
	for k, c := range m.own {
		if k[0] == r {
			n += c
		}
	}
	return n
}

// invariants of every state
func coqOptNat(x int) string {
	if x < 0 {
		return "None"
	}
	return fmt.Sprintf("Some %d", x)
}

func coqWorld(w World) string {
	lt := make([]string, len(w.Ltoc))
	for i, t := range w.Ltoc {
		lt[i] = coqOptNat(t)
	}
	im := make([]string, len(w.Images))
	for i, ls := range w.Images {
		im[i] = hx.CoqNatList(ls)
	}
	return fmt.Sprintf("mkW %s %s", hx.CoqList(lt), hx.CoqList(im))
}

func genWorld(r *hx.Rng) World {
	w := World{}
	for l := 0; l < nBlobs; l++ {
		if l < nEsgz {
			w.Ltoc = append(w.Ltoc, l)
		} else {
			w.Ltoc = append(w.Ltoc, -1)
		}
	}
	nimg := r.Range(1, 3)
	for i := 0; i < nimg; i++ {
		n := r.Pick(2, 4, 4, 2) + 1 // 1..4 layers
		var ls []int
		for len(ls) < n {
			var l int
			if r.Chance(1, 5) {
				l = nEsgz + r.Intn(nPlain)
			} else {
				l = r.Intn(nEsgz)
			}
			dup := false
			for _, x := range ls {
				if x == l {
					dup = true
				}
			}
			if dup && !r.Chance(1, 12) { // the same blob twice in one manifest: rare
				continue
			}
			ls = append(ls, l)
		}
		w.Images = append(w.Images, ls)
		var an []int
		for _, l := range ls {
			a := -1
			switch r.Pick(40, 30, 12, 6, 6, 6) {
			case 1:
				if w.Ltoc[l] >= 0 {
					a = w.Ltoc[l] // correct
				}
			case 2:
				a = r.Intn(nEsgz) // another layer's TOC digest (or, by chance, the right one)
			case 3:
				a = tocUnk0 + r.Intn(2) // stale: a digest no layer has
			case 4:
				a = tocAsLD + l // the layer digest
			case 5:
				a = 900 // malformed
			}
			an = append(an, a)
		}
		w.Ann = append(w.Ann, an)
	}
	return w
}
