// C16 handler harness: drives the FUSE node handlers of store/fs.go (rootnode/refnode/layernode Lookup, Create("use"),
// Rmdir) through go-fuse's NodeFS bridge - the same entry points the kernel reaches, without a mount - over the real
// LayerManager / refPool / fs/layer.Resolver and an in-memory registry. Every client operation is a path walk
// (Lookup per component) followed by the final handler. Prints, per history, the observed errno classes, the manager
// dump and the node tree as a Coq term for Model/StoreFS.v, and evaluates the property's clauses on the observations.
package main

import (
	"context"
	"encoding/base64"
	"encoding/json"
	"fmt"
	"io"
	"os"
	"sort"

	"github.com/containerd/containerd/v2/pkg/reference"
	"github.com/containerd/log"
	"github.com/containerd/stargz-snapshotter/fs/config"
	"github.com/containerd/stargz-snapshotter/fs/remote"
	memorymetadata "github.com/containerd/stargz-snapshotter/metadata/memory"
	"github.com/containerd/stargz-snapshotter/store"
	fusefs "github.com/hanwen/go-fuse/v2/fs"
	"github.com/hanwen/go-fuse/v2/fuse"
	"github.com/sirupsen/logrus"

	"verif/harness/hx"
)

type Op struct {
	Op string `json:"op"`          // lookup use createother rmdir badref alias baddigest pool expire
	K  string `json:"k,omitempty"` // lookup: diff blob info use other
	R  int    `json:"r"`
	T  int    `json:"t,omitempty"`
	L  int    `json:"l,omitempty"`
	Mf bool   `json:"mf,omitempty"`
	Fl []int  `json:"fl,omitempty"`
	Rm bool   `json:"rm,omitempty"` // baddigest: through Rmdir instead of Lookup
	Cx string `json:"cx,omitempty"` // lookup diff|blob|info: the request is interrupted "before", "mid" (while a blob request is in flight) or "after"
}

type Case struct {
	World World `json:"world"`
	Ops   []Op  `json:"ops"`
}

type Obs struct {
	Err    string   `json:"err"` // ok enoent eio einval
	D      dumpJ    `json:"d"`
	RNodes []int    `json:"rnodes,omitempty"`
	LNodes [][2]int `json:"lnodes,omitempty"`
	FNodes [][4]int `json:"fnodes,omitempty"`
}

type dumpJ struct {
	Layers  [][3]int `json:"layers,omitempty"`
	Counts  [][3]int `json:"counts,omitempty"`
	Memo    [][3]int `json:"memo,omitempty"`
	Pool    [][2]int `json:"pool,omitempty"`
	Manif   []int    `json:"manif,omitempty"`
	Empties int      `json:"empties,omitempty"`
}

type machine struct {
	w     World
	g     *registry
	lm    *store.LayerManager
	root  string
	specs []reference.Spec
	raw   fuse.RawFileSystem
	rootN fusefs.InodeEmbedder

	own      map[[2]int]int
	faulted  map[[2]int]bool
	problems []problem
	relZero  map[int]bool
	stats    map[string]int
}

func newMachine(w World) *machine {
	root, err := os.MkdirTemp("", "c16fs-")
	if err != nil {
		panic(err)
	}
	g := newRegistry(w)
	cfg := config.Config{NoPrefetch: true, NoBackgroundFetch: true, NoPrometheus: true, HTTPCacheType: "memory", FSCacheType: "memory"}
	lm, err := store.VerifNewLayerManager(context.Background(), root, g.hosts, noHosts,
		map[string]remote.Handler{"mem": g}, memorymetadata.NewReader, cfg)
	if err != nil {
		panic(err)
	}
	m := &machine{w: w, g: g, lm: lm, root: root, own: map[[2]int]int{}, faulted: map[[2]int]bool{}, relZero: map[int]bool{}, stats: map[string]int{}}
	for r := 0; r <= len(w.Images); r++ {
		s, err := reference.Parse(refName(r))
		if err != nil {
			panic(err)
		}
		m.specs = append(m.specs, s)
	}
	m.rootN = store.VerifRootNode(lm)
	m.raw = fusefs.NewNodeFS(m.rootN, &fusefs.Options{NullPermissions: true})
	return m
}

func (m *machine) close() { os.RemoveAll(m.root) }

func errClass(s fuse.Status) string {
	switch s {
	case fuse.OK:
		return "ok"
	case fuse.ENOENT:
		return "enoent"
	case fuse.EIO:
		return "eio"
	case fuse.EINVAL:
		return "einval"
	}
	return fmt.Sprintf("errno%d", int(s))
}

// rawLookup = one LOOKUP request; returns the node id of the child.
// rawLookupC = a LOOKUP request that the kernel interrupts by closing c.
func (m *machine) rawLookupC(c <-chan struct{}, parent uint64, name string) fuse.Status {
	var out fuse.EntryOut
	return m.raw.Lookup(c, &fuse.InHeader{NodeId: parent}, name, &out)
}

func (m *machine) rawLookup(parent uint64, name string) (uint64, fuse.Status) {
	var out fuse.EntryOut
	st := m.raw.Lookup(nil, &fuse.InHeader{NodeId: parent}, name, &out)
	return out.NodeId, st
}

// aliasDir is refDir(r) with the unused low bits of its last symbol set: base64.StdEncoding (non-strict) decodes it to the same bytes.
func aliasDir(r int) string {
	const alpha = "ABCDEFGHIJKLMNOPQRSTUVWXYZabcdefghijklmnopqrstuvwxyz0123456789+/"
	d := []byte(refDir(r))
	i := len(d) - 1
	for i >= 0 && d[i] == '=' {
		i--
	}
	if i < 0 || i == len(d)-1 {
		return string(d) + "\n" // no padding: CR/LF are skipped by the decoder
	}
	for k := 0; k < len(alpha); k++ {
		if alpha[k] == d[i] {
			d[i] = alpha[k^1]
			break
		}
	}
	return string(d)
}

func refDir(r int) string { return base64.StdEncoding.EncodeToString([]byte(refName(r))) }

// walk looks up <root>/<ref>/<toc> component by component, as the kernel does for any path below it.
func (m *machine) walk(r, t int) (refID, layerID uint64, st fuse.Status) {
	refID, st = m.rawLookup(1, refDir(r))
	if st != fuse.OK {
		return 0, 0, st
	}
	layerID, st = m.rawLookup(refID, tocDigest(t).String())
	return refID, layerID, st
}

// ---- node tree dump ----
func (m *machine) tree() (rn []int, ln [][2]int, fn [][4]int) {
	for rname, rch := range m.rootN.EmbeddedInode().Children() {
		if rname == "pool" { // the symlink to the manifest pool, not a ref directory
			continue
		}
		b, err := base64.StdEncoding.DecodeString(rname)
		if err != nil {
			m.fail("", "root has a child with a name that is not base64: %q", rname)
			continue
		}
		r := m.refID(string(b))
		rn = append(rn, r)
		for lname, lch := range rch.Children() {
			t := tocID(lname)
			ln = append(ln, [2]int{r, t})
			for cname, cch := range lch.Children() {
				k, p := 9, 0
				switch cname {
				case "diff":
					k = 0
				case "blob":
					k = 1
				case "info":
					k = 2
					if f, ok := cch.Operations().(*store.MemRegularFileOnForget); ok {
						var info store.Layer
						if err := json.Unmarshal(f.Data, &info); err != nil {
							m.fail("", "info file of (ref %d, toc %d) is not JSON", r, t)
						}
						if info.TOCDigest != tocDigest(t) {
							m.fail("", "info file of (ref %d, toc %d) names TOC digest %s", r, t, info.TOCDigest)
						}
						if info.Flags != nil {
							p = 100
							for i := range m.image(r) {
								if diffID(r, i).String() == info.Flags["expected-layer-diffid"] {
									p = i + 1
								}
							}
						}
					}
				}
				fn = append(fn, [4]int{r, t, k, p})
			}
		}
	}
	sort.Ints(rn)
	sort.Slice(ln, func(i, j int) bool { return ln[i][0] < ln[j][0] || (ln[i][0] == ln[j][0] && ln[i][1] < ln[j][1]) })
	sort.Slice(fn, func(i, j int) bool {
		for k := 0; k < 4; k++ {
			if fn[i][k] != fn[j][k] {
				return fn[i][k] < fn[j][k]
			}
		}
		return false
	})
	return
}

func (m *machine) observe(err string, pre dump) Obs {
	d := m.dump()
	rn, ln, fn := m.tree()
	m.judge(d, pre, fn)
	return Obs{Err: err, D: dumpJ{d.layers, d.counts, d.memo, d.pool, d.manif, d.empties}, RNodes: rn, LNodes: ln, FNodes: fn}
}

// invariants of every state (model-free)
func (m *machine) judge(d dump, pre dump, fn [][4]int) {
	for _, e := range d.counts {
		if e[2] < 0 {
			m.fail("", "use count of (ref %d, toc %d) is negative: %d", e[0], e[1], e[2])
		}
		if own := m.own[[2]int{e[0], e[1]}]; own > 0 && e[2] != own {
			m.fail("", "use count of (ref %d, toc %d) is %d after %d outstanding uses", e[0], e[1], e[2], own)
		}
	}
	for k, own := range m.own {
		if own > 0 && pre.cached(k[0], k[1]) && !d.cached(k[0], k[1]) {
			m.fail("", "layer (ref %d, toc %d) was dropped with %d outstanding uses", k[0], k[1], own)
		}
	}
	// a diff/blob node in the tree is what a lookup returns: it must be backed by a layer the manager still holds
	for _, n := range fn {
		if (n[2] == 0 || n[2] == 1) && !d.cached(n[0], n[1]) {
			m.fail("", "node %s of (ref %d, toc %d) is served from a layer the manager has released", []string{"diff", "blob"}[n[2]], n[0], n[1])
		}
		if n[2] == 9 {
			m.fail("", "unexpected child under (ref %d, toc %d)", n[0], n[1])
		}
	}
	if d.empties != 0 {
		m.fail("", "%d empty inner maps left behind", d.empties)
	}
	for _, e := range d.closed {
		m.fail("", "layer (ref %d, toc %d) is held by the manager (%d outstanding uses) but its object has been closed", e[0], e[1], m.own[[2]int{e[0], e[1]}])
	}
}

func (m *machine) run(ops []Op) []Obs {
	var out []Obs
	for _, o := range ops {
		pre := m.dump()
		switch o.Op {
		case "lookup":
			_, lid, st := m.walk(o.R, o.T)
			if st != fuse.OK {
				m.fail("", "walk to (ref %d, toc %d) failed: %v", o.R, o.T, st)
				out = append(out, m.observe(errClass(st), pre))
				continue
			}
			_, _, fnPre := m.tree()
			served := false
			for _, n := range fnPre {
				if n[0] == o.R && n[1] == o.T && map[int]string{0: "diff", 1: "blob", 2: "info"}[n[2]] == o.K {
					served = true
				}
			}
			m.g.setFaults(o.Mf, o.Fl)
			name := o.K
			if name == "other" {
				name = "lower"
			}
			switch o.Cx {
			case "before":
				c := make(chan struct{})
				close(c)
				st = m.rawLookupC(c, lid, name)
				o.Mf = true // an interrupted request cannot fetch the manifest: same as a manifest fault
			case "mid":
				c := make(chan struct{})
				reached, open := m.g.armGate()
				done := make(chan fuse.Status, 1)
				go func() { done <- m.rawLookupC(c, lid, name) }()
				select {
				case <-reached:
					m.stats["result.cancel.midfetch"]++
					close(c)
					open()
					st = <-done
				case st = <-done:
					open()
				}
			default:
				_, st = m.rawLookup(lid, name)
			}
			m.quiesce()
			m.noteInjected(o.R)
			m.g.setFaults(false, nil)
			ob := m.observe(errClass(st), pre)
			out = append(out, ob)
			switch o.K {
			case "diff", "blob":
				m.judgeLookup(o, st, pre, served)
			case "use", "other":
				if st != fuse.ENOENT {
					m.fail("", "lookup of %q under a layer directory returned %v", name, st)
				}
			case "info":
				if st != fuse.OK && st != fuse.EIO {
					m.fail("", "lookup of info returned %v", st)
				}
			}
		case "use", "createother":
			_, lid, st := m.walk(o.R, o.T)
			if st != fuse.OK {
				m.fail("", "walk to (ref %d, toc %d) failed: %v", o.R, o.T, st)
				out = append(out, m.observe(errClass(st), pre))
				continue
			}
			name := "use"
			if o.Op == "createother" {
				name = "used"
			}
			var co fuse.CreateOut
			st = m.raw.Create(nil, &fuse.CreateIn{InHeader: fuse.InHeader{NodeId: lid}}, name, &co)
			if o.Op == "use" {
				m.own[[2]int{o.R, o.T}]++
			}
			if st != fuse.ENOENT {
				m.fail("", "create %q returned %v", name, st)
			}
			out = append(out, m.observe(errClass(st), pre))
		case "rmdir":
			rid, _, st := m.walk(o.R, o.T)
			if st != fuse.OK {
				m.fail("", "walk to (ref %d, toc %d) failed: %v", o.R, o.T, st)
				out = append(out, m.observe(errClass(st), pre))
				continue
			}
			k := [2]int{o.R, o.T}
			before := m.ownTotal(o.R)
			st = m.raw.Rmdir(nil, &fuse.InHeader{NodeId: rid}, tocDigest(o.T).String())
			hadUse := m.own[k] > 0
			if hadUse {
				m.own[k]--
			}
			ob := m.observe(errClass(st), pre)
			out = append(out, ob)
			if st != fuse.ENOENT && st != fuse.EIO {
				m.fail("", "rmdir returned %v", st)
			}
			if hadUse && pre.cached(o.R, o.T) && st != fuse.ENOENT {
				m.fail("", "rmdir(ref %d, toc %d) of a used and cached layer failed: %v", o.R, o.T, st)
			}
			if hadUse && m.own[k] == 0 {
				m.stats["result.rmdir.layerzero"]++
			}
			if hadUse && before > 0 && m.ownTotal(o.R) == 0 {
				m.stats["result.rmdir.imagezero"]++
				m.relZero[o.R] = true
				d := m.dump()
				for _, e := range d.layers {
					if e[0] == o.R {
						m.fail("", "layer (ref %d, toc %d) still cached after the last use of the image was released", e[0], e[1])
					}
				}
				for _, e := range d.memo {
					if e[0] == o.R {
						m.fail("", "resolution memo of (ref %d, layer %d) survives the last release of the image", e[0], e[1])
					}
				}
				for _, e := range d.counts {
					if e[0] == o.R {
						m.fail("", "use count entry (ref %d, toc %d)=%d survives the last release of the image", e[0], e[1], e[2])
					}
				}
				for l := range blobs {
					delete(m.faulted, [2]int{o.R, l})
				}
			}
		case "badref":
			names := []string{"not base64 !", base64.StdEncoding.EncodeToString([]byte("http://reg.test/img0:latest")), base64.StdEncoding.EncodeToString([]byte("/nohost:latest")), base64.StdEncoding.EncodeToString([]byte("a b/c"))}
			for _, n := range names {
				if _, st := m.rawLookup(1, n); st != fuse.EINVAL {
					m.fail("", "root lookup of malformed name %q returned %v", n, st)
				}
			}
			out = append(out, m.observe("einval", pre))
		case "alias":
			// a non-canonical base64 spelling of the directory name of ref r (non-zero unused bits in the last symbol):
			// it must not name the image (two directories for one image would be swept independently)
			id, st := m.rawLookup(1, aliasDir(o.R))
			if st == fuse.OK {
				m.fail("", "root lookup of a non-canonical base64 name of ref %d returned OK (second directory for the same image)", o.R)
				if lid, st2 := m.rawLookup(id, tocDigest(o.T).String()); st2 == fuse.OK {
					m.rawLookup(lid, "diff")
					m.quiesce()
				}
			} else if st != fuse.EINVAL {
				m.fail("", "root lookup of a non-canonical base64 name returned %v", st)
			}
			out = append(out, m.observe("einval", pre))
		case "baddigest":
			rid, st := m.rawLookup(1, refDir(o.R))
			if st != fuse.OK {
				m.fail("", "root lookup of ref %d failed: %v", o.R, st)
			}
			for _, n := range []string{"sha256:zz", "notadigest", "sha256-" + tocDigest(0).Encoded()} {
				if o.Rm {
					st = m.raw.Rmdir(nil, &fuse.InHeader{NodeId: rid}, n)
				} else {
					_, st = m.rawLookup(rid, n)
				}
				if st != fuse.EINVAL {
					m.fail("", "malformed digest name %q returned %v", n, st)
				}
			}
			out = append(out, m.observe("einval", pre))
		case "pool":
			_, st := m.rawLookup(1, "pool")
			if st != fuse.OK {
				m.fail("", "root lookup of pool returned %v", st)
			}
			out = append(out, m.observe(errClass(st), pre))
		case "expire":
			if o.L >= 0 && o.L < nBlobs {
				m.lm.VerifExpire(m.spec(o.R), layerDesc(o.L))
			}
			out = append(out, m.observe("ok", pre))
		default:
			panic("unknown op " + o.Op)
		}
	}
	return out
}

// oracle for a finished diff/blob lookup
func (m *machine) judgeLookup(o Op, st fuse.Status, pre dump, served bool) {
	has := m.imageHasToc(o.R, o.T)
	if st == fuse.OK {
		m.stats["result.lookup.ok"]++
		if served {
			m.stats["result.lookup.served-from-tree"]++
		}
		if m.relZero[o.R] && !served {
			m.stats["result.relookup.ok"]++
		}
		if !has {
			m.fail("", "lookup(ref %d, toc %d) succeeded although no layer of the image has this TOC digest", o.R, o.T)
		}
		return
	}
	if st != fuse.EIO {
		m.fail("", "lookup(ref %d, toc %d) returned %v", o.R, o.T, st)
	}
	if !has {
		m.stats["result.lookup.fail.unknown"]++
		return
	}
	manifestOK := pre.hasManifest(o.R) || !o.Mf
	healthyLayer, stickyLayer := false, false
	for _, l := range m.image(o.R) {
		if m.tocOf(l) != o.T {
			continue
		}
		f := false
		for _, x := range o.Fl {
			if x == l {
				f = true
			}
		}
		if !f {
			healthyLayer = true
			if m.faulted[[2]int{o.R, l}] {
				stickyLayer = true
			}
		}
	}
	if !manifestOK || !healthyLayer {
		m.stats["result.lookup.fail.fault"]++
		return
	}
	if stickyLayer {
		m.stats["result.lookup.fail.sticky"]++
		m.fail("C16:sticky-resolve-error", "lookup(ref %d, toc %d) fails with a healthy registry: an earlier registry error for this layer is memoised", o.R, o.T)
		return
	}
	m.fail("", "lookup(ref %d, toc %d) failed although the image contains the layer and the registry is healthy", o.R, o.T)
}

// ---------------------------------------------------------------------------------------------
// Coq printing

func coqOp(o Op) string {
	switch o.Op {
	case "lookup":
		k := map[string]string{"diff": "KDiff", "blob": "KBlob", "info": "KInfo", "use": "KUse", "other": "KOther"}[o.K]
		return fmt.Sprintf("FLookup %d %d %s %s %s", o.R, o.T, k, hx.CoqBool(o.Mf || o.Cx == "before"), hx.CoqNatList(o.Fl))
	case "use":
		return fmt.Sprintf("FUse %d %d", o.R, o.T)
	case "createother":
		return fmt.Sprintf("FCreateOther %d %d", o.R, o.T)
	case "rmdir":
		return fmt.Sprintf("FRmdir %d %d", o.R, o.T)
	case "badref", "alias":
		return "FBadRef"
	case "baddigest":
		return fmt.Sprintf("FBadDigest %d %s", o.R, hx.CoqBool(o.Rm))
	case "pool":
		return "FPool"
	case "expire":
		return fmt.Sprintf("FExpire %d %d", o.R, o.L)
	}
	panic("op")
}

func coqObs(o Obs) string {
	e := map[string]string{"ok": "EOK", "enoent": "ENOENT", "eio": "EIO", "einval": "EINVAL"}[o.Err]
	if e == "" {
		e = "EINVAL (* unexpected: " + o.Err + " *)"
	}
	t3 := func(ctor string, xs [][3]int, last func(int) string) string {
		s := make([]string, len(xs))
		for i, x := range xs {
			s[i] = fmt.Sprintf("%s %d %d %s", ctor, x[0], x[1], last(x[2]))
		}
		return hx.CoqList(s)
	}
	nat := func(x int) string { return fmt.Sprintf("%d", x) }
	z := func(x int) string { return hx.CoqZ(int64(x)) }
	b := func(x int) string { return hx.CoqBool(x != 0) }
	ps := make([]string, len(o.D.Pool))
	for i, x := range o.D.Pool {
		ps[i] = fmt.Sprintf("tp %d %s", x[0], hx.CoqZ(int64(x[1])))
	}
	st := fmt.Sprintf("(mkObs ROk true %s %s %s %s %s %d)", t3("tl", o.D.Layers, nat), t3("tc", o.D.Counts, z), t3("tm", o.D.Memo, b),
		hx.CoqList(ps), hx.CoqNatList(o.D.Manif), o.D.Empties)
	ln := make([]string, len(o.LNodes))
	for i, x := range o.LNodes {
		ln[i] = fmt.Sprintf("tn %d %d", x[0], x[1])
	}
	fn := make([]string, len(o.FNodes))
	for i, x := range o.FNodes {
		fn[i] = fmt.Sprintf("tf %d %d %d %d", x[0], x[1], x[2], x[3])
	}
	return fmt.Sprintf("mkFObs %s %s %s %s %s", e, st, hx.CoqNatList(o.RNodes), hx.CoqList(ln), hx.CoqList(fn))
}

func coqCase(c Case, obs []Obs) string {
	ops := make([]string, len(c.Ops))
	for i, o := range c.Ops {
		ops[i] = coqOp(o)
	}
	os := make([]string, len(obs))
	for i, o := range obs {
		os[i] = coqObs(o)
	}
	return fmt.Sprintf("(%s, %s, %s)", coqWorld(c.World), hx.CoqList(ops), hx.CoqList(os))
}

// ---------------------------------------------------------------------------------------------
// generation

func genCase(r *hx.Rng) Case {
	w := genWorld(r)
	c := Case{World: w}
	nops := r.Range(3, 20)
	pickRef := func() int {
		if r.Chance(1, 25) {
			return len(w.Images)
		}
		return r.Intn(len(w.Images))
	}
	pickToc := func(ref int) int {
		var img []int
		if ref < len(w.Images) {
			img = w.Images[ref]
		}
		switch r.Pick(84, 6, 3, 4, 3) {
		case 0:
			if len(img) > 0 {
				l := img[r.Intn(len(img))]
				if w.Ltoc[l] >= 0 {
					return w.Ltoc[l]
				}
				return tocAsLD + l
			}
		case 1:
			return r.Intn(nEsgz)
		case 2:
			return tocUnk0 + r.Intn(2)
		case 3:
			if len(img) > 0 {
				return tocAsLD + img[r.Intn(len(img))]
			}
		}
		return r.Intn(nEsgz)
	}
	faults := func(ref int) []int {
		var fl []int
		if ref < len(w.Images) && r.Chance(1, 6) {
			for _, l := range w.Images[ref] {
				if r.Chance(1, 2) {
					fl = append(fl, l)
				}
			}
		}
		return fl
	}
	used := [][2]int{}
	looked := [][2]int{}
	for len(c.Ops) < nops {
		ref := pickRef()
		switch r.Pick(34, 8, 22, 22, 2, 2, 2, 1, 5, 2, 3) {
		case 0:
			t := pickToc(ref)
			k := []string{"diff", "blob"}[r.Intn(2)]
			looked = append(looked, [2]int{ref, t})
			lo := Op{Op: "lookup", K: k, R: ref, T: t, Mf: r.Chance(1, 10), Fl: faults(ref)}
			if r.Chance(1, 5) {
				lo.Cx = []string{"before", "mid", "mid", "after"}[r.Intn(4)]
			}
			c.Ops = append(c.Ops, lo)
			if lo.Cx != "" && r.Chance(2, 3) { // a fresh client asks again
				c.Ops = append(c.Ops, Op{Op: "lookup", K: k, R: ref, T: t})
			}
			if r.Chance(1, 3) { // the real client stats diff, info, blob in a row
				c.Ops = append(c.Ops, Op{Op: "lookup", K: "info", R: ref, T: t}, Op{Op: "lookup", K: "blob", R: ref, T: t})
			}
		case 1:
			c.Ops = append(c.Ops, Op{Op: "lookup", K: "info", R: ref, T: pickToc(ref), Mf: r.Chance(1, 8)})
		case 2:
			t := pickToc(ref)
			if len(looked) > 0 && r.Chance(7, 8) {
				x := looked[len(looked)-1-r.Intn(min(3, len(looked)))]
				ref, t = x[0], x[1]
			}
			c.Ops = append(c.Ops, Op{Op: "use", R: ref, T: t})
			used = append(used, [2]int{ref, t})
		case 3:
			if len(used) > 0 && r.Chance(7, 8) {
				j := r.Intn(len(used))
				u := used[j]
				used = append(used[:j], used[j+1:]...)
				c.Ops = append(c.Ops, Op{Op: "rmdir", R: u[0], T: u[1]})
			} else if r.Chance(1, 3) {
				c.Ops = append(c.Ops, Op{Op: "rmdir", R: ref, T: pickToc(ref)})
			}
		case 4:
			c.Ops = append(c.Ops, Op{Op: "lookup", K: []string{"use", "other"}[r.Intn(2)], R: ref, T: pickToc(ref)})
		case 5:
			c.Ops = append(c.Ops, Op{Op: "createother", R: ref, T: pickToc(ref)})
		case 6:
			c.Ops = append(c.Ops, Op{Op: "baddigest", R: ref, Rm: r.Bool()})
		case 7:
			c.Ops = append(c.Ops, Op{Op: "badref"})
		case 8:
			if ref < len(w.Images) {
				c.Ops = append(c.Ops, Op{Op: "expire", R: ref, L: w.Images[ref][r.Intn(len(w.Images[ref]))]})
			}
		case 9:
			c.Ops = append(c.Ops, Op{Op: "pool"})
		case 10:
			c.Ops = append(c.Ops, Op{Op: "alias", R: ref, T: pickToc(ref)})
		}
	}
	return c
}

func corpus() []Case {
	std := World{Ltoc: []int{0, 1, 2, 3, 4, -1, -1}, Images: [][]int{{0, 1, 5}, {1, 2}}}
	lk := func(k string, r, t int) Op { return Op{Op: "lookup", K: k, R: r, T: t} }
	return []Case{
		// the client protocol of containers/storage: stat diff, info, blob; creat use; ...; rmdir; again
		{World: std, Ops: []Op{lk("diff", 0, 0), lk("info", 0, 0), lk("blob", 0, 0), {Op: "use", R: 0, T: 0}, lk("use", 0, 0), {Op: "rmdir", R: 0, T: 0}, lk("diff", 0, 0), lk("info", 0, 0)}},
		// sibling layer looked up but never used; last release of the image; expiry of the resolver cache; sibling again
		{World: std, Ops: []Op{lk("diff", 0, 0), lk("diff", 0, 1), lk("blob", 0, 1), {Op: "use", R: 0, T: 0}, {Op: "rmdir", R: 0, T: 0}, {Op: "expire", R: 0, L: 1}, lk("diff", 0, 1), lk("blob", 0, 1)}},
		// info before the layer is resolved is kept as it was; two uses, two rmdirs
		{World: std, Ops: []Op{lk("info", 1, 1), lk("diff", 1, 1), lk("info", 1, 1), {Op: "use", R: 1, T: 1}, {Op: "use", R: 1, T: 1}, {Op: "rmdir", R: 1, T: 1}, lk("info", 1, 1), {Op: "rmdir", R: 1, T: 1}, lk("info", 1, 1), {Op: "rmdir", R: 1, T: 1}}},
		// malformed names, unknown digests, non-existing image, pool
		{World: std, Ops: []Op{{Op: "badref"}, {Op: "baddigest", R: 0}, {Op: "baddigest", R: 0, Rm: true}, {Op: "pool"}, lk("diff", 0, 50), lk("diff", 0, 100), lk("diff", 2, 0), lk("other", 0, 0), {Op: "createother", R: 0, T: 0}, {Op: "rmdir", R: 0, T: 0}}},
		// a second spelling of the image's directory name; sibling stat'ed through it; last rmdir through the canonical name
		{World: std, Ops: []Op{lk("diff", 0, 0), {Op: "alias", R: 0, T: 1}, {Op: "use", R: 0, T: 0}, {Op: "rmdir", R: 0, T: 0}, lk("diff", 0, 1)}},
		// in-use layer survives TTL expiry + sibling release + re-resolution
		{World: std, Ops: []Op{lk("diff", 0, 0), {Op: "use", R: 0, T: 0}, lk("diff", 0, 1), {Op: "use", R: 0, T: 1}, {Op: "expire", R: 0, L: 0}, {Op: "expire", R: 0, L: 1}, {Op: "rmdir", R: 0, T: 0}, lk("diff", 0, 0), lk("blob", 0, 1), {Op: "rmdir", R: 0, T: 1}}},
		// annotated manifests (correct / another layer's / stale / malformed / none)
		{World: World{Ltoc: []int{0, 1, 2, 3, 4, -1, -1}, Images: [][]int{{0, 1, 2, 5}}, Ann: [][]int{{1, 50, 900, 0}}},
			Ops: []Op{lk("diff", 0, 0), lk("info", 0, 0), lk("blob", 0, 1), lk("diff", 0, 2), {Op: "use", R: 0, T: 1}, {Op: "rmdir", R: 0, T: 1}, lk("diff", 0, 1), lk("diff", 0, 0)}},
		// interrupted requests at every stage, then a fresh request
		{World: std, Ops: []Op{{Op: "lookup", K: "diff", R: 0, T: 0, Cx: "mid"}, lk("diff", 0, 0), lk("blob", 0, 1), {Op: "lookup", K: "diff", R: 1, T: 1, Cx: "before"}, {Op: "lookup", K: "diff", R: 1, T: 1, Cx: "mid"}, lk("diff", 1, 1), {Op: "lookup", K: "blob", R: 1, T: 2, Cx: "after"}, lk("blob", 1, 2)}},
		// registry error memoised (known finding), cleared by the last rmdir
		{World: std, Ops: []Op{{Op: "lookup", K: "diff", R: 1, T: 1, Fl: []int{1}}, lk("diff", 1, 1), lk("diff", 1, 2), {Op: "use", R: 1, T: 2}, {Op: "rmdir", R: 1, T: 2}, lk("diff", 1, 1)}},
	}
}

func main() {
	logrus.SetLevel(logrus.PanicLevel)
	logrus.SetOutput(io.Discard)
	log.L.Logger.SetOutput(io.Discard)
	ctx := hx.Start()
	buildBlobs()
	emit := func(c Case) {
		m := newMachine(c.World)
		obs := m.run(c.Ops)
		m.close()
		kinds := map[string]bool{}
		for _, o := range c.Ops {
			key := "op." + o.Op
			if o.Op == "lookup" {
				key += "." + o.K
				if o.Mf {
					ctx.Count("fault.manifest")
				}
				if len(o.Fl) > 0 {
					ctx.Count("fault.blob")
				}
			}
			ctx.Count(key)
			kinds[o.Op] = true
		}
		for k, v := range m.stats {
			ctx.CountN(k, v)
		}
		ctx.CountN("ops", len(c.Ops))
		term := coqCase(c, obs)
		id := ctx.Case(term, c, term, len(kinds) >= 3 && m.stats["result.lookup.ok"] > 0)
		for _, p := range m.problems {
			if p.sig != "" {
				ctx.Finding(id, p.sig, p.what, nil)
			} else {
				ctx.Violation(id, p.what, nil)
			}
		}
	}
	if ctx.Replay != "" {
		var c Case
		ctx.LoadReplay(&c)
		emit(c)
		ctx.Finish()
		return
	}
	cs := corpus()
	for _, c := range cs {
		emit(c)
	}
	r := hx.NewRng(ctx.Seed)
	for i := len(cs); i < ctx.N; i++ {
		emit(genCase(r.Fork()))
	}
	ctx.Finish()
}
