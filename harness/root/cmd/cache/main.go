// C11 correspondence harness: drives cache.NewDirectoryCache / cache.NewMemoryCache of /repo with schedules of
// Add/Write/Commit/Abort/Close, Get/ReadAt/Close and the persist sub-steps (gated through cache.VerifPersistHook),
// prints the executed sub-steps and the observed outputs as Coq terms for Model/Cache.v, and evaluates the
// property's clauses directly on the observations (model-free oracle): every hit yields exactly one byte string
// that some writer committed under that key, stable for as long as the reader is open, never a read error.
package main

import (
	"bytes"
	"fmt"
	"io"
	"os"
	"os/signal"
	"path/filepath"
	"reflect"
	"sync"
	"sync/atomic"
	"syscall"
	"time"

	"github.com/containerd/stargz-snapshotter/cache"
	"verif/harness/hx"
)

type Op struct {
	Op     string `json:"op"` // add write commit abort closew pwrite pfail prename pdone get gstart gfd gopen read closer peek closecache
	G      int    `json:"g,omitempty"`
	K      int    `json:"k,omitempty"`
	W      int    `json:"w,omitempty"`
	R      int    `json:"r,omitempty"`
	Direct bool   `json:"direct,omitempty"`
	PT     bool   `json:"pt,omitempty"`
	Data   []int  `json:"data,omitempty"`
	Off    int    `json:"off,omitempty"`
	N      int    `json:"n,omitempty"`
}

type Case struct {
	Kind   string `json:"kind"` // dir | mem | stress
	DCap   int    `json:"dcap,omitempty"`
	FCap   int    `json:"fcap,omitempty"`
	Direct bool   `json:"cfgdirect,omitempty"`
	Sync   bool   `json:"sync,omitempty"`
	Fadv   bool   `json:"fadv,omitempty"`
	Block  bool   `json:"block,omitempty"` // a regular file sits where the directory of key 5 ("ef") would be: MkdirAll fails
	Ops    []Op   `json:"ops"`
	// stress only
	SSeed   uint64 `json:"sseed,omitempty"`
	Workers int    `json:"workers,omitempty"`
	Steps   int    `json:"steps,omitempty"`
	CloseAt int    `json:"closeat,omitempty"` // stress: the cache is closed after that many operations (0 = at the end)
}

const nkeys = 6

var keyNames = []string{"aa00", "aa01", "ab02", "cd03", "cd04", "ef05"}

func keyName(k int) string { return keyNames[k%nkeys] }

// ---- persist gate (cache.VerifPersistHook) ----

type arrival struct {
	stage  int
	resume chan struct{}
}

var (
	gateOn   atomic.Bool
	arrivals = make(chan arrival, 64)
)

func hook(key string, stage int) {
	if !gateOn.Load() {
		return
	}
	a := arrival{stage: stage, resume: make(chan struct{})}
	arrivals <- a
	if stage != 3 {
		<-a.resume
	}
}

// Get gate (cache.VerifGetHook): a Get started by a "gstart" op runs on its own goroutine and stops between its three
// lookups. Only one goroutine runs at a time, so a hook call made while the main goroutine is inside a plain Get
// comes from the main goroutine and is let through.
var (
	mainInGet atomic.Bool
	getGateOn atomic.Bool
	garrivals = make(chan arrival, 64)
)

func getHook(key string, stage int) {
	if !getGateOn.Load() || mainInGet.Load() {
		return
	}
	a := arrival{stage: stage, resume: make(chan struct{})}
	garrivals <- a
	<-a.resume
}

type getRet struct {
	r   cache.Reader
	err error
}

type gstate struct {
	key    int
	pt     bool
	stage  int // 1 = before the descriptor lookup, 2 = before open, -1 = finished
	resume chan struct{}
	ret    chan getRet
}

func waitArrival() (arrival, bool) {
	select {
	case a := <-arrivals:
		return a, true
	case <-time.After(15 * time.Second):
		return arrival{}, false
	}
}

// mkTemp creates the cache's parent directory. The quick tier keeps it on tmpfs when there is one (the shared disk of the
// build machine makes rename/open latencies dominate the run time); the thorough tier puts every fourth one into the default
// temporary directory, so that a disk file system is exercised as well.
var (
	tmpCount int
	onDisk   bool
)

func mkTemp(prefix string) string {
	base := ""
	tmpCount++
	if st, err := os.Stat("/dev/shm"); err == nil && st.IsDir() && !(onDisk && tmpCount%4 == 0) {
		base = "/dev/shm"
	}
	dir, err := os.MkdirTemp(base, prefix)
	if err != nil {
		dir, err = os.MkdirTemp("", prefix)
		if err != nil {
			panic(err)
		}
	}
	return dir
}

// ---- driver ----

type wstate struct {
	w         cache.Writer
	key       int
	mem       bool // memory path of the directory cache (has a persist closure)
	status    int  // 0 open 1 committed 2 aborted
	closed    bool
	stage     int // -1 none; 0,1,2 pending persist sub-step
	acc       []byte
	resume    chan struct{}
	commitRet chan error
	mayFail   bool // a persist fault was injected
}

type rstate struct {
	r    cache.Reader
	ra   io.ReaderAt
	key  int
	open bool
	val  []byte
}

type driver struct {
	c         Case
	dir       string
	bc        cache.BlobCache
	ws        []*wstate
	rs        []*rstate
	gs        []*gstate
	closed    bool
	committed map[int][][]byte
	bufIDs    map[*bytes.Buffer]int
	coqOps    []string
	coqOuts   []string
	problems  []string
	stats     map[string]int
}

func newDriver(c Case) *driver {
	d := &driver{c: c, committed: map[int][][]byte{}, bufIDs: map[*bytes.Buffer]int{}, stats: map[string]int{}}
	if c.Kind == "mem" {
		d.bc = cache.NewMemoryCache()
		return d
	}
	dir := mkTemp("c11-")
	d.dir = dir
	bc, err := cache.NewDirectoryCache(filepath.Join(dir, "c"), cache.DirectoryCacheConfig{
		MaxLRUCacheEntry: c.DCap, MaxCacheFds: c.FCap, SyncAdd: c.Sync, Direct: c.Direct, FadvDontNeed: c.Fadv,
	})
	if err != nil {
		panic(err)
	}
	d.bc = bc
	if c.Block {
		if err := os.WriteFile(filepath.Join(dir, "c", keyName(5)[:2]), []byte("x"), 0o600); err != nil {
			panic(err)
		}
	}
	return d
}

func (d *driver) blocked(k int) bool {
	return d.c.Kind == "dir" && d.c.Block && keyName(k)[:2] == keyName(5)[:2]
}

// hitReader registers a reader returned by a lookup and evaluates the hit clause of the oracle.
func (d *driver) hitReader(r cache.Reader, k int, pt bool) string {
	rs := &rstate{r: r, ra: r, key: k, open: true}
	if pt {
		rs.ra = r.GetReaderAt() // what the FUSE passthrough path takes over
	}
	d.rs = append(d.rs, rs)
	v, rerr := readAll(rs.ra)
	if rerr != nil {
		d.problem("hit on %s: reading the value failed: %v", keyName(k), rerr)
	} else if !d.isCommitted(k, v) {
		d.problem("hit on %s returned %v which no writer committed under that key (committed: %v)", keyName(k), v, d.committed[k])
	}
	rs.val = v
	if _, isFile := r.GetReaderAt().(*os.File); isFile {
		return "hit.file"
	}
	return "hit.buf"
}

// gstep lets a gated Get proceed to its next gate or to its end; returns "hit.*", "miss" or "pending".
func (d *driver) gstep(g *gstate, cop string) string {
	if g.resume != nil {
		close(g.resume)
		g.resume = nil
	}
	select {
	case a := <-garrivals:
		g.resume, g.stage = a.resume, a.stage
		d.emit(cop, "OMiss")
		return "pending"
	case rt := <-g.ret:
		g.stage = -1
		if rt.err != nil {
			d.emit(cop, "OMiss")
			return "miss"
		}
		d.emit(cop, "OHit")
		return d.hitReader(rt.r, g.key, g.pt)
	case <-time.After(15 * time.Second):
		g.stage = -1
		d.problem("gated Get of %s neither returned nor reached its next lookup", keyName(g.key))
		return "miss"
	}
}

func (d *driver) problem(f string, a ...any) { d.problems = append(d.problems, fmt.Sprintf(f, a...)) }

// bufOf finds the *bytes.Buffer behind a memory-path writer (exported embedded fields only).
func bufOf(w cache.Writer) *bytes.Buffer {
	defer func() { recover() }()
	v := reflect.ValueOf(w)
	if v.Kind() == reflect.Ptr {
		v = v.Elem()
	}
	f := v.FieldByName("WriteCloser")
	if !f.IsValid() {
		return nil
	}
	in := f.Elem()
	if in.Kind() == reflect.Ptr {
		in = in.Elem()
	}
	if in.Kind() != reflect.Struct {
		return nil
	}
	wf := in.FieldByName("Writer")
	if !wf.IsValid() || wf.Kind() != reflect.Interface {
		return nil
	}
	b, _ := wf.Elem().Interface().(*bytes.Buffer)
	return b
}

func toBytes(xs []int) []byte {
	b := make([]byte, len(xs))
	for i, x := range xs {
		b[i] = byte(x)
	}
	return b
}

func (d *driver) isCommitted(k int, v []byte) bool {
	for _, c := range d.committed[k] {
		if bytes.Equal(c, v) {
			return true
		}
	}
	return false
}

func readAll(ra io.ReaderAt) ([]byte, error) {
	p := make([]byte, 4096)
	n, err := ra.ReadAt(p, 0)
	if err != nil && err != io.EOF {
		return nil, err
	}
	return p[:n], nil
}

func (d *driver) emit(op, out string) {
	d.coqOps = append(d.coqOps, op)
	d.coqOuts = append(d.coqOuts, out)
}

// applicable mirrors the protocol conditions under which the model's step is not a no-op.
func (d *driver) applicable(o Op) bool {
	switch o.Op {
	case "add", "get", "peek", "gstart":
		return o.K >= 0 && o.K < nkeys
	case "gfd":
		return o.G >= 0 && o.G < len(d.gs) && d.gs[o.G].stage == 1
	case "gopen":
		return o.G >= 0 && o.G < len(d.gs) && d.gs[o.G].stage == 2
	case "closecache":
		return d.c.Kind == "dir" && !d.closed
	case "pfail":
		return o.W >= 0 && o.W < len(d.ws) && d.ws[o.W].stage == 0 && o.N >= 0
	case "write", "commit", "abort":
		return o.W >= 0 && o.W < len(d.ws) && d.ws[o.W].status == 0 && !d.ws[o.W].closed
	case "closew":
		if o.W < 0 || o.W >= len(d.ws) || d.ws[o.W].closed {
			return false
		}
		// with SyncAdd the owner of the writer is still inside Commit until the persist steps are done
		return !(d.c.Sync && d.ws[o.W].stage >= 0)
	case "pwrite":
		return o.W >= 0 && o.W < len(d.ws) && d.ws[o.W].stage == 0
	case "prename":
		return o.W >= 0 && o.W < len(d.ws) && d.ws[o.W].stage == 1
	case "pdone":
		return o.W >= 0 && o.W < len(d.ws) && d.ws[o.W].stage == 2
	case "read", "closer":
		return o.R >= 0 && o.R < len(d.rs) && d.rs[o.R].open
	}
	return false
}

// do executes one applicable op on the implementation, records the Coq op/out, evaluates the oracle.
// It returns a short result tag for the generator and the statistics.
func (d *driver) do(o Op) string {
	if !d.applicable(o) {
		d.stats["skipped"]++
		return "skip"
	}
	isDir := d.c.Kind == "dir"
	switch o.Op {
	case "add":
		direct := o.Direct || (isDir && d.c.Direct)
		var opts []cache.Option
		if o.Direct {
			opts = append(opts, cache.Direct())
		}
		w, err := d.bc.Add(keyName(o.K), opts...)
		if err != nil {
			if d.closed {
				d.emit(fmt.Sprintf("Add %d %s None", o.K, hx.CoqBool(direct)), "OErr")
				return "closed"
			}
			d.problem("Add(%s) failed: %v", keyName(o.K), err)
			return "err"
		}
		if d.closed {
			d.problem("Add(%s) succeeded on a closed cache", keyName(o.K))
		}
		ws := &wstate{w: w, key: o.K, mem: isDir && !direct, stage: -1}
		d.ws = append(d.ws, ws)
		pick := "None"
		if ws.mem {
			if b := bufOf(w); b != nil {
				if id, seen := d.bufIDs[b]; seen {
					pick = fmt.Sprintf("(Some %d)", id)
					d.stats["pick.reuse"]++
				} else {
					d.bufIDs[b] = len(d.bufIDs)
					d.stats["pick.fresh"]++
				}
				if b.Len() != 0 {
					d.problem("Add(%s) handed out a non-empty buffer (%d bytes)", keyName(o.K), b.Len())
				}
			} else {
				d.stats["pick.unknown"]++
			}
		}
		d.emit(fmt.Sprintf("Add %d %s %s", o.K, hx.CoqBool(direct), pick), "OOk true")
		return "ok"
	case "write":
		ws := d.ws[o.W]
		data := toBytes(o.Data)
		n, err := ws.w.Write(data)
		if err != nil || n != len(data) {
			d.problem("Write on writer %d failed: n=%d err=%v", o.W, n, err)
		}
		ws.acc = append(ws.acc, data...)
		d.emit(fmt.Sprintf("Write %d %s", o.W, hx.CoqBytes(data)), "ONone")
		return "ok"
	case "commit":
		ws := d.ws[o.W]
		ws.status = 1
		if !ws.mem {
			// a direct writer's value becomes visible by the rename: committed iff Commit succeeds
			mustFail := isDir && (d.closed || d.blocked(ws.key))
			err := ws.w.Commit()
			if err == nil {
				d.committed[ws.key] = append(d.committed[ws.key], append([]byte{}, ws.acc...))
			} else {
				ws.status = 2
			}
			if (err != nil) != mustFail {
				d.problem("Commit of direct writer %d: err=%v, expected failure=%v", o.W, err, mustFail)
			}
			d.emit(fmt.Sprintf("Commit %d %s", o.W, hx.CoqBool(!d.blocked(ws.key))), "ONone")
			if err != nil {
				return "fail"
			}
			return "ok"
		}
		if d.closed {
			// "cache is already closed": nothing is published, no persist closure runs
			ws.status = 2
			if err := ws.w.Commit(); err == nil {
				d.problem("Commit of writer %d succeeded on a closed cache", o.W)
			}
			d.emit(fmt.Sprintf("Commit %d true", o.W), "ONone")
			return "fail"
		}
		// the value counts as committed from the moment Commit is invoked (it is published to the memory LRU first)
		d.committed[ws.key] = append(d.committed[ws.key], append([]byte{}, ws.acc...))
		ws.commitRet = make(chan error, 1)
		gateOn.Store(true)
		go func() { ws.commitRet <- ws.w.Commit() }()
		// wait for the persist closure to reach its first gate and, in the background mode, for Commit to return
		// (either may happen first)
		gotArr, gotRet := false, d.c.Sync
		deadline := time.After(15 * time.Second)
		for !gotArr || !gotRet {
			select {
			case a := <-arrivals:
				if a.stage != 0 {
					d.problem("persist of writer %d arrived at stage %d first", o.W, a.stage)
				}
				ws.resume, ws.stage = a.resume, 0
				gotArr = true
			case err := <-ws.commitRet:
				if d.c.Sync {
					d.problem("synchronous Commit of writer %d returned before persisting: %v", o.W, err)
					gotArr = true
				} else if err != nil {
					d.problem("Commit of writer %d failed: %v", o.W, err)
				}
				ws.commitRet = nil
				gotRet = true
			case <-deadline:
				d.problem("Commit of writer %d: persist closure never started or Commit never returned", o.W)
				gotArr, gotRet = true, true
			}
		}
		d.emit(fmt.Sprintf("Commit %d true", o.W), "ONone")
		return "ok"
	case "pfail":
		// short write of at most o.N bytes into the wip file: RLIMIT_FSIZE makes the write(2) beyond o.N fail (EFBIG)
		ws := d.ws[o.W]
		var old syscall.Rlimit
		syscall.Getrlimit(syscall.RLIMIT_FSIZE, &old)
		lim := old
		lim.Cur = uint64(o.N)
		e1 := syscall.Setrlimit(syscall.RLIMIT_FSIZE, &lim)
		close(ws.resume)
		a, ok := waitArrival()
		e2 := syscall.Setrlimit(syscall.RLIMIT_FSIZE, &old)
		if e1 != nil || e2 != nil {
			d.problem("setrlimit failed: %v %v", e1, e2)
		}
		if !ok {
			d.problem("persist of writer %d stuck after pfail", o.W)
			ws.stage = -1
			return "err"
		}
		ws.resume, ws.stage = a.resume, a.stage
		switch a.stage {
		case 1: // the value fitted: an ordinary complete write
			d.emit(fmt.Sprintf("PWrite %d", o.W), "ONone")
			return "fitted"
		case 2:
			ws.mayFail = true
			d.emit(fmt.Sprintf("PFail %d %d", o.W, o.N), "ONone")
			return "failed"
		}
		d.problem("persist of writer %d: pfail went to stage %d", o.W, a.stage)
		return "err"
	case "pwrite", "prename", "pdone":
		ws := d.ws[o.W]
		want := map[string]int{"pwrite": 1, "prename": 2, "pdone": 3}[o.Op]
		close(ws.resume)
		a, ok := waitArrival()
		if !ok {
			d.problem("persist of writer %d stuck after %s", o.W, o.Op)
			ws.stage = -1
			return "err"
		}
		if a.stage != want {
			d.problem("persist of writer %d: %s went to stage %d (write to the wip file failed?)", o.W, o.Op, a.stage)
		}
		ws.resume, ws.stage = a.resume, a.stage
		if a.stage == 3 {
			ws.stage = -1
			if ws.commitRet != nil { // SyncAdd: Commit returns now
				select {
				case err := <-ws.commitRet:
					if err != nil && !ws.mayFail && !d.closed && !d.blocked(ws.key) {
						d.problem("Commit of writer %d failed: %v", o.W, err)
					}
				case <-time.After(15 * time.Second):
					d.problem("synchronous Commit of writer %d did not return", o.W)
				}
				ws.commitRet = nil
			}
		}
		switch o.Op {
		case "pwrite":
			d.emit(fmt.Sprintf("PWrite %d", o.W), "ONone")
		case "prename":
			d.emit(fmt.Sprintf("PRename %d %s", o.W, hx.CoqBool(!d.blocked(ws.key))), "ONone")
		case "pdone":
			d.emit(fmt.Sprintf("PDone %d", o.W), "ONone")
		}
		return "ok"
	case "abort":
		ws := d.ws[o.W]
		ws.status = 2
		if err := ws.w.Abort(); err != nil && !d.closed {
			d.problem("Abort of writer %d failed: %v", o.W, err)
		}
		d.emit(fmt.Sprintf("Abort %d", o.W), "ONone")
		return "ok"
	case "closew":
		ws := d.ws[o.W]
		ws.closed = true
		if err := ws.w.Close(); err != nil && ws.stage < 0 && !(ws.mem && ws.status == 1) {
			// (a memory-path writer's wip file is closed by the persist closure itself)
			d.problem("Close of writer %d failed: %v", o.W, err)
		}
		d.emit(fmt.Sprintf("CloseW %d", o.W), "ONone")
		return "ok"
	case "get":
		direct := o.Direct || (isDir && d.c.Direct)
		var opts []cache.Option
		if o.Direct {
			opts = append(opts, cache.Direct())
		}
		if o.PT {
			opts = append(opts, cache.PassThrough())
		}
		mainInGet.Store(true)
		r, err := d.bc.Get(keyName(o.K), opts...)
		mainInGet.Store(false)
		cop := fmt.Sprintf("Get %d %s", o.K, hx.CoqBool(direct))
		if err != nil {
			d.emit(cop, "OMiss")
			return "miss"
		}
		if d.closed && isDir {
			d.problem("Get(%s) hit on a closed cache", keyName(o.K))
		}
		d.emit(cop, "OHit")
		return d.hitReader(r, o.K, o.PT)
	case "gstart":
		// a Get whose three lookups are separate schedule steps (memory lookup now)
		if !isDir || d.c.Direct || d.closed {
			return d.do(Op{Op: "get", K: o.K, PT: o.PT})
		}
		var opts []cache.Option
		if o.PT {
			opts = append(opts, cache.PassThrough())
		}
		g := &gstate{key: o.K, pt: o.PT, ret: make(chan getRet, 1)}
		d.gs = append(d.gs, g)
		getGateOn.Store(true)
		go func() {
			r, err := d.bc.Get(keyName(g.key), opts...)
			g.ret <- getRet{r, err}
		}()
		return d.gstep(g, fmt.Sprintf("GetMem %d", o.K))
	case "gfd":
		g := d.gs[o.G]
		return d.gstep(g, fmt.Sprintf("GetFd %d", g.key))
	case "gopen":
		g := d.gs[o.G]
		return d.gstep(g, fmt.Sprintf("GetOpen %d false", g.key))
	case "closecache":
		d.closed = true
		if err := d.bc.Close(); err != nil {
			d.problem("Close of the cache failed: %v", err)
		}
		d.emit("CloseCache", "ONone")
		return "ok"
	case "read":
		rs := d.rs[o.R]
		p := make([]byte, o.N)
		n, err := rs.ra.ReadAt(p, int64(o.Off))
		cop := fmt.Sprintf("ReadAt %d %d %d", o.R, o.Off, o.N)
		if err != nil && err != io.EOF {
			d.problem("ReadAt on open reader %d failed: %v", o.R, err)
			d.emit(cop, "OErr")
			return "err"
		}
		got := p[:n]
		lo, hi := o.Off, o.Off+o.N
		if lo > len(rs.val) {
			lo = len(rs.val)
		}
		if hi > len(rs.val) {
			hi = len(rs.val)
		}
		if !bytes.Equal(got, rs.val[lo:hi]) {
			d.problem("reader %d of %s: ReadAt(%d,%d) = %v, but the value seen at hit time was %v", o.R, keyName(rs.key), o.Off, o.N, got, rs.val)
		}
		d.emit(cop, "OData "+hx.CoqBytes(got))
		return "ok"
	case "closer":
		rs := d.rs[o.R]
		if v, err := readAll(rs.ra); err != nil {
			d.problem("reader %d of %s became unreadable before Close: %v", o.R, keyName(rs.key), err)
		} else if !bytes.Equal(v, rs.val) {
			d.problem("reader %d of %s changed under the reader: %v, at hit time %v", o.R, keyName(rs.key), v, rs.val)
		}
		rs.open = false
		if err := rs.r.Close(); err != nil {
			d.problem("Close of reader %d failed: %v", o.R, err)
		}
		d.emit(fmt.Sprintf("CloseR %d", o.R), "ONone")
		return "ok"
	case "peek":
		var v []byte
		found := false
		if isDir {
			b, err := os.ReadFile(filepath.Join(d.dir, "c", keyName(o.K)[:2], keyName(o.K)))
			if err == nil {
				v, found = b, true
			}
		} else {
			mc := d.bc.(*cache.MemoryCache)
			if b, ok := mc.Membuf[keyName(o.K)]; ok {
				v, found = append([]byte{}, b.Bytes()...), true
			}
		}
		if !found {
			d.emit(fmt.Sprintf("Peek %d", o.K), "OMiss")
			return "miss"
		}
		if !d.isCommitted(o.K, v) {
			d.problem("stored value of %s is %v which no writer committed under that key", keyName(o.K), v)
		}
		d.emit(fmt.Sprintf("Peek %d", o.K), "OData "+hx.CoqBytes(v))
		return "ok"
	}
	return "skip"
}

// finish drains pending persist steps, closes everything (as explicit ops, so the model sees them),
// looks at the stored value of every key, and releases the resources.
func (d *driver) finish() {
	for g, gs := range d.gs {
		for gs.stage > 0 {
			st := gs.stage
			d.do(Op{Op: []string{"", "gfd", "gopen"}[st], G: g})
			if gs.stage == st {
				break
			}
		}
	}
	for w, ws := range d.ws {
		for ws.stage >= 0 {
			st := ws.stage
			d.do(Op{Op: []string{"pwrite", "prename", "pdone"}[st], W: w})
			if ws.stage == st { // no progress
				break
			}
		}
	}
	for r := range d.rs {
		d.do(Op{Op: "closer", R: r})
	}
	for w := range d.ws {
		d.do(Op{Op: "closew", W: w})
	}
	for k := 0; k < nkeys; k++ {
		d.do(Op{Op: "peek", K: k})
		if d.do(Op{Op: "get", K: k}) != "miss" {
			d.do(Op{Op: "closer", R: len(d.rs) - 1})
		}
	}
	gateOn.Store(false)
	getGateOn.Store(false)
	d.bc.Close()
	if d.dir != "" {
		os.RemoveAll(d.dir)
	}
}

func (d *driver) coq() string {
	return fmt.Sprintf("((%s, %d, %d), %s, %s)", hx.CoqBool(d.c.Kind == "mem"), d.c.DCap, d.c.FCap, hx.CoqList(d.coqOps), hx.CoqList(d.coqOuts))
}

// ---- generator ----

// stream byte j of writer w under key k: self-describing (key, writer, then a writer-specific pattern)
func streamByte(k, w, j int) int {
	switch j {
	case 0:
		return k
	case 1:
		return w % 256
	}
	return (w*31 + j*7 + k*3 + 11) % 256
}

func gen(r *hx.Rng) Case {
	c := Case{Kind: "dir"}
	if r.Chance(1, 6) {
		c.Kind = "mem"
	} else {
		c.DCap = r.Pick(5, 4, 1) + 1
		c.FCap = r.Pick(5, 4, 1) + 1
		c.Sync = r.Bool()
		c.Direct = r.Chance(1, 8)
		c.Fadv = r.Chance(1, 4)
		c.Block = r.Chance(1, 6)
	}
	d := newDriver(c)
	n := r.Range(10, 60)
	closeAt := -1
	if c.Kind == "dir" && r.Chance(1, 5) {
		closeAt = r.Range(n/2, n-1)
	}
	hot := r.Intn(nkeys)
	pickKey := func() int {
		if r.Chance(1, 3) {
			return hot
		}
		return r.Intn(nkeys)
	}
	for i := 0; i < n; i++ {
		var openW, pend, closableW, openR []int
		for w, ws := range d.ws {
			if ws.status == 0 && !ws.closed {
				openW = append(openW, w)
			}
			if ws.stage >= 0 {
				pend = append(pend, w)
			}
			if !ws.closed && ws.status != 0 && !(c.Sync && ws.stage >= 0) {
				closableW = append(closableW, w)
			}
		}
		for x, rs := range d.rs {
			if rs.open {
				openR = append(openR, x)
			}
		}
		var pendG []int
		for g, gs := range d.gs {
			if gs.stage > 0 {
				pendG = append(pendG, g)
			}
		}
		persistOp := func(w int) Op {
			st := d.ws[w].stage
			if st == 0 && r.Chance(1, 5) {
				return Op{Op: "pfail", W: w, N: r.Pick(2, 2, 2, 1, 1)} // short write of 0..4 bytes
			}
			return Op{Op: []string{"pwrite", "prename", "pdone"}[st], W: w}
		}
		var o Op
		// with SyncAdd a pending persist mostly proceeds at once (other callers interleave now and then);
		// in the background mode it is delayed at random
		if i == closeAt {
			o = Op{Op: "closecache"}
		} else if len(pend) > 0 && ((c.Sync && r.Chance(3, 4)) || (!c.Sync && r.Chance(1, 4))) {
			o = persistOp(pend[r.Intn(len(pend))])
		} else if len(pendG) > 0 && r.Chance(1, 3) {
			g := pendG[r.Intn(len(pendG))]
			o = Op{Op: []string{"", "gfd", "gopen"}[d.gs[g].stage], G: g}
		} else {
			switch r.Pick(14, 14, 12, 3, 5, 22, 12, 10, 3, 5) {
			case 0:
				o = Op{Op: "add", K: pickKey(), Direct: r.Chance(1, 4)}
			case 1:
				if len(openW) == 0 {
					o = Op{Op: "add", K: pickKey(), Direct: r.Chance(1, 4)}
					break
				}
				w := openW[r.Intn(len(openW))]
				ws := d.ws[w]
				ln := r.Pick(1, 3, 3, 2, 1, 1) // 0..5 bytes
				o = Op{Op: "write", W: w}
				for j := 0; j < ln; j++ {
					o.Data = append(o.Data, streamByte(ws.key, w, len(ws.acc)+j))
				}
			case 2:
				if len(openW) == 0 {
					o = Op{Op: "get", K: pickKey()}
					break
				}
				o = Op{Op: "commit", W: openW[r.Intn(len(openW))]}
			case 3:
				if len(openW) == 0 {
					o = Op{Op: "get", K: pickKey()}
					break
				}
				o = Op{Op: "abort", W: openW[r.Intn(len(openW))]}
			case 4:
				if len(closableW) == 0 {
					o = Op{Op: "get", K: pickKey()}
					break
				}
				o = Op{Op: "closew", W: closableW[r.Intn(len(closableW))]}
			case 5:
				if r.Chance(1, 3) {
					o = Op{Op: "gstart", K: pickKey(), PT: r.Chance(1, 3)}
				} else {
					o = Op{Op: "get", K: pickKey(), Direct: r.Chance(1, 5), PT: r.Chance(1, 3)}
				}
			case 6:
				if len(openR) == 0 {
					o = Op{Op: "get", K: pickKey()}
					break
				}
				x := openR[r.Intn(len(openR))]
				l := len(d.rs[x].val)
				o = Op{Op: "read", R: x, Off: r.Intn(l + 3), N: r.Intn(l + 4)}
			case 7:
				if len(openR) == 0 {
					o = Op{Op: "get", K: pickKey()}
					break
				}
				o = Op{Op: "closer", R: openR[r.Intn(len(openR))]}
			case 8:
				o = Op{Op: "peek", K: pickKey()}
			case 9:
				if len(pend) == 0 {
					o = Op{Op: "get", K: pickKey()}
					break
				}
				o = persistOp(pend[r.Intn(len(pend))])
			}
		}
		d.do(o)
		c.Ops = append(c.Ops, o)
	}
	d.finish()
	return c
}

// genPressure builds the schedule shape the property is about: a value is published, readers and/or a pending
// persist step hold on to it, enough other keys are committed to evict it from both LRUs, released buffers are
// handed to new writers that overwrite them, and only then the old readers read and close.
func genPressure(r *hx.Rng) Case {
	c := Case{Kind: "dir", DCap: r.Range(1, 2), FCap: r.Range(1, 2), Sync: r.Chance(1, 3), Fadv: r.Chance(1, 5)}
	d := newDriver(c)
	do := func(o Op) string {
		res := d.do(o)
		c.Ops = append(c.Ops, o)
		return res
	}
	writeVal := func(w, n int) {
		ws := d.ws[w]
		for n > 0 {
			ln := r.Range(1, n)
			o := Op{Op: "write", W: w}
			for j := 0; j < ln; j++ {
				o.Data = append(o.Data, streamByte(ws.key, w, len(ws.acc)+j))
			}
			do(o)
			n -= ln
		}
	}
	persist := func(w int, upto int) { // run persist sub-steps of writer w until its stage is upto (or done when upto<0)
		for w < len(d.ws) && d.ws[w].stage >= 0 && d.ws[w].stage != upto {
			st := d.ws[w].stage
			if st == 0 && r.Chance(1, 8) {
				do(Op{Op: "pfail", W: w, N: r.Intn(4)})
			} else {
				do(Op{Op: []string{"pwrite", "prename", "pdone"}[st], W: w})
			}
			if d.ws[w].stage == st {
				return
			}
		}
	}
	publish := func(k, n int, direct bool, hold int) int { // returns writer index
		do(Op{Op: "add", K: k, Direct: direct})
		w := len(d.ws) - 1
		writeVal(w, n)
		do(Op{Op: "commit", W: w})
		if c.Sync && hold != 0 && r.Chance(2, 3) {
			hold = -1
		}
		persist(w, hold)
		return w
	}
	victim := r.Intn(nkeys)
	rounds := r.Range(1, 3)
	for round := 0; round < rounds; round++ {
		// publish the victim key; the persist step may stay pending at any stage
		hold := r.Pick(3, 2, 2, 3) - 1 // -1 done, 0, 1, 2
		wv := publish(victim, r.Pick(1, 2, 3, 3, 2)*r.Range(0, 3), false, hold)
		var held []int
		for i, n := 0, r.Range(1, 3); i < n; i++ {
			if res := do(Op{Op: "get", K: victim, Direct: r.Chance(1, 6), PT: r.Chance(1, 3)}); res != "miss" && res != "skip" {
				held = append(held, len(d.rs)-1)
			}
		}
		// a lookup of the victim that is overtaken by the evictions below
		slow := -1
		if r.Chance(1, 2) {
			if do(Op{Op: "gstart", K: (victim + r.Intn(2)) % nkeys}) == "pending" {
				slow = len(d.gs) - 1
			}
		}
		// evict it: commit other keys (some through the descriptor path as well)
		for i, n := 0, r.Range(2, 4); i < n; i++ {
			k := (victim + 1 + r.Intn(nkeys-1)) % nkeys
			publish(k, r.Range(0, 6), r.Chance(1, 5), r.Pick(4, 1, 1, 1)-1)
			if r.Chance(1, 2) {
				if res := do(Op{Op: "get", K: k, Direct: r.Chance(1, 4)}); res != "miss" && res != "skip" && r.Chance(2, 3) {
					do(Op{Op: "closer", R: len(d.rs) - 1})
				}
			}
		}
		if r.Chance(1, 2) {
			persist(wv, -1)
		}
		for slow >= 0 && d.gs[slow].stage > 0 && r.Chance(3, 4) {
			st := d.gs[slow].stage
			if res := do(Op{Op: []string{"", "gfd", "gopen"}[st], G: slow}); res != "pending" && res != "miss" && res != "skip" {
				held = append(held, len(d.rs)-1)
			}
			if d.gs[slow].stage == st {
				break
			}
		}
		// some holders let go now: their buffers / descriptors may be recycled
		for _, x := range held {
			if r.Chance(1, 3) {
				do(Op{Op: "closer", R: x})
			}
		}
		// new writers pick up recycled buffers and overwrite them (some never commit)
		for i, n := 0, r.Range(1, 3); i < n; i++ {
			k := r.Intn(nkeys)
			do(Op{Op: "add", K: k})
			w := len(d.ws) - 1
			writeVal(w, r.Range(2, 8))
			switch r.Pick(3, 1, 2) {
			case 0:
				do(Op{Op: "commit", W: w})
				persist(w, r.Pick(3, 1, 1, 1)-1)
			case 1:
				do(Op{Op: "abort", W: w})
			}
		}
		// the old readers read now
		for _, x := range held {
			if d.rs[x].open {
				l := len(d.rs[x].val)
				do(Op{Op: "read", R: x, Off: r.Intn(l + 2), N: r.Intn(l + 3)})
				if r.Chance(2, 3) {
					do(Op{Op: "closer", R: x})
				}
			}
		}
		do(Op{Op: "get", K: victim, Direct: r.Chance(1, 4)})
		if r.Chance(1, 2) {
			do(Op{Op: "peek", K: victim})
		}
	}
	d.finish()
	return c
}

// ---- concurrent stress (oracle only) ----

func stress(c Case) []string {
	gateOn.Store(false)
	dir := mkTemp("c11s-")
	defer os.RemoveAll(dir)
	var bc cache.BlobCache
	var err error
	if c.DCap == 0 {
		bc = cache.NewMemoryCache()
	} else {
		bc, err = cache.NewDirectoryCache(filepath.Join(dir, "c"), cache.DirectoryCacheConfig{
			MaxLRUCacheEntry: c.DCap, MaxCacheFds: c.FCap, SyncAdd: c.Sync, Direct: c.Direct, FadvDontNeed: c.Fadv})
		if err != nil {
			panic(err)
		}
	}
	var mu sync.Mutex
	committed := map[int]map[string]bool{}
	var problems []string
	var wcount, opcount atomic.Int64
	var wg sync.WaitGroup
	root := hx.NewRng(c.SSeed)
	for g := 0; g < c.Workers; g++ {
		r := root.Fork()
		wg.Add(1)
		go func() {
			defer wg.Done()
			for i := 0; i < c.Steps; i++ {
				k := r.Intn(nkeys)
				if c.CloseAt > 0 && opcount.Add(1) == int64(c.CloseAt) {
					bc.Close() // teardown while readers, writers and persist steps are in flight
				}
				if r.Chance(2, 5) {
					var opts []cache.Option
					if r.Chance(1, 4) {
						opts = append(opts, cache.Direct())
					}
					w, err := bc.Add(keyName(k), opts...)
					if err != nil {
						continue
					}
					id := int(wcount.Add(1))
					ln := r.Pick(1, 1, 2, 2, 2, 2, 2, 2) * r.Range(1, 40)
					val := make([]byte, 0, ln+4)
					if ln > 0 {
						val = append(val, byte(k), byte(id), byte(id>>8), byte(id>>16))
						for j := 0; j < ln; j++ {
							val = append(val, byte(id*131+j*7+k))
						}
					}
					for off := 0; off < len(val); {
						e := off + r.Range(1, 64)
						if e > len(val) {
							e = len(val)
						}
						w.Write(val[off:e])
						off = e
					}
					if r.Chance(1, 8) {
						w.Abort()
					} else {
						mu.Lock()
						if committed[k] == nil {
							committed[k] = map[string]bool{}
						}
						committed[k][string(val)] = true
						mu.Unlock()
						w.Commit()
					}
					w.Close()
					continue
				}
				var opts []cache.Option
				if r.Chance(1, 5) {
					opts = append(opts, cache.Direct())
				}
				rd, err := bc.Get(keyName(k), opts...)
				if err != nil {
					continue
				}
				v1, e1 := readAll(rd)
				if r.Chance(1, 2) {
					time.Sleep(time.Duration(r.Intn(200)) * time.Microsecond)
				}
				v2, e2 := readAll(rd)
				rd.Close()
				mu.Lock()
				switch {
				case e1 != nil || e2 != nil:
					problems = append(problems, fmt.Sprintf("stress: read error on an open reader of %s: %v %v", keyName(k), e1, e2))
				case !committed[k][string(v1)]:
					problems = append(problems, fmt.Sprintf("stress: hit on %s returned %d bytes (head %v) that no writer committed under that key", keyName(k), len(v1), head(v1)))
				case !bytes.Equal(v1, v2):
					problems = append(problems, fmt.Sprintf("stress: value of an open reader of %s changed between two reads (%d -> %d bytes)", keyName(k), len(v1), len(v2)))
				}
				mu.Unlock()
			}
		}()
	}
	wg.Wait()
	// let background persists finish before the directory goes away
	for i := 0; i < 200 && c.DCap != 0 && !c.Sync; i++ {
		ents, _ := os.ReadDir(filepath.Join(dir, "c", "wip"))
		if len(ents) == 0 {
			break
		}
		time.Sleep(5 * time.Millisecond)
	}
	bc.Close()
	if len(problems) > 5 {
		problems = problems[:5]
	}
	return problems
}

func head(b []byte) []byte {
	if len(b) > 8 {
		return b[:8]
	}
	return b
}

// ---- out-of-protocol probe (nothing asserted) ----

// protocolProbe runs, on the real implementation, the per-writer call orders that cache.Writer does not allow
// (Commit and Abort are alternatives, nothing but Close follows them) and records what a later Get returns. These orders
// are outside C11's quantifier - no caller in /repo issues them, see props.d/C11.py - and the model ignores them; the
// observations are kept in the evidence so that the assumption is visible, not hidden.
func protocolProbe() map[string]string {
	gateOn.Store(false)
	getGateOn.Store(false)
	res := map[string]string{}
	val := []byte{7, 7, 7}
	look := func(bc cache.BlobCache, k string) string {
		r, err := bc.Get(k)
		if err != nil {
			return "miss"
		}
		defer r.Close()
		v, err := readAll(r)
		if err != nil {
			return "hit, read error"
		}
		if bytes.Equal(v, val) {
			return "hit = committed value"
		}
		return fmt.Sprintf("hit = %v (not the committed value %v)", v, val)
	}
	probe := func(name string, mk func() (cache.BlobCache, func()), direct bool, f func(w cache.Writer)) {
		defer func() {
			if e := recover(); e != nil {
				res[name] = fmt.Sprintf("panic: %v", e)
			}
		}()
		bc, done := mk()
		defer done()
		var opts []cache.Option
		if direct {
			opts = append(opts, cache.Direct())
		}
		w, err := bc.Add("aa00", opts...)
		if err != nil {
			res[name] = "add failed"
			return
		}
		w.Write(val)
		f(w)
		w.Close()
		res[name] = look(bc, "aa00")
	}
	mkDir := func() (cache.BlobCache, func()) {
		dir := mkTemp("c11p-")
		bc, err := cache.NewDirectoryCache(filepath.Join(dir, "c"), cache.DirectoryCacheConfig{MaxLRUCacheEntry: 2, MaxCacheFds: 2, SyncAdd: true})
		if err != nil {
			panic(err)
		}
		return bc, func() { bc.Close(); os.RemoveAll(dir) }
	}
	mkMem := func() (cache.BlobCache, func()) { return cache.NewMemoryCache(), func() {} }
	for _, kind := range []struct {
		name   string
		mk     func() (cache.BlobCache, func())
		direct bool
	}{{"dir/memory-writer", mkDir, false}, {"dir/direct-writer", mkDir, true}, {"memcache", mkMem, false}} {
		probe(kind.name+": Commit;Close (in protocol)", kind.mk, kind.direct, func(w cache.Writer) { w.Commit() })
		probe(kind.name+": Close;Commit;Close", kind.mk, kind.direct, func(w cache.Writer) { w.Close(); w.Commit() })
		probe(kind.name+": Commit;Abort", kind.mk, kind.direct, func(w cache.Writer) { w.Commit(); w.Abort() })
		probe(kind.name+": Commit;Commit", kind.mk, kind.direct, func(w cache.Writer) { w.Commit(); w.Commit() })
		probe(kind.name+": Commit;Write", kind.mk, kind.direct, func(w cache.Writer) { w.Commit(); w.Write([]byte{9}) })
		probe(kind.name+": Abort;Commit", kind.mk, kind.direct, func(w cache.Writer) { w.Abort(); w.Commit() })
	}
	return res
}

// ---- main ----

func main() {
	ctx := hx.Start()
	onDisk = ctx.Tier == "thorough"
	cache.VerifPersistHook = hook
	cache.VerifGetHook = getHook
	signal.Ignore(syscall.SIGXFSZ) // RLIMIT_FSIZE is used to inject short writes
	run := func(c Case) {
		if c.Kind == "stress" {
			ps := stress(c)
			ctx.Count("kind.stress")
			id := ctx.Case("((true, 0, 0), [], [])", c, "", false)
			for _, p := range ps {
				ctx.Violation(id, p, nil)
			}
			return
		}
		d := newDriver(c)
		for _, o := range c.Ops {
			res := d.do(o)
			ctx.Count("op." + o.Op)
			switch o.Op {
			case "get":
				ctx.Count("result.get." + res)
			case "gstart", "gfd", "gopen", "pfail":
				ctx.Count("result." + o.Op + "." + res)
			case "commit":
				if res == "fail" {
					ctx.Count("result.commit.fail")
				}
			case "add":
				if res == "closed" {
					ctx.Count("result.add.closed")
				}
			}
			if o.Op == "add" && o.Direct {
				ctx.Count("op.add.direct")
			}
			if o.Op == "write" && len(o.Data) == 0 {
				ctx.Count("op.write.empty")
			}
		}
		d.finish()
		for k, v := range d.stats {
			ctx.CountN(k, v)
		}
		ctx.Count("kind." + c.Kind)
		if c.Kind == "dir" {
			if c.Sync {
				ctx.Count("cfg.sync")
			} else {
				ctx.Count("cfg.async")
			}
			if c.Direct {
				ctx.Count("cfg.direct")
			}
			if c.Fadv {
				ctx.Count("cfg.fadv")
			}
			if c.Block {
				ctx.Count("cfg.block")
			}
		}
		hits, zero, dup := 0, 0, 0
		for _, rs := range d.rs {
			hits++
			if len(rs.val) == 0 {
				zero++
			}
		}
		for _, vs := range d.committed {
			if len(vs) > 1 {
				dup++
			}
		}
		if zero > 0 {
			ctx.Count("result.hit.zero-length")
		}
		if dup > 0 {
			ctx.Count("result.duplicate-commit")
		}
		ctx.CountN("ops", len(d.coqOps))
		term := d.coq()
		id := ctx.Case(term, c, term, hits > 0 && len(d.ws) > 1)
		for _, p := range d.problems {
			ctx.Violation(id, p, nil)
		}
	}
	if ctx.Replay != "" {
		var c Case
		ctx.LoadReplay(&c)
		run(c)
		ctx.Finish()
		return
	}
	corpus := []Case{
		// memory hit, eviction by a second key, fd path, zero-length value
		{Kind: "dir", DCap: 1, FCap: 1, Sync: true, Ops: []Op{
			{Op: "add", K: 0}, {Op: "write", W: 0, Data: []int{0, 0, 7}}, {Op: "commit", W: 0}, {Op: "pwrite", W: 0}, {Op: "prename", W: 0}, {Op: "pdone", W: 0},
			{Op: "get", K: 0}, {Op: "add", K: 1}, {Op: "commit", W: 1}, {Op: "pwrite", W: 1}, {Op: "prename", W: 1}, {Op: "pdone", W: 1},
			{Op: "read", R: 0, Off: 1, N: 5}, {Op: "closer", R: 0}, {Op: "get", K: 0}, {Op: "closer", R: 1}, {Op: "get", K: 0, PT: true}, {Op: "get", K: 1},
			{Op: "add", K: 2}, {Op: "write", W: 2, Data: []int{2, 2}}, {Op: "commit", W: 2}, {Op: "read", R: 3, Off: 0, N: 4}}},
		// background persist delayed past the eviction of its entry; reader keeps the evicted buffer; buffer reuse
		{Kind: "dir", DCap: 1, FCap: 2, Ops: []Op{
			{Op: "add", K: 0}, {Op: "write", W: 0, Data: []int{0, 0, 1, 2}}, {Op: "commit", W: 0}, {Op: "get", K: 0},
			{Op: "add", K: 1}, {Op: "write", W: 1, Data: []int{1, 1}}, {Op: "commit", W: 1}, {Op: "get", K: 0}, {Op: "get", K: 0, Direct: true},
			{Op: "pwrite", W: 0}, {Op: "prename", W: 0}, {Op: "pdone", W: 0}, {Op: "read", R: 0, Off: 0, N: 9},
			{Op: "add", K: 3}, {Op: "write", W: 2, Data: []int{3, 2, 9, 9, 9, 9}}, {Op: "closer", R: 0},
			{Op: "add", K: 4}, {Op: "write", W: 3, Data: []int{4, 3, 8}}, {Op: "commit", W: 3}, {Op: "get", K: 0}, {Op: "read", R: 1, Off: 0, N: 9}}},
		// duplicate adds of one key (memory + direct), abort, !added path
		{Kind: "dir", DCap: 2, FCap: 1, Sync: true, Ops: []Op{
			{Op: "add", K: 5}, {Op: "add", K: 5}, {Op: "add", K: 5, Direct: true}, {Op: "write", W: 0, Data: []int{5, 0}}, {Op: "write", W: 1, Data: []int{5, 1, 1}},
			{Op: "write", W: 2, Data: []int{5, 2, 2, 2}}, {Op: "commit", W: 0}, {Op: "commit", W: 1}, {Op: "pwrite", W: 1}, {Op: "get", K: 5}, {Op: "commit", W: 2},
			{Op: "get", K: 5, Direct: true}, {Op: "prename", W: 1}, {Op: "get", K: 5, Direct: true}, {Op: "pdone", W: 1}, {Op: "add", K: 5}, {Op: "write", W: 3, Data: []int{5, 3}}, {Op: "abort", W: 3},
			{Op: "peek", K: 5}}},
		// short write during persist; a Get overtaken by a commit of its key between its lookups; MkdirAll failure; Close with
		// an open reader, a pending persist and a writer that commits afterwards
		{Kind: "dir", DCap: 1, FCap: 1, Block: true, Ops: []Op{
			{Op: "add", K: 0}, {Op: "write", W: 0, Data: []int{0, 0, 6}}, {Op: "commit", W: 0}, {Op: "pfail", W: 0, N: 2}, {Op: "pdone", W: 0}, {Op: "peek", K: 0},
			{Op: "gstart", K: 1}, {Op: "add", K: 1}, {Op: "write", W: 1, Data: []int{1, 1}}, {Op: "commit", W: 1}, {Op: "pwrite", W: 1}, {Op: "prename", W: 1}, {Op: "pdone", W: 1},
			{Op: "add", K: 2}, {Op: "commit", W: 2}, {Op: "gfd", G: 0}, {Op: "gopen", G: 0},
			{Op: "add", K: 5, Direct: true}, {Op: "write", W: 3, Data: []int{5, 3}}, {Op: "commit", W: 3}, {Op: "get", K: 5, Direct: true},
			{Op: "add", K: 5}, {Op: "write", W: 4, Data: []int{5, 4, 4}}, {Op: "commit", W: 4}, {Op: "pwrite", W: 4}, {Op: "prename", W: 4}, {Op: "get", K: 5},
			{Op: "add", K: 3}, {Op: "write", W: 5, Data: []int{3, 5}}, {Op: "pwrite", W: 2}, {Op: "closecache"}, {Op: "read", R: 0, Off: 0, N: 4},
			{Op: "get", K: 1}, {Op: "commit", W: 5}, {Op: "add", K: 4}, {Op: "prename", W: 2}, {Op: "peek", K: 2}, {Op: "get", K: 5}}},
		{Kind: "mem", Ops: []Op{{Op: "add", K: 0}, {Op: "write", W: 0, Data: []int{0, 0, 1}}, {Op: "get", K: 0}, {Op: "commit", W: 0}, {Op: "get", K: 0},
			{Op: "add", K: 0}, {Op: "commit", W: 1}, {Op: "get", K: 0}, {Op: "read", R: 0, Off: 0, N: 5}, {Op: "read", R: 1, Off: 0, N: 5}, {Op: "closer", R: 0}}},
	}
	for _, c := range corpus {
		run(c)
	}
	ctx.Extra["out_of_protocol_orders_observed_not_asserted"] = protocolProbe()
	r := hx.NewRng(ctx.Seed)
	nstress := 6
	if ctx.Tier == "thorough" {
		nstress = 48
	}
	if nstress > ctx.N/2 {
		nstress = ctx.N / 2
	}
	for i := len(corpus); i < ctx.N-nstress; i++ {
		q := r.Fork()
		if i%3 == 0 {
			run(genPressure(q))
		} else {
			run(gen(q))
		}
	}
	for i := 0; i < nstress; i++ {
		q := r.Fork()
		c := Case{Kind: "stress", SSeed: q.U64(), Workers: 8, Steps: 400, DCap: q.Intn(3), FCap: q.Range(1, 2), Sync: q.Bool(), Direct: q.Chance(1, 8), Fadv: q.Chance(1, 4), Ops: []Op{}}
		if ctx.Tier == "thorough" {
			c.Workers, c.Steps = 16, 2000
		}
		if q.Chance(1, 3) {
			c.CloseAt = c.Workers * c.Steps * q.Range(4, 8) / 10
			ctx.Count("stress.close-midway")
		}
		run(c)
	}
	ctx.Finish()
}
