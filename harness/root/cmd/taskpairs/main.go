// C13 (premise "prioritized begin/end pairs") harness: reads the Go source of the repository the harness is built
// against, finds EVERY function body (declarations and function literals) that calls DoPrioritizedTask or
// DonePrioritizedTask, abstracts it to the statement language of Model/TaskPairs.v and checks
//   - model-free, on the syntax tree: the call is an expression statement of the body's top-level statement list,
//     the next statement is `defer <same receiver>.DonePrioritizedTask()`, and the body mentions neither method anywhere else;
//   - model-free, by enumerating executions (return / fall-through / panic at every point, loops unrolled): no
//     execution leaves a manager's counter different from where it was (a leaked count starves background tasks forever).
//
// The same two verdicts are recomputed in Coq (paired / leaks_upto) on the printed term; the theorem
// C13_pairs_balanced says that the rule implies the absence of leaks on ALL executions.
// A stream of synthetic bodies (good and defective shapes) exercises both checkers against each other.
package main

import (
	"fmt"
	"go/ast"
	"go/parser"
	"go/token"
	"go/types"
	"os"
	"path/filepath"
	"reflect"
	"runtime"
	"strings"

	"github.com/containerd/stargz-snapshotter/task"
	"verif/harness/hx"
)

// S is a statement of Model/TaskPairs.v.
type S struct {
	K string `json:"k"` // do done defer other ret if loop
	X int    `json:"x,omitempty"`
	A []S    `json:"a,omitempty"`
	B []S    `json:"b,omitempty"`
}

type Case struct {
	Site string `json:"site,omitempty"` // file:line of a real body, empty for synthetic ones
	N    int    `json:"n"`              // managers
	Body []S    `json:"body"`
	Leak bool   `json:"leak"`
	Rule bool   `json:"rule"`
}

const (
	doName   = "DoPrioritizedTask"
	doneName = "DonePrioritizedTask"
)

// ---------- extraction from the real source ----------

type extractor struct {
	recv map[string]int
}

func (x *extractor) id(e ast.Expr) int {
	k := types.ExprString(e)
	if v, ok := x.recv[k]; ok {
		return v
	}
	v := len(x.recv)
	x.recv[k] = v
	return v
}

// call returns (method, receiver) when e is a call X.Do…()/X.Done…().
func call(e ast.Expr) (string, ast.Expr) {
	c, ok := e.(*ast.CallExpr)
	if !ok {
		return "", nil
	}
	s, ok := c.Fun.(*ast.SelectorExpr)
	if !ok || (s.Sel.Name != doName && s.Sel.Name != doneName) {
		return "", nil
	}
	return s.Sel.Name, s.X
}

// mentions lists the direct (not inside nested function literals) mentions of the two methods under n.
func mentions(n ast.Node) (out []*ast.SelectorExpr) {
	if n == nil || reflect.ValueOf(n).IsNil() {
		return nil
	}
	ast.Inspect(n, func(m ast.Node) bool {
		switch v := m.(type) {
		case *ast.FuncLit:
			return false
		case *ast.SelectorExpr:
			if v.Sel.Name == doName || v.Sel.Name == doneName {
				out = append(out, v)
			}
		}
		return true
	})
	return out
}

// loose turns stray mentions (inside expressions, go statements, conditions, ...) into non-deferred calls, which no rule accepts.
func (x *extractor) loose(n ast.Node) []S {
	var out []S
	for _, m := range mentions(n) {
		if m.Sel.Name == doName {
			out = append(out, S{K: "do", X: x.id(m.X)})
		} else {
			out = append(out, S{K: "done", X: x.id(m.X)})
		}
	}
	return out
}

func (x *extractor) list(l []ast.Stmt) []S {
	var out []S
	for _, s := range l {
		out = append(out, x.stmt(s)...)
	}
	return out
}

func (x *extractor) clauses(cs []ast.Stmt) []S {
	// switch / select: at most one arm runs (nested two-way choices, the last alternative is "no arm")
	var alt []S
	for i := len(cs) - 1; i >= 0; i-- {
		var body []ast.Stmt
		var head []S
		switch c := cs[i].(type) {
		case *ast.CaseClause:
			body = c.Body
			for _, e := range c.List {
				head = append(head, x.loose(e)...)
			}
		case *ast.CommClause:
			body = c.Body
			if c.Comm != nil {
				head = append(head, x.loose(c.Comm)...)
			}
		}
		alt = []S{{K: "if", A: append(head, x.list(body)...), B: alt}}
	}
	return alt
}

func (x *extractor) stmt(s ast.Stmt) []S {
	switch v := s.(type) {
	case *ast.ExprStmt:
		if m, r := call(v.X); m == doName && len(mentions(v.X)) == 1 {
			return []S{{K: "do", X: x.id(r)}}
		} else if m == doneName && len(mentions(v.X)) == 1 {
			return []S{{K: "done", X: x.id(r)}}
		}
	case *ast.DeferStmt:
		if m, r := call(v.Call); m == doneName && len(mentions(v.Call)) == 1 {
			return []S{{K: "defer", X: x.id(r)}}
		}
	case *ast.ReturnStmt:
		return append(x.loose(v), S{K: "ret"})
	case *ast.BlockStmt:
		b := x.list(v.List)
		return []S{{K: "if", A: b, B: b}}
	case *ast.LabeledStmt:
		return x.stmt(v.Stmt)
	case *ast.IfStmt:
		out := append(x.loose(v.Init), x.loose(v.Cond)...)
		var els []S
		if v.Else != nil {
			els = x.stmt(v.Else)
			if b, ok := v.Else.(*ast.BlockStmt); ok {
				els = x.list(b.List)
			}
		}
		return append(out, S{K: "if", A: x.list(v.Body.List), B: els})
	case *ast.ForStmt:
		out := append(x.loose(v.Init), x.loose(v.Cond)...)
		return append(out, S{K: "loop", A: append(x.list(v.Body.List), x.loose(v.Post)...)})
	case *ast.RangeStmt:
		return append(x.loose(v.X), S{K: "loop", A: x.list(v.Body.List)})
	case *ast.SwitchStmt:
		out := append(x.loose(v.Init), x.loose(v.Tag)...)
		return append(out, x.clauses(v.Body.List)...)
	case *ast.TypeSwitchStmt:
		out := append(x.loose(v.Init), x.loose(v.Assign)...)
		return append(out, x.clauses(v.Body.List)...)
	case *ast.SelectStmt:
		return x.clauses(v.Body.List)
	}
	if l := x.loose(s); len(l) > 0 {
		return l
	}
	return []S{{K: "other"}}
}

// astRule is the syntactic rule evaluated directly on the syntax tree (independent of the abstraction above).
func astRule(body *ast.BlockStmt) bool {
	all := mentions(body)
	for i, s := range body.List {
		es, ok := s.(*ast.ExprStmt)
		if !ok {
			continue
		}
		m, r := call(es.X)
		if m == "" {
			continue
		}
		if m != doName || i+1 >= len(body.List) {
			return false
		}
		d, ok := body.List[i+1].(*ast.DeferStmt)
		if !ok {
			return false
		}
		m2, r2 := call(d.Call)
		return m2 == doneName && types.ExprString(r) == types.ExprString(r2) && len(all) == 2 &&
			len(mentions(body.List[i])) == 1 && len(mentions(body.List[i+1])) == 1
	}
	return len(all) == 0
}

func repoRoot() string {
	f, _ := runtime.FuncForPC(reflect.ValueOf(task.NewBackgroundTaskManager).Pointer()).FileLine(0)
	return filepath.Dir(filepath.Dir(f))
}

func realSites(root string) []Case {
	var out []Case
	fset := token.NewFileSet()
	filepath.Walk(root, func(p string, info os.FileInfo, err error) error {
		if err != nil {
			return nil
		}
		if info.IsDir() {
			if n := info.Name(); n == ".git" || n == "vendor" || n == "node_modules" {
				return filepath.SkipDir
			}
			return nil
		}
		if !strings.HasSuffix(p, ".go") || strings.HasSuffix(p, "_test.go") {
			return nil
		}
		rel, _ := filepath.Rel(root, p)
		if strings.HasPrefix(rel, "task"+string(filepath.Separator)) {
			return nil // the manager itself
		}
		src, err := os.ReadFile(p)
		if err != nil || !(strings.Contains(string(src), doName) || strings.Contains(string(src), doneName)) {
			return nil
		}
		f, err := parser.ParseFile(fset, p, src, 0)
		if err != nil {
			return nil
		}
		ast.Inspect(f, func(n ast.Node) bool {
			var body *ast.BlockStmt
			switch v := n.(type) {
			case *ast.FuncDecl:
				body = v.Body
			case *ast.FuncLit:
				body = v.Body
			}
			if body == nil || len(mentions(body)) == 0 {
				return true
			}
			x := &extractor{recv: map[string]int{}}
			b := x.list(body.List)
			c := Case{Site: fmt.Sprintf("%s:%d", filepath.ToSlash(rel), fset.Position(body.Pos()).Line), N: len(x.recv), Body: b, Rule: astRule(body)}
			c.Leak = leaks(c.N, b)
			out = append(out, c)
			return true
		})
		return nil
	})
	return out
}

// ---------- execution enumeration (same bounded semantics as [runs] of the model) ----------

type state struct {
	bal    []int
	defer_ []int
}

func (s state) with(x, d int) state {
	b := append([]int{}, s.bal...)
	b[x] += d
	return state{b, s.defer_}
}

func cat(a, b []S) []S { return append(append([]S{}, a...), b...) }

func runs(fuel int, l []S, s state, out *[]state) {
	// a panic can arise in any statement except `defer X.DonePrioritizedTask()` (which only queues the call)
	if len(l) == 0 || l[0].K != "defer" {
		*out = append(*out, s) // panic here (or out of fuel)
	}
	if fuel == 0 {
		return
	}
	if len(l) == 0 {
		*out = append(*out, s)
		return
	}
	h, t := l[0], l[1:]
	switch h.K {
	case "do":
		runs(fuel-1, t, s.with(h.X, 1), out)
	case "done":
		runs(fuel-1, t, s.with(h.X, -1), out)
	case "defer":
		runs(fuel-1, t, state{s.bal, append(append([]int{}, s.defer_...), h.X)}, out)
	case "other":
		runs(fuel-1, t, s, out)
	case "ret":
		*out = append(*out, s)
	case "if":
		runs(fuel-1, cat(h.A, t), s, out)
		runs(fuel-1, cat(h.B, t), s, out)
	case "loop":
		runs(fuel-1, t, s, out)
		runs(fuel-1, cat(h.A, l), s, out)
	}
}

const fuel = 14

func leaks(n int, l []S) bool {
	var fin []state
	runs(fuel, l, state{bal: make([]int, n)}, &fin)
	for _, s := range fin {
		b := append([]int{}, s.bal...)
		for _, x := range s.defer_ {
			b[x]--
		}
		for _, v := range b {
			if v != 0 {
				return true
			}
		}
	}
	return false
}

// rule on the abstract body (for synthetic cases, where there is no syntax tree)
func clean(l []S) bool {
	for _, s := range l {
		switch s.K {
		case "do", "done", "defer":
			return false
		case "if":
			if !clean(s.A) || !clean(s.B) {
				return false
			}
		case "loop":
			if !clean(s.A) {
				return false
			}
		}
	}
	return true
}

func rule(l []S) bool {
	for i, s := range l {
		if s.K == "do" {
			return i+1 < len(l) && l[i+1].K == "defer" && l[i+1].X == s.X && clean(l[i+2:])
		}
		if !clean([]S{s}) {
			return false
		}
	}
	return true
}

// ---------- printing ----------

func coqS(s S) string {
	switch s.K {
	case "do":
		return fmt.Sprintf("SDo %d", s.X)
	case "done":
		return fmt.Sprintf("SDone %d", s.X)
	case "defer":
		return fmt.Sprintf("SDeferDone %d", s.X)
	case "other":
		return "SOther"
	case "ret":
		return "SReturn"
	case "if":
		return fmt.Sprintf("SIf %s %s", coqL(s.A), coqL(s.B))
	case "loop":
		return fmt.Sprintf("SLoop %s", coqL(s.A))
	}
	return "SUnknown"
}

func coqL(l []S) string {
	xs := make([]string, len(l))
	for i, s := range l {
		xs[i] = coqS(s)
	}
	return hx.CoqList(xs)
}

func coqCase(c Case) string {
	return fmt.Sprintf("(%d, %s, %s, %s)", c.N, coqL(c.Body), hx.CoqBool(c.Leak), hx.CoqBool(c.Rule))
}

// ---------- synthetic bodies ----------

func genList(r *hx.Rng, depth, n int) []S {
	var out []S
	for i := 0; i < n; i++ {
		switch r.Pick(8, 3, 3, 3, 2, 3, 2) {
		case 0:
			out = append(out, S{K: "other"})
		case 1:
			out = append(out, S{K: "do", X: r.Intn(2)})
		case 2:
			out = append(out, S{K: "defer", X: r.Intn(2)})
		case 3:
			out = append(out, S{K: "done", X: r.Intn(2)})
		case 4:
			out = append(out, S{K: "ret"})
		case 5:
			if depth > 0 {
				out = append(out, S{K: "if", A: genList(r, depth-1, r.Intn(3)), B: genList(r, depth-1, r.Intn(3))})
			}
		case 6:
			if depth > 0 {
				out = append(out, S{K: "loop", A: genList(r, depth-1, r.Range(1, 2))})
			}
		}
	}
	return out
}

func genClean(r *hx.Rng, depth, n int) []S {
	var out []S
	for i := 0; i < n; i++ {
		switch r.Pick(6, 2, 3, 2) {
		case 0:
			out = append(out, S{K: "other"})
		case 1:
			out = append(out, S{K: "ret"})
		case 2:
			if depth > 0 {
				out = append(out, S{K: "if", A: genClean(r, depth-1, r.Intn(3)), B: genClean(r, depth-1, r.Intn(3))})
			}
		case 3:
			if depth > 0 {
				out = append(out, S{K: "loop", A: genClean(r, depth-1, r.Range(1, 2))})
			}
		}
	}
	return out
}

func gen(r *hx.Rng) Case {
	c := Case{N: 2}
	switch r.Pick(4, 3, 3) {
	case 0: // the shape the code base uses
		x := r.Intn(2)
		c.Body = cat(genClean(r, 1, r.Intn(3)), cat([]S{{K: "do", X: x}, {K: "defer", X: x}}, genClean(r, 2, r.Intn(4))))
	case 1: // near misses: other manager deferred, something between, explicit Done on the paths one thinks of
		x := r.Intn(2)
		switch r.Intn(4) {
		case 0:
			c.Body = cat([]S{{K: "do", X: x}, {K: "defer", X: 1 - x}}, genClean(r, 1, r.Intn(3)))
		case 1:
			c.Body = cat([]S{{K: "do", X: x}, {K: "other"}, {K: "defer", X: x}}, genClean(r, 1, r.Intn(3)))
		case 2:
			c.Body = []S{{K: "do", X: x}, {K: "if", A: []S{{K: "done", X: x}, {K: "ret"}}}, {K: "other"}, {K: "done", X: x}}
		case 3:
			c.Body = cat([]S{{K: "do", X: x}, {K: "defer", X: x}}, cat(genClean(r, 1, r.Intn(2)), []S{{K: "done", X: x}}))
		}
	default:
		c.Body = genList(r, 2, r.Range(1, 5))
	}
	c.Leak, c.Rule = leaks(c.N, c.Body), rule(c.Body)
	return c
}

func main() {
	ctx := hx.Start()
	emit := func(c Case) {
		term := coqCase(c)
		if c.Site != "" {
			ctx.Count("site")
			ctx.Count("site." + c.Site[:strings.LastIndex(c.Site, ":")])
		} else {
			ctx.Count("synthetic")
		}
		ctx.Count(fmt.Sprintf("verdict.rule-%v.leak-%v", c.Rule, c.Leak))
		id := ctx.Case(term, c, term, len(c.Body) >= 3)
		if c.Site != "" {
			if !c.Rule {
				ctx.Violation(id, fmt.Sprintf("pairing: %s mentions %s/%s but is not of the form `X.%s(); defer X.%s()` (same receiver, nothing else)", c.Site, doName, doneName, doName, doneName), nil)
			}
			if c.Leak {
				ctx.Violation(id, fmt.Sprintf("pairing: %s has an execution path (return, fall-through or panic) that leaves the prioritized-task counter changed", c.Site), nil)
			}
		}
		if c.Rule && c.Leak {
			ctx.Violation(id, "pairing: the rule accepted a body that has a leaking execution (checker bug)", nil)
		}
	}
	if ctx.Replay != "" {
		var c Case
		ctx.LoadReplay(&c)
		if c.Site == "" {
			c.Leak, c.Rule = leaks(c.N, c.Body), rule(c.Body)
		}
		emit(c)
		ctx.Finish()
		return
	}
	sites := realSites(repoRoot())
	for _, c := range sites {
		emit(c)
	}
	r := hx.NewRng(ctx.Seed)
	for i := len(sites); i < ctx.N; i++ {
		emit(gen(r.Fork()))
	}
	ctx.Finish()
}
