//go:build race

package main

// raceBuild: the harness was built with the Go race detector (thorough tier, race=<n> in props.d/C19.py).
// Every encoder/decoder allocation is several times slower there, so the generator keeps the layers small and
// spends the budget on what the detector is for: many layers converted in parallel by one converter instance.
const raceBuild = true
