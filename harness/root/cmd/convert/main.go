// C19 correspondence harness: drives the three real layer converters of nativeconverter/
// (estargz, zstdchunked, estargz/externaltoc incl. the lossless variant) against containerd's
// content/local store in a temp dir.  One converter instance converts all layers of a case, either one
// after another or all at once (goroutines released by a barrier), optionally after an interrupted
// conversion left an ingest behind under the writer ref, or as a retry of a conversion already done.
//
// Per case it prints, as a Coq term for Model/Convert.v, the inputs of every layer (kind, source media type,
// source labels, the values of the abstract functions H / len / payload / tocdigest evaluated on the committed
// blob by the harness itself) together with the observed descriptor, content-store label and TOC image, and it
// evaluates the property clauses directly on the implementation's output (model-free oracle):
//
//	sha256/size of the committed blob vs descriptor; decompress -> length + sha256 vs the uncompressed-size
//	annotation and the containerd.io/uncompressed label; media type vs the compression really used;
//	estargz.Open + VerifyTOC(TOC-digest annotation); zstd:chunked manifest annotations vs the blob;
//	lossless: DiffID unchanged; TOC image: every converted layer digest -> a TOC blob that verifies that layer.
package main

import (
	"archive/tar"
	"bytes"
	"compress/gzip"
	"context"
	"encoding/json"
	"fmt"
	"io"
	"os"
	"runtime/pprof"
	"sort"
	"strconv"
	"strings"
	"sync"
	"time"

	"github.com/containerd/containerd/v2/core/content"
	"github.com/containerd/containerd/v2/core/images"
	"github.com/containerd/containerd/v2/core/images/converter"
	"github.com/containerd/containerd/v2/pkg/labels"
	"github.com/containerd/containerd/v2/plugins/content/local"
	"github.com/containerd/errdefs"
	"github.com/containerd/stargz-snapshotter/estargz"
	esgzext "github.com/containerd/stargz-snapshotter/estargz/externaltoc"
	"github.com/containerd/stargz-snapshotter/estargz/zstdchunked"
	esgzconv "github.com/containerd/stargz-snapshotter/nativeconverter/estargz"
	extconv "github.com/containerd/stargz-snapshotter/nativeconverter/estargz/externaltoc"
	zstdconv "github.com/containerd/stargz-snapshotter/nativeconverter/zstdchunked"
	"github.com/klauspost/compress/zstd"
	digest "github.com/opencontainers/go-digest"
	ocispec "github.com/opencontainers/image-spec/specs-go/v1"
	"verif/harness/hx"
)

// ---------------------------------------------------------------------------------------------
// case description (JSON, replayable)

type Layer struct {
	Seed   uint64 `json:"seed"`             // tar contents
	NFiles int    `json:"nfiles"`           // number of regular files
	MaxSz  int    `json:"maxsz"`            // max file size
	Comp   string `json:"comp"`             // none gzip zstd esgz zstdchunked   (how the source blob is stored)
	Fam    string `json:"fam"`              // oci ocind docker dockerforeign    (media type family of the source descriptor)
	Lab    int    `json:"lab,omitempty"`    // source labels: 0 none, 1 distribution.source only, 2 also a stale containerd.io/uncompressed
	Prio   int    `json:"prio,omitempty"`   // per-layer option: number of prioritized files
	LChunk int    `json:"lchunk,omitempty"` // per-layer option: chunk size
	Pre    string `json:"pre,omitempty"`    // "" | "ingest" (garbage left under the writer ref) | "interrupt" (a conversion with OTHER options died while streaming: a prefix of its blob is left under the writer ref) | "retry" (already converted once) | "plant-none" / "plant-stale" / "plant-right" (the would-be result blob already sits in the store, e.g. fetched from a registry, with no labels / a stale uncompressed label / the right labels)
	Annot  bool   `json:"annot,omitempty"`  // source descriptor carries stale eStargz annotations
}

type Case struct {
	Kind     string  `json:"kind"`  // esgz zstd ext extll
	API      string  `json:"api"`   // common | perlayer
	Chunk    int     `json:"chunk"` // common options
	MinChunk int     `json:"minchunk"`
	Level    int     `json:"level"`
	Spare    int     `json:"spare"` // spare capacity of the caller's option slice
	CPrio    bool    `json:"cprio,omitempty"`
	Parallel bool    `json:"parallel"`
	Gate     bool    `json:"gate,omitempty"`  // parallel external-TOC conversions: park the first layer that is about to store its TOC until another layer has been converted completely
	Fins     []Fin   `json:"fins,omitempty"`  // external-TOC converters: the finalize calls (none given = one call after all layers with a good reference)
	NoFin    bool    `json:"nofin,omitempty"` // finalize is never called
	Ops      []Layer `json:"ops"`             // the layers (called ops so that the driver shrinks the list)
}

// Fin is one call of the converter's finalize callback, made when the first Upto layers have been converted.
type Fin struct {
	Upto int  `json:"upto"`
	OK   bool `json:"ok"` // target reference parses (otherwise finalize must return an error)
}

// ---------------------------------------------------------------------------------------------
// inputs

func fileBytes(seed uint64, n int) []byte {
	r := hx.NewRng(seed)
	b := make([]byte, n)
	switch seed % 3 {
	case 0:
		for i := range b {
			b[i] = byte(r.U64())
		}
	case 1:
		for i := range b {
			b[i] = "abcdefgh"[r.Intn(8)]
		}
	default:
		for i := range b {
			b[i] = byte(i / 7)
		}
	}
	return b
}

func fileNames(l Layer) []string {
	var names []string
	for i := 0; i < l.NFiles; i++ {
		names = append(names, fmt.Sprintf("d%d/f%d-%d", i%3, i, l.Seed%1000))
	}
	return names
}

func makeTar(l Layer) []byte {
	r := hx.NewRng(l.Seed)
	buf := new(bytes.Buffer)
	tw := tar.NewWriter(buf)
	for d := 0; d < 3 && d < l.NFiles; d++ {
		_ = tw.WriteHeader(&tar.Header{Typeflag: tar.TypeDir, Name: fmt.Sprintf("d%d/", d), Mode: 0o755})
	}
	for i, name := range fileNames(l) {
		n := 0
		if l.MaxSz > 0 {
			n = r.Intn(l.MaxSz + 1)
		}
		if i == 0 && l.MaxSz > 0 {
			n = l.MaxSz
		}
		b := fileBytes(r.U64(), n)
		_ = tw.WriteHeader(&tar.Header{Typeflag: tar.TypeReg, Name: name, Size: int64(len(b)), Mode: 0o644, Uid: i, Gid: 1})
		_, _ = tw.Write(b)
	}
	if l.NFiles > 1 {
		_ = tw.WriteHeader(&tar.Header{Typeflag: tar.TypeSymlink, Name: "lnk", Linkname: fileNames(l)[0], Mode: 0o777})
	}
	_ = tw.Close()
	return buf.Bytes()
}

type zstdCompression struct {
	*zstdchunked.Decompressor
	*zstdchunked.Compressor
}

func storeForm(l Layer, tarb []byte) ([]byte, error) {
	switch l.Comp {
	case "none":
		return tarb, nil
	case "gzip":
		buf := new(bytes.Buffer)
		zw := gzip.NewWriter(buf)
		_, _ = zw.Write(tarb)
		_ = zw.Close()
		return buf.Bytes(), nil
	case "zstd":
		buf := new(bytes.Buffer)
		zw, err := zstd.NewWriter(buf)
		if err != nil {
			return nil, err
		}
		_, _ = zw.Write(tarb)
		_ = zw.Close()
		return buf.Bytes(), nil
	case "esgz", "zstdchunked":
		opts := []estargz.Option{estargz.WithChunkSize(3000)}
		if l.Comp == "zstdchunked" {
			opts = append(opts, estargz.WithCompression(&zstdCompression{new(zstdchunked.Decompressor), &zstdchunked.Compressor{CompressionLevel: zstd.SpeedDefault}}))
		}
		b, err := estargz.Build(io.NewSectionReader(bytes.NewReader(tarb), 0, int64(len(tarb))), opts...)
		if err != nil {
			return nil, err
		}
		defer b.Close()
		return io.ReadAll(b)
	}
	return nil, fmt.Errorf("unknown comp %q", l.Comp)
}

const (
	mtOciTar = ocispec.MediaTypeImageLayer
	mtOciGz  = ocispec.MediaTypeImageLayerGzip
	mtOciZst = ocispec.MediaTypeImageLayerZstd
	mtNdTar  = ocispec.MediaTypeImageLayerNonDistributable     //nolint:staticcheck
	mtNdGz   = ocispec.MediaTypeImageLayerNonDistributableGzip //nolint:staticcheck
	mtNdZst  = ocispec.MediaTypeImageLayerNonDistributableZstd //nolint:staticcheck
	mtDkTar  = images.MediaTypeDockerSchema2Layer
	mtDkGz   = images.MediaTypeDockerSchema2LayerGzip
	mtDkZst  = images.MediaTypeDockerSchema2LayerZstd
	mtDfTar  = images.MediaTypeDockerSchema2LayerForeign
	mtDfGz   = images.MediaTypeDockerSchema2LayerForeignGzip
)

var mtCoq = map[string]string{
	mtOciTar: "OciTar", mtOciGz: "OciGz", mtOciZst: "OciZst", mtNdTar: "NdTar", mtNdGz: "NdGz", mtNdZst: "NdZst",
	mtDkTar: "DkTar", mtDkGz: "DkGz", mtDkZst: "DkZst", mtDfTar: "DfTar", mtDfGz: "DfGz",
}

// what a media type claims about the compression of the blob ("" = uncompressed / unknown)
var mtClaims = map[string]string{
	mtOciGz: "gzip", mtNdGz: "gzip", mtDkGz: "gzip", mtDfGz: "gzip",
	mtOciZst: "zstd", mtNdZst: "zstd", mtDkZst: "zstd",
}

func srcMediaType(l Layer) string {
	c := 0
	switch l.Comp {
	case "gzip", "esgz":
		c = 1
	case "zstd", "zstdchunked":
		c = 2
	}
	switch l.Fam {
	case "oci":
		return []string{mtOciTar, mtOciGz, mtOciZst}[c]
	case "ocind":
		return []string{mtNdTar, mtNdGz, mtNdZst}[c]
	case "docker":
		return []string{mtDkTar, mtDkGz, mtDkZst}[c]
	default: // dockerforeign has no zstd form
		return []string{mtDfTar, mtDfGz, mtNdZst}[c]
	}
}

// ---------------------------------------------------------------------------------------------
// in-memory label store for content/local

type labelStore struct {
	mu sync.Mutex
	m  map[digest.Digest]map[string]string
}

func (s *labelStore) Get(d digest.Digest) (map[string]string, error) {
	s.mu.Lock()
	defer s.mu.Unlock()
	if s.m[d] == nil {
		return nil, nil
	}
	out := map[string]string{}
	for k, v := range s.m[d] {
		out[k] = v
	}
	return out, nil
}
func (s *labelStore) Set(d digest.Digest, l map[string]string) error {
	s.mu.Lock()
	defer s.mu.Unlock()
	c := map[string]string{}
	for k, v := range l {
		c[k] = v
	}
	s.m[d] = c
	return nil
}
func (s *labelStore) Update(d digest.Digest, l map[string]string) (map[string]string, error) {
	s.mu.Lock()
	defer s.mu.Unlock()
	if s.m[d] == nil {
		s.m[d] = map[string]string{}
	}
	for k, v := range l {
		if v == "" {
			delete(s.m[d], k)
		} else {
			s.m[d][k] = v
		}
	}
	out := map[string]string{}
	for k, v := range s.m[d] {
		out[k] = v
	}
	return out, nil
}

// ---------------------------------------------------------------------------------------------
// observations

type LayerObs struct {
	SrcMT     string
	SrcDigest string
	SrcLabel  string // containerd.io/uncompressed of the source blob before conversion ("" = none)
	SrcDiffID string // sha256 of the decompressed source
	SrcLen    int64
	SrcPayLen int64
	Res       string // ok | nil | err | panic
	Err       string
	// observed on the implementation
	MT       string
	Digest   string
	Size     int64
	AnnTOC   string
	AnnUSize string
	Label    string // containerd.io/uncompressed of the new blob at the end ("" = none)
	// the abstract functions evaluated by the harness on the committed blob
	HBlob         string
	Len           int64
	HPay          string
	PayLen        int64
	Comp          string // compression really used: gzip | zstd | none
	TOCDg         string // digest of the TOC the blob really carries / the external TOC found for it
	TOCBlob       string // ext: digest of the store blob holding that TOC
	TOCLen        int64
	Existed       bool   // the blob digest was in the store before this case's conversions started
	Planted       bool   // the would-be result blob was put into the store before the conversion ...
	PlantLabel    string // ... with this containerd.io/uncompressed label ("" = no labels at all)
	PlantDigest   string
	SrcLabelAfter string // containerd.io/uncompressed of the source blob after the conversions
	Leftover      int64  // bytes under the conversion's writer ref before the observed conversions
	IngestAfter   int64  // bytes under the writer ref after them (0 = no ingest)
}

type MEntry struct {
	Layer string
	TOC   string
	Size  int64
}

type FinObs struct {
	Upto    int
	OK      bool // reference given was a good one
	Err     bool // finalize returned an error
	Entries []MEntry
}

type Result struct {
	Layers   []LayerObs
	Manifest []MEntry // entries of the last successful finalize call
	HasMfst  bool
	LastUpto int      // number of layers converted before that call
	Fins     []FinObs // every finalize call, in order
	Problems []string
	Leftover int  // interrupted conversions that really left data under the writer ref
	Parked   bool // the gate really held a TOC writer back until another layer was done
}

func sha(b []byte) string { return digest.FromBytes(b).String() }

func readBlob(ctx context.Context, cs content.Store, d digest.Digest) ([]byte, error) {
	info, err := cs.Info(ctx, d)
	if err != nil {
		return nil, err
	}
	ra, err := cs.ReaderAt(ctx, ocispec.Descriptor{Digest: d, Size: info.Size})
	if err != nil {
		return nil, err
	}
	defer ra.Close()
	b := make([]byte, info.Size)
	if _, err := ra.ReadAt(b, 0); err != nil && err != io.EOF {
		return nil, err
	}
	return b, nil
}

func detectComp(b []byte) string {
	if len(b) >= 2 && b[0] == 0x1f && b[1] == 0x8b {
		return "gzip"
	}
	if len(b) >= 4 && b[0] == 0x28 && b[1] == 0xb5 && b[2] == 0x2f && b[3] == 0xfd {
		return "zstd"
	}
	// zstd skippable frame (zstd:chunked footer-only blobs do not start with one, but be tolerant)
	if len(b) >= 4 && b[0]&0xf0 == 0x50 && b[1] == 0x2a && b[2] == 0x4d && b[3] == 0x18 {
		return "zstd"
	}
	return "none"
}

// decompressAll decompresses with the Go decoders directly (gzip multistream / zstd frame concatenation),
// chosen by the magic number of the blob; a plain tar is returned as it is.
func decompressAll(b []byte) ([]byte, error) {
	switch detectComp(b) {
	case "gzip":
		zr, err := gzip.NewReader(bytes.NewReader(b))
		if err != nil {
			return nil, err
		}
		return io.ReadAll(zr)
	case "zstd":
		zr, err := zstd.NewReader(bytes.NewReader(b), zstd.WithDecoderConcurrency(1), zstd.WithDecoderLowmem(true))
		if err != nil {
			return nil, err
		}
		defer zr.Close()
		return io.ReadAll(zr)
	}
	return b, nil
}

// tocJSONOfTOCBlob returns the sha256 of the TOC JSON held by an external-TOC blob (gzip(tar(stargz.index.json))).
func tocJSONOfTOCBlob(b []byte) (string, bool) {
	zr, err := gzip.NewReader(bytes.NewReader(b))
	if err != nil {
		return "", false
	}
	tr := tar.NewReader(zr)
	h, err := tr.Next()
	if err != nil || h.Name != estargz.TOCTarName {
		return "", false
	}
	js, err := io.ReadAll(tr)
	if err != nil {
		return "", false
	}
	return sha(js), true
}

// openAndVerify opens blob with the decompressor fitting kind and verifies it against tocDigest.
func openAndVerify(kind string, blob []byte, pay []byte, tocBlob []byte, tocDigest string) (actualTOC string, err error) {
	sr := io.NewSectionReader(bytes.NewReader(blob), 0, int64(len(blob)))
	var opts []estargz.OpenOption
	switch kind {
	case "zstd":
		opts = append(opts, estargz.WithDecompressors(new(zstdchunked.Decompressor)))
	case "ext", "extll":
		opts = append(opts, estargz.WithDecompressors(esgzext.NewGzipDecompressor(func() ([]byte, error) {
			if tocBlob == nil {
				return nil, fmt.Errorf("no TOC blob")
			}
			return tocBlob, nil
		})))
	}
	r, err := estargz.Open(sr, opts...)
	if err != nil {
		return "", fmt.Errorf("open: %v", err)
	}
	actualTOC = r.TOCDigest().String()
	d, err := digest.Parse(tocDigest)
	if err != nil {
		return actualTOC, fmt.Errorf("annotation is not a digest: %v", err)
	}
	ev, err := r.VerifyTOC(d)
	if err != nil && strings.Contains(err.Error(), "found twice") && actualTOC == tocDigest {
		// estargz.Reader.Verifiers keys chunks by Offset only and therefore rejects every blob built with
		// MinChunkSize (several files share one compressed stream and differ in InnerOffset).  The snapshotter
		// does not use it (fs/layer verifies through metadata.Reader); fall back to what that path checks:
		// digest of the TOC really carried = annotation, and every file against its TOC-pinned digest.
		ev = nil
	} else if err != nil {
		return actualTOC, fmt.Errorf("VerifyTOC: %v", err)
	}
	// Contents: the decompressed blob is a tar stream; every regular file in it must match the TOC-pinned file digest
	// and every chunk the TOC-pinned chunk digest (one decoder for the whole blob: cheap).
	files := map[string][]byte{}
	tr := tar.NewReader(bytes.NewReader(pay))
	for {
		h, err := tr.Next()
		if err != nil {
			break
		}
		if h.Typeflag == tar.TypeReg {
			b, _ := io.ReadAll(tr)
			files[strings.TrimPrefix(strings.TrimPrefix(h.Name, "./"), "/")] = b
		}
	}
	root, ok := r.Lookup("")
	if !ok {
		return actualTOC, fmt.Errorf("no root")
	}
	directReads, maxDirect := 0, 4
	if kind == "zstd" {
		maxDirect = 1
	}
	var walk func(e *estargz.TOCEntry) error
	walk = func(e *estargz.TOCEntry) error {
		var ferr error
		e.ForeachChild(func(name string, c *estargz.TOCEntry) bool {
			if c.Type == "dir" {
				ferr = walk(c)
				return ferr == nil
			}
			if c.Type != "reg" || c.Size == 0 {
				return true
			}
			whole, ok := files[c.Name]
			if !ok || int64(len(whole)) != c.Size {
				ferr = fmt.Errorf("file %s of the TOC is not in the decompressed blob with %d bytes", c.Name, c.Size)
				return false
			}
			if c.Digest != "" && sha(whole) != c.Digest {
				ferr = fmt.Errorf("file %s does not match its TOC digest", c.Name)
				return false
			}
			var off int64
			for off < c.Size {
				ce, ok := r.ChunkEntryForOffset(c.Name, off)
				if !ok {
					ferr = fmt.Errorf("no chunk at %s:%d", c.Name, off)
					return false
				}
				n := ce.ChunkSize
				if n == 0 {
					n = c.Size - off
				}
				if off+n > c.Size {
					ferr = fmt.Errorf("chunk %s:%d+%d beyond the file", c.Name, off, n)
					return false
				}
				if ce.ChunkDigest != "" && sha(whole[off:off+n]) != ce.ChunkDigest {
					ferr = fmt.Errorf("chunk %s:%d does not match its TOC chunk digest", c.Name, off)
					return false
				}
				if ev != nil {
					v, err := ev.Verifier(ce)
					if err != nil {
						ferr = fmt.Errorf("verifier %s:%d: %v", c.Name, off, err)
						return false
					}
					_, _ = v.Write(whole[off : off+n])
					if !v.Verified() {
						ferr = fmt.Errorf("chunk %s:%d does not verify", c.Name, off)
						return false
					}
				}
				// a few reads through the blob offsets of the TOC (each one costs a fresh decoder)
				if directReads < maxDirect {
					directReads++
					fr, err := r.OpenFile(c.Name)
					if err != nil {
						ferr = fmt.Errorf("open file %s: %v", c.Name, err)
						return false
					}
					buf := make([]byte, n)
					if _, err := fr.ReadAt(buf, off); err != nil && err != io.EOF {
						ferr = fmt.Errorf("read %s:%d: %v", c.Name, off, err)
						return false
					}
					if !bytes.Equal(buf, whole[off:off+n]) {
						ferr = fmt.Errorf("read of %s:%d through the TOC offsets returns other bytes", c.Name, off)
						return false
					}
				}
				off += n
			}
			return true
		})
		return ferr
	}
	if err := walk(root); err != nil {
		return actualTOC, err
	}
	return actualTOC, nil
}

// ---------------------------------------------------------------------------------------------
// content store wrapper used to force schedules and faults (the converters only see a content.Store)

type wrapStore struct {
	content.Store
	// gate: the first Writer opened for an "external-toc*" ref is parked until release is closed
	gate    bool
	mu      sync.Mutex
	parked  bool
	release chan struct{}
	Parked  bool // observed: a writer was really parked and later released (not timed out)
	// observed: every digest committed through this store (Commit returned nil or AlreadyExists)
	Committed map[string]bool
	// fault: writers of refs starting with failPrefix fail once more than failAfter bytes were written
	failPrefix string
	failAfter  int64
}

func (g *wrapStore) Writer(ctx context.Context, opts ...content.WriterOpt) (content.Writer, error) {
	var wo content.WriterOpts
	for _, o := range opts {
		if err := o(&wo); err != nil {
			return nil, err
		}
	}
	if g.gate && strings.HasPrefix(wo.Ref, "external-toc") {
		g.mu.Lock()
		first := !g.parked
		g.parked = true
		g.mu.Unlock()
		if first {
			select {
			case <-g.release:
				g.mu.Lock()
				g.Parked = true
				g.mu.Unlock()
			case <-time.After(30 * time.Second):
			}
		}
	}
	w, err := g.Store.Writer(ctx, opts...)
	if err != nil {
		return nil, err
	}
	if g.failPrefix != "" && strings.HasPrefix(wo.Ref, g.failPrefix) {
		return &failWriter{Writer: w, left: g.failAfter}, nil
	}
	return &commitRecorder{Writer: w, g: g}, nil
}

// commitRecorder observes which digests the converters commit (also when the store answers AlreadyExists).
type commitRecorder struct {
	content.Writer
	g *wrapStore
}

func (c *commitRecorder) Commit(ctx context.Context, size int64, expected digest.Digest, opts ...content.Opt) error {
	err := c.Writer.Commit(ctx, size, expected, opts...)
	if err == nil || errdefs.IsAlreadyExists(err) {
		d := c.Writer.Digest()
		c.g.mu.Lock()
		if c.g.Committed == nil {
			c.g.Committed = map[string]bool{}
		}
		c.g.Committed[d.String()] = true
		c.g.mu.Unlock()
	}
	return err
}

type failWriter struct {
	content.Writer
	left int64
}

func (f *failWriter) Write(p []byte) (int, error) {
	if int64(len(p)) > f.left {
		n, _ := f.Writer.Write(p[:f.left])
		f.left = 0
		return n, fmt.Errorf("injected write failure (conversion interrupted)")
	}
	f.left -= int64(len(p))
	return f.Writer.Write(p)
}

// newConverter builds one converter instance.
func newConverter(kind, api string, perLayer map[digest.Digest][]estargz.Option, common []estargz.Option, glevel int, zlevel zstd.EncoderLevel, chunk, minChunk int) (cf converter.ConvertFunc, finalize func(ctx context.Context, cs content.Store, ref string, desc *ocispec.Descriptor) (*images.Image, error)) {
	switch kind {
	case "esgz":
		if api == "perlayer" {
			cf = esgzconv.LayerConvertWithLayerAndCommonOptsFunc(perLayer, common...)
		} else {
			cf = esgzconv.LayerConvertFunc(common...)
		}
	case "zstd":
		if api == "perlayer" {
			cf = zstdconv.LayerConvertWithLayerOptsFuncWithCompressionLevel(zlevel, perLayer)
		} else {
			cf = zstdconv.LayerConvertFuncWithCompressionLevel(zlevel, common...)
		}
	case "ext":
		if api == "perlayer" {
			cf, finalize = extconv.LayerConvertWithLayerAndCommonOptsFunc(perLayer, common, glevel)
		} else {
			cf, finalize = extconv.LayerConvertFunc(common, glevel)
		}
	case "extll":
		cf, finalize = extconv.LayerConvertLossLessFunc(extconv.LayerConvertLossLessConfig{CompressionLevel: glevel, ChunkSize: chunk, MinChunkSize: minChunk})
	default:
		panic("unknown kind " + kind)
	}
	return cf, finalize
}

// ---------------------------------------------------------------------------------------------
// execution (deterministic function of the case, up to goroutine scheduling when Parallel)

func layerOpts(l Layer) []estargz.Option {
	var o []estargz.Option
	if l.LChunk > 0 {
		o = append(o, estargz.WithChunkSize(l.LChunk))
	}
	if l.Prio > 0 {
		names := fileNames(l)
		if l.Prio < len(names) {
			names = names[:l.Prio]
		}
		if len(names) > 0 {
			o = append(o, estargz.WithPrioritizedFiles(names))
		}
	}
	return o
}

// tmpBase: where the per-case content stores are created; the run's output directory, which the driver removes,
// so that a run aborted by the race detector (halt_on_error) does not leave stores behind in /tmp
var tmpBase string

func exec(c Case) Result {
	var res Result
	ctx := context.Background()
	dir, err := os.MkdirTemp(tmpBase, "c19-")
	if err != nil {
		panic(err)
	}
	defer os.RemoveAll(dir)
	ls := &labelStore{m: map[digest.Digest]map[string]string{}}
	cs, err := local.NewLabeledStore(dir, ls)
	if err != nil {
		panic(err)
	}
	n := len(c.Ops)
	srcDesc := make([]ocispec.Descriptor, n)
	res.Layers = make([]LayerObs, n)
	srcBlobs := make([][]byte, n)
	for i, l := range c.Ops {
		tarb := makeTar(l)
		b, err := storeForm(l, tarb)
		if err != nil {
			panic(err)
		}
		srcBlobs[i] = b
		d := ocispec.Descriptor{MediaType: srcMediaType(l), Digest: digest.FromBytes(b), Size: int64(len(b))}
		if l.Annot {
			d.Annotations = map[string]string{
				estargz.TOCJSONDigestAnnotation:         "sha256:" + strings.Repeat("0", 64),
				estargz.StoreUncompressedSizeAnnotation: "1",
				"org.example.keep":                      "yes",
			}
		}
		lab := map[string]string{}
		switch l.Lab {
		case 1:
			lab["containerd.io/distribution.source.example.com"] = "lib/img"
		case 2:
			lab["containerd.io/distribution.source.example.com"] = "lib/img"
			lab[labels.LabelUncompressed] = "sha256:" + strings.Repeat("1", 64)
		}
		var wopts []content.Opt
		if len(lab) > 0 {
			wopts = append(wopts, content.WithLabels(lab))
		}
		if err := content.WriteBlob(ctx, cs, fmt.Sprintf("src-%d", i), bytes.NewReader(b), d, wopts...); err != nil {
			panic(err)
		}
		srcDesc[i] = d
		o := &res.Layers[i]
		o.SrcMT = d.MediaType
		o.SrcDigest = d.Digest.String()
		if info, err := cs.Info(ctx, d.Digest); err == nil {
			o.SrcLabel = info.Labels[labels.LabelUncompressed]
		}
		o.SrcLen = int64(len(b))
		if dec, err := decompressAll(b); err == nil {
			o.SrcDiffID = sha(dec)
			o.SrcPayLen = int64(len(dec))
		}
	}

	// the converter: ONE instance for all layers of the case
	common := make([]estargz.Option, 0, 4+c.Spare)
	if c.Chunk > 0 {
		common = append(common, estargz.WithChunkSize(c.Chunk))
	}
	if c.MinChunk > 0 {
		common = append(common, estargz.WithMinChunkSize(c.MinChunk))
	}
	if c.Level != 0 && c.Kind != "zstd" {
		common = append(common, estargz.WithCompressionLevel(c.Level))
	}
	if c.CPrio {
		var missed []string
		common = append(common, estargz.WithPrioritizedFiles([]string{"d0/none", "lnk"}), estargz.WithAllowPrioritizeNotFound(&missed))
	}
	// the caller's slice has exactly c.Spare unused slots behind its elements
	exact := make([]estargz.Option, len(common), len(common)+c.Spare)
	copy(exact, common)
	common = exact
	perLayer := map[digest.Digest][]estargz.Option{}
	for i, l := range c.Ops {
		if o := layerOpts(l); len(o) > 0 {
			perLayer[srcDesc[i].Digest] = o
		}
	}
	zlevel := zstd.SpeedDefault
	if c.Level == 1 {
		zlevel = zstd.SpeedFastest
	}
	glevel := c.Level
	if glevel == 0 {
		glevel = gzip.BestCompression
	}
	refPrefix := "convert-estargz-from-"
	if c.Kind == "zstd" {
		refPrefix = "convert-zstdchunked-from-"
	}
	cf, finalize := newConverter(c.Kind, c.API, perLayer, common, glevel, zlevel, c.Chunk, c.MinChunk)
	// the store the converter sees
	ws := &wrapStore{Store: cs, release: make(chan struct{})}
	releaseOnce := new(sync.Once)
	finished := func() { releaseOnce.Do(func() { close(ws.release) }) }

	type out struct {
		d   *ocispec.Descriptor
		err error
		pan any
	}
	run := func(i int) (o out) {
		defer func() {
			if p := recover(); p != nil {
				o.pan = p
			}
		}()
		defer finished()
		d, err := cf(ctx, ws, srcDesc[i])
		return out{d: d, err: err}
	}

	// history before the observed conversions
	for i, l := range c.Ops {
		switch l.Pre {
		case "ingest":
			w, err := content.OpenWriter(ctx, cs, content.WithRef(refPrefix+srcDesc[i].Digest.String()))
			if err == nil {
				_, _ = w.Write(fileBytes(l.Seed+7, 1500))
				_ = w.Close() // no Commit, no Abort: the ingest stays, as after a signal
			}
		case "interrupt":
			// a conversion of the same layer by ANOTHER converter instance with other options (other level, chunking)
			// whose content writer fails mid-stream: what it wrote stays under the writer ref
			alt := []estargz.Option{estargz.WithChunkSize(7000), estargz.WithCompressionLevel(gzip.BestSpeed)}
			if glevel == gzip.BestSpeed {
				alt = []estargz.Option{estargz.WithChunkSize(7000), estargz.WithCompressionLevel(gzip.BestCompression)}
			}
			altLevel, altZ := gzip.BestSpeed, zstd.SpeedFastest
			if glevel == gzip.BestSpeed {
				altLevel = gzip.BestCompression
			}
			if zlevel == zstd.SpeedFastest {
				altZ = zstd.SpeedBestCompression
			}
			acf, _ := newConverter(c.Kind, "common", nil, alt, altLevel, altZ, 7000, 0)
			fs := &wrapStore{Store: cs, failPrefix: refPrefix, failAfter: int64(200 + l.Seed%700)}
			func() {
				defer func() { _ = recover() }()
				_, _ = acf(ctx, fs, srcDesc[i])
			}()
			if st, err := cs.Status(ctx, refPrefix+srcDesc[i].Digest.String()); err == nil && st.Offset > 0 {
				res.Leftover++
			}
		case "retry":
			_ = run(i)
		case "plant-none", "plant-stale", "plant-right":
			// the blob this conversion is going to produce is already in the store (another converter instance with the same
			// configuration produced it); its labels are then set to what e.g. a fetch from a registry leaves
			pcf, _ := newConverter(c.Kind, c.API, perLayer, common, glevel, zlevel, c.Chunk, c.MinChunk)
			var pd *ocispec.Descriptor
			func() {
				defer func() { _ = recover() }()
				pd, _ = pcf(ctx, cs, srcDesc[i])
			}()
			if pd != nil {
				o := &res.Layers[i]
				o.Planted, o.PlantDigest = true, pd.Digest.String()
				switch l.Pre {
				case "plant-none":
					_ = ls.Set(pd.Digest, map[string]string{})
				case "plant-stale":
					o.PlantLabel = "sha256:" + strings.Repeat("2", 64)
					_ = ls.Set(pd.Digest, map[string]string{labels.LabelUncompressed: o.PlantLabel, "containerd.io/distribution.source.example.com": "lib/other"})
				default:
					if info, err := cs.Info(ctx, pd.Digest); err == nil {
						o.PlantLabel = info.Labels[labels.LabelUncompressed]
					}
				}
			}
		}
	}
	// labels of the source blobs before the observed conversions
	srcLabelsBefore := make([]map[string]string, n)
	for i := range c.Ops {
		if info, err := cs.Info(ctx, srcDesc[i].Digest); err == nil {
			srcLabelsBefore[i] = info.Labels
		}
	}
	// the history above must not release the gate, and its commits are not those of the observed conversions
	ws.Committed = nil
	ws.release = make(chan struct{})
	releaseOnce = new(sync.Once)
	ws.gate = c.Gate && c.Parallel && finalize != nil && len(c.Ops) > 1
	existedBefore := map[string]bool{}
	_ = cs.Walk(ctx, func(info content.Info) error {
		existedBefore[info.Digest.String()] = true
		return nil
	})

	refBytes := func(i int) int64 {
		if st, err := cs.Status(ctx, refPrefix+srcDesc[i].Digest.String()); err == nil {
			return st.Offset
		}
		return 0
	}
	for i := range c.Ops {
		res.Layers[i].Leftover = refBytes(i)
	}
	outs := make([]out, n)
	runSeg := func(lo, hi int) {
		if lo >= hi {
			return
		}
		if c.Parallel && hi-lo > 1 {
			var wg sync.WaitGroup
			start := make(chan struct{})
			for i := lo; i < hi; i++ {
				wg.Add(1)
				go func(i int) {
					defer wg.Done()
					<-start
					outs[i] = run(i)
				}(i)
			}
			close(start)
			wg.Wait()
			ws.mu.Lock()
			res.Parked = res.Parked || ws.Parked
			ws.mu.Unlock()
		} else {
			for i := lo; i < hi; i++ {
				outs[i] = run(i)
			}
		}
	}
	sortEntries := func(es []MEntry) {
		sort.Slice(es, func(i, j int) bool {
			a, b := es[i], es[j]
			if a.TOC != b.TOC {
				return a.TOC < b.TOC
			}
			return a.Layer < b.Layer
		})
	}
	// one finalize call; a good reference differs from call to call (same converted image pushed under several names)
	nfin := 0
	doFinalize := func(f Fin) FinObs {
		nfin++
		fo := FinObs{Upto: f.Upto, OK: f.OK}
		ref := fmt.Sprintf("example.com/lib/img:v%d", nfin)
		if !f.OK {
			ref = "not a reference !!"
		}
		var img *images.Image
		var err error
		func() {
			defer func() {
				if p := recover(); p != nil {
					err = fmt.Errorf("panic: %v", p)
					res.Problems = append(res.Problems, fmt.Sprintf("finalize #%d panicked: %v", nfin, p))
				}
			}()
			img, err = finalize(ctx, cs, ref, nil)
		}()
		if err != nil || img == nil {
			fo.Err = true
			if f.OK {
				res.Problems = append(res.Problems, fmt.Sprintf("finalize #%d failed for a good reference: %v", nfin, err))
			}
			return fo
		}
		if img.Name != ref+"-esgztoc" {
			res.Problems = append(res.Problems, "TOC image name "+img.Name)
		}
		mb, err := readBlob(ctx, cs, img.Target.Digest)
		if err != nil {
			res.Problems = append(res.Problems, "TOC image manifest not in the store: "+err.Error())
			return fo
		}
		if int64(len(mb)) != img.Target.Size || sha(mb) != img.Target.Digest.String() {
			res.Problems = append(res.Problems, "TOC image target does not describe the manifest blob")
		}
		var m ocispec.Manifest
		if err := json.Unmarshal(mb, &m); err != nil {
			res.Problems = append(res.Problems, "TOC image manifest does not parse")
		}
		for _, l := range m.Layers {
			fo.Entries = append(fo.Entries, MEntry{Layer: l.Annotations["containerd.io/snapshot/stargz/layer.digest"], TOC: l.Digest.String(), Size: l.Size})
			tb, err := readBlob(ctx, cs, l.Digest)
			if err != nil {
				res.Problems = append(res.Problems, "TOC image layer "+l.Digest.String()+" not in the store")
			} else if int64(len(tb)) != l.Size || sha(tb) != l.Digest.String() {
				res.Problems = append(res.Problems, "TOC image layer descriptor does not describe the TOC blob "+l.Digest.String())
			}
		}
		sortEntries(fo.Entries)
		return fo
	}
	// the program of the case: layers up to the position of each finalize call, the call, ..., the remaining layers
	fins := c.Fins
	if len(fins) == 0 && !c.NoFin {
		fins = []Fin{{Upto: n, OK: true}}
	}
	if finalize == nil {
		fins = nil
	}
	done := 0
	for _, f := range fins {
		if f.Upto > n {
			f.Upto = n
		}
		if f.Upto < done {
			f.Upto = done
		}
		runSeg(done, f.Upto)
		done = f.Upto
		fo := doFinalize(f)
		res.Fins = append(res.Fins, fo)
		if !fo.Err {
			res.HasMfst = true
			res.Manifest = fo.Entries
			res.LastUpto = fo.Upto
		}
	}
	runSeg(done, n)

	for i := range c.Ops {
		res.Layers[i].IngestAfter = refBytes(i)
		if outs[i].err == nil && outs[i].pan == nil && outs[i].d != nil && res.Layers[i].IngestAfter != 0 {
			res.Problems = append(res.Problems, fmt.Sprintf("layer %d: converted, but %d bytes remain ingested under its writer ref", i, res.Layers[i].IngestAfter))
		}
	}
	// clause (frame): a conversion leaves the labels of its SOURCE blob alone (unless a conversion of this case committed that very digest)
	srcLabelsAfter := make([]map[string]string, n)
	for i := range c.Ops {
		if info, err := cs.Info(ctx, srcDesc[i].Digest); err == nil {
			srcLabelsAfter[i] = info.Labels
			res.Layers[i].SrcLabelAfter = info.Labels[labels.LabelUncompressed]
		}
	}
	// exactly the digests the observed conversions committed (seen by the store wrapper, also when the conversion failed
	// afterwards or the store answered AlreadyExists)
	produced := map[string]bool{}
	ws.mu.Lock()
	for d := range ws.Committed {
		produced[d] = true
	}
	ws.mu.Unlock()
	for i := range c.Ops {
		if produced[srcDesc[i].Digest.String()] {
			continue
		}
		a, b := srcLabelsBefore[i], srcLabelsAfter[i]
		same := len(a) == len(b)
		for k, v := range a {
			if b[k] != v {
				same = false
			}
		}
		if !same {
			res.Problems = append(res.Problems, fmt.Sprintf("layer %d: labels of the SOURCE blob %s changed by the conversion: %v -> %v", i, srcDesc[i].Digest, a, b))
		}
	}
	// every external TOC blob of the store
	type tocBlobInfo struct {
		dg   string
		b    []byte
		json string
	}
	var tocBlobs []tocBlobInfo
	if finalize != nil {
		_ = cs.Walk(ctx, func(info content.Info) error {
			if b, err := readBlob(ctx, cs, info.Digest); err == nil {
				if js, ok := tocJSONOfTOCBlob(b); ok {
					tocBlobs = append(tocBlobs, tocBlobInfo{info.Digest.String(), b, js})
				}
			}
			return nil
		})
		sort.Slice(tocBlobs, func(i, j int) bool { return tocBlobs[i].dg < tocBlobs[j].dg })
	}

	// observations + model-free oracle
	prob := func(i int, f string, a ...any) {
		res.Problems = append(res.Problems, fmt.Sprintf("layer %d: ", i)+fmt.Sprintf(f, a...))
	}
	for i := range c.Ops {
		o := &res.Layers[i]
		switch {
		case outs[i].pan != nil:
			o.Res = "panic"
			o.Err = fmt.Sprint(outs[i].pan)
			prob(i, "conversion panicked: %v", outs[i].pan)
			continue
		case outs[i].err != nil:
			o.Res = "err"
			o.Err = outs[i].err.Error()
			if os.Getenv("C19_ERRS") != "" {
				fmt.Fprintf(os.Stderr, "ERR kind=%s src=%s/%s: %s\n", c.Kind, c.Ops[i].Comp, c.Ops[i].Fam, o.Err)
			}
			continue
		case outs[i].d == nil:
			o.Res = "nil"
			continue
		}
		o.Res = "ok"
		d := outs[i].d
		o.MT, o.Digest, o.Size = d.MediaType, d.Digest.String(), d.Size
		o.AnnTOC = d.Annotations[estargz.TOCJSONDigestAnnotation]
		o.AnnUSize = d.Annotations[estargz.StoreUncompressedSizeAnnotation]
		o.Existed = existedBefore[o.Digest]
		if c.Ops[i].Annot && d.Annotations["org.example.keep"] != "yes" {
			prob(i, "unrelated annotation of the source descriptor lost")
		}
		blob, err := readBlob(ctx, cs, d.Digest)
		if err != nil {
			prob(i, "descriptor digest %s is not a committed blob: %v", d.Digest, err)
			continue
		}
		info, _ := cs.Info(ctx, d.Digest)
		o.Label = info.Labels[labels.LabelUncompressed]
		o.HBlob, o.Len, o.Comp = sha(blob), int64(len(blob)), detectComp(blob)
		// clause: digest and size are those of the committed blob
		if o.HBlob != o.Digest {
			prob(i, "descriptor digest %s but the blob hashes to %s", o.Digest, o.HBlob)
		}
		if o.Len != o.Size {
			prob(i, "descriptor size %d but the blob has %d bytes", o.Size, o.Len)
		}
		// clause: uncompressed-size annotation and uncompressed label = length and SHA-256 of the decompressed blob
		pay, err := decompressAll(blob)
		if err != nil || o.Comp == "none" {
			prob(i, "committed blob does not decompress (%v, detected %s)", err, o.Comp)
			continue
		}
		o.HPay, o.PayLen = sha(pay), int64(len(pay))
		if o.AnnUSize != strconv.FormatInt(o.PayLen, 10) {
			prob(i, "uncompressed-size annotation %q but the blob decompresses to %d bytes", o.AnnUSize, o.PayLen)
		}
		if o.Label != o.HPay {
			prob(i, "content store label containerd.io/uncompressed=%q but the decompressed blob hashes to %s (existed before: %v)", o.Label, o.HPay, o.Existed)
		}
		// clause: media type matches the compression
		wantComp := "gzip"
		if c.Kind == "zstd" {
			wantComp = "zstd"
		}
		if o.Comp != wantComp {
			prob(i, "%s conversion wrote a %s blob", c.Kind, o.Comp)
		}
		if mtClaims[o.MT] != o.Comp {
			prob(i, "media type %s on a %s-compressed blob (source media type %s)", o.MT, o.Comp, o.SrcMT)
		}
		if _, known := mtCoq[o.MT]; !known {
			prob(i, "unknown result media type %q", o.MT)
		}
		// clause: lossless conversion leaves the DiffID unchanged
		if c.Kind == "extll" && o.HPay != o.SrcDiffID {
			prob(i, "lossless conversion changed the DiffID: %s -> %s", o.SrcDiffID, o.HPay)
		}
		// clause: the TOC-digest annotation is the digest under which the blob mounts and verifies
		var tocBlob []byte
		covered := res.HasMfst && (i < res.LastUpto || c.Ops[i].Pre == "retry")
		if finalize != nil && !covered {
			// no successful finalize call after this layer's conversion: take the TOC blob of the store that carries
			// the annotated TOC (the TOC-image clauses do not apply)
			for _, tb := range tocBlobs {
				if tb.json == o.AnnTOC {
					tocBlob = tb.b
				}
			}
			if tocBlob == nil {
				prob(i, "no external TOC blob with TOC digest %s was stored for converted layer %s", o.AnnTOC, o.Digest)
			}
		}
		if finalize != nil && covered {
			// as fetcher.go does: first manifest layer annotated with this layer digest
			found := ""
			for _, m := range res.Manifest {
				if m.Layer == o.Digest {
					if found != "" && found != m.TOC {
						prob(i, "TOC image lists two TOCs for layer %s", o.Digest)
					}
					if found == "" {
						found = m.TOC
					}
				}
			}
			if found == "" {
				prob(i, "TOC image has no entry for converted layer %s", o.Digest)
			} else {
				o.TOCBlob = found
				for _, tb := range tocBlobs {
					if tb.dg == found {
						tocBlob = tb.b
						o.TOCLen = int64(len(tb.b))
					}
				}
				if tocBlob == nil {
					prob(i, "TOC image maps layer %s to %s which is not an external TOC blob in the store", o.Digest, found)
				}
			}
		}
		actual, err := openAndVerify(c.Kind, blob, pay, tocBlob, o.AnnTOC)
		o.TOCDg = actual
		if err != nil {
			if finalize != nil && covered {
				prob(i, "TOC image maps layer %s to TOC blob %s which does not verify it under annotation %s: %v", o.Digest, o.TOCBlob, o.AnnTOC, err)
			} else {
				prob(i, "blob does not mount and verify under the TOC-digest annotation %s: %v", o.AnnTOC, err)
			}
		}
		// zstd:chunked manifest annotations describe the TOC frame of this blob
		if c.Kind == "zstd" {
			pos := d.Annotations[zstdchunked.ManifestPositionAnnotation]
			sum := d.Annotations[zstdchunked.ManifestChecksumAnnotation]
			var off, clen, ulen, typ int64
			if _, err := fmt.Sscanf(pos, "%d:%d:%d:%d", &off, &clen, &ulen, &typ); err != nil {
				prob(i, "zstd:chunked manifest position annotation %q missing/unparsable", pos)
			} else if off < 0 || clen < 0 || off+clen > int64(len(blob)) {
				prob(i, "zstd:chunked manifest position %q outside the blob of %d bytes", pos, len(blob))
			} else {
				frame := blob[off : off+clen]
				if sha(frame) != sum {
					prob(i, "zstd:chunked manifest checksum annotation %q does not match the bytes at %q", sum, pos)
				}
				if zr, err := zstd.NewReader(bytes.NewReader(frame), zstd.WithDecoderConcurrency(1), zstd.WithDecoderLowmem(true)); err == nil {
					js, _ := io.ReadAll(zr)
					zr.Close()
					if int64(len(js)) != ulen || sha(js) != actual {
						prob(i, "zstd:chunked manifest position %q does not delimit this blob's TOC", pos)
					}
				}
			}
		}
	}
	// clause, for EVERY successful finalize call: the image maps every layer converted so far to the TOC that verifies it
	// (same TOC digest as the layer's annotation, which openAndVerify above checked against the blob), has exactly one entry
	// per layer digest and nothing but entries of layers converted so far
	for fi, fo := range res.Fins {
		if fo.Err {
			continue // an error for a good reference was reported above
		}
		if !fo.OK {
			res.Problems = append(res.Problems, fmt.Sprintf("finalize #%d returned an image for an unparsable reference", fi+1))
		}
		seen := map[string]int{}
		tocOf := map[string]string{}
		for _, m := range fo.Entries {
			seen[m.Layer]++
			tocOf[m.Layer] = m.TOC
		}
		allowed := map[string]bool{}
		for i, o := range res.Layers {
			if o.Res != "ok" {
				continue
			}
			if i < fo.Upto || c.Ops[i].Pre == "retry" {
				allowed[o.Digest] = true
			}
			if i >= fo.Upto {
				continue
			}
			tocd, ok := tocOf[o.Digest]
			if !ok {
				res.Problems = append(res.Problems, fmt.Sprintf("finalize #%d (after %d layers): TOC image with %d entries has no entry for converted layer %d %s", fi+1, fo.Upto, len(fo.Entries), i, o.Digest))
				continue
			}
			js := ""
			for _, tb := range tocBlobs {
				if tb.dg == tocd {
					js = tb.json
				}
			}
			if js == "" || js != o.AnnTOC || (o.TOCDg != "" && js != o.TOCDg) {
				res.Problems = append(res.Problems, fmt.Sprintf("finalize #%d: TOC image maps layer %d %s to %s which is not the TOC that verifies it (TOC digest %q, annotation %s)", fi+1, i, o.Digest, tocd, js, o.AnnTOC))
			}
		}
		for k, v := range seen {
			if v != 1 {
				res.Problems = append(res.Problems, fmt.Sprintf("finalize #%d: TOC image has %d entries for layer %s", fi+1, v, k))
			}
			if !allowed[k] {
				res.Problems = append(res.Problems, fmt.Sprintf("finalize #%d: TOC image has an entry for %s which no descriptor returned so far names", fi+1, k))
			}
		}
	}
	return res
}

// ---------------------------------------------------------------------------------------------
// Coq term

type interner struct{ ids map[string]int }

func newInterner(ss []string) *interner {
	set := map[string]bool{}
	for _, s := range ss {
		if s != "" {
			set[s] = true
		}
	}
	var keys []string
	for k := range set {
		keys = append(keys, k)
	}
	sort.Strings(keys) // ids preserve the string order (finalize sorts by digest string)
	in := &interner{ids: map[string]int{}}
	for i, k := range keys {
		in.ids[k] = i + 1
	}
	return in
}
func (in *interner) id(s string) string { return fmt.Sprintf("%d%%N", in.ids[s]) } // 0 = absent

var kindCoq = map[string]string{"esgz": "KEsgz", "zstd": "KZstd", "ext": "KExt", "extll": "KExtLL"}

func coqCase(c Case, r Result) string {
	var all []string
	for _, o := range r.Layers {
		all = append(all, o.SrcDigest, o.SrcLabel, o.SrcDiffID, o.Digest, o.AnnTOC, o.Label, o.HBlob, o.HPay, o.TOCDg, o.TOCBlob, o.PlantLabel, o.PlantDigest, o.SrcLabelAfter)
	}
	for _, f := range r.Fins {
		for _, m := range f.Entries {
			all = append(all, m.Layer, m.TOC)
		}
	}
	in := newInterner(all)
	var ls []string
	for i, o := range r.Layers {
		usz := "None"
		if v, err := strconv.ParseInt(o.AnnUSize, 10, 64); err == nil && v >= 0 {
			usz = fmt.Sprintf("(Some %d%%N)", v)
		}
		comp := map[string]string{"gzip": "(Some Gz)", "zstd": "(Some Zst)"}[o.Comp]
		if comp == "" {
			comp = "None"
		}
		obs := "OErr"
		ok := o.Res == "ok"
		if ok {
			mt := mtCoq[o.MT]
			if mt == "" {
				mt = "OciTar" // unknown media type: reported by the oracle; any wrong value makes the case mismatch
			}
			obs = fmt.Sprintf("(OOk %s %s %d%%N %s %s %s)", mt, in.id(o.Digest), o.Size, in.id(o.AnnTOC), usz, in.id(o.Label))
		}
		// blobs as the tuples of their observable function values (H, len, H.payload, len.payload, compression, TOC digest, external TOC blob)
		src := fmt.Sprintf("(mkBlob %s %d%%N %s %d%%N None 0%%N 0%%N 0%%N)", in.id(o.SrcDigest), o.SrcLen, in.id(o.SrcDiffID), o.SrcPayLen)
		blob := fmt.Sprintf("(mkBlob %s %d%%N %s %d%%N %s %s %s %d%%N)", in.id(o.HBlob), o.Len, in.id(o.HPay), o.PayLen, comp, in.id(o.TOCDg), in.id(o.TOCBlob), o.TOCLen)
		planted := "None"
		if o.Planted {
			planted = fmt.Sprintf("(Some (%s, %s))", in.id(o.PlantDigest), in.id(o.PlantLabel))
		}
		ls = append(ls, fmt.Sprintf("(mkLayer %s %s %s %s %s %s %s %s %d%%N %d%%N %s %s)", mtCoq[o.SrcMT], in.id(o.SrcDigest), in.id(o.SrcLabel), src,
			hx.CoqBool(c.Ops[i].Pre == "retry"), hx.CoqBool(ok), blob, obs, o.Leftover, o.IngestAfter, planted, in.id(o.SrcLabelAfter)))
	}
	var fs []string
	for _, f := range r.Fins {
		obs := "None"
		if !f.Err {
			var ms []string
			for _, m := range f.Entries {
				ms = append(ms, fmt.Sprintf("(%s, (%s, %d%%N))", in.id(m.Layer), in.id(m.TOC), m.Size))
			}
			obs = "(Some " + hx.CoqList(ms) + ")"
		}
		fs = append(fs, fmt.Sprintf("(%d, (%s, %s))", f.Upto, hx.CoqBool(f.OK), obs))
	}
	mf := hx.CoqList(fs)
	return fmt.Sprintf("(mkCase %s %s %s)", kindCoq[c.Kind], hx.CoqList(ls), mf)
}

// ---------------------------------------------------------------------------------------------
// generator

func genLayer(r *hx.Rng, kind string) Layer {
	l := Layer{Seed: r.U64() % 1000000, NFiles: r.Range(0, 6), MaxSz: []int{0, 10, 900, 5000, 12000}[r.Pick(1, 2, 4, 4, 1)]}
	l.Comp = []string{"none", "gzip", "zstd", "esgz", "zstdchunked"}[r.Pick(4, 6, 3, 3, 1)]
	l.Fam = []string{"oci", "ocind", "docker", "dockerforeign"}[r.Pick(6, 2, 4, 1)]
	l.Lab = r.Pick(3, 3, 2)
	if r.Chance(1, 4) {
		l.Prio = r.Range(1, 3)
	}
	if r.Chance(1, 4) {
		l.LChunk = []int{600, 2048, 4096}[r.Intn(3)]
	}
	switch r.Pick(8, 1, 2, 2, 3) {
	case 1:
		l.Pre = "ingest"
	case 2:
		l.Pre = "retry"
	case 3:
		l.Pre = "interrupt"
	case 4:
		l.Pre = []string{"plant-none", "plant-stale", "plant-right"}[r.Pick(3, 2, 1)]
	}
	l.Annot = (l.Comp == "esgz" || l.Comp == "zstdchunked") && r.Bool() || r.Chance(1, 10)
	return l
}

func gen(r *hx.Rng) Case {
	c := Case{}
	c.Kind = []string{"esgz", "zstd", "ext", "extll"}[r.Pick(3, 3, 4, 3)]
	c.API = []string{"common", "perlayer"}[r.Pick(3, 2)]
	c.Chunk = []int{0, 300, 1000, 4096, 100000}[r.Pick(3, 1, 3, 3, 1)]
	if r.Chance(1, 5) {
		c.MinChunk = []int{500, 3000, 50000}[r.Intn(3)]
	}
	c.Level = []int{0, 1, 6, 9}[r.Pick(3, 3, 2, 1)]
	c.Spare = r.Pick(2, 1, 1, 2) // 0..3 spare slots
	c.CPrio = r.Chance(1, 5)
	c.Parallel = r.Chance(2, 3)
	c.Gate = (c.Kind == "ext" || c.Kind == "extll") && c.Parallel && r.Bool()
	n := r.Pick(0, 2, 4, 3, 2, 1, 1) // 1..6
	for i := 0; i < n; i++ {
		l := genLayer(r, c.Kind)
		if i > 0 && r.Chance(1, 6) {
			// same tar as an earlier layer, possibly stored differently: may convert to the same blob
			p := c.Ops[r.Intn(i)]
			l.Seed, l.NFiles, l.MaxSz, l.Prio, l.LChunk = p.Seed, p.NFiles, p.MaxSz, p.Prio, p.LChunk
			if r.Chance(1, 3) {
				l.Comp, l.Fam, l.Lab = p.Comp, p.Fam, p.Lab // the very same source layer twice in one image
			}
		}
		c.Ops = append(c.Ops, l)
	}
	if c.Kind == "ext" || c.Kind == "extll" {
		n := len(c.Ops)
		switch r.Pick(5, 1, 3, 3) {
		case 1:
			c.NoFin = true
		case 2: // a failed call retried, possibly a further reference afterwards
			c.Fins = []Fin{{Upto: n, OK: false}, {Upto: n, OK: true}}
			if r.Bool() {
				c.Fins = append(c.Fins, Fin{Upto: n, OK: r.Chance(3, 4)})
			}
		case 3: // calls interleaved with further conversions
			k := r.Range(1, 3)
			up := 0
			for j := 0; j < k; j++ {
				up = r.Range(up, n)
				c.Fins = append(c.Fins, Fin{Upto: up, OK: r.Chance(3, 4)})
			}
			if r.Chance(2, 3) {
				c.Fins = append(c.Fins, Fin{Upto: n, OK: true})
			}
		}
	}
	if raceBuild {
		c.Parallel = true
		c.Gate = false
		if c.Kind == "zstd" && r.Chance(2, 3) {
			c.Kind = []string{"esgz", "ext", "extll"}[r.Intn(3)]
		}
		if c.Spare == 0 {
			c.Spare = 1
		}
		c.CPrio = c.CPrio || r.Bool()
		for len(c.Ops) < 3 {
			c.Ops = append(c.Ops, genLayer(r, c.Kind))
		}
		for i := range c.Ops {
			if c.Ops[i].MaxSz > 900 {
				c.Ops[i].MaxSz = 900
			}
			if c.Ops[i].NFiles > 3 {
				c.Ops[i].NFiles = 3
			}
		}
		if c.Chunk > 0 && c.Chunk < 1000 {
			c.Chunk = 1000
		}
	}
	// every chunk costs a fresh gzip/zstd encoder (~1 MB of state): keep tiny chunk sizes for small files
	for i := range c.Ops {
		if c.Chunk > 0 && c.Chunk < 1000 && c.Ops[i].MaxSz > 900 {
			c.Ops[i].MaxSz = 900
		}
	}
	return c
}

func main() {
	// containerd's compression package pipes gzip through an external unpigz/igzip process when one is installed;
	// keep the run self-contained and deterministic (same bytes, only slower/faster)
	os.Setenv("CONTAINERD_DISABLE_PIGZ", "1")
	os.Setenv("CONTAINERD_DISABLE_IGZIP", "1")
	ctx := hx.Start()
	tmpBase = ctx.Out
	if pf := os.Getenv("C19_PROF"); pf != "" {
		f, _ := os.Create(pf)
		_ = pprof.StartCPUProfile(f)
		defer pprof.StopCPUProfile()
	}
	emit := func(c Case) {
		t0 := time.Now()
		r := exec(c)
		if os.Getenv("C19_TIMING") != "" {
			fmt.Fprintf(os.Stderr, "%s %s layers=%d chunk=%d minchunk=%d par=%v  %v\n", c.Kind, c.API, len(c.Ops), c.Chunk, c.MinChunk, c.Parallel, time.Since(t0))
		}
		term := coqCase(c, r)
		ctx.Count("kind." + c.Kind)
		ctx.Count("api." + c.API)
		if c.Parallel && len(c.Ops) > 1 {
			ctx.Count("parallel")
		}
		if r.Parked {
			ctx.Count("gate.parked")
		}
		if c.Kind == "ext" || c.Kind == "extll" {
			nokfin, prevUp := 0, -1
			for _, f := range r.Fins {
				if f.Err {
					ctx.Count("fin.fail")
					continue
				}
				ctx.Count("fin.ok")
				nokfin++
				if nokfin > 1 {
					ctx.Count("fin.ok.repeated")
				}
				if prevUp >= 0 && f.Upto > prevUp {
					ctx.Count("fin.ok.after.more.layers")
				}
				if nokfin > 0 && len(f.Entries) == 0 && f.Upto > 0 {
					ctx.Count("fin.ok.empty.image")
				}
				prevUp = f.Upto
			}
			if len(r.Fins) == 0 {
				ctx.Count("fin.none")
			}
			if len(r.Fins) > 1 {
				ctx.Count("fin.multi")
			}
		}
		ctx.CountN("pre.interrupt.left", r.Leftover)
		nok := 0
		dig := map[string]int{}
		for i, l := range c.Ops {
			o := r.Layers[i]
			ctx.Count("src." + l.Comp)
			ctx.Count("fam." + l.Fam)
			ctx.Count("res." + o.Res)
			if l.Pre != "" {
				ctx.Count("pre." + l.Pre)
			}
			if o.Planted && o.Res == "ok" && o.PlantDigest == o.Digest {
				ctx.Count("result.planted.blob.reproduced")
			}
			if o.Res == "ok" {
				nok++
				dig[o.Digest]++
				if o.Existed {
					ctx.Count("result.blob.existed")
				}
			}
		}
		for _, v := range dig {
			if v > 1 {
				ctx.Count("result.same.blob.twice")
			}
		}
		ctx.CountN("layers", len(c.Ops))
		id := ctx.Case(term, c, term, nok > 0)
		for _, p := range r.Problems {
			ctx.Violation(id, p, nil)
		}
	}
	if ctx.Replay != "" {
		var c Case
		ctx.LoadReplay(&c)
		emit(c)
		ctx.Finish()
		return
	}
	corpus := []Case{
		{Kind: "esgz", API: "common", Ops: []Layer{{Seed: 1, NFiles: 3, MaxSz: 900, Comp: "gzip", Fam: "oci"}, {Seed: 2, NFiles: 2, MaxSz: 5000, Comp: "none", Fam: "docker", Lab: 2}}},
		{Kind: "zstd", API: "common", Chunk: 700, Parallel: true, Ops: []Layer{{Seed: 3, NFiles: 3, MaxSz: 900, Comp: "gzip", Fam: "docker"}, {Seed: 4, NFiles: 4, MaxSz: 5000, Comp: "none", Fam: "oci"}, {Seed: 5, NFiles: 2, MaxSz: 900, Comp: "zstd", Fam: "ocind", Lab: 1}}},
		{Kind: "ext", API: "common", Chunk: 4096, Spare: 2, Parallel: true, Ops: []Layer{{Seed: 6, NFiles: 3, MaxSz: 900, Comp: "gzip", Fam: "oci"}, {Seed: 7, NFiles: 4, MaxSz: 5000, Comp: "none", Fam: "oci"}, {Seed: 8, NFiles: 5, MaxSz: 900, Comp: "gzip", Fam: "docker", Pre: "ingest"}, {Seed: 9, NFiles: 1, MaxSz: 20000, Comp: "gzip", Fam: "oci", Pre: "retry"}}},
		{Kind: "extll", API: "common", Chunk: 700, Parallel: true, Ops: []Layer{{Seed: 10, NFiles: 3, MaxSz: 900, Comp: "gzip", Fam: "oci", Lab: 2}, {Seed: 11, NFiles: 4, MaxSz: 5000, Comp: "none", Fam: "ocind"}, {Seed: 10, NFiles: 3, MaxSz: 900, Comp: "none", Fam: "oci"}}},
		// forced schedule: layer A generates its TOC, parks before storing it; another layer converts completely; A stores
		{Kind: "ext", API: "common", Chunk: 4096, Parallel: true, Gate: true, Ops: []Layer{{Seed: 20, NFiles: 3, MaxSz: 900, Comp: "gzip", Fam: "oci"}, {Seed: 21, NFiles: 4, MaxSz: 5000, Comp: "none", Fam: "oci"}, {Seed: 22, NFiles: 2, MaxSz: 900, Comp: "gzip", Fam: "docker"}}},
		{Kind: "extll", API: "common", Chunk: 4096, Parallel: true, Gate: true, Ops: []Layer{{Seed: 23, NFiles: 3, MaxSz: 900, Comp: "gzip", Fam: "oci"}, {Seed: 24, NFiles: 4, MaxSz: 5000, Comp: "none", Fam: "oci"}}},
		// the would-be result blob is already in the store without labels / with stale labels / with the right ones (every converter)
		{Kind: "esgz", API: "common", Chunk: 4096, Ops: []Layer{{Seed: 60, NFiles: 3, MaxSz: 900, Comp: "gzip", Fam: "oci", Pre: "plant-none"}, {Seed: 61, NFiles: 2, MaxSz: 900, Comp: "none", Fam: "docker", Lab: 1, Pre: "plant-stale"}, {Seed: 62, NFiles: 2, MaxSz: 900, Comp: "zstd", Fam: "oci", Pre: "plant-right"}}},
		{Kind: "extll", API: "common", Chunk: 4096, Ops: []Layer{{Seed: 63, NFiles: 3, MaxSz: 900, Comp: "gzip", Fam: "oci", Pre: "plant-none"}, {Seed: 64, NFiles: 2, MaxSz: 900, Comp: "none", Fam: "oci", Lab: 1, Pre: "plant-stale"}, {Seed: 65, NFiles: 2, MaxSz: 900, Comp: "gzip", Fam: "docker", Lab: 2, Pre: "plant-none"}}},
		{Kind: "ext", API: "perlayer", Parallel: true, Ops: []Layer{{Seed: 66, NFiles: 3, MaxSz: 900, Comp: "gzip", Fam: "oci", Pre: "plant-none"}, {Seed: 67, NFiles: 2, MaxSz: 900, Comp: "none", Fam: "oci", Pre: "plant-stale"}}},
		{Kind: "zstd", API: "common", Chunk: 4096, Ops: []Layer{{Seed: 68, NFiles: 3, MaxSz: 900, Comp: "gzip", Fam: "oci", Pre: "plant-none"}, {Seed: 69, NFiles: 2, MaxSz: 900, Comp: "none", Fam: "oci", Lab: 2, Pre: "plant-stale"}}},
		// finalize fails (unparsable reference), is retried, and is called again for a further reference: each successful call maps all layers
		{Kind: "ext", API: "common", Chunk: 4096, Parallel: true, Fins: []Fin{{3, false}, {3, true}, {3, true}}, Ops: []Layer{{Seed: 40, NFiles: 3, MaxSz: 900, Comp: "gzip", Fam: "oci"}, {Seed: 41, NFiles: 2, MaxSz: 900, Comp: "none", Fam: "oci"}, {Seed: 42, NFiles: 2, MaxSz: 900, Comp: "gzip", Fam: "docker"}}},
		{Kind: "extll", API: "common", Chunk: 4096, Parallel: true, Fins: []Fin{{2, false}, {2, true}, {2, true}}, Ops: []Layer{{Seed: 43, NFiles: 3, MaxSz: 900, Comp: "gzip", Fam: "oci"}, {Seed: 44, NFiles: 2, MaxSz: 900, Comp: "none", Fam: "oci"}}},
		// finalize with no layer yet, after the first layer, then further layers, then all: later images contain the earlier layers too
		{Kind: "ext", API: "perlayer", Fins: []Fin{{0, true}, {1, true}, {3, true}}, Ops: []Layer{{Seed: 45, NFiles: 3, MaxSz: 900, Comp: "gzip", Fam: "oci"}, {Seed: 46, NFiles: 2, MaxSz: 900, Comp: "none", Fam: "oci"}, {Seed: 47, NFiles: 2, MaxSz: 900, Comp: "gzip", Fam: "ocind"}}},
		{Kind: "extll", API: "common", Fins: []Fin{{1, true}, {1, false}, {2, true}}, Ops: []Layer{{Seed: 48, NFiles: 3, MaxSz: 900, Comp: "gzip", Fam: "oci"}, {Seed: 49, NFiles: 2, MaxSz: 900, Comp: "none", Fam: "oci"}, {Seed: 50, NFiles: 1, MaxSz: 900, Comp: "gzip", Fam: "oci"}}},
		// finalize never called / only a failing call
		{Kind: "ext", API: "common", NoFin: true, Ops: []Layer{{Seed: 51, NFiles: 2, MaxSz: 900, Comp: "gzip", Fam: "oci"}}},
		{Kind: "ext", API: "common", Fins: []Fin{{1, false}}, Ops: []Layer{{Seed: 52, NFiles: 2, MaxSz: 900, Comp: "gzip", Fam: "oci"}}},
		// a conversion with other options died while streaming; the retry reuses the writer ref
		{Kind: "esgz", API: "common", Level: 9, Chunk: 1000, Ops: []Layer{{Seed: 25, NFiles: 4, MaxSz: 5000, Comp: "gzip", Fam: "oci", Pre: "interrupt"}, {Seed: 26, NFiles: 3, MaxSz: 5000, Comp: "none", Fam: "docker", Pre: "interrupt"}}},
		{Kind: "extll", API: "common", Level: 9, Chunk: 1000, Parallel: true, Ops: []Layer{{Seed: 27, NFiles: 4, MaxSz: 5000, Comp: "gzip", Fam: "oci", Pre: "interrupt"}, {Seed: 28, NFiles: 3, MaxSz: 5000, Comp: "none", Fam: "oci", Pre: "interrupt"}}},
		{Kind: "zstd", API: "common", Chunk: 1000, Ops: []Layer{{Seed: 29, NFiles: 4, MaxSz: 5000, Comp: "gzip", Fam: "oci", Pre: "interrupt"}}},
		// common options with WithAllowPrioritizeNotFound(&shared slice), as ctr-remote passes them, all layers in parallel: every Build appends to it
		{Kind: "esgz", API: "common", CPrio: true, Parallel: true, Ops: []Layer{{Seed: 30, NFiles: 2, MaxSz: 10, Comp: "none", Fam: "oci"}, {Seed: 31, NFiles: 2, MaxSz: 10, Comp: "none", Fam: "oci"}, {Seed: 32, NFiles: 2, MaxSz: 10, Comp: "none", Fam: "oci"}, {Seed: 33, NFiles: 2, MaxSz: 10, Comp: "none", Fam: "oci"}}},
		{Kind: "esgz", API: "perlayer", Ops: []Layer{{Seed: 12, NFiles: 4, MaxSz: 900, Comp: "esgz", Fam: "oci", Annot: true}, {Seed: 13, NFiles: 3, MaxSz: 900, Comp: "zstd", Fam: "oci", Prio: 2}}},
	}
	for _, c := range corpus {
		emit(c)
	}
	r := hx.NewRng(ctx.Seed)
	for i := len(corpus); i < ctx.N; i++ {
		emit(gen(r.Fork()))
	}
	ctx.Finish()
}
