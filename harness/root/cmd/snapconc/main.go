// C08 concurrency harness (oracle only, no model evaluation): 2-4 goroutines call the real
// snapshot.NewSnapshotter concurrently (each with its own fault script carried in the context), after a
// sequential set-up that builds shared remote/ordinary layers. The C08 clauses that make sense under
// concurrency are evaluated on the observations: a live backend mount is unmounted only when its snapshot is no
// longer in metadata (checked inside the Unmount call), mounts are returned only if every Check of the call
// passed, no unclassified failure, and at quiescence + one Cleanup the directories are exactly those of the
// snapshots, every remote snapshot committed in the run is still mounted, no mount sits on a deleted directory.
// Built with -race by the thorough tier (race=...): a data race inside snapshot/ is reported as a violation.
package main

import (
	"context"
	"fmt"
	"strings"
	"sync"

	"github.com/containerd/containerd/v2/core/mount"
	"github.com/containerd/containerd/v2/core/snapshots"
	"github.com/containerd/errdefs"
	"github.com/containerd/stargz-snapshotter/snapshot"
	"verif/harness/hx"
	"verif/harness/snapx"
)

type TOp struct {
	T  int      `json:"t"` // thread, -1 = sequential set-up
	Op snapx.Op `json:"o"`
}

type Case struct {
	Async   bool  `json:"async"`
	Threads int   `json:"threads"`
	Ops     []TOp `json:"ops"`
	// Scenario "key-reuse": deterministic schedule (witness of C08_conc_remote_has_mount_refuted): thread 0's
	// Prepare(k30, target k31) is held at the marker between its backend Mount and its internal commit while the
	// main thread removes k30 and prepares k30 again; then thread 0 commits.
	Scenario string `json:"scenario,omitempty"`
}

// SigSelfParent: known-finding class (WithParent naming the commit's own name).
const SigSelfParent = "C08-withparent-own-name-self-parent"

// SigKeyReuse: known-finding class F67.
const SigKeyReuse = "C08-conc-key-removed-and-reused-during-prepare"

const sharedN = 10 // names 0..9 are shared (never removed); thread i owns 20+20i .. 39+20i

type run struct {
	mu       sync.Mutex
	m        *snapx.Machine
	problems []string
	nextCall int
	inflight map[int]snapx.Op // call id -> op
	owner    map[int]int      // backend mount id -> name of the snapshot it belongs to
	mounting map[int]int      // backend mount id -> call that mounted it and has not returned yet
	leaked   map[int]bool     // ids whose live Unmount was scripted to fail
	overlap  int
}

func (r *run) problem(format string, a ...any) {
	r.mu.Lock()
	r.problems = append(r.problems, fmt.Sprintf(format, a...))
	r.mu.Unlock()
}

func set(xs []int) map[int]bool {
	m := map[int]bool{}
	for _, x := range xs {
		m[x] = true
	}
	return m
}

// do runs one API call (from any goroutine).
func (r *run) do(o snapx.Op) string {
	sn := r.m.SN
	r.mu.Lock()
	r.nextCall++
	id := r.nextCall
	if len(r.inflight) > 0 {
		r.overlap++
	}
	r.inflight[id] = o
	r.mu.Unlock()
	cc := &snapx.CallCtx{ID: id, MOK: o.MOK, CBad: set(o.CBad), UBad: set(o.UBad)}
	ctx := snapx.WithCall(context.Background(), cc)
	var err error
	var ms []mount.Mount
	switch o.Op {
	case "prepare":
		ms, err = sn.Prepare(ctx, snapx.Name(o.Key), pname(o.Parent), o.L.Opts()...)
	case "view":
		ms, err = sn.View(ctx, snapx.Name(o.Key), pname(o.Parent), o.L.Opts()...)
	case "commit":
		err = sn.Commit(ctx, snapx.Name(o.Name), snapx.Name(o.Key), o.L.Opts()...)
	case "mounts":
		ms, err = sn.Mounts(ctx, snapx.Name(o.Key))
	case "remove":
		err = sn.Remove(ctx, snapx.Name(o.Key))
	case "cleanup":
		err = sn.(snapshots.Cleaner).Cleanup(ctx)
	case "update":
		_, err = sn.Update(ctx, snapshots.Info{Name: snapx.Name(o.Name), Labels: o.L.Map()})
	case "stat":
		_, err = sn.Stat(ctx, snapx.Name(o.Name))
	default:
		panic("bad op " + o.Op)
	}
	class := snapx.ErrClass(err)
	if err == nil && ms != nil {
		class = "mounts"
	}
	// ---- per-call clauses ----
	r.m.FS.Lock()
	var mine []snapx.Event
	for _, e := range r.m.FS.Events {
		if e.Call == id {
			mine = append(mine, e)
		}
	}
	r.m.FS.Unlock()
	failedCheck := false
	for _, e := range mine {
		if e.Ev == "check" && !e.OK {
			failedCheck = true
		}
		if e.Ev == "unmount" && e.Live && !e.OK {
			r.mu.Lock()
			r.leaked[e.D.Id] = true
			r.mu.Unlock()
		}
	}
	if class == "other" {
		r.problem("%s failed with an unclassified error: %v", o.Op, err)
	}
	if class == "mounts" && failedCheck {
		r.problem("%s returned mounts although a connectivity check of this call failed", o.Op)
	}
	if failedCheck && class != "unavail" {
		r.problem("%s: a connectivity check failed but the call returned %s", o.Op, class)
	}
	// who owns the backend mount this call made
	for _, e := range mine {
		if e.Ev == "mount" && e.OK {
			name := o.L.T
			if _, serr := sn.Stat(context.Background(), snapx.Name(o.Key)); serr == nil {
				name = o.Key // the internal commit did not happen: the mount belongs to the (left-over) active snapshot
			} else if !errdefs.IsNotFound(serr) {
				r.problem("Stat(%s) failed: %v", snapx.Name(o.Key), serr)
			}
			r.mu.Lock()
			r.owner[e.D.Id] = name
			delete(r.mounting, e.D.Id)
			r.mu.Unlock()
		}
	}
	r.mu.Lock()
	delete(r.inflight, id)
	r.mu.Unlock()
	return class
}

func pname(p int) string {
	if p < 0 {
		return ""
	}
	return snapx.Name(p)
}

func exec(c Case) (problems []string, stats map[string]int) {
	stats = map[string]int{}
	root := snapx.TempRoot()
	m, err := snapx.Open(root, c.Async, false, false, nil)
	if err != nil {
		panic(err)
	}
	defer m.Destroy()
	r := &run{m: m, inflight: map[int]snapx.Op{}, owner: map[int]int{}, mounting: map[int]int{}, leaked: map[int]bool{}}
	// clause: a live backend mount is unmounted only when its snapshot is no longer in metadata
	m.FS.OnLiveUnmountCall = func(call, id int) {
		if call == 0 {
			return // Close / final sequential phase
		}
		r.mu.Lock()
		name, known := r.owner[id]
		r.mu.Unlock()
		if !known {
			if c.Scenario == "key-reuse" {
				return // part of the scripted witness of finding F67 (reported at quiescence)
			}
			r.problem("live backend mount %d unmounted while the Prepare that mounted it is still in flight", id)
			return
		}
		if _, serr := m.SN.Stat(context.Background(), snapx.Name(name)); serr == nil {
			r.problem("live backend mount %d of snapshot %s unmounted while the snapshot is still in metadata", id, snapx.Name(name))
		}
	}
	if c.Scenario == "key-reuse" {
		L := func(t int) snapx.Labels { return snapx.Labels{T: t} }
		reached, resume := make(chan struct{}), make(chan struct{})
		var once sync.Once
		snapshot.VerifOnCrashPoint(func(point string) {
			if point == "prepare.mounted" {
				once.Do(func() { close(reached); <-resume })
			}
		})
		done := make(chan string)
		go func() { done <- r.do(snapx.Op{Op: "prepare", Key: 30, Parent: -1, L: L(31), MOK: true}) }()
		<-reached
		stats["class.scenario.remove."+r.do(snapx.Op{Op: "remove", Key: 30, Parent: -1, L: snapx.NoLabels})]++
		stats["class.scenario.prepare."+r.do(snapx.Op{Op: "prepare", Key: 30, Parent: -1, L: snapx.NoLabels, MOK: true})]++
		close(resume)
		stats["class.scenario.held-prepare."+<-done]++
		snapshot.VerifOnCrashPoint(nil)
		stats["scenario.key-reuse"]++
	}
	if c.Scenario == "self-parent" {
		// snapshots.WithParent naming the target of the same Prepare: storage.CommitActive creates the target bucket
		// first and then finds it as "the parent": the committed remote snapshot is its own parent. Nothing that walks
		// a parent chain is called here (storage.parents would never return).
		stats["class.scenario.selfparent."+r.do(snapx.Op{Op: "prepare", Key: 40, Parent: -1, L: snapx.Labels{T: 41, W: 41 + 1}, MOK: true})]++
		if info, err := m.SN.Stat(context.Background(), snapx.Name(41)); err == nil && info.Parent == snapx.Name(41) {
			r.problems = append(r.problems, "FINDING2:"+fmt.Sprintf("Prepare(k40, target k41, WithParent(k41)) committed k41 as its own parent (Stat: parent = %s); a later Prepare/View/Mounts on top of it loops forever in storage.parents, Remove(k41) is refused (it has a child: itself)", info.Parent))
		} else {
			r.problem("self-parent scenario: Stat(k41) = %+v, %v", info, err)
		}
		stats["class.scenario.selfparent.remove."+r.do(snapx.Op{Op: "remove", Key: 41, Parent: -1, L: snapx.NoLabels})]++
		stats["scenario.self-parent"]++
		m.FS.Lock()
		ps := append([]string{}, m.FS.Problems...)
		m.FS.Unlock()
		return append(r.problems, ps...), stats
	}
	// sequential set-up
	var perThread [][]snapx.Op
	for i := 0; i < c.Threads; i++ {
		perThread = append(perThread, nil)
	}
	for _, to := range c.Ops {
		if to.T < 0 {
			stats["class.setup."+r.do(to.Op)]++
		} else if to.T < c.Threads {
			perThread[to.T] = append(perThread[to.T], to.Op)
		}
	}
	// concurrent phase
	var wg sync.WaitGroup
	start := make(chan struct{})
	var smu sync.Mutex
	for i := range perThread {
		wg.Add(1)
		go func(ops []snapx.Op) {
			defer wg.Done()
			<-start
			for _, o := range ops {
				cl := r.do(o)
				smu.Lock()
				stats["class."+o.Op+"."+cl]++
				smu.Unlock()
			}
		}(perThread[i])
	}
	close(start)
	wg.Wait()
	stats["overlapping-calls"] = r.overlap
	// quiescence: one Cleanup, then the state must be exact
	m.FS.OnLiveUnmountCall = nil
	if err := m.SN.(snapshots.Cleaner).Cleanup(context.Background()); err != nil {
		r.problem("final Cleanup failed: %v", err)
	}
	v := m.View()
	for _, p := range m.Problems {
		r.problem("%s", p.What)
	}
	if v.Temps != 0 || len(v.Dirs) != len(v.Walk) {
		r.problem("at quiescence after Cleanup: %d directories + %d temp for %d snapshots", len(v.Dirs), v.Temps, len(v.Walk))
	}
	live := map[int]bool{}
	for _, e := range v.Walk {
		live[e.Name] = true
	}
	mounted := map[int]bool{}
	hasDir := map[int]bool{}
	for _, d := range v.Dirs {
		hasDir[d] = true
	}
	for _, me := range v.Mounts {
		mounted[me.ID] = true
		if !hasDir[me.ID] && !r.leaked[me.ID] {
			r.problem("at quiescence: backend mount on deleted directory %d", me.ID)
		}
	}
	for id, name := range r.owner {
		if live[name] && !mounted[id] {
			if c.Scenario == "key-reuse" && name == 31 {
				r.problems = append(r.problems, "FINDING:"+fmt.Sprintf("snapshot %s was committed as remote by a Prepare whose key was removed and prepared again while it was between Mount and commit: it is in metadata, marked remote, and has no backend mount (the mount %d it made was unmounted with the removed snapshot)", snapx.Name(name), id))
				continue
			}
			r.problem("at quiescence: snapshot %s is in metadata but its backend mount %d is gone", snapx.Name(name), id)
		}
		if !live[name] && mounted[id] && !r.leaked[id] && c.Async == false {
			r.problem("at quiescence: backend mount %d of removed snapshot %s still registered", id, snapx.Name(name))
		}
	}
	m.FS.Lock()
	for _, p := range m.FS.Problems {
		r.problems = append(r.problems, p)
	}
	m.FS.Unlock()
	return r.problems, stats
}

// ---------------------------------------------------------------------------------------------
func gen(rg *hx.Rng) Case {
	c := Case{Async: rg.Chance(1, 3), Threads: rg.Range(2, 4)}
	L := func(t int) snapx.Labels { return snapx.Labels{T: t} }
	// set-up: shared chain 0 <- 1 (remote), 2 ordinary on top of 1
	c.Ops = append(c.Ops,
		TOp{-1, snapx.Op{Op: "prepare", Key: 10, Parent: -1, L: L(0), MOK: true}},
		TOp{-1, snapx.Op{Op: "prepare", Key: 10, Parent: 0, L: L(1), MOK: true}},
		TOp{-1, snapx.Op{Op: "prepare", Key: 11, Parent: 1, L: snapx.NoLabels}},
		TOp{-1, snapx.Op{Op: "commit", Key: 11, Name: 2, Parent: -1, L: snapx.NoLabels}})
	sharedCommitted := []int{0, 1, 2}
	sharedTargets := []int{5, 6, 7}
	for t := 0; t < c.Threads; t++ {
		base := 20 + 20*t
		next := base
		fresh := func() int { n := next; next++; return n }
		active, committed, views := []int{}, []int{}, []int{}
		n := rg.Range(4, 12)
		for i := 0; i < n && next < base+18; i++ {
			parent := func() int {
				all := append(append([]int{}, sharedCommitted...), committed...)
				if rg.Chance(1, 6) {
					return -1
				}
				return all[rg.Intn(len(all))]
			}
			faults := func() []int {
				if rg.Chance(1, 4) {
					return []int{rg.Range(1, 8)}
				}
				return nil
			}
			var o snapx.Op
			switch rg.Pick(30, 12, 8, 10, 12, 14, 6, 4, 4) {
			case 0:
				o = snapx.Op{Op: "prepare", Key: fresh(), Parent: parent(), MOK: rg.Chance(4, 5), CBad: faults()}
				if rg.Chance(1, 3) {
					o.L = L(sharedTargets[rg.Intn(len(sharedTargets))]) // several callers race for the same target
				} else {
					o.L = L(fresh())
					if o.MOK {
						committed = append(committed, o.L.T)
					}
				}
				if !o.MOK {
					active = append(active, o.Key)
				}
			case 1:
				o = snapx.Op{Op: "prepare", Key: fresh(), Parent: parent(), L: snapx.NoLabels, MOK: true, CBad: faults()}
				active = append(active, o.Key)
			case 2:
				o = snapx.Op{Op: "view", Key: fresh(), Parent: parent(), L: snapx.NoLabels, CBad: faults()}
				views = append(views, o.Key)
			case 3:
				if len(active) == 0 {
					continue
				}
				k := active[0]
				active = active[1:]
				o = snapx.Op{Op: "commit", Key: k, Name: fresh(), Parent: -1, L: snapx.NoLabels}
				committed = append(committed, o.Name)
			case 4:
				cand := append(append([]int{}, active...), views...)
				if len(cand) == 0 {
					continue
				}
				o = snapx.Op{Op: "mounts", Key: cand[rg.Intn(len(cand))], Parent: -1, L: snapx.NoLabels, CBad: faults()}
			case 5:
				cand := append(append(append([]int{}, active...), views...), committed...)
				if len(cand) == 0 {
					continue
				}
				k := cand[rg.Intn(len(cand))]
				o = snapx.Op{Op: "remove", Key: k, Parent: -1, L: snapx.NoLabels, UBad: faults()}
				rm := func(xs []int) []int {
					var out []int
					for _, x := range xs {
						if x != k {
							out = append(out, x)
						}
					}
					return out
				}
				active, views, committed = rm(active), rm(views), rm(committed)
			case 6:
				o = snapx.Op{Op: "cleanup", Parent: -1, L: snapx.NoLabels, UBad: faults()}
			case 7:
				if len(committed) == 0 {
					continue
				}
				k := committed[rg.Intn(len(committed))]
				o = snapx.Op{Op: "update", Name: k, Parent: -1, L: snapx.Labels{T: -1, U: rg.Range(1, 3), R: true}}
			case 8:
				o = snapx.Op{Op: "stat", Name: rg.Intn(sharedN), Parent: -1, L: snapx.NoLabels}
			}
			c.Ops = append(c.Ops, TOp{t, o})
		}
	}
	return c
}

func main() {
	ctx := hx.Start()
	emit := func(c Case) {
		problems, stats := exec(c)
		for k, v := range stats {
			ctx.CountN(k, v)
		}
		ctx.Count(fmt.Sprintf("threads.%d", c.Threads))
		ctx.CountN("ops", len(c.Ops))
		key := fmt.Sprintf("%v", c)
		id := ctx.Case("(true, [], [])", c, key, stats["overlapping-calls"] > 0)
		for _, p := range problems {
			if strings.HasPrefix(p, "FINDING2:") {
				ctx.Count("finding." + SigSelfParent)
				ctx.Finding(id, SigSelfParent, strings.TrimPrefix(p, "FINDING2:"), nil)
				continue
			}
			if strings.HasPrefix(p, "FINDING:") {
				ctx.Count("finding." + SigKeyReuse)
				ctx.Finding(id, SigKeyReuse, strings.TrimPrefix(p, "FINDING:"), nil)
				continue
			}
			ctx.Violation(id, p, nil)
		}
	}
	if ctx.Replay != "" {
		var c Case
		ctx.LoadReplay(&c)
		emit(c)
		ctx.Finish()
		return
	}
	emit(Case{Threads: 1, Scenario: "key-reuse"})
	emit(Case{Threads: 1, Scenario: "self-parent"})
	r := hx.NewRng(ctx.Seed)
	for i := 2; i < ctx.N; i++ {
		emit(gen(r.Fork()))
	}
	ctx.Finish()
}
